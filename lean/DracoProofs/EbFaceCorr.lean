import DracoProofs.EbAssembly
import DracoProofs.EbTuples
/-
  From the ROW correspondence of every attribute (EbTuples.lean) to the FACE correspondence hypotheses of
  `eb_roundtrip_conditional` (EbAssembly.lean): `hlen`, `hms`, `hσlt`, `hσinj`, `hface`.

  (1) `matchOne_item`, `collect_matchOne`: the bookkeeping of `Spec.matchOne` on the plan's geometries;
  (2) `tuples_of_rows`: row correspondence of every attribute ⇒ `decTupleL ms (point of c) = expTupleL ms (point of φ c)`;
  (3) `face_of_tuples`: the decoded face `i` is a rotation of the input face `processed[i] / 3`;
  final: `faceCorr_of_rows`; per kind: `row_of_item_kind0` … `row_of_item_kind3` (from `TupleSetup`).
-/
namespace Draco.EbEnc
open Draco Draco.SeqEnc
open Draco.Eb hiding iabs nextC prevC

namespace FaceCorr
open PosAgreeP Tuples

/-! ### the attributes of a plan in stream order -/

/-- the attributes of the plan in stream order, each with the number of values and the point map of its decoder -/
def flatN (plan : AttPlan) : List (Nat × Array Nat × AttItem) :=
  plan.flatMap fun d => d.items.map fun it => (d.n, d.map, it)

/-- the public attribute of one entry of `flatN` -/
def attrOf (opts : DecOpts) (x : Nat × Array Nat × AttItem) : Attribute := x.2.2.attribute opts x.1 x.2.1

theorem attributes_eq (opts : DecOpts) (plan : AttPlan) : plan.attributes opts = (flatN plan).map (attrOf opts) := by
  unfold AttPlan.attributes flatN DecoderItem.attributes
  rw [List.map_flatMap]
  simp only [List.map_map]
  rfl

theorem attrOf_uid (opts : DecOpts) (x : Nat × Array Nat × AttItem) :
    (attrOf opts x).uniqueId = x.2.2.desc.uniqueId := by
  unfold attrOf AttItem.attribute
  simp only [AttDesc.toAttribute]
  split
  · rfl
  · split
    · rfl
    · split
      · rfl
      · split <;> rfl
      · split <;> rfl

/-- the ordinary decode keeps the descriptor -/
theorem attrOf_desc (x : Nat × Array Nat × AttItem) :
    (attrOf {} x).attType = x.2.2.desc.attType ∧ (attrOf {} x).dataType = x.2.2.desc.dataType ∧
    (attrOf {} x).numComponents = x.2.2.desc.numComponents ∧ (attrOf {} x).normalized = x.2.2.desc.normalized := by
  unfold attrOf AttItem.attribute
  simp only [AttDesc.toAttribute, List.contains_nil, Bool.false_eq_true, if_false]
  split
  · exact ⟨rfl, rfl, rfl, rfl⟩
  · split
    · exact ⟨rfl, rfl, rfl, rfl⟩
    · split <;> exact ⟨rfl, rfl, rfl, rfl⟩
    · split <;> exact ⟨rfl, rfl, rfl, rfl⟩

/-- the all-skipped decode declares the final transform of the item -/
theorem attrOf_skip_transform (x : Nat × Array Nat × AttItem) (h5 : x.2.2.desc.attType < 5) :
    (attrOf { skip := allTypes } x).transform = x.2.2.finalTransform := by
  have hc := allTypes_contains _ h5
  unfold attrOf AttItem.attribute
  simp only [hc, if_true]
  split
  · rename_i h0
    have : x.2.2.decoderType = 0 := by simpa using h0
    simp [AttDesc.toAttribute, AttItem.finalTransform, this]
  · rfl

/-! ### (1) `Spec.matchOne` on the plan's geometries -/

/-- **the setting**: the attributes of the plan, in stream order, are a permutation of the input attributes.
    `item j` = the entry of `flatN plan` (values, point map, item) that carries input attribute `j`; `enc j` = the
    encoder's item it was made from (`itemOf`). -/
structure PlanSetting (g : Geometry) (o : EbOpts) (plan : AttPlan) (item : Nat → Nat × Array Nat × AttItem)
    (enc : Nat → EncItem) : Prop where
  /-- unique ids in stream order: a permutation of the input's -/
  perm : ((flatN plan).map fun x => x.2.2.desc.uniqueId).Perm (g.atts.map (·.uniqueId))
  mem : ∀ j, j < g.atts.length → item j ∈ flatN plan
  item_eq : ∀ j, j < g.atts.length → (item j).2.2 = itemOf o g.atts.toArray (enc j)
  attId : ∀ j, j < g.atts.length → (enc j).attId = j
  /-- attribute types are the five known ones (`AttOK.attType`) -/
  attType : ∀ a ∈ g.atts, a.attType < 5
  /-- the declared transform is the requested one (see `trOk_of_kind`) -/
  trOk : ∀ j (hj : j < g.atts.length), Spec.transformOk (item j).2.2.finalTransform
    (if encoderType g.atts[j] (o.base.att j) ≥ 2 then some (o.base.att j).quantBits.toNat else none) = true

/-- the matched triple of input attribute `ia = (j, a)` -/
def matchedOf (item : Nat → Nat × Array Nat × AttItem) (ia : Nat × Attribute) : Spec.Matched :=
  ⟨Spec.view ia.2, Spec.view (attrOf {} (item ia.1)), (item ia.1).2.2.finalTransform⟩

/-- the matched triples `Spec.checkCore` builds -/
def matchedList (g : Geometry) (item : Nat → Nat × Array Nat × AttItem) : List Spec.Matched :=
  (zipIdxFrom 0 g.atts).map (matchedOf item)

section
variable {g : Geometry} {o : EbOpts} {plan : AttPlan} {item : Nat → Nat × Array Nat × AttItem} {enc : Nat → EncItem}

theorem PlanSetting.desc (hs : PlanSetting g o plan item enc) (j : Nat) (hj : j < g.atts.length) :
    (item j).2.2.desc = descOf g.atts[j] := by
  rw [hs.item_eq j hj]
  simp only [itemOf, hs.attId j hj]
  congr 1
  simp [hj]

theorem PlanSetting.nodupFlat (hs : PlanSetting g o plan item enc) (huid : (g.atts.map (·.uniqueId)).Nodup) :
    ((flatN plan).map fun x => x.2.2.desc.uniqueId).Nodup := hs.perm.nodup_iff.mpr huid

/-- **`hlen`** -/
theorem PlanSetting.length_eq (hs : PlanSetting g o plan item enc) (opts : DecOpts) :
    g.atts.length = (plan.attributes opts).length := by
  rw [attributes_eq, List.length_map]
  have := hs.perm.length_eq
  simpa using this.symm

/-- **`matchOne`** of input attribute `j` against the ordinary and the all-skipped decode of the plan -/
theorem matchOne_item (hs : PlanSetting g o plan item enc) (huid : (g.atts.map (·.uniqueId)).Nodup) (mesh : Mesh)
    (ia : Nat × Attribute) (hia : ia ∈ zipIdxFrom 0 g.atts) :
    Spec.matchOne (quantReq g o.base) (planGeometry {} mesh plan) (planGeometry { skip := allTypes } mesh plan) ia.2 =
      some (matchedOf item ia) := by
  let L := zipIdxFrom 0 g.atts
  have hLsnd : L.map (·.2) = g.atts := zipIdxFrom_map_snd g.atts 0
  have hLnd : (L.map fun ia => ia.2.uniqueId).Nodup := by
    have : (L.map fun ia => ia.2.uniqueId) = (L.map (·.2)).map (·.uniqueId) := by rw [List.map_map]; rfl
    rw [this, hLsnd]; exact huid
  obtain ⟨j0, h1, h2⟩ := zipIdxFrom_mem g.atts 0 ia hia
  rw [Nat.zero_add] at h1
  obtain ⟨j, a⟩ := ia
  simp only at h1 h2 ⊢
  subst h1
  have hj : j < g.atts.length := by
    rcases Nat.lt_or_ge j g.atts.length with h | h
    · exact h
    · rw [List.getElem?_eq_none h] at h2; cases h2
  have ha : g.atts[j] = a := by rw [List.getElem?_eq_getElem hj] at h2; exact Option.some.inj h2
  subst ha
  have hdesc := hs.desc j hj
  have hkey : (item j).2.2.desc.uniqueId = g.atts[j].uniqueId := by rw [hdesc]; rfl
  have hFnd := hs.nodupFlat huid
  have hmem := hs.mem j hj
  unfold Spec.matchOne Spec.findAtt Spec.skipOf
  simp only [planGeometry, attributes_eq]
  rw [List.find?_map, List.findIdx?_map]
  have hfun : ((fun (x : Attribute) => x.uniqueId == g.atts[j].uniqueId) ∘ attrOf {}) =
      fun y => (fun (z : Nat × Array Nat × AttItem) => z.2.2.desc.uniqueId) y ==
        (fun (z : Nat × Array Nat × AttItem) => z.2.2.desc.uniqueId) (item j) := by
    funext y
    simp only [Function.comp, attrOf_uid, hkey]
  rw [hfun, find?_key (fun (z : Nat × Array Nat × AttItem) => z.2.2.desc.uniqueId) (flatN plan) hFnd (item j) hmem]
  obtain ⟨k, hk, hLk⟩ := List.getElem_of_mem hmem
  have hidx := findIdx?_key (fun (z : Nat × Array Nat × AttItem) => z.2.2.desc.uniqueId) (flatN plan) hFnd k hk
  rw [hLk] at hidx
  rw [hidx]
  simp only [List.getElem?_map, List.getElem?_eq_getElem hk, hLk, Option.map_some]
  -- descriptors agree
  obtain ⟨d1, d2, d3, d4⟩ := attrOf_desc (item j)
  have hdescOK : ((attrOf {} (item j)).attType != g.atts[j].attType ||
      (attrOf {} (item j)).dataType != g.atts[j].dataType ||
      (attrOf {} (item j)).numComponents != g.atts[j].numComponents ||
      (attrOf {} (item j)).normalized != g.atts[j].normalized) = false := by
    rw [d1, d2, d3, d4, hdesc]
    simp [descOf]
  rw [hdescOK]
  simp only [Bool.false_eq_true, if_false]
  -- the declared transform is the requested one
  have hlook : (quantReq g o.base).lookup g.atts[j].uniqueId =
      if encoderType g.atts[j] (o.base.att j) ≥ 2 then some (o.base.att j).quantBits.toNat else none := by
    have := lookup_filterMap_key (fun (z : Nat × Attribute) => z.2.uniqueId)
      (fun z => decide (encoderType z.2 (o.base.att z.1) ≥ 2)) (fun z => (o.base.att z.1).quantBits.toNat) L hLnd
      (j, g.atts[j]) hia
    simp only [decide_eq_true_eq] at this
    exact this
  have h5 : (item j).2.2.desc.attType < 5 := by
    rw [hdesc]; exact hs.attType _ (List.getElem_mem hj)
  rw [attrOf_skip_transform (item j) h5, hlook, hs.trOk j hj]
  rfl

/-- **`hms`** -/
theorem collect_matchOne (hs : PlanSetting g o plan item enc) (huid : (g.atts.map (·.uniqueId)).Nodup) (mesh : Mesh) :
    Spec.collect (g.atts.map (Spec.matchOne (quantReq g o.base) (planGeometry {} mesh plan)
      (planGeometry { skip := allTypes } mesh plan))) = some (matchedList g item) := by
  have hLsnd : (zipIdxFrom 0 g.atts).map (·.2) = g.atts := zipIdxFrom_map_snd g.atts 0
  conv => lhs; rw [← hLsnd, List.map_map]
  exact collect_map_some _ _ _ (matchOne_item hs huid mesh)

end

/-! ### (2) tuples -/

/-- the ROW correspondence of every attribute, at every decoder corner -/
def RowsCorr (g : Geometry) (item : Nat → Nat × Array Nat × AttItem) (facesD facesE : Array Nat) (n : Nat)
    (φ : Nat → Nat) : Prop :=
  ∀ j (hj : j < g.atts.length) c, c < 3 * n →
    (Spec.view (attrOf {} (item j))).pointRow facesD[c]! =
      Spec.expectedRow (item j).2.2.finalTransform ((Spec.view g.atts[j]).pointRow facesE[φ c]!)

/-- **tuples**: the decoded tuple of the point of a decoder corner is the expected tuple of the point of the
    corresponding encoder corner -/
theorem tuples_of_rows {g : Geometry} {item : Nat → Nat × Array Nat × AttItem} {facesD facesE : Array Nat} {n : Nat}
    {φ : Nat → Nat} (hrows : RowsCorr g item facesD facesE n φ) (c : Nat) (hc : c < 3 * n) :
    Spec.decTupleL (matchedList g item) facesD[c]! = Spec.expTupleL (matchedList g item) facesE[φ c]! := by
  unfold Spec.expTupleL Spec.decTupleL matchedList
  rw [List.flatMap_map, List.flatMap_map]
  apply flatMap_congr'
  intro ia hia
  obtain ⟨j0, h1, h2⟩ := zipIdxFrom_mem g.atts 0 ia hia
  rw [Nat.zero_add] at h1
  obtain ⟨j, a⟩ := ia
  simp only at h1 h2
  subst h1
  have hj : j < g.atts.length := by
    rcases Nat.lt_or_ge j g.atts.length with h | h
    · exact h
    · rw [List.getElem?_eq_none h] at h2; cases h2
  have ha : g.atts[j] = a := by rw [List.getElem?_eq_getElem hj] at h2; exact Option.some.inj h2
  subst ha
  simp only [matchedOf]
  rw [hrows j hj c hc]

/-! ### (3) faces -/

/-- the input face `f` in terms of the flattened faces -/
theorem face_eq_flat (fs : List (Nat × Nat × Nat)) (f : Nat) (hf : f < fs.length) :
    fs[f] = ((flattenFaces fs).toArray[3 * f]!, (flattenFaces fs).toArray[3 * f + 1]!,
      (flattenFaces fs).toArray[3 * f + 2]!) := by
  rw [flattenFaces_get fs (3 * f) (by omega), flattenFaces_get fs (3 * f + 1) (by omega),
    flattenFaces_get fs (3 * f + 2) (by omega)]
  unfold inputVertex
  have e0 : 3 * f / 3 = f := by omega
  have e1 : (3 * f + 1) / 3 = f := by omega
  have e2 : (3 * f + 2) / 3 = f := by omega
  have m0 : 3 * f % 3 = 0 := by omega
  have m1 : (3 * f + 1) % 3 = 1 := by omega
  have m2 : (3 * f + 2) % 3 = 2 := by omega
  simp only [e0, e1, e2, m0, m1, m2, List.getElem?_toArray, List.getElem?_eq_getElem hf]
  obtain ⟨x, y, z⟩ := fs[f]
  simp

/-- the decoder corners of face `i` are mapped to a rotation of the corners of the input face `processed[i] / 3` -/
theorem phi_rotation (processed : Array Nat) (i : Nat) (hlt : processed[i]! < inv) :
    let p := processed[i]!
    (p % 3 = 0 ∧ phi processed (3 * i) = 3 * (p / 3) ∧ phi processed (3 * i + 1) = 3 * (p / 3) + 1 ∧
      phi processed (3 * i + 2) = 3 * (p / 3) + 2) ∨
    (p % 3 = 1 ∧ phi processed (3 * i) = 3 * (p / 3) + 1 ∧ phi processed (3 * i + 1) = 3 * (p / 3) + 2 ∧
      phi processed (3 * i + 2) = 3 * (p / 3)) ∨
    (p % 3 = 2 ∧ phi processed (3 * i) = 3 * (p / 3) + 2 ∧ phi processed (3 * i + 1) = 3 * (p / 3) ∧
      phi processed (3 * i + 2) = 3 * (p / 3) + 1) := by
  intro p
  have e0 : 3 * i / 3 = i := by omega
  have e1 : (3 * i + 1) / 3 = i := by omega
  have e2 : (3 * i + 2) / 3 = i := by omega
  have m0 : 3 * i % 3 = 0 := by omega
  have m1 : (3 * i + 1) % 3 = 1 := by omega
  have m2 : (3 * i + 2) % 3 = 2 := by omega
  have h0 : phi processed (3 * i) = p := by simp [phi, e0, m0, p]
  have h1 : phi processed (3 * i + 1) = Eb.nextC p := by simp [phi, e1, m1, p]
  have h2 : phi processed (3 * i + 2) = Eb.prevC p := by simp [phi, e2, m2, p]
  have hn := Eb.nextC_eq p hlt
  have hpv : Eb.prevC p = if p % 3 = 0 then p + 2 else p - 1 := by
    unfold Eb.prevC inv at *
    have e : (p == 4294967295) = false := by simp; omega
    simp [e]
  rw [h0, h1, h2, hn, hpv]
  have : p % 3 = 0 ∨ p % 3 = 1 ∨ p % 3 = 2 := by omega
  rcases this with h | h | h
  · left; simp only [h]; refine ⟨trivial, ?_, ?_, ?_⟩ <;> (try simp) <;> omega
  · right; left; simp only [h]; refine ⟨trivial, ?_, ?_, ?_⟩ <;> (try simp) <;> omega
  · right; right; simp only [h]; refine ⟨trivial, ?_, ?_, ?_⟩ <;> (try simp) <;> omega

theorem facesOf_length (mesh : Mesh) : (facesOf mesh).length = mesh.numFaces := by simp [facesOf]

theorem facesOf_get (mesh : Mesh) (i : Nat) (hi : i < (facesOf mesh).length) :
    (facesOf mesh)[i] = (mesh.faces[3 * i]!, mesh.faces[3 * i + 1]!, mesh.faces[3 * i + 2]!) := by
  simp [facesOf, Array.getD_eq_getD_getElem?, Array.getElem!_eq_getD]

/-- **faces**: the canonical triangle of the decoded face `i` is that of the input face `processed[i] / 3` -/
theorem face_of_tuples (g : Geometry) (ms : List Spec.Matched) (mesh : Mesh) (processed : Array Nat)
    (htup : ∀ c, c < 3 * mesh.numFaces →
      Spec.decTupleL ms mesh.faces[c]! = Spec.expTupleL ms (flattenFaces g.faces).toArray[phi processed c]!)
    (i : Nat) (hi : i < (facesOf mesh).length) (hp : processed[i]! < 3 * g.faces.length)
    (hfits : 3 * g.faces.length ≤ inv) (hσ : processed[i]! / 3 < g.faces.length) :
    T_dec ms ((facesOf mesh)[i]) = T_exp ms (g.faces[processed[i]! / 3]'hσ) := by
  have hn : i < mesh.numFaces := by rw [facesOf_length] at hi; exact hi
  rw [facesOf_get mesh i hi, face_eq_flat g.faces _ hσ]
  simp only [T_dec, T_exp]
  rw [htup (3 * i) (by omega), htup (3 * i + 1) (by omega), htup (3 * i + 2) (by omega)]
  rcases phi_rotation processed i (by omega) with ⟨_, a, b, c⟩ | ⟨_, a, b, c⟩ | ⟨_, a, b, c⟩
  · rw [a, b, c]
  · rw [a, b, c]; exact canonTri_rot _ _ _
  · rw [a, b, c]; exact canonTri_rot' _ _ _

/-! ### the declared transform is the requested one -/

/-- **field `trOk`** for an item made by `itemOf` from the encoder's item of attribute `j`, whose kind is the
    sequential encoder type (`generateControllers`).  `hopt`: `AttOK.explicit`; `hq`: the quantization parameters the
    encoder computed; `h3`: the octahedral bits fit the byte they are written to. -/
theorem trOk_of_kind (o : EbOpts) (atts : Array Attribute) (it : EncItem) (j : Nat) (a : Attribute)
    (ha : atts[it.attId]! = a) (hid : it.attId = j) (hkind : it.kind = encoderType a (o.base.att j))
    (hopt : ∀ org r, (o.base.att j).explicitQuant = some (org, r) → r < 2 ^ 32 ∧ ∀ m ∈ org, m < 2 ^ 32)
    (hq : it.kind = 2 → ∃ p, quantizationParams a (o.base.att j) = some p)
    (h3 : it.kind = 3 → (o.base.att j).quantBits.toNat < 256) :
    Spec.transformOk (itemOf o atts it).finalTransform
      (if encoderType a (o.base.att j) ≥ 2 then some (o.base.att j).quantBits.toNat else none) = true := by
  subst hid
  unfold AttItem.finalTransform itemOf transformOfItem
  simp only [ha]
  rw [← hkind]
  rcases encoderType_cases a (o.base.att it.attId) with h | ⟨h, _⟩ | ⟨h, _⟩ | ⟨h, _⟩ <;> rw [← hkind] at h
  · simp [h, Spec.transformOk]
  · simp [h, Spec.transformOk]
  · obtain ⟨⟨mins, range, q⟩, hp⟩ := hq h
    obtain ⟨_, q30, hqb, _⟩ := quantizationParams_spec a (o.base.att it.attId) mins range q hopt hp
    have hmod : q % 256 = q := Nat.mod_eq_of_lt (by omega)
    have hto : (o.base.att it.attId).quantBits.toNat = q := by omega
    simp [h, hp, Spec.transformOk, hmod, hto]
  · have hmod := Nat.mod_eq_of_lt (h3 h)
    simp [h, Spec.transformOk, hmod]

/-! ### the face correspondence -/

/-- **`faceCorr_of_rows`**: the setting, the row correspondence of every attribute, and the facts about
    `processed_connectivity_corners_` ⇒ the hypotheses `hlen`, `hms`, `hσlt`, `hσinj`, `hface` of
    `eb_roundtrip_conditional` with `req := quantReq g o.base`, `ms := matchedList g item`,
    `σ i := processed[i]! / 3`. -/
theorem faceCorr_of_rows {g : Geometry} {o : EbOpts} {plan : AttPlan} {item : Nat → Nat × Array Nat × AttItem}
    {enc : Nat → EncItem} (hs : PlanSetting g o plan item enc) (huid : (g.atts.map (·.uniqueId)).Nodup)
    (mesh : Mesh) (processed : Array Nat)
    (hrows : RowsCorr g item mesh.faces (flattenFaces g.faces).toArray mesh.numFaces (phi processed))
    (hnf : mesh.numFaces = processed.size)
    (hproc : ∀ i, i < processed.size → processed[i]! < 3 * g.faces.length)
    (hfits : 3 * g.faces.length ≤ inv)
    (hnd : (processed.toList.map (· / 3)).Nodup) :
    g.atts.length = (plan.attributes {}).length ∧
    Spec.collect (g.atts.map (Spec.matchOne (quantReq g o.base) (planGeometry {} mesh plan)
      (planGeometry { skip := allTypes } mesh plan))) = some (matchedList g item) ∧
    ∃ hσlt : ∀ i, i < (facesOf mesh).length → processed[i]! / 3 < g.faces.length,
      (∀ i j, i < (facesOf mesh).length → j < (facesOf mesh).length →
        processed[i]! / 3 = processed[j]! / 3 → i = j) ∧
      ∀ i (hi : i < (facesOf mesh).length),
        T_dec (matchedList g item) ((facesOf mesh)[i]) =
          T_exp (matchedList g item) (g.faces[processed[i]! / 3]'(hσlt i hi)) := by
  have hlenF : (facesOf mesh).length = processed.size := by rw [facesOf_length, hnf]
  have hσlt : ∀ i, i < (facesOf mesh).length → processed[i]! / 3 < g.faces.length := by
    intro i hi
    have := hproc i (by omega)
    omega
  refine ⟨hs.length_eq {}, collect_matchOne hs huid mesh, hσlt, ?_, ?_⟩
  · intro i j hi hj hij
    have hi' : i < (processed.toList.map (· / 3)).length := by simp; omega
    have hj' : j < (processed.toList.map (· / 3)).length := by simp; omega
    apply (List.Nodup.getElem_inj_iff hnd (hi := hi') (hj := hj')).mp
    have hi2 : i < processed.size := by omega
    have hj2 : j < processed.size := by omega
    simp only [List.getElem_map, Array.getElem_toList]
    simpa [hi2, hj2] using hij
  · intro i hi
    exact face_of_tuples g _ mesh processed (fun c hc => tuples_of_rows hrows c hc) i hi (hproc i (by omega)) hfits
      (hσlt i hi)

/-! ### per kind: the row correspondence of an item from `TupleSetup` and the encoder's stage facts -/

section
variable {a : Attribute} {np : Nat} {facesE facesD : Array Nat} {npD : Nat} {dC eC : TView}
  {φ ψC : Nat → Nat} {seqD seqE : SeqOut} {mD : Array Nat}

/-- **kind 0** (generic encoder): `valueBytes` are the raw rows (`encodeItem`) -/
theorem row_of_item_kind0 (h : TupleSetup a np facesE facesD npD dC eC φ ψC seqD seqE mD)
    {rows : List Bytes} (hr : rowsAt a seqE.pointIds = .ok rows) (o : EbOpts) (atts : Array Attribute) (it : EncItem)
    (ha : atts[it.attId]! = a) (hk : it.kind = 0) (hvb : it.valueBytes = rows.flatten)
    (n c : Nat) (hc : c < 3 * dC.numFaces) :
    (Spec.view (attrOf {} (n, mD, itemOf o atts it))).pointRow facesD[c]! =
      Spec.expectedRow (itemOf o atts it).finalTransform ((Spec.view a).pointRow facesE[φ c]!) := by
  have e1 : attrOf {} (n, mD, itemOf o atts it) = decodedAtt a n rows.flatten mD := by
    simp [attrOf, AttItem.attribute, itemOf, hk, decodedAtt, ha, hvb]
  have e2 : (itemOf o atts it).finalTransform = .none := by
    simp [AttItem.finalTransform, itemOf, hk]
  rw [e1, e2]
  exact row_corr_kind0 h hr n c hc

/-- **kind 1** (integer encoder): `portable` = `integerPortable` of the rows (`portableOf`) -/
theorem row_of_item_kind1 (h : TupleSetup a np facesE facesD npD dC eC φ ψC seqD seqE mD)
    {rows : List Bytes} (hr : rowsAt a seqE.pointIds = .ok rows) (o : EbOpts) (atts : Array Attribute) (it : EncItem)
    (ha : atts[it.attId]! = a) (hk : it.kind = 1) (hp : integerPortable a rows = some it.portable.toList)
    (hdt : 1 ≤ a.dataType ∧ a.dataType ≤ 6) (hbytes : IsBytes a.values)
    (n c : Nat) (hc : c < 3 * dC.numFaces) :
    (Spec.view (attrOf {} (n, mD, itemOf o atts it))).pointRow facesD[c]! =
      Spec.expectedRow (itemOf o atts it).finalTransform ((Spec.view a).pointRow facesE[φ c]!) := by
  have e1 : attrOf {} (n, mD, itemOf o atts it) =
      decodedAtt a n (it.portable.toList.map (intToLE (dataTypeLength a.dataType))).flatten mD := by
    simp [attrOf, AttItem.attribute, itemOf, hk, decodedAtt, ha, descOf]
  have e2 : (itemOf o atts it).finalTransform = .none := by
    simp [AttItem.finalTransform, itemOf, hk]
  rw [e1, e2]
  exact row_corr_kind1 h hr hp hdt hbytes n c hc

/-- **kind 2** (quantization encoder): `portable` = `quantizedPortable` with the parameters of `quantizationParams` -/
theorem row_of_item_kind2 (h : TupleSetup a np facesE facesD npD dC eC φ ψC seqD seqE mD)
    {rows : List Bytes} (hr : rowsAt a seqE.pointIds = .ok rows) (o : EbOpts) (atts : Array Attribute) (it : EncItem)
    (ha : atts[it.attId]! = a) (hk : it.kind = 2) (mins : List Nat) (range q : Nat)
    (hq : quantizationParams a (o.base.att it.attId) = some (mins, range, q))
    (hopt : ∀ org r, (o.base.att it.attId).explicitQuant = some (org, r) → r < 2 ^ 32 ∧ ∀ m ∈ org, m < 2 ^ 32)
    (hport : it.portable.toList = quantizedPortable mins range q a.numComponents rows)
    (hd9 : a.dataType = 9) (n c : Nat) (hc : c < 3 * dC.numFaces) :
    (Spec.view (attrOf {} (n, mD, itemOf o atts it))).pointRow facesD[c]! =
      Spec.expectedRow (itemOf o atts it).finalTransform ((Spec.view a).pointRow facesE[φ c]!) := by
  obtain ⟨_, q30, _, hml, _, _⟩ := quantizationParams_spec a _ mins range q hopt hq
  have hmod : q % 256 = q := Nat.mod_eq_of_lt (by omega)
  have etr : (itemOf o atts it).transform = .quantization ((q : Nat) : Int) mins range := by
    simp [itemOf, transformOfItem, hk, ha, hq, hmod]
  have e2 : (itemOf o atts it).finalTransform = .quantization ((q : Nat) : Int) mins range := by
    simp only [AttItem.finalTransform, etr]
    simp [itemOf, hk]
  have e1 : attrOf {} (n, mD, itemOf o atts it) =
      decodedAtt a n (dequantAll range ((q : Nat) : Int).toNat mins
        (quantizedPortable mins range q a.numComponents rows) mins []).flatten mD := by
    unfold attrOf AttItem.attribute
    simp only [etr]
    simp [itemOf, hk, decodedAtt, ha, hport]
  rw [e1, e2]
  exact row_corr_kind2 h hr mins range q hd9 hml n c hc

/-- **kind 3** (normal encoder): `portable` = `octaPortable` with the tool box of the requested bits -/
theorem row_of_item_kind3 (h : TupleSetup a np facesE facesD npD dC eC φ ψC seqD seqE mD)
    {rows : List Bytes} (hr : rowsAt a seqE.pointIds = .ok rows) (o : EbOpts) (atts : Array Attribute) (it : EncItem)
    (ha : atts[it.attId]! = a) (hk : it.kind = 3) (ot : OctaT)
    (ht : Octa.init (o.base.att it.attId).quantBits.toNat = some ot)
    (h256 : (o.base.att it.attId).quantBits.toNat < 256)
    (hport : it.portable.toList = octaPortable ot rows)
    (hd9 : a.dataType = 9) (hnc3 : a.numComponents = 3) (n c : Nat) (hc : c < 3 * dC.numFaces) :
    (Spec.view (attrOf {} (n, mD, itemOf o atts it))).pointRow facesD[c]! =
      Spec.expectedRow (itemOf o atts it).finalTransform ((Spec.view a).pointRow facesE[φ c]!) := by
  have hmod := Nat.mod_eq_of_lt h256
  have etr : (itemOf o atts it).transform =
      .octahedron (((o.base.att it.attId).quantBits.toNat : Nat) : Int) := by
    simp [itemOf, transformOfItem, hk, hmod]
  have e2 : (itemOf o atts it).finalTransform =
      .octahedron (((o.base.att it.attId).quantBits.toNat : Nat) : Int) := by
    simp only [AttItem.finalTransform, etr]
    simp [itemOf, hk]
  have e1 : attrOf {} (n, mD, itemOf o atts it) =
      decodedAtt a n (octaAll (((o.base.att it.attId).quantBits.toNat : Nat) : Int).toNat
        (octaPortable ot rows) []).flatten mD := by
    unfold attrOf AttItem.attribute
    simp only [etr]
    simp [itemOf, hk, decodedAtt, ha, hport]
  rw [e1, e2]
  exact row_corr_kind3 h hr _ ot ht hd9 hnc3 n c hc

end

/-- what `portableOf` (`TransformAttributeToPortableFormat` of one sequential encoder) computed, per kind -/
theorem portableOf_cases {o : EbOpts} {a : Attribute} {s : SeqEncSt} {rows : List Bytes} {pt : Array Int × Bytes}
    (hp : portableOf o a s rows = .ok pt) :
    (s.kind = 1 → integerPortable a rows = some pt.1.toList) ∧
    (s.kind = 2 → ∃ mins range q, quantizationParams a (o.base.att s.attId) = some (mins, range, q) ∧
      pt.1.toList = quantizedPortable mins range q a.numComponents rows) ∧
    (s.kind = 3 → a.numComponents = 3 ∧ ∃ ot, Octa.init (o.base.att s.attId).quantBits.toNat = some ot ∧
      pt.1.toList = octaPortable ot rows) := by
  unfold portableOf at hp
  refine ⟨fun hk => ?_, fun hk => ?_, fun hk => ?_⟩
  · simp only [hk, beq_self_eq_true, if_true] at hp
    split at hp
    · simp [throw, throwThe, MonadExceptOf.throw] at hp
    · rename_i p hp'
      simp only [pure, Except.pure, Except.ok.injEq] at hp
      subst hp
      simpa using hp'
  · have e1 : ((2 : Nat) == 1) = false := by decide
    simp only [hk, e1, Bool.false_eq_true, if_false, beq_self_eq_true, if_true] at hp
    split at hp
    · simp [throw, throwThe, MonadExceptOf.throw] at hp
    · rename_i mins range q hq
      simp only [pure, Except.pure, Except.ok.injEq] at hp
      subst hp
      exact ⟨mins, range, q, hq, by simp⟩
  · have e1 : ((3 : Nat) == 1) = false := by decide
    have e2 : ((3 : Nat) == 2) = false := by decide
    simp only [hk, e1, e2, Bool.false_eq_true, if_false, beq_self_eq_true, if_true] at hp
    by_cases hnc : (a.numComponents != 3) = true
    · simp [hnc, throw, throwThe, MonadExceptOf.throw, bind, Except.bind] at hp
    · by_cases hqb : (o.base.att s.attId).quantBits < 1
      · simp [hnc, hqb, throw, throwThe, MonadExceptOf.throw, bind, Except.bind] at hp
      · simp only [hnc, hqb, Bool.false_eq_true, if_false, bind, Except.bind, pure, Except.pure] at hp
        split at hp
        · simp [throw, throwThe, MonadExceptOf.throw] at hp
        · rename_i ot hot
          simp only [Except.ok.injEq] at hp
          subst hp
          exact ⟨by simpa using hnc, ot, hot, by simp⟩

/-! ### (4) a face with three different position entries is not degenerate for the encoder -/

/-- the value index `Spec.checkCore` uses is `mapped` -/
theorem valueIndex_mapped (a : Attribute) (p val : Nat) (hm : mapped a p = .ok val) :
    Spec.valueIndex a (a.map.map List.toArray) p = val := by
  unfold mapped mappedIndex at hm
  unfold Spec.valueIndex
  cases hmm : a.map with
  | none =>
    rw [hmm] at hm
    simp only [Option.map_none, pure, Except.pure, Except.ok.injEq] at hm ⊢
    exact hm
  | some m =>
    rw [hmm] at hm
    simp only [Option.map_some] at hm ⊢
    have hg := rd_some.mp hm
    rw [Array.getD_eq_getD_getElem?, hg]
    rfl

/-- the three corners of face `f` of a face array -/
theorem inputVertex_face (faces : Faces) (f : Nat) (x y z : Nat) (h : faces[f]? = some (x, y, z)) :
    inputVertex faces (3 * f) = x ∧ inputVertex faces (3 * f + 1) = y ∧ inputVertex faces (3 * f + 2) = z := by
  have e0 : 3 * f / 3 = f := by omega
  have e1 : (3 * f + 1) / 3 = f := by omega
  have e2 : (3 * f + 2) / 3 = f := by omega
  have m0 : 3 * f % 3 = 0 := by omega
  have m1 : (3 * f + 1) % 3 = 1 := by omega
  have m2 : (3 * f + 2) % 3 = 2 := by omega
  unfold inputVertex
  simp [e0, e1, e2, m0, m1, m2, h]

/-- **(4)** `posFaces` built from the position value indices (`hpos_of_loop`): a face that `Spec.checkCore` counts as
    non-degenerate is not degenerate in `posFaces`.  `a` = the first POSITION attribute. -/
theorem nondeg_enc (g : Geometry) (a : Attribute) (hfind : g.atts.find? (·.attType == 0) = some a)
    (posFaces : Faces) (hsz : posFaces.size = g.faces.length)
    (hpos : ∀ c, c < 3 * g.faces.length → mapped a (inputVertex g.faces.toArray c) = .ok (inputVertex posFaces c))
    (f : Nat) (hf : f < g.faces.length) (hnd : nondegFace g g.faces[f] = true) :
    faceDegenerate posFaces f = false := by
  have hpf : f < posFaces.size := by omega
  rcases hxyz : g.faces[f] with ⟨x, y, z⟩
  rcases hxyz' : posFaces[f] with ⟨x', y', z'⟩
  obtain ⟨i0, i1, i2⟩ := inputVertex_face g.faces.toArray f x y z (by simp [hf, hxyz])
  obtain ⟨j0, j1, j2⟩ := inputVertex_face posFaces f x' y' z' (by simp [hpf, hxyz'])
  have p0 := hpos (3 * f) (by omega)
  have p1 := hpos (3 * f + 1) (by omega)
  have p2 := hpos (3 * f + 2) (by omega)
  rw [i0, j0] at p0
  rw [i1, j1] at p1
  rw [i2, j2] at p2
  have q : ∀ p val, mapped a p = .ok val → posIdx g p = val := by
    intro p val hm
    unfold posIdx
    rw [hfind]
    exact valueIndex_mapped a p val hm
  rw [hxyz] at hnd
  simp only [nondegFace, q x x' p0, q y y' p1, q z z' p2, Bool.and_eq_true, bne_iff_ne, ne_eq] at hnd
  unfold faceDegenerate
  simp only [Array.getElem?_eq_getElem hpf, hxyz']
  simp [hnd.1.1, hnd.1.2, hnd.2]

/-! ### `eb_roundtrip_conditional` with the face correspondence discharged -/

/-- `eb_roundtrip_conditional` where `hlen`, `hms`, `hσlt`, `hσinj`, `hface` come from `faceCorr_of_rows`; what remains:
    the connectivity link, `PlanOK` (twice), the setting, the row correspondence, the facts about `processed`, and the
    coverage `hcover`. -/
theorem eb_roundtrip_of_rows (ch : EbChoices) (g : Geometry) (md : Option GeometryMetadata) (o : EbOpts) (enc : Encoded)
    (henc : encodeEdgebreaker ch g md o = .ok enc) (hmd : ∀ m, md = some m → m.WF')
    (mesh : Mesh) (sides : List (SeqOut × Array Nat)) (hsides : enc.couts.size = sides.length)
    (hconn : ∀ coder, traversalCoder o g.faces.length = some coder →
      Runs decodeConnectivity 514 ([coder] ++ enc.conn.bytes) mesh 514)
    (plan : AttPlan) (hplan : plan = planOf o g.atts.toArray enc.conn enc.controllers enc.couts.toList sides)
    (hok : PlanOK {} mesh plan) (hokS : PlanOK { skip := allTypes } mesh plan)
    (huid : (g.atts.map (·.uniqueId)).Nodup)
    {item : Nat → Nat × Array Nat × AttItem} {encI : Nat → EncItem} (hs : PlanSetting g o plan item encI)
    (processed : Array Nat)
    (hrows : RowsCorr g item mesh.faces (flattenFaces g.faces).toArray mesh.numFaces (phi processed))
    (hnf : mesh.numFaces = processed.size)
    (hproc : ∀ i, i < processed.size → processed[i]! < 3 * g.faces.length)
    (hfits : 3 * g.faces.length ≤ inv)
    (hnd : (processed.toList.map (· / 3)).Nodup)
    (hcover : ∀ j (hj : j < g.faces.length), nondegFace g (g.faces[j]) = true →
      ∃ i, i < (facesOf mesh).length ∧ processed[i]! / 3 = j)
    (extra : Bytes) :
    ∃ st st',
      decodeGeometry {} { rest := enc.bytes ++ extra } = (some ⟨planGeometry {} mesh plan, md⟩, st) ∧ st.rest = extra ∧
      decodeGeometry { skip := allTypes } { rest := enc.bytes ++ extra } =
        (some ⟨planGeometry { skip := allTypes } mesh plan, md⟩, st') ∧ st'.rest = extra ∧
      Spec.checkCore .edgebreaker (quantReq g o.base) g (planGeometry {} mesh plan)
        (planGeometry { skip := allTypes } mesh plan) = true := by
  obtain ⟨hlen, hms, hσlt, hσinj, hface⟩ := faceCorr_of_rows hs huid mesh processed hrows hnf hproc hfits hnd
  exact eb_roundtrip_conditional ch g md o enc henc hmd mesh sides hsides hconn plan hplan hok hokS
    (quantReq g o.base) (matchedList g item) hlen huid hms (fun i => processed[i]! / 3) hσlt hσinj hface hcover extra

end FaceCorr

end Draco.EbEnc
