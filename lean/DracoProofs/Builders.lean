import DracoProofs.Dedup
import DracoModel.Builders
/-
  DracoProofs.Builders — `TriangleSoupMeshBuilder::Finalize` / `PointCloudBuilder::Finalize`
  preserve what the pre-finalize geometry (`MeshSpec.soup`, `PointCloudSpec.raw`) describes.
-/
namespace Draco

/-- `Finalize` of the mesh builder: the triangles of the soup, as a list -/
theorem buildMesh_triangles (s : MeshSpec) (hv : s.soup.valid = true) :
    (buildMesh s).valid = true ∧ (buildMesh s).isMesh = true ∧
    (buildMesh s).triangles = s.soup.triangles := by
  unfold buildMesh
  have hv1 := Geometry.dedupValues_valid hv
  refine ⟨Geometry.dedupPointIds_valid hv1, ?_, ?_⟩
  · rw [Geometry.dedupPointIds_isMesh, Geometry.dedupValues_isMesh]; rfl
  · rw [Geometry.dedupPointIds_triangles hv1, Geometry.dedupValues_triangles hv]

/-- `Finalize(false)` of the point cloud builder returns the raw cloud; `Finalize(true)` keeps
    the set of points -/
theorem buildPointCloud_points (s : PointCloudSpec) (hv : s.raw.valid = true) :
    (buildPointCloud s).valid = true ∧
    (s.dedup = false → buildPointCloud s = s.raw) ∧
    (∀ t, t ∈ (buildPointCloud s).points ↔ t ∈ s.raw.points) := by
  unfold buildPointCloud
  cases hd : s.dedup with
  | false => simp [hv]
  | true =>
    simp only [if_true]
    have hv1 := Geometry.dedupValues_valid hv
    refine ⟨Geometry.dedupPointIds_valid hv1, fun h => (by cases h), ?_⟩
    intro t
    rw [← Geometry.dedupValues_points hv]
    generalize s.raw.dedupValues = g
    simp only [Geometry.points, List.mem_map, List.mem_range]
    constructor
    · rintro ⟨q, hq, rfl⟩
      obtain ⟨p, hp, rfl⟩ := g.pointIdMap_surj hq
      exact ⟨p, hp, by rw [g.dedupPointIds_pointTuple hp]⟩
    · rintro ⟨p, hp, rfl⟩
      exact ⟨g.pointIdMap p, g.pointIdMap_lt hp, by rw [g.dedupPointIds_pointTuple hp]⟩

end Draco
