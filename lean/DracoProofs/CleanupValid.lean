import DracoProofs.Cleanup
/-
  DracoProofs.CleanupValid — `MeshCleanup::Cleanup` returns a valid mesh, and after
  `RemoveUnusedAttributes` nothing unused is left: every point is a face corner and every value
  entry is referenced by a point.
-/
namespace Draco
namespace Cleanup

/-! ### more about masks -/

theorem keepMask_sublist {α : Type} (m : List Bool) (xs : List α) : (keepMask m xs).Sublist xs := by
  induction m generalizing xs with
  | nil => cases xs <;> simp [keepMask]
  | cons b m ih =>
    cases xs with
    | nil => cases b <;> simp [keepMask]
    | cons x xs =>
      cases b with
      | true => exact (ih xs).cons_cons x
      | false => exact (ih xs).cons x

/-- every new number below the count is the rank of a marked item -/
theorem rank_surj (m : List Bool) (w : Nat) (h : w < m.count true) :
    ∃ v : Nat, m[v]? = some true ∧ rank m v = w := by
  induction m generalizing w with
  | nil => simp at h
  | cons b m ih =>
    cases b with
    | true =>
      cases w with
      | zero => exact ⟨0, by simp, by simp [rank]⟩
      | succ w =>
        obtain ⟨v, h1, h2⟩ := ih w (by simpa using h)
        exact ⟨v + 1, by simpa using h1, by simp [rank, h2]; omega⟩
    | false =>
      obtain ⟨v, h1, h2⟩ := ih w (by simpa using h)
      exact ⟨v + 1, by simpa using h1, by simp [rank, h2]⟩

/-! ### additional facts about the point renumbering -/

structure Renum2 (n nNew : Nat) (pc : Bool) (kept : List Nat) (P : Nat → Prop) : Prop where
  mem : ∀ i ∈ kept, P i
  nodup : kept.Nodup
  same_n : pc = false → nNew = n ∧ kept = List.range n

theorem removeUnused_renum2 (g : Geometry) (_hv : g.valid = true) :
    Renum2 g.numPoints (newNumPoints g) (pointsChanged g) (keptPoints g) (fun p => p ∈ corners g.faces) := by
  by_cases h : (marks g.numPoints (corners g.faces)).count true < g.numPoints
  · have hkept : keptPoints g = keepMask (marks g.numPoints (corners g.faces)) (List.range g.numPoints) := by
      simp only [keptPoints, h, if_true]
    refine ⟨?_, ?_, ?_⟩
    · intro i hi
      rw [hkept] at hi
      obtain ⟨j, h1, h2⟩ := keepMask_mem _ _ _ hi
      have hj := (marks_get _ _ _).1 h1
      have : j = i := by
        obtain ⟨hlt, he⟩ := List.getElem?_eq_some_iff.1 h2
        simpa using he
      subst this
      exact hj.2
    · rw [hkept]
      exact (keepMask_sublist _ _).nodup List.nodup_range
    · intro hpc
      simp only [pointsChanged, h, decide_true] at hpc
      cases hpc
  · have hkept : keptPoints g = List.range g.numPoints := by simp only [keptPoints, h, if_false]
    have hnew : newNumPoints g = g.numPoints := by simp only [newNumPoints, h, if_false]
    have hfull : (marks g.numPoints (corners g.faces)).count true = (marks g.numPoints (corners g.faces)).length := by
      have := count_le_length' (marks g.numPoints (corners g.faces))
      rw [marks_length] at this ⊢
      omega
    have hall := (count_eq_length_iff _).1 hfull
    refine ⟨?_, ?_, fun _ => ⟨hnew, hkept⟩⟩
    · intro i hi
      rw [hkept] at hi
      have hi' : i < g.numPoints := by simpa using hi
      have := hall i (by rw [marks_length]; exact hi')
      exact ((marks_get _ _ _).1 this).2
    · rw [hkept]; exact List.nodup_range

/-! ### validity of the cleaned attribute -/

theorem compact_buf {a : Attribute} {np : Nat} (hv : a.Valid np) (usedV : List Bool)
    (hl : usedV.length = a.numValues) :
    (compact usedV a).numValues * (compact usedV a).stride ≤ (compact usedV a).values.length := by
  show usedV.count true * a.stride ≤ (keepMask usedV a.entries).flatten.length
  have hlen : ∀ e ∈ keepMask usedV a.entries, e.length = a.stride := by
    intro e he
    obtain ⟨i, _, h2⟩ := keepMask_mem _ _ _ he
    exact Attribute.entries_elem_length hv e (List.mem_of_getElem? h2)
  rw [flatten_length_of a.stride _ hlen,
    keepMask_length _ _ (by rw [Attribute.entries_length, hl]; exact Nat.le_refl _)]
  exact Nat.le_refl _

/-- base attribute of `cleanAtt` (buffer possibly compacted), any map -/
theorem cleanBase_valid {a : Attribute} {n : Nat} (hv : a.Valid n) (kept : List Nat) (nNew : Nat)
    (m : Option (List Nat))
    (hid : m = none → nNew ≤ (if (usedValues kept a).count true < a.numValues then (usedValues kept a).count true else a.numValues))
    (hex : ∀ l, m = some l → l.length = nNew ∧ ∀ x ∈ l,
      x < (if (usedValues kept a).count true < a.numValues then (usedValues kept a).count true else a.numValues)) :
    ({ (if decide ((usedValues kept a).count true < a.numValues) = true then compact (usedValues kept a) a else a)
        with map := m } : Attribute).Valid nNew := by
  by_cases hac : (usedValues kept a).count true < a.numValues
  · simp only [hac, if_true, decide_true] at hid hex ⊢
    exact ⟨hv.comps, hv.dtl, compact_buf hv _ (usedValues_length kept a), hid, hex⟩
  · simp only [hac, if_false, decide_false, Bool.false_eq_true] at hid hex ⊢
    exact ⟨hv.comps, hv.dtl, hv.buf, hid, hex⟩

theorem cleanAtt_valid {n nNew : Nat} {pc : Bool} {kept : List Nat} {newId : Nat → Nat} {P : Nat → Prop}
    (R : Renum n nNew pc kept newId P) (R2 : Renum2 n nNew pc kept P) {a : Attribute} (hv : a.Valid n) :
    (cleanAtt n nNew pc kept a).Valid nNew := by
  have hcount := count_le_length' (usedValues kept a)
  rw [usedValues_length] at hcount
  -- every kept point maps to a used value; its new number is in range
  have hentry : ∀ (m : List Nat), (∀ i, i < n → m.getD i 0 = a.mappedIndex i) →
      ∀ x ∈ rewriteMap nNew kept m
          (newEntry (decide ((usedValues kept a).count true < a.numValues)) (ranksFrom 0 (usedValues kept a)).toArray),
        x < (if (usedValues kept a).count true < a.numValues then (usedValues kept a).count true else a.numValues) := by
    intro m hm x hx
    rw [rewriteMap_eq R.len] at hx
    obtain ⟨i, hi, rfl⟩ := List.mem_map.1 hx
    have hin : i < n := R.lt i hi
    rw [hm i hin]
    have hu := usedValues_of_kept hv R.lt hi
    by_cases hac : (usedValues kept a).count true < a.numValues
    · simp only [hac, decide_true, if_true]
      rw [newEntry_rank _ hu]
      exact rank_lt_count _ _ hu
    · simp only [hac, decide_false, if_false, newEntry, Bool.false_eq_true]
      exact Attribute.mappedIndex_lt hv hin
  unfold cleanAtt
  simp only
  by_cases hch : (pc || decide ((usedValues kept a).count true < a.numValues)) = true
  · simp only [hch, if_true]
    cases hmap : a.map with
    | some m =>
      apply cleanBase_valid hv kept nNew
      · intro h; cases h
      · intro l hl
        cases hl
        refine ⟨by rw [rewriteMap_eq R.len]; simp [R.len], ?_⟩
        apply hentry
        intro i _
        simp [Attribute.mappedIndex, hmap]
    | none =>
      by_cases hne : (usedValues kept a).count true ≠ nNew
      · rw [if_pos hne]
        apply cleanBase_valid hv kept nNew
        · intro h; cases h
        · intro l hl
          cases hl
          refine ⟨by rw [rewriteMap_eq R.len]; simp [R.len], ?_⟩
          apply hentry
          intro i hi
          simp [Attribute.mappedIndex, hmap, hi]
      · rw [if_neg hne]
        dsimp only
        have hne' : (usedValues kept a).count true = nNew := Decidable.not_not.mp hne
        have := cleanBase_valid hv kept nNew none
          (by
            intro _
            by_cases hac : (usedValues kept a).count true < a.numValues
            · simp only [hac, if_true]; omega
            · simp only [hac, if_false]; omega)
          (by intro l hl; cases hl)
        have hm : ∀ b : Attribute, b.map = none → ({ b with map := none } : Attribute) = b := by
          intro b hb
          cases b
          simp_all
        rw [hm] at this
        · exact this
        · by_cases hac : (usedValues kept a).count true < a.numValues
          · simp [hac, compact, hmap]
          · simp [hac, hmap]
  · have hpc : pc = false := by cases pc <;> simp_all
    simp only [hch]
    rw [(R2.same_n hpc).1]
    exact hv

/-! ### the cleaned mesh -/

theorem removeUnused_valid (g : Geometry) (hv : g.valid = true) : (removeUnused g).valid = true := by
  have R := removeUnused_renum g hv
  have R2 := removeUnused_renum2 g hv
  rw [removeUnused_eq]
  unfold Geometry.valid
  simp only [Bool.and_eq_true, List.all_eq_true]
  refine ⟨?_, ?_⟩
  · -- faces
    have hnew : ∀ p ∈ corners g.faces, newPointId g p < newNumPoints g := by
      intro p hp
      have := R.get p hp
      rw [← R.len]
      exact (List.getElem?_eq_some_iff.1 this).1
    intro f hf
    by_cases hpc : pointsChanged g = true
    · simp only [hpc, if_true] at hf
      obtain ⟨f0, hf0, rfl⟩ := List.mem_map.1 hf
      have h1 := hnew _ ((mem_corners _ _).2 ⟨f0, hf0, Or.inl rfl⟩)
      have h2 := hnew _ ((mem_corners _ _).2 ⟨f0, hf0, Or.inr (Or.inl rfl)⟩)
      have h3 := hnew _ ((mem_corners _ _).2 ⟨f0, hf0, Or.inr (Or.inr rfl)⟩)
      simp [h1, h2, h3]
    · have hpc' : pointsChanged g = false := by simpa using hpc
      simp only [hpc', Bool.false_eq_true, if_false] at hf
      rw [(R2.same_n hpc').1]
      obtain ⟨h1, h2, h3⟩ := Geometry.valid_faces hv f hf
      obtain ⟨a, b, c⟩ := f
      simp_all
  · intro a' ha'
    obtain ⟨a, ha, rfl⟩ := List.mem_map.1 ha'
    exact (Attribute.valid_iff _ _).2 (cleanAtt_valid R R2 (Geometry.valid_atts hv a ha))

/-- `MeshCleanup::Cleanup` returns a valid mesh -/
theorem run_valid {o : CleanupOpts} {g g' : Geometry} (hv : g.valid = true) (h : run o g = some g') :
    g'.valid = true := by
  rcases run_eq h with ⟨_, _, _, _, hg⟩ | ⟨pos, _, hg⟩
  · rw [hg]; exact hv
  · have hok := storedFaces_ok o pos g.faces (facesOk_of_valid hv)
    have hv1 : ({ g with faces := storedFaces o pos g.faces } : Geometry).valid = true := valid_of_faces hv _ hok
    rw [hg]
    split
    · exact removeUnused_valid _ hv1
    · exact hv1

/-! ### nothing unused is left -/

/-- after `RemoveUnusedAttributes` every point is a corner of some face -/
theorem removeUnused_points_used (g : Geometry) (hv : g.valid = true) :
    ∀ q, q < (removeUnused g).numPoints → q ∈ corners (removeUnused g).faces := by
  have R := removeUnused_renum g hv
  have R2 := removeUnused_renum2 g hv
  intro q hq
  have hq' : q < newNumPoints g := by rw [removeUnused_eq] at hq; exact hq
  rw [← R.len] at hq'
  -- q is the new number of the old point kept[q], a corner of g
  have hp : (keptPoints g)[q] ∈ corners g.faces := R2.mem _ (List.getElem_mem hq')
  have hid : newPointId g (keptPoints g)[q] = q := by
    have h1 := R.get _ hp
    obtain ⟨hlt, he⟩ := List.getElem?_eq_some_iff.1 h1
    exact (List.getElem_inj R2.nodup).1 he
  obtain ⟨f, hf, hc⟩ := (mem_corners _ _).1 hp
  by_cases hpc : pointsChanged g = true
  · have hfaces : (removeUnused g).faces =
        g.faces.map fun f => (newPointId g f.1, newPointId g f.2.1, newPointId g f.2.2) := by
      rw [removeUnused_eq]; simp [hpc]
    rw [hfaces, mem_corners]
    refine ⟨_, List.mem_map.2 ⟨f, hf, rfl⟩, ?_⟩
    rcases hc with hc | hc | hc
    · left; rw [← hc, hid]
    · right; left; rw [← hc, hid]
    · right; right; rw [← hc, hid]
  · have hpc' : pointsChanged g = false := by simpa using hpc
    have hfaces : (removeUnused g).faces = g.faces := by
      rw [removeUnused_eq]; simp [hpc']
    rw [hfaces]
    have : (keptPoints g)[q] = q := by
      have := (R2.same_n hpc').2
      simp [this]
    rw [← this]
    exact hp

/-- after the per-attribute step every value entry is referenced by a (new) point -/
theorem cleanAtt_values_used {n nNew : Nat} {pc : Bool} {kept : List Nat} {newId : Nat → Nat} {P : Nat → Prop}
    (R : Renum n nNew pc kept newId P) (_R2 : Renum2 n nNew pc kept P) {a : Attribute} (_hv : a.Valid n)
    (hpc : pc = true ∨ (usedValues kept a).count true < a.numValues) :
    ∀ w, w < (cleanAtt n nNew pc kept a).numValues →
      ∃ q, q < nNew ∧ (cleanAtt n nNew pc kept a).mappedIndex q = w := by
  have hcount := count_le_length' (usedValues kept a)
  rw [usedValues_length] at hcount
  have hch : (pc || decide ((usedValues kept a).count true < a.numValues)) = true := by
    rcases hpc with h | h
    · simp [h]
    · simp [h]
  -- explicit maps: some kept point carries the value
  have hexp : ∀ (m : List Nat), (∀ i, i < n → m.getD i 0 = a.mappedIndex i) →
      ∀ w, w < (if (usedValues kept a).count true < a.numValues then (usedValues kept a).count true else a.numValues) →
        ∃ q, q < nNew ∧
          (rewriteMap nNew kept m
            (newEntry (decide ((usedValues kept a).count true < a.numValues)) (ranksFrom 0 (usedValues kept a)).toArray)).getD q 0 = w := by
    intro m hm w hw
    -- a used old value v with new number w
    have hv' : ∃ v, (usedValues kept a)[v]? = some true ∧
        newEntry (decide ((usedValues kept a).count true < a.numValues)) (ranksFrom 0 (usedValues kept a)).toArray v = w := by
      by_cases hac : (usedValues kept a).count true < a.numValues
      · simp only [hac, if_true] at hw
        obtain ⟨v, h1, h2⟩ := rank_surj _ w hw
        refine ⟨v, h1, ?_⟩
        simp only [hac, decide_true]
        rw [newEntry_rank _ h1, h2]
      · simp only [hac, if_false] at hw
        have hfull : (usedValues kept a).count true = (usedValues kept a).length := by
          rw [usedValues_length]; omega
        have hall := (count_eq_length_iff _).1 hfull
        refine ⟨w, hall w (by rw [usedValues_length]; exact hw), ?_⟩
        simp [hac, newEntry]
    obtain ⟨v, hv1, hv2⟩ := hv'
    obtain ⟨_, i, hi, hiv⟩ := (usedValues_get kept a v).1 hv1
    obtain ⟨q, hq, hqe⟩ := List.getElem_of_mem hi
    refine ⟨q, by rw [← R.len]; exact hq, ?_⟩
    rw [rewriteMap_eq R.len, getD_eq_getElem' _ _ (by simpa using hq)]
    simp only [List.getElem_map, hqe, hm i (R.lt i hi), hiv, hv2]
  unfold cleanAtt
  simp only [hch, if_true]
  cases hmap : a.map with
  | some m =>
    intro w hw
    have hw' : w < (if (usedValues kept a).count true < a.numValues then (usedValues kept a).count true else a.numValues) := by
      by_cases hac : (usedValues kept a).count true < a.numValues
      · simp only [hac, decide_true, if_true] at hw ⊢; exact hw
      · simp only [hac, decide_false, Bool.false_eq_true, if_false] at hw ⊢; exact hw
    obtain ⟨q, hq, he⟩ := hexp m (by intro i _; simp [Attribute.mappedIndex, hmap]) w hw'
    exact ⟨q, hq, he⟩
  | none =>
    by_cases hne : (usedValues kept a).count true ≠ nNew
    · rw [if_pos hne]
      intro w hw
      have hw' : w < (if (usedValues kept a).count true < a.numValues then (usedValues kept a).count true else a.numValues) := by
        by_cases hac : (usedValues kept a).count true < a.numValues
        · simp only [hac, decide_true, if_true] at hw ⊢; exact hw
        · simp only [hac, decide_false, Bool.false_eq_true, if_false] at hw ⊢; exact hw
      obtain ⟨q, hq, he⟩ := hexp (List.range n) (by intro i hi; simp [Attribute.mappedIndex, hmap, hi]) w hw'
      exact ⟨q, hq, he⟩
    · rw [if_neg hne]
      dsimp only
      have hne' : (usedValues kept a).count true = nNew := Decidable.not_not.mp hne
      intro w hw
      have hwn : w < nNew := by
        by_cases hac : (usedValues kept a).count true < a.numValues
        · simp only [hac, decide_true, if_true] at hw
          have : (compact (usedValues kept a) a).numValues = (usedValues kept a).count true := rfl
          omega
        · simp only [hac, decide_false, Bool.false_eq_true, if_false] at hw
          omega
      refine ⟨w, hwn, ?_⟩
      by_cases hac : (usedValues kept a).count true < a.numValues
      · simp [hac, Attribute.mappedIndex, compact, hmap]
      · simp [hac, Attribute.mappedIndex, hmap]

/-- after `RemoveUnusedAttributes` every value entry of every attribute is referenced by a point -/
theorem removeUnused_values_used (g : Geometry) (hv : g.valid = true) :
    ∀ a' ∈ (removeUnused g).atts, ∀ w, w < a'.numValues →
      ∃ q, q < (removeUnused g).numPoints ∧ a'.mappedIndex q = w := by
  have R := removeUnused_renum g hv
  have R2 := removeUnused_renum2 g hv
  intro a' ha' w hw
  have hnp : (removeUnused g).numPoints = newNumPoints g := by rw [removeUnused_eq]
  rw [hnp]
  rw [removeUnused_eq] at ha'
  obtain ⟨a, ha, rfl⟩ := List.mem_map.1 ha'
  have hva := Geometry.valid_atts hv a ha
  by_cases hpc : pointsChanged g = true ∨ (usedValues (keptPoints g) a).count true < a.numValues
  · exact cleanAtt_values_used R R2 hva hpc w hw
  · -- nothing changed: every value was used already
    have hpc' : pointsChanged g = false := by
      cases h : pointsChanged g
      · rfl
      · exact absurd (Or.inl h) hpc
    have hac : ¬ (usedValues (keptPoints g) a).count true < a.numValues := fun h => hpc (Or.inr h)
    have hun : cleanAtt g.numPoints (newNumPoints g) (pointsChanged g) (keptPoints g) a = a := by
      unfold cleanAtt
      simp [hpc', hac]
    rw [hun] at hw ⊢
    have hcount := count_le_length' (usedValues (keptPoints g) a)
    rw [usedValues_length] at hcount
    have hfull : (usedValues (keptPoints g) a).count true = (usedValues (keptPoints g) a).length := by
      rw [usedValues_length]; omega
    have hall := (count_eq_length_iff _).1 hfull
    have := hall w (by rw [usedValues_length]; exact hw)
    obtain ⟨_, i, hi, hiv⟩ := (usedValues_get _ a w).1 this
    refine ⟨i, ?_, hiv⟩
    rw [(R2.same_n hpc').1]
    exact R.lt i hi

end Cleanup
end Draco
