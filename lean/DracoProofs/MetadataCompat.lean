import DracoProofs.MetadataStatus
/-
  The repaired decoder is a conservative extension of the decoder as written: every stream
  that `DecodeMetadata` accepts today is accepted with the same result.
-/
namespace Draco

theorem decodeEntry_compat (bs : Bytes) (r : (Bytes × Bytes) × Bytes)
    (h : decodeEntry false bs = some r) : decodeEntry true bs = some r := by
  unfold decodeEntry at h ⊢
  split at h
  · cases h
  · rename_i name bs1 hn
    split at h
    · cases h
    · rename_i dataSize bs2 hv
      split at h
      · cases h
      · have h0 : ¬ (dataSize = 0 ∧ true = false) := by simp
        rw [if_neg h0]
        exact h

theorem decodeEntries_compat : ∀ (n : Nat) (acc : List (Bytes × Bytes)) (bs : Bytes)
    (r : List (Bytes × Bytes) × Bytes),
    decodeEntries false n acc bs = some r → decodeEntries true n acc bs = some r := by
  intro n
  induction n with
  | zero => intro acc bs r h; exact h
  | succ n ih =>
    intro acc bs r h
    simp only [decodeEntries] at h ⊢
    split at h
    · cases h
    · rename_i name value bs1 he
      rw [decodeEntry_compat bs _ he]
      exact ih _ _ _ h

theorem decodeSubsWith_mono (c c' : Rd Metadata)
    (hc : ∀ bs r, c bs = some r → c' bs = some r) :
    ∀ (k : Nat) (acc : List (Bytes × Metadata)) (bs : Bytes)
      (r : List (Bytes × Metadata) × Bytes),
      decodeSubsWith c k acc bs = some r → decodeSubsWith c' k acc bs = some r := by
  intro k
  induction k with
  | zero => intro acc bs r h; exact h
  | succ k ih =>
    intro acc bs r h
    simp only [decodeSubsWith] at h ⊢
    split at h
    · cases h
    · rename_i name bs1 hn
      split at h
      · cases h
      · rename_i m bs2 hm
        rw [hc _ _ hm]
        simp only
        split at h
        · cases h
        · rename_i acc' hi
          exact ih _ _ _ h

theorem decodeNode_compat : ∀ (f : Nat) (hp : Bool) (lvl : Nat) (bs : Bytes)
    (r : Metadata × Bytes),
    decodeNode false f hp lvl bs = some r → decodeNode true f hp lvl bs = some r := by
  intro f
  induction f with
  | zero => intro hp lvl bs r h; cases h
  | succ f ih =>
    intro hp lvl bs r h
    simp only [decodeNode] at h ⊢
    split at h
    · cases h
    · rename_i numEntries bs1 h1
      split at h
      · cases h
      · rename_i es bs2 h2
        rw [decodeEntries_compat _ _ _ _ h2]
        simp only
        split at h
        · cases h
        · rename_i numSubs bs3 h3
          by_cases h4 : numSubs > bs3.length
          · rw [if_pos h4] at h; cases h
          · rw [if_neg h4] at h ⊢
            by_cases h5 : numSubs ≠ 0 ∧ (if hp = true then lvl + 1 else lvl) > kMaxSubmetadataLevel
            · rw [if_pos h5] at h; cases h
            · rw [if_neg h5] at h ⊢
              split at h
              · cases h
              · rename_i ss bs4 h6
                rw [decodeSubsWith_mono _ _ (ih true _) _ _ _ _ h6]
                exact h

/-- every stream accepted by `DecodeMetadata` as written decodes identically after the repair -/
theorem decodeMetadataFixed_compat (bs : Bytes) (r : Metadata × Bytes)
    (h : decodeMetadata bs = some r) : decodeMetadataFixed bs = some r :=
  decodeNode_compat _ _ _ _ _ h

theorem decodeAtts_mono (c c' : Rd Metadata) (hc : ∀ bs r, c bs = some r → c' bs = some r) :
    ∀ (n : Nat) (acc : List (Nat × Metadata)) (bs : Bytes) (r : List (Nat × Metadata) × Bytes),
      decodeAtts c n acc bs = some r → decodeAtts c' n acc bs = some r := by
  intro n
  induction n with
  | zero => intro acc bs r h; exact h
  | succ n ih =>
    intro acc bs r h
    simp only [decodeAtts] at h ⊢
    split at h
    · cases h
    · rename_i id bs1 h1
      split at h
      · cases h
      · rename_i m bs2 h2
        rw [hc _ _ h2]
        exact ih _ _ _ h

theorem decodeGeometryMetadataFixed_compat (bs : Bytes) (r : GeometryMetadata × Bytes)
    (h : decodeGeometryMetadata bs = some r) : decodeGeometryMetadataFixed bs = some r := by
  unfold decodeGeometryMetadata decodeGeometryMetadataFixed decodeGeometryWith at *
  split at h
  · cases h
  · rename_i n bs1 h1
    split at h
    · cases h
    · rename_i atts bs2 h2
      rw [decodeAtts_mono _ _ decodeMetadataFixed_compat _ _ _ _ h2]
      simp only
      split at h
      · cases h
      · rename_i root bs3 h3
        rw [decodeMetadataFixed_compat _ _ h3]
        exact h

end Draco
