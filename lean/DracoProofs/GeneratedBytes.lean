import DracoProofs.GeneratedCore
import DracoModel.Rabs
import DracoModel.Varint
/-
  DracoProofs.GeneratedBytes — the byte-writing functions `ans_write_end` (ans.h) and `EncodeVarint` (core/varint_encoding.h)
  equal the model's `ansWriteEnd` / `encVarint`
  (lean/Generated/Funcs.lean, translated from clang's AST of /repo on every run by tools/vlib/xlate.py).
-/
namespace Draco.Generated
open Draco Draco.CInt

/-- `ans_write_end`: the bytes written at `buf[buf_offset ..]` and the returned size are those of `ansWriteEnd` -/
theorem ans_write_end_eq_model (a : Draco.AnsCoder) (hs : a.state < 2^32) (hl : a.out.length + 3 < 2^31) :
    let g := ans_write_end ⟨a.out.length, a.state⟩
    (ansWriteEnd a).map Int.ofNat = a.out.reverse.map Int.ofNat ++ g.2.map Prod.snd ∧
    g.2.map Prod.fst = (List.range g.2.length).map (fun i => ((a.out.length + i : Nat) : Int)) ∧
    g.1 = (ansWriteEnd a).length := by
  dsimp only
  unfold ans_write_end ansWriteEnd mem_put_le16 mem_put_le24 shiftLog ansL
  c_const
  simp only [cAnd32_255]
  have es : wrapU32 ((a.state : Int) - 4096) = (((a.state + 2^32 - 4096) % 2^32 : Nat) : Int) := by
    unfold wrapU32; omega
  rw [es]
  have hs' : (a.state + 2^32 - 4096) % 2^32 < 2^32 := Nat.mod_lt _ (by decide)
  generalize (a.state + 2^32 - 4096) % 2^32 = s at hs' ⊢
  by_cases h6 : s < 2^6
  · have h' : (s : Int) < 64 := by omega
    simp only [h6, h', if_true]
    refine ⟨?_, ?_, ?_⟩
    · simp [wrapU8, wrapU32] <;> omega
    · simp
    · simp <;> omega
  · have n6 : ¬ ((s : Int) < 64) := by omega
    simp only [h6, n6, if_false]
    by_cases h14 : s < 2^14
    · have h' : (s : Int) < 16384 := by omega
      simp only [h14, h', if_true]
      refine ⟨?_, ?_, ?_⟩
      · simp [wrapU8, wrapU32] <;> omega
      · simp [List.range_succ]
      · simp <;> omega
    · have n14 : ¬ ((s : Int) < 16384) := by omega
      simp only [h14, n14, if_false]
      by_cases h22 : s < 2^22
      · have h' : (s : Int) < 4194304 := by omega
        simp only [h22, h', if_true]
        refine ⟨?_, ?_, ?_⟩
        · simp [wrapU8, wrapU32] <;> omega
        · simp [List.range_succ]
        · simp <;> omega
      · have n22 : ¬ ((s : Int) < 4194304) := by omega
        simp only [h22, n22, if_false]
        simp


theorem encVarintFuel_u32 (f : Nat) : ∀ (g : Nat) (v : Int), 1 ≤ f → f ≤ g + 1 → 0 ≤ v → v < 2^32 → v < 128^f →
    EncodeVarint_u32 f v = some (true, (encVarintFuel g v.toNat).map Int.ofNat) := by
  induction f with
  | zero => intro g v h; omega
  | succ f ih =>
    intro g v _ hg h0 h32 hv
    unfold EncodeVarint_u32
    c_const
    simp only [cAnd32_127]
    have a1 : cOr 32 0 (v % 128) = v % 128 := cOr_zero 32 _ (by omega) (by omega)
    have a2 : wrapU8 (v % 128) = v % 128 := wrapU8_id _ (by omega) (by omega)
    have a3 : cOr 32 (v % 128) 128 = v % 128 + 128 := cOr32_128 _ (by omega) (by omega)
    have a4 : wrapI32 (v % 128 + 128) = v % 128 + 128 := wrapI32_id _ (by omega) (by omega)
    have a5 : wrapU8 (v % 128 + 128) = v % 128 + 128 := wrapU8_id _ (by omega) (by omega)
    simp only [a1, a2, a3, a4, a5]
    by_cases h : v ≥ 128
    · rw [if_pos h]
      have hf : f ≠ 0 := by rintro rfl; omega
      obtain ⟨g', rfl⟩ : ∃ g', g = g' + 1 := ⟨g - 1, by omega⟩
      have hv' : v / 128 < 128 ^ f := by
        rw [Int.pow_succ] at hv; omega
      rw [ih g' (v / 128) (by omega) (by omega) (by omega) (by omega) hv']
      have e1 : (v / 128).toNat = v.toNat / 128 := by omega
      have e2 : v.toNat ≥ 128 := by omega
      simp [encVarintFuel, e1, e2] <;> omega
    · rw [if_neg h]
      have e2 : ¬ v.toNat ≥ 128 := by omega
      cases g <;> simp [encVarintFuel, e2] <;> omega

theorem encVarintFuel_u64 (f : Nat) : ∀ (g : Nat) (v : Int), 1 ≤ f → f ≤ g + 1 → 0 ≤ v → v < 2^64 → v < 128^f →
    EncodeVarint_u64 f v = some (true, (encVarintFuel g v.toNat).map Int.ofNat) := by
  induction f with
  | zero => intro g v h; omega
  | succ f ih =>
    intro g v _ hg h0 h32 hv
    unfold EncodeVarint_u64
    c_const
    simp only [cAnd64_127]
    have a1 : cOr 64 0 (v % 128) = v % 128 := cOr_zero 64 _ (by omega) (by omega)
    have a2 : wrapU8 (v % 128) = v % 128 := wrapU8_id _ (by omega) (by omega)
    have a3 : cOr 32 (v % 128) 128 = v % 128 + 128 := cOr32_128 _ (by omega) (by omega)
    have a4 : wrapI32 (v % 128 + 128) = v % 128 + 128 := wrapI32_id _ (by omega) (by omega)
    have a5 : wrapU8 (v % 128 + 128) = v % 128 + 128 := wrapU8_id _ (by omega) (by omega)
    simp only [a1, a2, a3, a4, a5]
    by_cases h : v ≥ 128
    · rw [if_pos h]
      have hf : f ≠ 0 := by rintro rfl; omega
      obtain ⟨g', rfl⟩ : ∃ g', g = g' + 1 := ⟨g - 1, by omega⟩
      have hv' : v / 128 < 128 ^ f := by
        rw [Int.pow_succ] at hv; omega
      rw [ih g' (v / 128) (by omega) (by omega) (by omega) (by omega) hv']
      have e1 : (v / 128).toNat = v.toNat / 128 := by omega
      have e2 : v.toNat ≥ 128 := by omega
      simp [encVarintFuel, e1, e2] <;> omega
    · rw [if_neg h]
      have e2 : ¬ v.toNat ≥ 128 := by omega
      cases g <;> simp [encVarintFuel, e2] <;> omega

/-- `EncodeVarint<uint32_t>` (recursion unrolled with fuel 5 = ⌈32/7⌉ groups) always succeeds and appends `encVarint v` -/
theorem EncodeVarint_u32_eq_model (v : Int) (hv : U32 v) :
    EncodeVarint_u32 5 v = some (true, (encVarint v.toNat).map Int.ofNat) := by
  unfold U32 at hv
  exact encVarintFuel_u32 5 10 v (by omega) (by omega) hv.1 hv.2 (by omega)

/-- `EncodeVarint<uint64_t>` with fuel 10 = ⌈64/7⌉ groups -/
theorem EncodeVarint_u64_eq_model (v : Int) (h0 : 0 ≤ v) (h1 : v < 2^64) :
    EncodeVarint_u64 10 v = some (true, (encVarint v.toNat).map Int.ofNat) :=
  encVarintFuel_u64 10 10 v (by omega) (by omega) h0 h1 (by omega)


/-- the recursion limit of `DecodeVarintUnsigned<uint32_t>`: `max_depth = sizeof(T) + 1 + (sizeof(T) >> 3)` is the
    model's `varintMaxDepth 32`, and the call fails exactly when `depth > max_depth` -/
theorem DecodeVarintUnsigned_depthCheck_u32_eq_model (depth : Int) (h0 : 0 ≤ depth) (h1 : depth < 2^31) :
    DecodeVarintUnsigned_depthCheck_u32 depth =
      (if depth > (varintMaxDepth 32 : Nat) then some false else none, ((varintMaxDepth 32 : Nat) : Int)) := by
  unfold DecodeVarintUnsigned_depthCheck_u32
  have e : varintMaxDepth 32 = 5 := by decide
  rw [e]
  c_const
  c_eq

theorem DecodeVarintUnsigned_depthCheck_u64_eq_model (depth : Int) (h0 : 0 ≤ depth) (h1 : depth < 2^31) :
    DecodeVarintUnsigned_depthCheck_u64 depth =
      (if depth > (varintMaxDepth 64 : Nat) then some false else none, ((varintMaxDepth 64 : Nat) : Int)) := by
  unfold DecodeVarintUnsigned_depthCheck_u64
  have e : varintMaxDepth 64 = 10 := by decide
  rw [e]
  c_const
  c_eq

end Draco.Generated
