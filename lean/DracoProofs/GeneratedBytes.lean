import DracoProofs.GeneratedCore
import DracoModel.Rabs
import DracoModel.Varint
/-
  DracoProofs.GeneratedBytes — the byte-writing functions `ans_write_end` (ans.h) and `EncodeVarint` (core/varint_encoding.h)
  equal the model's `ansWriteEnd` / `encVarint`
  (lean/Generated/Funcs.lean, translated from clang's AST of /repo on every run by tools/vlib/xlate.py).
-/
namespace Draco.Generated
open Draco Draco.CInt

/-- `ans_write_end`: the bytes written at `buf[buf_offset ..]` and the returned size are those of `ansWriteEnd` -/
theorem ans_write_end_eq_model (a : Draco.AnsCoder) (hs : a.state < 2^32) (hl : a.out.length + 3 < 2^31) :
    let g := ans_write_end ⟨a.out.length, a.state⟩
    (ansWriteEnd a).map Int.ofNat = a.out.reverse.map Int.ofNat ++ g.2.map Prod.snd ∧
    g.2.map Prod.fst = (List.range g.2.length).map (fun i => ((a.out.length + i : Nat) : Int)) ∧
    g.1 = (ansWriteEnd a).length := by
  dsimp only
  unfold ans_write_end ansWriteEnd mem_put_le16 mem_put_le24 shiftLog ansL
  c_const
  simp only [cAnd32_255]
  have es : wrapU32 ((a.state : Int) - 4096) = (((a.state + 2^32 - 4096) % 2^32 : Nat) : Int) := by
    unfold wrapU32; omega
  rw [es]
  have hs' : (a.state + 2^32 - 4096) % 2^32 < 2^32 := Nat.mod_lt _ (by decide)
  generalize (a.state + 2^32 - 4096) % 2^32 = s at hs' ⊢
  by_cases h6 : s < 2^6
  · have h' : (s : Int) < 64 := by omega
    simp only [h6, h', if_true]
    refine ⟨?_, ?_, ?_⟩
    · simp [wrapU8, wrapU32] <;> omega
    · simp
    · simp <;> omega
  · have n6 : ¬ ((s : Int) < 64) := by omega
    simp only [h6, n6, if_false]
    by_cases h14 : s < 2^14
    · have h' : (s : Int) < 16384 := by omega
      simp only [h14, h', if_true]
      refine ⟨?_, ?_, ?_⟩
      · simp [wrapU8, wrapU32] <;> omega
      · simp [List.range_succ]
      · simp <;> omega
    · have n14 : ¬ ((s : Int) < 16384) := by omega
      simp only [h14, n14, if_false]
      by_cases h22 : s < 2^22
      · have h' : (s : Int) < 4194304 := by omega
        simp only [h22, h', if_true]
        refine ⟨?_, ?_, ?_⟩
        · simp [wrapU8, wrapU32] <;> omega
        · simp [List.range_succ]
        · simp <;> omega
      · have n22 : ¬ ((s : Int) < 4194304) := by omega
        simp only [h22, n22, if_false]
        simp


theorem encVarintFuel_u32 (f : Nat) : ∀ (g : Nat) (v : Int), 1 ≤ f → f ≤ g + 1 → 0 ≤ v → v < 2^32 → v < 128^f →
    EncodeVarint_u32 f v = some (true, (encVarintFuel g v.toNat).map Int.ofNat) := by
  induction f with
  | zero => intro g v h; omega
  | succ f ih =>
    intro g v _ hg h0 h32 hv
    unfold EncodeVarint_u32
    c_const
    simp only [cAnd32_127]
    have a1 : cOr 32 0 (v % 128) = v % 128 := cOr_zero 32 _ (by omega) (by omega)
    have a2 : wrapU8 (v % 128) = v % 128 := wrapU8_id _ (by omega) (by omega)
    have a3 : cOr 32 (v % 128) 128 = v % 128 + 128 := cOr32_128 _ (by omega) (by omega)
    have a4 : wrapI32 (v % 128 + 128) = v % 128 + 128 := wrapI32_id _ (by omega) (by omega)
    have a5 : wrapU8 (v % 128 + 128) = v % 128 + 128 := wrapU8_id _ (by omega) (by omega)
    simp only [a1, a2, a3, a4, a5]
    by_cases h : v ≥ 128
    · rw [if_pos h]
      have hf : f ≠ 0 := by rintro rfl; omega
      obtain ⟨g', rfl⟩ : ∃ g', g = g' + 1 := ⟨g - 1, by omega⟩
      have hv' : v / 128 < 128 ^ f := by
        rw [Int.pow_succ] at hv; omega
      rw [ih g' (v / 128) (by omega) (by omega) (by omega) (by omega) hv']
      have e1 : (v / 128).toNat = v.toNat / 128 := by omega
      have e2 : v.toNat ≥ 128 := by omega
      simp [encVarintFuel, e1, e2] <;> omega
    · rw [if_neg h]
      have e2 : ¬ v.toNat ≥ 128 := by omega
      cases g <;> simp [encVarintFuel, e2] <;> omega

theorem encVarintFuel_u64 (f : Nat) : ∀ (g : Nat) (v : Int), 1 ≤ f → f ≤ g + 1 → 0 ≤ v → v < 2^64 → v < 128^f →
    EncodeVarint_u64 f v = some (true, (encVarintFuel g v.toNat).map Int.ofNat) := by
  induction f with
  | zero => intro g v h; omega
  | succ f ih =>
    intro g v _ hg h0 h32 hv
    unfold EncodeVarint_u64
    c_const
    simp only [cAnd64_127]
    have a1 : cOr 64 0 (v % 128) = v % 128 := cOr_zero 64 _ (by omega) (by omega)
    have a2 : wrapU8 (v % 128) = v % 128 := wrapU8_id _ (by omega) (by omega)
    have a3 : cOr 32 (v % 128) 128 = v % 128 + 128 := cOr32_128 _ (by omega) (by omega)
    have a4 : wrapI32 (v % 128 + 128) = v % 128 + 128 := wrapI32_id _ (by omega) (by omega)
    have a5 : wrapU8 (v % 128 + 128) = v % 128 + 128 := wrapU8_id _ (by omega) (by omega)
    simp only [a1, a2, a3, a4, a5]
    by_cases h : v ≥ 128
    · rw [if_pos h]
      have hf : f ≠ 0 := by rintro rfl; omega
      obtain ⟨g', rfl⟩ : ∃ g', g = g' + 1 := ⟨g - 1, by omega⟩
      have hv' : v / 128 < 128 ^ f := by
        rw [Int.pow_succ] at hv; omega
      rw [ih g' (v / 128) (by omega) (by omega) (by omega) (by omega) hv']
      have e1 : (v / 128).toNat = v.toNat / 128 := by omega
      have e2 : v.toNat ≥ 128 := by omega
      simp [encVarintFuel, e1, e2] <;> omega
    · rw [if_neg h]
      have e2 : ¬ v.toNat ≥ 128 := by omega
      cases g <;> simp [encVarintFuel, e2] <;> omega

/-- `EncodeVarint<uint32_t>` (recursion unrolled with fuel 5 = ⌈32/7⌉ groups) always succeeds and appends `encVarint v` -/
theorem EncodeVarint_u32_eq_model (v : Int) (hv : U32 v) :
    EncodeVarint_u32 5 v = some (true, (encVarint v.toNat).map Int.ofNat) := by
  unfold U32 at hv
  exact encVarintFuel_u32 5 10 v (by omega) (by omega) hv.1 hv.2 (by omega)

/-- `EncodeVarint<uint64_t>` with fuel 10 = ⌈64/7⌉ groups -/
theorem EncodeVarint_u64_eq_model (v : Int) (h0 : 0 ≤ v) (h1 : v < 2^64) :
    EncodeVarint_u64 10 v = some (true, (encVarint v.toNat).map Int.ofNat) :=
  encVarintFuel_u64 10 10 v (by omega) (by omega) h0 h1 (by omega)


/-- the recursion limit of `DecodeVarintUnsigned<uint32_t>`: `max_depth = sizeof(T) + 1 + (sizeof(T) >> 3)` is the
    model's `varintMaxDepth 32`, and the call fails exactly when `depth > max_depth` -/
theorem DecodeVarintUnsigned_depthCheck_u32_eq_model (depth : Int) (h0 : 0 ≤ depth) (h1 : depth < 2^31) :
    DecodeVarintUnsigned_depthCheck_u32 depth =
      (if depth > (varintMaxDepth 32 : Nat) then some false else none, ((varintMaxDepth 32 : Nat) : Int)) := by
  unfold DecodeVarintUnsigned_depthCheck_u32
  have e : varintMaxDepth 32 = 5 := by decide
  rw [e]
  c_const
  c_eq

theorem DecodeVarintUnsigned_depthCheck_u64_eq_model (depth : Int) (h0 : 0 ≤ depth) (h1 : depth < 2^31) :
    DecodeVarintUnsigned_depthCheck_u64 depth =
      (if depth > (varintMaxDepth 64 : Nat) then some false else none, ((varintMaxDepth 64 : Nat) : Int)) := by
  unfold DecodeVarintUnsigned_depthCheck_u64
  have e : varintMaxDepth 64 = 10 := by decide
  rw [e]
  c_const
  c_eq

/-! ### `ans_read_init` (ans.h): the mirror of `ans_write_end`, all three size classes, any buffer length -/

/-- result of `read_init` once the masked value `V` and the new `buf_offset` are known -/
def ansFin (V off : Int) : Int × AnsDecoder :=
  (if V + 4096 ≥ 1048576 then 1 else 0, { buf_offset := off, state := V + 4096 })

theorem ansFin_of (V off G : Int) (h0 : 0 ≤ V) (h1 : V < 2^22) (hG : G = V + 4096) :
    (if G ≥ 1048576 then ((1 : Int), ({ buf_offset := off, state := G } : AnsDecoder))
      else (0, { buf_offset := off, state := G })) = ansFin V off := by
  subst hG
  unfold ansFin
  have hcase : V + 4096 ≥ 1048576 ∨ ¬ (V + 4096 ≥ 1048576) := by omega
  rcases hcase with h | h
  · simp only [if_pos h]
  · simp only [if_neg h]

/-- `ans_read_init` as a function of the last three bytes of the buffer, all three size classes -/
theorem ans_read_init_classes (a : AnsDecoder) (buf : Int → Int) (n : Int) (hb : ∀ i, 0 ≤ buf i ∧ buf i < 256)
    (hn1 : 1 ≤ n) (hn : n < 2^31) :
    ans_read_init a buf n =
      if buf (n - 1) / 64 = 0 then ansFin (buf (n - 1) % 64) (n - 1)
      else if buf (n - 1) / 64 = 1 then
        (if n < 2 then (1, a) else ansFin ((buf (n - 1) * 256 + buf (n - 2)) % 16384) (n - 2))
      else if buf (n - 1) / 64 = 2 then
        (if n < 3 then (1, a) else ansFin ((buf (n - 1) * 65536 + buf (n - 2) * 256 + buf (n - 3)) % 4194304) (n - 3))
      else (1, a) := by
  have g16 := mem_get_le16_val (fun i => buf (n - 2 + i)) (fun i => hb _)
  have g24 := mem_get_le24_val (fun i => buf (n - 3 + i)) (fun i => hb _)
  have j1 : n - 2 + 1 = n - 1 := by omega
  have j2 : n - 2 + 0 = n - 2 := by omega
  have j3 : n - 3 + 2 = n - 1 := by omega
  have j4 : n - 3 + 1 = n - 2 := by omega
  have j5 : n - 3 + 0 = n - 3 := by omega
  simp only [j1, j2, j3, j4, j5] at g16 g24
  have h0 := hb (n - 1); have h1 := hb (n - 2); have h2 := hb (n - 3)
  unfold ans_read_init
  c_const
  simp only [g16, g24, cAnd32_63, cAnd32_16383, cAnd32_4194303]
  have hlt : ¬ (n < 1) := by omega
  simp only [hlt, if_false]
  generalize buf (n - 1) = T at *
  generalize buf (n - 2) = B1 at *
  generalize buf (n - 3) = B2 at *
  have hx3 : T / 64 = 0 ∨ T / 64 = 1 ∨ T / 64 = 2 ∨ T / 64 = 3 := by omega
  rcases hx3 with h | h | h | h
  · simp only [h, if_true]
    exact ansFin_of _ _ _ (by omega) (by omega) (by simp only [wrapU32, wrapI32]; omega)
  · simp (config := { decide := true }) only [h, if_true, if_false]
    split
    · rfl
    · exact ansFin_of _ _ _ (by omega) (by omega) (by simp only [wrapU32]; omega)
  · simp (config := { decide := true }) only [h, if_true, if_false]
    split
    · rfl
    · exact ansFin_of _ _ _ (by omega) (by omega) (by simp only [wrapU32]; omega)
  · simp (config := { decide := true }) only [h, if_true, if_false]

/-- the translated `read_init` agrees with the model's result: failure ↔ `none`; on success the state and the number of
    bytes left below the state bytes (`buf_offset`) are the model's -/
def ansInitAgrees (g : Int × AnsDecoder) (m : Option Draco.AnsDecoder) : Prop :=
  match m with
  | none => g.1 = 1
  | some d => g = (0, { buf_offset := (d.buf.length : Int), state := (d.state : Int) })

theorem ansFin_agrees (V : Nat) (off : Nat) (stk : List Nat) (m : Option Draco.AnsDecoder) (hoff : stk.length = off) (hV : V < 2^22)
    (hm : m = if V + 4096 ≥ 4096 * 256 then none else some ⟨V + 4096, stk⟩) :
    ansInitAgrees (ansFin (V : Int) (off : Int)) m := by
  unfold ansFin
  have hcase : V + 4096 ≥ 4096 * 256 ∨ ¬ (V + 4096 ≥ 4096 * 256) := by omega
  rcases hcase with h | h
  · rw [if_pos h] at hm
    subst hm
    have : (V : Int) + 4096 ≥ 1048576 := by omega
    simp only [ansInitAgrees, if_pos this]
  · rw [if_neg h] at hm
    subst hm
    have : ¬ ((V : Int) + 4096 ≥ 1048576) := by omega
    simp only [ansInitAgrees, if_neg this, hoff]
    rfl


theorem ans_read_init_agrees_x0 (a : AnsDecoder) (pre : List Nat) (top : Nat)
    (hpre : ∀ b ∈ pre, b < 256) (htop : top < 256) (hx : top / 64 = 0) (hlen : pre.length + 1 < 2^31) :
    ansInitAgrees (ans_read_init a (bufOf (pre ++ [top])) ((pre ++ [top]).length : Nat))
      (ansReadInit (pre ++ [top])) := by
  have hb := bufOf_range (pre ++ [top]) (by
    intro b hb; simp only [List.mem_append, List.mem_cons, List.mem_nil_iff, or_false] at hb
    rcases hb with h | h
    · exact hpre b h
    · omega)
  have hl : ((pre ++ [top]).length : Int) = pre.length + 1 := by simp
  rw [ans_read_init_classes a _ _ hb (by rw [hl]; omega) (by rw [hl]; omega)]
  have e1 : bufOf (pre ++ [top]) (((pre ++ [top]).length : Nat) - 1) = top := by
    rw [bufOf_suffix pre [top] 0 _ (by rw [hl]; omega)]; rfl
  rw [e1]
  have hT : (top : Int) / 64 = 0 := by omega
  have hr : ansL = 4096 := by decide
  have hio : ansIO = 256 := by decide
  have hm : ansReadInit (pre ++ [top]) =
      if top % 64 + 4096 ≥ 4096 * 256 then none else some ⟨top % 64 + 4096, pre.reverse⟩ := by
    simp [ansReadInit, hx, hr, hio]
  simp (config := { decide := true }) only [hT, if_true, if_false]
  have eV : (top : Int) % 64 = ((top % 64 : Nat) : Int) := by omega
  have eo : (((pre ++ [top]).length : Nat) : Int) - 1 = ((pre.length : Nat) : Int) := by rw [hl]; omega
  rw [eV, eo]
  exact ansFin_agrees _ _ _ _ (by simp) (by omega) hm

theorem ans_read_init_agrees_x1 (a : AnsDecoder) (pre : List Nat) (b1 top : Nat)
    (hpre : ∀ b ∈ pre, b < 256) (hb1 : b1 < 256) (htop : top < 256) (hx : top / 64 = 1) (hlen : pre.length + 2 < 2^31) :
    ansInitAgrees (ans_read_init a (bufOf (pre ++ [b1, top])) ((pre ++ [b1, top]).length : Nat))
      (ansReadInit (pre ++ [b1, top])) := by
  have hb := bufOf_range (pre ++ [b1, top]) (by
    intro b hb; simp only [List.mem_append, List.mem_cons, List.mem_nil_iff, or_false] at hb
    rcases hb with h | h | h
    · exact hpre b h
    · omega
    · omega)
  have hl : ((pre ++ [b1, top]).length : Int) = pre.length + 2 := by simp
  rw [ans_read_init_classes a _ _ hb (by rw [hl]; omega) (by rw [hl]; omega)]
  have e1 : bufOf (pre ++ [b1, top]) (((pre ++ [b1, top]).length : Nat) - 1) = top := by
    rw [bufOf_suffix pre [b1, top] 1 _ (by rw [hl]; omega)]; rfl
  have e2 : bufOf (pre ++ [b1, top]) (((pre ++ [b1, top]).length : Nat) - 2) = b1 := by
    rw [bufOf_suffix pre [b1, top] 0 _ (by rw [hl]; omega)]; rfl
  rw [e1, e2]
  have hT : (top : Int) / 64 = 1 := by omega
  have hr : ansL = 4096 := by decide
  have hio : ansIO = 256 := by decide
  have hm : ansReadInit (pre ++ [b1, top]) =
      if (top * 256 + b1) % 2 ^ 14 + 4096 ≥ 4096 * 256 then none else some ⟨(top * 256 + b1) % 2 ^ 14 + 4096, pre.reverse⟩ := by
    simp [ansReadInit, hx, hr, hio]
  simp (config := { decide := true }) only [hT, if_true, if_false]
  have hn2 : ¬ (((pre ++ [b1, top]).length : Int) < 2) := by rw [hl]; omega
  rw [if_neg hn2]
  have eV : ((top : Int) * 256 + b1) % 16384 = (((top * 256 + b1) % 2 ^ 14 : Nat) : Int) := by omega
  have eo : (((pre ++ [b1, top]).length : Nat) : Int) - 2 = ((pre.length : Nat) : Int) := by rw [hl]; omega
  rw [eV, eo]
  exact ansFin_agrees _ _ _ _ (by simp) (by omega) hm

theorem ans_read_init_agrees_x2 (a : AnsDecoder) (pre : List Nat) (b2 b1 top : Nat)
    (hpre : ∀ b ∈ pre, b < 256) (hb2 : b2 < 256) (hb1 : b1 < 256) (htop : top < 256) (hx : top / 64 = 2) (hlen : pre.length + 3 < 2^31) :
    ansInitAgrees (ans_read_init a (bufOf (pre ++ [b2, b1, top])) ((pre ++ [b2, b1, top]).length : Nat))
      (ansReadInit (pre ++ [b2, b1, top])) := by
  have hb := bufOf_range (pre ++ [b2, b1, top]) (by
    intro b hb; simp only [List.mem_append, List.mem_cons, List.mem_nil_iff, or_false] at hb
    rcases hb with h | h | h | h
    · exact hpre b h
    · omega
    · omega
    · omega)
  have hl : ((pre ++ [b2, b1, top]).length : Int) = pre.length + 3 := by simp
  rw [ans_read_init_classes a _ _ hb (by rw [hl]; omega) (by rw [hl]; omega)]
  have e1 : bufOf (pre ++ [b2, b1, top]) (((pre ++ [b2, b1, top]).length : Nat) - 1) = top := by
    rw [bufOf_suffix pre [b2, b1, top] 2 _ (by rw [hl]; omega)]; rfl
  have e2 : bufOf (pre ++ [b2, b1, top]) (((pre ++ [b2, b1, top]).length : Nat) - 2) = b1 := by
    rw [bufOf_suffix pre [b2, b1, top] 1 _ (by rw [hl]; omega)]; rfl
  have e3 : bufOf (pre ++ [b2, b1, top]) (((pre ++ [b2, b1, top]).length : Nat) - 3) = b2 := by
    rw [bufOf_suffix pre [b2, b1, top] 0 _ (by rw [hl]; omega)]; rfl
  rw [e1, e2, e3]
  have hT : (top : Int) / 64 = 2 := by omega
  have hr : ansL = 4096 := by decide
  have hio : ansIO = 256 := by decide
  have hm : ansReadInit (pre ++ [b2, b1, top]) =
      if (top * 65536 + b1 * 256 + b2) % 2 ^ 22 + 4096 ≥ 4096 * 256 then none else some ⟨(top * 65536 + b1 * 256 + b2) % 2 ^ 22 + 4096, pre.reverse⟩ := by
    simp [ansReadInit, hx, hr, hio]
  simp (config := { decide := true }) only [hT, if_true, if_false]
  have hn2 : ¬ (((pre ++ [b2, b1, top]).length : Int) < 3) := by rw [hl]; omega
  rw [if_neg hn2]
  have eV : ((top : Int) * 65536 + b1 * 256 + b2) % 4194304 = (((top * 65536 + b1 * 256 + b2) % 2 ^ 22 : Nat) : Int) := by omega
  have eo : (((pre ++ [b2, b1, top]).length : Nat) : Int) - 3 = ((pre.length : Nat) : Int) := by rw [hl]; omega
  rw [eV, eo]
  exact ansFin_agrees _ _ _ _ (by simp) (by omega) hm


/-! ### `DecodeVarintUnsigned` as a whole (core/varint_decoding.h): byte source with a position, recursion with fuel -/

set_option maxRecDepth 16384 in
theorem nat_and_128 : ∀ x : Fin 256, x.val &&& 128 = if x.val ≥ 128 then 128 else 0 := by decide

theorem cAnd32_128 (x : Int) (h0 : 0 ≤ x) (h1 : x < 256) : cAnd 32 x 128 = if x ≥ 128 then 128 else 0 := by
  unfold cAnd pat
  have e1 : ((128:Int) % 2^32).toNat = 128 := by decide
  have e2 : (x % 2^32).toNat = x.toNat := by congr 1; omega
  rw [e1, e2]
  have := nat_and_128 ⟨x.toNat, by omega⟩
  simp only at this
  rw [this]
  split <;> split <;> omega

theorem cOr_nat (w : Nat) (A B : Nat) (hA : A < 2^w) (hB : B < 2^w) : cOr w (A : Int) (B : Int) = ((A ||| B : Nat) : Int) := by
  unfold cOr pat
  have e1 : ((A : Int) % 2^w).toNat = A := by
    rw [Int.emod_eq_of_lt (by omega) (by exact_mod_cast hA)]; simp
  have e2 : ((B : Int) % 2^w).toNat = B := by
    rw [Int.emod_eq_of_lt (by omega) (by exact_mod_cast hB)]; simp
  rw [e1, e2]

theorem DecodeVarintUnsigned_u32_aux (budget : Nat) : ∀ (fuel : Nat) (d : Nat) (v0 : Int) (bs : List Nat),
    (∀ b ∈ bs, b < 256) → 1 ≤ d → d + budget = 6 → budget + 1 ≤ fuel →
    match decVarintAux 32 budget bs with
    | none => ∃ v' r', DecodeVarintUnsigned_u32 fuel d v0 (bs.map Int.ofNat) = some (false, v', r')
    | some (v, rest) => DecodeVarintUnsigned_u32 fuel d v0 (bs.map Int.ofNat) = some (true, (v : Int), rest.map Int.ofNat) := by
  induction budget with
  | zero =>
    intro fuel d v0 bs hb hd hsum hf
    obtain ⟨f, rfl⟩ : ∃ f, fuel = f + 1 := ⟨fuel - 1, by omega⟩
    have hd6 : d = 6 := by omega
    subst hd6
    have hm : decVarintAux 32 0 bs = none := by cases bs <;> rfl
    rw [hm]
    unfold DecodeVarintUnsigned_u32
    c_const
    exact ⟨_, _, rfl⟩
  | succ b ih =>
    intro fuel d v0 bs hb hd hsum hf
    obtain ⟨f, rfl⟩ : ∃ f, fuel = f + 1 := ⟨fuel - 1, by omega⟩
    unfold DecodeVarintUnsigned_u32
    c_const
    have hgt : ¬ ((d : Int) > 5) := by omega
    simp only [hgt, if_false]

    cases bs with
    | nil => simp only [decVarintAux, List.map_nil]; exact ⟨_, _, rfl⟩
    | cons byte rest =>
      have hbyte : byte < 256 := hb byte (by simp)
      have hrest : ∀ b ∈ rest, b < 256 := fun b h => hb b (by simp [h])
      have hbi : cAnd 32 (Int.ofNat byte) 128 = if (Int.ofNat byte) ≥ 128 then 128 else 0 :=
        cAnd32_128 _ (by simp) (by simp; omega)
      simp only [List.map_cons, hbi]
      by_cases h128 : byte ≥ 128
      · have hI : (Int.ofNat byte) ≥ 128 := by simp; omega
        have hne : wrapI32 (if Int.ofNat byte ≥ 128 then 128 else 0) ≠ 0 := by rw [if_pos hI]; decide
        rw [if_pos hne]
        have hm : decVarintAux 32 (b + 1) (byte :: rest) =
            match decVarintAux 32 b rest with
            | none => none
            | some (v, rest') => some (((v * 128) % 2^32) ||| (byte % 128), rest') := by
          simp [decVarintAux, h128]
          rfl
        rw [hm]
        have hih := ih f (d + 1) v0 rest hrest (by omega) (by omega) (by omega)
        have hd1 : ((d : Int) + 1) = ((d + 1 : Nat) : Int) := by omega
        rw [hd1]
        cases hrec : decVarintAux 32 b rest with
        | none =>
          rw [hrec] at hih
          obtain ⟨v', r', hg⟩ := hih
          rw [hg]
          exact ⟨_, _, rfl⟩
        | some pr =>
          obtain ⟨v, rest'⟩ := pr
          rw [hrec] at hih
          dsimp only at hih ⊢
          rw [hih]
          have a1 : cAnd 32 (Int.ofNat byte) 127 = ((byte % 128 : Nat) : Int) := by rw [cAnd32_127]; simp
          have a2 : wrapU32 (wrapI32 ((byte % 128 : Nat) : Int)) = ((byte % 128 : Nat) : Int) := by
            rw [wrapI32_id _ (by omega) (by omega)]; exact wrapU32_id _ (by omega) (by omega)
          have a3 : wrapU32 ((v : Int) * 128) = (((v * 128) % 2^32 : Nat) : Int) := by unfold wrapU32; omega
          dsimp only
          rw [a1, a2, a3, cOr_nat 32 _ _ (Nat.mod_lt _ (by decide)) (by omega)]
          simp
      · have hI : ¬ ((Int.ofNat byte) ≥ 128) := by simp; omega
        have hne : ¬ (wrapI32 (if Int.ofNat byte ≥ 128 then 128 else 0) ≠ 0) := by rw [if_neg hI]; decide
        rw [if_neg hne]
        have hm : decVarintAux 32 (b + 1) (byte :: rest) = some (byte, rest) := by
          simp [decVarintAux, h128]
        rw [hm]
        rfl

theorem DecodeVarintUnsigned_u64_aux (budget : Nat) : ∀ (fuel : Nat) (d : Nat) (v0 : Int) (bs : List Nat),
    (∀ b ∈ bs, b < 256) → 1 ≤ d → d + budget = 11 → budget + 1 ≤ fuel →
    match decVarintAux 64 budget bs with
    | none => ∃ v' r', DecodeVarintUnsigned_u64 fuel d v0 (bs.map Int.ofNat) = some (false, v', r')
    | some (v, rest) => DecodeVarintUnsigned_u64 fuel d v0 (bs.map Int.ofNat) = some (true, (v : Int), rest.map Int.ofNat) := by
  induction budget with
  | zero =>
    intro fuel d v0 bs hb hd hsum hf
    obtain ⟨f, rfl⟩ : ∃ f, fuel = f + 1 := ⟨fuel - 1, by omega⟩
    have hd11 : d = 11 := by omega
    subst hd11
    have hm : decVarintAux 64 0 bs = none := by cases bs <;> rfl
    rw [hm]
    unfold DecodeVarintUnsigned_u64
    c_const
    exact ⟨_, _, rfl⟩
  | succ b ih =>
    intro fuel d v0 bs hb hd hsum hf
    obtain ⟨f, rfl⟩ : ∃ f, fuel = f + 1 := ⟨fuel - 1, by omega⟩
    unfold DecodeVarintUnsigned_u64
    c_const
    have hgt : ¬ ((d : Int) > 10) := by omega
    simp only [hgt, if_false]

    cases bs with
    | nil => simp only [decVarintAux, List.map_nil]; exact ⟨_, _, rfl⟩
    | cons byte rest =>
      have hbyte : byte < 256 := hb byte (by simp)
      have hrest : ∀ b ∈ rest, b < 256 := fun b h => hb b (by simp [h])
      have hbi : cAnd 32 (Int.ofNat byte) 128 = if (Int.ofNat byte) ≥ 128 then 128 else 0 :=
        cAnd32_128 _ (by simp) (by simp; omega)
      simp only [List.map_cons, hbi]
      by_cases h128 : byte ≥ 128
      · have hI : (Int.ofNat byte) ≥ 128 := by simp; omega
        have hne : wrapI32 (if Int.ofNat byte ≥ 128 then 128 else 0) ≠ 0 := by rw [if_pos hI]; decide
        rw [if_pos hne]
        have hm : decVarintAux 64 (b + 1) (byte :: rest) =
            match decVarintAux 64 b rest with
            | none => none
            | some (v, rest') => some (((v * 128) % 2^64) ||| (byte % 128), rest') := by
          simp [decVarintAux, h128]
          rfl
        rw [hm]
        have hih := ih f (d + 1) v0 rest hrest (by omega) (by omega) (by omega)
        have hd1 : ((d : Int) + 1) = ((d + 1 : Nat) : Int) := by omega
        rw [hd1]
        cases hrec : decVarintAux 64 b rest with
        | none =>
          rw [hrec] at hih
          obtain ⟨v', r', hg⟩ := hih
          rw [hg]
          exact ⟨_, _, rfl⟩
        | some pr =>
          obtain ⟨v, rest'⟩ := pr
          rw [hrec] at hih
          dsimp only at hih ⊢
          rw [hih]
          have a1 : cAnd 32 (Int.ofNat byte) 127 = ((byte % 128 : Nat) : Int) := by rw [cAnd32_127]; simp
          have a2 : wrapU64 (wrapI32 ((byte % 128 : Nat) : Int)) = ((byte % 128 : Nat) : Int) := by
            rw [wrapI32_id _ (by omega) (by omega)]; exact wrapU64_id _ (by omega) (by omega)
          have a3 : wrapU64 ((v : Int) * 128) = (((v * 128) % 2^64 : Nat) : Int) := by unfold wrapU64; omega
          dsimp only
          rw [a1, a2, a3, cOr_nat 64 _ _ (Nat.mod_lt _ (by decide)) (by omega)]
          simp
      · have hI : ¬ ((Int.ofNat byte) ≥ 128) := by simp; omega
        have hne : ¬ (wrapI32 (if Int.ofNat byte ≥ 128 then 128 else 0) ≠ 0) := by rw [if_neg hI]; decide
        rw [if_neg hne]
        have hm : decVarintAux 64 (b + 1) (byte :: rest) = some (byte, rest) := by
          simp [decVarintAux, h128]
        rw [hm]
        rfl

/-- `DecodeVarintUnsigned<uint32_t>(1, &v, buffer)` (recursion unrolled with fuel 6 = `max_depth + 1`) is the model's
    `decVarint 32`: it fails exactly when the model does, otherwise it stores the model's value and leaves the model's rest -/
theorem DecodeVarintUnsigned_u32_eq_model (v0 : Int) (bs : List Nat) (hb : ∀ b ∈ bs, b < 256) :
    match decVarint 32 bs with
    | none => ∃ v' r', DecodeVarintUnsigned_u32 6 1 v0 (bs.map Int.ofNat) = some (false, v', r')
    | some (v, rest) => DecodeVarintUnsigned_u32 6 1 v0 (bs.map Int.ofNat) = some (true, (v : Int), rest.map Int.ofNat) :=
  DecodeVarintUnsigned_u32_aux 5 6 1 v0 bs hb (by omega) (by omega) (by omega)

theorem DecodeVarintUnsigned_u64_eq_model (v0 : Int) (bs : List Nat) (hb : ∀ b ∈ bs, b < 256) :
    match decVarint 64 bs with
    | none => ∃ v' r', DecodeVarintUnsigned_u64 11 1 v0 (bs.map Int.ofNat) = some (false, v', r')
    | some (v, rest) => DecodeVarintUnsigned_u64 11 1 v0 (bs.map Int.ofNat) = some (true, (v : Int), rest.map Int.ofNat) :=
  DecodeVarintUnsigned_u64_aux 10 11 1 v0 bs hb (by omega) (by omega) (by omega)


end Draco.Generated
