import DracoProofs.CornerTableBasic
/-
  Invariants of `ComputeOppositeCorners` (half-edge matching) and `BreakNonManifoldEdges`:
  the opposite table is a symmetric pairing (`OppInv`) of corners of non-degenerate faces across
  an oppositely oriented edge of the *input* corner→vertex map.
-/
namespace Draco

/-- corners `a`, `b` face the same edge with opposite orientation w.r.t. the map `ctv` -/
def EdgeOpp (ctv : Array Nat) (a b : Nat) : Prop :=
  vget ctv (nextC a) = vget ctv (prevC b) ∧ vget ctv (prevC a) = vget ctv (nextC b)

/-- invariant of the opposite table w.r.t. the input corner→vertex map -/
def OppInv (ctv : Array Nat) (opp : Array (Option Nat)) : Prop :=
  ∀ a b, oget opp a = some b →
    oget opp b = some a ∧ EdgeOpp ctv a b ∧ isDegenA ctv (a / 3) = false

theorem nondeg_corners (ctv : Array Nat) (c : Nat) (h : isDegenA ctv (c / 3) = false) :
    vget ctv c ≠ vget ctv (nextC c) ∧ vget ctv c ≠ vget ctv (prevC c) ∧
    vget ctv (nextC c) ≠ vget ctv (prevC c) := by
  have hcases := corner_cases c
  generalize c / 3 = f at *
  simp only [isDegenA, Bool.or_eq_false_iff, beq_eq_false_iff_ne, ne_eq] at h
  obtain ⟨⟨h01, h02⟩, h12⟩ := h
  rcases hcases with ⟨h1, h2, h3⟩ | ⟨h1, h2, h3⟩ | ⟨h1, h2, h3⟩
  · subst h1; rw [h2, h3]; exact ⟨h01, h02, h12⟩
  · subst h1; rw [h2, h3]; exact ⟨h12, fun h => h01 h.symm, fun h => h02 h.symm⟩
  · subst h1; rw [h2, h3]; exact ⟨fun h => h02 h.symm, fun h => h12 h.symm, h01⟩

/-- paired corners of a non-degenerate face lie in different faces -/
theorem EdgeOpp.face_ne {ctv : Array Nat} {a b : Nat} (h : EdgeOpp ctv a b)
    (hnd : isDegenA ctv (a / 3) = false) : b / 3 ≠ a / 3 := by
  intro hf
  obtain ⟨n1, n2, n3⟩ := nondeg_corners ctv a hnd
  obtain ⟨e1, e2⟩ := h
  rcases same_face_cases hf.symm with hb | hb | hb
  · subst hb; exact n3 e1
  · subst hb; rw [prevC_nextC] at e1; exact n1 e1.symm
  · subst hb; rw [nextC_prevC] at e2; exact n2 e2.symm

theorem EdgeOpp.symm {ctv : Array Nat} {a b : Nat} (h : EdgeOpp ctv a b) : EdgeOpp ctv b a :=
  ⟨h.2.symm, h.1.symm⟩

theorem OppInv.facts {ctv : Array Nat} {opp : Array (Option Nat)} (h : OppInv ctv opp) {a b : Nat}
    (hab : oget opp a = some b) :
    oget opp b = some a ∧ b ≠ a ∧ b / 3 ≠ a / 3 ∧ EdgeOpp ctv a b ∧
    isDegenA ctv (a / 3) = false ∧ isDegenA ctv (b / 3) = false := by
  obtain ⟨h1, h2, h3⟩ := h a b hab
  obtain ⟨_, _, h3'⟩ := h b a h1
  have := h2.face_ne h3
  exact ⟨h1, fun e => this (by rw [e]), this, h2, h3, h3'⟩

/-! ### ComputeOppositeCorners -/

theorem oget_set_none (a : Array (Option Nat)) (i j : Nat) :
    oget (a.setIfInBounds i none) j = if i = j then none else oget a j := by
  rw [oget_set]
  by_cases h : i = j
  · subst h
    by_cases h2 : i < a.size
    · simp [h2]
    · simp only [h2, and_false, if_false, if_true]
      unfold oget
      rw [Array.getD_eq_getD_getElem?, Array.getElem?_eq_none (Nat.le_of_not_lt h2)]; rfl
  · simp [h]

theorem buckets_getD_set (b : Buckets) (i j : Nat) (l : List (Nat × Nat)) :
    (b.setIfInBounds i l).getD j [] = if i = j ∧ i < b.size then l else b.getD j [] := by
  simp only [Array.getD_eq_getD_getElem?, Array.getElem?_setIfInBounds]
  by_cases h : i = j
  · subst h
    by_cases h2 : i < b.size
    · simp [h2]
    · simp [h2]
  · simp [h]

theorem buckets_getD_modify (b : Buckets) (i j : Nat) (f : List (Nat × Nat) → List (Nat × Nat)) :
    (b.modify i f).getD j [] = if i = j ∧ i < b.size then f (b.getD j []) else b.getD j [] := by
  simp only [Array.getD_eq_getD_getElem?, Array.getElem?_modify]
  by_cases h : i = j
  · subst h
    by_cases h2 : i < b.size
    · simp [h2]
    · simp [h2]
  · simp [h]

theorem buckets_getD_nonempty {b : Buckets} {i : Nat} (h : b.getD i [] ≠ []) : i < b.size := by
  by_cases hi : i < b.size
  · exact hi
  · rw [Array.getD_eq_getD_getElem?, Array.getElem?_eq_none (Nat.le_of_not_lt hi)] at h
    exact absurd rfl h

theorem takeMatch_perm (ctv : Array Nat) (src tip : Nat) :
    ∀ (l : List (Nat × Nat)) (e : Nat) (rest : List (Nat × Nat)),
      takeMatch ctv src tip l = some (e, rest) → l.Perm ((src, e) :: rest) := by
  intro l
  induction l with
  | nil => intro e rest h; simp [takeMatch] at h
  | cons x l ih =>
    intro e rest h
    obtain ⟨s, e0⟩ := x
    unfold takeMatch at h
    split at h
    · rename_i hc
      injection h with h
      injection h with h1 h2
      subst h1; subst h2
      rw [hc.1]
    · split at h
      · cases h
      · rename_i r l' hrec
        injection h with h
        injection h with h1 h2
        subst h1; subst h2
        exact ((ih r l' hrec).cons (s, e0)).trans (List.Perm.swap _ _ _)

/-- state invariant of the main loop of `ComputeOppositeCorners` before corner `m` -/
structure BInv (ctv : Array Nat) (m : Nat) (st : HEState) : Prop where
  size : st.opp.size = ctv.size
  entry : ∀ v s e, (s, e) ∈ st.buckets.getD v [] →
    e < m ∧ isDegenA ctv (e / 3) = false ∧ vget ctv (nextC e) = v ∧ vget ctv (prevC e) = s ∧
    oget st.opp e = none
  nodup : ∀ v, ((st.buckets.getD v []).map Prod.snd).Nodup
  bound : ∀ a b, oget st.opp a = some b → a < m
  opp : OppInv ctv st.opp

theorem BInv.mono {ctv : Array Nat} {m m' : Nat} {st : HEState} (h : BInv ctv m st) (hm : m ≤ m') :
    BInv ctv m' st where
  size := h.size
  entry := fun v s e he => by
    obtain ⟨h1, h2⟩ := h.entry v s e he
    exact ⟨Nat.lt_of_lt_of_le h1 hm, h2⟩
  nodup := h.nodup
  bound := fun a b hab => Nat.lt_of_lt_of_le (h.bound a b hab) hm
  opp := h.opp

theorem cocCorner_inv (ctv : Array Nat) (st : HEState) (c : Nat) (hc : c < ctv.size)
    (hnd : isDegenA ctv (c / 3) = false) (h : BInv ctv c st) : BInv ctv (c + 1) (cocCorner ctv st c) := by
  have hoc : oget st.opp c = none := by
    cases hx : oget st.opp c with
    | none => rfl
    | some b => exact absurd (h.bound c b hx) (Nat.lt_irrefl c)
  rw [cocCorner_eq]
  split
  · -- a matching half-edge was found
    rename_i e rest hm
    have hperm := takeMatch_perm ctv _ _ _ e rest hm
    have hmemB : (vget ctv (nextC c), e) ∈ st.buckets.getD (vget ctv (prevC c)) [] :=
      hperm.mem_iff.mpr (List.mem_cons_self)
    obtain ⟨he_lt, he_nd, he_next, he_prev, he_opp⟩ := h.entry _ _ _ hmemB
    have hnodup := (List.Perm.nodup_iff (hperm.map Prod.snd)).mp (h.nodup _)
    simp only [List.map_cons, List.nodup_cons] at hnodup
    have hsnk : vget ctv (prevC c) < st.buckets.size :=
      buckets_getD_nonempty (List.ne_nil_of_mem hmemB)
    have hec : e ≠ c := Nat.ne_of_lt he_lt
    have hcs : c < st.opp.size := by rw [h.size]; exact hc
    have hes : e < st.opp.size := Nat.lt_trans he_lt hcs
    have hget : ∀ x, oget ((st.opp.setIfInBounds c (some e)).setIfInBounds e (some c)) x =
        if e = x then some c else if c = x then some e else oget st.opp x := by
      intro x
      rw [oget_set, oget_set]
      simp only [Array.size_setIfInBounds, hes, hcs, and_true]
    refine ⟨by simp [Array.size_setIfInBounds, h.size], ?_, ?_, ?_, ?_⟩
    · intro v s e' hmem
      simp only [] at hmem ⊢
      rw [buckets_getD_set] at hmem
      have hold : (s, e') ∈ st.buckets.getD v [] ∧ e' ≠ e := by
        split at hmem
        · rename_i hv
          obtain ⟨hv, _⟩ := hv
          subst hv
          refine ⟨hperm.mem_iff.mpr (List.mem_cons_of_mem _ hmem), ?_⟩
          intro hee
          subst hee
          exact hnodup.1 (List.mem_map_of_mem (f := Prod.snd) hmem)
        · rename_i hv
          refine ⟨hmem, ?_⟩
          intro hee
          subst hee
          obtain ⟨_, _, hv', _⟩ := h.entry _ _ _ hmem
          exact hv ⟨by rw [← he_next, hv'], hsnk⟩
      obtain ⟨⟨h1, h2, h3, h4, h5⟩, hne⟩ := And.intro (h.entry _ _ _ hold.1) hold.2
      refine ⟨Nat.lt_succ_of_lt h1, h2, h3, h4, ?_⟩
      rw [hget]
      simp only [Ne.symm hne, if_false, Ne.symm (Nat.ne_of_lt h1), h5]
    · intro v
      simp only []
      rw [buckets_getD_set]
      split
      · exact hnodup.2
      · exact h.nodup v
    · intro a b hab
      simp only [] at hab
      rw [hget] at hab
      split at hab
      · rename_i hea; subst hea; exact Nat.lt_succ_of_lt he_lt
      · split at hab
        · rename_i hca; subst hca; exact Nat.lt_succ_self _
        · exact Nat.lt_succ_of_lt (h.bound a b hab)
    · intro a b hab
      simp only [] at hab ⊢
      rw [hget] at hab
      split at hab
      · rename_i hea
        subst hea
        injection hab with hab; subst hab
        refine ⟨?_, ⟨?_, ?_⟩, he_nd⟩
        · rw [hget]; simp [hec]
        · rw [he_next]
        · rw [he_prev]
      · split at hab
        · rename_i hea hca
          subst hca
          injection hab with hab; subst hab
          refine ⟨?_, ⟨?_, ?_⟩, hnd⟩
          · rw [hget]; simp
          · rw [he_prev]
          · rw [he_next]
        · rename_i hea hca
          obtain ⟨h1, h2, h3⟩ := h.opp a b hab
          refine ⟨?_, h2, h3⟩
          rw [hget]
          have hbe : e ≠ b := by
            intro hbe; subst hbe; rw [he_opp] at h1; cases h1
          have hbc : c ≠ b := by
            intro hbc; subst hbc; rw [hoc] at h1; cases h1
          simp [hbe, hbc, h1]
  · -- no match: insert the half-edge on the source vertex
    rename_i hm
    refine ⟨h.size, ?_, ?_, ?_, h.opp⟩
    · intro v s e' hmem
      simp only [] at hmem ⊢
      rw [buckets_getD_modify] at hmem
      split at hmem
      · rename_i hv
        obtain ⟨hv, _⟩ := hv
        subst hv
        rw [List.mem_append] at hmem
        rcases hmem with hmem | hmem
        · obtain ⟨h1, h2⟩ := h.entry _ _ _ hmem
          exact ⟨Nat.lt_succ_of_lt h1, h2⟩
        · simp only [List.mem_singleton, Prod.mk.injEq] at hmem
          obtain ⟨hs, he⟩ := hmem
          subst hs; subst he
          exact ⟨Nat.lt_succ_self _, hnd, rfl, rfl, hoc⟩
      · obtain ⟨h1, h2⟩ := h.entry _ _ _ hmem
        exact ⟨Nat.lt_succ_of_lt h1, h2⟩
    · intro v
      simp only []
      rw [buckets_getD_modify]
      split
      · rw [List.map_append, List.nodup_append]
        refine ⟨h.nodup v, by simp, ?_⟩
        intro a ha b hb
        simp only [List.map_cons, List.map_nil, List.mem_singleton] at hb
        subst hb
        obtain ⟨⟨s, e'⟩, hmem, rfl⟩ := List.mem_map.mp ha
        exact Nat.ne_of_lt (h.entry _ _ _ hmem).1
      · exact h.nodup v
    · intro a b hab
      exact Nat.lt_succ_of_lt (h.bound a b hab)

theorem isDegenA_div (ctv : Array Nat) (f k : Nat) (hk : k < 3) :
    isDegenA ctv ((3 * f + k) / 3) = isDegenA ctv f := by
  have : (3 * f + k) / 3 = f := by omega
  rw [this]

theorem cocFace_inv (ctv : Array Nat) (acc : HEState × Nat) (f : Nat) (hf : f < ctv.size / 3)
    (h : BInv ctv (3 * f) acc.1) : BInv ctv (3 * (f + 1)) (cocFace ctv acc f).1 := by
  unfold cocFace
  split
  · exact h.mono (by omega)
  · rename_i hnd
    have hnd : isDegenA ctv f = false := by simpa using hnd
    have h0 := cocCorner_inv ctv acc.1 (3 * f) (by omega)
      (by have := isDegenA_div ctv f 0 (by omega); simp only [Nat.add_zero] at this; rw [this]; exact hnd) h
    have h1 := cocCorner_inv ctv _ (3 * f + 1) (by omega) (by rw [isDegenA_div ctv f 1 (by omega)]; exact hnd) h0
    have h2 := cocCorner_inv ctv _ (3 * f + 1 + 1) (by omega)
      (by rw [isDegenA_div ctv f 2 (by omega)]; exact hnd) h1
    exact h2.mono (by omega)

theorem computeOppositeCorners_inv (ctv : Array Nat) :
    (computeOppositeCorners ctv).1.size = ctv.size ∧ OppInv ctv (computeOppositeCorners ctv).1 := by
  unfold computeOppositeCorners
  simp only []
  have := foldl_range_inv (fun f (acc : HEState × Nat) => BInv ctv (3 * f) acc.1) (cocFace ctv)
    ({ buckets := Array.replicate (numVerticesOf ctv) [], opp := Array.replicate ctv.size none }, 0)
    (ctv.size / 3) ?_ ?_
  · exact ⟨this.size, this.opp⟩
  · refine ⟨by simp, ?_, ?_, ?_, ?_⟩
    · intro v s e hmem
      simp only [Array.getD_eq_getD_getElem?, Array.getElem?_replicate] at hmem
      split at hmem <;> simp at hmem
    · intro v
      simp only [Array.getD_eq_getD_getElem?, Array.getElem?_replicate]
      split <;> simp
    · intro a b hab
      simp only [oget_replicate] at hab
      cases hab
    · intro a b hab
      simp only [oget_replicate] at hab
      cases hab
  · intro i hi s hs
    exact cocFace_inv ctv s i hi hs

/-! ### BreakNonManifoldEdges -/

theorem breakLinks_get (opp : Array (Option Nat)) (e o x : Nat) :
    oget (breakLinks opp e o) x =
      if x = e ∨ x = o ∨ oget opp e = some x ∨ oget opp o = some x then none else oget opp x := by
  unfold breakLinks
  simp only []
  rw [oget_set_none, oget_set_none]
  by_cases hxo : o = x
  · simp [hxo]
  · by_cases hxe : e = x
    · simp [hxe]
    · have hxo' : x ≠ o := Ne.symm hxo
      have hxe' : x ≠ e := Ne.symm hxe
      simp only [hxo, hxe, hxo', hxe', if_false, false_or]
      cases hoe : oget opp e with
      | none =>
        cases hoo : oget opp o with
        | none => simp
        | some y =>
          simp only [oget_set_none]
          by_cases hy : y = x <;> simp [hy]
      | some y =>
        cases hoo : oget opp o with
        | none =>
          simp only [oget_set_none]
          by_cases hy : y = x <;> simp [hy]
        | some z =>
          simp only [oget_set_none]
          by_cases hz : z = x
          · simp [hz]
          · by_cases hy : y = x <;> simp [hy, hz]

theorem breakLinks_size (opp : Array (Option Nat)) (e o : Nat) :
    (breakLinks opp e o).size = opp.size := by
  unfold breakLinks
  simp only []
  split <;> split <;> simp [Array.size_setIfInBounds]

theorem breakLinks_inv {ctv : Array Nat} {opp : Array (Option Nat)} (h : OppInv ctv opp) (e o : Nat) :
    OppInv ctv (breakLinks opp e o) := by
  intro a b hab
  rw [breakLinks_get] at hab
  split at hab
  · cases hab
  · rename_i hna
    obtain ⟨h1, h2, h3⟩ := h a b hab
    refine ⟨?_, h2, h3⟩
    rw [breakLinks_get]
    have : ¬ (b = e ∨ b = o ∨ oget opp e = some b ∨ oget opp o = some b) := by
      intro hb
      apply hna
      rcases hb with hb | hb | hb | hb
      · subst hb; exact Or.inr (Or.inr (Or.inl h1))
      · subst hb; exact Or.inr (Or.inr (Or.inr h1))
      · have := (h e b hb).1
        rw [h1] at this
        injection this with this
        exact Or.inl this
      · have := (h o b hb).1
        rw [h1] at this
        injection this with this
        exact Or.inr (Or.inl this)
    simp only [this, if_false, h1]

/-- the predicate preserved by every step of `BreakNonManifoldEdges` -/
def OppOK (ctv : Array Nat) (n : Nat) (opp : Array (Option Nat)) : Prop :=
  opp.size = n ∧ OppInv ctv opp

theorem bnmeRight_inv (ctv ctv0 : Array Nat) (n first : Nat) :
    ∀ (fuel cur : Nat) (sinks : List (Nat × Nat)) (opp : Array (Option Nat)) (visited : Array Bool),
      OppOK ctv0 n opp → OppOK ctv0 n (bnmeRight ctv first fuel cur sinks opp visited).opp := by
  intro fuel
  induction fuel with
  | zero => intro cur sinks opp visited h; simpa [bnmeRight] using h
  | succ fuel ih =>
    intro cur sinks opp visited h
    unfold bnmeRight
    simp only []
    split
    · exact ⟨by rw [breakLinks_size]; exact h.1, breakLinks_inv h.2 _ _⟩
    · split
      · exact h
      · split
        · exact h
        · exact ih _ _ _ _ h

theorem bnmeCorner_inv (ctv ctv0 : Array Nat) (n fuel : Nat) (st : BNState) (c : Nat)
    (h : OppOK ctv0 n st.opp) : OppOK ctv0 n (bnmeCorner ctv fuel st c).opp := by
  unfold bnmeCorner
  split
  · exact h
  · exact bnmeRight_inv ctv ctv0 n _ _ _ _ _ _ h

theorem bnmePass_inv (ctv ctv0 : Array Nat) (n fuel : Nat) (opp : Array (Option Nat)) (visited : Array Bool)
    (h : OppOK ctv0 n opp) : OppOK ctv0 n (bnmePass ctv fuel opp visited).opp := by
  unfold bnmePass
  exact foldl_range_inv' (fun st => OppOK ctv0 n st.opp) _ { opp, visited, updated := false } _ h
    (fun i _ s hs => bnmeCorner_inv ctv ctv0 n fuel s i hs)

theorem bnmeLoop_inv (ctv ctv0 : Array Nat) (n inner : Nat) :
    ∀ (fuel : Nat) (opp : Array (Option Nat)) (visited : Array Bool),
      OppOK ctv0 n opp → OppOK ctv0 n (bnmeLoop ctv inner fuel opp visited) := by
  intro fuel
  induction fuel with
  | zero => intro opp visited h; simpa [bnmeLoop] using h
  | succ fuel ih =>
    intro opp visited h
    unfold bnmeLoop
    simp only []
    have := bnmePass_inv ctv ctv0 n inner opp visited h
    split
    · exact ih _ _ this
    · exact this

theorem breakNonManifoldEdgesF_inv (ctv : Array Nat) (fuel : Nat) (opp : Array (Option Nat))
    (h : OppOK ctv ctv.size opp) : OppOK ctv ctv.size (breakNonManifoldEdgesF ctv fuel opp) :=
  bnmeLoop_inv ctv ctv ctv.size _ _ _ _ h

/-- the opposite table handed to `ComputeVertexCorners` (and stored in the result) -/
def finalOpp (ctv0 : Array Nat) (fuel : Nat) : Array (Option Nat) :=
  breakNonManifoldEdgesF ctv0 fuel (computeOppositeCorners ctv0).1

theorem finalOpp_inv (ctv0 : Array Nat) (fuel : Nat) : OppOK ctv0 ctv0.size (finalOpp ctv0 fuel) :=
  breakNonManifoldEdgesF_inv ctv0 fuel _ (computeOppositeCorners_inv ctv0)

end Draco
