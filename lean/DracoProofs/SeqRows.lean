import DracoProofs.SeqGeometry
/-
  Row-wise form of the decoded attributes: the values of `expected g opts` are, point by point and
  in point order, `transformRow` of the input's value rows.
-/
namespace Draco
open SeqEnc

/-! ### `dequantAll` / `octaAll` row by row -/

theorem dequantAll_row (range bits : Nat) (mins : List Nat) : ∀ (ks : List Int) (ms : List Nat)
    (rest : List Int) (acc : List Bytes), ks.length = ms.length →
    dequantAll range bits mins (ks ++ rest) ms acc =
      dequantAll range bits mins rest []
        ((List.zipWith (fun m k => writeLE 4 (Leaf.dequant range bits m k)) ms ks).reverse ++ acc) := by
  intro ks
  induction ks with
  | nil =>
    intro ms rest acc h
    have : ms = [] := by simpa using h.symm
    subst this
    simp
  | cons k ks ih =>
    intro ms rest acc h
    cases ms with
    | nil => simp at h
    | cons m ms =>
      simp only [List.cons_append, dequantAll]
      rw [ih ms rest _ (by simpa using h)]
      simp

theorem dequantAll_restart (range bits : Nat) (mins : List Nat) (hm : mins ≠ []) (vs : List Int)
    (acc : List Bytes) : dequantAll range bits mins vs [] acc = dequantAll range bits mins vs mins acc := by
  cases vs with
  | nil => simp [dequantAll]
  | cons v vs =>
    cases mins with
    | nil => exact absurd rfl hm
    | cons m ms => simp [dequantAll]

theorem dequantAll_rows (range bits : Nat) (mins : List Nat) (hm : mins ≠ []) :
    ∀ (rows : List (List Int)) (acc : List Bytes), (∀ r ∈ rows, r.length = mins.length) →
    (dequantAll range bits mins rows.flatten mins acc).flatten =
      acc.reverse.flatten ++ (rows.map (dequantRow range bits mins)).flatten := by
  intro rows
  induction rows with
  | nil => intro acc _; simp [dequantAll]
  | cons r rs ih =>
    intro acc h
    simp only [List.flatten_cons]
    rw [dequantAll_row range bits mins r mins _ acc (h r (by simp)),
      dequantAll_restart range bits mins hm,
      ih _ (fun x hx => h x (by simp [hx]))]
    simp [dequantRow]

theorem octaAll_rows (q : Nat) : ∀ (rows : List (List Int)) (acc : List Bytes),
    (∀ r ∈ rows, ∃ a b, r = [a, b]) →
    (octaAll q rows.flatten acc).flatten =
      acc.reverse.flatten ++ (rows.map (octaRowDecode q)).flatten := by
  intro rows
  induction rows with
  | nil => intro acc _; simp [octaAll]
  | cons r rs ih =>
    intro acc h
    obtain ⟨a, b, rfl⟩ := h r (by simp)
    simp only [List.flatten_cons, List.cons_append, List.nil_append, octaAll]
    rw [ih _ (fun x hx => h x (by simp [hx]))]
    simp [octaRowDecode]

theorem quantizeRow_length (mins : List Nat) (range q : Nat) (xs : List Nat) (c : Nat) :
    (quantizeRow mins range q c xs).length = xs.length := (quantizeRow_spec mins range q xs c).1

theorem flatten_map_nil {α β : Type} (l : List α) : (l.map fun _ => ([] : List β)).flatten = [] := by
  induction l with
  | nil => rfl
  | cons _ _ ih => simp

/-- the decoded values are the transformed rows of the points, in point order -/
theorem expectedAttributeOf_rowwise (opts : EncOpts) (n i : Nat) (a : Attribute)
    (hnc : 1 ≤ a.numComponents)
    (hopt : ∀ org r, (opts.att i).explicitQuant = some (org, r) → r < 2 ^ 32 ∧ ∀ m ∈ org, m < 2 ^ 32) :
    (expectedAttributeOf opts n i a).values = ((pointRows a n).map (transformRow opts i a)).flatten := by
  unfold expectedAttributeOf
  simp only [AttDesc.toAttribute]
  rcases encoderType_cases a (opts.att i) with h0 | ⟨h1, _⟩ | ⟨h2, _⟩ | ⟨h3, _⟩
  · have : transformRow opts i a = id := by funext row; simp [transformRow, h0]
    simp only [h0, this, List.map_id]
  · have : transformRow opts i a = id := by funext row; simp [transformRow, h1]
    simp only [h1, this, List.map_id]
  · cases hq : quantizationParams a (opts.att i) with
    | none =>
      have : transformRow opts i a = fun _ => [] := by funext row; simp [transformRow, h2, hq]
      simp only [h2, this, flatten_map_nil]
    | some p =>
      obtain ⟨mins, range, q⟩ := p
      obtain ⟨_, _, _, qml, _, _⟩ := quantizationParams_spec a (opts.att i) mins range q hopt hq
      have hT : transformRow opts i a = fun row =>
          dequantRow range q mins (quantizeRow mins range q 0 (rowF32s a.numComponents row)) := by
        funext row; simp [transformRow, h2, hq]
      simp only [h2, hT]
      unfold quantizedPortable
      rw [dequantAll_rows range q mins (by intro hc; rw [hc] at qml; simp at qml; omega) _ []
        (by
          intro r hr
          simp only [List.mem_map] at hr
          obtain ⟨row, _, rfl⟩ := hr
          rw [quantizeRow_length, rowF32s_length, qml])]
      simp [List.map_map, Function.comp_def]
  · cases ht : Octa.init (opts.att i).quantBits.toNat with
    | none =>
      have : transformRow opts i a = fun _ => [] := by funext row; simp [transformRow, h3, ht]
      simp only [h3, this, flatten_map_nil]
    | some t =>
      have hT : transformRow opts i a = fun row =>
          octaRowDecode (opts.att i).quantBits.toNat (octaRow t row) := by
        funext row; simp [transformRow, h3, ht]
      simp only [h3, hT]
      unfold octaPortable
      rw [octaAll_rows _ _ [] (by
        intro r hr
        simp only [List.mem_map] at hr
        obtain ⟨row, _, rfl⟩ := hr
        exact ⟨_, _, rfl⟩)]
      simp [List.map_map, Function.comp_def]

theorem zipIdxFrom_getElem? {α : Type} : ∀ (l : List α) (k j : Nat),
    (zipIdxFrom k l)[j]? = l[j]?.map fun a => (k + j, a) := by
  intro l
  induction l with
  | nil => intro k j; simp [zipIdxFrom]
  | cons x xs ih =>
    intro k j
    cases j with
    | zero => simp [zipIdxFrom]
    | succ j =>
      simp only [zipIdxFrom, List.getElem?_cons_succ, ih]
      cases xs[j]? with
      | none => rfl
      | some a => simp; omega

theorem expected_att (g : Geometry) (opts : EncOpts) (j : Nat) (a : Attribute)
    (h : g.atts[j]? = some a) :
    (expected g opts).atts[j]? = some (expectedAttributeOf opts g.numPoints j a) := by
  simp [expected, zipIdxFrom_getElem?, h]

theorem expectedSkip_att (S : List Nat) (g : Geometry) (opts : EncOpts) (j : Nat) (a : Attribute)
    (h : g.atts[j]? = some a) :
    (expectedSkip S g opts).atts[j]? = some (expectedSkipAttributeOf S opts g.numPoints j a) := by
  simp [expectedSkip, zipIdxFrom_getElem?, h]

end Draco
