import DracoProofs.EbEncCounts2
/-
  "VALUES REFINE VERTICES" for the attribute corner tables of the Edgebreaker ENCODER
  (`MeshAttributeCornerTable::InitFromAttribute`, `EbEnc.initFromAttribute`).

  (S0) `initFromAttribute_eq` (`rfl`): the function over named loop bodies (`ValuesRefine.inStep`, `outStep`, `seamLoop`);
       `initFromAttribute_ok`: a successful run = `seamLoop`, then `recomputeVertices` on its flags.
  (S1) `initFromAttribute_seam_spec` (`ValuesRefine.seamLoop_spec`): an interior edge of a non-degenerate face that is NOT
       marked as seam (or any such edge when `noInteriorSeams`) has the same attribute value index at both ends on both
       sides.  `initFromAttribute_seam_vertices` (`ValuesRefine.seamLoop_sv`): the end points of a marked edge are
       marked in `vertSeam` (the hypothesis `hsvE` of `att_views_iso`).
  (S2) `ValuesRefine.aLP_value`: one `SwingLeft` step of the attribute table keeps the value index of the corner;
       `ValuesRefine.aLP_iter_value` along a sector.
  (S3) `values_refine_vertices`: corners with the same attribute vertex carry the same value index
       (`ValuesRefine.fan_of_create`: `InFan` and `FanHyp` for the corners of non-degenerate faces of a created table).
  (S4) `values_refine_base`: without interior seams, corners with the same base vertex carry the same value index.
  Hypothesis left on the created table: `hvcE` (`vertex_corners_[v]` is a corner of `v`), as in `att_views_iso`.
-/
namespace Draco.EbEnc
open Draco
open Draco.Eb hiding iabs nextC prevC

namespace ValuesRefine
open AttViews EncCounts

/-! ## the function over named loop bodies -/

/-- (`is_edge_on_seam_`, `is_vertex_on_seam_`, `no_interior_seams_`, `act_c`, `act_sibling_c`) -/
abbrev ISt := Array Bool × Array Bool × Bool × Nat × Nat
/-- (`is_edge_on_seam_`, `is_vertex_on_seam_`, `no_interior_seams_`) -/
abbrev OSt := Array Bool × Array Bool × Bool

/-- the body of the loop `for (int i = 0; i < 2; ++i)` of `InitFromAttribute` for the corner `c` with opposite `oppC` -/
def inStep (t : CT) (cv : Array Nat) (c oppC : Nat) (_x : Nat) (s : ISt) : R (ForInStep ISt) := do
  let a ← rd "att->mapped_index(mesh->CornerToPointId(c))" cv (Eb.nextC s.2.2.2.1)
  let b ← rd "att->mapped_index(mesh->CornerToPointId(c))" cv (Eb.prevC s.2.2.2.2)
  if (a != b) = true then do
    let edgeSeam ← wrB "is_edge_on_seam_" s.1 c true
    let edgeSeam ← wrB "is_edge_on_seam_" edgeSeam oppC true
    let v ← vertex t.c2v (Eb.nextC c)
    let vertSeam ← wrB "is_vertex_on_seam_" s.2.1 v true
    let v ← vertex t.c2v (Eb.prevC c)
    let vertSeam ← wrB "is_vertex_on_seam_" vertSeam v true
    let v ← vertex t.c2v (Eb.nextC oppC)
    let vertSeam ← wrB "is_vertex_on_seam_" vertSeam v true
    let v ← vertex t.c2v (Eb.prevC oppC)
    let vertSeam ← wrB "is_vertex_on_seam_" vertSeam v true
    pure (ForInStep.done (edgeSeam, vertSeam, false, Eb.nextC s.2.2.2.1, Eb.prevC s.2.2.2.2))
  else pure (ForInStep.yield (s.1, s.2.1, s.2.2.1, Eb.nextC s.2.2.2.1, Eb.prevC s.2.2.2.2))

/-- the body of the loop over the corners of `InitFromAttribute` -/
def outStep (t : CT) (cv : Array Nat) (c : Nat) (s : OSt) : R (ForInStep OSt) := do
  let d ← isDegenerated t (c / 3)
  if d = true then pure (ForInStep.yield (s.1, s.2.1, s.2.2))
  else do
    let oppC ← opposite t.opp c
    if (oppC == inv) = true then do
      let edgeSeam ← wrB "is_edge_on_seam_" s.1 c true
      let v ← vertex t.c2v (Eb.nextC c)
      let vertSeam ← wrB "is_vertex_on_seam_" s.2.1 v true
      let v ← vertex t.c2v (Eb.prevC c)
      let vertSeam ← wrB "is_vertex_on_seam_" vertSeam v true
      pure (ForInStep.yield (edgeSeam, vertSeam, s.2.2))
    else if oppC < c then pure (ForInStep.yield (s.1, s.2.1, s.2.2))
    else do
      let r ← forIn [:2] ((s.1, s.2.1, s.2.2, c, oppC) : ISt) (inStep t cv c oppC)
      pure (ForInStep.yield (r.1, r.2.1, r.2.2.1))

/-- the seam-marking loop of `InitFromAttribute` -/
def seamLoop (t : CT) (cv : Array Nat) : R OSt :=
  forIn [:t.numCorners] ((Array.replicate t.numCorners false, Array.replicate t.vc.size false, true) : OSt)
    (outStep t cv)

/-! ## (S1) the seam-marking loop -/

/-- flags are only set -/
def BMono (a b : Array Bool) : Prop := b.size = a.size ∧ ∀ x : Nat, a[x]! = true → b[x]! = true

theorem BMono.refl (a : Array Bool) : BMono a a := ⟨rfl, fun _ h => h⟩

theorem BMono.trans {a b c : Array Bool} (h1 : BMono a b) (h2 : BMono b c) : BMono a c :=
  ⟨h2.1.trans h1.1, fun x h => h2.2 x (h1.2 x h)⟩

theorem BMono.false {a b : Array Bool} (h : BMono a b) {x : Nat} (hx : b[x]! = false) : a[x]! = false := by
  cases ha : a[x]! with
  | false => rfl
  | true => rw [h.2 x ha] at hx; cases hx

theorem get!_true_lt {a : Array Bool} {x : Nat} (h : a[x]! = true) : x < a.size := by
  apply Classical.byContradiction
  intro hx
  rw [getElem!_neg a x hx] at h
  cases h

theorem wrB_mono {site : String} {a r : Array Bool} {i : Nat} (h : wrB site a i true = .ok r) :
    BMono a r ∧ r[i]! = true := by
  obtain ⟨hi, hsz, hg⟩ := Seams.wrB_ok h
  refine ⟨⟨hsz, fun x hx => ?_⟩, ?_⟩
  · rw [hg x (get!_true_lt hx)]
    split
    · rfl
    · exact hx
  · rw [hg i hi, if_pos rfl]

theorem rd_val {site : String} {a : Array Nat} {i v : Nat} (h : rd site a i = .ok v) : v = a[i]! := by
  obtain ⟨hi, e⟩ := rd_ok h
  rw [← e]; simp [hi]

/-- one comparison: either the edge is marked on both sides and the loop ends, or the two values agree -/
theorem inStep_ok {t : CT} {cv : Array Nat} {c o x : Nat} {s : ISt} {r : ForInStep ISt}
    (h : inStep t cv c o x s = .ok r) :
    (∃ es vs, r = .done (es, vs, false, Eb.nextC s.2.2.2.1, Eb.prevC s.2.2.2.2) ∧ BMono s.1 es ∧
        es[c]! = true ∧ es[o]! = true) ∨
      (r = .yield (s.1, s.2.1, s.2.2.1, Eb.nextC s.2.2.2.1, Eb.prevC s.2.2.2.2) ∧
        cv[Eb.nextC s.2.2.2.1]! = cv[Eb.prevC s.2.2.2.2]!) := by
  unfold inStep at h
  obtain ⟨a, ha, h⟩ := (bind_ok_iff _ _ _).mp h
  obtain ⟨b, hb, h⟩ := (bind_ok_iff _ _ _).mp h
  rcases ite_ok h with ⟨hc, h⟩ | ⟨hc, h⟩
  · left
    obtain ⟨es1, h1, h⟩ := (bind_ok_iff _ _ _).mp h
    obtain ⟨es2, h2, h⟩ := (bind_ok_iff _ _ _).mp h
    obtain ⟨v1, _, h⟩ := (bind_ok_iff _ _ _).mp h
    obtain ⟨vs1, _, h⟩ := (bind_ok_iff _ _ _).mp h
    obtain ⟨v2, _, h⟩ := (bind_ok_iff _ _ _).mp h
    obtain ⟨vs2, _, h⟩ := (bind_ok_iff _ _ _).mp h
    obtain ⟨v3, _, h⟩ := (bind_ok_iff _ _ _).mp h
    obtain ⟨vs3, _, h⟩ := (bind_ok_iff _ _ _).mp h
    obtain ⟨v4, _, h⟩ := (bind_ok_iff _ _ _).mp h
    obtain ⟨vs4, _, h⟩ := (bind_ok_iff _ _ _).mp h
    obtain ⟨m1, g1⟩ := wrB_mono h1
    obtain ⟨m2, g2⟩ := wrB_mono h2
    exact ⟨es2, vs4, pure_ok h, m1.trans m2, m2.2 c g1, g2⟩
  · right
    refine ⟨pure_ok h, ?_⟩
    rw [← rd_val ha, ← rd_val hb]
    simpa using hc

/-- a loop over `[:2]` -/
theorem forIn_two {σ : Type} (f : Nat → σ → R (ForInStep σ)) (init out : σ) (h : forIn [:2] init f = .ok out) :
    f 0 init = .ok (.done out) ∨
      ∃ s1, f 0 init = .ok (.yield s1) ∧ (f 1 s1 = .ok (.done out) ∨ f 1 s1 = .ok (.yield out)) := by
  rw [Seams.range_forIn] at h
  have e : List.range' 0 2 1 = [0, 1] := rfl
  rw [e, List.forIn_cons] at h
  obtain ⟨r0, h0, h⟩ := (bind_ok_iff _ _ _).mp h
  cases r0 with
  | done b =>
    left
    rw [h0, pure_ok h]
  | yield s1 =>
    right
    refine ⟨s1, h0, ?_⟩
    simp only [] at h
    rw [List.forIn_cons] at h
    obtain ⟨r1, h1, h⟩ := (bind_ok_iff _ _ _).mp h
    cases r1 with
    | done b => left; rw [h1, pure_ok h]
    | yield s2 =>
      right
      simp only [List.forIn_nil] at h
      rw [h1, pure_ok h]

/-- the two comparisons for the edge opposite to `c`: flags are only set; if one of the two flags of the edge is still
    clear, or `no_interior_seams_` still holds, the values at both ends agree -/
theorem inLoop_ok {t : CT} {cv : Array Nat} {c o : Nat} {es vs : Array Bool} {ni : Bool} {r : ISt}
    (h : forIn [:2] ((es, vs, ni, c, o) : ISt) (inStep t cv c o) = .ok r) :
    BMono es r.1 ∧ (r.2.2.1 = true → ni = true) ∧
      ((r.1[c]! = false ∨ r.1[o]! = false ∨ r.2.2.1 = true) →
        cv[Eb.nextC c]! = cv[Eb.prevC o]! ∧ cv[Eb.nextC (Eb.nextC c)]! = cv[Eb.prevC (Eb.prevC o)]!) := by
  have hdone : ∀ {es' vs' : Array Bool} {a b : Nat}, BMono es es' → es'[c]! = true → es'[o]! = true →
      BMono es (es', vs', false, a, b).1 ∧ ((es', vs', false, a, b).2.2.1 = true → ni = true) ∧
      (((es', vs', false, a, b) : ISt).1[c]! = false ∨ ((es', vs', false, a, b) : ISt).1[o]! = false ∨
          ((es', vs', false, a, b) : ISt).2.2.1 = true →
        cv[Eb.nextC c]! = cv[Eb.prevC o]! ∧ cv[Eb.nextC (Eb.nextC c)]! = cv[Eb.prevC (Eb.prevC o)]!) := by
    intro es' vs' a b hm h1 h2
    refine ⟨hm, fun h => (by cases h), fun h => ?_⟩
    simp only [h1, h2] at h
    rcases h with h | h | h <;> cases h
  rcases forIn_two _ _ _ h with h0 | ⟨s1, h0, h1⟩
  · rcases inStep_ok h0 with ⟨es', vs', e, hm, g1, g2⟩ | ⟨e, _⟩
    · injection e with e
      subst e
      exact hdone hm g1 g2
    · cases e
  · rcases inStep_ok h0 with ⟨es', vs', e, _⟩ | ⟨e, hv0⟩
    · cases e
    · injection e with e
      subst e
      rcases h1 with h1 | h1
      · rcases inStep_ok h1 with ⟨es', vs', e, hm, g1, g2⟩ | ⟨e, _⟩
        · injection e with e
          subst e
          exact hdone hm g1 g2
        · cases e
      · rcases inStep_ok h1 with ⟨es', vs', e, _⟩ | ⟨e, hv1⟩
        · cases e
        · injection e with e
          subst e
          exact ⟨BMono.refl _, fun h => h, fun _ => ⟨hv0, hv1⟩⟩

theorem vget_eq (a : Array Nat) (i : Nat) : vget a i = a[i]! := by
  unfold vget
  rw [Array.getElem!_eq_getD]
  rfl

/-- the edge opposite to `c` is compared at `c`: `c` lies in a non-degenerate face, the edge is interior and `c` is the
    smaller of the two corners opposite to it -/
def Handled (t : CT) (c : Nat) : Prop := isDegenA t.c2v (c / 3) = false ∧ t.opp[c]! ≠ inv ∧ c ≤ t.opp[c]!

/-- the attribute values agree at both ends of the edge opposite to `c`, seen from its two faces -/
def EdgeEq (t : CT) (cv : Array Nat) (c : Nat) : Prop :=
  cv[Eb.nextC c]! = cv[Eb.prevC t.opp[c]!]! ∧ cv[Eb.prevC c]! = cv[Eb.nextC t.opp[c]!]!

/-- the body for the corner `c`: it continues; flags are only set, `no_interior_seams_` is only cleared; if the edge is
    compared at `c` and one of its flags is clear afterwards (or `no_interior_seams_` still holds), the values agree -/
theorem outStep_ok {t : CT} {cv : Array Nat} (hk : CTOK t) {c : Nat} (hc : c < t.numCorners) {s : OSt}
    {r : ForInStep OSt} (h : outStep t cv c s = .ok r) :
    ∃ s', r = .yield s' ∧ BMono s.1 s'.1 ∧ (s'.2.2 = true → s.2.2 = true) ∧
      (Handled t c → (s'.1[c]! = false ∨ s'.1[t.opp[c]!]! = false ∨ s'.2.2 = true) → EdgeEq t cv c) := by
  have h3 := hk.three
  have hfit := hk.fits
  unfold CT.numCorners at hc
  have hci : c ≠ inv := by omega
  unfold outStep at h
  obtain ⟨d, hd, h⟩ := (bind_ok_iff _ _ _).mp h
  have hdA := isDegenerated_ok hk (f := c / 3) (by omega) hd
  rcases ite_ok h with ⟨hdt, h⟩ | ⟨hdt, h⟩
  · refine ⟨_, pure_ok h, BMono.refl _, fun e => e, fun hh => ?_⟩
    rw [hdt] at hdA
    have := hh.1
    rw [← hdA] at this
    cases this
  · obtain ⟨o, ho, h⟩ := (bind_ok_iff _ _ _).mp h
    obtain ⟨_, hov⟩ := opposite_get hci ho
    rw [vget_eq] at hov
    rcases ite_ok h with ⟨hoi, h⟩ | ⟨hoi, h⟩
    · obtain ⟨es1, h1, h⟩ := (bind_ok_iff _ _ _).mp h
      obtain ⟨v1, _, h⟩ := (bind_ok_iff _ _ _).mp h
      obtain ⟨vs1, _, h⟩ := (bind_ok_iff _ _ _).mp h
      obtain ⟨v2, _, h⟩ := (bind_ok_iff _ _ _).mp h
      obtain ⟨vs2, _, h⟩ := (bind_ok_iff _ _ _).mp h
      refine ⟨_, pure_ok h, (wrB_mono h1).1, fun e => e, fun hh => ?_⟩
      have : o = inv := by simpa using hoi
      have h2 := hh.2.1
      rw [hov, this] at h2
      exact absurd rfl h2
    · rcases ite_ok h with ⟨hlt, h⟩ | ⟨hlt, h⟩
      · refine ⟨_, pure_ok h, BMono.refl _, fun e => e, fun hh => ?_⟩
        have := hh.2.2
        rw [hov] at this
        omega
      · obtain ⟨ri, hri, h⟩ := (bind_ok_iff _ _ _).mp h
        obtain ⟨a1, a2, a3⟩ := inLoop_ok hri
        refine ⟨_, pure_ok h, a1, a2, fun hh hfl => ?_⟩
        have hoinv : o ≠ inv := by simpa using hoi
        have holt : o < inv := by
          have := hk.opp_lt c hc (by rw [vget_eq, hov]; exact hoinv)
          rw [vget_eq, hov] at this
          omega
        unfold EdgeEq
        rw [hov]
        have := a3 (by rw [hov] at hfl; exact hfl)
        rw [nextC_nextC' c (by omega), prevC_prevC' o holt] at this
        exact this

/-- **the seam-marking loop**: it allocates one flag per corner, and an edge compared at `c` whose flags are not both set
    at the end — or any compared edge, when `no_interior_seams_` holds at the end — has agreeing values -/
theorem seamLoop_handled {t : CT} {cv : Array Nat} (hk : CTOK t) {s : OSt} (h : seamLoop t cv = .ok s) :
    s.1.size = t.numCorners ∧ ∀ c, c < t.numCorners → Handled t c →
      (s.1[c]! = false ∨ s.1[t.opp[c]!]! = false ∨ s.2.2 = true) → EdgeEq t cv c := by
  unfold seamLoop at h
  rw [Seams.range_forIn] at h
  have key := Seams.loop_inv_ok (outStep t cv)
    (fun k s => s.1.size = t.numCorners ∧ ∀ c, c < k → Handled t c →
      (s.1[c]! = false ∨ s.1[t.opp[c]!]! = false ∨ s.2.2 = true) → EdgeEq t cv c) t.numCorners 0
    (by
      intro j s r _ hj ⟨hsz, hI⟩ hr
      obtain ⟨s', rfl, hm, hni, hnew⟩ := outStep_ok hk (by omega) hr
      refine ⟨s', rfl, hm.1.trans hsz, ?_⟩
      intro c hcj hh hfl
      by_cases e : c = j
      · subst e; exact hnew hh hfl
      · apply hI c (by omega) hh
        rcases hfl with h1 | h1 | h1
        · exact Or.inl (hm.false h1)
        · exact Or.inr (Or.inl (hm.false h1))
        · exact Or.inr (Or.inr (hni h1)))
    _ s ⟨by simp, fun c hc => by omega⟩ h
  exact ⟨key.1, fun c hc => key.2 c (by omega)⟩

/-- **(S1) the seam flags**: after the loop, for a corner `c` of a non-degenerate face whose opposite edge is interior:
    if the flag of `c` is clear (or `no_interior_seams_` holds), the attribute values agree at both ends of the edge.
    `hinvol`: `Opposite` is an involution (`BaseTbl.invol`). -/
theorem seamLoop_spec {t : CT} {cv : Array Nat} (hk : CTOK t)
    (hinvol : ∀ c, c < t.numCorners → t.opp[c]! ≠ inv → t.opp[t.opp[c]!]! = c)
    {s : OSt} (h : seamLoop t cv = .ok s) :
    s.1.size = t.numCorners ∧ ∀ c, c < t.numCorners → isDegenA t.c2v (c / 3) = false → t.opp[c]! ≠ inv →
      (s.1[c]! = false ∨ s.2.2 = true) → EdgeEq t cv c := by
  obtain ⟨hsz, hall⟩ := seamLoop_handled hk h
  refine ⟨hsz, fun c hc hnd hoi hfl => ?_⟩
  have hfit := hk.fits
  unfold CT.numCorners at hc
  by_cases hle : c ≤ t.opp[c]!
  · apply hall c hc ⟨hnd, hoi, hle⟩
    rcases hfl with e | e
    · exact Or.inl e
    · exact Or.inr (Or.inr e)
  · have hoi' : vget t.opp c ≠ inv := by rw [vget_eq]; exact hoi
    have holt := hk.opp_lt c hc hoi'
    have hond := hk.oppnd c hc hoi'
    rw [vget_eq] at holt hond
    have hback := hinvol c hc hoi
    have := hall t.opp[c]! holt ⟨hond, by rw [hback]; omega, by rw [hback]; omega⟩ (by
      rw [hback]
      rcases hfl with e | e
      · exact Or.inr (Or.inl e)
      · exact Or.inr (Or.inr e))
    unfold EdgeEq at this ⊢
    rw [hback] at this
    exact ⟨this.2.symm, this.1.symm⟩

/-! ### the end points of a marked edge are marked (`AddSeamEdge`) -/

/-- the end points of every marked edge are marked in `is_vertex_on_seam_` -/
def SV (t : CT) (es vs : Array Bool) : Prop :=
  ∀ x : Nat, es[x]! = true → vs[t.c2v[Eb.prevC x]!]! = true ∧ vs[t.c2v[Eb.nextC x]!]! = true

theorem wrB_cases {site : String} {a r : Array Bool} {i : Nat} (h : wrB site a i true = .ok r) (x : Nat)
    (hx : r[x]! = true) : x = i ∨ a[x]! = true := by
  obtain ⟨_, hsz, hg⟩ := Seams.wrB_ok h
  have hlt := get!_true_lt hx
  rw [hsz] at hlt
  rw [hg x hlt] at hx
  by_cases e : x = i
  · exact Or.inl e
  · rw [if_neg e] at hx; exact Or.inr hx

theorem vertex_val {c2v : Array Nat} {c v : Nat} (hc : c < inv) (h : vertex c2v c = .ok v) : v = c2v[c]! := by
  obtain ⟨_, e⟩ := vertex_get (by omega) h
  rw [← e, vget_eq]

theorem replicate_false_get (n x : Nat) : (Array.replicate n false)[x]! = false := by
  by_cases h : x < n
  · simp [h]
  · rw [getElem!_neg _ _ (by simpa using h)]
    rfl

theorem inStep_sv {t : CT} {cv : Array Nat} {c o x : Nat} (hc : c < inv) (ho : o < inv) {s : ISt} {r : ForInStep ISt}
    (hs : SV t s.1 s.2.1) (h : inStep t cv c o x s = .ok r) : SV t (stepVal r).1 (stepVal r).2.1 := by
  unfold inStep at h
  obtain ⟨a, ha, h⟩ := (bind_ok_iff _ _ _).mp h
  obtain ⟨b, hb, h⟩ := (bind_ok_iff _ _ _).mp h
  rcases ite_ok h with ⟨_, h⟩ | ⟨_, h⟩
  · obtain ⟨es1, h1, h⟩ := (bind_ok_iff _ _ _).mp h
    obtain ⟨es2, h2, h⟩ := (bind_ok_iff _ _ _).mp h
    obtain ⟨v1, e1, h⟩ := (bind_ok_iff _ _ _).mp h
    obtain ⟨vs1, w1, h⟩ := (bind_ok_iff _ _ _).mp h
    obtain ⟨v2, e2, h⟩ := (bind_ok_iff _ _ _).mp h
    obtain ⟨vs2, w2, h⟩ := (bind_ok_iff _ _ _).mp h
    obtain ⟨v3, e3, h⟩ := (bind_ok_iff _ _ _).mp h
    obtain ⟨vs3, w3, h⟩ := (bind_ok_iff _ _ _).mp h
    obtain ⟨v4, e4, h⟩ := (bind_ok_iff _ _ _).mp h
    obtain ⟨vs4, w4, h⟩ := (bind_ok_iff _ _ _).mp h
    rw [pure_ok h]
    show SV t es2 vs4
    obtain ⟨m1, g1⟩ := wrB_mono w1
    obtain ⟨m2, g2⟩ := wrB_mono w2
    obtain ⟨m3, g3⟩ := wrB_mono w3
    obtain ⟨m4, g4⟩ := wrB_mono w4
    rw [vertex_val (Eb.nextC_lt c hc) e1] at g1
    rw [vertex_val (prevC_lt_inv c hc) e2] at g2
    rw [vertex_val (Eb.nextC_lt o ho) e3] at g3
    rw [vertex_val (prevC_lt_inv o ho) e4] at g4
    intro y hy
    rcases wrB_cases h2 y hy with e | hy
    · subst e
      exact ⟨g4, m4.2 _ g3⟩
    · rcases wrB_cases h1 y hy with e | hy
      · subst e
        exact ⟨m4.2 _ (m3.2 _ g2), m4.2 _ (m3.2 _ (m2.2 _ g1))⟩
      · obtain ⟨p1, p2⟩ := hs y hy
        exact ⟨m4.2 _ (m3.2 _ (m2.2 _ (m1.2 _ p1))), m4.2 _ (m3.2 _ (m2.2 _ (m1.2 _ p2)))⟩
  · rw [pure_ok h]
    exact hs

theorem outStep_sv {t : CT} {cv : Array Nat} (hk : CTOK t) {c : Nat} (hc : c < t.numCorners) {s : OSt}
    {r : ForInStep OSt} (hs : SV t s.1 s.2.1) (h : outStep t cv c s = .ok r) : SV t (stepVal r).1 (stepVal r).2.1 := by
  have hfit := hk.fits
  unfold CT.numCorners at hc
  have hci : c < inv := by omega
  unfold outStep at h
  obtain ⟨d, hd, h⟩ := (bind_ok_iff _ _ _).mp h
  rcases ite_ok h with ⟨_, h⟩ | ⟨_, h⟩
  · rw [pure_ok h]; exact hs
  · obtain ⟨o, ho, h⟩ := (bind_ok_iff _ _ _).mp h
    obtain ⟨_, hov⟩ := opposite_get (by omega) ho
    rcases ite_ok h with ⟨hoi, h⟩ | ⟨hoi, h⟩
    · obtain ⟨es1, h1, h⟩ := (bind_ok_iff _ _ _).mp h
      obtain ⟨v1, e1, h⟩ := (bind_ok_iff _ _ _).mp h
      obtain ⟨vs1, w1, h⟩ := (bind_ok_iff _ _ _).mp h
      obtain ⟨v2, e2, h⟩ := (bind_ok_iff _ _ _).mp h
      obtain ⟨vs2, w2, h⟩ := (bind_ok_iff _ _ _).mp h
      rw [pure_ok h]
      show SV t es1 vs2
      obtain ⟨m1, g1⟩ := wrB_mono w1
      obtain ⟨m2, g2⟩ := wrB_mono w2
      rw [vertex_val (Eb.nextC_lt c hci) e1] at g1
      rw [vertex_val (prevC_lt_inv c hci) e2] at g2
      intro y hy
      rcases wrB_cases h1 y hy with e | hy
      · subst e
        exact ⟨g2, m2.2 _ g1⟩
      · obtain ⟨p1, p2⟩ := hs y hy
        exact ⟨m2.2 _ (m1.2 _ p1), m2.2 _ (m1.2 _ p2)⟩
    · rcases ite_ok h with ⟨_, h⟩ | ⟨_, h⟩
      · rw [pure_ok h]; exact hs
      · obtain ⟨ri, hri, h⟩ := (bind_ok_iff _ _ _).mp h
        rw [pure_ok h]
        show SV t ri.1 ri.2.1
        have hoinv : o ≠ inv := by simpa using hoi
        have holt : o < inv := by
          have := hk.opp_lt c hc (by rw [hov]; exact hoinv)
          rw [hov] at this
          omega
        exact range_forIn_inv 2 (inStep t cv c o) (fun s => SV t s.1 s.2.1)
          (fun a s r hI hr => inStep_sv hci holt hI hr) _ ri hs hri

/-- the seam-marking loop marks the end points of every edge it marks -/
theorem seamLoop_sv {t : CT} {cv : Array Nat} (hk : CTOK t) {s : OSt} (h : seamLoop t cv = .ok s) :
    SV t s.1 s.2.1 := by
  unfold seamLoop at h
  rw [Seams.range_forIn] at h
  have key := Seams.loop_inv_ok (outStep t cv) (fun _ s => SV t s.1 s.2.1) t.numCorners 0
    (by
      intro j s r _ hj hI hr
      have := outStep_sv hk (by omega) hI hr
      obtain ⟨s', rfl, _⟩ := outStep_ok hk (by omega) hr
      exact ⟨s', rfl, this⟩)
    _ s (by
      intro x hx
      rw [replicate_false_get] at hx
      cases hx) h
  exact key

end ValuesRefine
open ValuesRefine

/-- `InitFromAttribute` is: the seam-marking loop, then `RecomputeVertices` on its flags -/
theorem initFromAttribute_eq (t : CT) (cv : Array Nat) :
    initFromAttribute t cv = (do
      let s ← seamLoop t cv
      let (c2v, lm) ← recomputeVertices t s.1 s.2.1
      pure { edgeSeam := s.1, vertSeam := s.2.1, c2v, lm, noInteriorSeams := s.2.2 }) := by
  rfl

/-- a successful `InitFromAttribute`: the flags are those of the seam-marking loop, the vertices those of
    `RecomputeVertices` on these flags -/
theorem initFromAttribute_ok {t : CT} {cv : Array Nat} {a : AttConn} (h : initFromAttribute t cv = .ok a) :
    ∃ s, seamLoop t cv = .ok s ∧ a.edgeSeam = s.1 ∧ a.vertSeam = s.2.1 ∧ a.noInteriorSeams = s.2.2 ∧
      recomputeVertices t s.1 s.2.1 = .ok (a.c2v, a.lm) := by
  rw [initFromAttribute_eq] at h
  obtain ⟨s, hs, h⟩ := (bind_ok_iff _ _ _).mp h
  obtain ⟨x, hx, h⟩ := (bind_ok_iff _ _ _).mp h
  obtain ⟨c2v, lm⟩ := x
  have := EncCounts.pure_ok h
  subst this
  exact ⟨s, hs, rfl, rfl, rfl, hx⟩

/-- **(S1) the seam flags of `InitFromAttribute`.**  `t` a table with the properties `CTOK` (sizes, degenerate faces have
    no neighbours) and an involutive `Opposite` (`hinvol`; both hold of a created table).  For a corner `c` of a
    non-degenerate face whose opposite edge is interior (`t.opp[c]! ≠ inv`): if the edge is NOT marked as seam at `c` —
    or the attribute has no interior seams — the attribute value indices agree at both ends of the edge, seen from the
    face of `c` and from the opposite face:
    `cv[Next c] = cv[Previous (Opposite c)]` and `cv[Previous c] = cv[Next (Opposite c)]`. -/
theorem initFromAttribute_seam_spec {t : CT} {cv : Array Nat} {a : AttConn} (hk : EncCounts.CTOK t)
    (hinvol : ∀ c, c < t.numCorners → t.opp[c]! ≠ inv → t.opp[t.opp[c]!]! = c)
    (h : initFromAttribute t cv = .ok a) :
    a.edgeSeam.size = t.numCorners ∧ ∀ c, c < t.numCorners → isDegenA t.c2v (c / 3) = false → t.opp[c]! ≠ inv →
      (a.edgeSeam[c]! = false ∨ a.noInteriorSeams = true) →
      cv[Eb.nextC c]! = cv[Eb.prevC t.opp[c]!]! ∧ cv[Eb.prevC c]! = cv[Eb.nextC t.opp[c]!]! := by
  obtain ⟨s, hs, e1, _, e3, _⟩ := initFromAttribute_ok h
  rw [e1, e3]
  exact seamLoop_spec hk hinvol hs

/-- the end points of every seam edge are seam vertices -/
theorem initFromAttribute_seam_vertices {t : CT} {cv : Array Nat} {a : AttConn} (hk : EncCounts.CTOK t)
    (h : initFromAttribute t cv = .ok a) (c : Nat) (hc : a.edgeSeam[c]! = true) :
    a.vertSeam[t.c2v[Eb.prevC c]!]! = true ∧ a.vertSeam[t.c2v[Eb.nextC c]!]! = true := by
  obtain ⟨s, hs, e1, e2, _, _⟩ := initFromAttribute_ok h
  rw [e1] at hc
  rw [e2]
  exact seamLoop_sv hk hs c hc

namespace ValuesRefine
open AttViews EncCounts

/-! ## (S2) one attribute `SwingLeft` step keeps the value -/

section swing
variable {t : CT} {cv : Array Nat} (hk : CTOK t) (hb : BaseTbl t.numCorners t.opp) {s : OSt}
  (h : seamLoop t cv = .ok s)
include hk hb h

/-- **(S2)** a step to the left on the attribute table (no seam is crossed) from a corner of a non-degenerate face leads
    to a corner of a non-degenerate face with the same attribute value index -/
theorem aLP_value {x : Nat} (hx : x < t.numCorners) (hnd : isDegenA t.c2v (x / 3) = false)
    (hne : aLP t.opp s.1 x ≠ inv) :
    cv[aLP t.opp s.1 x]! = cv[x]! ∧ aLP t.opp s.1 x < t.numCorners ∧
      isDegenA t.c2v (aLP t.opp s.1 x / 3) = false := by
  have hle := hb.le
  have hxi : x ≠ inv := hb.ne_inv hx
  rcases hb.aL_cases s.1 hx with ⟨e, _⟩ | ⟨_, hfl, e⟩
  · exact absurd e hne
  · have hlt : aLP t.opp s.1 x < t.numCorners := by
      rcases hb.aL_lt s.1 hx with e' | e'
      · exact absurd e' hne
      · exact e'
    rw [e] at hne hlt ⊢
    unfold sLP at hne hlt ⊢
    rw [if_neg hxi] at hne hlt ⊢
    have hn : Eb.nextC x < t.numCorners := nextC_ltN hb.n3 hx
    have hoi : t.opp[Eb.nextC x]! ≠ inv := by
      intro e'; rw [e', nextC_inv] at hne; exact hne rfl
    have hndn : isDegenA t.c2v (Eb.nextC x / 3) = false := by rw [Eb.nextC_face x hxi]; exact hnd
    have hE := (seamLoop_spec hk (fun c hc hne => (hb.invol c hc hne).2) h).2 _ hn hndn hoi (Or.inl hfl)
    have hond := hk.oppnd (Eb.nextC x) hn (by rw [vget_eq]; exact hoi)
    rw [vget_eq] at hond
    refine ⟨?_, hlt, ?_⟩
    · have := hE.2
      rw [Eb.prevC_nextC x (by omega)] at this
      exact this.symm
    · rw [Eb.nextC_face _ hoi]; exact hond

/-- **(S3, along a sector)** attribute `SwingLeft` steps keep the value -/
theorem aLP_iter_value {x : Nat} (hx : x < t.numCorners) (hnd : isDegenA t.c2v (x / 3) = false) :
    ∀ k, iter (aLP t.opp s.1) k x ≠ inv →
      cv[iter (aLP t.opp s.1) k x]! = cv[x]! ∧ iter (aLP t.opp s.1) k x < t.numCorners ∧
        isDegenA t.c2v (iter (aLP t.opp s.1) k x / 3) = false := by
  intro k
  induction k with
  | zero => intro _; exact ⟨rfl, hx, hnd⟩
  | succ k ih =>
    intro hne
    rw [iter_succ'] at hne ⊢
    have hk' : iter (aLP t.opp s.1) k x ≠ inv := by
      intro e; rw [e, aLP_inv] at hne; exact hne rfl
    obtain ⟨i1, i2, i3⟩ := ih hk'
    obtain ⟨j1, j2, j3⟩ := aLP_value hk hb h i2 i3 hne
    exact ⟨j1.trans i1, j2, j3⟩

end swing

end ValuesRefine

namespace ValuesRefine
open AttViews EncCounts

section create
variable {faces : Faces} {table : CornerTable} (hc : CornerTable.create faces = some table)
include hc

/-- the vertex of a corner of a created table indexes `vertex_corners_` -/
theorem ofTable_vertex_lt (x : Nat) (hx : x < 3 * faces.size) :
    (CT.ofTable table).c2v[x]! < (CT.ofTable table).vc.size := by
  have h1 := ((CornerTable.createF_vinv hc).2.2 x hx).1
  have h2 : (CT.ofTable table).vc.size = table.vertexCorners.size := by
    show (Array.map _ table.vertexCorners).size = _
    rw [Array.size_map]
  rw [h2, ← vget_eq]
  exact h1

/-- `IsDegenerated` of the array form is `faceDegenerate` of the input -/
theorem ofTable_isDegenA (f : Nat) (hf : f < faces.size) :
    isDegenA (CT.ofTable table).c2v f = faceDegenerate faces f :=
  CornerTable.createF_isDegenerated hc f hf

/-- a corner of a non-degenerate face lies in the fan of the left-most corner of its vertex, and that fan satisfies the
    hypotheses of the specification of `RecomputeVertices`, for the flags of the seam-marking loop -/
theorem fan_of_create
    (hvcE : ∀ v, v < (CT.ofTable table).vc.size → (CT.ofTable table).vc[v]! ≠ inv →
      (CT.ofTable table).vc[v]! < (CT.ofTable table).numCorners ∧
        (CT.ofTable table).c2v[(CT.ofTable table).vc[v]!]! = v)
    {cv : Array Nat} {s : OSt} (h : seamLoop (CT.ofTable table) cv = .ok s)
    (x : Nat) (hx : x < 3 * faces.size) (hnd : faceDegenerate faces (x / 3) = false) :
    InFan (CT.ofTable table).opp (CT.ofTable table).vc[(CT.ofTable table).c2v[x]!]! x ∧
      FanHyp (CT.ofTable table).opp (CT.ofTable table).vc s.1 s.2.1 ((CT.ofTable table).c2v[x]!) := by
  have hfit := create_fits hc
  have hxv := ofTable_vertex_lt hc x hx
  have ht := fanTbl_enc hc hvcE
  have hk := ctok_ofTable hc
  obtain ⟨k, hk'⟩ := cover_enc_of_create hc x hx hnd hxv
  have hxi : x ≠ inv := by omega
  have hc0 : (CT.ofTable table).vc[(CT.ofTable table).c2v[x]!]! ≠ inv := by
    intro e
    rw [e, iter_fix (sRP_inv _)] at hk'
    exact hxi hk'.symm
  refine ⟨⟨hxi, k, hk'⟩, lmost_ofTable hc hvcE _ hxv hc0, ?_⟩
  exact seamVert_of_flags ht s.1 s.2.1 (fun c _ hcs => (seamLoop_sv hk h c hcs).1) _ hxv hc0

end create

end ValuesRefine

/-- **(S3) VALUES REFINE VERTICES, attribute view.**  `t = CT.ofTable table` for a table made by `CornerTable.create`,
    `a` the `MeshAttributeCornerTable` that `InitFromAttribute` builds for the value indices `cv` (per corner).  Two
    corners of non-degenerate faces with the same ATTRIBUTE vertex carry the same attribute value index.
    `hvcE`: the left-most corner recorded for a vertex is a corner of that vertex (the invariant of `vertex_corners_`
    that `att_views_iso` and `computeNumberOfEncodedPoints_create` assume as well). -/
theorem values_refine_vertices {faces : Faces} {table : CornerTable} (hc : CornerTable.create faces = some table)
    (hvcE : ∀ v, v < (CT.ofTable table).vc.size → (CT.ofTable table).vc[v]! ≠ inv →
      (CT.ofTable table).vc[v]! < (CT.ofTable table).numCorners ∧
        (CT.ofTable table).c2v[(CT.ofTable table).vc[v]!]! = v)
    {cv : Array Nat} {a : AttConn} (h : initFromAttribute (CT.ofTable table) cv = .ok a)
    {x y : Nat} (hx : x < (CT.ofTable table).numCorners) (hy : y < (CT.ofTable table).numCorners)
    (hndx : faceDegenerate faces (x / 3) = false) (hndy : faceDegenerate faces (y / 3) = false)
    (hxy : a.c2v[x]! = a.c2v[y]!) : cv[x]! = cv[y]! := by
  have hsz : (CT.ofTable table).numCorners = 3 * faces.size := create_c2v_size hc
  rw [hsz] at hx hy
  have hk := EncCounts.ctok_ofTable hc
  have hb := EncCounts.baseTbl_ofTable hc
  have ht := AttViews.fanTbl_enc hc hvcE
  obtain ⟨s, hs, e1, e2, _, hrun⟩ := initFromAttribute_ok h
  rw [recomputeVertices_eq] at hrun
  have hes := (seamLoop_handled hk hs).1
  obtain ⟨fx1, fx2⟩ := fan_of_create hc hvcE hs x hx hndx
  obtain ⟨fy1, fy2⟩ := fan_of_create hc hvcE hs y hy hndy
  obtain ⟨k, k', hkk, hne⟩ := (AttViews.recomputeG_same_vertex ht s.1 s.2.1 hes a.c2v a.lm hrun x y
    (ofTable_vertex_lt hc x hx) (ofTable_vertex_lt hc y hy) fx1 fy1 fx2 fy2).mp hxy
  have hdx : isDegenA (CT.ofTable table).c2v (x / 3) = false := by
    rw [ofTable_isDegenA hc _ (by omega)]; exact hndx
  have hdy : isDegenA (CT.ofTable table).c2v (y / 3) = false := by
    rw [ofTable_isDegenA hc _ (by omega)]; exact hndy
  have h1 := (aLP_iter_value hk hb hs (by rw [hsz]; exact hx) hdx k hne).1
  have h2 := (aLP_iter_value hk hb hs (by rw [hsz]; exact hy) hdy k' (by rw [← hkk]; exact hne)).1
  rw [← h1, hkk, h2]

namespace ValuesRefine
open AttViews EncCounts

/-! ## (S4) no interior seams: the base view -/

section swingBase
variable {t : CT} {cv : Array Nat} (hk : CTOK t) (hb : BaseTbl t.numCorners t.opp) {s : OSt}
  (h : seamLoop t cv = .ok s) (hni : s.2.2 = true)
include hk hb h hni

/-- without interior seams, a `SwingLeft` step of the BASE table from a corner of a non-degenerate face leads to a corner
    of a non-degenerate face with the same attribute value index -/
theorem sLP_value {x : Nat} (hx : x < t.numCorners) (hnd : isDegenA t.c2v (x / 3) = false)
    (hne : sLP t.opp x ≠ inv) :
    cv[sLP t.opp x]! = cv[x]! ∧ sLP t.opp x < t.numCorners ∧ isDegenA t.c2v (sLP t.opp x / 3) = false := by
  have hle := hb.le
  have hxi : x ≠ inv := hb.ne_inv hx
  have hlt : sLP t.opp x < t.numCorners := by
    rcases hb.sL_lt hx with e' | e'
    · exact absurd e' hne
    · exact e'
  unfold sLP at hne hlt ⊢
  rw [if_neg hxi] at hne hlt ⊢
  have hn : Eb.nextC x < t.numCorners := nextC_ltN hb.n3 hx
  have hoi : t.opp[Eb.nextC x]! ≠ inv := by
    intro e'; rw [e', nextC_inv] at hne; exact hne rfl
  have hndn : isDegenA t.c2v (Eb.nextC x / 3) = false := by rw [Eb.nextC_face x hxi]; exact hnd
  have hE := (seamLoop_spec hk (fun c hc hne => (hb.invol c hc hne).2) h).2 _ hn hndn hoi (Or.inr hni)
  have hond := hk.oppnd (Eb.nextC x) hn (by rw [vget_eq]; exact hoi)
  rw [vget_eq] at hond
  refine ⟨?_, hlt, ?_⟩
  · have := hE.2
    rw [Eb.prevC_nextC x (by omega)] at this
    exact this.symm
  · rw [Eb.nextC_face _ hoi]; exact hond

theorem sLP_iter_value {x : Nat} (hx : x < t.numCorners) (hnd : isDegenA t.c2v (x / 3) = false) :
    ∀ k, iter (sLP t.opp) k x ≠ inv →
      cv[iter (sLP t.opp) k x]! = cv[x]! ∧ iter (sLP t.opp) k x < t.numCorners ∧
        isDegenA t.c2v (iter (sLP t.opp) k x / 3) = false := by
  intro k
  induction k with
  | zero => intro _; exact ⟨rfl, hx, hnd⟩
  | succ k ih =>
    intro hne
    rw [iter_succ'] at hne ⊢
    have hk' : iter (sLP t.opp) k x ≠ inv := by
      intro e
      rw [e] at hne
      exact hne (by simp [sLP])
    obtain ⟨i1, i2, i3⟩ := ih hk'
    obtain ⟨j1, j2, j3⟩ := sLP_value hk hb h hni i2 i3 hne
    exact ⟨j1.trans i1, j2, j3⟩

end swingBase

end ValuesRefine

/-- **(S4) VALUES REFINE VERTICES, base view, for an attribute without interior seams.**  If `InitFromAttribute` found no
    interior seam (`no_interior_seams_`, the condition under which the encoder traverses the BASE corner table for the
    attribute), two corners of non-degenerate faces with the same BASE vertex carry the same attribute value index. -/
theorem values_refine_base {faces : Faces} {table : CornerTable} (hc : CornerTable.create faces = some table)
    (hvcE : ∀ v, v < (CT.ofTable table).vc.size → (CT.ofTable table).vc[v]! ≠ inv →
      (CT.ofTable table).vc[v]! < (CT.ofTable table).numCorners ∧
        (CT.ofTable table).c2v[(CT.ofTable table).vc[v]!]! = v)
    {cv : Array Nat} {a : AttConn} (h : initFromAttribute (CT.ofTable table) cv = .ok a)
    (hni : a.noInteriorSeams = true)
    {x y : Nat} (hx : x < (CT.ofTable table).numCorners) (hy : y < (CT.ofTable table).numCorners)
    (hndx : faceDegenerate faces (x / 3) = false) (hndy : faceDegenerate faces (y / 3) = false)
    (hxy : (CT.ofTable table).c2v[x]! = (CT.ofTable table).c2v[y]!) : cv[x]! = cv[y]! := by
  have hsz : (CT.ofTable table).numCorners = 3 * faces.size := create_c2v_size hc
  have hfit := create_fits hc
  have hk := EncCounts.ctok_ofTable hc
  have hb := EncCounts.baseTbl_ofTable hc
  have ht := AttViews.fanTbl_enc hc hvcE
  obtain ⟨s, hs, _, _, e3, _⟩ := initFromAttribute_ok h
  rw [e3] at hni
  have hx' : x < 3 * faces.size := by rw [← hsz]; exact hx
  have hy' : y < 3 * faces.size := by rw [← hsz]; exact hy
  have hxv := ofTable_vertex_lt hc x hx'
  obtain ⟨kx, hkx⟩ := AttViews.cover_enc_of_create hc x hx' hndx hxv
  obtain ⟨ky, hky⟩ := AttViews.cover_enc_of_create hc y hy' hndy (ofTable_vertex_lt hc y hy')
  rw [← hxy] at hky
  have hc0 : (CT.ofTable table).vc[(CT.ofTable table).c2v[x]!]! ≠ inv := by
    intro e
    rw [e, AttViews.iter_fix (AttViews.sRP_inv _)] at hkx
    omega
  obtain ⟨hc0N, _⟩ := hvcE _ hxv hc0
  have lx := ht.sR_iter_sL hc0N kx x hkx (by omega)
  have ly := ht.sR_iter_sL hc0N ky y hky (by omega)
  have hdx : isDegenA (CT.ofTable table).c2v (x / 3) = false := by
    rw [ofTable_isDegenA hc _ (by omega)]; exact hndx
  have hdy : isDegenA (CT.ofTable table).c2v (y / 3) = false := by
    rw [ofTable_isDegenA hc _ (by omega)]; exact hndy
  have h1 := (sLP_iter_value hk hb hs hni hx hdx kx (by rw [lx]; exact hc0)).1
  have h2 := (sLP_iter_value hk hb hs hni hy hdy ky (by rw [ly]; exact hc0)).1
  rw [← h1, lx, ← ly, h2]

end Draco.EbEnc
