import DracoModel.Quantizer
import Mathlib.Tactic.Linarith
import Mathlib.Tactic.Ring
import Mathlib.Tactic.FieldSimp
import Mathlib.Tactic.Positivity
import Mathlib.Algebra.Order.Floor.Ring
import Mathlib.Data.Rat.Floor
/-
  Exact rational instance of `FloatOps` and the exact half-step lemmas for the quantizer.
-/
namespace Draco
namespace Quant

/-- Exact rational arithmetic as a `FloatOps` instance: every operation is the mathematical
    one, there are no NaN/Inf values. `ofBits`/`toBits` are irrelevant for arithmetic
    statements and are dummies. -/
@[reducible] def exactOps : FloatOps ℚ where
  add a b := a + b
  sub a b := a - b
  mul a b := a * b
  div a b := a / b
  ofInt k := (k : ℚ)
  floorToInt x := ⌊x⌋
  lt a b := decide (a < b)
  eq a b := decide (a = b)
  isNaN _ := false
  isInf _ := false
  zero := 0
  one := 1
  half := 1/2
  ofBits _ := 0
  toBits _ := 0

/-- `(2^q - 1 : ℤ)` cast to ℚ -/
theorem maxQ_cast (q : Nat) : ((maxQuantizedValue q : Int) : ℚ) = (2:ℚ)^q - 1 := by
  simp [maxQuantizedValue]

theorem maxQ_ge_one {q : Nat} (hq : 1 ≤ q) : (1:ℚ) ≤ (2:ℚ)^q - 1 := by
  have : (2:ℚ)^1 ≤ (2:ℚ)^q := pow_le_pow_right₀ (by norm_num) hq
  linarith

/-- closed form of `quantize` over the exact instance -/
theorem quantize_exact (p : QParams ℚ) (q c : Nat) (x : ℚ) :
    @quantize ℚ exactOps p q c x
      = ⌊(x - @minOf ℚ exactOps p c) * (((2:ℚ)^q - 1) / p.range) + 1/2⌋ := by
  have h : @quantize ℚ exactOps p q c x
      = ⌊(x - @minOf ℚ exactOps p c) * (((maxQuantizedValue q : Int) : ℚ) / p.range) + 1/2⌋ := rfl
  rw [h, maxQ_cast]

/-- closed form of `dequantize` over the exact instance -/
theorem dequantize_exact (p : QParams ℚ) (q c : Nat) (k : Int) :
    @dequantize ℚ exactOps p q c k
      = (k:ℚ) * (p.range / ((2:ℚ)^q - 1)) + @minOf ℚ exactOps p c := by
  have h : @dequantize ℚ exactOps p q c k
      = (k:ℚ) * (p.range / ((maxQuantizedValue q : Int) : ℚ)) + @minOf ℚ exactOps p c := rfl
  rw [h, maxQ_cast]

/-- the arithmetic heart of the exact statement -/
theorem exact_core (x m R M : ℚ) (hR : 0 < R) (hM : 1 ≤ M) (hMint : ∃ n : Int, M = n)
    (h1 : m ≤ x) (h2 : x ≤ m + R) :
    let k : Int := ⌊(x - m) * (M / R) + 1/2⌋
    0 ≤ k ∧ (k:ℚ) ≤ M ∧ |((k:ℚ) * (R / M) + m) - x| ≤ R / (2 * M) := by
  intro k
  obtain ⟨n, hn⟩ := hMint
  have hM0 : 0 < M := by linarith
  set t : ℚ := (x - m) * (M / R) with ht
  have ht0 : 0 ≤ t := mul_nonneg (by linarith) (div_nonneg hM0.le hR.le)
  have htM : t ≤ M := by
    have : t ≤ R * (M / R) := mul_le_mul_of_nonneg_right (by linarith) (div_nonneg hM0.le hR.le)
    have h3 : R * (M / R) = M := by field_simp
    linarith
  have hk1 : (k:ℚ) ≤ t + 1/2 := Int.floor_le _
  have hk2 : t + 1/2 < (k:ℚ) + 1 := Int.lt_floor_add_one _
  have hk0 : 0 ≤ k := Int.floor_nonneg.mpr (by linarith)
  have hkM : k ≤ n := by
    have : (k:ℚ) < (n:ℚ) + 1 := by rw [← hn]; linarith
    have : k < n + 1 := by exact_mod_cast this
    omega
  have hkM' : (k:ℚ) ≤ M := by rw [hn]; exact_mod_cast hkM
  refine ⟨hk0, hkM', ?_⟩
  have hx : x - m = t * (R / M) := by
    rw [ht]; field_simp
  have e : (k:ℚ) * (R / M) + m - x = ((k:ℚ) - t) * (R / M) := by
    have : x = t * (R / M) + m := by linarith
    rw [this]; ring
  rw [e, abs_mul, abs_of_pos (div_pos hR hM0)]
  have hkt : |(k:ℚ) - t| ≤ 1/2 := by
    rw [abs_le]; constructor <;> linarith
  calc |(k:ℚ) - t| * (R / M) ≤ (1/2) * (R / M) :=
        mul_le_mul_of_nonneg_right hkt (div_pos hR hM0).le
    _ = R / (2 * M) := by field_simp

end Quant
end Draco
