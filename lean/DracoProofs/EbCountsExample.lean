import DracoProofs.EbCountsAlign3
import DracoProofs.EbConnExample
import DracoProofs.EbIsoCheck
/-
  NON-VACUITY of `CountsIso.eb_encoded_counts_of_link'''`: two triangles sharing an edge, six points, an int32 POSITION
  attribute (four values; the two end points of the shared edge are shared) and an int32 GENERIC attribute with six
  different values (identity map) — so the shared edge is an INTERIOR SEAM of the second attribute, its controller encodes
  on the attribute corner table (`onAttTable`), `usedOf exEnc2` has one entry and the theorem is exercised with a
  non-trivial `SeamLink`.

  Encoder: `exEnc2` is the value of the closed term `encodeEdgebreaker exCh exG2 none exO` (kernel evaluation).
  Decoder: the stages of `decodeConnectivity` behind the header fields, evaluated on the bytes the encoder wrote
  (`exRest2` = `exEnc2.bytes.drop 17`, `exRest2_eq`): `decodeTopologySplits`, `startTraversal` (→ `exTr2`), `connLoop`
  (→ `exCo2`), `decodeSeams` (→ `exSeams2`), `buildAttConn` (→ `exAtts2`), `assignPoints` (→ `exPts2`); `exMesh2` is the
  record `decodeConnectivity` assembles from them, `exStages2 : DecStagesOf exMesh2 exCo2`.
  All hypotheses of the theorem are discharged (`exCounts2`); both sides report 6 points and 2 faces (`exCounts2_values`).
-/
namespace Draco.EbEnc.CountsExample
open Draco Draco.SeqEnc DecM
open Draco.Eb hiding iabs nextC prevC
open Draco.EbEnc.ConnExample Draco.EbEnc.CountsIso AttViews

/-- two triangles `(0,1,2)`, `(3,4,5)` over six points; POSITION: values A B C D, points ↦ A B C C B D (the edge B–C is
    shared); GENERIC (2 × int32): one value per point -/
def exG2 : Geometry :=
  { isMesh := true, numPoints := 6, faces := [(0, 1, 2), (3, 4, 5)],
    atts := [
      { attType := 0, dataType := 5, numComponents := 3, normalized := false, uniqueId := 0,
        numValues := 4, map := some [0, 1, 2, 2, 1, 3],
        values := [0,0,0,0, 0,0,0,0, 0,0,0,0,  4,0,0,0, 0,0,0,0, 0,0,0,0,  0,0,0,0, 4,0,0,0, 0,0,0,0,
                   4,0,0,0, 4,0,0,0, 0,0,0,0] },
      { attType := 4, dataType := 5, numComponents := 2, normalized := false, uniqueId := 1,
        numValues := 6, map := none,
        values := [0,0,0,0, 0,0,0,0,  1,0,0,0, 0,0,0,0,  2,0,0,0, 0,0,0,0,  3,0,0,0, 0,0,0,0,  4,0,0,0, 0,0,0,0,
                   5,0,0,0, 0,0,0,0] } ] }

/-! ### the encoder's run -/

def exEnc2 : Encoded :=
  match encodeEdgebreaker exCh exG2 none exO with
  | .ok e => e
  | .error _ => default

theorem exEncode2 : encodeEdgebreaker exCh exG2 none exO = .ok exEnc2 := by
  have h : (match encodeEdgebreaker exCh exG2 none exO with | .ok _ => true | .error _ => false) = true := by
    decide +kernel
  unfold exEnc2
  split at h
  · rename_i e he; rw [he]
  · exact absurd h (by decide)

/-! ### the decoder's stages on the encoder's bytes -/

/-- the encoder's stream behind the header (11 bytes), the traversal-coder byte and the five counts `4 2 1 2 0`
    (encoded vertices, faces, attribute data, symbols, split symbols) -/
def exRest2 : Bytes :=
  [0, 1, 31, 255, 1, 17, 1, 1, 16, 2, 255, 0, 0, 0, 1, 0, 1, 0, 5, 3, 0, 0, 1, 1, 4, 5, 2, 0, 1, 1, 1, 1, 1, 0, 3, 3,
   1, 48, 1, 16, 3, 0, 36, 130, 74, 4, 0, 0, 0, 0, 4, 0, 0, 0, 1, 1, 1, 0, 4, 7, 85, 53, 173, 10, 3, 248, 47, 131, 133,
   136, 136, 0, 0, 0, 0, 0, 5, 0, 0, 0]

theorem exRest2_eq : exEnc2.bytes.drop 17 = exRest2 ∧
    exEnc2.bytes.take 17 = [68, 82, 65, 67, 79, 2, 2, 1, 1, 0, 0, 0, 4, 2, 1, 2, 0] := by decide +kernel

/-- `decodeTopologySplits` and `startTraversal` as `decodeConnectivity` calls them (2 faces, 4 vertices, 1 attribute data) -/
def exPre2 : DecM (List TopoSplit × Trav) := do
  let sp ← decodeTopologySplits 514 2
  let tr ← startTraversal 514 0 1 4 2
  pure (sp, tr)

def dummyTrav : Trav := { kind := 0, sym := BitReader.start [], startFace := ⟨0, ⟨0, []⟩⟩, seams := #[] }
def dummyCo : ConnOut := { c2v := #[], opp := #[], vc := #[], hole := #[], numConnVerts := 0, tags := 0 }

def exPreRes2 : List TopoSplit × Trav :=
  match (exPre2 { rest := exRest2, version := 514 }).1 with
  | some x => x
  | none => ([], dummyTrav)

theorem exPre2_run : ∃ s', exPre2 { rest := exRest2, version := 514 } = (some exPreRes2, s') := by
  have h : (match (exPre2 { rest := exRest2, version := 514 }).1 with | some _ => true | none => false) = true := by
    decide +kernel
  unfold exPreRes2
  split at h
  · rename_i x hx
    refine ⟨(exPre2 { rest := exRest2, version := 514 }).2, ?_⟩
    rw [← hx]
  · exact absurd h (by decide)

def exTr2 : Trav := exPreRes2.2
def exCi2 : ConnIn := ⟨2, 4, 2, exPreRes2.1, false⟩

def exCo2 : ConnOut :=
  match connLoop exCi2 exTr2 with
  | .ok c => c
  | .error _ => dummyCo

theorem exConn2 : connLoop exCi2 exTr2 = .ok exCo2 := by
  have h : (match connLoop exCi2 exTr2 with | .ok _ => true | .error _ => false) = true := by decide +kernel
  unfold exCo2
  split at h
  · rename_i c hc; rw [hc]
  · exact absurd h (by decide)

def exSeams2 : Array (Array Nat) :=
  match decodeSeams false exCo2.opp 2 1 exTr2.seams with
  | .ok x => x.1
  | .error _ => #[]

def exAtts2 : Array AttConn :=
  match exSeams2.mapM (fun sc => buildAttConn exCo2.c2v exCo2.opp exCo2.vc sc) with
  | .ok x => x
  | .error _ => #[]

theorem exBuild2 : exSeams2.mapM (fun sc => buildAttConn exCo2.c2v exCo2.opp exCo2.vc sc) = .ok exAtts2 := by
  have h : (match exSeams2.mapM (fun sc => buildAttConn exCo2.c2v exCo2.opp exCo2.vc sc) with
      | .ok _ => true | .error _ => false) = true := by decide +kernel
  unfold exAtts2
  split at h
  · rename_i x hx; rw [hx]
  · exact absurd h (by decide)

def exPts2 : Array Nat × Nat × Nat :=
  match assignPoints exCo2 2 exAtts2 with
  | .ok x => x
  | .error _ => (#[], 0, 0)

theorem exAssign2 : assignPoints exCo2 2 exAtts2 = .ok exPts2 := by
  have h : (match assignPoints exCo2 2 exAtts2 with | .ok _ => true | .error _ => false) = true := by decide +kernel
  unfold exPts2
  split at h
  · rename_i x hx; rw [hx]
  · exact absurd h (by decide)

/-- the record `decodeConnectivity` assembles (the tag mask is not part of the statement) -/
def exMesh2 : Mesh :=
  { numFaces := 2, c2v := exCo2.c2v, opp := exCo2.opp, vc := exCo2.vc, atts := exAtts2, faces := exPts2.1,
    numPoints := exPts2.2.1, tags := 0 }

theorem exStages2 : DecStagesOf exMesh2 exCo2 :=
  ⟨exCi2, exTr2, exSeams2, exPts2.2.2, exConn2, rfl, rfl, rfl, rfl, exBuild2, exAssign2⟩

/-- the decoded tables -/
theorem exCo2_values : exCo2.c2v = #[0, 1, 2, 1, 3, 2] ∧ exCo2.opp = #[4, inv, inv, inv, 0, inv] ∧
    exCo2.vc = #[0, 1, 5, 4] ∧ exCo2.hole = #[true, true, true, true] ∧ exCo2.numConnVerts = 4 ∧
    exSeams2 = #[#[0, 1, 2, 3, 5]] := by decide +kernel

/-! ### the hypotheses of the theorem -/

theorem exAPHyp2 : APHyp 2 exCo2 := by
  refine ⟨⟨⟨by decide +kernel, by decide +kernel, by decide +kernel, by decide +kernel⟩, by decide +kernel, ?_⟩, ?_, ?_⟩
  · intro v hv
    have hv' : v < 4 := by
      have : exCo2.vc.size = 4 := by decide +kernel
      omega
    obtain rfl | rfl | rfl | rfl : v = 0 ∨ v = 1 ∨ v = 2 ∨ v = 3 := by omega
    all_goals decide +kernel
  · intro c hc
    have hc' : c < 6 := hc
    obtain rfl | rfl | rfl | rfl | rfl | rfl : c = 0 ∨ c = 1 ∨ c = 2 ∨ c = 3 ∨ c = 4 ∨ c = 5 := by omega
    all_goals first
      | exact ⟨by decide +kernel, by decide +kernel, 0, by decide +kernel⟩
      | exact ⟨by decide +kernel, by decide +kernel, 1, by decide +kernel⟩
  · intro v hv _ h
    have hv' : v < 4 := by
      have : exCo2.vc.size = 4 := by decide +kernel
      omega
    obtain rfl | rfl | rfl | rfl : v = 0 ∨ v = 1 ∨ v = 2 ∨ v = 3 := by omega
    all_goals exact absurd h (by decide +kernel)

/-- the vertex map: decoder vertices 0 1 2 3 ↦ encoder vertices 3 2 1 0 -/
def exPsi2 : Nat → Nat := fun v => (#[3, 2, 1, 0] : Array Nat)[v]!

theorem exIso2 : TVIso (baseViewD exMesh2.numFaces exCo2.c2v exCo2.opp exCo2.vc) exEnc2.conn.ct.view
    (phi exEnc2.conn.processed) exPsi2 :=
  tvIsoCheck_sound _ _ _ #[3, 2, 1, 0] #[3, 2, 1, 0] #[4, 5, 3, 1, 2, 0] (by decide +kernel)

theorem exHole2 : ∀ v, v < exCo2.vc.size → exCo2.vc[v]! ≠ inv → exCo2.hole[v]! = true →
    ∃ k, iter (sRP exCo2.opp) k exCo2.vc[v]! = inv := by
  intro v hv _ _
  have hv' : v < 4 := by
    have : exCo2.vc.size = 4 := by decide +kernel
    omega
  obtain rfl | rfl | rfl | rfl : v = 0 ∨ v = 1 ∨ v = 2 ∨ v = 3 := by omega
  all_goals exact ⟨2, by decide +kernel⟩

theorem exSeamLink2 : SeamLink exMesh2.numFaces exMesh2.atts (exEnc2.conn.atts.map (·.conn))
    (phi exEnc2.conn.processed) := by
  refine ⟨by decide +kernel, fun i hi d hd => ?_⟩
  have hi' : i < 1 := by
    have : exMesh2.atts.size = 1 := by decide +kernel
    omega
  obtain rfl : i = 0 := by omega
  have hd' : d < 6 := hd
  obtain rfl | rfl | rfl | rfl | rfl | rfl : d = 0 ∨ d = 1 ∨ d = 2 ∨ d = 3 ∨ d = 4 ∨ d = 5 := by omega
  all_goals decide +kernel

/-- the example is not a degenerate instance: one attribute corner table is in use, with an interior seam -/
theorem exUsed2 : (usedOf exEnc2).size = 1 ∧ ((usedOf exEnc2)[0]!).noInteriorSeams = false ∧
    exG2.atts.length = 2 ∧ exMesh2.atts.size = 1 := by decide +kernel

/-- **non-vacuity of `eb_encoded_counts_of_link'''`**: the counts the encoder reports are those of the decoded mesh -/
theorem exCounts2 : exEnc2.numEncodedPoints = exMesh2.numPoints ∧ exEnc2.numEncodedFaces = exMesh2.numFaces :=
  eb_encoded_counts_of_link''' exEncode2 exStages2 exPsi2 (by decide) (by decide +kernel) (by decide +kernel)
    exIso2 exAPHyp2 (by decide +kernel) exHole2 exSeamLink2

theorem exCounts2_values : exEnc2.numEncodedPoints = 6 ∧ exMesh2.numPoints = 6 ∧ exEnc2.numEncodedFaces = 2 ∧
    exMesh2.numFaces = 2 := by decide +kernel

/-- `exMesh2` IS what the decoder's `decodeConnectivity` returns on the encoder's stream behind the 11 header bytes
    (bitstream 2.2), field by field (the tag mask aside) -/
theorem exMesh2_decoded :
    (match (decodeConnectivity { rest := exEnc2.bytes.drop 11, version := 514 }).1 with
     | some m => m.numFaces == exMesh2.numFaces && m.c2v == exMesh2.c2v && m.opp == exMesh2.opp && m.vc == exMesh2.vc &&
         m.faces == exMesh2.faces && m.numPoints == exMesh2.numPoints &&
         m.atts.map (fun a => (a.edgeSeam, a.vertSeam, a.c2v, a.lm, a.noInteriorSeams)) ==
           exMesh2.atts.map (fun a => (a.edgeSeam, a.vertSeam, a.c2v, a.lm, a.noInteriorSeams))
     | none => false) = true := by decide +kernel

end Draco.EbEnc.CountsExample
