import DracoProofs.EbConnSplitFreeI
/-
  STREAM-LEVEL glue WITH topology split events (symbol `S`), generalising (G1)–(G3) of DracoProofs/EbConnGlue.lean
  (standard traversal, no attribute data).

  (S1) `runs_splitEvents`: `EncodeSplitData` → `DecodeHoleAndTopologySplitEvents` (bitstream 2.2): for an event array
       satisfying `EvsOK` (= `SplitsOK 0`: source ids non-decreasing and < 2^32, split id ≤ source id, edge 0/1) the decoder
       returns the events LAST ONE FIRST (`evs.toList.reverse`: the order `connLoop` consumes them in, `ConnIn.splits`).
       (From `split_events_runs`, DracoProofs/EbEncCoders.lean.)
  (S2) `runs_decodeConnectivity_of_loop_S`: (G1) with `numSplitSymbols = nss`, events `evs`:
       `ConnIn = ⟨nf, nv + nss, symbols.size, evs.toList.reverse, true⟩`.
  (S3) `encode_bytes_S`: (G2) for ARBITRARY stage results: `[0] ++ conn.bytes = 0 :: linkBodyS …`.
  (S4) `link_of_loop_S`, `DecLoopIsoS`, `eb_connectivity_roundtrip_withS`; `eb_connectivity_roundtrip_noS_again`: the
       no-event case re-derived (sanity).
-/
namespace Draco.EbEnc.ConnGlueS
open Draco Draco.SeqEnc DecM
open Draco.Eb hiding iabs nextC prevC
open Draco.EbEnc.ConnExample (RunsX)
open Draco.EbEnc.ConnTri Draco.EbEnc.ConnGlue
open Draco.EbEnc.EncCounts Draco.EbEnc.ConnSplitFree Draco.EbEnc.ConnSplitFreeI

/-! ### (S1) the topology split events -/

/-- the encoder's invariants of `topology_split_event_data_` (encoding order) the coding relies on -/
def EvsOK (evs : Array TopoSplit) : Prop := SplitsOK 0 evs.toList

/-- **(S1)** the split events round trip; the decoder returns them last one first -/
theorem runs_splitEvents (evs : Array TopoSplit) (nf : Nat) (hok : EvsOK evs) (hn : evs.size ≤ nf)
    (hlen : evs.size < 2 ^ 32) :
    Runs (decodeTopologySplits 514 nf) 514 (encodeSplitData evs) evs.toList.reverse 514 := by
  have := split_events_runs evs.toList nf hok (by simpa using hn) (by simpa using hlen)
  simpa using this

/-! ### (S2) the decoder on the byte layout -/

/-- the connectivity bytes behind the traversal-coder byte, with `nss` split symbols and the split events `evs` -/
def linkBodyS (ch : ConnChoices) (nv nf nss : Nat) (symbols : Array Nat) (sfb : List Bool) (evs : Array TopoSplit) : Bytes :=
  encVarint nv ++ (encVarint nf ++ (0 :: (encVarint symbols.size ++ (encVarint nss ++ (encodeSplitData evs ++
    (encVarint (symBuf symbols).length ++ (symBuf symbols ++ finishBits ch (encodeBits sfb))))))))

/-- **(S2) `runs_decodeConnectivity_of_loop_S`** -/
theorem runs_decodeConnectivity_of_loop_S (ch : ConnChoices) (nv nf nss : Nat) (symbols : Array Nat) (sfb : List Bool)
    (evs : Array TopoSplit) (co : ConnOut) (hs : ∀ s ∈ symbols.toList, IsTopo s) (hnf : nf ≤ 2 ^ 21)
    (hnv : nv + nss ≤ 3 * 2 ^ 21) (hnv3 : nv ≤ nf * 3) (hedge : 3 * nf / 2 ≤ nv * (nv - 1) / 2) (hsz1 : symbols.size ≤ nf)
    (hsz2 : nf ≤ symbols.size + symbols.size / 3) (hnss : nss ≤ symbols.size) (hsfb : sfb.length + 3 < 2 ^ 32)
    (hev : EvsOK evs) (hevn : evs.size ≤ nf) (hopp : co.opp.size = 3 * nf)
    (hloop : ∀ tr, Delivers tr symbols.toList.reverse sfb →
      connLoop ⟨nf, nv + nss, symbols.size, evs.toList.reverse, true⟩ tr = .ok co) :
    ∃ tg, Runs decodeConnectivity 514 (0 :: linkBodyS ch nv nf nss symbols sfb evs) (meshOf nf co tg) 514 := by
  obtain ⟨⟨sc, tg⟩, hseams, hsc⟩ := decodeSeams_noatt co.opp nf hopp (by omega)
  simp only at hsc
  subst hsc
  refine ⟨tg, RunsX.toRuns fun extra => ?_⟩
  obtain ⟨d, hd, hy⟩ := bit_buffer_roundtrip ch sfb hsfb extra
  have hblen := symBuf_length_le symbols hs
  unfold decodeConnectivity linkBodyS
  refine RunsX.bind0 (RunsX.ofRuns (Runs.version 514) _) ?_
  simp only [exLeg, exLeg1, ↓reduceIte, decide_false]
  refine RunsX.bind1 (RunsX.ofRuns (Runs.rdU8 _ 514) _) ?_
  simp only [show ((0 : Nat) == 1) = false from rfl, Bool.false_eq_true, ↓reduceIte]
  refine RunsX.bind0 (RunsX.remaining _ _) ?_
  refine RunsX.bind0 (RunsX.ofRuns (Runs.tag _ 514) _) ?_
  refine RunsX.bind0 (RunsX.ofRuns (Runs.require (by decide) 514) _) ?_
  simp only [exCountV]
  refine RunsX.bind (RunsX.ofRuns (Runs.varint32 nv 514 (by omega)) _) ?_
  refine RunsX.bind (RunsX.ofRuns (Runs.varint32 nf 514 (by omega)) _) ?_
  refine RunsX.bind0 (RunsX.ofRuns (Runs.require (by simp; omega) 514) _) ?_
  refine RunsX.bind0 (RunsX.ofRuns (Runs.require (by simp; omega) 514) _) ?_
  refine RunsX.bind0 (RunsX.ofRuns (Runs.require (decide_eq_true (edges_gen nv nf (by omega) hedge)) 514) _) ?_
  refine RunsX.bind1 (RunsX.ofRuns (Runs.rdU8 _ 514) _) ?_
  refine RunsX.bind (RunsX.ofRuns (Runs.varint32 symbols.size 514 (by omega)) _) ?_
  refine RunsX.bind0 (RunsX.ofRuns (Runs.require (by simp; omega) 514) _) ?_
  refine RunsX.bind0 (RunsX.ofRuns (Runs.require (by simp; omega) 514) _) ?_
  refine RunsX.bind (RunsX.ofRuns (Runs.varint32 nss 514 (by omega)) _) ?_
  refine RunsX.bind0 (RunsX.ofRuns (Runs.require (by simp; omega) 514) _) ?_
  refine RunsX.bind0 (RunsX.ofRuns (Runs.alloc _ _ 514) _) ?_
  have hnvm : (nv + nss) % 2 ^ 32 = nv + nss := by omega
  rw [hnvm]
  refine RunsX.bind0 (RunsX.ofRuns (Runs.require (by simp; omega) 514) _) ?_
  refine RunsX.bind0 (RunsX.ofRuns (Runs.declare _ 514) _) ?_
  refine RunsX.bind0 (RunsX.ofRuns (Runs.alloc _ _ 514) _) ?_
  refine RunsX.bind0 (RunsX.ofRuns (Runs.alloc _ _ 514) _) ?_
  refine RunsX.bind0 (RunsX.ofRuns (Runs.alloc _ _ 514) _) ?_
  refine RunsX.bind0 (RunsX.ofRuns (Runs.alloc _ _ 514) _) ?_
  rw [if_neg (by simp [modelCap]; omega)]
  refine RunsX.bind0 (RunsX.remaining _ _) ?_
  refine RunsX.bind (RunsX.ofRuns (runs_splitEvents evs nf hev hevn (by omega)) _) ?_
  refine RunsX.bind0 (RunsX.remaining _ _) ?_
  refine RunsX.bind0 (RunsX.ofRuns (Runs.tag _ 514) _) ?_
  refine RunsX.bind' (b2 := []) (startTraversal_gen (symBuf symbols) _ _ _ extra d (by omega) hd) (List.append_nil _).symm ?_
  refine RunsX.bind0 (RunsX.remaining _ _) ?_
  refine RunsX.bind0 (RunsX.ofRuns (Runs.tag _ 514) _) ?_
  have hco : connLoop ⟨nf, nv + nss, symbols.size, evs.toList.reverse, (0 : Nat) == 0⟩
      (travK d (symBuf symbols ++ finishBits ch (encodeBits sfb) ++ extra)) = .ok co := by
    refine hloop _ ⟨rfl, rfl, ?_, hy⟩
    intro i hi
    have hi' : i < symbols.size := by simpa using hi
    refine readStd_get symbols.size _ _ ?_ i hi'
    show (readStdSymbols symbols.size (BitReader.start (symBuf symbols ++ finishBits ch (encodeBits sfb) ++ extra))).1 = _
    rw [List.append_assoc]; exact symBuf_read symbols hs _
  refine RunsX.bind0 (RunsX.ofRuns (Runs.liftR hco 514) _) ?_
  refine RunsX.bind0 (RunsX.ofRuns (Runs.tag _ 514) _) ?_
  refine RunsX.bind0 (RunsX.ofRuns (Runs.liftR hseams 514) _) ?_
  refine RunsX.bind0 (RunsX.ofRuns (Runs.liftR (attConns_noatt co) 514) _) ?_
  refine RunsX.bind0 (RunsX.ofRuns (Runs.alloc _ _ 514) _) ?_
  refine RunsX.bind0 (RunsX.ofRuns (Runs.liftR (assignPoints_noatt co nf) 514) _) ?_
  exact RunsX.pure _ _ _

/-! ### (S3) the encoder's bytes, arbitrary stage results -/

/-- **(S3) `encode_bytes_S`**: standard traversal, no attribute data, ANY stage results -/
theorem encode_bytes_S (ch : ConnChoices) (pf : Faces) (tbl : CornerTable) (hc : CornerTable.create pf = some tbl)
    (hnd : ((CT.ofTable tbl).numFaces == (CT.ofTable tbl).numDegenerated) = false)
    (holeId : Array Nat) (nh : Nat) (hh : findHoles (CT.ofTable tbl) = .ok (holeId, nh)) (s : OSt)
    (hmain : forIn [:(CT.ofTable tbl).numCorners] (initO (CT.ofTable tbl) nh)
      (outerBody (CT.ofTable tbl) holeId false (CT.ofTable tbl).numFaces) = .ok s)
    (hnv32 : (CT.ofTable tbl).numVertices - (CT.ofTable tbl).numIsolated < 2 ^ 32)
    (hnf32 : (CT.ofTable tbl).numFaces - (CT.ofTable tbl).numDegenerated < 2 ^ 32)
    (hsy32 : s.2.2.2.2.1.size < 2 ^ 32) (hns32 : s.2.2.2.2.2.2.2.2.2.2.2.2 < 2 ^ 32) :
    ∃ conn, encodeConnectivity ch false pf #[] = .ok conn ∧
      [0] ++ conn.bytes = 0 :: linkBodyS ch ((CT.ofTable tbl).numVertices - (CT.ofTable tbl).numIsolated)
        ((CT.ofTable tbl).numFaces - (CT.ofTable tbl).numDegenerated) s.2.2.2.2.2.2.2.2.2.2.2.2 s.2.2.2.2.1
        s.2.2.2.2.2.2.1.toList s.2.2.2.2.2.2.2.2.2.1 ∧
      conn.ct = CT.ofTable tbl ∧ conn.processed = s.2.2.2.2.2.2.2.1.reverse ++ s.2.2.2.2.2.2.2.2.1 ∧ conn.atts = #[] := by
  obtain ⟨conn, h1, h2, h3, h4, h5⟩ := encodeConnectivity_stages ch pf tbl hc hnd holeId nh hh s hmain #[] #[]
    (encodeSeamBits_noatt _ _)
  refine ⟨conn, h1, ?_, h2, h3, h5⟩
  rw [h4, startFace_of_main _ holeId nh s hmain]
  simp only [Nat.mod_eq_of_lt hnv32, Nat.mod_eq_of_lt hnf32, Nat.mod_eq_of_lt hsy32, Nat.mod_eq_of_lt hns32, ets_symBuf,
    linkBodyS, List.flatMap_nil, List.append_nil, List.append_assoc, List.cons_append, List.nil_append]

/-! ### (S4) the link from the loop result -/

open Draco.EbEnc.ConnNoOpp (EbConnectivityRoundtrip') in
/-- **(S4) `link_of_loop_S`**: (G3) with split events -/
theorem link_of_loop_S (ch : ConnChoices) (pf : Faces) (tbl : CornerTable) (hc : CornerTable.create pf = some tbl)
    (hnd : ((CT.ofTable tbl).numFaces == (CT.ofTable tbl).numDegenerated) = false)
    (holeId : Array Nat) (nh : Nat) (hh : findHoles (CT.ofTable tbl) = .ok (holeId, nh)) (s : OSt)
    (hmain : forIn [:(CT.ofTable tbl).numCorners] (initO (CT.ofTable tbl) nh)
      (outerBody (CT.ofTable tbl) holeId false (CT.ofTable tbl).numFaces) = .ok s)
    (nv nf : Nat) (env : nv = (CT.ofTable tbl).numVertices - (CT.ofTable tbl).numIsolated)
    (enf : nf = (CT.ofTable tbl).numFaces - (CT.ofTable tbl).numDegenerated)
    (hs : ∀ x ∈ s.2.2.2.2.1.toList, IsTopo x) (hnf : nf ≤ 2 ^ 21)
    (hnv : nv + s.2.2.2.2.2.2.2.2.2.2.2.2 ≤ 3 * 2 ^ 21) (hnv3 : nv ≤ nf * 3)
    (hedge : 3 * nf / 2 ≤ nv * (nv - 1) / 2) (hsz1 : s.2.2.2.2.1.size ≤ nf)
    (hsz2 : nf ≤ s.2.2.2.2.1.size + s.2.2.2.2.1.size / 3) (hnss : s.2.2.2.2.2.2.2.2.2.2.2.2 ≤ s.2.2.2.2.1.size)
    (hsfb : s.2.2.2.2.2.2.1.size + 3 < 2 ^ 32)
    (hev : EvsOK s.2.2.2.2.2.2.2.2.2.1) (hevn : s.2.2.2.2.2.2.2.2.2.1.size ≤ nf)
    (co : ConnOut)
    (hloop : ∀ tr, Delivers tr s.2.2.2.2.1.toList.reverse s.2.2.2.2.2.2.1.toList →
      connLoop ⟨nf, nv + s.2.2.2.2.2.2.2.2.2.2.2.2, s.2.2.2.2.1.size, s.2.2.2.2.2.2.2.2.2.1.toList.reverse, true⟩ tr = .ok co)
    (hiso : CTIso (CT.ofTable tbl) (s.2.2.2.2.2.2.2.1.reverse ++ s.2.2.2.2.2.2.2.2.1) nf co.c2v co.opp) :
    EbConnectivityRoundtrip' ch false pf #[] := by
  subst env enf
  obtain ⟨conn, e1, e2, e3, e4, e5⟩ := encode_bytes_S ch pf tbl hc hnd holeId nh hh s hmain
    (by omega) (by omega) (by omega) (by omega)
  obtain ⟨tg, m1⟩ := runs_decodeConnectivity_of_loop_S ch _ _ _ s.2.2.2.2.1 s.2.2.2.2.2.2.1.toList s.2.2.2.2.2.2.2.2.2.1 co hs
    hnf hnv hnv3 hedge hsz1 hsz2 hnss (by simpa using hsfb) hev hevn hiso.sizes.2 hloop
  intro conn' h'
  rw [e1] at h'
  cases h'
  rw [← e2] at m1
  refine ⟨_, m1, ?_, by rw [e5]; rfl⟩
  rw [e3, e4]; exact hiso

/-- the stages of a successful run, with the split data of `conn` -/
theorem stages_of_run_S (ch : ConnChoices) (pf : Faces) (conn : ConnEnc)
    (h : encodeConnectivity ch false pf #[] = .ok conn) :
    ∃ (tbl : CornerTable) (holeId : Array Nat) (nh : Nat) (s : OSt),
      CornerTable.create pf = some tbl ∧
      ((CT.ofTable tbl).numFaces == (CT.ofTable tbl).numDegenerated) = false ∧
      findHoles (CT.ofTable tbl) = .ok (holeId, nh) ∧
      forIn [:(CT.ofTable tbl).numCorners] (initO (CT.ofTable tbl) nh)
        (outerBody (CT.ofTable tbl) holeId false (CT.ofTable tbl).numFaces) = .ok s ∧
      conn.ct = CT.ofTable tbl ∧ conn.processed = s.2.2.2.2.2.2.2.1.reverse ++ s.2.2.2.2.2.2.2.2.1 ∧
      conn.symbols = s.2.2.2.2.1 ∧ conn.startFaces = s.2.2.2.2.2.2.1 ∧ conn.splits = s.2.2.2.2.2.2.2.2.2.1 ∧
      conn.numSplitSymbols = s.2.2.2.2.2.2.2.2.2.2.2.2 := by
  have hrun := h
  rw [encodeConnectivity_eq] at hrun
  split at hrun
  · rename_i tbl hcreate
    simp only [] at hrun
    rcases ite_ok hrun with ⟨_, hrun⟩ | ⟨hnd, hrun⟩
    · exact (throw_bind_ne hrun).elim
    obtain ⟨x, hx, hrun⟩ := (bind_ok_iff _ _ _).mp hrun
    obtain ⟨atts, _, hrun⟩ := (bind_ok_iff _ _ _).mp hrun
    rcases ite_ok hrun with ⟨hv, _⟩ | ⟨_, hrun⟩
    · cases hv
    obtain ⟨val, hval, hrun⟩ := (bind_ok_iff _ _ _).mp hrun
    have eval := pure_ok hval
    subst eval
    obtain ⟨s, hloop, hrun⟩ := (bind_ok_iff _ _ _).mp hrun
    obtain ⟨sb, _, hrun⟩ := (bind_ok_iff _ _ _).mp hrun
    rcases ite_ok hrun with ⟨hv, _⟩ | ⟨_, hrun⟩
    · cases hv
    have e := pure_ok hrun
    refine ⟨tbl, x.1, x.2, s, hcreate, by simpa using hnd, hx, hloop, ?_, ?_, ?_, ?_, ?_, ?_⟩ <;> rw [e]
  · simp only [throw, throwThe, MonadExceptOf.throw] at hrun
    cases hrun


/-! ### `numSplitSymbols ≤ num_symbols` from the run -/

def NZin (s : InSt) : Prop := s.2.2.2.2.2.2.2.2.2.1 ≤ s.2.2.2.2.1.size
def NZst (s : StSt) : Prop := s.2.2.2.2.2.2.2.2.2.1 ≤ s.2.2.2.2.1.size
def NZo (s : OSt) : Prop := s.2.2.2.2.2.2.2.2.2.2.2.2 ≤ s.2.2.2.2.1.size

set_option linter.unusedTactic false in
set_option linter.unreachableTactic false in
theorem innerTail_nz {t : CT} {holeId : Array Nat} {valence : Bool} {vf' vh : Array Bool} {P' : Array Nat}
    {splits : Array TopoSplit} {f2s : Array Nat} {lsid : Int} {nss : Nat} {stack : Array Nat}
    {nv face lastCorner vertId : Nat} {onB : Bool} {vv1 : Array Bool} {val : ValEnc} {sy : Array Nat}
    {c : Nat} {r : ForInStep InSt} (h : nss ≤ sy.size)
    (hb : innerTail t holeId valence vf' vh P' splits f2s lsid nss stack nv face lastCorner vertId onB () vv1 val sy c
      = .ok r) : NZin (stepVal r) := by
  have leafN : ∀ X, nss ≤ (sy.push X).size := fun X => by rw [Array.size_push]; omega
  have leafS : nss + 1 ≤ (sy.push topoS).size := by rw [Array.size_push]; omega
  unfold innerTail at hb
  obtain ⟨rc, _, hb⟩ := (bind_ok_iff _ _ _).mp hb
  obtain ⟨lc, _, hb⟩ := (bind_ok_iff _ _ _).mp hb
  obtain ⟨rv, hb, _, _⟩ := visited_absorb hb
  obtain ⟨lv, hb, _, _⟩ := visited_absorb hb
  rcases ite_ok hb with ⟨_, hb⟩ | ⟨_, hb⟩
  · splits3 hb s1 hs1 hne1 =>
        (rcases ite_ok hb with ⟨_, hb⟩ | ⟨_, hb⟩
         · over_splits hb =>
             obtain ⟨val1, hb⟩ := ite_bind_absorb hb
             (rw [pure_ok hb]; first | exact leafN _ | exact leafS)
         · obtain ⟨val1, hb⟩ := ite_bind_absorb hb
           (rw [pure_ok hb]; first | exact leafN _ | exact leafS))
      | (rcases ite_ok hb with ⟨_, hb⟩ | ⟨_, hb⟩
         · splits3 hb s2 hs2 hne2 =>
               (obtain ⟨val1, hb⟩ := ite_bind_absorb hb
                (rw [pure_ok hb]; first | exact leafN _ | exact leafS))
             | (obtain ⟨val1, hb⟩ := ite_bind_absorb hb
                (rw [pure_ok hb]; first | exact leafN _ | exact leafS))
         · obtain ⟨val1, hb⟩ := ite_bind_absorb hb
           (rw [pure_ok hb]; first | exact leafN _ | exact leafS))
  · rcases ite_ok hb with ⟨_, hb⟩ | ⟨_, hb⟩
    · splits3 hb s2 hs2 hne2 =>
          (obtain ⟨val1, hb⟩ := ite_bind_absorb hb
           (rw [pure_ok hb]; first | exact leafN _ | exact leafS))
        | (obtain ⟨val1, hb⟩ := ite_bind_absorb hb
           (rw [pure_ok hb]; first | exact leafN _ | exact leafS))
    · obtain ⟨val1, hb⟩ := ite_bind_absorb hb
      rcases ite_ok hb with ⟨_, hb⟩ | ⟨_, hb⟩
      · obtain ⟨hole, _, hb⟩ := (bind_ok_iff _ _ _).mp hb
        obtain ⟨hv, _, hb⟩ := (bind_ok_iff _ _ _).mp hb
        rcases ite_ok hb with ⟨_, hb⟩ | ⟨_, hb⟩
        · obtain ⟨x, _, hb⟩ := (bind_ok_iff _ _ _).mp hb
          obtain ⟨f2s', _, hb⟩ := (bind_ok_iff _ _ _).mp hb
          (rw [pure_ok hb]; first | exact leafN _ | exact leafS)
        · obtain ⟨f2s', _, hb⟩ := (bind_ok_iff _ _ _).mp hb
          (rw [pure_ok hb]; first | exact leafN _ | exact leafS)
      · obtain ⟨f2s', _, hb⟩ := (bind_ok_iff _ _ _).mp hb
        (rw [pure_ok hb]; first | exact leafN _ | exact leafS)

theorem innerBody_nz {t : CT} {holeId : Array Nat} {valence : Bool} {NF : Nat} (x : Nat) (s : InSt) (r : ForInStep InSt)
    (h : NZin s) (hb : innerBody t holeId valence NF x s = .ok r) : NZin (stepVal r) := by
  obtain ⟨vf, vv, vh, val, sy, P, sp, f2s, ls, nss, st, c, nv⟩ := s
  have h' : nss ≤ sy.size := h
  have leafN : ∀ X, nss ≤ (sy.push X).size := fun X => by rw [Array.size_push]; omega
  unfold innerBody at hb
  rcases ite_ok hb with ⟨_, hb⟩ | ⟨_, hb⟩
  · rw [pure_ok hb]; exact h
  obtain ⟨vf', _, hb⟩ := (bind_ok_iff _ _ _).mp hb
  obtain ⟨vertId, _, hb⟩ := (bind_ok_iff _ _ _).mp hb
  obtain ⟨hid, _, hb⟩ := (bind_ok_iff _ _ _).mp hb
  obtain ⟨vis, _, hb⟩ := (bind_ok_iff _ _ _).mp hb
  rcases ite_ok hb with ⟨_, hb⟩ | ⟨_, hb⟩
  · obtain ⟨vv', _, hb⟩ := (bind_ok_iff _ _ _).mp hb
    rcases ite_ok hb with ⟨_, hb⟩ | ⟨_, hb⟩
    · obtain ⟨val1, hb⟩ := ite_bind_absorb hb
      obtain ⟨o, _, hb⟩ := (bind_ok_iff _ _ _).mp hb
      rw [pure_ok hb]; exact leafN _
    · exact innerTail_nz h' hb
  · exact innerTail_nz h' hb

theorem stackBody_nz {t : CT} {holeId : Array Nat} {valence : Bool} {NF : Nat} (x : Nat) (s : StSt) (r : ForInStep StSt)
    (h : NZst s) (hb : stackBody t holeId valence NF x s = .ok r) : NZst (stepVal r) := by
  obtain ⟨vf, vv, vh, val, sy, P, sp, f2s, ls, nss, st, fin⟩ := s
  unfold stackBody at hb
  rcases ite_ok hb with ⟨_, hb⟩ | ⟨_, hb⟩
  · rw [pure_ok hb]; exact h
  rcases ite_ok hb with ⟨_, hb⟩ | ⟨_, hb⟩
  · rw [pure_ok hb]; exact h
  obtain ⟨b, _, hb⟩ := (bind_ok_iff _ _ _).mp hb
  rcases ite_ok hb with ⟨_, hb⟩ | ⟨_, hb⟩
  · rw [pure_ok hb]; exact h
  obtain ⟨s2, hloop, hb⟩ := (bind_ok_iff _ _ _).mp hb
  have h' : nss ≤ sy.size := h
  have h2 : NZin s2 := range_forIn_inv NF (innerBody t holeId valence NF) NZin
    (fun a s r hI hr => innerBody_nz a s r hI hr)
    (vf, vv, vh, val, sy, P, sp, f2s, ls, nss, st, st.back!, 0) s2 h' hloop
  obtain ⟨vf2, vv2, vh2, val2, sy2, P2, sp2, f2s2, ls2, nss2, st2, c2, nv2⟩ := s2
  rw [pure_ok hb]; exact h2

theorem outerTail_nz {t : CT} {holeId : Array Nat} {valence : Bool} {nfa : Nat} {val : ValEnc} {sy : Array Nat}
    {sf : RAnsBitEnc} {sfs : Array Bool} {P : Array Nat} {sp : Array TopoSplit} {f2s : Array Nat} {ls : Int} {nss : Nat}
    {vf vv vh : Array Bool} {I : Array Nat} {from_ : Nat} {r : ForInStep OSt} (h : nss ≤ sy.size)
    (hb : outerTail t holeId valence nfa val sy sf sfs P sp f2s ls nss () vf vv vh I from_ = .ok r) :
    NZo (stepVal r) := by
  unfold outerTail at hb
  rcases ite_ok hb with ⟨_, hb⟩ | ⟨_, hb⟩
  · rw [pure_ok hb]; exact h
  obtain ⟨s2, hloop, hb⟩ := (bind_ok_iff _ _ _).mp hb
  have h2 : NZst s2 := range_forIn_inv _ (stackBody t holeId valence nfa) NZst
    (fun a s r hI hr => stackBody_nz a s r hI hr)
    (vf, vv, vh, val, sy, P, sp, f2s, ls, nss, #[from_], false) s2 h hloop
  obtain ⟨vf2, vv2, vh2, val2, sy2, P2, sp2, f2s2, ls2, nss2, st2, fin2⟩ := s2
  rcases ite_ok hb with ⟨_, hb⟩ | ⟨_, hb⟩
  · exact (throw_bind_ne hb).elim
  · rw [pure_ok hb]; exact h2

theorem outerBody_nz {t : CT} {holeId : Array Nat} {valence : Bool} {nfa : Nat}
    (cId : Nat) (s : OSt) (r : ForInStep OSt) (hI : NZo s)
    (hb : outerBody t holeId valence nfa cId s = .ok r) : NZo (stepVal r) := by
  obtain ⟨vf, vv, vh, val, sy, sf, sfs, P, ifc, sp, f2s, ls, nss⟩ := s
  have hI' : nss ≤ sy.size := hI
  unfold outerBody at hb
  obtain ⟨b, hb1, hb⟩ := (bind_ok_iff _ _ _).mp hb
  rcases ite_ok hb with ⟨_, hb⟩ | ⟨hnv, hb⟩
  · rw [pure_ok hb]; exact hI
  obtain ⟨d, hd, hb⟩ := (bind_ok_iff _ _ _).mp hb
  rcases ite_ok hb with ⟨_, hb⟩ | ⟨hnd, hb⟩
  · rw [pure_ok hb]; exact hI
  obtain ⟨x, hx, hb⟩ := (bind_ok_iff _ _ _).mp hb
  obtain ⟨interior, sc⟩ := x
  simp only [] at hb
  rcases ite_ok hb with ⟨hint, hb⟩ | ⟨hnint, hb⟩
  · obtain ⟨v0, hv0, hb⟩ := (bind_ok_iff _ _ _).mp hb
    obtain ⟨v1, hv1, hb⟩ := (bind_ok_iff _ _ _).mp hb
    obtain ⟨v2, hv2, hb⟩ := (bind_ok_iff _ _ _).mp hb
    obtain ⟨vv1, hvv1, hb⟩ := (bind_ok_iff _ _ _).mp hb
    obtain ⟨vv2, hvv2, hb⟩ := (bind_ok_iff _ _ _).mp hb
    obtain ⟨vv3, hvv3, hb⟩ := (bind_ok_iff _ _ _).mp hb
    obtain ⟨vf', hvf', hb⟩ := (bind_ok_iff _ _ _).mp hb
    obtain ⟨oppId, hopp, hb⟩ := (bind_ok_iff _ _ _).mp hb
    obtain ⟨b2, _, hb⟩ := (bind_ok_iff _ _ _).mp hb
    rcases ite_ok hb with ⟨_, hb⟩ | ⟨_, hb⟩
    · exact outerTail_nz hI' hb
    · exact outerTail_nz hI' hb
  · obtain ⟨x2, hx2, hb⟩ := (bind_ok_iff _ _ _).mp hb
    obtain ⟨vv', vh'⟩ := x2
    simp only [] at hb
    exact outerTail_nz hI' hb

/-- **`numSplitSymbols ≤ num_symbols`** in the result of the main loop -/
theorem nss_of_main (t : CT) (holeId : Array Nat) (nh : Nat) (s : OSt)
    (hmain : forIn [:t.numCorners] (initO t nh) (outerBody t holeId false t.numFaces) = .ok s) :
    s.2.2.2.2.2.2.2.2.2.2.2.2 ≤ s.2.2.2.2.1.size :=
  range_forIn_inv t.numCorners (outerBody t holeId false t.numFaces) NZo
    (fun a s r hI hr => outerBody_nz a s r hI hr) (initO t nh) s (Nat.zero_le _) hmain

/-- **everything about the decoder loop, with split events**: as `ConnSplitFreeI.DecLoopIso`, with the events (last one
    first) in `ConnIn` and the vertex bound enlarged by the number of split symbols -/
def DecLoopIsoS (conn : ConnEnc) : Prop :=
  ∃ co : ConnOut,
    (∀ tr, Delivers tr conn.symbols.toList.reverse conn.startFaces.toList →
      connLoop ⟨conn.processed.size, conn.ct.numVertices - conn.ct.numIsolated + conn.numSplitSymbols, conn.symbols.size,
        conn.splits.toList.reverse, true⟩ tr = .ok co) ∧
    CTIso conn.ct conn.processed conn.processed.size co.c2v co.opp

/-- **eb_connectivity_roundtrip_withS**: standard traversal, no attribute data, any symbols (incl. `S`), any start faces.
    Named hypotheses: the decoder's domain checks `hnf`, `hnv`, `hedge`, `hsz2` (`numSplitSymbols ≤ num_symbols` is
    derived: `nss_of_main`); the encoder's invariants of the
    split events `hev` (`EvsOK`), `hevn`; the decoder loop `hrun`. -/
theorem eb_connectivity_roundtrip_withS (ch : ConnChoices) (pf : Faces) (conn : ConnEnc)
    (h : encodeConnectivity ch false pf #[] = .ok conn)
    (hnf : conn.processed.size ≤ 2 ^ 21)
    (hnv : conn.ct.numVertices - conn.ct.numIsolated + conn.numSplitSymbols ≤ 3 * 2 ^ 21)
    (hedge : 3 * conn.processed.size / 2 ≤
      (conn.ct.numVertices - conn.ct.numIsolated) * (conn.ct.numVertices - conn.ct.numIsolated - 1) / 2)
    (hsz2 : conn.processed.size ≤ conn.symbols.size + conn.symbols.size / 3)
    (hev : EvsOK conn.splits) (hevn : conn.splits.size ≤ conn.processed.size)
    (hrun : DecLoopIsoS conn) :
    ∃ mesh, Runs decodeConnectivity 514 ([0] ++ conn.bytes) mesh 514 ∧
      CTIso conn.ct conn.processed mesh.numFaces mesh.c2v mesh.opp ∧ mesh.atts.size = conn.atts.size := by
  obtain ⟨tbl, holeId, nh, s, hc, hnd, hh, hmain, e_ct, e_P, e_sy, e_sfs, e_sp, e_ns⟩ := stages_of_run_S ch pf conn h
  have hsize := Coverage.encodeConnectivity_size ch false pf #[] conn h
  have hnv3 := nv_le_of_run ch false pf #[] conn h
  obtain ⟨hsz1, hs⟩ := symbols_of_run ch pf conn h
  obtain ⟨co, hloop, hiso⟩ := hrun
  have hfits := create_fits hc
  have hsfb : s.2.2.2.2.2.2.1.size + 3 < 2 ^ 32 := by
    have := sfsize_of_main _ holeId nh s hmain
    have hnc : (CT.ofTable tbl).numCorners = 3 * pf.size := create_c2v_size hc
    have := create_numCorners_lt hc
    omega
  have hlink := link_of_loop_S ch pf tbl hc hnd holeId nh hh s hmain
    (conn.ct.numVertices - conn.ct.numIsolated) conn.processed.size (by rw [e_ct])
    (by rw [hsize, e_ct]) (by rw [← e_sy]; exact hs) hnf (by rw [← e_ns]; exact hnv) (by omega) hedge
    (by rw [← e_sy]; exact hsz1) (by rw [← e_sy]; exact hsz2) (nss_of_main _ holeId nh s hmain) hsfb
    (by rw [← e_sp]; exact hev) (by rw [← e_sp]; exact hevn) co
    (by rw [← e_sy, ← e_sfs, ← e_sp, ← e_ns]; exact hloop) (by rw [← e_ct, ← e_P]; exact hiso)
  exact hlink conn h

/-- sanity: without a symbol `S` there are no events and no split symbols, and the theorem specialises to
    `ConnSplitFreeI.eb_connectivity_roundtrip_noS` -/
theorem eb_connectivity_roundtrip_noS_again (ch : ConnChoices) (pf : Faces) (conn : ConnEnc)
    (h : encodeConnectivity ch false pf #[] = .ok conn)
    (hnoS : ∀ x, x ∈ conn.symbols.toList → x ≠ topoS)
    (hnf : conn.processed.size ≤ 2 ^ 21)
    (hnv : conn.ct.numVertices - conn.ct.numIsolated ≤ 3 * 2 ^ 21)
    (hedge : 3 * conn.processed.size / 2 ≤
      (conn.ct.numVertices - conn.ct.numIsolated) * (conn.ct.numVertices - conn.ct.numIsolated - 1) / 2)
    (hsz2 : conn.processed.size ≤ conn.symbols.size + conn.symbols.size / 3)
    (hrun : DecLoopIso conn) :
    ∃ mesh, Runs decodeConnectivity 514 ([0] ++ conn.bytes) mesh 514 ∧
      CTIso conn.ct conn.processed mesh.numFaces mesh.c2v mesh.opp ∧ mesh.atts.size = conn.atts.size := by
  obtain ⟨tbl, holeId, nh, s, hc, hnd, hh, hmain, e_ct, e_P, e_sy, e_sfs, e_sp, e_ns⟩ := stages_of_run_S ch pf conn h
  obtain ⟨hsp, hns⟩ := noS_of_main _ holeId nh s hmain (by rw [← e_sy]; exact hnoS)
  have e1 : conn.splits = #[] := by rw [e_sp, hsp]
  have e2 : conn.numSplitSymbols = 0 := by rw [e_ns, hns]
  obtain ⟨co, hloop, hiso⟩ := hrun
  refine eb_connectivity_roundtrip_withS ch pf conn h hnf (by rw [e2]; exact hnv) hedge hsz2
    (by rw [e1]; trivial) (by rw [e1]; simp) ⟨co, ?_, hiso⟩
  rw [e1, e2]
  exact hloop

end Draco.EbEnc.ConnGlueS
