import DracoProofs.EbDecSim
/-
  THE ABSTRACT ENCODER TRACE WITH INTERIOR START FACES (`TraceI`): what the encoder's traversal of the table `t` guarantees
  about `processed_connectivity_corners_` (decoder order), the symbols (decoder order) and the start-face configurations,
  for split-free traversals with ARBITRARY start faces.

  Layout (decoder order):  `P = (the gate corners of the symbols, reversed encoding order) ++ (init_face_connectivity_corners_)`,
  `syms.length = n` symbols, then one entry of `P` per INTERIOR start face, in the order in which the decoder pops its stack
  (= the order in which the encoder called `EncodeConnectivityFromCorner` = the order of the start-face bits).

  Components: the symbol `E` at decoder index `a` opens a component; it occupies the indices up to the next `E`; the corner
  left on the decoder's stack for it is `3 * e`, `e` = its LAST index.  `starts` lists, in stack-pop order (last component
  first), the start-face flag and that index `e`.

  For an interior start face (`InitAt`), decoded as face `i ≥ n` with gate corner `g = P[i]` (= `Next(start corner)`):
    * `Opposite(g) = P[e]`: the face is glued to the corner left on the stack (the encoder started the call at
      `from_ = Opposite(g)`, the first face it processed, i.e. the LAST decoded face of the component);
    * the fans of its three vertices are closed and all their other faces are symbol faces (`FanEarlier` at `g`, `Next(g)`,
      `Previous(g)`): the face has three neighbours and none of its vertices is on a hole, the whole component is decoded
      before.  This is exactly the shape of the `C` case of `DecSim.TraceAt` (`cornerB` = `Next(LeftMostCorner(Vertex(Next(a))))`
      is found the same way, twice).
-/
namespace Draco.EbEnc.DecSim
open Draco Draco.EbEnc
open Draco.Eb (inv)

/-- the fan of the vertex at corner `x` is closed and all its other faces are among the first `n` decoded faces -/
def FanEarlier (t : CT) (P : Array Nat) (n x : Nat) : Prop :=
  ∃ m, m < P.size + 1 ∧ (2 ≤ m ∧ sLk t m x = x ∧ ∀ k, k < m → 0 < k → Earlier P n (sLk t k x))

instance (t : CT) (P : Array Nat) (n x : Nat) : Decidable (FanEarlier t P n x) := by unfold FanEarlier; infer_instance

/-- the facts about the interior start face decoded as face `i` (gate corner `P[i]`), glued to the stack corner `3 * e` of
    its component, `n` = the number of symbols -/
def InitAt (t : CT) (P : Array Nat) (n i e : Nat) : Prop :=
  P[i]! < t.numCorners ∧
  (t.c2v[P[i]!]! ≠ t.c2v[Eb.nextC P[i]!]! ∧ t.c2v[P[i]!]! ≠ t.c2v[Eb.prevC P[i]!]! ∧
    t.c2v[Eb.nextC P[i]!]! ≠ t.c2v[Eb.prevC P[i]!]!) ∧
  e < n ∧ t.opp[P[i]!]! = P[e]! ∧
  FanEarlier t P n P[i]! ∧ FanEarlier t P n (Eb.nextC P[i]!) ∧ FanEarlier t P n (Eb.prevC P[i]!)

instance (t : CT) (P : Array Nat) (n i e : Nat) : Decidable (InitAt t P n i e) := by unfold InitAt; infer_instance

/-- the last indices of the components of a symbol sequence (decoder order), in stack-pop order: last component first -/
def compEnds (syms : List Nat) : List Nat :=
  ((List.range syms.length).filter (fun j => j + 1 = syms.length ∨ syms[j + 1]! = 7)).reverse

/-- the index of the face the decoder creates for the `k`-th popped component, if that one has an interior start face -/
def initIndex (syms : List Nat) (starts : List (Bool × Nat)) (k : Nat) : Nat :=
  syms.length + ((starts.take k).filter (·.1)).length

/-- **the abstract encoder trace, arbitrary start faces**: `P` = the gate corners in DECODER order (symbols first, then the
    interior start faces), `syms` = the symbols in decoder order, `starts` = per component, in stack-pop order, the
    start-face flag (`true` = interior) and the last decoder index of the component -/
structure TraceI (t : CT) (P : Array Nat) (syms : List Nat) (starts : List (Bool × Nat)) : Prop where
  size : syms.length + (starts.filter (·.1)).length = P.size
  distinct : ∀ i, i < P.size → ∀ i', i' < P.size → P[i]! / 3 = P[i']! / 3 → i = i'
  face : ∀ j, j < syms.length → TraceAt t P syms j
  comps : starts.map (·.2) = compEnds syms
  init : ∀ k, k < starts.length → starts[k]!.1 = true → InitAt t P syms.length (initIndex syms starts k) starts[k]!.2

instance (t : CT) (P : Array Nat) (syms : List Nat) (starts : List (Bool × Nat)) : Decidable (TraceI t P syms starts) :=
  decidable_of_iff (syms.length + (starts.filter (·.1)).length = P.size ∧
    (∀ i, i < P.size → ∀ i', i' < P.size → P[i]! / 3 = P[i']! / 3 → i = i') ∧
    (∀ j, j < syms.length → TraceAt t P syms j) ∧ starts.map (·.2) = compEnds syms ∧
    ∀ k, k < starts.length → starts[k]!.1 = true → InitAt t P syms.length (initIndex syms starts k) starts[k]!.2)
    ⟨fun h => ⟨h.1, h.2.1, h.2.2.1, h.2.2.2.1, h.2.2.2.2⟩, fun h => ⟨h.size, h.distinct, h.face, h.comps, h.init⟩⟩

/-- without interior start faces this is `Trace` -/
theorem TraceI.toTrace {t : CT} {P : Array Nat} {syms : List Nat} {starts : List (Bool × Nat)}
    (h : TraceI t P syms starts) (hb : ∀ x, x ∈ starts → x.1 = false) : Trace t P syms := by
  have e : (starts.filter (·.1)) = [] := by
    rw [List.filter_eq_nil_iff]
    intro x hx; rw [hb x hx]; simp
  have hs := h.size
  rw [e] at hs
  have hs' : syms.length = P.size := by simpa using hs
  exact ⟨hs', h.distinct, fun j hj => h.face j (by omega)⟩

/-! ### validated instances: tables, `processed`, reversed symbols and start-face flags are what `encodeConnectivity` produces -/

/-- the tetrahedron `#[(0,1,2),(0,3,1),(1,3,2),(2,3,0)]` (closed: one interior start face): decoder order `E R C`, then the
    init face with gate corner `1`, glued to the stack corner `3 * 2` -/
example : TraceI ⟨#[0, 1, 2, 0, 3, 1, 1, 3, 2, 2, 3, 0], #[7, 10, 4, 8, 2, 9, 11, 0, 3, 5, 1, 6], #[3, 6, 9, 7], 0, 0⟩
    #[3, 6, 10, 1] [7, 5, 0] [(true, 2)] := by decide

/-- the tetrahedron and a separate triangle: start-face flags `[true, false]` -/
example : TraceI ⟨#[0, 1, 2, 0, 3, 1, 1, 3, 2, 2, 3, 0, 4, 5, 6],
      #[7, 10, 4, 8, 2, 9, 11, 0, 3, 5, 1, 6, inv, inv, inv], #[3, 6, 9, 7, 12, 13, 14], 0, 0⟩
    #[12, 3, 6, 10, 1] [7, 7, 5, 0] [(true, 3), (false, 0)] := by decide

/-- a separate triangle first, then an octahedron: start-face flags `[false, true]` -/
example : TraceI ⟨#[6, 7, 8, 0, 1, 2, 0, 2, 3, 0, 3, 4, 0, 4, 1, 5, 2, 1, 5, 3, 2, 5, 4, 3, 5, 1, 4],
      #[inv, inv, inv, 15, 8, 13, 18, 11, 4, 21, 14, 7, 24, 5, 10, 3, 26, 19, 6, 17, 22, 9, 20, 25, 12, 23, 16],
      #[12, 17, 7, 10, 13, 18, 0, 1, 2], 0, 0⟩
    #[21, 10, 12, 26, 17, 18, 8, 0, 4] [7, 5, 5, 0, 5, 0, 0, 7] [(false, 7), (true, 6)] := by decide

end Draco.EbEnc.DecSim
