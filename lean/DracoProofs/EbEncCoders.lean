import DracoModel.EbEncoder
import DracoProofs.BitBuf
import DracoProofs.RansBit
import DracoProofs.Tagged
import DracoProofs.SeqRuns
/-
  Round trips of the side buffers of the Edgebreaker connectivity coder — compositions of the
  C17 / C08 theorems with the functions of DracoModel/EbEncConnectivity.lean (encoder) and
  DracoModel/EbConnectivity.lean (decoder):

  * the standard traversal symbols (written in reverse, read back in order),
  * the start-face / attribute-seam / flip / crease bit buffers (`RAnsBitEncoder` → `RAnsBitDecoder`),
  * the topology split event table,
  * one valence context.
-/
namespace Draco.EbEnc
open Draco Draco.Eb

/-! ### standard traversal symbols -/

/-- the five topology symbols -/
def IsTopo (s : Nat) : Prop := s = 0 ∨ s = 1 ∨ s = 3 ∨ s = 5 ∨ s = 7

instance (s : Nat) : Decidable (IsTopo s) := by unfold IsTopo; infer_instance

/-- the bits the standard traversal encoder writes for one symbol -/
def symbolBits (s : Nat) : List Bool := bitsOf (patternLength s) s

/-- `n` calls of `MeshEdgebreakerTraversalDecoder::DecodeSymbol` -/
def readStdSymbols : Nat → BitReader → List Nat × BitReader
  | 0, r => ([], r)
  | n+1, r =>
    let x := decodeSymbolStd r
    let y := readStdSymbols n x.2
    (x.1 :: y.1, y.2)

theorem symbolBits_C : symbolBits 0 = [false] := by decide
theorem symbolBits_S : symbolBits 1 = [true, false, false] := by decide
theorem symbolBits_L : symbolBits 3 = [true, true, false] := by decide
theorem symbolBits_R : symbolBits 5 = [true, false, true] := by decide
theorem symbolBits_E : symbolBits 7 = [true, true, true] := by decide
theorem topoC_eq : topoC = 0 := by decide

/-- a symbol coded with three bits `1 b1 b2` -/
theorem decodeSymbolStd_three (r : BitReader) (b1 b2 : Bool) (S : List Bool)
    (hsh : r.sh < 8) (hst : r.stream = true :: ([b1, b2] ++ S)) :
    (decodeSymbolStd r).1 = 1 + 2 * valOfBits [b1, b2] ∧ (decodeSymbolStd r).2.stream = S ∧
      (decodeSymbolStd r).2.sh < 8 ∧ (decodeSymbolStd r).2.decoded = r.decoded + 3 := by
  obtain ⟨h1, h2, h3, h4⟩ := getBit_stream r hsh true _ hst
  obtain ⟨g1, g2, g3, g4⟩ := getBitsAux_stream 2 0 0 r.getBit.2 [b1, b2] S h3 rfl h2
  have e : (r.getBit.1 == topoC) = false := by rw [h1, topoC_eq]; decide
  unfold decodeSymbolStd
  simp only [e, Bool.false_eq_true, if_false]
  refine ⟨?_, g2, g3, ?_⟩
  · rw [g1, h1]; simp
  · rw [g4, h4]

theorem decodeSymbolStd_stream (r : BitReader) (s : Nat) (S : List Bool) (hs : IsTopo s)
    (hsh : r.sh < 8) (hst : r.stream = symbolBits s ++ S) :
    (decodeSymbolStd r).1 = s ∧ (decodeSymbolStd r).2.stream = S ∧ (decodeSymbolStd r).2.sh < 8 ∧
      (decodeSymbolStd r).2.decoded = r.decoded + (symbolBits s).length := by
  rcases hs with h | h | h | h | h <;> subst h
  · -- TOPOLOGY_C: one zero bit
    rw [symbolBits_C] at hst ⊢
    obtain ⟨h1, h2, h3, h4⟩ := getBit_stream r hsh false S (by simpa using hst)
    have e : (r.getBit.1 == topoC) = true := by rw [h1, topoC_eq]; decide
    unfold decodeSymbolStd
    simp only [e, if_true]
    exact ⟨by simpa using h1, h2, h3, by simpa using h4⟩
  · rw [symbolBits_S] at hst ⊢
    have h := decodeSymbolStd_three r false false S hsh (by simpa using hst)
    simpa [valOfBits] using h
  · rw [symbolBits_L] at hst ⊢
    have h := decodeSymbolStd_three r true false S hsh (by simpa using hst)
    simpa [valOfBits] using h
  · rw [symbolBits_R] at hst ⊢
    have h := decodeSymbolStd_three r false true S hsh (by simpa using hst)
    simpa [valOfBits] using h
  · rw [symbolBits_E] at hst ⊢
    have h := decodeSymbolStd_three r true true S hsh (by simpa using hst)
    simpa [valOfBits] using h

theorem readStdSymbols_stream : ∀ (syms : List Nat) (r : BitReader) (S : List Bool),
    (∀ s ∈ syms, IsTopo s) → r.sh < 8 → r.stream = syms.flatMap symbolBits ++ S →
    (readStdSymbols syms.length r).1 = syms ∧ (readStdSymbols syms.length r).2.stream = S ∧
      (readStdSymbols syms.length r).2.decoded = r.decoded + (syms.flatMap symbolBits).length := by
  intro syms
  induction syms with
  | nil => intro r S _ _ hst; simpa [readStdSymbols] using hst
  | cons s syms ih =>
    intro r S hs hsh hst
    have hst' : r.stream = symbolBits s ++ (syms.flatMap symbolBits ++ S) := by
      simpa [List.flatMap_cons, List.append_assoc] using hst
    obtain ⟨h1, h2, h3, h4⟩ := decodeSymbolStd_stream r s _ (hs s (by simp)) hsh hst'
    obtain ⟨g1, g2, g3⟩ := ih (decodeSymbolStd r).2 S (fun x hx => hs x (by simp [hx])) h3 h2
    simp only [List.length_cons, readStdSymbols]
    refine ⟨by rw [h1, g1], g2, ?_⟩
    rw [g3, h4]; simp [List.flatMap_cons]; omega

/-- the bits of `EncodeTraversalSymbols` -/
def traversalBits (symbols : Array Nat) : List Bool :=
  symbols.toList.reverse.flatMap symbolBits

theorem encodeTraversalSymbols_eq (symbols : Array Nat) :
    encodeTraversalSymbols symbols = encBitRegion true (traversalBits symbols) := rfl

/-- **standard traversal coder**: what `EncodeTraversalSymbols` writes for the symbols `symbols`
    (collected in encoding order, written last-first) is read back by `StartBitDecoding` +
    `symbols.size` calls of `DecodeSymbol` as the reversed list — the order in which the decoder
    rebuilds the faces; the bit reader has then consumed exactly the written bits and
    `EndBitDecoding` (`skipBytes` of the stored size) leaves `rest`. -/
theorem standard_symbols_roundtrip (symbols : Array Nat) (rest : Bytes)
    (hs : ∀ s ∈ symbols.toList, IsTopo s)
    (hlen : ((traversalBits symbols).length + 7) / 8 < 2 ^ 64) :
    ∃ body : Bytes,
      readBitRegionSize false (encodeTraversalSymbols symbols ++ rest) = some (body.length, body ++ rest) ∧
      body.length = ((traversalBits symbols).length + 7) / 8 ∧
      (readStdSymbols symbols.size (BitReader.start (body ++ rest))).1 = symbols.toList.reverse ∧
      (readStdSymbols symbols.size (BitReader.start (body ++ rest))).2.decoded = (traversalBits symbols).length := by
  refine ⟨packBits (traversalBits symbols), ?_, ?_, ?_⟩
  · have hl := packBits_length _ (traversalBits symbols) (Nat.le_refl _)
    have hv := decVarint_enc (w := 64) (by simp) (packBits (traversalBits symbols)).length
      (by rw [hl]; exact hlen) (packBits (traversalBits symbols) ++ rest)
    simp only [encodeTraversalSymbols_eq, encBitRegion, if_true, readBitRegionSize, Bool.false_eq_true,
      if_false, List.append_assoc, hv]
  · exact packBits_length _ (traversalBits symbols) (Nat.le_refl _)
  · obtain ⟨pad, hpad⟩ := packBits_stream _ (traversalBits symbols) (Nat.le_refl _)
    have hstream : (BitReader.start (packBits (traversalBits symbols) ++ rest)).stream =
        symbols.toList.reverse.flatMap symbolBits ++ (pad ++ rest.flatMap (bitsOf 8)) := by
      rw [stream_start, List.flatMap_append, hpad, List.append_assoc]; rfl
    have h := readStdSymbols_stream symbols.toList.reverse _ _
      (fun s hx => hs s (by simpa using hx)) (by simp [BitReader.start]) hstream
    have hsz : symbols.toList.reverse.length = symbols.size := by simp
    rw [hsz] at h
    exact ⟨h.1, by simpa [BitReader.start, traversalBits] using h.2.2⟩

/-! ### bit buffers (start faces, attribute seams, flips, orientations, crease flags) -/

/-- `StartEncoding; EncodeBit(b) for b in bits` -/
def encodeBits (bits : List Bool) : RAnsBitEnc := bits.foldl (fun e b => e.encodeBit b) RAnsBitEnc.start

theorem encodeBits_flat_aux : ∀ (bits : List Bool) (e : RAnsBitEnc), e.Inv →
    (bits.foldl (fun e b => e.encodeBit b) e).flat = e.flat ++ bits ∧
    (bits.foldl (fun e b => e.encodeBit b) e).Inv := by
  intro bits
  induction bits with
  | nil => intro e he; simp [he]
  | cons b bits ih =>
    intro e he
    obtain ⟨h1, h2⟩ := RAnsBitEnc.encodeBit_spec e b he
    obtain ⟨g1, g2⟩ := ih (e.encodeBit b) h2
    simp only [List.foldl_cons]
    exact ⟨by rw [g1, h1, List.append_assoc]; rfl, g2⟩

theorem encodeBits_flat (bits : List Bool) : (encodeBits bits).flat = bits := by
  have := (encodeBits_flat_aux bits RAnsBitEnc.start RAnsBitEnc.start_inv).1
  simpa [encodeBits, RAnsBitEnc.start_flat] using this

/-- **bit buffers**: a `RAnsBitEncoder` fed the bits `bits` and closed with `EndEncoding` is
    opened by `RAnsBitDecoder::StartDecoding`, which consumes exactly the written bytes, and
    `DecodeNextBit` then delivers `bits` in order — for every value of the `double` expression
    `zero_prob_raw`.  This is the coder of the start-face configurations, of the seam bits of every
    attribute, of the normal flips, the tex-coord orientations and the crease flags. -/
theorem bit_buffer_roundtrip (ch : ConnChoices) (bits : List Bool) (hlen : bits.length + 3 < 2 ^ 32)
    (rest : Bytes) :
    ∃ d, ransBitStart false (finishBits ch (encodeBits bits) ++ rest) = some (d, rest) ∧
      Yields RAnsBitDec.nextBit d bits := by
  have h := ransBit_start_finish Generated.fastdivTab divOK_generated ch.zeroProbRaw (encodeBits bits)
    (by rw [encodeBits_flat]; exact hlen) rest
  rw [encodeBits_flat] at h
  exact h

/-! ### topology split events -/

/-- the id part of `EncodeSplitData`: delta coded source ids, split ids as offsets -/
def splitIdBytes : Nat → List TopoSplit → Bytes
  | _, [] => []
  | last, e :: es =>
    encVarint ((e.source + 2 ^ 32 - last) % 2 ^ 32) ++ encVarint ((e.source + 2 ^ 32 - e.split) % 2 ^ 32)
      ++ splitIdBytes e.source es

theorem splitIds_fold (es : List TopoSplit) : ∀ (acc : Bytes) (last : Nat),
    (es.foldl (fun (acc : Bytes × Nat) (e : TopoSplit) =>
      (acc.1 ++ encVarint ((e.source + 2 ^ 32 - acc.2) % 2 ^ 32) ++ encVarint ((e.source + 2 ^ 32 - e.split) % 2 ^ 32),
       e.source)) (acc, last)).1 = acc ++ splitIdBytes last es := by
  induction es with
  | nil => intro acc last; simp [splitIdBytes]
  | cons e es ih =>
    intro acc last
    simp only [List.foldl_cons, splitIdBytes]
    rw [ih]
    simp [List.append_assoc]

/-- a well formed event table: source ids non-decreasing, every id below 2^32, the split id not
    above the source id (the encoder records `split_symbol_id` of an EARLIER symbol), edge 0 / 1 -/
def SplitsOK : Nat → List TopoSplit → Prop
  | _, [] => True
  | last, e :: es => last ≤ e.source ∧ e.source < 2 ^ 32 ∧ e.split ≤ e.source ∧ e.edge < 2 ∧ SplitsOK e.source es


theorem ids_runs (v : Nat) : ∀ (es : List TopoSplit) (last : Nat) (acc : List (Nat × Nat)), SplitsOK last es →
    Runs (decodeTopologySplits.ids es.length last acc) v (splitIdBytes last es)
      ((es.map fun e => (e.source, e.split)).reverse ++ acc) v := by
  intro es
  induction es with
  | nil =>
    intro last acc _
    simp only [List.length_nil, decodeTopologySplits.ids, splitIdBytes, List.map_nil, List.reverse_nil, List.nil_append]
    exact Runs.pure _ _
  | cons e es ih =>
    intro last acc h
    obtain ⟨h1, h2, h3, h4, h5⟩ := h
    have hd : (e.source + 2 ^ 32 - last) % 2 ^ 32 = e.source - last := by omega
    have hd2 : (e.source + 2 ^ 32 - e.split) % 2 ^ 32 = e.source - e.split := by omega
    simp only [List.length_cons, decodeTopologySplits.ids, splitIdBytes, hd, hd2]
    refine Runs.bind' (Runs.varint32 (e.source - last) v (by omega)) (by rw [List.append_assoc]) ?_
    refine Runs.bind (Runs.varint32 (e.source - e.split) v (by omega)) ?_
    have hs : (e.source - last + last) % 2 ^ 32 = e.source := by omega
    rw [hs]
    refine Runs.bind0 (Runs.require (by simp) v) ?_
    have := ih e.source ((e.source, e.split) :: acc) h5
    have he : e.source - (e.source - e.split) = e.split := by omega
    rw [he]
    simpa [List.append_assoc] using this



theorem zip_reverse_map {α β : Type} : ∀ (l : List α) (f : α → β) (g : α → Nat),
    ((l.map f).reverse.zip (l.map g).reverse) = (l.map fun a => (f a, g a)).reverse := by
  intro l f g
  have h := List.reverse_zipWith (f := Prod.mk) (l := l.map f) (l' := l.map g) (by simp)
  rw [← List.zip_eq_zipWith, ← List.zip_eq_zipWith] at h
  rw [← h, List.zip_map']

theorem splitsOK_edges : ∀ (last : Nat) (es : List TopoSplit), SplitsOK last es → ∀ e ∈ es, e.edge < 2 := by
  intro last es
  induction es generalizing last with
  | nil => intro _ e he; simp at he
  | cons a es ih =>
    intro h e he
    obtain ⟨_, _, _, h4, h5⟩ := h
    rcases List.mem_cons.mp he with rfl | h'
    · exact h4
    · exact ih a.source h5 e h'

theorem split_events_runs (splits : List TopoSplit) (numFaces : Nat) (hok : SplitsOK 0 splits)
    (hn : splits.length ≤ numFaces) (hlen : splits.length < 2 ^ 32) :
    Runs (decodeTopologySplits 514 numFaces) 514 (encodeSplitData splits.toArray) splits.reverse 514 := by
  unfold decodeTopologySplits encodeSplitData
  have hc : countV 514 = DecM.varint 32 := by simp [countV]
  simp only [hc, List.size_toArray, Nat.mod_eq_of_lt hlen]
  by_cases h0 : splits.length = 0
  · have : splits = [] := List.length_eq_zero_iff.mp h0
    subst this
    simp only [List.length_nil, beq_self_eq_true, if_true]
    refine Runs.bind' (b2 := []) (Runs.varint32 0 514 (by decide)) (by simp) ?_
    simp
    exact Runs.pure _ _
  · have hpos : splits.length > 0 := by omega
    have hb : (splits.length == 0) = false := by simpa using h0
    simp only [hb, Bool.false_eq_true, if_false, List.append_assoc]
    refine Runs.bind (Runs.varint32 splits.length 514 hlen) ?_
    simp only [hpos, if_true, show ¬ (514 < 1 * 256 + 2) by decide, show ¬ (514 < 2 * 256 + 2) by decide,
      show ¬ (514 < 2 * 256 + 1) by decide, if_false]
    refine Runs.bind0 (Runs.require (by simpa using hn) 514) ?_
    have hfold := splitIds_fold splits [] 0
    simp only [List.append_assoc, List.nil_append] at hfold
    rw [hfold]
    refine Runs.bind (ids_runs 514 splits 0 [] hok) ?_
    -- the source edges
    have hputs : putBitsAll (splits.map fun e => (1, e.edge)) = splits.flatMap fun e => bitsOf 1 e.edge := by
      simp [putBitsAll, List.flatMap_map]
    have hw : (splits.map fun e => (1, e.edge)).map (·.1) = List.replicate splits.length 1 := by
      rw [List.map_map]
      exact List.eq_replicate_iff.mpr ⟨by simp, by simp⟩
    have hbits : ∀ extra, decBitRegion false false (List.replicate splits.length 1)
        (encBitRegion false (splits.flatMap fun e => bitsOf 1 e.edge) ++ extra) =
        some ((none, splits.map fun e => e.edge % 2), extra) := by
      intro extra
      have h := decBitRegion_enc false (splits.map fun e => (1, e.edge)) extra (by simp) (by simp)
      rw [hw, hputs] at h
      have e2 : (List.map (fun p : Nat × Nat => p.2 % 2 ^ p.1) (List.map (fun e : TopoSplit => (1, e.edge)) splits)) =
          splits.map fun e => e.edge % 2 := by
        rw [List.map_map]; apply List.map_congr_left; intro e _; simp
      rw [e2] at h
      simpa using h
    refine Runs.bind' (b2 := []) (Runs.lift hbits 514) (by simp) ?_
    have hres : List.map (fun (x : (Nat × Nat) × Nat) => ({ source := x.1.1, split := x.1.2, edge := x.2 % 2 } : TopoSplit))
        (((splits.map fun (e : TopoSplit) => (e.source, e.split)).reverse ++ []).zip (splits.map fun (e : TopoSplit) => e.edge % 2).reverse) =
        splits.reverse := by
      rw [List.append_nil, zip_reverse_map, List.map_reverse, List.map_map]
      congr 1
      have hed := splitsOK_edges 0 splits hok
      conv_rhs => rw [← List.map_id splits]
      apply List.map_congr_left
      intro e he
      have := hed e he
      obtain ⟨src, sp, ed⟩ := e
      simp only [Function.comp, id] at this ⊢
      congr 1
      omega
    rw [hres]
    exact Runs.pure _ _


/-! ### valence contexts -/

theorem decodeSymbolsV_current (n c : Nat) (bs : Bytes) : decodeSymbolsV false n c bs = decodeSymbols n c bs := by
  simp [decodeSymbolsV]

/-- **one valence context**: the block the valence traversal encoder writes for a non-empty
    context (`EncodeVarint(size)`, `EncodeSymbols(…, 1, nullptr, …)`) is read back by the decoder's
    `DecodeVarint` + `DecodeSymbols(size, 1, …)` as the same symbols, consuming exactly the block —
    for either symbol scheme and any oracle.  (The encoder appends to a context in encoding order and
    the decoder takes `context_symbols_[ctx][--counter]`, i.e. the last one first.) -/
theorem valence_context_roundtrip (ch : ConnChoices) (i : Nat) (syms : List Nat) (bs rest : Bytes)
    (hlen : syms.length < 2 ^ 32)
    (h : encodeSymbolsWith ch.oracle (ch.ctxScheme i) 7 1 syms = some bs) :
    decVarint 32 (encVarint (syms.length % 2 ^ 32) ++ (bs ++ rest)) = some (syms.length, bs ++ rest) ∧
    decodeSymbolsV false syms.length 1 (bs ++ rest) = some (syms, rest) := by
  refine ⟨?_, ?_⟩
  · rw [Nat.mod_eq_of_lt hlen]
    exact decVarint_enc (w := 32) (by simp) syms.length hlen _
  · rw [decodeSymbolsV_current]
    exact symbols_roundtrip_aux ch.oracle (ch.ctxScheme i) 7 1 syms bs (by decide) hlen h rest

/-! ### the evaluated predicate `CTIso` -/


theorem ctIso_faces (t : CT) (processed : Array Nat) (nf : Nat) (dc2v dopp : Array Nat)
    (h : ctIso t processed nf dc2v dopp = true) : nf = processed.size ∧ dc2v.size = 3 * nf ∧ dopp.size = 3 * nf := by
  unfold ctIso at h
  by_cases h1 : (nf != processed.size) = true
  · rw [if_pos h1] at h
    cases h
  · rw [if_neg h1] at h
    by_cases h2 : (dc2v.size != 3 * nf || dopp.size != 3 * nf) = true
    · rw [if_pos h2] at h
      cases h
    · simp only [Bool.or_eq_true, bne_iff_ne, ne_eq, not_or, Decidable.not_not] at h1 h2
      exact ⟨h1, h2.1, h2.2⟩


instance splitsOKDecidable : ∀ (last : Nat) (es : List TopoSplit), Decidable (SplitsOK last es)
  | _, [] => isTrue trivial
  | last, e :: es =>
    have : Decidable (SplitsOK e.source es) := splitsOKDecidable e.source es
    by unfold SplitsOK; infer_instance

end Draco.EbEnc
