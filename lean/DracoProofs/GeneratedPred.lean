import DracoProofs.GeneratedCore
import DracoModel.Basic
/-
  DracoProofs.GeneratedPred — the per-component body of `ComputeParallelogramPrediction<CornerTable, int32_t>`
  (mesh_prediction_scheme_parallelogram_shared.h; the five statements of its loop body, cut out of the translated function
  by AST position; lean/Generated/Funcs.lean) stores `wrap32 (next + prev − opp)` at `out_prediction[c]` — the value the
  model's `parallelogramPrediction` (DracoModel/EbPredict.lean, `out.push (wrap32 r)`) pushes for component `c`.
-/
namespace Draco.Generated
open Draco Draco.CInt

theorem ComputeParallelogramPrediction_component_eq_model (inData : Int → Int) (vn vp vo c : Int)
    (hd : ∀ i, I32 (inData i)) (h1 : I32 (vn + c)) (h2 : I32 (vp + c)) (h3 : I32 (vo + c)) :
    (ComputeParallelogramPrediction_component inData vn c vp vo).2.2.2.2 =
      [(c, wrap32 (inData (vn + c) + inData (vp + c) - inData (vo + c)))] ∧
    (ComputeParallelogramPrediction_component inData vn c vp vo).2.2.2.1 =
      inData (vn + c) + inData (vp + c) - inData (vo + c) := by
  unfold I32 at h1 h2 h3
  have a := hd (vn + c); have b := hd (vp + c); have d := hd (vo + c)
  unfold I32 at a b d
  unfold ComputeParallelogramPrediction_component
  rw [wrapI32_id (vn + c) h1.1 h1.2, wrapI32_id (vp + c) h2.1 h2.2, wrapI32_id (vo + c) h3.1 h3.2]
  dsimp only
  have e1 : wrapI64 (inData (vn + c) + inData (vp + c)) = inData (vn + c) + inData (vp + c) := wrapI64_id _ (by omega) (by omega)
  rw [e1]
  have e2 : wrapI64 (inData (vn + c) + inData (vp + c) - inData (vo + c)) = inData (vn + c) + inData (vp + c) - inData (vo + c) :=
    wrapI64_id _ (by omega) (by omega)
  rw [e2]
  exact ⟨rfl, rfl⟩

end Draco.Generated
