import DracoModel.MetadataStack
import DracoProofs.MetadataStatus
/-
  The explicit-stack machine `decodeMetadataIter` (the C++ `while` loop) and the recursive
  `decodeNode` compute the same function on every input.
-/
namespace Draco

/-! ## readers never grow the input -/

theorem decVarintAux_length (w : Nat) : ∀ (b : Nat) (bs : Bytes) (v : Nat) (r : Bytes),
    decVarintAux w b bs = some (v, r) → r.length < bs.length := by
  intro b
  induction b with
  | zero => intro bs v r h; simp [decVarintAux] at h
  | succ b ih =>
    intro bs v r h
    cases bs with
    | nil => simp [decVarintAux] at h
    | cons byte rest =>
      simp only [decVarintAux] at h
      split at h
      · split at h
        · cases h
        · rename_i v' rest' hr
          cases h
          have := ih _ _ _ hr
          simp only [List.length_cons]; omega
      · cases h; simp

theorem decVarint_length (w : Nat) (bs : Bytes) (v : Nat) (r : Bytes)
    (h : decVarint w bs = some (v, r)) : r.length < bs.length :=
  decVarintAux_length w _ bs v r h

theorem readBytes_length (n : Nat) (bs v r : Bytes) (h : readBytes n bs = some (v, r)) :
    r.length ≤ bs.length := by
  unfold readBytes at h
  split at h
  · cases h
  · cases h; simp

theorem decodeName_length (bs n r : Bytes) (h : decodeName bs = some (n, r)) :
    r.length < bs.length := by
  unfold decodeName at h
  cases bs with
  | nil => simp [readU8] at h
  | cons b rest =>
    simp only [readU8] at h
    split at h
    · cases h; simp
    · have := readBytes_length _ _ _ _ h
      simp only [List.length_cons]; omega

theorem decodeEntry_length (ae : Bool) (bs : Bytes) (e : Bytes × Bytes) (r : Bytes)
    (h : decodeEntry ae bs = some (e, r)) : r.length ≤ bs.length := by
  unfold decodeEntry at h
  split at h
  · cases h
  · rename_i name bs1 hn
    split at h
    · cases h
    · rename_i ds bs2 hv
      split at h
      · cases h
      · split at h
        · cases h
        · split at h
          · cases h
          · rename_i value bs3 hb
            cases h
            have h1 := decodeName_length _ _ _ hn
            have h2 := decVarint_length _ _ _ _ hv
            have h3 := readBytes_length _ _ _ _ hb
            omega

theorem decodeEntries_length (ae : Bool) : ∀ (n : Nat) (acc : List (Bytes × Bytes)) (bs : Bytes)
    (es : List (Bytes × Bytes)) (r : Bytes),
    decodeEntries ae n acc bs = some (es, r) → r.length ≤ bs.length := by
  intro n
  induction n with
  | zero => intro acc bs es r h; simp only [decodeEntries] at h; cases h; exact Nat.le_refl _
  | succ n ih =>
    intro acc bs es r h
    simp only [decodeEntries] at h
    split at h
    · cases h
    · rename_i name value bs1 he
      have h1 := decodeEntry_length _ _ _ _ he
      have h2 := ih _ _ _ _ h
      omega

theorem openNode_length (ae : Bool) (name : Bytes) (hp : Bool) (lvl : Nat) (bs : Bytes)
    (fr : MdFrame) (r : Bytes) (h : openNode ae name hp lvl bs = some (fr, r)) :
    r.length < bs.length := by
  unfold openNode at h
  split at h
  · cases h
  · rename_i n bs1 h1
    split at h
    · cases h
    · rename_i es bs2 h2
      split at h
      · cases h
      · rename_i k bs3 h3
        split at h
        · cases h
        · cases h
          have a := decVarint_length _ _ _ _ h1
          have b := decodeEntries_length _ _ _ _ _ _ h2
          have c := decVarint_length _ _ _ _ h3
          omega

/-! ## `decodeNode` through `openNode` -/

theorem decodeNode_eq_open (ae : Bool) (name : Bytes) (f : Nat) (hp : Bool) (lvl : Nat)
    (bs : Bytes) :
    decodeNode ae (f+1) hp lvl bs =
      match openNode ae name hp lvl bs with
      | none => none
      | some (fr, bs3) =>
        if fr.pending ≠ 0 ∧ fr.childLevel > kMaxSubmetadataLevel then none
        else
          match decodeSubsWith (decodeNode ae f true fr.childLevel) fr.pending [] bs3 with
          | none => none
          | some (ss, bs4) => some (.mk fr.entries ss.reverse, bs4) := by
  simp only [decodeNode, openNode]
  cases decVarint 32 bs with
  | none => rfl
  | some p =>
    obtain ⟨n, bs1⟩ := p
    simp only
    cases decodeEntries ae n [] bs1 with
    | none => rfl
    | some q =>
      obtain ⟨es, bs2⟩ := q
      simp only
      cases decVarint 32 bs2 with
      | none => rfl
      | some t =>
        obtain ⟨k, bs3⟩ := t
        simp only
        by_cases hk : k > bs3.length
        · simp [hk]
        · simp only [hk, if_false]
          rfl

theorem openNode_fields (ae : Bool) (name : Bytes) (hp : Bool) (lvl : Nat) (bs : Bytes)
    (fr : MdFrame) (r : Bytes) (h : openNode ae name hp lvl bs = some (fr, r)) :
    fr.name = name ∧ fr.subsAcc = [] ∧ fr.childLevel = (if hp then lvl + 1 else lvl) := by
  unfold openNode at h
  split at h
  · cases h
  · split at h
    · cases h
    · split at h
      · cases h
      · split at h
        · cases h
        · cases h; exact ⟨rfl, rfl, rfl⟩

/-! ## machine steps -/

theorem runStack_pop (ae : Bool) (F : Nat) (nm : Bytes) (es : List (Bytes × Bytes))
    (acc : List (Bytes × Metadata)) (k lvl : Nat) (stack : List MdFrame) (bs name bs1 : Bytes)
    (hl : lvl ≤ kMaxSubmetadataLevel) (hn : decodeName bs = some (name, bs1)) :
    runStack ae (F+1) (⟨nm, es, acc, k+1, lvl⟩ :: stack) bs =
      match openNode ae name true lvl bs1 with
      | none => none
      | some (child, bs2) => runStack ae F (child :: ⟨nm, es, acc, k, lvl⟩ :: stack) bs2 := by
  have h1 : ¬ lvl > kMaxSubmetadataLevel := by omega
  simp only [runStack, Nat.add_one_ne_zero, if_false, h1, hn, Nat.add_sub_cancel]
  rfl

theorem runStack_pop_none (ae : Bool) (F : Nat) (nm : Bytes) (es : List (Bytes × Bytes))
    (acc : List (Bytes × Metadata)) (k lvl : Nat) (stack : List MdFrame) (bs : Bytes)
    (hn : decodeName bs = none) :
    runStack ae F (⟨nm, es, acc, k+1, lvl⟩ :: stack) bs = none := by
  cases F with
  | zero => rfl
  | succ F =>
    simp only [runStack, Nat.add_one_ne_zero, if_false, hn]
    split <;> rfl

theorem runStack_level (ae : Bool) (F : Nat) (nm : Bytes) (es : List (Bytes × Bytes))
    (acc : List (Bytes × Metadata)) (k lvl : Nat) (stack : List MdFrame) (bs : Bytes)
    (hl : lvl > kMaxSubmetadataLevel) :
    runStack ae F (⟨nm, es, acc, k+1, lvl⟩ :: stack) bs = none := by
  cases F with
  | zero => rfl
  | succ F => simp only [runStack, Nat.add_one_ne_zero, if_false, hl, if_true]

theorem runStack_close (ae : Bool) (F : Nat) (nm : Bytes) (es : List (Bytes × Bytes))
    (acc : List (Bytes × Metadata)) (lvl : Nat) (pn : Bytes) (pes : List (Bytes × Bytes))
    (pacc : List (Bytes × Metadata)) (pk plvl : Nat) (stack : List MdFrame) (bs : Bytes) :
    runStack ae (F+1) (⟨nm, es, acc, 0, lvl⟩ :: ⟨pn, pes, pacc, pk, plvl⟩ :: stack) bs =
      match insertNewDesc nm (.mk es acc.reverse) pacc with
      | none => none
      | some acc' => runStack ae F (⟨pn, pes, acc', pk, plvl⟩ :: stack) bs := by
  simp only [runStack, if_true]
  rfl

/-- more fuel never changes a result -/
theorem runStack_mono (ae : Bool) : ∀ (G : Nat) (st : List MdFrame) (bs : Bytes)
    (r : Metadata × Bytes), runStack ae G st bs = some r →
    ∀ d, runStack ae (G + d) st bs = some r := by
  intro G
  induction G with
  | zero => intro st bs r h; simp [runStack] at h
  | succ G ih =>
    intro st bs r h d
    rw [Nat.add_right_comm]
    cases st with
    | nil => simp [runStack] at h
    | cons fr stack =>
      simp only [runStack] at h ⊢
      split
      · rename_i hp
        rw [if_pos hp] at h
        cases stack with
        | nil => exact h
        | cons parent stack' =>
          simp only at h ⊢
          split at h
          · cases h
          · rename_i acc' hi
            exact ih _ _ _ h d
      · rename_i hp
        rw [if_neg hp] at h
        split
        · rename_i hl
          rw [if_pos hl] at h; cases h
        · rename_i hl
          rw [if_neg hl] at h
          split at h
          · cases h
          · rename_i name bs1 hn
            split at h
            · cases h
            · rename_i child bs2 ho
              exact ih _ _ _ h d

theorem runStack_none_of_le (ae : Bool) (G G' : Nat) (st : List MdFrame) (bs : Bytes)
    (hle : G ≤ G') (h : runStack ae G' st bs = none) : runStack ae G st bs = none := by
  cases hr : runStack ae G st bs with
  | none => rfl
  | some r =>
    obtain ⟨d, rfl⟩ := Nat.exists_eq_add_of_le hle
    rw [runStack_mono ae G st bs r hr d] at h
    cases h

/-! ## simulation -/

/-- What the machine does with the `k` pending tuples of the top frame, compared with
    `decodeSubsWith`: on success it reaches, in `c` steps, the same frame with nothing pending
    and the same accumulated children at the same input position; on failure it fails (for
    every amount of fuel). -/
def SubsSim (ae : Bool) (f lvl : Nat) (k : Nat) : Prop :=
  ∀ (acc : List (Bytes × Metadata)) (bs nm : Bytes) (es : List (Bytes × Bytes))
    (stack : List MdFrame),
    match decodeSubsWith (decodeNode ae f true lvl) k acc bs with
    | some (acc', bs') =>
      bs'.length ≤ bs.length ∧ ∃ c, c ≤ bs.length - bs'.length ∧
        ∀ F, runStack ae (c + F) (⟨nm, es, acc, k, lvl⟩ :: stack) bs =
             runStack ae F (⟨nm, es, acc', 0, lvl⟩ :: stack) bs'
    | none => ∀ F, runStack ae F (⟨nm, es, acc, k, lvl⟩ :: stack) bs = none

theorem subsSim (ae : Bool) : ∀ (f lvl k : Nat),
    kMaxSubmetadataLevel + 1 ≤ f + lvl → (k ≠ 0 → lvl ≤ kMaxSubmetadataLevel) →
    SubsSim ae f lvl k := by
  intro f
  induction f with
  | zero =>
    -- no fuel: only possible without pending tuples
    intro lvl k hf hk
    cases k with
    | zero =>
      intro acc bs nm es stack
      simp only [decodeSubsWith]
      exact ⟨Nat.le_refl _, 0, Nat.zero_le _, fun F => by rw [Nat.zero_add]⟩
    | succ k => have := hk (by omega); omega
  | succ f ihf =>
    intro lvl k hf hk
    induction k with
    | zero =>
      intro acc bs nm es stack
      simp only [decodeSubsWith]
      exact ⟨Nat.le_refl _, 0, Nat.zero_le _, fun F => by rw [Nat.zero_add]⟩
    | succ k ihk =>
      have hl : lvl ≤ kMaxSubmetadataLevel := hk (by omega)
      have ihk' := ihk (fun _ => hl)
      intro acc bs nm es stack
      simp only [decodeSubsWith]
      cases hn : decodeName bs with
      | none => exact fun F => runStack_pop_none ae F nm es acc k lvl stack bs hn
      | some p =>
        obtain ⟨name, bs1⟩ := p
        simp only
        rw [decodeNode_eq_open ae name f true lvl bs1]
        cases ho : openNode ae name true lvl bs1 with
        | none =>
          simp only
          intro F
          cases F with
          | zero => rfl
          | succ F => rw [runStack_pop ae F nm es acc k lvl stack bs name bs1 hl hn, ho]
        | some q =>
          obtain ⟨cf, bs3⟩ := q
          obtain ⟨cnm, ces, cacc, ck, clvl⟩ := cf
          have hflds := openNode_fields ae name true lvl bs1 _ bs3 ho
          simp only [if_true] at hflds
          obtain ⟨rfl, rfl, rfl⟩ := hflds
          have hlen1 := decodeName_length _ _ _ hn
          have hlen2 := openNode_length _ _ _ _ _ _ _ ho
          simp only
          by_cases hlv : ck ≠ 0 ∧ lvl + 1 > kMaxSubmetadataLevel
          · -- the child's own children would be too deep
            rw [if_pos hlv]
            intro F
            cases F with
            | zero => rfl
            | succ F =>
              rw [runStack_pop ae F nm es acc k lvl stack bs cnm bs1 hl hn, ho]
              obtain ⟨ck', rfl⟩ := Nat.exists_eq_succ_of_ne_zero hlv.1
              exact runStack_level ae F cnm ces [] ck' (lvl + 1) _ bs3 hlv.2
          · rw [if_neg hlv]
            have hsim := ihf (lvl + 1) ck (by omega) (fun h => by
              have : ¬ lvl + 1 > kMaxSubmetadataLevel := fun h' => hlv ⟨h, h'⟩
              omega) [] bs3 cnm ces (⟨nm, es, acc, k, lvl⟩ :: stack)
            cases hs : decodeSubsWith (decodeNode ae f true (lvl + 1)) ck [] bs3 with
            | none =>
              rw [hs] at hsim
              simp only at hsim ⊢
              intro F
              cases F with
              | zero => rfl
              | succ F =>
                rw [runStack_pop ae F nm es acc k lvl stack bs cnm bs1 hl hn, ho]
                exact hsim F
            | some r =>
              obtain ⟨ss, bs4⟩ := r
              rw [hs] at hsim
              simp only at hsim ⊢
              obtain ⟨hlen3, c1, hc1, hrun1⟩ := hsim
              cases hi : insertNewDesc cnm (.mk ces ss.reverse) acc with
              | none =>
                simp only
                intro F
                cases F with
                | zero => rfl
                | succ F =>
                  rw [runStack_pop ae F nm es acc k lvl stack bs cnm bs1 hl hn, ho]
                  simp only
                  -- run the child's subtree, then fail when closing it
                  refine runStack_none_of_le ae F (c1 + (F + 1)) _ _ (by omega) ?_
                  rw [hrun1, runStack_close, hi]
              | some acc2 =>
                simp only
                have hsim2 := ihk' acc2 bs4 nm es stack
                cases hs2 : decodeSubsWith (decodeNode ae (f+1) true lvl) k acc2 bs4 with
                | none =>
                  rw [hs2] at hsim2
                  simp only at hsim2 ⊢
                  intro F
                  refine runStack_none_of_le ae F ((c1 + (F + 1)) + 1) _ _ (by omega) ?_
                  rw [runStack_pop ae _ nm es acc k lvl stack bs cnm bs1 hl hn, ho]
                  simp only
                  rw [hrun1, runStack_close, hi]
                  exact hsim2 F
                | some r2 =>
                  obtain ⟨acc', bs'⟩ := r2
                  rw [hs2] at hsim2
                  simp only at hsim2 ⊢
                  obtain ⟨hlen4, c2, hc2, hrun2⟩ := hsim2
                  refine ⟨by omega, 1 + c1 + 1 + c2, by omega, ?_⟩
                  intro F
                  have e1 : 1 + c1 + 1 + c2 + F = (c1 + (1 + (c2 + F))) + 1 := by omega
                  rw [e1, runStack_pop ae _ nm es acc k lvl stack bs cnm bs1 hl hn, ho]
                  simp only
                  rw [hrun1]
                  have e2 : 1 + (c2 + F) = (c2 + F) + 1 := by omega
                  rw [e2, runStack_close, hi]
                  simp only
                  exact hrun2 F

/-- The explicit-stack loop and the recursive decoder are the same function. -/
theorem decodeMetadataIter_eq (ae : Bool) (bs : Bytes) :
    decodeMetadataIter ae bs = decodeNode ae (kMaxSubmetadataLevel + 3) false 0 bs := by
  unfold decodeMetadataIter
  rw [decodeNode_eq_open ae [] (kMaxSubmetadataLevel + 2) false 0 bs]
  cases ho : openNode ae [] false 0 bs with
  | none => rfl
  | some q =>
    obtain ⟨fr, bs3⟩ := q
    obtain ⟨nm, es, acc, k, lvl⟩ := fr
    have hflds := openNode_fields ae [] false 0 bs _ bs3 ho
    simp only [Bool.false_eq_true, if_false] at hflds
    obtain ⟨rfl, rfl, rfl⟩ := hflds
    simp only
    have hlv : ¬ (k ≠ 0 ∧ 0 > kMaxSubmetadataLevel) := fun h => by omega
    rw [if_neg hlv]
    have hsim := subsSim ae (kMaxSubmetadataLevel + 2) 0 k (by omega) (fun _ => Nat.zero_le _)
      [] bs3 [] es []
    cases hs : decodeSubsWith (decodeNode ae (kMaxSubmetadataLevel + 2) true 0) k [] bs3 with
    | none =>
      rw [hs] at hsim
      exact hsim _
    | some r =>
      obtain ⟨ss, bs4⟩ := r
      rw [hs] at hsim
      simp only at hsim ⊢
      obtain ⟨hlen, c, hc, hrun⟩ := hsim
      have e : bs3.length + 1 = c + ((bs3.length - c) + 1) := by omega
      rw [e, hrun]
      simp [runStack]

theorem decodeMetadataIter_eq_decodeMetadata : decodeMetadataIter false = decodeMetadata :=
  funext fun bs => decodeMetadataIter_eq false bs

theorem decodeMetadataIter_eq_decodeMetadataFixed : decodeMetadataIter true = decodeMetadataFixed :=
  funext fun bs => decodeMetadataIter_eq true bs

end Draco
