import DracoProofs.EbSplitFreeFinal
/-
  The two side conditions of the monadic decoder glue `DecSim.decLoopSt_of_trace` for a split-free encoder run:

  * (A) `hv_of_run`: the pure decoder creates at most `num_vertices − num_isolated` vertices;
  * (B, pure decoder half) `stack_size_St`: the active-corner stack of `St syms n maxV j` has one entry per symbol `E` among
    the first `j` symbols; `hsfb_of_count`: with boundary start faces only and `startFaces.size = #E`, the start-face
    bits are `List.replicate stack.size false`;
  * `splitfree_hyps`: both, from the run, `hnoS`, `hstart` and the ONE named encoder fact
    `hE : conn.startFaces.size = conn.symbols.toList.count 7` (one start-face flag per symbol `E`).
-/
namespace Draco.EbEnc.SplitFreeClose
open Draco Draco.EbEnc Draco.EbEnc.DecSim
open Draco.Eb (inv topoS)
open Draco.EbEnc.Coverage (TblOK)

/-! ## (B) pure decoder: the stack counts the symbols `E` -/

theorem step_stack_size (sym j : Nat) (s : DS) :
    (step sym j s).stack.size = s.stack.size + if sym = 7 then 1 else 0 := by
  unfold step
  by_cases h7 : sym = 7
  · rw [if_pos h7, if_pos h7]
    show (s.stack.push (3 * j)).size = _
    rw [Array.size_push]
  · rw [if_neg h7, if_neg h7]
    by_cases h5 : sym = 5
    · rw [if_pos h5]; show (s.stack.set! _ _).size = _; rw [size_set]; rfl
    · rw [if_neg h5]
      by_cases h3 : sym = 3
      · rw [if_pos h3]; show (s.stack.set! _ _).size = _; rw [size_set]; rfl
      · rw [if_neg h3]; show (s.stack.set! _ _).size = _; rw [size_set]; rfl

theorem count_take_succ (syms : List Nat) (j : Nat) (hj : j < syms.length) :
    (syms.take (j + 1)).count 7 = (syms.take j).count 7 + if syms[j]! = 7 then 1 else 0 := by
  rw [List.take_succ, List.count_append]
  have e1 : syms[j]? = some syms[j] := List.getElem?_eq_getElem hj
  have e2 : syms[j]! = syms[j] := by simp [hj]
  rw [e1, e2]
  by_cases h : syms[j] = 7
  · simp [h]
  · simp [h]

/-- the active-corner stack after `j` symbols has one entry per `E` decoded so far -/
theorem stack_size_St (syms : List Nat) (n maxV : Nat) :
    ∀ j, j ≤ syms.length → (St syms n maxV j).stack.size = (syms.take j).count 7
  | 0, _ => by simp [St, DS.init]
  | j+1, h => by
    show (step syms[j]! j (St syms n maxV j)).stack.size = _
    rw [step_stack_size, stack_size_St syms n maxV j (by omega), count_take_succ syms j (by omega)]

theorem stack_size_St_all (syms : List Nat) (n maxV : Nat) (hn : n = syms.length) :
    (St syms n maxV n).stack.size = syms.count 7 := by
  rw [stack_size_St syms n maxV n (by omega), hn, List.take_length]

/-- a list of `false` -/
theorem eq_replicate_false (l : List Bool) (h : ∀ b, b ∈ l → b = false) : l = List.replicate l.length false :=
  List.eq_replicate_iff.mpr ⟨rfl, h⟩


/-! ## (A) the vertex bound -/

/-- **(A) `hv`**: the pure decoder creates at most `num_vertices − num_isolated` vertices (for ANY size `maxV` of the hole
    array) -/
theorem hv_of_run (ch : ConnChoices) (pf : Faces) (conn : ConnEnc)
    (h : encodeConnectivity ch false pf #[] = .ok conn)
    (hnoS : ∀ x, x ∈ conn.symbols.toList → x ≠ topoS)
    (hstart : ∀ b, b ∈ conn.startFaces.toList → b = false) (maxV : Nat) :
    (St conn.symbols.toList.reverse conn.processed.size maxV conn.processed.size).vc.size ≤
      conn.ct.numVertices - conn.ct.numIsolated := by
  obtain ⟨hTr, hT, _⟩ := EncTrace.trace_of_run ch pf conn h hnoS hstart
  obtain ⟨hcov, hvlt⟩ := EncTrace.cover_of_run ch false pf #[] conn h
  rw [CountsIso.usedVerts_count_of_run h]
  exact DecSimHole.vc_size_St_le hT hTr maxV hcov hvlt

/-! ## (B) the start-face bits -/

/-- **(B) `hsfb`** from the count: with boundary start faces only and one start-face flag per symbol `E`, the start-face
    bits are `false`, one per entry of the pure decoder's final stack -/
theorem hsfb_of_count (ch : ConnChoices) (pf : Faces) (conn : ConnEnc)
    (h : encodeConnectivity ch false pf #[] = .ok conn)
    (hnoS : ∀ x, x ∈ conn.symbols.toList → x ≠ topoS)
    (hstart : ∀ b, b ∈ conn.startFaces.toList → b = false)
    (hE : conn.startFaces.size = conn.symbols.toList.count 7) (maxV : Nat) :
    conn.startFaces.toList =
      List.replicate (St conn.symbols.toList.reverse conn.processed.size maxV conn.processed.size).stack.size false := by
  obtain ⟨_, _, hsz⟩ := EncTrace.trace_of_run ch pf conn h hnoS hstart
  rw [stack_size_St_all _ _ _ (by simp; omega), List.count_reverse, ← hE]
  have := eq_replicate_false conn.startFaces.toList hstart
  simpa using this

/-- **the side conditions of `DecSim.decLoopSt_of_trace`** for a split-free run: the trace, `TblOK`, `hv` and `hsfb`, from
    the run, `hnoS`, `hstart` and the named encoder fact `hE` (one start-face flag per symbol `E`) -/
theorem splitfree_hyps (ch : ConnChoices) (pf : Faces) (conn : ConnEnc)
    (h : encodeConnectivity ch false pf #[] = .ok conn)
    (hnoS : ∀ x, x ∈ conn.symbols.toList → x ≠ topoS)
    (hstart : ∀ b, b ∈ conn.startFaces.toList → b = false)
    (hE : conn.startFaces.size = conn.symbols.toList.count 7) :
    TblOK conn.ct ∧ Trace conn.ct conn.processed conn.symbols.toList.reverse ∧
    (St conn.symbols.toList.reverse conn.processed.size (conn.ct.numVertices - conn.ct.numIsolated)
        conn.processed.size).vc.size ≤ conn.ct.numVertices - conn.ct.numIsolated ∧
    conn.startFaces.toList = List.replicate (St conn.symbols.toList.reverse conn.processed.size
        (conn.ct.numVertices - conn.ct.numIsolated) conn.processed.size).stack.size false := by
  obtain ⟨hTr, hT, _⟩ := EncTrace.trace_of_run ch pf conn h hnoS hstart
  exact ⟨hT, hTr, hv_of_run ch pf conn h hnoS hstart _, hsfb_of_count ch pf conn h hnoS hstart hE _⟩

end Draco.EbEnc.SplitFreeClose
