import DracoModel.SeqDecoder
/-
  Generic facts about the instrumented decoder monad `DecM` used by the robustness properties
  (C02 status discipline, C03 validity of accepted geometry, C18 allocation bound).
-/
namespace Draco.Robust
open Draco Draco.DecM

/-! ### success path of the combinators -/

theorem bind_ok {α β} {m : DecM α} {f : α → DecM β} {s : DSt} {b : β} {s' : DSt}
    (h : (m >>= f) s = (some b, s')) : ∃ a s1, m s = (some a, s1) ∧ f a s1 = (some b, s') := by
  simp only [bind, DecM.andThen] at h
  split at h
  · simp at h
  · rename_i a s1 heq
    exact ⟨a, s1, heq, h⟩

theorem pure_ok {α} {a b : α} {s s' : DSt} (h : (pure a : DecM α) s = (some b, s')) : b = a ∧ s' = s := by
  simp only [pure, DecM.ret] at h
  cases h; exact ⟨rfl, rfl⟩

theorem require_ok {c : Bool} {u : Unit} {s s' : DSt} (h : require c s = (some u, s')) : c = true ∧ s' = s := by
  unfold require at h
  split at h
  · rename_i hc; simp only [DecM.ret] at h; cases h; exact ⟨hc, rfl⟩
  · simp [DecM.fail] at h

theorem fail_ok {α} {a : α} {s s' : DSt} (h : (DecM.fail : DecM α) s = (some a, s')) : False := by
  simp [DecM.fail] at h

theorem failWith_ok {α} {st : Status} {a : α} {s s' : DSt} (h : (DecM.failWith st : DecM α) s = (some a, s')) : False := by
  simp [DecM.failWith] at h

theorem lift_ok {α} {r : Rd α} {a : α} {s s' : DSt} (h : lift r s = (some a, s')) :
    ∃ rest, r s.rest = some (a, rest) ∧ s' = { s with rest := rest } := by
  unfold lift at h
  split at h
  · simp at h
  · rename_i a' rest heq
    cases h
    exact ⟨rest, heq, rfl⟩

theorem remaining_ok {n : Nat} {s s' : DSt} (h : remaining s = (some n, s')) : n = s.rest.length ∧ s' = s := by
  simp only [remaining] at h; cases h; exact ⟨rfl, rfl⟩

theorem version_ok {n : Nat} {s s' : DSt} (h : version s = (some n, s')) : n = s.version ∧ s' = s := by
  simp only [version] at h; cases h; exact ⟨rfl, rfl⟩

theorem ofOption_ok {α} {o : Option α} {a : α} {s s' : DSt} (h : ofOption o s = (some a, s')) : o = some a ∧ s' = s := by
  cases o with
  | none => simp [ofOption, DecM.fail] at h
  | some x => simp only [ofOption, DecM.ret] at h; cases h; exact ⟨rfl, rfl⟩

/-- `mapM'` on the success path: every output is produced from the corresponding input by a
    successful run of `f` (from some state). -/
theorem mapM'_ok {α β} (f : α → DecM β) (P : α → Prop) (Q : β → Prop)
    (hf : ∀ a s b s', P a → f a s = (some b, s') → Q b) :
    ∀ (l : List α) (s : DSt) (l' : List β) (s' : DSt), (∀ a ∈ l, P a) → mapM' f l s = (some l', s') →
      l'.length = l.length ∧ ∀ b ∈ l', Q b := by
  intro l
  induction l with
  | nil =>
    intro s l' s' _ h
    simp only [mapM'] at h
    obtain ⟨rfl, _⟩ := pure_ok h
    exact ⟨rfl, by simp⟩
  | cons a as ih =>
    intro s l' s' hP h
    simp only [mapM'] at h
    obtain ⟨b, s1, h1, h⟩ := bind_ok h
    obtain ⟨bs, s2, h2, h⟩ := bind_ok h
    obtain ⟨rfl, _⟩ := pure_ok h
    have hb := hf a s b s1 (hP a (by simp)) h1
    obtain ⟨hl, hq⟩ := ih s1 bs s2 (fun x hx => hP x (by simp [hx])) h2
    refine ⟨by simp [hl], ?_⟩
    intro x hx
    rcases List.mem_cons.mp hx with rfl | hx
    · exact hb
    · exact hq x hx

theorem replicateM'_ok {α} (f : DecM α) (Q : α → Prop) (hf : ∀ s a s', f s = (some a, s') → Q a)
    (n : Nat) (s : DSt) (l : List α) (s' : DSt) (h : replicateM' n f s = (some l, s')) :
    l.length = n ∧ ∀ a ∈ l, Q a := by
  unfold replicateM' at h
  have := mapM'_ok (fun _ : Unit => f) (fun _ => True) Q (fun _ s b s' _ hh => hf s b s' hh)
    (List.replicate n ()) s l s' (fun _ _ => trivial) h
  simpa using this

end Draco.Robust
