import DracoProofs.KdTreeValid
import DracoProofs.KdTreeFinal
/-
  C10 on the kd-tree path: `Kd.decodeKdGeometry opts` looks at `opts.skip` only in the very last,
  pure step (`TransformAttributesToOriginalFormat`: `finishAttribute`).  Every accepted run is
  therefore determined by option-independent "parts"; the skipped and the ordinary decode end in
  the same state and differ only in how the parts of float attributes are finished.
-/
namespace Draco.Kd
open DecM

/-- what `DecodePortableAttributes` + `DecodeDataNeededByPortableTransforms` of one attributes
    decoder leave behind: the attribute tuples, the transform data and the decoded points -/
structure KdParts where
  kas : List KdAtt
  ts : List KdTransform
  pts : List (List Nat)
  /-- `total_dimensionality` -/
  dim : Nat

/-- `TransformAttributesToOriginalFormat` -/
def finishParts (opts : DecOpts) (n : Nat) (p : KdParts) : List Attribute :=
  zip3With (finishAttribute opts n) p.kas p.ts (p.kas.map fun ka => p.pts.map (attRow ka))

/-- quantization bit counts accepted by `IsQuantizationValid` -/
def BitsOK : KdTransform → Prop
  | .quant bits _ _ => 1 ≤ bits ∧ bits ≤ 30
  | _ => True

structure KdParts.OK (n : Nat) (p : KdParts) : Prop where
  atts : ∀ ka ∈ p.kas, KdAttOK p.dim ka
  rel : List.Forall₂ TransOK p.kas p.ts
  bits : ∀ t ∈ p.ts, BitsOK t
  npts : p.pts.length = n
  ptLen : ∀ q ∈ p.pts, q.length = p.dim

theorem decodeQuantParams_bits : ∀ (kas : List KdAtt) (s s' : DSt) (ts : List KdTransform),
    decodeQuantParams kas s = (some ts, s') → ∀ t ∈ ts, BitsOK t := by
  intro kas
  induction kas with
  | nil =>
    intro s s' ts h
    simp only [decodeQuantParams, pure, ret, Prod.mk.injEq, Option.some.injEq] at h
    rw [← h.1]; simp
  | cons ka kas ih =>
    intro s s' ts h
    simp only [decodeQuantParams] at h
    obtain ⟨t, s1, ht, h⟩ := bind_some h
    obtain ⟨ts', s2, hts, h⟩ := bind_some h
    simp only [pure, ret, Prod.mk.injEq, Option.some.injEq] at h
    rw [← h.1]
    intro x hx
    simp only [List.mem_cons] at hx
    rcases hx with rfl | hx
    · unfold quantParamsOf at ht
      split at ht
      · obtain ⟨mins, u1, _, ht⟩ := bind_some ht
        obtain ⟨range, u2, _, ht⟩ := bind_some ht
        obtain ⟨bits, u3, _, ht⟩ := bind_some ht
        obtain ⟨_, u4, _, ht⟩ := bind_some ht
        obtain ⟨_, u5, hr, ht⟩ := bind_some ht
        simp only [pure, ret, Prod.mk.injEq, Option.some.injEq] at ht
        rw [← ht.1]
        have := (require_some hr).1
        simpa [BitsOK] using this
      · simp only [pure, ret, Prod.mk.injEq, Option.some.injEq] at ht
        rw [← ht.1]; trivial
    · exact ih s1 s2 ts' hts x hx

theorem decodeSignedMins_bits : ∀ (kas : List KdAtt) (ts : List KdTransform) (s s' : DSt)
    (ts' : List KdTransform), (∀ t ∈ ts, BitsOK t) → decodeSignedMins kas ts s = (some ts', s') →
    ∀ t ∈ ts', BitsOK t := by
  intro kas
  induction kas with
  | nil =>
    intro ts s s' ts' _ h
    simp only [decodeSignedMins, pure, ret, Prod.mk.injEq, Option.some.injEq] at h
    rw [← h.1]; simp
  | cons ka kas ih =>
    intro ts s s' ts' hb h
    cases ts with
    | nil =>
      simp only [decodeSignedMins, pure, ret, Prod.mk.injEq, Option.some.injEq] at h
      rw [← h.1]; simp
    | cons t ts =>
      simp only [decodeSignedMins] at h
      obtain ⟨t', s1, ht, h⟩ := bind_some h
      obtain ⟨ts2, s2, hts, h⟩ := bind_some h
      simp only [pure, ret, Prod.mk.injEq, Option.some.injEq] at h
      rw [← h.1]
      intro x hx
      simp only [List.mem_cons] at hx
      rcases hx with rfl | hx
      · unfold signedMinsOf at ht
        split at ht
        · obtain ⟨mins, u1, _, ht⟩ := bind_some ht
          simp only [pure, ret, Prod.mk.injEq, Option.some.injEq] at ht
          rw [← ht.1]; trivial
        · simp only [pure, ret, Prod.mk.injEq, Option.some.injEq] at ht
          rw [← ht.1]; exact hb t (by simp)
      · exact ih ts s1 s2 ts2 (fun y hy => hb y (by simp [hy])) hts x hx

/-- an accepted run of one attributes decoder, for ANY options: the same parts, the same final
    state, only the last step differs -/
theorem decodeKdAttributes_parts (opts : DecOpts) (numPoints : Nat) (descs : List AttDesc) (s s' : DSt)
    (atts : List Attribute) (hnc : ∀ d ∈ descs, 1 ≤ d.numComponents)
    (h : decodeKdAttributes opts numPoints descs s = (some atts, s')) :
    ∃ p : KdParts, p.OK numPoints ∧
      ∀ o : DecOpts, decodeKdAttributes o numPoints descs s = (some (finishParts o numPoints p), s') := by
  unfold decodeKdAttributes at h
  obtain ⟨level, s1, h1, h⟩ := bind_some h
  obtain ⟨_, s2, h2, h⟩ := bind_some h
  obtain ⟨cl, s3, hcl, h⟩ := bind_some h
  simp only at h
  obtain ⟨_, s4, h4, h⟩ := bind_some h
  obtain ⟨_, s5, h5, h⟩ := bind_some h
  obtain ⟨_, s6, h6, h⟩ := bind_some h
  obtain ⟨_, s7, h7, h⟩ := bind_some h
  obtain ⟨_, s8, h8, h⟩ := bind_some h
  obtain ⟨_, s9, h9, h⟩ := bind_some h
  obtain ⟨dp, s10, hdp, h⟩ := bind_some h
  obtain ⟨_, s11, hreq, h⟩ := bind_some h
  obtain ⟨ts1, s12, hq, h⟩ := bind_some h
  obtain ⟨ts2, s13, hsm, h⟩ := bind_some h
  simp only [pure, ret, Prod.mk.injEq, Option.some.injEq] at h
  obtain ⟨_, hkas⟩ := classify_ok numPoints descs 0 s2 s3 cl hnc hcl
  obtain ⟨dp1, dp2⟩ := dp
  obtain ⟨hp1, hp2⟩ := decodePoints_out level cl.2 numPoints s9 s10 dp1 dp2 hdp
  have hn : dp1 = numPoints := by
    have := (require_some hreq).1
    simpa using this
  have hrel := decodeSignedMins_ok cl.1 ts1 s12 s13 ts2 (fun ka hka => (hkas ka hka).kind)
    (decodeQuantParams_ok cl.1 s11 s12 ts1 hq) hsm
  have hbits := decodeSignedMins_bits cl.1 ts1 s12 s13 ts2 (decodeQuantParams_bits cl.1 s11 s12 ts1 hq) hsm
  refine ⟨⟨cl.1, ts2, dp2, cl.2⟩, ⟨hkas, hrel, hbits, by simp only; omega, hp2⟩, ?_⟩
  intro o
  unfold decodeKdAttributes
  simp only [bind_apply, h1, h2, hcl, h4, h5, h6, h7, h8, h9, hdp, hreq, hq, hsm, finishParts]
  rw [← h.2]
  rfl

/-- … for all attributes decoders of the stream -/
theorem mapM'_decodeKdAttributes_parts (opts : DecOpts) (n : Nat) : ∀ (l : List (List AttDesc)) (s s' : DSt)
    (attss : List (List Attribute)), (∀ ds ∈ l, ∀ d ∈ ds, 1 ≤ d.numComponents) →
    mapM' (decodeKdAttributes opts n) l s = (some attss, s') →
    ∃ ps : List KdParts, (∀ p ∈ ps, p.OK n) ∧
      ∀ o : DecOpts, mapM' (decodeKdAttributes o n) l s = (some (ps.map (finishParts o n)), s') := by
  intro l
  induction l with
  | nil =>
    intro s s' attss _ h
    simp only [mapM', pure, ret, Prod.mk.injEq, Option.some.injEq] at h
    refine ⟨[], by simp, fun o => ?_⟩
    simp only [mapM', List.map_nil, pure, ret, Prod.mk.injEq, true_and]
    exact h.2
  | cons ds l ih =>
    intro s s' attss hnc h
    simp only [mapM'] at h
    obtain ⟨b, s1, h1, h⟩ := bind_some h
    obtain ⟨bs, s2, h2, h⟩ := bind_some h
    simp only [pure, ret, Prod.mk.injEq, Option.some.injEq] at h
    obtain ⟨p, pok, preplay⟩ := decodeKdAttributes_parts opts n ds s s1 b (hnc ds (by simp)) h1
    obtain ⟨ps, psok, psreplay⟩ := ih s1 s2 bs (fun x hx => hnc x (by simp [hx])) h2
    refine ⟨p :: ps, ?_, fun o => ?_⟩
    · intro x hx
      simp only [List.mem_cons] at hx
      rcases hx with rfl | hx
      · exact pok
      · exact psok x hx
    · simp only [mapM', bind_apply, preplay o, psreplay o, List.map_cons]
      rw [← h.2]
      rfl

/-- **the kd-tree body decoder under `SetSkipAttributeTransform`**: if it accepts with some options
    it accepts with all, ends in the same state, and the geometries are the same parts finished
    with the respective options -/
theorem decodeKdGeometry_parts (opts : DecOpts) (s s' : DSt) (g : Geometry)
    (hv : ¬ s.version < bsVersion 2 3)
    (h : decodeKdGeometry opts s = (some g, s')) :
    ∃ (n : Nat) (ps : List KdParts), (∀ p ∈ ps, p.OK n) ∧
      ∀ o : DecOpts, decodeKdGeometry o s =
        (some { isMesh := false, numPoints := n, faces := [],
                atts := (ps.map (finishParts o n)).flatten }, s') := by
  unfold decodeKdGeometry at h
  obtain ⟨ver, s1, h1, h⟩ := bind_some h
  have hver1 : ver = s.version := by
    simp only [version, Prod.mk.injEq, Option.some.injEq] at h1
    exact h1.1.symm
  have hver : ¬ ver < bsVersion 2 3 := by rw [hver1]; exact hv
  rw [if_neg hver] at h
  obtain ⟨np, s2, h2, h⟩ := bind_some h
  obtain ⟨_, s3, h3, h⟩ := bind_some h
  simp only at h
  obtain ⟨_, s4, h4, h⟩ := bind_some h
  obtain ⟨atts, s5, hatts, h⟩ := bind_some h
  simp only [pure, ret, Prod.mk.injEq, Option.some.injEq] at h
  unfold decodePointAttributesKd at hatts
  obtain ⟨nd, t1, g1, hatts⟩ := bind_some hatts
  obtain ⟨descss, t2, hds, hatts⟩ := bind_some hatts
  obtain ⟨attss, t3, hmap, hatts⟩ := bind_some hatts
  simp only [pure, ret, Prod.mk.injEq, Option.some.injEq] at hatts
  have hd := (replicateM'_spec decodeAttDescs (fun ds => ∀ d ∈ ds, 1 ≤ d.numComponents)
    (fun s b s' hb => decodeAttDescs_nc s s' b hb) nd t1 descss t2 hds).2
  obtain ⟨ps, psok, psreplay⟩ := mapM'_decodeKdAttributes_parts opts np.toNat descss t2 t3 attss hd hmap
  refine ⟨np.toNat, ps, psok, fun o => ?_⟩
  unfold decodeKdGeometry decodePointAttributesKd
  simp only [bind_apply, h1, if_neg hver, h2, h3, h4, g1, hds, psreplay o]
  rw [← h.2, ← hatts.2]
  rfl

/-! ### bitstreams older than 2.3: the options are not looked at -/

/-- below 2.3 `TransformAttributesToOriginalFormat` has nothing to do (no portable attributes, no
    signed minima): the decode does not depend on the options at all -/
theorem decodeKdGeometry_legacy_eq (opts : DecOpts) (s : DSt) (hv : s.version < bsVersion 2 3) :
    decodeKdGeometry opts s = decodeKdGeometryLegacy s := by
  unfold decodeKdGeometry
  simp only [bind_apply, version, if_pos hv]

section legacy
open Draco.Robust

theorem post_decodeLegacyFloat_plain (legacy : Bool) (numPoints : Nat) (ka : KdAtt) :
    Post (decodeLegacyFloat legacy numPoints ka) (fun a => a.transform = .none) := by
  unfold decodeLegacyFloat
  apply post_bind_any; intro _
  apply post_bind_any; intro _
  apply post_bind_any; intro _
  apply post_bind_any; intro _
  apply post_bind_any; intro _
  apply post_bind_any; intro _
  apply post_bind_any; intro _
  exact post_pure rfl

theorem post_decodeLegacyInt_plain (legacy : Bool) (numPoints : Nat) (kas : List KdAtt) (dim : Nat) :
    Post (decodeLegacyInt legacy numPoints kas dim) (fun atts => ∀ a ∈ atts, a.transform = .none) := by
  unfold decodeLegacyInt
  apply post_bind_any; intro _
  apply post_bind_any; intro _
  apply post_bind_any; intro _
  apply post_bind_any; intro _
  apply post_bind_any; intro _
  apply post_bind_any; intro _
  apply post_bind_any; intro _
  apply post_bind_any; intro _
  apply post_bind_any; intro _
  apply post_pure
  intro a ha
  simp only [List.mem_map] at ha
  obtain ⟨ka, _, rfl⟩ := ha
  rfl

theorem post_decodeKdAttributesLegacy_plain (numPoints : Nat) (descs : List AttDesc) :
    Post (decodeKdAttributesLegacy numPoints descs) (fun atts => ∀ a ∈ atts, a.transform = .none) := by
  unfold decodeKdAttributesLegacy
  apply post_bind_any; intro _
  cases hcl : classifyLegacy descs 0 with
  | none => exact post_fail
  | some cl =>
    simp only
    apply post_bind_any; intro ver
    apply post_bind_any; intro method
    unfold decodeLegacyMethod
    apply post_ite
    · intro _
      rcases hk1 : cl.1 with _ | ⟨ka, _ | ⟨kb, rest⟩⟩
      · exact post_fail
      · simp only
        apply post_ite
        · intro _
          refine post_bind (post_decodeLegacyFloat_plain _ numPoints ka) ?_
          intro a ha
          apply post_pure
          intro x hx
          simp only [List.mem_singleton] at hx
          rw [hx]; exact ha
        · intro _; exact post_fail
      · exact post_fail
    · intro _
      apply post_ite
      · intro _; exact post_decodeLegacyInt_plain _ numPoints cl.1 cl.2
      · intro _; exact post_fail

/-- the geometry of a legacy kd-tree stream is a point cloud without faces whose attributes carry
    no transform data -/
theorem decodeKdGeometryLegacy_plain (s s' : DSt) (g : Geometry)
    (h : decodeKdGeometryLegacy s = (some g, s')) :
    g.isMesh = false ∧ g.faces = [] ∧ ∀ a ∈ g.atts, a.transform = .none := by
  have hpost : Post decodeKdGeometryLegacy
      (fun g => g.isMesh = false ∧ g.faces = [] ∧ ∀ a ∈ g.atts, a.transform = .none) := by
    unfold decodeKdGeometryLegacy
    apply post_bind_any; intro np
    apply post_bind_any; intro _
    apply post_bind_any; intro _
    refine post_bind (P := fun atts => ∀ a ∈ atts, a.transform = .none) ?_ ?_
    · unfold decodePointAttributesKdLegacy
      apply post_bind_any; intro nd
      apply post_bind_any; intro descss
      refine post_bind (post_mapM' (decodeKdAttributesLegacy np.toNat) (fun _ => True) _
        (fun ds _ => post_decodeKdAttributesLegacy_plain np.toNat ds) descss (fun _ _ => trivial)) ?_
      intro attss hatt
      apply post_pure
      intro a ha
      simp only [List.mem_flatten] at ha
      obtain ⟨l, hl, hal⟩ := ha
      exact hatt.2 l hl a hal
    · intro atts hatts
      exact post_pure ⟨rfl, rfl, hatts⟩
  exact hpost s g s' h

end legacy

end Draco.Kd
