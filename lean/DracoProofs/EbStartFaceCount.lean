import DracoProofs.EbCoverage
import DracoProofs.EbSplitFreeLink
/-
  ONE START-FACE FLAG PER SYMBOL `E`: in a run of `EncodeConnectivity` that pushed no symbol `S`, the number of recorded
  start-face configurations equals the number of symbols `E` (`sfcount_of_main`).

  Every call of `EncodeConnectivityFromCorner` pushes one start-face flag, starts at a valid corner of an unvisited face
  (`StartOK`, `Link` + the visited faces being closed under adjacency for a boundary start; the three neighbours of an
  interior start face are unvisited), and — without a split — ends exactly at its symbol `E`: `E` is the only symbol
  that pops the stack, and the traversal loop cannot run into its bound, because every step visits a NEW face
  (`vcount`) and a `C` step continues at a valid corner (the fan of a vertex that is not on a hole is closed,
  `TblOK.fan_closed`).
-/
namespace Draco.EbEnc.StartFaceCount
open Draco
open Draco.Eb hiding nextC prevC iabs
open Draco.EbEnc.EncCounts Draco.EbEnc.Coverage AttViews

/-! ## symbols -/

def noS (sy : Array Nat) : Prop := ∀ x, x ∈ sy.toList → x ≠ topoS
def cE (sy : Array Nat) : Nat := sy.toList.count topoE

theorem noS_of_push {sy : Array Nat} {x : Nat} (h : noS (sy.push x)) : noS sy ∧ x ≠ topoS :=
  ⟨fun y hy => h y (by rw [Array.toList_push]; exact List.mem_append_left _ hy), h x (by simp)⟩

theorem cE_push_ne {sy : Array Nat} {x : Nat} (h : x ≠ topoE) : cE (sy.push x) = cE sy := by
  unfold cE
  rw [Array.toList_push, List.count_append]
  have : [x].count topoE = 0 := by
    rw [List.count_eq_zero]; simp; exact fun e => h e.symm
  omega

theorem cE_push_E (sy : Array Nat) : cE (sy.push topoE) = cE sy + 1 := by
  unfold cE
  rw [Array.toList_push, List.count_append]
  simp

/-! ## a closed fan has a left neighbour -/

theorem opp_next_of_closed {N : Nat} {opp : Array Nat} (hb : BaseTbl N opp) {c : Nat} (hc : c < N)
    (hcl : ∀ k, iter (sRP opp) k c ≠ inv) : opp[Eb.nextC c]! ≠ inv := by
  intro ho
  obtain ⟨Pd, hO, _⟩ := CountsIso.orbit_exists hb hc
  have hper : iter (sRP opp) Pd c = c := by
    rcases hO.fin with h | h
    · exact absurd h (hcl _)
    · exact h
  have hpos := hO.pos
  have em : Pd = (Pd - 1) + 1 := by omega
  rw [em, iter_succ'] at hper
  have hci := hb.ne_inv hc
  have hylt := AP.iter_sR_lt hb hc _ (hcl (Pd - 1))
  obtain ⟨-, hsl⟩ := hb.sR_sL hylt hper hci
  have : sLP opp c = inv := by simp [sLP, hci, ho, nextC_inv]
  rw [this] at hsl
  exact hcl _ hsl.symm

/-! ## the shape of one traversal step -/

/-- after the `C` case: `R` / `L` continue at a valid corner with the stack unchanged, `E` pops the stack, `S` pushes
    the symbol `S` -/
theorem innerTail_shape {t : CT} {holeId : Array Nat} {valence : Bool} {vf' vh : Array Bool} {P' : Array Nat}
    {splits : Array TopoSplit} {f2s : Array Nat} {lsid : Int} {nss : Nat} {stack : Array Nat}
    {nv face lastCorner vertId : Nat} {onB : Bool} {vv1 : Array Bool} {val : ValEnc} {sy : Array Nat}
    {c : Nat} {r : ForInStep InSt}
    (hb : innerTail t holeId valence vf' vh P' splits f2s lsid nss stack nv face lastCorner vertId onB () vv1 val sy c
      = .ok r) :
    (∃ s' : InSt, r = .yield s' ∧ s'.1 = vf' ∧ s'.2.2.2.2.2.2.2.2.2.2.1 = stack ∧ s'.2.2.2.2.2.2.2.2.2.2.2.2 = nv ∧
      s'.2.2.2.2.2.2.2.2.2.2.2.1 ≠ inv ∧ ∃ x, x ≠ topoE ∧ s'.2.2.2.2.1 = sy.push x) ∨
    (∃ s' : InSt, r = .done s' ∧ ((s'.2.2.2.2.1 = sy.push topoE ∧ s'.2.2.2.2.2.2.2.2.2.2.1 = stack.pop) ∨
      s'.2.2.2.2.1 = sy.push topoS)) := by
  unfold innerTail at hb
  try simp only [] at hb
  obtain ⟨rc, hR, hb⟩ := (bind_ok_iff _ _ _).mp hb
  obtain ⟨lc, hL, hb⟩ := (bind_ok_iff _ _ _).mp hb
  obtain ⟨rv, hb, hrv1, hrv2⟩ := visited_absorb hb
  obtain ⟨lv, hb, hlv1, hlv2⟩ := visited_absorb hb
  have hRne : rv = false → rc ≠ inv := by
    intro e hn
    have := hrv2 (by simp [hn])
    rw [e] at this; cases this
  have hLne : lv = false → lc ≠ inv := by
    intro e hn
    have := hlv2 (by simp [hn])
    rw [e] at this; cases this
  rcases ite_ok hb with ⟨hrvt, hb⟩ | ⟨hrvf, hb⟩
  · over_splits hb =>
      rcases ite_ok hb with ⟨hlvt, hb⟩ | ⟨hlvf, hb⟩
      · -- E
        over_splits hb =>
          obtain ⟨val1, hb⟩ := ite_bind_absorb hb
          exact Or.inr ⟨_, pure_ok hb, Or.inl ⟨rfl, rfl⟩⟩
      · -- R
        obtain ⟨val1, hb⟩ := ite_bind_absorb hb
        exact Or.inl ⟨_, pure_ok hb, rfl, rfl, rfl, hLne (by simpa using hlvf), topoR, by decide, rfl⟩
  · rcases ite_ok hb with ⟨hlvt, hb⟩ | ⟨hlvf, hb⟩
    · -- L
      over_splits hb =>
        obtain ⟨val1, hb⟩ := ite_bind_absorb hb
        exact Or.inl ⟨_, pure_ok hb, rfl, rfl, rfl, hRne (by simpa using hrvf), topoL, by decide, rfl⟩
    · -- S
      obtain ⟨val1, hb⟩ := ite_bind_absorb hb
      rcases ite_ok hb with ⟨_, hb⟩ | ⟨_, hb⟩
      · obtain ⟨hole, _, hb⟩ := (bind_ok_iff _ _ _).mp hb
        obtain ⟨hv, _, hb⟩ := (bind_ok_iff _ _ _).mp hb
        rcases ite_ok hb with ⟨_, hb⟩ | ⟨_, hb⟩
        · obtain ⟨x, hx, hb⟩ := (bind_ok_iff _ _ _).mp hb
          obtain ⟨vv2, vh2⟩ := x
          obtain ⟨f2s', _, hb⟩ := (bind_ok_iff _ _ _).mp hb
          exact Or.inr ⟨_, pure_ok hb, Or.inr rfl⟩
        · obtain ⟨f2s', _, hb⟩ := (bind_ok_iff _ _ _).mp hb
          exact Or.inr ⟨_, pure_ok hb, Or.inr rfl⟩
      · obtain ⟨f2s', _, hb⟩ := (bind_ok_iff _ _ _).mp hb
        exact Or.inr ⟨_, pure_ok hb, Or.inr rfl⟩

/-- one traversal step below the bound: the face of the current corner is marked; `C` / `R` / `L` continue at a valid
    corner with the stack unchanged, `E` pops the stack, `S` pushes the symbol `S` -/
theorem innerBody_shape {t : CT} (hT : TblOK t) {holeId : Array Nat} (hH : HolesOK t holeId) {valence : Bool} {NF : Nat}
    (x : Nat) (s : InSt) (r : ForInStep InSt) (hlt : s.2.2.2.2.2.2.2.2.2.2.2.2 < NF)
    (hc : s.2.2.2.2.2.2.2.2.2.2.2.1 < t.numCorners) (hnd : isDegenA t.c2v (s.2.2.2.2.2.2.2.2.2.2.2.1 / 3) = false)
    (hb : innerBody t holeId valence NF x s = .ok r) :
    ∃ vf', wrB "visited_faces_" s.1 (s.2.2.2.2.2.2.2.2.2.2.2.1 / 3) true = .ok vf' ∧
    ((∃ s' : InSt, r = .yield s' ∧ s'.1 = vf' ∧ s'.2.2.2.2.2.2.2.2.2.2.1 = s.2.2.2.2.2.2.2.2.2.2.1 ∧
        s'.2.2.2.2.2.2.2.2.2.2.2.2 = s.2.2.2.2.2.2.2.2.2.2.2.2 + 1 ∧
        s'.2.2.2.2.2.2.2.2.2.2.2.1 ≠ inv ∧ ∃ x, x ≠ topoE ∧ s'.2.2.2.2.1 = s.2.2.2.2.1.push x) ∨
     (∃ s' : InSt, r = .done s' ∧ ((s'.2.2.2.2.1 = s.2.2.2.2.1.push topoE ∧
        s'.2.2.2.2.2.2.2.2.2.2.1 = s.2.2.2.2.2.2.2.2.2.2.1.pop) ∨ s'.2.2.2.2.1 = s.2.2.2.2.1.push topoS))) := by
  obtain ⟨vf, vv, vh, val, sy, P, sp, f2s, ls, nss, st, c, nv⟩ := s
  dsimp only at hlt hc hnd ⊢
  have hk := hT.ctok
  have hci : c ≠ inv := hT.base.ne_inv hc
  unfold innerBody at hb
  rcases ite_ok hb with ⟨hge, hb⟩ | ⟨_, hb⟩
  · exfalso; have : nv ≥ NF := hge; omega
  obtain ⟨vf', hvf, hb⟩ := (bind_ok_iff _ _ _).mp hb
  obtain ⟨vertId, hvert, hb⟩ := (bind_ok_iff _ _ _).mp hb
  obtain ⟨hid, hhid, hb⟩ := (bind_ok_iff _ _ _).mp hb
  obtain ⟨vis, hvis, hb⟩ := (bind_ok_iff _ _ _).mp hb
  rw [faceOf_ne hci] at hvf
  refine ⟨vf', hvf, ?_⟩
  rcases ite_ok hb with ⟨hnv, hb⟩ | ⟨hv, hb⟩
  · obtain ⟨vv', hvv', hb⟩ := (bind_ok_iff _ _ _).mp hb
    rcases ite_ok hb with ⟨hnb, hb⟩ | ⟨_, hb⟩
    · -- C
      obtain ⟨val1, hb⟩ := ite_bind_absorb hb
      obtain ⟨o, ho, hb⟩ := (bind_ok_iff _ _ _).mp hb
      have hn : Eb.nextC c < t.numCorners := hk.next_lt hc
      have eo : t.opp[Eb.nextC c]! = o := by
        rw [← vget_eq]; exact (opposite_get (hT.base.ne_inv hn) ho).2
      have hhole : vget holeId (t.c2v[c]!) = inv := by
        have : hid = inv := by simpa using hnb
        rw [← vget_eq, (vertex_get hci hvert).2, ← this]
        exact (rd_get hhid).2
      have hcl := hT.fan_closed hH hc hnd hhole
      have hoi : o ≠ inv := by
        rw [← eo]; exact opp_next_of_closed hT.base hc hcl
      exact Or.inl ⟨_, pure_ok hb, rfl, rfl, rfl, hoi, topoC, by decide, rfl⟩
    · exact innerTail_shape hb
  · exact innerTail_shape hb

/-! ## the traversal loop -/

/-- the traversal loop continues (`k` = the number of start-face flags, `i` = the number of steps of this loop, `A` = a
    side condition of the caller): no `S` so far ⇒ this call has not reached its `E`, the stack is its start corner -/
def JIn (t : CT) (I : Array Nat) (A : Prop) (k i : Nat) (s : InSt) : Prop :=
  IIn t I s ∧ s.2.2.2.2.2.2.2.2.2.2.2.2 = i ∧ i ≤ vcount s.1 t.numFaces ∧ s.2.2.2.2.2.2.2.2.2.2.2.1 ≠ inv ∧
  (noS s.2.2.2.2.1 → A → cE s.2.2.2.2.1 + 1 = k ∧ s.2.2.2.2.2.2.2.2.2.2.1.size = 1)

/-- the traversal loop is left: no `S` ⇒ by `E`, with the stack empty -/
def JQ (t : CT) (I : Array Nat) (A : Prop) (k : Nat) (s : InSt) : Prop :=
  IInQ t I s ∧ (noS s.2.2.2.2.1 → A → cE s.2.2.2.2.1 = k ∧ s.2.2.2.2.2.2.2.2.2.2.1.size = 0)

theorem curOK_valid {t : CT} {vf vv : Array Bool} {c : Nat} (h : CurOK t vf vv c) (hne : c ≠ inv) :
    c < t.c2v.size ∧ isDegenA t.c2v (c / 3) = false ∧ vf.getD (c / 3) false = false := by
  rcases h with e | ⟨e, hun⟩
  · exact absurd e hne
  · rcases e with e | ⟨h1, h2, _⟩
    · exact absurd e hne
    · exact ⟨h1, h2, hun⟩

theorem innerBody_sf {t : CT} (hT : TblOK t) {holeId : Array Nat} (hH : HolesOK t holeId) {valence : Bool}
    {I : Array Nat} {A : Prop} {k : Nat} (j : Nat) (s : InSt) (r : ForInStep InSt) (hj : j < t.numFaces)
    (hJ : JIn t I A k j s) (hb : innerBody t holeId valence t.numFaces j s = .ok r) :
    (∃ s', r = .yield s' ∧ JIn t I A k (j + 1) s') ∨ (∃ s', r = .done s' ∧ JQ t I A k s') := by
  have hk := hT.ctok
  obtain ⟨hI, hnv, hcnt, hci, hK⟩ := hJ
  have h1 := innerBody_inv hk j s r hI hb
  obtain ⟨hInv, _, hCur⟩ := hI
  obtain ⟨hc, hnd, hun⟩ := curOK_valid hCur hci
  obtain ⟨vf', hvf, hsh⟩ := innerBody_shape hT hH j s r (by rw [hnv]; exact hj) hc hnd hb
  obtain ⟨hlt, evf⟩ := wrB_get hvf
  have hcnt' : j + 1 ≤ vcount vf' t.numFaces := by
    rw [evf, vcount_set s.1 _ _ hlt (by rw [← hInv.vfsz]; exact hlt) hun]
    omega
  rcases hsh with ⟨s', e, a1, a2, a3, a4, x, hx, a5⟩ | ⟨s', e, hd⟩
  · left
    rcases h1 with ⟨s'', e1, hs1⟩ | ⟨s'', e1, _⟩
    · rw [e] at e1; cases e1
      refine ⟨s', e, hs1, by rw [a3, hnv], by rw [a1]; exact hcnt', a4, ?_⟩
      intro hn hA
      rw [a5] at hn ⊢
      obtain ⟨g1, g2⟩ := hK (noS_of_push hn).1 hA
      rw [cE_push_ne hx, a2]
      exact ⟨g1, g2⟩
    · rw [e] at e1; cases e1
  · right
    rcases h1 with ⟨s'', e1, _⟩ | ⟨s'', e1, hs1⟩
    · rw [e] at e1; cases e1
    · rw [e] at e1; cases e1
      refine ⟨s', e, hs1, ?_⟩
      intro hn hA
      rcases hd with ⟨b1, b2⟩ | b1
      · rw [b1] at hn ⊢
        obtain ⟨g1, g2⟩ := hK (noS_of_push hn).1 hA
        rw [cE_push_E, b2, Array.size_pop]
        exact ⟨g1, by omega⟩
      · rw [b1] at hn
        exact absurd rfl (noS_of_push hn).2

/-! ## the stack loop -/

/-- what the symbols say about the stack: the call is at its start corner (valid, unvisited face), or it is over -/
def KSt (A : Prop) (k : Nat) (vf : Array Bool) (sy st : Array Nat) : Prop :=
  noS sy → A → (cE sy + 1 = k ∧ st.size = 1 ∧ st.back! ≠ inv ∧ vf.getD (st.back! / 3) false = false) ∨
    (cE sy = k ∧ st.size = 0)

def JSt (t : CT) (I : Array Nat) (A : Prop) (k : Nat) (s : StSt) : Prop :=
  ISt t I s ∧ s.2.2.2.2.2.2.2.2.2.2.2 = false ∧ KSt A k s.1 s.2.2.2.2.1 s.2.2.2.2.2.2.2.2.2.2.1

def JStQ (t : CT) (I : Array Nat) (A : Prop) (k : Nat) (s : StSt) : Prop :=
  ISt t I s ∧ s.2.2.2.2.2.2.2.2.2.2.1.size = 0 ∧ KSt A k s.1 s.2.2.2.2.1 s.2.2.2.2.2.2.2.2.2.2.1

theorem stackBody_sf {t : CT} (hT : TblOK t) {holeId : Array Nat} (hH : HolesOK t holeId) {valence : Bool}
    {I : Array Nat} {A : Prop} {k : Nat} (x : Nat) (s : StSt) (r : ForInStep StSt) (hJ : JSt t I A k s)
    (hb : stackBody t holeId valence t.numFaces x s = .ok r) :
    (∃ s', r = .yield s' ∧ JSt t I A k s') ∨ (∃ s', r = .done s' ∧ JStQ t I A k s') := by
  have hk := hT.ctok
  obtain ⟨hI, hfin, hK⟩ := hJ
  have h1 := stackBody_inv hk x s r hI hb
  obtain ⟨vf, vv, vh, val, sy, P, sp, f2s, ls, nss, st, fin⟩ := s
  obtain ⟨hInv, hSt⟩ := hI
  dsimp only at hInv hSt hfin hK
  subst hfin
  -- combining the shape of the result with `stackBody_inv`
  have yld : ∀ s' : StSt, r = .yield s' → s'.2.2.2.2.2.2.2.2.2.2.2 = false →
      KSt A k s'.1 s'.2.2.2.2.1 s'.2.2.2.2.2.2.2.2.2.2.1 →
      (∃ s', r = .yield s' ∧ JSt t I A k s') ∨ (∃ s', r = .done s' ∧ JStQ t I A k s') := by
    intro s' e f1 f2
    left
    rcases h1 with ⟨s'', e1, hs1⟩ | ⟨s'', e1, _⟩
    · rw [e] at e1; cases e1; exact ⟨s', e, hs1, f1, f2⟩
    · rw [e] at e1; cases e1
  unfold stackBody at hb
  rcases ite_ok hb with ⟨hemp, hb⟩ | ⟨hne, hb⟩
  · right
    have e := pure_ok hb
    rcases h1 with ⟨s'', e1, _⟩ | ⟨s'', e1, hs1⟩
    · rw [e] at e1; cases e1
    · rw [e] at e1; cases e1
      refine ⟨_, e, hs1, ?_, hK⟩
      show st.size = 0
      exact Array.isEmpty_iff_size_eq_zero.mp hemp
  have hpos : 0 < st.size := by
    rcases Nat.eq_zero_or_pos st.size with e | e
    · exact absurd (Array.isEmpty_iff_size_eq_zero.mpr e) hne
    · exact e
  rcases ite_ok hb with ⟨hinv, hb⟩ | ⟨hninv, hb⟩
  · refine yld _ (pure_ok hb) rfl ?_
    intro hn hA
    rcases hK hn hA with ⟨_, _, g3, _⟩ | ⟨_, g2⟩
    · exact absurd (by simpa using hinv) g3
    · omega
  have hbi : st.back! ≠ inv := by simpa using hninv
  obtain ⟨b, hb1, hb⟩ := (bind_ok_iff _ _ _).mp hb
  rcases ite_ok hb with ⟨hvis, hb⟩ | ⟨hnvis, hb⟩
  · refine yld _ (pure_ok hb) rfl ?_
    intro hn hA
    rcases hK hn hA with ⟨_, _, _, g4⟩ | ⟨_, g2⟩
    · rw [(rdB_get hb1).2, hvis] at g4; cases g4
    · omega
  obtain ⟨s2, hloop, hb⟩ := (bind_ok_iff _ _ _).mp hb
  have hne' : st.isEmpty = false := by simpa using hne
  have hun : vf.getD (st.back! / 3) false = false := by
    rw [(rdB_get hb1).2]; simpa using hnvis
  have hcur : CurOK t vf vv st.back! := Or.inr ⟨hSt.back hne', hun⟩
  have h2 := range_loop t.numFaces (innerBody t holeId valence t.numFaces) (JIn t I A k) (JQ t I A k)
    (fun j s r hj hJ hr => innerBody_sf hT hH j s r hj hJ hr)
    (vf, vv, vh, val, sy, P, sp, f2s, ls, nss, st, st.back!, 0) s2
    ⟨⟨hInv, hSt, hcur⟩, rfl, Nat.zero_le _, hbi, fun hn hA => by
      rcases hK hn hA with ⟨g1, g2, _, _⟩ | ⟨_, g2⟩
      · exact ⟨g1, g2⟩
      · omega⟩ hloop
  obtain ⟨vf2, vv2, vh2, val2, sy2, P2, sp2, f2s2, ls2, nss2, st2, c2, nv2⟩ := s2
  have hQ : JQ t I A k (vf2, vv2, vh2, val2, sy2, P2, sp2, f2s2, ls2, nss2, st2, c2, nv2) := by
    rcases h2 with ⟨⟨hInv2, _, hCur2⟩, _, hcnt2, hci2, _⟩ | hq
    · exfalso
      dsimp only at hInv2 hCur2 hcnt2 hci2
      obtain ⟨hc2, _, hun2⟩ := curOK_valid hCur2 hci2
      have h3 := hk.three
      have := all_of_vcount hcnt2 (c2 / 3) (by omega)
      rw [this] at hun2; cases hun2
    · exact hq
  refine yld _ (pure_ok hb) rfl ?_
  intro hn hA
  exact Or.inr (hQ.2 hn hA)

/-! ## one call of `EncodeConnectivityFromCorner` -/

/-- the call passes the start-face flags through -/
theorem outerTail_sfs {t : CT} {holeId : Array Nat} {valence : Bool} {nfa : Nat} {val : ValEnc} {sy : Array Nat}
    {sf : RAnsBitEnc} {sfs : Array Bool} {P : Array Nat} {sp : Array TopoSplit} {f2s : Array Nat} {ls : Int} {nss : Nat}
    {vf vv vh : Array Bool} {I : Array Nat} {from_ : Nat} {r : ForInStep OSt}
    (hb : outerTail t holeId valence nfa val sy sf sfs P sp f2s ls nss () vf vv vh I from_ = .ok r) :
    ∃ s' : OSt, r = .yield s' ∧ s'.2.2.2.2.2.2.1 = sfs := by
  unfold outerTail at hb
  rcases ite_ok hb with ⟨_, hb⟩ | ⟨_, hb⟩
  · exact ⟨_, pure_ok hb, rfl⟩
  obtain ⟨s2, _, hb⟩ := (bind_ok_iff _ _ _).mp hb
  rcases ite_ok hb with ⟨_, hb⟩ | ⟨_, hb⟩
  · exact (throw_bind_ne hb).elim
  · exact ⟨_, pure_ok hb, rfl⟩

/-- a call started at a valid corner of an unvisited face, with one more start-face flag than symbols `E`, ends with as
    many symbols `E` as flags — unless it pushed an `S` -/
theorem outerTail_sf {t : CT} (hT : TblOK t) {holeId : Array Nat} (hH : HolesOK t holeId) {valence : Bool}
    {val : ValEnc} {sy : Array Nat}
    {sf : RAnsBitEnc} {sfs : Array Bool} {P : Array Nat} {sp : Array TopoSplit} {f2s : Array Nat} {ls : Int} {nss : Nat}
    {vf vv vh : Array Bool} {I : Array Nat} {from_ : Nat} {r : ForInStep OSt} {A : Prop}
    (hInv : Inv t vf vv P I) (hfrom : CornerOK t vv from_) (hne : from_ ≠ inv)
    (hun : vf.getD (from_ / 3) false = false) (hK : noS sy → A → cE sy + 1 = sfs.size)
    (hb : outerTail t holeId valence t.numFaces val sy sf sfs P sp f2s ls nss () vf vv vh I from_ = .ok r) :
    ∃ s' : OSt, r = .yield s' ∧ s'.2.2.2.2.2.2.1 = sfs ∧ (noS s'.2.2.2.2.1 → A → cE s'.2.2.2.2.1 = sfs.size) := by
  unfold outerTail at hb
  rcases ite_ok hb with ⟨hfi, hb⟩ | ⟨_, hb⟩
  · exact absurd (by simpa using hfi) hne
  obtain ⟨s2, hloop, hb⟩ := (bind_ok_iff _ _ _).mp hb
  have h2 := range_loop (4 * t.numFaces + 16) (stackBody t holeId valence t.numFaces)
    (fun _ => JSt t I A sfs.size) (JStQ t I A sfs.size)
    (fun j s r _ hJ hr => stackBody_sf hT hH j s r hJ hr)
    (vf, vv, vh, val, sy, P, sp, f2s, ls, nss, #[from_], false) s2
    ⟨⟨hInv, StackOK.single hfrom⟩, rfl, fun hn hA => Or.inl ⟨hK hn hA, rfl, hne, hun⟩⟩ hloop
  obtain ⟨vf2, vv2, vh2, val2, sy2, P2, sp2, f2s2, ls2, nss2, st2, fin2⟩ := s2
  rcases ite_ok hb with ⟨_, hb⟩ | ⟨hfin, hb⟩
  · exact (throw_bind_ne hb).elim
  have hfin' : fin2 = true := by simpa using hfin
  rcases h2 with ⟨_, hf, _⟩ | ⟨_, hemp, hK2⟩
  · have : fin2 = false := hf
    rw [this] at hfin'; cases hfin'
  · refine ⟨_, pure_ok hb, rfl, ?_⟩
    intro hn hA
    dsimp only at hemp hK2 hn ⊢
    rcases hK2 hn hA with ⟨_, g2, _, _⟩ | ⟨g1, _⟩
    · omega
    · exact g1

/-! ## the loop over the faces -/

/-- no `S` and boundary start faces only ⇒ one start-face flag per symbol `E` -/
def KO (s : OSt) : Prop :=
  noS s.2.2.2.2.1 → (∀ b, b ∈ s.2.2.2.2.2.2.1.toList → b = false) → cE s.2.2.2.2.1 = s.2.2.2.2.2.2.1.size

theorem outerBody_sf {t : CT} (hT : TblOK t) {holeId : Array Nat} (hH : HolesOK t holeId) {valence : Bool}
    (cId : Nat) (s : OSt) (r : ForInStep OSt) (hcId : cId < t.numCorners) (hI : Coverage.OInv t s) (hK : KO s)
    (hb : outerBody t holeId valence t.numFaces cId s = .ok r) :
    ∃ s', r = .yield s' ∧ KO s' := by
  obtain ⟨vf, vv, vh, val, sy, sf, sfs, P, ifc, sp, f2s, ls, nss⟩ := s
  obtain ⟨hIO, hClosed⟩ := hI
  have hInv : Inv t vf vv P ifc := hIO
  have hCl : Closed t vf := hClosed
  have hK' : noS sy → (∀ b, b ∈ sfs.toList → b = false) → cE sy = sfs.size := hK
  have hk := hT.ctok
  have h3 := hk.three
  have hfit := hk.fits
  have hf : cId / 3 < t.numFaces := by
    have : cId < t.c2v.size := hcId
    omega
  unfold outerBody at hb
  obtain ⟨b, hb1, hb⟩ := (bind_ok_iff _ _ _).mp hb
  rcases ite_ok hb with ⟨_, hb⟩ | ⟨hnv, hb⟩
  · exact ⟨_, pure_ok hb, hK⟩
  obtain ⟨d, hd, hb⟩ := (bind_ok_iff _ _ _).mp hb
  rcases ite_ok hb with ⟨_, hb⟩ | ⟨hnd, hb⟩
  · exact ⟨_, pure_ok hb, hK⟩
  have hun : vf.getD (cId / 3) false = false := by
    rw [(rdB_get hb1).2]; simpa using hnv
  have hnd' : isDegenA t.c2v (cId / 3) = false := by
    rw [← isDegenerated_ok hk hf hd]; simpa using hnd
  obtain ⟨x, hx, hb⟩ := (bind_ok_iff _ _ _).mp hb
  obtain ⟨interior, sc⟩ := x
  obtain ⟨_, hsp2⟩ := findInit_spec hk hf hx
  obtain ⟨_, hlink⟩ := findInit_spec' hT hf hx
  simp only [] at hb
  rcases ite_ok hb with ⟨hint, hb⟩ | ⟨hnint, hb⟩
  · -- interior configuration: the flag `true` is recorded
    obtain ⟨v0, _, hb⟩ := (bind_ok_iff _ _ _).mp hb
    obtain ⟨v1, _, hb⟩ := (bind_ok_iff _ _ _).mp hb
    obtain ⟨v2, _, hb⟩ := (bind_ok_iff _ _ _).mp hb
    obtain ⟨vv1, _, hb⟩ := (bind_ok_iff _ _ _).mp hb
    obtain ⟨vv2, _, hb⟩ := (bind_ok_iff _ _ _).mp hb
    obtain ⟨vv3, _, hb⟩ := (bind_ok_iff _ _ _).mp hb
    obtain ⟨vf', _, hb⟩ := (bind_ok_iff _ _ _).mp hb
    obtain ⟨oppId, _, hb⟩ := (bind_ok_iff _ _ _).mp hb
    obtain ⟨b2, _, hb⟩ := (bind_ok_iff _ _ _).mp hb
    have fin : ∀ {vf vv vh I from_}, outerTail t holeId valence t.numFaces val sy (sf.encodeBit interior) (sfs.push interior)
        P sp f2s ls nss () vf vv vh I from_ = .ok r → ∃ s', r = .yield s' ∧ KO s' := by
      intro vf vv vh I from_ h
      obtain ⟨s', e, hs⟩ := outerTail_sfs h
      refine ⟨s', e, ?_⟩
      intro _ hall
      exfalso
      rw [hs] at hall
      have := hall interior (by simp)
      rw [hint] at this; cases this
    rcases ite_ok hb with ⟨_, hb⟩ | ⟨_, hb⟩
    · exact fin hb
    · exact fin hb
  · -- a face at a hole: the traversal starts at the boundary edge
    have hifalse : interior = false := by simpa using hnint
    have hst := hsp2 hifalse
    obtain ⟨hsclt, hso, hsnd⟩ := hst
    have hsci : sc < inv := by omega
    obtain ⟨x2, hx2, hb⟩ := (bind_ok_iff _ _ _).mp hb
    obtain ⟨vv', vh'⟩ := x2
    obtain ⟨hm, hg⟩ := encodeHole_spec hx2
    have hnl : Eb.nextC sc < inv := Eb.nextC_lt sc hsci
    obtain ⟨g1, g2⟩ := hg rfl hnl (by rw [prevC_nextC' sc hsci]; exact hso)
    rw [prevC_nextC' sc hsci] at g2
    have hco : CornerOK t vv' sc := by
      refine Or.inr ⟨hsclt, ?_, g1, g2⟩
      rcases hsnd with e | e
      · rw [e]; exact hnd'
      · exact e
    -- the face of the start corner is not visited: it is linked to the face `cId / 3`
    have hunsc : vf.getD (sc / 3) false = false := by
      cases hv : vf.getD (sc / 3) false with
      | false => rfl
      | true =>
        have := hlink hifalse vf hCl hv
        rw [hun] at this; cases this
    simp only [] at hb
    obtain ⟨s', e, hs, hK2⟩ := outerTail_sf hT hH (A := ∀ b, b ∈ (sfs.push interior).toList → b = false)
      (hInv.mono hm) hco (by omega) hunsc
      (fun hn hA => by
        rw [Array.size_push]
        have := hK' hn (fun b hb => hA b (by rw [Array.toList_push]; exact List.mem_append_left _ hb))
        omega) hb
    refine ⟨s', e, ?_⟩
    intro hn hall
    rw [hs] at hall ⊢
    exact hK2 hn hall

/-- **one start-face flag per symbol `E`**: after a successful `EncodeConnectivity` that pushed no symbol `S` and recorded
    boundary start faces only, the number of start-face configurations is the number of symbols `E` -/
theorem sfcount_of_run (ch : ConnChoices) (valence : Bool) (posFaces : Faces)
    (acv : Array (Nat × Array Nat)) (conn : ConnEnc)
    (h : encodeConnectivity ch valence posFaces acv = .ok conn)
    (hnoS : ∀ x, x ∈ conn.symbols.toList → x ≠ topoS)
    (hstart : ∀ b, b ∈ conn.startFaces.toList → b = false) :
    conn.startFaces.size = conn.symbols.toList.count 7 := by
  rw [encodeConnectivity_eq] at h
  split at h
  · rename_i table hcreate
    have hT := tblOK_ofTable hcreate
    have hk := hT.ctok
    simp only [] at h
    rcases ite_ok h with ⟨_, h⟩ | ⟨_, h⟩
    · exact (throw_bind_ne h).elim
    obtain ⟨x, hx, h⟩ := (bind_ok_iff _ _ _).mp h
    have hH : HolesOK (CT.ofTable table) x.1 := findHoles_spec hT (nh := x.2) hx
    obtain ⟨atts, _, h⟩ := (bind_ok_iff _ _ _).mp h
    obtain ⟨val, h⟩ := ite_bind_both h
    obtain ⟨s, hloop, h⟩ := (bind_ok_iff _ _ _).mp h
    have hI : (Coverage.OInv (CT.ofTable table) s ∧ KO s) ∨ False := by
      refine range_loop _ _ (fun _ s => Coverage.OInv (CT.ofTable table) s ∧ KO s) (fun _ => False) ?_ _ s ?_ hloop
      · intro j s r hj ⟨hO, hK⟩ hr
        left
        obtain ⟨s', e, hO', _, _⟩ := outerBody_cov hT hH j s r hj hO hr
        obtain ⟨s'', e', hK'⟩ := outerBody_sf hT hH j s r hj hO hK hr
        rw [e] at e'; cases e'
        exact ⟨s', e, hO', hK'⟩
      · refine ⟨⟨inv_init (CT.ofTable table) _ _ rfl, closed_init _ _⟩, ?_⟩
        intro _ _
        rfl
    have hFin := (hI.resolve_right (fun h => h)).2
    obtain ⟨vf, vv, vh, val2, sy, sf, sfs, P, ifc, sp, f2s, ls, nss⟩ := s
    obtain ⟨sb, _, h⟩ := (bind_ok_iff _ _ _).mp h
    have hconn : conn.symbols = sy ∧ conn.startFaces = sfs := by
      rcases ite_ok h with ⟨_, h⟩ | ⟨_, h⟩
      · obtain ⟨cb, _, h⟩ := (bind_ok_iff _ _ _).mp h
        have := pure_ok h
        rw [this]
        exact ⟨rfl, rfl⟩
      · have := pure_ok h
        rw [this]
        exact ⟨rfl, rfl⟩
    rw [hconn.1] at hnoS ⊢
    rw [hconn.2] at hstart ⊢
    have := hFin hnoS hstart
    exact this.symm
  · cases h

/-! ## the split-free connectivity link, closed -/

/-- **`hE`** for the runs of the split-free link -/
theorem hE_of_run (ch : ConnChoices) (pf : Faces) (conn : ConnEnc)
    (h : encodeConnectivity ch false pf #[] = .ok conn)
    (hnoS : ∀ x, x ∈ conn.symbols.toList → x ≠ topoS)
    (hstart : ∀ b, b ∈ conn.startFaces.toList → b = false) :
    conn.startFaces.size = conn.symbols.toList.count 7 :=
  sfcount_of_run ch false pf #[] conn h hnoS hstart

open Draco.SeqEnc DecM in
/-- **the connectivity link for split-free traversals** (symbols C / R / L / E, boundary start faces, standard traversal, no
    attribute data, every encoder choice): no hypothesis about the run of the decoder or of the encoder's loops is left —
    only the run, `hnoS`, `hstart` and the decoder's domain checks `hnf`, `hnv`, `hedge`. -/
theorem eb_connectivity_roundtrip_splitfree_closed' (ch : ConnChoices) (pf : Faces) (conn : ConnEnc)
    (h : encodeConnectivity ch false pf #[] = .ok conn)
    (hnoS : ∀ x, x ∈ conn.symbols.toList → x ≠ topoS)
    (hstart : ∀ b, b ∈ conn.startFaces.toList → b = false)
    (hnf : conn.processed.size ≤ 2 ^ 21)
    (hnv : conn.ct.numVertices - conn.ct.numIsolated ≤ 3 * 2 ^ 21)
    (hedge : 3 * conn.processed.size / 2 ≤
      (conn.ct.numVertices - conn.ct.numIsolated) * (conn.ct.numVertices - conn.ct.numIsolated - 1) / 2) :
    ∃ mesh, Runs decodeConnectivity 514 ([0] ++ conn.bytes) mesh 514 ∧
      CTIso conn.ct conn.processed mesh.numFaces mesh.c2v mesh.opp ∧ mesh.atts.size = conn.atts.size :=
  SplitFreeLink.eb_connectivity_roundtrip_splitfree_closed ch pf conn h hnoS hstart
    (hE_of_run ch pf conn h hnoS hstart) hnf hnv hedge

end Draco.EbEnc.StartFaceCount
