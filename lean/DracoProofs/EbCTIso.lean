import Mathlib.Data.Fintype.Card
import DracoModel.EbEncoder
import DracoProofs.EbBasic
/-
  Soundness of the evaluated predicate `Draco.EbEnc.ctIso` (end of DracoModel/EbEncoder.lean): when the
  imperative checker answers `true`, the decoder's corner table is isomorphic to the non-degenerate part
  of the encoder's corner table under the corner map recorded in `processed_connectivity_corners_`
  (the Prop-level structure `CTIso`).

  Route: the two `for` loops of the checker are `forIn` loops in `Id` whose state carries the early
  return value (`Option Bool`) in its first component.  The loop bodies are restated as the named
  functions `step1` / `step2` (definitionally the desugared bodies), `ctIso_loops` extracts from
  `ctIso … = true` that neither loop returned `some false`, and the generic invariant rule `loop_range`
  turns a per-iteration case analysis into the invariant at loop exit.
-/
namespace Draco.EbEnc
open Draco Draco.Eb

/-! ### the statement -/

/-- the corner map recorded in `processed_connectivity_corners_`: decoder corner `3 i + k` is the
    encoder corner `Next^k(processed[i])` (the same expression as inside `ctIso`) -/
def phi (processed : Array Nat) (d : Nat) : Nat :=
  let c := processed[d / 3]!
  if d % 3 == 0 then c else if d % 3 == 1 then Eb.nextC c else Eb.prevC c

/-- **CTIso**, the Prop `ctIso` decides (soundness direction: `ctIso_sound`) -/
structure CTIso (t : CT) (processed : Array Nat) (numFaces : Nat) (dc2v dopp : Array Nat) : Prop where
  faces : numFaces = processed.size
  sizes : dc2v.size = 3 * numFaces ∧ dopp.size = 3 * numFaces
  /-- decoder corners are mapped to corners of the encoder's table -/
  corner_lt : ∀ d, d < 3 * numFaces → phi processed d < t.numCorners
  /-- … injectively -/
  inj : ∀ d d', d < 3 * numFaces → d' < 3 * numFaces → phi processed d = phi processed d' → d = d'
  /-- boundary edges correspond -/
  opp_inv : ∀ d, d < 3 * numFaces → (dopp[d]! = inv ↔ t.opp[phi processed d]! = inv)
  /-- opposite corners correspond -/
  opp_map : ∀ d, d < 3 * numFaces → dopp[d]! ≠ inv →
    dopp[d]! < 3 * numFaces ∧ phi processed dopp[d]! = t.opp[phi processed d]!
  /-- the encoder vertex of the image of a decoder corner is a vertex of the encoder's table -/
  vertex_lt : ∀ d, d < 3 * numFaces → t.c2v[phi processed d]! < t.numVertices
  /-- two decoder corners carry the same vertex exactly when their images do -/
  vertex : ∀ d d', d < 3 * numFaces → d' < 3 * numFaces →
    (dc2v[d]! = dc2v[d']! ↔ t.c2v[phi processed d]! = t.c2v[phi processed d']!)

/-! ### `forIn` loops in `Id` with an early `return false` -/

theorem loop_list {β : Type} (f : Nat → Option Bool × β → Id (ForInStep (Option Bool × β)))
    (I : Nat → β → Prop) (n : Nat)
    (hstep : ∀ d b, d < n → I d b →
      (∃ b', f d (none, b) = pure (ForInStep.yield (none, b')) ∧ I (d + 1) b') ∨
      (∃ b', f d (none, b) = pure (ForInStep.done (some false, b')))) :
    ∀ k a b, a + k = n → I a b →
      (Id.run (forIn (List.range' a k 1) (none, b) f)).1 = some false ∨
      ((Id.run (forIn (List.range' a k 1) (none, b) f)).1 = none ∧
        I n (Id.run (forIn (List.range' a k 1) (none, b) f)).2) := by
  intro k
  induction k with
  | zero =>
    intro a b hk hI
    have : a = n := by omega
    subst this
    right
    simp [hI]
  | succ k ih =>
    intro a b hk hI
    rw [List.range'_succ, List.forIn_cons]
    rcases hstep a b (by omega) hI with ⟨b', hf, hI'⟩ | ⟨b', hf⟩
    · rw [hf]
      simp only [pure_bind]
      exact ih (a + 1) b' (by omega) hI'
    · rw [hf]
      left
      simp

/-- invariant rule for `for d in [0:n] do …` with state `(early return value, b)`: if every iteration
    from a state satisfying the invariant either continues in a state satisfying it or returns `false`,
    the loop either returned `false` or ran to the end and the invariant holds there -/
theorem loop_range {β : Type} (f : Nat → Option Bool × β → Id (ForInStep (Option Bool × β)))
    (I : Nat → β → Prop) (n : Nat) (b : β) (h0 : I 0 b)
    (hstep : ∀ d b, d < n → I d b →
      (∃ b', f d (none, b) = pure (ForInStep.yield (none, b')) ∧ I (d + 1) b') ∨
      (∃ b', f d (none, b) = pure (ForInStep.done (some false, b')))) :
    (Id.run (forIn [:n] (none, b) f)).1 = some false ∨
      ((Id.run (forIn [:n] (none, b) f)).1 = none ∧ I n (Id.run (forIn [:n] (none, b) f)).2) := by
  rw [Std.Legacy.Range.forIn_eq_forIn_range']
  have := loop_list f I n hstep n 0 b (by omega) h0
  simpa [Std.Legacy.Range.size] using this

/-! ### the loop bodies of `ctIso` -/

/-- body of the first loop (the inverse corner map `back`) -/
def step1 (t : CT) (processed : Array Nat) (d : Nat) (s : Option Bool × Array Nat) :
    Id (ForInStep (Option Bool × Array Nat)) :=
  if phi processed d ≥ t.numCorners then pure (ForInStep.done (some false, s.2))
  else if s.2[phi processed d]! != inv then pure (ForInStep.done (some false, s.2))
  else pure (ForInStep.yield (none, s.2.set! (phi processed d) d))

/-- the vertex part of the body of the second loop (the partial maps `v2e`, `e2v`) -/
def step2v (vd ve : Nat) (v2e e2v : Array Nat) : Id (ForInStep (Option Bool × Array Nat × Array Nat)) :=
  if (decide (vd ≥ v2e.size) || decide (ve ≥ e2v.size)) = true then
    pure (ForInStep.done (some false, v2e, e2v))
  else
    let jp2 := fun (_ : Unit) (v2e : Array Nat) =>
      if (e2v[ve]! == inv) = true then
        pure (ForInStep.yield (none, v2e, e2v.set! ve vd))
      else if (e2v[ve]! != vd) = true then pure (ForInStep.done (some false, v2e, e2v))
      else pure (ForInStep.yield (none, v2e, e2v))
    if (v2e[vd]! == inv) = true then jp2 () (v2e.set! vd ve)
    else if (v2e[vd]! != ve) = true then pure (ForInStep.done (some false, v2e, e2v))
    else jp2 () v2e

/-- body of the second loop -/
def step2 (t : CT) (processed : Array Nat) (numFaces : Nat) (dc2v dopp : Array Nat) (d : Nat)
    (s : Option Bool × Array Nat × Array Nat) : Id (ForInStep (Option Bool × Array Nat × Array Nat)) :=
  if (dopp[d]! == inv) = true then
    if (t.opp[phi processed d]! != inv) = true then pure (ForInStep.done (some false, s.2.1, s.2.2))
    else step2v dc2v[d]! t.c2v[phi processed d]! s.2.1 s.2.2
  else if (decide (dopp[d]! ≥ 3 * numFaces) || phi processed dopp[d]! != t.opp[phi processed d]!) = true then
    pure (ForInStep.done (some false, s.2.1, s.2.2))
  else step2v dc2v[d]! t.c2v[phi processed d]! s.2.1 s.2.2

/-- `ctIso … = true`: the size checks passed and neither loop returned `false` -/
theorem ctIso_loops (t : CT) (processed : Array Nat) (numFaces : Nat) (dc2v dopp : Array Nat)
    (h : ctIso t processed numFaces dc2v dopp = true) :
    (Id.run (forIn [:3 * numFaces] (none, Array.replicate t.numCorners inv) (step1 t processed))).1 ≠ some false ∧
    ((Id.run (forIn [:3 * numFaces] (none, Array.replicate t.numCorners inv) (step1 t processed))).1 = none →
    (Id.run (forIn [:3 * numFaces]
              (none, Array.replicate (dc2v.foldl (fun m v => max m (v + 1)) 0) inv, Array.replicate t.numVertices inv)
              (step2 t processed numFaces dc2v dopp))).1 ≠ some false) := by
  unfold ctIso at h
  split at h
  · cases h
  split at h
  · cases h
  simp only [bind, Id.run] at h
  split at h
  · rename_i r hr
    cases h
    have hr' : (Id.run (forIn [:3 * numFaces] (none, Array.replicate t.numCorners inv) (step1 t processed))).1
        = some true := hr
    rw [hr']
    simp
  · rename_i hr
    have hr' : (Id.run (forIn [:3 * numFaces] (none, Array.replicate t.numCorners inv) (step1 t processed))).1
        = none := hr
    rw [hr']
    refine ⟨by simp, fun _ => ?_⟩
    split at h
    · rename_i r hr2
      cases h
      have hr2' : (Id.run (forIn [:3 * numFaces]
              (none, Array.replicate (dc2v.foldl (fun m v => max m (v + 1)) 0) inv, Array.replicate t.numVertices inv)
              (step2 t processed numFaces dc2v dopp))).1 = some true := hr2
      rw [hr2']
      simp
    · rename_i hr2
      have hr2' : (Id.run (forIn [:3 * numFaces]
              (none, Array.replicate (dc2v.foldl (fun m v => max m (v + 1)) 0) inv, Array.replicate t.numVertices inv)
              (step2 t processed numFaces dc2v dopp))).1 = none := hr2
      rw [hr2']
      simp

/-! ### `set!` / `[·]!` -/

theorem get_set_self (a : Array Nat) (i v : Nat) (h : i < a.size) : (a.set! i v)[i]! = v := by
  simp [Array.set!, h]

theorem get_set_ne (a : Array Nat) (i j v : Nat) (h : i ≠ j) : (a.set! i v)[j]! = a[j]! := by
  simp [Array.set!, Array.getElem!_eq_getD, Array.getD_eq_getD_getElem?, h]

theorem get_replicate (n i : Nat) (h : i < n) : (Array.replicate n inv)[i]! = inv := by
  simp [h]

theorem size_set (a : Array Nat) (i v : Nat) : (a.set! i v).size = a.size := by
  simp [Array.set!]

/-! ### first loop: the inverse corner map -/

/-- invariant of the first loop before iteration `d`: `back` inverts `phi` on the corners seen so far
    (except for the decoder corner `inv`, which `back` cannot tell from "unset"), and no earlier
    corner other than `inv` has the same image as a later one -/
def I1 (t : CT) (p : Array Nat) (d : Nat) (back : Array Nat) : Prop :=
  back.size = t.numCorners ∧ ∀ d', d' < d → phi p d' < t.numCorners ∧ (d' ≠ inv → back[phi p d']! = d') ∧
    ∀ d'', d'' < d' → d'' ≠ inv → phi p d'' ≠ phi p d'

theorem step1_inv (t : CT) (p : Array Nat) (n : Nat) :
    ∀ d b, d < 3 * n → I1 t p d b →
      (∃ b', step1 t p d (none, b) = pure (ForInStep.yield (none, b')) ∧ I1 t p (d + 1) b') ∨
      (∃ b', step1 t p d (none, b) = pure (ForInStep.done (some false, b'))) := by
  intro d b hd hI
  obtain ⟨hs, hI⟩ := hI
  unfold step1
  dsimp only
  by_cases h1 : phi p d ≥ t.numCorners
  · right
    rw [if_pos h1]
    exact ⟨_, rfl⟩
  · rw [if_neg h1]
    by_cases h2 : (b[phi p d]! != inv) = true
    · right
      rw [if_pos h2]
      exact ⟨_, rfl⟩
    · left
      rw [if_neg h2]
      have h2' : b[phi p d]! = inv := by simpa using h2
      -- no earlier corner (other than `inv`) has the image of `d`
      have hne : ∀ d', d' < d → d' ≠ inv → phi p d' ≠ phi p d := by
        intro d' hd' hi heq
        rw [← heq, (hI d' hd').2.1 hi] at h2'
        exact hi h2'
      refine ⟨_, rfl, ?_, ?_⟩
      · rw [size_set, hs]
      · intro d' hd'
        by_cases e : d' = d
        · subst e
          exact ⟨by omega, fun _ => get_set_self _ _ _ (by omega), hne⟩
        · have hd := hI d' (by omega)
          refine ⟨hd.1, fun hi => ?_, hd.2.2⟩
          rw [get_set_ne _ _ _ _ (fun e' => hne d' (by omega) hi e'.symm)]
          exact hd.2.1 hi

/-- pigeonhole principle for maps on an initial segment of `Nat` -/
theorem pigeon (f : Nat → Nat) (m k : Nat) (hlt : ∀ i, i < m → f i < k)
    (hinj : ∀ i j, i < j → j < m → f i ≠ f j) : m ≤ k := by
  have := Fintype.card_le_of_injective (fun i : Fin m => (⟨f i.val, hlt i.val i.isLt⟩ : Fin k)) (by
    intro a b e
    have e' : f a.val = f b.val := by simpa using e
    apply Fin.ext
    rcases Nat.lt_trichotomy a.val b.val with h | h | h
    · exact absurd e' (hinj _ _ h b.isLt)
    · exact h
    · exact absurd e'.symm (hinj _ _ h a.isLt))
  simpa using this

/-- the invariant of the first loop at its exit bounds the number of decoder corners: if the
    encoder's table has at most `inv` corners then so has the decoder's (the first `inv + 1` decoder
    corners would be mapped injectively) -/
theorem I1.corners_le {t : CT} {p : Array Nat} {n : Nat} {back : Array Nat} (h : I1 t p (3 * n) back)
    (hC : t.numCorners ≤ inv) : 3 * n ≤ inv := by
  by_contra hcon
  have := pigeon (phi p) (inv + 1) t.numCorners (fun i hi => (h.2 i (by omega)).1)
    (fun i j hij hj => (h.2 j (by omega)).2.2 i hij (by omega))
  omega

/-! ### second loop: opposite corners and the vertex maps -/

/-- `a'` is `a` with entry `i` defined as `v` (it was undefined, or was `v` already) -/
def Upd (a : Array Nat) (i v : Nat) (a' : Array Nat) : Prop :=
  a'.size = a.size ∧ a'[i]! = v ∧ ∀ j : Nat, a[j]! ≠ inv → a'[j]! = a[j]!

theorem Upd.set (a : Array Nat) (i v : Nat) (hi : i < a.size) (h : a[i]! = inv) : Upd a i v (a.set! i v) := by
  refine ⟨size_set _ _ _, get_set_self _ _ _ hi, fun j hj => ?_⟩
  have : i ≠ j := by
    intro e
    subst e
    exact hj h
  exact get_set_ne _ _ _ _ this

theorem Upd.keep (a : Array Nat) (i v : Nat) (h : a[i]! = v) : Upd a i v a :=
  ⟨rfl, h, fun _ _ => rfl⟩

theorem step2v_inv (vd ve : Nat) (v2e e2v : Array Nat) :
    (∃ v2e' e2v', step2v vd ve v2e e2v = pure (ForInStep.yield (none, v2e', e2v')) ∧
        vd < v2e.size ∧ ve < e2v.size ∧ Upd v2e vd ve v2e' ∧ Upd e2v ve vd e2v') ∨
    (∃ b', step2v vd ve v2e e2v = pure (ForInStep.done (some false, b'))) := by
  unfold step2v
  dsimp only
  by_cases h0 : (decide (vd ≥ v2e.size) || decide (ve ≥ e2v.size)) = true
  · right
    rw [if_pos h0]
    exact ⟨_, rfl⟩
  · rw [if_neg h0]
    have hlt : vd < v2e.size ∧ ve < e2v.size := by
      simp only [Bool.or_eq_true, decide_eq_true_eq, not_or] at h0
      omega
    -- the `e2v` half, for either value of the new `v2e`
    have hjp : ∀ v2e', Upd v2e vd ve v2e' →
        (∃ v2e'' e2v', (if (e2v[ve]! == inv) = true then
              (pure (ForInStep.yield (none, v2e', e2v.set! ve vd)) : Id (ForInStep (Option Bool × Array Nat × Array Nat)))
            else if (e2v[ve]! != vd) = true then pure (ForInStep.done (some false, v2e', e2v))
            else pure (ForInStep.yield (none, v2e', e2v))) = pure (ForInStep.yield (none, v2e'', e2v')) ∧
          vd < v2e.size ∧ ve < e2v.size ∧ Upd v2e vd ve v2e'' ∧ Upd e2v ve vd e2v') ∨
        (∃ b', (if (e2v[ve]! == inv) = true then
              (pure (ForInStep.yield (none, v2e', e2v.set! ve vd)) : Id (ForInStep (Option Bool × Array Nat × Array Nat)))
            else if (e2v[ve]! != vd) = true then pure (ForInStep.done (some false, v2e', e2v))
            else pure (ForInStep.yield (none, v2e', e2v))) = pure (ForInStep.done (some false, b'))) := by
      intro v2e' hu
      by_cases h3 : (e2v[ve]! == inv) = true
      · left
        rw [if_pos h3]
        exact ⟨_, _, rfl, hlt.1, hlt.2, hu, Upd.set _ _ _ hlt.2 (by simpa using h3)⟩
      · rw [if_neg h3]
        by_cases h4 : (e2v[ve]! != vd) = true
        · right
          rw [if_pos h4]
          exact ⟨_, rfl⟩
        · left
          rw [if_neg h4]
          exact ⟨_, _, rfl, hlt.1, hlt.2, hu, Upd.keep _ _ _ (by simpa using h4)⟩
    by_cases h1 : (v2e[vd]! == inv) = true
    · rw [if_pos h1]
      exact hjp _ (Upd.set _ _ _ hlt.1 (by simpa using h1))
    · rw [if_neg h1]
      by_cases h2 : (v2e[vd]! != ve) = true
      · right
        rw [if_pos h2]
        exact ⟨_, rfl⟩
      · rw [if_neg h2]
        exact hjp _ (Upd.keep _ _ _ (by simpa using h2))

/-- the opposite-corner condition of one decoder corner -/
def OppOK (t : CT) (p : Array Nat) (n : Nat) (dopp : Array Nat) (d : Nat) : Prop :=
  (dopp[d]! = inv ↔ t.opp[phi p d]! = inv) ∧
  (dopp[d]! ≠ inv → dopp[d]! < 3 * n ∧ phi p dopp[d]! = t.opp[phi p d]!)

/-- invariant of the second loop before iteration `d` (`M` = the size of `v2e`) -/
def I2 (t : CT) (p : Array Nat) (n : Nat) (dc2v dopp : Array Nat) (M : Nat) (d : Nat)
    (s : Array Nat × Array Nat) : Prop :=
  s.1.size = M ∧ s.2.size = t.numVertices ∧
  ∀ d', d' < d → OppOK t p n dopp d' ∧ dc2v[d']! < M ∧ t.c2v[phi p d']! < t.numVertices ∧
    s.1[dc2v[d']!]! = t.c2v[phi p d']! ∧ s.2[t.c2v[phi p d']!]! = dc2v[d']!

theorem step2_inv (t : CT) (p : Array Nat) (n : Nat) (dc2v dopp : Array Nat) (M : Nat)
    (hC : t.numCorners ≤ inv) (hV : t.numVertices ≤ inv)
    (hdv : ∀ d, d < 3 * n → dc2v[d]! ≠ inv) (hlt : ∀ d, d < 3 * n → phi p d < t.numCorners) :
    ∀ d b, d < 3 * n → I2 t p n dc2v dopp M d b →
      (∃ b', step2 t p n dc2v dopp d (none, b) = pure (ForInStep.yield (none, b')) ∧
        I2 t p n dc2v dopp M (d + 1) b') ∨
      (∃ b', step2 t p n dc2v dopp d (none, b) = pure (ForInStep.done (some false, b'))) := by
  intro d b hd hI
  obtain ⟨v2e, e2v⟩ := b
  obtain ⟨hs1, hs2, hI⟩ := hI
  dsimp only at hs1 hs2 hI
  have hv : OppOK t p n dopp d →
      (∃ b', step2v dc2v[d]! t.c2v[phi p d]! v2e e2v = pure (ForInStep.yield (none, b')) ∧
        I2 t p n dc2v dopp M (d + 1) b') ∨
      (∃ b', step2v dc2v[d]! t.c2v[phi p d]! v2e e2v = pure (ForInStep.done (some false, b'))) := by
    intro hopp
    rcases step2v_inv dc2v[d]! t.c2v[phi p d]! v2e e2v with ⟨v2e', e2v', heq, hvd, hve, hu1, hu2⟩ | ⟨b', heq⟩
    · left
      refine ⟨(v2e', e2v'), heq, by rw [← hs1]; exact hu1.1, by rw [← hs2]; exact hu2.1, fun d' hd' => ?_⟩
      by_cases e : d' = d
      · subst e
        exact ⟨hopp, by omega, by omega, hu1.2.1, hu2.2.1⟩
      · obtain ⟨o, h1, h2, h3, h4⟩ := hI d' (by omega)
        refine ⟨o, h1, h2, ?_, ?_⟩
        · show v2e'[dc2v[d']!]! = _
          rw [hu1.2.2 _ (by rw [h3]; omega), h3]
        · show e2v'[t.c2v[phi p d']!]! = _
          rw [hu2.2.2 _ (by rw [h4]; exact hdv d' (by omega)), h4]
    · right
      exact ⟨b', heq⟩
  unfold step2
  dsimp only
  by_cases h1 : (dopp[d]! == inv) = true
  · rw [if_pos h1]
    by_cases h2 : (t.opp[phi p d]! != inv) = true
    · right
      rw [if_pos h2]
      exact ⟨_, rfl⟩
    · rw [if_neg h2]
      have h1' : dopp[d]! = inv := by simpa using h1
      have h2' : t.opp[phi p d]! = inv := by simpa using h2
      exact hv ⟨by simp [h1', h2'], fun hne => absurd h1' hne⟩
  · rw [if_neg h1]
    by_cases h2 : (decide (dopp[d]! ≥ 3 * n) || phi p dopp[d]! != t.opp[phi p d]!) = true
    · right
      rw [if_pos h2]
      exact ⟨_, rfl⟩
    · rw [if_neg h2]
      have h1' : dopp[d]! ≠ inv := by simpa using h1
      have h2' : dopp[d]! < 3 * n ∧ phi p dopp[d]! = t.opp[phi p d]! := by
        simp only [Bool.or_eq_true, decide_eq_true_eq, bne_iff_ne, ne_eq, not_or, Decidable.not_not] at h2
        omega
      have h3 := hlt _ h2'.1
      refine hv ⟨⟨fun e => absurd e h1', fun e => ?_⟩, fun _ => h2'⟩
      rw [← h2'.2] at e
      omega

/-! ### soundness -/

/-- the two size checks at the head of `ctIso` -/
theorem ctIso_sizes (t : CT) (processed : Array Nat) (nf : Nat) (dc2v dopp : Array Nat)
    (h : ctIso t processed nf dc2v dopp = true) :
    nf = processed.size ∧ dc2v.size = 3 * nf ∧ dopp.size = 3 * nf := by
  unfold ctIso at h
  by_cases h1 : (nf != processed.size) = true
  · rw [if_pos h1] at h
    cases h
  · rw [if_neg h1] at h
    by_cases h2 : (dc2v.size != 3 * nf || dopp.size != 3 * nf) = true
    · rw [if_pos h2] at h
      cases h
    · simp only [Bool.or_eq_true, bne_iff_ne, ne_eq, not_or, Decidable.not_not] at h1 h2
      exact ⟨h1, h2.1, h2.2⟩

/-- **soundness of the evaluated checker**: if `ctIso` answers `true` then `CTIso` holds.

    The side conditions say that the value `inv` = `0xFFFFFFFF` really is "no corner / no vertex" on
    both sides (the checker, like the C++, uses it as the `none` of its maps): all encoder corners and
    all encoder vertices are below `inv` (then so are all decoder corners, `I1.corners_le`), and no
    decoder corner carries the vertex `inv`.  They hold for every table that fits the `uint32_t` index
    types of the C++; each of them is needed (e.g. with a decoder vertex `inv` the map `e2v` cannot tell
    "mapped to `inv`" from "unmapped" and the checker accepts a non-injective vertex map). -/
theorem ctIso_sound (t : CT) (processed : Array Nat) (numFaces : Nat) (dc2v dopp : Array Nat)
    (hC : t.numCorners ≤ inv) (hV : t.numVertices ≤ inv)
    (hdv : ∀ d, d < 3 * numFaces → dc2v[d]! ≠ inv)
    (h : ctIso t processed numFaces dc2v dopp = true) : CTIso t processed numFaces dc2v dopp := by
  obtain ⟨hf, hsz1, hsz2⟩ := ctIso_sizes t processed numFaces dc2v dopp h
  obtain ⟨hl1, hl2⟩ := ctIso_loops t processed numFaces dc2v dopp h
  -- first loop
  have k1 := loop_range (step1 t processed) (I1 t processed) (3 * numFaces) (Array.replicate t.numCorners inv)
    ⟨by simp, fun d' hd' => absurd hd' (Nat.not_lt_zero _)⟩ (step1_inv t processed numFaces)
  rcases k1 with bad | ⟨hn1, hI1⟩
  · exact absurd bad hl1
  have hF : 3 * numFaces ≤ inv := hI1.corners_le hC
  have hlt : ∀ d, d < 3 * numFaces → phi processed d < t.numCorners := fun d hd => (hI1.2 d hd).1
  -- second loop
  have k2 := loop_range (step2 t processed numFaces dc2v dopp)
    (I2 t processed numFaces dc2v dopp (dc2v.foldl (fun m v => max m (v + 1)) 0)) (3 * numFaces)
    (Array.replicate (dc2v.foldl (fun m v => max m (v + 1)) 0) inv, Array.replicate t.numVertices inv)
    ⟨by simp, by simp, fun d' hd' => absurd hd' (Nat.not_lt_zero _)⟩
    (step2_inv t processed numFaces dc2v dopp _ hC hV hdv hlt)
  rcases k2 with bad | ⟨_, hI2⟩
  · exact absurd bad (hl2 hn1)
  obtain ⟨_, _, hI2⟩ := hI2
  refine ⟨hf, ⟨hsz1, hsz2⟩, hlt, ?_, fun d hd => (hI2 d hd).1.1, fun d hd => (hI2 d hd).1.2,
    fun d hd => (hI2 d hd).2.2.1, ?_⟩
  · intro d d' hd hd' e
    have h1 := (hI1.2 d hd).2.1 (by omega)
    have h2 := (hI1.2 d' hd').2.1 (by omega)
    rw [e] at h1
    rw [← h1, h2]
  · intro d d' hd hd'
    obtain ⟨_, _, _, a1, b1⟩ := hI2 d hd
    obtain ⟨_, _, _, a2, b2⟩ := hI2 d' hd'
    constructor
    · intro e
      rw [← a1, ← a2, e]
    · intro e
      rw [← b1, ← b2, e]

/-! ### consequences: `phi` commutes with `Next` / `Previous` -/

theorem prevC_eq (c : Nat) (h : c < inv) : Eb.prevC c = if c % 3 = 0 then c + 2 else c - 1 := by
  unfold Eb.prevC inv at *
  have e1 : (c == 4294967295) = false := by simp; omega
  simp [e1]

theorem prevC_eq_nextC_nextC (c : Nat) (h : c < inv) : Eb.prevC c = Eb.nextC (Eb.nextC c) :=
  calc Eb.prevC c = Eb.prevC (Eb.nextC (Eb.nextC (Eb.nextC c))) := by rw [nextC_three c h]
    _ = Eb.nextC (Eb.nextC c) := prevC_nextC _ (nextC_lt _ (nextC_lt _ h))

theorem prevC_prevC_eb (c : Nat) (h : c < inv) : Eb.prevC (Eb.prevC c) = Eb.nextC c := by
  rw [prevC_eq_nextC_nextC c h, prevC_nextC _ (nextC_lt _ h)]

/-- `phi` is defined face-wise: it commutes with `Next` … -/
theorem phi_nextC (p : Array Nat) (d : Nat) (hd : d < inv) (hc : p[d / 3]! < inv) :
    phi p (Eb.nextC d) = Eb.nextC (phi p d) := by
  rw [nextC_eq d hd]
  unfold phi
  dsimp only
  have h3 : d % 3 = 0 ∨ d % 3 = 1 ∨ d % 3 = 2 := by omega
  rcases h3 with h | h | h
  · have e1 : (d + 1) / 3 = d / 3 := by omega
    have e2 : (d + 1) % 3 = 1 := by omega
    simp [h, e1, e2]
  · have e1 : (d + 1) / 3 = d / 3 := by omega
    have e2 : (d + 1) % 3 = 2 := by omega
    simp [h, e1, e2, prevC_eq_nextC_nextC _ hc]
  · have e1 : (d - 2) / 3 = d / 3 := by omega
    have e2 : (d - 2) % 3 = 0 := by omega
    simp [h, e1, e2, nextC_prevC _ hc]

/-- … and with `Previous` -/
theorem phi_prevC (p : Array Nat) (d : Nat) (hd : d < inv) (hc : p[d / 3]! < inv) :
    phi p (Eb.prevC d) = Eb.prevC (phi p d) := by
  rw [prevC_eq d hd]
  unfold phi
  dsimp only
  have h3 : d % 3 = 0 ∨ d % 3 = 1 ∨ d % 3 = 2 := by omega
  rcases h3 with h | h | h
  · have e1 : (d + 2) / 3 = d / 3 := by omega
    have e2 : (d + 2) % 3 = 2 := by omega
    simp [h, e1, e2]
  · have e1 : (d - 1) / 3 = d / 3 := by omega
    have e2 : (d - 1) % 3 = 0 := by omega
    simp [h, e1, e2, prevC_nextC _ hc]
  · have e1 : (d - 1) / 3 = d / 3 := by omega
    have e2 : (d - 1) % 3 = 1 := by omega
    simp [h, e1, e2, prevC_prevC_eb _ hc]

/-- the first corner of every processed face is a corner of the encoder's table -/
theorem CTIso.processed_lt {t : CT} {p : Array Nat} {n : Nat} {dc2v dopp : Array Nat}
    (h : CTIso t p n dc2v dopp) (i : Nat) (hi : i < n) : p[i]! < t.numCorners := by
  have := h.corner_lt (3 * i) (by omega)
  unfold phi at this
  have e1 : 3 * i / 3 = i := by omega
  have e2 : 3 * i % 3 = 0 := by omega
  simpa [e1, e2] using this

/-- the decoder's table has at most as many corners as the encoder's -/
theorem CTIso.corners_le {t : CT} {p : Array Nat} {n : Nat} {dc2v dopp : Array Nat}
    (h : CTIso t p n dc2v dopp) : 3 * n ≤ t.numCorners :=
  pigeon (phi p) (3 * n) t.numCorners h.corner_lt
    (fun i j hij hj e => absurd (h.inj i j (by omega) hj e) (by omega))

theorem CTIso.phi_nextC {t : CT} {p : Array Nat} {n : Nat} {dc2v dopp : Array Nat}
    (h : CTIso t p n dc2v dopp) (hC : t.numCorners ≤ inv) (d : Nat) (hd : d < 3 * n) :
    phi p (Eb.nextC d) = Eb.nextC (phi p d) := by
  have hF := h.corners_le
  exact Draco.EbEnc.phi_nextC p d (by omega) (by have := h.processed_lt (d / 3) (by omega); omega)

theorem CTIso.phi_prevC {t : CT} {p : Array Nat} {n : Nat} {dc2v dopp : Array Nat}
    (h : CTIso t p n dc2v dopp) (hC : t.numCorners ≤ inv) (d : Nat) (hd : d < 3 * n) :
    phi p (Eb.prevC d) = Eb.prevC (phi p d) := by
  have hF := h.corners_le
  exact Draco.EbEnc.phi_prevC p d (by omega) (by have := h.processed_lt (d / 3) (by omega); omega)

/-! ### consequences: the vertex bijection -/

/-- the vertex map induced by the corner map: a decoder vertex `v` (one carried by some decoder
    corner) goes to the encoder vertex of the image of the first decoder corner that carries `v`;
    `inv` for ids that do not occur -/
def psi (t : CT) (p : Array Nat) (n : Nat) (dc2v : Array Nat) (v : Nat) : Nat :=
  match (List.range (3 * n)).find? (fun d => dc2v[d]! == v) with
  | some d => t.c2v[phi p d]!
  | none => inv

/-- `psi` is the vertex component of the isomorphism: it maps the vertex of every decoder corner to
    the vertex of its image -/
theorem CTIso.psi_vertex {t : CT} {p : Array Nat} {n : Nat} {dc2v dopp : Array Nat}
    (h : CTIso t p n dc2v dopp) (d : Nat) (hd : d < 3 * n) :
    psi t p n dc2v dc2v[d]! = t.c2v[phi p d]! := by
  unfold psi
  cases hfind : (List.range (3 * n)).find? (fun d' => dc2v[d']! == dc2v[d]!) with
  | none =>
    have := List.find?_eq_none.mp hfind d (List.mem_range.mpr hd)
    simp at this
  | some d0 =>
    have h1 : dc2v[d0]! = dc2v[d]! := by simpa using List.find?_some hfind
    have h2 : d0 < 3 * n := List.mem_range.mp (List.mem_of_find?_eq_some hfind)
    exact (h.vertex d0 d h2 hd).mp h1

/-- `psi` is injective on the vertex ids that occur in the decoder's table … -/
theorem CTIso.psi_inj {t : CT} {p : Array Nat} {n : Nat} {dc2v dopp : Array Nat}
    (h : CTIso t p n dc2v dopp) (d d' : Nat) (hd : d < 3 * n) (hd' : d' < 3 * n)
    (e : psi t p n dc2v dc2v[d]! = psi t p n dc2v dc2v[d']!) : dc2v[d]! = dc2v[d']! := by
  rw [h.psi_vertex d hd, h.psi_vertex d' hd'] at e
  exact (h.vertex d d' hd hd').mpr e

/-- … with values among the vertices of the encoder's table -/
theorem CTIso.psi_lt {t : CT} {p : Array Nat} {n : Nat} {dc2v dopp : Array Nat}
    (h : CTIso t p n dc2v dopp) (d : Nat) (hd : d < 3 * n) : psi t p n dc2v dc2v[d]! < t.numVertices := by
  rw [h.psi_vertex d hd]
  exact h.vertex_lt d hd

/-! ### non-vacuity -/

/-- one triangle: the checker answers `true`, so `ctIso_sound` yields a `CTIso` -/
example : CTIso ⟨#[0, 1, 2], #[inv, inv, inv], #[0, 1, 2], 0, 0⟩ #[1] 1 #[7, 8, 9] #[inv, inv, inv] := by
  apply ctIso_sound
  · decide
  · decide
  · intro d hd
    have : d = 0 ∨ d = 1 ∨ d = 2 := by omega
    rcases this with rfl | rfl | rfl <;> decide
  · simp [ctIso, CT.numCorners, CT.numVertices, Id.run, Std.Legacy.Range.forIn_eq_forIn_range',
      Std.Legacy.Range.size, List.range'_succ, inv, Eb.nextC, Eb.prevC, bind, pure]

/-- two triangles sharing an edge, faces visited in the order 1, 0 starting at the corners 3 and 1, the
    decoder's vertices renamed: here `opp_map` and `vertex` have non-trivial instances -/
example : CTIso ⟨#[0, 1, 2, 2, 1, 3], #[5, inv, inv, inv, inv, 0], #[0, 1, 2, 5], 0, 0⟩ #[3, 1] 2
    #[10, 11, 12, 11, 10, 13] #[inv, inv, 5, inv, inv, 2] := by
  apply ctIso_sound
  · decide
  · decide
  · intro d hd
    have : d = 0 ∨ d = 1 ∨ d = 2 ∨ d = 3 ∨ d = 4 ∨ d = 5 := by omega
    rcases this with rfl | rfl | rfl | rfl | rfl | rfl <;> decide
  · simp [ctIso, CT.numCorners, CT.numVertices, Id.run, Std.Legacy.Range.forIn_eq_forIn_range',
      Std.Legacy.Range.size, List.range'_succ, inv, Eb.nextC, Eb.prevC, bind, pure]

end Draco.EbEnc
