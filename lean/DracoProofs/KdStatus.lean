import DracoModel.KdTreeAttr
import DracoModel.KdTreeLegacy
import DracoProofs.RobustStatus
/-
  DracoProofs.KdStatus — C02 status discipline of the kd-tree body decoder `Kd.decodeKdGeometry`: started with
  status `ok` it returns a geometry and leaves the status `ok`, or returns nothing and leaves a status different
  from `ok` — for every input.  A structural walk (only proofs; the kd model files are not touched).
-/
namespace Draco.Kd
open Draco Draco.DecM Draco.Robust

attribute [local irreducible] DecM.require DecM.lift DecM.alloc DecM.remaining DecM.version DecM.rdU8
  DecM.rdU16 DecM.rdU32 DecM.rdI8 DecM.rdI32 DecM.varint DecM.bytes DecM.replicateM' DecM.mapM'
  DecM.fail DecM.failWith DecM.declare DecM.andThen DecM.ret

/-- one step of the structural walk -/
macro "kddisc_step" : tactic => `(tactic| first
  | apply disc_bind
  | apply disc_ite
  | intro _
  | exact disc_pure _ | exact disc_fail | exact disc_failWith _ (by simp) | exact disc_require _
  | exact disc_rdU8 | exact disc_rdU16 | exact disc_rdU32 | exact disc_rdI8 | exact disc_rdI32
  | exact disc_varint _ | exact disc_bytes _ | exact disc_lift _ | exact disc_remaining | exact disc_version
  | exact disc_alloc _ _ | exact disc_declare _ | exact disc_ofOption _
  | exact disc_decodeAttDescs
  | apply disc_replicateM'
  | apply disc_mapM'
  | split)

theorem disc_startDirect : Disc startDirect := by
  unfold startDirect; repeat' kddisc_step

attribute [local irreducible] startDirect in
theorem disc_startNumbers (legacy : Bool) (level : Nat) : Disc (startNumbers legacy level) := by
  unfold startNumbers
  repeat' (first | exact disc_startDirect | kddisc_step)

attribute [local irreducible] startDirect startNumbers in
theorem disc_decodePoints (level dim maxPoints : Nat) : Disc (decodePoints level dim maxPoints) := by
  unfold decodePoints; dsimp only
  repeat' (first | exact disc_startDirect | exact disc_startNumbers _ _ | kddisc_step)

theorem disc_classifyOne (np : Nat) (d : AttDesc) (dim : Nat) : Disc (classifyOne np d dim) := by
  unfold classifyOne; dsimp only
  repeat' kddisc_step

theorem disc_classify (np : Nat) : ∀ (ds : List AttDesc) (dim : Nat), Disc (classify np ds dim)
  | [], dim => by simp only [classify]; exact disc_pure _
  | d :: ds, dim => by
    simp only [classify]
    exact disc_bind (disc_classifyOne np d dim) (fun _ => disc_bind (disc_classify np ds _) (fun _ => disc_pure _))

theorem disc_quantParamsOf (ka : KdAtt) : Disc (quantParamsOf ka) := by
  unfold quantParamsOf
  repeat' kddisc_step

theorem disc_decodeQuantParams : ∀ kas : List KdAtt, Disc (decodeQuantParams kas)
  | [] => by simp only [decodeQuantParams]; exact disc_pure _
  | ka :: kas => by
    simp only [decodeQuantParams]
    exact disc_bind (disc_quantParamsOf ka) (fun _ => disc_bind (disc_decodeQuantParams kas) (fun _ => disc_pure _))

theorem disc_signedMinsOf (ka : KdAtt) (t : KdTransform) : Disc (signedMinsOf ka t) := by
  unfold signedMinsOf
  repeat' kddisc_step

theorem disc_decodeSignedMins : ∀ (kas : List KdAtt) (ts : List KdTransform), Disc (decodeSignedMins kas ts)
  | [], _ => by simp only [decodeSignedMins]; exact disc_pure _
  | _ :: _, [] => by simp only [decodeSignedMins]; exact disc_pure _
  | ka :: kas, t :: ts => by
    simp only [decodeSignedMins]
    exact disc_bind (disc_signedMinsOf ka t) (fun _ => disc_bind (disc_decodeSignedMins kas ts) (fun _ => disc_pure _))

attribute [local irreducible] classify decodePoints decodeQuantParams decodeSignedMins in
theorem disc_decodeKdAttributes (opts : DecOpts) (np : Nat) (descs : List AttDesc) :
    Disc (decodeKdAttributes opts np descs) := by
  unfold decodeKdAttributes; dsimp only
  repeat' (first | exact disc_classify _ _ _ | exact disc_decodePoints _ _ _ | exact disc_decodeQuantParams _ | exact disc_decodeSignedMins _ _ | kddisc_step)

attribute [local irreducible] decodeKdAttributes in
theorem disc_decodePointAttributesKd (opts : DecOpts) (np : Nat) : Disc (decodePointAttributesKd opts np) := by
  unfold decodePointAttributesKd
  repeat' (first | exact disc_decodeKdAttributes _ _ _ | kddisc_step)

/-! ### the body of bitstreams older than 2.3 -/

attribute [local irreducible] startDirect startNumbers in
theorem disc_decodePointsL (legacy : Bool) (level dim maxPoints : Nat) : Disc (decodePointsL legacy level dim maxPoints) := by
  unfold decodePointsL; dsimp only
  repeat' (first | exact disc_startDirect | exact disc_startNumbers _ _ | kddisc_step)

theorem disc_allocTreeDecoder (dim : Nat) : Disc (allocTreeDecoder dim) := by
  unfold allocTreeDecoder; repeat' kddisc_step

theorem disc_allocOutputIterator (kas : List KdAtt) : Disc (allocOutputIterator kas) := by
  unfold allocOutputIterator; exact disc_alloc _ _

theorem disc_resetAll (np : Nat) : ∀ kas : List KdAtt, Disc (resetAll np kas)
  | [] => by simp only [resetAll]; exact disc_pure _
  | ka :: kas => by
    simp only [resetAll]
    exact disc_bind (disc_alloc _ _) (fun _ => disc_resetAll np kas)

attribute [local irreducible] decodePointsL allocTreeDecoder allocOutputIterator resetAll in
theorem disc_decodeLegacyInt (legacy : Bool) (np : Nat) (kas : List KdAtt) (dim : Nat) :
    Disc (decodeLegacyInt legacy np kas dim) := by
  unfold decodeLegacyInt
  repeat' (first | exact disc_decodePointsL _ _ _ _ | exact disc_allocTreeDecoder _ | exact disc_allocOutputIterator _ | exact disc_resetAll _ _ | kddisc_step)

theorem disc_floatTreeHeader : Disc floatTreeHeader := by
  unfold floatTreeHeader; repeat' kddisc_step

attribute [local irreducible] decodePointsL allocTreeDecoder in
theorem disc_floatTreePoints (legacy : Bool) (level np : Nat) : Disc (floatTreePoints legacy level np) := by
  unfold floatTreePoints
  repeat' (first | exact disc_decodePointsL _ _ _ _ | exact disc_allocTreeDecoder _ | kddisc_step)

attribute [local irreducible] floatTreePoints in
theorem disc_floatTreeInternal (legacy : Bool) (hp : Nat) : Disc (floatTreeInternal legacy hp) := by
  unfold floatTreeInternal
  repeat' (first | exact disc_floatTreePoints _ _ _ | kddisc_step)

attribute [local irreducible] floatTreeInternal floatTreeHeader allocOutputIterator in
theorem disc_decodeLegacyFloat (legacy : Bool) (np : Nat) (ka : KdAtt) : Disc (decodeLegacyFloat legacy np ka) := by
  unfold decodeLegacyFloat
  repeat' (first | exact disc_floatTreeInternal _ _ | exact disc_floatTreeHeader | exact disc_allocOutputIterator _ | kddisc_step)

attribute [local irreducible] decodeLegacyFloat decodeLegacyInt in
theorem disc_decodeLegacyMethod (legacy : Bool) (np : Nat) (kas : List KdAtt) (dim method : Nat) :
    Disc (decodeLegacyMethod legacy np kas dim method) := by
  unfold decodeLegacyMethod
  repeat' (first | exact disc_decodeLegacyFloat _ _ _ | exact disc_decodeLegacyInt _ _ _ _ | kddisc_step)

attribute [local irreducible] decodeLegacyMethod in
theorem disc_decodeKdAttributesLegacy (np : Nat) (descs : List AttDesc) : Disc (decodeKdAttributesLegacy np descs) := by
  unfold decodeKdAttributesLegacy
  repeat' (first | exact disc_decodeLegacyMethod _ _ _ _ _ | kddisc_step)

attribute [local irreducible] decodeKdAttributesLegacy in
theorem disc_decodePointAttributesKdLegacy (np : Nat) : Disc (decodePointAttributesKdLegacy np) := by
  unfold decodePointAttributesKdLegacy
  repeat' (first | exact disc_decodeKdAttributesLegacy _ _ | kddisc_step)

attribute [local irreducible] decodePointAttributesKdLegacy in
theorem disc_decodeKdGeometryLegacy : Disc decodeKdGeometryLegacy := by
  unfold decodeKdGeometryLegacy; dsimp only
  repeat' (first | exact disc_decodePointAttributesKdLegacy _ | kddisc_step)

attribute [local irreducible] decodePointAttributesKd decodeKdGeometryLegacy in
/-- **status discipline of the kd-tree body decoder**, every bitstream version (the dispatch to the body of streams
    older than 2.3 included) -/
theorem disc_decodeKdGeometry (opts : DecOpts) : Disc (decodeKdGeometry opts) := by
  unfold decodeKdGeometry; dsimp only
  repeat' (first | exact disc_decodeKdGeometryLegacy | exact disc_decodePointAttributesKd _ _ | kddisc_step)

end Draco.Kd
