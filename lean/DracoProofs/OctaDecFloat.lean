import DracoProofs.OctaAngle
/-
  C07, float half of the DECODER: `QuantizedOctahedralCoordsToUnitVector` /
  `OctahedralCoordsToUnitVector` (all `float`) under the standard rounding model, for ANY oracle
  with unit roundoff `u` (binary32: `u = 2^-24`), in the style of `quant_float_half_step` (C04).

  The oracle is real valued (the normalisation takes a square root).  `DecModel ops u`: `+ - * /`,
  `int → float` and `sqrt` return the exact result times `1 + δ`, `|δ| ≤ u` (no overflow /
  underflow); `fabs`, negation, comparisons and the literals are exact; the `double` comparison
  `norm_squared < 1e-6` is false for values `≥ 1/10`.

  * `octaVec_err`      the vector before normalisation is within `(23u, 55u, 55u)` of the exact
                       octahedral decode `wStar` of the grid point (sign decisions included);
  * `wStar_l1`         `|wStar|₁ = 1`;
  * `decoded_unit`     the decoded vector is `w·d` with `d > 0` up to one rounding per component,
                       the zero branch is not taken, `|‖decoded‖² − 1| ≤ 10u`.
-/
namespace Draco
namespace Octa

/-- the operations of the normalisation step -/
class OctaNormOps (F : Type) extends OctaDecOps F where
  sqrt : F → F
  /-- `static_cast<double>(norm_squared) < 1e-6` -/
  ltTiny : F → Bool

instance instOctaNormOpsFloat32 : OctaNormOps Float32 where
  toOctaDecOps := instOctaDecOpsFloat32
  sqrt := fun a => a.sqrt
  ltTiny := fun a => decide (a.toFloat < 1e-6)

open OctaDecOps OctaNormOps in
/-- the normalisation of `OctahedralCoordsToUnitVector`, generically -/
def normaliseG {F : Type} [OctaNormOps F] (w : F × F × F) : F × F × F :=
  let n2 : F := add (add (mul w.1 w.1) (mul w.2.1 w.2.1)) (mul w.2.2 w.2.2)
  if ltTiny n2 then (zero, zero, zero)
  else
    let d : F := div one (sqrt n2)
    (mul w.1 d, mul w.2.1 d, mul w.2.2 d)

/-- `QuantizedOctahedralCoordsToUnitVector`, generically -/
def coordsToUnitVectorG {F : Type} [OctaNormOps F] (maxV : Int) (p : Int × Int) : F × F × F :=
  normaliseG (octaVecG maxV p)

/-- the executable decoder of the model is the `Float32` instance -/
theorem coordsToUnitVector_eq_normG (t : OctaT) (p : Int × Int) :
    coordsToUnitVector t p = @coordsToUnitVectorG Float32 instOctaNormOpsFloat32 t.maxV p := by
  rw [coordsToUnitVector_eq_generic]
  unfold coordsToUnitVectorG normaliseG normalise32
  simp only [OctaDecOps.add, OctaDecOps.mul, OctaDecOps.div, OctaDecOps.zero, OctaDecOps.one,
    OctaNormOps.sqrt, OctaNormOps.ltTiny, decide_eq_true_eq]

/-- standard rounding model for the `float` operations of the decoder -/
structure DecModel (ops : OctaNormOps ℝ) (u : ℝ) : Prop where
  add : ∀ a b, ∃ δ : ℝ, |δ| ≤ u ∧ ops.add a b = (a + b) * (1 + δ)
  sub : ∀ a b, ∃ δ : ℝ, |δ| ≤ u ∧ ops.sub a b = (a - b) * (1 + δ)
  mul : ∀ a b, ∃ δ : ℝ, |δ| ≤ u ∧ ops.mul a b = (a * b) * (1 + δ)
  div : ∀ a b, b ≠ 0 → ∃ δ : ℝ, |δ| ≤ u ∧ ops.div a b = (a / b) * (1 + δ)
  ofInt : ∀ k : Int, ∃ δ : ℝ, |δ| ≤ u ∧ ops.ofInt k = (k : ℝ) * (1 + δ)
  sqrt : ∀ a, 0 ≤ a → ∃ δ : ℝ, |δ| ≤ u ∧ ops.sqrt a = Real.sqrt a * (1 + δ)
  abs : ∀ a, ops.abs a = |a|
  neg : ∀ a, ops.neg a = -a
  lt : ∀ a b, ops.lt a b = decide (a < b)
  zero : ops.zero = 0
  one : ops.one = 1
  two : ops.two = 2
  ltTiny : ∀ a, 1 / 10 ≤ a → ops.ltTiny a = false

/-- every operation biased by `1 + e` -/
@[reducible] noncomputable def biasedNormOps (e : ℝ) : OctaNormOps ℝ where
  add := fun a b => (a + b) * (1 + e)
  sub := fun a b => (a - b) * (1 + e)
  mul := fun a b => (a * b) * (1 + e)
  div := fun a b => (a / b) * (1 + e)
  abs := fun a => |a|
  neg := fun a => -a
  ofInt := fun k => (k : ℝ) * (1 + e)
  lt := fun a b => decide (a < b)
  zero := 0
  one := 1
  two := 2
  sqrt := fun a => Real.sqrt a * (1 + e)
  ltTiny := fun a => decide (a < 1 / 1000000)

theorem biasedNormOps_model (e u : ℝ) (h : |e| ≤ u) : DecModel (biasedNormOps e) u where
  add _ _ := ⟨e, h, rfl⟩
  sub _ _ := ⟨e, h, rfl⟩
  mul _ _ := ⟨e, h, rfl⟩
  div _ _ _ := ⟨e, h, rfl⟩
  ofInt _ := ⟨e, h, rfl⟩
  sqrt _ _ := ⟨e, h, rfl⟩
  abs _ := rfl
  neg _ := rfl
  lt _ _ := rfl
  zero := rfl
  one := rfl
  two := rfl
  ltTiny a ha := by
    show decide (a < 1 / 1000000) = false
    rw [decide_eq_false_iff_not]; linarith

/-! ### products of rounding factors (real versions of the lemmas of DracoProofs.QuantFloat) -/

theorem r_abs_mul_one_add {a α δ u : ℝ} (ha : |a - 1| ≤ α) (hδ : |δ| ≤ u) :
    |a * (1 + δ) - 1| ≤ α + u + α * u := by
  have e : a * (1 + δ) - 1 = ((a - 1) + δ) + (a - 1) * δ := by ring
  have h3 : |(a - 1) * δ| ≤ α * u := by
    rw [abs_mul]; exact mul_le_mul ha hδ (abs_nonneg _) (le_trans (abs_nonneg _) ha)
  have h4 := abs_add_le ((a - 1) + δ) ((a - 1) * δ)
  have h5 := abs_add_le (a - 1) δ
  rw [e]; linarith

theorem r_step {a c δ u : ℝ} (hu0 : 0 ≤ u) (hu : u ≤ 1/1024) (hc : c ≤ 16)
    (ha : |a - 1| ≤ c * u) (hδ : |δ| ≤ u) : |a * (1 + δ) - 1| ≤ (c + 1 + 1/64) * u := by
  have h := r_abs_mul_one_add ha hδ
  have h1 : c * u ≤ 1/64 := by nlinarith
  have h2 : c * u * u ≤ (1/64) * u := mul_le_mul_of_nonneg_right h1 hu0
  linarith

theorem r_one_add_pos {δ u : ℝ} (hu : u ≤ 1/1024) (hδ : |δ| ≤ u) : 1023/1024 ≤ 1 + δ := by
  have := (abs_le.mp hδ).1; linarith

theorem r_inv_bound {δ u : ℝ} (hu : u ≤ 1/1024) (hδ : |δ| ≤ u) :
    |1 / (1 + δ) - 1| ≤ (1024/1023) * u := by
  have hp := r_one_add_pos hu hδ
  have hpos : 0 < 1 + δ := by linarith
  have hy : 1 / (1 + δ) ≤ 1024/1023 := by
    rw [div_le_iff₀ hpos]; linarith
  have hy0 : 0 < 1 / (1 + δ) := by positivity
  have e : 1 / (1 + δ) - 1 = -δ * (1 / (1 + δ)) := by field_simp; ring
  rw [e, abs_mul, abs_neg, abs_of_pos hy0]
  calc |δ| * (1 / (1 + δ)) ≤ u * (1024/1023) :=
        mul_le_mul hδ hy hy0.le (le_trans (abs_nonneg _) hδ)
    _ = (1024/1023) * u := by ring

/-- three rounding factors and one inverse factor -/
theorem r_prodQ {u δ6 δ5 δ7 δ0 : ℝ} (hu0 : 0 ≤ u) (hu : u ≤ 1/1024)
    (h6 : |δ6| ≤ u) (h5 : |δ5| ≤ u) (h7 : |δ7| ≤ u) (h0 : |δ0| ≤ u) :
    |(1 + δ6) * (1 + δ5) * (1 + δ7) * (1 / (1 + δ0)) - 1| ≤ (41/10) * u := by
  have a1 : |(1 + δ6) - 1| ≤ 1 * u := by simpa using h6
  have a2 := r_step hu0 hu (by norm_num) a1 h5
  have a3 := r_step hu0 hu (by norm_num) a2 h7
  have b := r_inv_bound hu h0
  have c := r_abs_mul_one_add a3 (δ := 1 / (1 + δ0) - 1) b
  have e : (1 + δ6) * (1 + δ5) * (1 + δ7) * (1 + (1 / (1 + δ0) - 1))
      = (1 + δ6) * (1 + δ5) * (1 + δ7) * (1 / (1 + δ0)) := by ring
  rw [e] at c
  have hq : u * u ≤ u * (1/1024) := mul_le_mul_of_nonneg_left hu hu0
  norm_num at a3 c ⊢
  nlinarith

theorem relerr {a δ u : ℝ} (h : |δ| ≤ u) : |a * (1 + δ) - a| ≤ u * |a| := by
  have e : a * (1 + δ) - a = δ * a := by ring
  rw [e, abs_mul]
  exact mul_le_mul_of_nonneg_right h (abs_nonneg a)

/-! ### the two scaled coordinates -/

section model
variable (ops : OctaNormOps ℝ) {u : ℝ} (hm : DecModel ops u)
include hm

/-- `float(s) * dequantization_scale_ - 1.f` is within `10u` of `s/c − 1` -/
theorem coord_err (hu0 : 0 ≤ u) (hu : u ≤ 1/1024) (c : Int) (hc : 1 ≤ c) (s : Int) (hs0 : 0 ≤ s)
    (hs : s ≤ 2 * c) :
    |ops.sub (ops.mul (ops.ofInt s) (ops.div ops.two (ops.ofInt (2 * c)))) ops.one
        - ((s : ℝ) / c - 1)| ≤ 10 * u := by
  have hcr : (1:ℝ) ≤ c := by exact_mod_cast hc
  have hc0 : (0:ℝ) < c := by linarith
  obtain ⟨δ1, h1, e1⟩ := hm.ofInt s
  obtain ⟨δ2, h2, e2⟩ := hm.ofInt (2 * c)
  have p2 := r_one_add_pos hu h2
  have hne : ops.ofInt (2 * c) ≠ 0 := by
    rw [e2]; push_cast
    exact mul_ne_zero (by linarith) (by linarith)
  obtain ⟨δ3, h3, e3⟩ := hm.div ops.two (ops.ofInt (2 * c)) hne
  obtain ⟨δ4, h4, e4⟩ := hm.mul (ops.ofInt s) (ops.div ops.two (ops.ofInt (2 * c)))
  obtain ⟨δ5, h5, e5⟩ := hm.sub (ops.mul (ops.ofInt s) (ops.div ops.two (ops.ofInt (2 * c)))) ops.one
  rw [e5, e4, e3, e2, e1, hm.two, hm.one]
  push_cast
  set r : ℝ := (s : ℝ) / c with hr
  have hr0 : 0 ≤ r := div_nonneg (by exact_mod_cast hs0) hc0.le
  have hr2 : r ≤ 2 := by
    rw [hr, div_le_iff₀ hc0]
    have : (s : ℝ) ≤ 2 * c := by exact_mod_cast hs
    linarith
  set P : ℝ := (1 + δ1) * (1 + δ3) * (1 + δ4) * (1 / (1 + δ2)) with hP
  have hPb : |P - 1| ≤ (41/10) * u := r_prodQ hu0 hu h1 h3 h4 h2
  have ea : (s : ℝ) * (1 + δ1) * (2 / (2 * (c : ℝ) * (1 + δ2)) * (1 + δ3)) * (1 + δ4) = r * P := by
    rw [hr, hP]
    have : (1 + δ2) ≠ 0 := by linarith
    field_simp
  rw [ea]
  have e : (r * P - 1) * (1 + δ5) - (r - 1) = r * (P - 1) * (1 + δ5) + (r - 1) * δ5 := by ring
  rw [e]
  have b1 : |r * (P - 1) * (1 + δ5)| ≤ 2 * ((41/10) * u) * (1 + u) := by
    rw [abs_mul, abs_mul, abs_of_nonneg hr0]
    have : |1 + δ5| ≤ 1 + u := by
      rw [abs_le]; constructor <;> linarith [(abs_le.mp h5).1, (abs_le.mp h5).2]
    exact mul_le_mul (mul_le_mul hr2 hPb (abs_nonneg _) (by norm_num)) this (abs_nonneg _)
      (by positivity)
  have b2 : |(r - 1) * δ5| ≤ 1 * u := by
    rw [abs_mul]
    exact mul_le_mul (by rw [abs_le]; constructor <;> linarith) h5 (abs_nonneg _) (by norm_num)
  have hq : u * u ≤ u * (1/1024) := mul_le_mul_of_nonneg_left hu hu0
  have := abs_add_le (r * (P - 1) * (1 + δ5)) ((r - 1) * δ5)
  nlinarith

end model

/-! ### the exact octahedral decode and the sign decisions -/

/-- the exact value of the vector before normalisation, from the exact scaled coordinates -/
noncomputable def wStar (y z : ℝ) : ℝ × ℝ × ℝ :=
  let x := 1 - |y| - |z|
  let o := if -x < 0 then 0 else -x
  (x, y + (if y < 0 then o else -o), z + (if z < 0 then o else -o))

/-- the decoded point lies on the unit octahedron -/
theorem wStar_l1 (y z : ℝ) (hy : |y| ≤ 1) (hz : |z| ≤ 1) :
    |(wStar y z).1| + |(wStar y z).2.1| + |(wStar y z).2.2| = 1 := by
  unfold wStar
  simp only
  have ha := abs_nonneg y
  have hb := abs_nonneg z
  by_cases hx : 0 ≤ 1 - |y| - |z|
  · have h0 : ¬ (-(1 - |y| - |z|) < 0) ∨ (1 - |y| - |z| = 0) ∨ True := Or.inr (Or.inr trivial)
    by_cases hx0 : -(1 - |y| - |z|) < 0
    · simp only [hx0, if_true, neg_zero, ite_self, add_zero]
      rw [abs_of_nonneg hx]; linarith
    · have : 1 - |y| - |z| = 0 := by linarith
      simp only [this, neg_zero, ite_self, add_zero, abs_zero]
      linarith
  · have hx' : ¬ (-(1 - |y| - |z|) < 0) := by linarith
    simp only [hx', if_false, neg_neg]
    have hxn : 1 - |y| - |z| < 0 := by linarith
    rw [abs_of_neg hxn]
    obtain ⟨a, hA⟩ : ∃ a, a = |y| := ⟨_, rfl⟩
    obtain ⟨b, hB⟩ : ∃ b, b = |z| := ⟨_, rfl⟩
    simp only [← hA, ← hB] at hxn hy hz ha hb ⊢
    have hy' : |y + (if y < 0 then -(1 - a - b) else 1 - a - b)| = 1 - b := by
      by_cases h : y < 0
      · simp only [h, if_true]
        rw [abs_of_neg h] at hA
        rw [abs_of_nonpos (by linarith)]; linarith
      · simp only [h, if_false]
        rw [abs_of_nonneg (not_lt.mp h)] at hA
        rw [abs_of_nonneg (by linarith)]; linarith
    have hz' : |z + (if z < 0 then -(1 - a - b) else 1 - a - b)| = 1 - a := by
      by_cases h : z < 0
      · simp only [h, if_true]
        rw [abs_of_neg h] at hB
        rw [abs_of_nonpos (by linarith)]; linarith
      · simp only [h, if_false]
        rw [abs_of_nonneg (not_lt.mp h)] at hB
        rw [abs_of_nonneg (by linarith)]; linarith
    rw [hy', hz']; ring

/-- the sign decision `y < 0 ? y + off : y − off` is stable: a perturbation `e` of `y` and `ex`
    of the first coordinate changes the result by at most `3e + ex` -/
theorem sign_step (y0 ys zs xt xs e ex : ℝ) (he : |y0 - ys| ≤ e) (hex : |xt - xs| ≤ ex)
    (hxs : xs = 1 - |ys| - |zs|) (hzs : |zs| ≤ 1) :
    |(y0 + if y0 < 0 then (if -xt < 0 then 0 else -xt) else -(if -xt < 0 then 0 else -xt))
      - (ys + if ys < 0 then (if -xs < 0 then 0 else -xs) else -(if -xs < 0 then 0 else -xs))|
      ≤ 3 * e + ex := by
  obtain ⟨e1, e2⟩ := abs_le.mp he
  obtain ⟨x1, x2⟩ := abs_le.mp hex
  have hz0 := abs_nonneg zs
  have he0 : 0 ≤ e := le_trans (abs_nonneg _) he
  have hex0 : 0 ≤ ex := le_trans (abs_nonneg _) hex
  -- offsets
  set o := (if -xt < 0 then (0:ℝ) else -xt) with ho
  set os := (if -xs < 0 then (0:ℝ) else -xs) with hos
  have ho0 : 0 ≤ o := by rw [ho]; split <;> linarith
  have hos0 : 0 ≤ os := by rw [hos]; split <;> linarith
  have hoo : |o - os| ≤ ex := by
    rw [ho, hos, abs_le]
    split <;> split <;> constructor <;> linarith
  obtain ⟨o1, o2⟩ := abs_le.mp hoo
  by_cases h0 : y0 < 0 <;> by_cases hs : ys < 0
  · simp only [h0, hs, if_true]
    rw [abs_le]; constructor <;> linarith
  · -- y0 < 0 ≤ ys: both within e of 0
    simp only [h0, hs, if_true, if_false]
    have hys : |ys| ≤ e := by rw [abs_of_nonneg (not_lt.mp hs)]; linarith
    have hos_le : os ≤ e := by
      rw [hos]; split
      · exact he0
      · linarith
    rw [abs_le]; constructor <;> linarith [not_lt.mp hs]
  · simp only [h0, hs, if_true, if_false]
    have hys : |ys| ≤ e := by rw [abs_of_neg hs]; linarith [not_lt.mp h0]
    have hos_le : os ≤ e := by
      rw [hos]; split
      · exact he0
      · linarith
    rw [abs_le]; constructor <;> linarith [not_lt.mp h0]
  · simp only [h0, hs, if_false]
    rw [abs_le]; constructor <;> linarith

open OctaDecOps in
/-- `float(s) * dequantization_scale_ - 1.f` -/
def coordG {F : Type} [OctaDecOps F] (maxV s : Int) : F :=
  sub (mul (ofInt s) (div two (ofInt maxV))) one

open OctaDecOps in
/-- `OctahedralCoordsToUnitVector` before the normalisation -/
def octaTailG {F : Type} [OctaDecOps F] (y z : F) : F × F × F :=
  let x : F := sub (sub one (abs y)) (abs z)
  let xOff : F := neg x
  let xOff : F := if lt xOff zero then zero else xOff
  let y : F := add y (if lt y zero then xOff else neg xOff)
  let z : F := add z (if lt z zero then xOff else neg xOff)
  (x, y, z)

theorem octaVecG_eq_tail {F : Type} [OctaDecOps F] (maxV : Int) (p : Int × Int) :
    (octaVecG maxV p : F × F × F) = octaTailG (coordG maxV p.1) (coordG maxV p.2) := rfl

theorem mul_small {a δ B u : ℝ} (ha : |a| ≤ B) (hδ : |δ| ≤ u) : |a * δ| ≤ B * u := by
  rw [abs_mul]
  exact mul_le_mul ha hδ (abs_nonneg _) (le_trans (abs_nonneg _) ha)

/-- one more rounding on a value that is within `B·u` of a target of magnitude ≤ 1 -/
theorem final_round {T ws δ u B : ℝ} (hu0 : 0 ≤ u) (hT : |T - ws| ≤ B * u) (hws : |ws| ≤ 1)
    (hδ : |δ| ≤ u) (hB : B * u ≤ 1) : |T * (1 + δ) - ws| ≤ (B + 2) * u := by
  obtain ⟨t1, t2⟩ := abs_le.mp hT
  obtain ⟨w1, w2⟩ := abs_le.mp hws
  have hTb : |T| ≤ 2 := by rw [abs_le]; constructor <;> linarith
  obtain ⟨k1, k2⟩ := abs_le.mp (mul_small hTb hδ)
  have e : T * (1 + δ) - ws = (T - ws) + T * δ := by ring
  rw [e, abs_le]; constructor <;> linarith

/-- the first coordinate `(1 − |y|)(1+δ) − |z|)(1+δ')` -/
theorem x_err {a0 b0 as bs δ6 δ7 u : ℝ} (hu0 : 0 ≤ u) (hu : u ≤ 1/1024)
    (ha : |a0 - as| ≤ 10 * u) (hb : |b0 - bs| ≤ 10 * u) (has0 : 0 ≤ as) (has1 : as ≤ 1)
    (hbs0 : 0 ≤ bs) (hbs1 : bs ≤ 1) (h6 : |δ6| ≤ u) (h7 : |δ7| ≤ u) :
    |((1 - a0) * (1 + δ6) - b0) * (1 + δ7) - (1 - as - bs)| ≤ 23 * u := by
  obtain ⟨a1, a2⟩ := abs_le.mp ha
  obtain ⟨b1, b2⟩ := abs_le.mp hb
  have h1 : |1 - a0| ≤ 2 := by rw [abs_le]; constructor <;> linarith
  obtain ⟨k1, k2⟩ := abs_le.mp (mul_small h1 h6)
  have h2 : |(1 - a0) * (1 + δ6) - b0| ≤ 2 := by
    have : (1 - a0) * (1 + δ6) - b0 = (1 - a0) + (1 - a0) * δ6 - b0 := by ring
    rw [this, abs_le]; constructor <;> linarith
  obtain ⟨m1, m2⟩ := abs_le.mp (mul_small h2 h7)
  -- sharper: both products are at most 1.03 u; use the crude factor 2 only where it is free
  have h1' : |1 - a0| ≤ 1 + 10 * u := by rw [abs_le]; constructor <;> linarith
  obtain ⟨k1', k2'⟩ := abs_le.mp (mul_small h1' h6)
  have hq : u * u ≤ u * (1/1024) := mul_le_mul_of_nonneg_left hu hu0
  have h2' : |(1 - a0) * (1 + δ6) - b0| ≤ 1 + 22 * u := by
    have : (1 - a0) * (1 + δ6) - b0 = (1 - a0) + (1 - a0) * δ6 - b0 := by ring
    rw [this, abs_le]; constructor <;> nlinarith
  obtain ⟨m1', m2'⟩ := abs_le.mp (mul_small h2' h7)
  have e : ((1 - a0) * (1 + δ6) - b0) * (1 + δ7) - (1 - as - bs)
      = (as - a0) + (bs - b0) + (1 - a0) * δ6 + ((1 - a0) * (1 + δ6) - b0) * δ7 := by ring
  rw [e, abs_le]; constructor <;> nlinarith

section model2
variable (ops : OctaNormOps ℝ) {u : ℝ} (hm : DecModel ops u)
include hm

/-- the tail under the model: perturbations `e = 10u` of the scaled coordinates give
    `(23u, 55u, 55u)` on the vector -/
theorem octaTail_err (hu0 : 0 ≤ u) (hu : u ≤ 1/1024) (y0 z0 ys zs : ℝ)
    (hy : |y0 - ys| ≤ 10 * u) (hz : |z0 - zs| ≤ 10 * u) (hys : |ys| ≤ 1) (hzs : |zs| ≤ 1) :
    |(@octaTailG ℝ ops.toOctaDecOps y0 z0).1 - (wStar ys zs).1| ≤ 23 * u ∧
    |(@octaTailG ℝ ops.toOctaDecOps y0 z0).2.1 - (wStar ys zs).2.1| ≤ 55 * u ∧
    |(@octaTailG ℝ ops.toOctaDecOps y0 z0).2.2 - (wStar ys zs).2.2| ≤ 55 * u := by
  have hay : |(|y0| - |ys|)| ≤ 10 * u := le_trans (abs_abs_sub_abs_le_abs_sub y0 ys) hy
  have haz : |(|z0| - |zs|)| ≤ 10 * u := le_trans (abs_abs_sub_abs_le_abs_sub z0 zs) hz
  -- first coordinate
  obtain ⟨δ6, h6, e6⟩ := hm.sub ops.one (ops.abs y0)
  obtain ⟨δ7, h7, e7⟩ := hm.sub (ops.sub ops.one (ops.abs y0)) (ops.abs z0)
  obtain ⟨xs, hxs⟩ : ∃ xs : ℝ, xs = 1 - |ys| - |zs| := ⟨_, rfl⟩
  obtain ⟨xt, hxt⟩ : ∃ xt : ℝ, xt = ops.sub (ops.sub ops.one (ops.abs y0)) (ops.abs z0) := ⟨_, rfl⟩
  have hxt' : xt = ((1 - |y0|) * (1 + δ6) - |z0|) * (1 + δ7) := by
    rw [hxt, e7, e6, hm.one, hm.abs, hm.abs]
  have hxerr : |xt - xs| ≤ 23 * u := by
    rw [hxt', hxs]
    exact x_err hu0 hu hay haz (abs_nonneg _) hys (abs_nonneg _) hzs h6 h7
  have hx1 : (wStar ys zs).1 = xs := by rw [hxs]; rfl
  have ht1 : (@octaTailG ℝ ops.toOctaDecOps y0 z0).1 = xt := by rw [hxt]; rfl
  have hw1 := wStar_l1 ys zs hys hzs
  have hB : (53:ℝ) * u ≤ 1 := by linarith
  refine ⟨by rw [hx1, ht1]; exact hxerr, ?_, ?_⟩
  · -- second coordinate
    have hs := sign_step y0 ys zs xt xs (10 * u) (23 * u) hy hxerr hxs hzs
    have hws : (wStar ys zs).2.1
        = ys + if ys < 0 then (if -xs < 0 then 0 else -xs) else -(if -xs < 0 then 0 else -xs) := by
      rw [hxs]; rfl
    have hwb : |(wStar ys zs).2.1| ≤ 1 := by
      have := abs_nonneg (wStar ys zs).1
      have := abs_nonneg (wStar ys zs).2.2
      linarith
    obtain ⟨δ8, h8, e8⟩ := hm.add y0
      (if y0 < 0 then (if -xt < 0 then 0 else -xt) else -(if -xt < 0 then 0 else -xt))
    have hval : (@octaTailG ℝ ops.toOctaDecOps y0 z0).2.1
        = (y0 + if y0 < 0 then (if -xt < 0 then 0 else -xt) else -(if -xt < 0 then 0 else -xt))
          * (1 + δ8) := by
      rw [← e8, hxt]
      show ops.add y0 (if ops.lt y0 ops.zero = true then
          (if ops.lt (ops.neg _) ops.zero = true then ops.zero else ops.neg _)
        else ops.neg (if ops.lt (ops.neg _) ops.zero = true then ops.zero else ops.neg _)) = _
      simp only [hm.lt, hm.neg, hm.zero, decide_eq_true_eq]
    rw [hval]
    rw [hws] at hwb ⊢
    have h53 : (3:ℝ) * (10 * u) + 23 * u = 53 * u := by ring
    rw [h53] at hs
    have := final_round hu0 hs hwb h8 hB
    linarith
  · -- third coordinate (the roles of y and z exchanged)
    have hxs' : xs = 1 - |zs| - |ys| := by rw [hxs]; ring
    have hs := sign_step z0 zs ys xt xs (10 * u) (23 * u) hz hxerr hxs' hys
    have hws : (wStar ys zs).2.2
        = zs + if zs < 0 then (if -xs < 0 then 0 else -xs) else -(if -xs < 0 then 0 else -xs) := by
      rw [hxs]; rfl
    have hwb : |(wStar ys zs).2.2| ≤ 1 := by
      have := abs_nonneg (wStar ys zs).1
      have := abs_nonneg (wStar ys zs).2.1
      linarith
    obtain ⟨δ8, h8, e8⟩ := hm.add z0
      (if z0 < 0 then (if -xt < 0 then 0 else -xt) else -(if -xt < 0 then 0 else -xt))
    have hval : (@octaTailG ℝ ops.toOctaDecOps y0 z0).2.2
        = (z0 + if z0 < 0 then (if -xt < 0 then 0 else -xt) else -(if -xt < 0 then 0 else -xt))
          * (1 + δ8) := by
      rw [← e8, hxt]
      show ops.add z0 (if ops.lt z0 ops.zero = true then
          (if ops.lt (ops.neg _) ops.zero = true then ops.zero else ops.neg _)
        else ops.neg (if ops.lt (ops.neg _) ops.zero = true then ops.zero else ops.neg _)) = _
      simp only [hm.lt, hm.neg, hm.zero, decide_eq_true_eq]
    rw [hval]
    rw [hws] at hwb ⊢
    have h53 : (3:ℝ) * (10 * u) + 23 * u = 53 * u := by ring
    rw [h53] at hs
    have := final_round hu0 hs hwb h8 hB
    linarith

/-- the vector before normalisation is within `(23u, 55u, 55u)` of the exact decode of the
    grid point `(s, t)`, `0 ≤ s, t ≤ 2c` -/
theorem octaVec_err (hu0 : 0 ≤ u) (hu : u ≤ 1/1024) (c : Int) (hc : 1 ≤ c) (s t : Int)
    (hs0 : 0 ≤ s) (hs : s ≤ 2 * c) (ht0 : 0 ≤ t) (ht : t ≤ 2 * c) :
    |(@octaVecG ℝ ops.toOctaDecOps (2 * c) (s, t)).1 - (wStar ((s:ℝ) / c - 1) ((t:ℝ) / c - 1)).1|
      ≤ 23 * u ∧
    |(@octaVecG ℝ ops.toOctaDecOps (2 * c) (s, t)).2.1
        - (wStar ((s:ℝ) / c - 1) ((t:ℝ) / c - 1)).2.1| ≤ 55 * u ∧
    |(@octaVecG ℝ ops.toOctaDecOps (2 * c) (s, t)).2.2
        - (wStar ((s:ℝ) / c - 1) ((t:ℝ) / c - 1)).2.2| ≤ 55 * u := by
  rw [octaVecG_eq_tail]
  have hc0 : (0:ℝ) < c := by exact_mod_cast (by omega : (0:Int) < c)
  have hb : ∀ k : Int, 0 ≤ k → k ≤ 2 * c → |(k:ℝ) / c - 1| ≤ 1 := by
    intro k k0 k1
    have h0 : (0:ℝ) ≤ (k:ℝ) / c := div_nonneg (by exact_mod_cast k0) hc0.le
    have h2 : (k:ℝ) / c ≤ 2 := by
      rw [div_le_iff₀ hc0]
      have : (k:ℝ) ≤ 2 * c := by exact_mod_cast k1
      linarith
    rw [abs_le]; constructor <;> linarith
  exact octaTail_err ops hm hu0 hu _ _ _ _ (coord_err ops hm hu0 hu c hc s hs0 hs)
    (coord_err ops hm hu0 hu c hc t ht0 ht) (hb s hs0 hs) (hb t ht0 ht)

end model2

/-! ### the normalisation -/

theorem r_mul_err {a b α β : ℝ} (ha : |a - 1| ≤ α) (hb : |b - 1| ≤ β) :
    |a * b - 1| ≤ α + β + α * β := by
  have := r_abs_mul_one_add (a := a) (δ := b - 1) ha hb
  have e : a * (1 + (b - 1)) = a * b := by ring
  rwa [e] at this

theorem lin_collapse {u a b c : ℝ} (hu0 : 0 ≤ u) (hu : u ≤ 1/1024) (ha : 0 ≤ a) (hb : 0 ≤ b)
    (h : a + b + a * b / 1024 ≤ c) : a * u + b * u + (a * u) * (b * u) ≤ c * u := by
  have hq : u * u ≤ u * (1/1024) := mul_le_mul_of_nonneg_left hu hu0
  have hab : 0 ≤ a * b := mul_nonneg ha hb
  have h1 : (a * u) * (b * u) = (a * b) * (u * u) := by ring
  have h2 : (a * b) * (u * u) ≤ (a * b) * (u * (1/1024)) := mul_le_mul_of_nonneg_left hq hab
  have h3 : (a + b + a * b / 1024) * u ≤ c * u := mul_le_mul_of_nonneg_right h hu0
  rw [h1]
  have h4 : (a * b) * (u * (1/1024)) = (a * b / 1024) * u := by ring
  nlinarith

/-- weighted mean of three factors close to 1 -/
theorem mean3 {X Y Z p q r κ : ℝ} (hX : 0 ≤ X) (hY : 0 ≤ Y) (hZ : 0 ≤ Z)
    (hp : |p - 1| ≤ κ) (hq : |q - 1| ≤ κ) (hr : |r - 1| ≤ κ) :
    |X * p + Y * q + Z * r - (X + Y + Z)| ≤ κ * (X + Y + Z) := by
  obtain ⟨p1, p2⟩ := abs_le.mp hp
  obtain ⟨q1, q2⟩ := abs_le.mp hq
  obtain ⟨r1, r2⟩ := abs_le.mp hr
  rw [abs_le]; constructor <;> nlinarith

section model3
variable (ops : OctaNormOps ℝ) {u : ℝ} (hm : DecModel ops u)
include hm

/-- `OctahedralCoordsToUnitVector`'s normalisation of a vector with `‖w‖² ≥ 3/20`: the zero branch
    is not taken, the result is `w·d` with `d > 0` up to one rounding per component, and its
    squared length is within `10u` of 1 -/
theorem normalise_spec (hu0 : 0 ≤ u) (hu : u ≤ 1/1024) (w : ℝ × ℝ × ℝ)
    (hN : 3/20 ≤ w.1 ^ 2 + w.2.1 ^ 2 + w.2.2 ^ 2) :
    ∃ d c1 c2 c3 : ℝ, 0 < d ∧ |c1| ≤ u ∧ |c2| ≤ u ∧ |c3| ≤ u ∧
      @normaliseG ℝ ops w = (w.1 * d * (1 + c1), w.2.1 * d * (1 + c2), w.2.2 * d * (1 + c3)) ∧
      |(w.1 * d * (1 + c1)) ^ 2 + (w.2.1 * d * (1 + c2)) ^ 2 + (w.2.2 * d * (1 + c3)) ^ 2 - 1|
        ≤ 10 * u := by
  obtain ⟨x, y, z⟩ := w
  simp only at hN ⊢
  set N := x ^ 2 + y ^ 2 + z ^ 2 with hNdef
  have hN0 : 0 < N := by linarith
  obtain ⟨a1, ha1, e1⟩ := hm.mul x x
  obtain ⟨a2, ha2, e2⟩ := hm.mul y y
  obtain ⟨a3, ha3, e3⟩ := hm.mul z z
  obtain ⟨a4, ha4, e4⟩ := hm.add (ops.mul x x) (ops.mul y y)
  obtain ⟨a5, ha5, e5⟩ := hm.add (ops.add (ops.mul x x) (ops.mul y y)) (ops.mul z z)
  obtain ⟨n2, hn2⟩ : ∃ n2 : ℝ, n2 = ops.add (ops.add (ops.mul x x) (ops.mul y y)) (ops.mul z z) :=
    ⟨_, rfl⟩
  -- n2 = X p + Y q + Z r with three-factor products
  have one1 : |(1 + a1) - 1| ≤ 1 * u := by simpa using ha1
  have one2 : |(1 + a2) - 1| ≤ 1 * u := by simpa using ha2
  have one3 : |(1 + a3) - 1| ≤ 1 * u := by simpa using ha3
  have p3 : |(1 + a1) * (1 + a4) * (1 + a5) - 1| ≤ (304/100) * u := by
    have := r_step hu0 hu (by norm_num) (r_step hu0 hu (by norm_num) one1 ha4) ha5
    norm_num at this ⊢; linarith
  have q3 : |(1 + a2) * (1 + a4) * (1 + a5) - 1| ≤ (304/100) * u := by
    have := r_step hu0 hu (by norm_num) (r_step hu0 hu (by norm_num) one2 ha4) ha5
    norm_num at this ⊢; linarith
  have r3 : |(1 + a3) * (1 + a5) - 1| ≤ (304/100) * u := by
    have := r_step hu0 hu (by norm_num) one3 ha5
    norm_num at this ⊢; linarith
  have en2 : n2 = x ^ 2 * ((1 + a1) * (1 + a4) * (1 + a5)) + y ^ 2 * ((1 + a2) * (1 + a4) * (1 + a5))
      + z ^ 2 * ((1 + a3) * (1 + a5)) := by
    rw [hn2, e5, e4, e1, e2, e3]; ring
  have hn2N : |n2 - N| ≤ (304/100) * u * N := by
    rw [en2, hNdef]
    exact mean3 (sq_nonneg x) (sq_nonneg y) (sq_nonneg z) p3 q3 r3
  obtain ⟨n1, n2'⟩ := abs_le.mp hn2N
  have huN : (304/100) * u * N ≤ (1/300) * N := by
    have : (304/100) * u ≤ 1/300 := by linarith
    exact mul_le_mul_of_nonneg_right this hN0.le
  have hn2lo : 1/10 ≤ n2 := by linarith
  have hn2pos : 0 < n2 := by linarith
  -- ρ = n2 / N
  have hρ : |n2 / N - 1| ≤ (304/100) * u := by
    have : n2 / N - 1 = (n2 - N) / N := by field_simp
    rw [this, abs_div, abs_of_pos hN0, div_le_iff₀ hN0]; exact hn2N
  have hρinv : |N / n2 - 1| ≤ (306/100) * u := by
    have : N / n2 - 1 = -(n2 - N) / n2 := by field_simp; ring
    rw [this, abs_div, abs_neg, abs_of_pos hn2pos, div_le_iff₀ hn2pos]
    have : (304/100) * u * N ≤ (306/100) * u * n2 := by nlinarith
    linarith
  -- the normalisation
  obtain ⟨b1, hb1, f1⟩ := hm.sqrt n2 hn2pos.le
  have hsq : 0 < Real.sqrt n2 := Real.sqrt_pos.mpr hn2pos
  have pb1 := r_one_add_pos hu hb1
  have hr0 : ops.sqrt n2 ≠ 0 := by
    rw [f1]; exact mul_ne_zero (ne_of_gt hsq) (by linarith)
  obtain ⟨b2, hb2, f2⟩ := hm.div ops.one (ops.sqrt n2) hr0
  have pb2 := r_one_add_pos hu hb2
  obtain ⟨d, hd⟩ : ∃ d : ℝ, d = ops.div ops.one (ops.sqrt n2) := ⟨_, rfl⟩
  have hdval : d = 1 / (Real.sqrt n2 * (1 + b1)) * (1 + b2) := by rw [hd, f2, f1, hm.one]
  have hdpos : 0 < d := by
    rw [hdval]; exact mul_pos (one_div_pos.mpr (mul_pos hsq (by linarith))) (by linarith)
  obtain ⟨c1, hc1, g1⟩ := hm.mul x d
  obtain ⟨c2, hc2, g2⟩ := hm.mul y d
  obtain ⟨c3, hc3, g3⟩ := hm.mul z d
  refine ⟨d, c1, c2, c3, hdpos, hc1, hc2, hc3, ?_, ?_⟩
  · unfold normaliseG
    simp only
    rw [← hn2]
    simp only [hm.ltTiny n2 hn2lo, Bool.false_eq_true, if_false]
    rw [← hd, g1, g2, g3]
  · -- squared length
    have hd2 : d ^ 2 = (1 / n2) * ((1 + b2) * (1 + b2) * (1 / (1 + b1)) * (1 / (1 + b1))) := by
      rw [hdval]
      have h1 : (1 + b1) ≠ 0 := by linarith
      have h2 : Real.sqrt n2 ≠ 0 := ne_of_gt hsq
      field_simp
      rw [Real.sq_sqrt hn2pos.le]
    have sq1 : |(1 + c1) * (1 + c1) - 1| ≤ (202/100) * u := by
      have one : |(1 + c1) - 1| ≤ 1 * u := by simpa using hc1
      have := r_step hu0 hu (by norm_num) one hc1
      norm_num at this ⊢; linarith
    have sq2 : |(1 + c2) * (1 + c2) - 1| ≤ (202/100) * u := by
      have one : |(1 + c2) - 1| ≤ 1 * u := by simpa using hc2
      have := r_step hu0 hu (by norm_num) one hc2
      norm_num at this ⊢; linarith
    have sq3 : |(1 + c3) * (1 + c3) - 1| ≤ (202/100) * u := by
      have one : |(1 + c3) - 1| ≤ 1 * u := by simpa using hc3
      have := r_step hu0 hu (by norm_num) one hc3
      norm_num at this ⊢; linarith
    set QN := x ^ 2 * ((1 + c1) * (1 + c1)) + y ^ 2 * ((1 + c2) * (1 + c2))
      + z ^ 2 * ((1 + c3) * (1 + c3)) with hQN
    have hQ : |QN / N - 1| ≤ (202/100) * u := by
      have h := mean3 (sq_nonneg x) (sq_nonneg y) (sq_nonneg z) sq1 sq2 sq3
      have : QN / N - 1 = (QN - N) / N := by field_simp
      rw [this, abs_div, abs_of_pos hN0, div_le_iff₀ hN0]
      exact h
    have eL : (x * d * (1 + c1)) ^ 2 + (y * d * (1 + c2)) ^ 2 + (z * d * (1 + c3)) ^ 2
        = (QN / N) * (N / n2) * (1 + b2) * (1 + b2) * (1 / (1 + b1)) * (1 / (1 + b1)) := by
      have : (x * d * (1 + c1)) ^ 2 + (y * d * (1 + c2)) ^ 2 + (z * d * (1 + c3)) ^ 2
          = QN * d ^ 2 := by rw [hQN]; ring
      rw [this, hd2]
      have hNne : N ≠ 0 := ne_of_gt hN0
      have hn2ne : n2 ≠ 0 := ne_of_gt hn2pos
      field_simp
    rw [eL]
    have hq : u * u ≤ u * (1/1024) := mul_le_mul_of_nonneg_left hu hu0
    have t1 : |(QN / N) * (N / n2) - 1| ≤ (509/100) * u := by
      refine le_trans (r_mul_err hQ hρinv) ?_
      exact lin_collapse hu0 hu (by norm_num) (by norm_num) (by norm_num)
    have t2 := r_step hu0 hu (by norm_num) t1 hb2
    have t3 := r_step hu0 hu (by norm_num) t2 hb2
    have i1 := r_inv_bound hu hb1
    have t4' : |(QN / N) * (N / n2) * (1 + b2) * (1 + b2) * (1 / (1 + b1)) - 1| ≤ (82/10) * u := by
      norm_num at t3
      refine le_trans (r_mul_err t3 i1) ?_
      exact lin_collapse hu0 hu (by norm_num) (by norm_num) (by norm_num)
    refine le_trans (r_mul_err t4' i1) ?_
    exact lin_collapse hu0 hu (by norm_num) (by norm_num) (by norm_num)

end model3

/-- a vector close to a point of the unit octahedron has squared length ≥ 3/20 -/
theorem norm_lower (w1 w2 w3 s1 s2 s3 u : ℝ) (hu0 : 0 ≤ u) (hu : u ≤ 1/1024)
    (hl1 : |s1| + |s2| + |s3| = 1) (h1 : |w1 - s1| ≤ 23 * u) (h2 : |w2 - s2| ≤ 55 * u)
    (h3 : |w3 - s3| ≤ 55 * u) : 3/20 ≤ w1 ^ 2 + w2 ^ 2 + w3 ^ 2 := by
  have hS : 1 ≤ 3 * (s1 ^ 2 + s2 ^ 2 + s3 ^ 2) := by
    have h : (|s1| + |s2| + |s3|) ^ 2 ≤ 3 * (|s1| ^ 2 + |s2| ^ 2 + |s3| ^ 2) := by
      nlinarith [sq_nonneg (|s1| - |s2|), sq_nonneg (|s1| - |s3|), sq_nonneg (|s2| - |s3|)]
    rw [hl1, sq_abs, sq_abs, sq_abs] at h
    linarith
  have e1 : (w1 - s1) ^ 2 ≤ (23 * u) ^ 2 := by
    rw [← sq_abs (w1 - s1)]; exact pow_le_pow_left₀ (abs_nonneg _) h1 2
  have e2 : (w2 - s2) ^ 2 ≤ (55 * u) ^ 2 := by
    rw [← sq_abs (w2 - s2)]; exact pow_le_pow_left₀ (abs_nonneg _) h2 2
  have e3 : (w3 - s3) ^ 2 ≤ (55 * u) ^ 2 := by
    rw [← sq_abs (w3 - s3)]; exact pow_le_pow_left₀ (abs_nonneg _) h3 2
  have hq : u ^ 2 ≤ (1/1024) ^ 2 := pow_le_pow_left₀ hu0 hu 2
  have k1 : s1 ^ 2 ≤ 2 * w1 ^ 2 + 2 * (w1 - s1) ^ 2 := by nlinarith [sq_nonneg (w1 + (w1 - s1) - s1 + s1 - 2 * w1 + s1), sq_nonneg (2 * w1 - s1)]
  have k2 : s2 ^ 2 ≤ 2 * w2 ^ 2 + 2 * (w2 - s2) ^ 2 := by nlinarith [sq_nonneg (2 * w2 - s2)]
  have k3 : s3 ^ 2 ≤ 2 * w3 ^ 2 + 2 * (w3 - s3) ^ 2 := by nlinarith [sq_nonneg (2 * w3 - s3)]
  nlinarith

section model4
variable (ops : OctaNormOps ℝ) {u : ℝ} (hm : DecModel ops u)
include hm

/-- **Decoder, any rounding oracle**: for every grid point the zero branch of
    `OctahedralCoordsToUnitVector` is not taken, the decoded vector is the vector before
    normalisation times a positive factor (up to one rounding per component), and its squared
    length is within `10u` of 1. -/
theorem decoded_unit (hu0 : 0 ≤ u) (hu : u ≤ 1/1024) (c : Int) (hc : 1 ≤ c) (s t : Int)
    (hs0 : 0 ≤ s) (hs : s ≤ 2 * c) (ht0 : 0 ≤ t) (ht : t ≤ 2 * c) :
    ∃ d c1 c2 c3 : ℝ, 0 < d ∧ |c1| ≤ u ∧ |c2| ≤ u ∧ |c3| ≤ u ∧
      @coordsToUnitVectorG ℝ ops (2 * c) (s, t)
        = ((@octaVecG ℝ ops.toOctaDecOps (2 * c) (s, t)).1 * d * (1 + c1),
           (@octaVecG ℝ ops.toOctaDecOps (2 * c) (s, t)).2.1 * d * (1 + c2),
           (@octaVecG ℝ ops.toOctaDecOps (2 * c) (s, t)).2.2 * d * (1 + c3)) ∧
      |(@coordsToUnitVectorG ℝ ops (2 * c) (s, t)).1 ^ 2
        + (@coordsToUnitVectorG ℝ ops (2 * c) (s, t)).2.1 ^ 2
        + (@coordsToUnitVectorG ℝ ops (2 * c) (s, t)).2.2 ^ 2 - 1| ≤ 10 * u := by
  obtain ⟨h1, h2, h3⟩ := octaVec_err ops hm hu0 hu c hc s t hs0 hs ht0 ht
  have hc0 : (0:ℝ) < c := by exact_mod_cast (by omega : (0:Int) < c)
  have hb : ∀ k : Int, 0 ≤ k → k ≤ 2 * c → |(k:ℝ) / c - 1| ≤ 1 := by
    intro k k0 k1
    have h0 : (0:ℝ) ≤ (k:ℝ) / c := div_nonneg (by exact_mod_cast k0) hc0.le
    have h2 : (k:ℝ) / c ≤ 2 := by
      rw [div_le_iff₀ hc0]
      have : (k:ℝ) ≤ 2 * c := by exact_mod_cast k1
      linarith
    rw [abs_le]; constructor <;> linarith
  have hl1 := wStar_l1 _ _ (hb s hs0 hs) (hb t ht0 ht)
  have hN := norm_lower _ _ _ _ _ _ u hu0 hu hl1 h1 h2 h3
  obtain ⟨d, c1, c2, c3, hd, k1, k2, k3, e, hlen⟩ :=
    normalise_spec ops hm hu0 hu (@octaVecG ℝ ops.toOctaDecOps (2 * c) (s, t)) hN
  refine ⟨d, c1, c2, c3, hd, k1, k2, k3, e, ?_⟩
  have e' : @coordsToUnitVectorG ℝ ops (2 * c) (s, t)
      = @normaliseG ℝ ops (@octaVecG ℝ ops.toOctaDecOps (2 * c) (s, t)) := rfl
  rw [e', e]
  exact hlen

end model4

end Octa
end Draco
