import DracoProofs.CornerTableFuel
/-
  `IsDegenerated(f)` evaluated on the finished table (i.e. on the relabelled
  `corner_to_vertex_map_`) agrees with degeneracy of the input face: the corners of degenerate
  input faces are never visited by `ComputeVertexCorners`, hence never relabelled, and relabelling
  never identifies two corners of a non-degenerate face.
-/
namespace Draco

/-- only corners of non-degenerate input faces get visited -/
def DInv (ctv0 : Array Nat) (st : VCState) : Prop :=
  ∀ x, st.visitedC.getD x false = true → isDegenA ctv0 (x / 3) = false

theorem cvcCorner_eq (opp : Array (Option Nat)) (fuel : Nat) (st : VCState) (c : Nat)
    (h : st.visitedC.getD c false = false) :
    ∃ nm v st1, st1.visitedC = st.visitedC ∧ st1.ctv = st.ctv ∧
      cvcCorner opp fuel st c =
        if (cvcLeft opp c v nm fuel c st1).2 = true then
          cvcRight opp v nm fuel (swingRightA opp c) (cvcLeft opp c v nm fuel c st1).1
        else (cvcLeft opp c v nm fuel c st1).1 := by
  unfold cvcCorner
  simp only [h, Bool.false_eq_true, if_false]
  refine ⟨_, _, _, ?_, ?_, rfl⟩
  · split <;> rfl
  · split <;> rfl

section
variable {ctv0 : Array Nat} {opp : Array (Option Nat)} {k : Nat}

theorem swingLeftA_nondeg (hopp : OppOK ctv0 ctv0.size opp) {a nx : Nat}
    (h : swingLeftA opp a = some nx) : isDegenA ctv0 (nx / 3) = false := by
  unfold swingLeftA at h
  cases ho : oget opp (nextC a) with
  | none => simp [ho] at h
  | some o =>
    simp [ho] at h
    subst h
    rw [nextC_div]
    exact (hopp.2.facts ho).2.2.2.2.2

theorem swingRightA_nondeg (hopp : OppOK ctv0 ctv0.size opp) {a nx : Nat}
    (h : swingRightA opp a = some nx) : isDegenA ctv0 (nx / 3) = false := by
  unfold swingRightA at h
  cases ho : oget opp (prevC a) with
  | none => simp [ho] at h
  | some o =>
    simp [ho] at h
    subst h
    rw [prevC_div]
    exact (hopp.2.facts ho).2.2.2.2.2

theorem mark_dinv {st st' : VCState} {act : Nat} (h : DInv ctv0 st)
    (hv : st'.visitedC = st.visitedC.setIfInBounds act true)
    (hact : isDegenA ctv0 (act / 3) = false) : DInv ctv0 st' := by
  intro x hx
  rw [hv, bget_set] at hx
  split at hx
  · rename_i he; rw [← he.1]; exact hact
  · exact h x hx

theorem cvcLeft_dinv (hopp : OppOK ctv0 ctv0.size opp) (c v : Nat) (nm : Bool) :
    ∀ (fuel act : Nat) (st : VCState), DInv ctv0 st → isDegenA ctv0 (act / 3) = false →
      DInv ctv0 (cvcLeft opp c v nm fuel act st).1 := by
  intro fuel
  induction fuel with
  | zero => intro act st h _; simpa [cvcLeft] using h
  | succ fuel ih =>
    intro act st h hact
    have hm : DInv ctv0 (markL v nm st act) := mark_dinv h rfl hact
    unfold cvcLeft
    simp only []
    split
    · exact hm
    · rename_i nx hsw
      split
      · exact hm
      · exact ih nx _ hm (swingLeftA_nondeg hopp hsw)

theorem cvcRight_dinv (hopp : OppOK ctv0 ctv0.size opp) (v : Nat) (nm : Bool) :
    ∀ (fuel : Nat) (act : Option Nat) (st : VCState), DInv ctv0 st →
      (∀ a, act = some a → isDegenA ctv0 (a / 3) = false) →
      DInv ctv0 (cvcRight opp v nm fuel act st) := by
  intro fuel
  induction fuel with
  | zero => intro act st h _; simpa [cvcRight] using h
  | succ fuel ih =>
    intro act st h hact
    cases act with
    | none => simpa [cvcRight] using h
    | some a =>
      unfold cvcRight
      exact ih _ _ (mark_dinv h rfl (hact a rfl)) (fun b hb => swingRightA_nondeg hopp hb)

theorem cvcCorner_dinv (hopp : OppOK ctv0 ctv0.size opp) (fuel : Nat) (st : VCState) (c : Nat)
    (h : DInv ctv0 st) (hc : isDegenA ctv0 (c / 3) = false) : DInv ctv0 (cvcCorner opp fuel st c) := by
  cases hvis : st.visitedC.getD c false with
  | true => unfold cvcCorner; simp only [hvis, if_true]; exact h
  | false =>
    obtain ⟨nm, v, st1, e1, _, e3⟩ := cvcCorner_eq opp fuel st c hvis
    rw [e3]
    have h1 : DInv ctv0 st1 := fun x hx => h x (by rw [← e1]; exact hx)
    have hL := cvcLeft_dinv hopp c v nm fuel c st1 h1 hc
    split
    · exact cvcRight_dinv hopp v nm fuel _ _ hL (fun b hb => swingRightA_nondeg hopp hb)
    · exact hL

/-- input-degenerate faces look degenerate in the current labels as long as `DInv` holds -/
theorem isDegenA_of_dinv {numOrig : Nat} {st : VCState} (hV : VInv ctv0 numOrig st) (hD : DInv ctv0 st)
    (f : Nat) (h : isDegenA ctv0 f = true) : isDegenA st.ctv f = true := by
  have hu : ∀ j, j < 3 → vget st.ctv (3 * f + j) = vget ctv0 (3 * f + j) := by
    intro j hj
    apply hV.unvisited
    cases hv : st.visitedC.getD (3 * f + j) false with
    | false => rfl
    | true =>
      have := hD _ hv
      have e : (3 * f + j) / 3 = f := by omega
      rw [e, h] at this
      cases this
  have u0 := hu 0 (by omega)
  have u1 := hu 1 (by omega)
  have u2 := hu 2 (by omega)
  simp only [Nat.add_zero] at u0
  simp only [isDegenA] at h ⊢
  rw [u0, u1, u2]
  exact h

theorem cvcFace_dinv {numOrig : Nat} (hopp : OppOK ctv0 ctv0.size opp)
    (fuel : Nat) (st : VCState) (f : Nat)
    (hV : VInv ctv0 numOrig st) (hD : DInv ctv0 st) : DInv ctv0 (cvcFace opp fuel st f) := by
  unfold cvcFace
  split
  · exact hD
  · rename_i hnd
    have hnd0 : isDegenA ctv0 f = false := by
      cases hd : isDegenA ctv0 f with
      | false => rfl
      | true => exact absurd (isDegenA_of_dinv hV hD f hd) hnd
    have e0 : isDegenA ctv0 (3 * f / 3) = false := by
      have : 3 * f / 3 = f := by omega
      rw [this]; exact hnd0
    have e1 : isDegenA ctv0 ((3 * f + 1) / 3) = false := by rw [isDegenA_div ctv0 f 1 (by omega)]; exact hnd0
    have e2 : isDegenA ctv0 ((3 * f + 2) / 3) = false := by rw [isDegenA_div ctv0 f 2 (by omega)]; exact hnd0
    exact cvcCorner_dinv hopp fuel _ _ (cvcCorner_dinv hopp fuel _ _ (cvcCorner_dinv hopp fuel _ _ hD e0) e1) e2

theorem computeVertexCornersF_dinv (hn : ctv0.size = 3 * k) (hopp : OppOK ctv0 ctv0.size opp) (fuel : Nat) :
    VInv ctv0 (numVerticesOf ctv0) (computeVertexCornersF ctv0 opp (numVerticesOf ctv0) fuel) ∧
    DInv ctv0 (computeVertexCornersF ctv0 opp (numVerticesOf ctv0) fuel) := by
  unfold computeVertexCornersF
  apply foldl_range_inv' (fun st => VInv ctv0 (numVerticesOf ctv0) st ∧ DInv ctv0 st)
  · refine ⟨⟨rfl, by simp, by simp, ?_, fun c _ => rfl⟩, ?_⟩
    · intro c hc
      have := vget_lt_numVerticesOf ctv0 c hc
      simp only [Array.size_empty, Nat.add_zero]
      refine ⟨this, ?_⟩
      unfold vparent; simp [this]
    · intro x hx
      simp only [Array.getD_eq_getD_getElem?, Array.getElem?_replicate] at hx
      split at hx <;> simp at hx
  · intro i hi s hs
    exact ⟨cvcFace_inv _ hn hopp fuel s i hi hs.1, cvcFace_dinv hopp fuel s i hs.1 hs.2⟩

end

namespace CornerTable

/-- `IsDegenerated(f)` on the created table = degeneracy of the input face -/
theorem createF_isDegenerated {fuel : Nat} {faces : Faces} {ct : CornerTable}
    (h : createF fuel faces = some ct) (f : Nat) (hf : f < faces.size) :
    ct.isDegenerated (some f) = faceDegenerate faces f := by
  obtain ⟨h1, _, _, _, _⟩ := createF_eq h
  have hsz := size_initCtv faces
  obtain ⟨hV, hD⟩ := computeVertexCornersF_dinv hsz (finalOpp_inv (initCtv faces) fuel) fuel
  show isDegenA ct.cornerToVertex f = faceDegenerate faces f
  rw [h1, ← isDegenA_initCtv faces f hf]
  cases hd : isDegenA (initCtv faces) f with
  | true => exact isDegenA_of_dinv hV hD f hd
  | false =>
    cases hd' : isDegenA (computeVertexCornersF (initCtv faces) (finalOpp (initCtv faces) fuel)
        (numVerticesOf (initCtv faces)) fuel).ctv f with
    | false => rfl
    | true =>
      have := isDegenA_of_vinv hV f (by rw [hsz]; omega) hd'
      rw [hd] at this; cases this

end CornerTable
end Draco
