import DracoProofs.SeqRuns
import DracoProofs.KdTreeSize
import DracoProofs.Varint
/-
  `RunsP`: the program logic `Runs` (DracoProofs/SeqRuns.lean) with a predicate on the result
  instead of a fixed value — the kd-tree decoder returns the points in an order the statement does
  not fix.
-/
namespace Draco
open DecM

structure RunsP {α : Type} (m : DecM α) (v : Nat) (bs : Bytes) (P : α → Prop) (v' : Nat) : Prop where
  run : ∀ (s : DSt) (extra : Bytes), s.rest = bs ++ extra → s.version = v →
    ∃ a s', m s = (some a, s') ∧ s'.rest = extra ∧ s'.version = v' ∧ P a

namespace RunsP
variable {α β : Type}

theorem ofRuns {m : DecM α} {v v' : Nat} {bs : Bytes} {a : α} (h : Runs m v bs a v') :
    RunsP m v bs (· = a) v' :=
  ⟨fun s extra hs hv => let ⟨s', e, r, w⟩ := h.run s extra hs hv; ⟨a, s', e, r, w, rfl⟩⟩

theorem mono {m : DecM α} {v v' : Nat} {bs : Bytes} {P Q : α → Prop} (h : RunsP m v bs P v')
    (hpq : ∀ a, P a → Q a) : RunsP m v bs Q v' :=
  ⟨fun s extra hs hv => let ⟨a, s', e, r, w, p⟩ := h.run s extra hs hv; ⟨a, s', e, r, w, hpq a p⟩⟩

theorem bind {m : DecM α} {f : α → DecM β} {v v1 v2 : Nat} {b1 b2 : Bytes} {P : α → Prop}
    {Q : β → Prop} (h1 : RunsP m v b1 P v1) (h2 : ∀ a, P a → RunsP (f a) v1 b2 Q v2) :
    RunsP (m >>= f) v (b1 ++ b2) Q v2 := by
  constructor
  intro s extra hs hv
  obtain ⟨a, s1, e1, r1, w1, p1⟩ := h1.run s (b2 ++ extra) (by rw [hs, List.append_assoc]) hv
  obtain ⟨c, s2, e2, r2, w2, q2⟩ := (h2 a p1).run s1 extra r1 w1
  refine ⟨c, s2, ?_, r2, w2, q2⟩
  show DecM.andThen m f s = _
  simp only [DecM.andThen, e1, e2]

theorem bind' {m : DecM α} {f : α → DecM β} {v v1 v2 : Nat} {bs b1 b2 : Bytes} {P : α → Prop}
    {Q : β → Prop} (h1 : RunsP m v b1 P v1) (hb : bs = b1 ++ b2)
    (h2 : ∀ a, P a → RunsP (f a) v1 b2 Q v2) : RunsP (m >>= f) v bs Q v2 := hb ▸ bind h1 h2

/-- a deterministic first step -/
theorem bindR {m : DecM α} {f : α → DecM β} {v v1 v2 : Nat} {b1 b2 : Bytes} {a : α}
    {Q : β → Prop} (h1 : Runs m v b1 a v1) (h2 : RunsP (f a) v1 b2 Q v2) :
    RunsP (m >>= f) v (b1 ++ b2) Q v2 :=
  bind (ofRuns h1) (fun _ ha => ha ▸ h2)

theorem bindR' {m : DecM α} {f : α → DecM β} {v v1 v2 : Nat} {bs b1 b2 : Bytes} {a : α}
    {Q : β → Prop} (h1 : Runs m v b1 a v1) (hb : bs = b1 ++ b2) (h2 : RunsP (f a) v1 b2 Q v2) :
    RunsP (m >>= f) v bs Q v2 := hb ▸ bindR h1 h2

theorem bindR0 {m : DecM α} {f : α → DecM β} {v v1 v2 : Nat} {bs : Bytes} {a : α}
    {Q : β → Prop} (h1 : Runs m v [] a v1) (h2 : RunsP (f a) v1 bs Q v2) :
    RunsP (m >>= f) v bs Q v2 := bindR' h1 rfl h2

theorem bindR1 {m : DecM α} {f : α → DecM β} {v v1 v2 : Nat} {b : Nat} {bs : Bytes} {a : α}
    {Q : β → Prop} (h1 : Runs m v [b] a v1) (h2 : RunsP (f a) v1 bs Q v2) :
    RunsP (m >>= f) v (b :: bs) Q v2 := bindR' h1 rfl h2

theorem pure (a : α) (v : Nat) {P : α → Prop} (h : P a) : RunsP (Pure.pure a : DecM α) v [] P v :=
  ⟨fun s extra hs hv => ⟨a, s, rfl, by simpa using hs, hv, h⟩⟩

end RunsP

/-- `DecodePoints` on `EncodePoints` in `RunsP` form -/
theorem runsP_decodePoints (part : Kd.Partition) (hpart : Kd.PartSpec part) (zpr : Nat → Nat → Nat)
    (level dim bitLength maxPoints v : Nat) (pts : List (List Nat))
    (hdim : 1 ≤ dim) (hbl : bitLength ≤ 32) (hsel : level = 6 → dim ≤ 16)
    (hpts : ∀ p ∈ pts, p.length = dim ∧ ∀ i, i < dim → p.getD i 0 < 2^bitLength)
    (hmax : pts.length ≤ maxPoints)
    (hsz : 32 * ((2 * dim + 3) * (pts.length * (bitLength * dim + 1) + 1)) + 3 < 2^32) :
    RunsP (Kd.decodePoints level dim maxPoints) v
      (Kd.encodePoints part Generated.fastdivTab zpr level dim bitLength pts)
      (fun r => r.1 = pts.length ∧ r.2.Perm pts) v := by
  constructor
  intro s extra hs hv
  obtain ⟨pts', s', h1, h2, h3, h4⟩ := Kd.decodePoints_encodePoints_bounded_v part hpart
    Generated.fastdivTab divOK_generated zpr level dim bitLength maxPoints pts extra s hdim hbl hsel hpts
    hmax hsz hs
  exact ⟨_, s', h1, h2, by rw [h4, hv], rfl, h3⟩

/-- `DecodeVarint<int32_t>` reads `EncodeVarint<int32_t>` -/
theorem runs_varintSigned32 (x : Int) (v : Nat) (h1 : -2^31 ≤ x) (h2 : x < 2^31) :
    Runs (DecM.lift (decVarintSigned 32)) v (encVarintSigned 32 x) x v := by
  refine Runs.lift (fun extra => ?_) v
  obtain ⟨g1, g2⟩ := ofSymbol_toSymbol 32 (by decide) x (by simpa using h1) (by simpa using h2)
  simp only [decVarintSigned, encVarintSigned, decVarint_enc (w := 32) (by simp) _ g2 extra, g1]

end Draco
