import DracoProofs.EbTraceS
/-
  The VERTEX half of the simulation invariant through `stepS` (DracoProofs/EbTraceS.lean): what is proved here and what
  remains.

  ## Finding: `VInv` needs NO weakening

  `VInv.lm` is a statement about CORNERS (`∀ d < 3 j, dopp[Next d] = inv → vc[dc2v[d]] = d`), not about vertex ids.  `mergeV`
  relabels EVERY corner of the dead vertex `vN`, so after `stepS` no corner carries `vN` and `vc[vN] = inv` is never
  consulted by `lm`: `VInv` (with the full `lm`) is the right invariant for `S` as well, and `inv_stepE / inv_stepQ /
  inv_stepC` of EbDecSim.lean apply UNCHANGED (none of their uses of `lm` — `hI.v.lm` at the old left-most corners in
  `inv_stepE` (1), `inv_stepQ` (2), `Inv.cornerB_spec` (1), `inv_stepC` (2) — needs a liveness restriction).  What they DO
  need to be generalised is `Inv.stk` (`stack.back! = 3 (j - 1)` only; with several live components the rest of the stack
  matters at `S`): see `StkInv` below; `E / R / L / C` only read and replace the top, so their proofs go through with
  `StkInv` in place of `stk` verbatim (the top of `(stk j).reverse.map (3 * ·)` is `3 (j - 1)`).

  ## Proved here

  * `mergeV_get`, `mergeV_size`;
  * `hedge_mergeV`: `VInv.hedge` is preserved by ANY relabelling of the vertex ids (it only states equalities of labels);
  * `fine_mergeV`: `VInv.fine` is preserved by `mergeV vN vP` when some corner of `vN` and some corner of `vP` have the same
    encoder vertex (for `S`: `Next(cornerB)` and `Previous(cornerA)`, both corners of `Vertex(P[j])` by the two gluing
    equations of `SAt` and `TblOK.hedge`);
  * `vlt_mergeV`: ids stay below `vc.size`;
  * `StkInv` (definition): the stack / `splitActive` invariant; `stk_head`, `stk_sorted`, `StkInv.top` (what `Inv.stk` states),
    `cornerB_of_stk` (`hpb` of `oinv_stepS` from `StkInv` and `SAt`), `cornerA_of_stk_noev` (`hpa`, the case without a
    split event; the case with an event reads `splitActive[j]` off `StkInv.sa` the same way — not written).

  ## What remains for `vinv_stepS` / `inv_stepSS` (exact list)

  With `a = cornerA`, `b = cornerB = 3 (j - 1)`, `vP = c2v[Prev a]`, `vN = c2v[Next b]`, `vB = c2v[Prev b]`,
  `c2v1 = c2v` with the three new corners set, `c2v' = mergeV c2v1 vN vP`:
   1. `hedge` for `c2v1` and the new `opp` by `hedge_step` (as in `inv_stepC`, gluing map `gS`), then `hedge_mergeV`;
      the `hH` obligation of `hedge_step` at `3 j + 1 ↦ b`: `c2v1[Next b] = c2v1[Prev (3j+1)] = c2v1[3 j]`, i.e. `vN = vP`
      — FALSE before the merge, true after it: apply `hedge_step` to `c2v'` directly (`hold` then reads
      `c2v'[d] = merge (c2v[d])`, so `hedge_step` must be generalised from `hold : c2v'[d] = c2v[d]` to
      `c2v'[d] = f (c2v[d])`; its proof uses `hold` only to transport `hV.hedge`, which `hedge_mergeV` does);
   2. `fine`: `fine_step` for `c2v1` (the three new corners carry ids of old corners with the same encoder vertex:
      `3j ↦ Prev a`, `3j+1 ↦ Next a`, `3j+2 ↦ Prev b`, by `TblOK.hedge` at the two glued edges), then `fine_mergeV`;
   3. `lm`: case analysis in the header comment of `lm_cases` below; needs `vN ≠ vP`, `vP ≠ vB` and `a ≠ b`;
      `vP ≠ vB`: from `fine` and the non-degeneracy of face `j`;
      (UPDATE: the clause is now part of `SAt`, and `vN ≠ vP` is PROVED from it in DracoProofs/EbTraceS3.lean, `vN_ne_vP`.)
      `vN ≠ vP` is the ONE genuinely new fact: the two copies of the tip vertex are different decoder vertices.  It does
      not follow from `SAt`: it needs "the fan of `Vertex(P[j])` is not closed by the faces decoded so far and face `j`"
      (otherwise the encoder would not have visited the vertex before — it would have emitted `C`), to be ADDED to `SAt` as
      `¬ FanEarlier`-like clause (decidable; holds on the validated instances) and used through `Inv.chain` (one swing chain
      per vertex: if `vN = vP` the chain from `vc[vP] = Prev a` ends at `Next b`, and face `j` closes the fan);
   4. `Inv.chain` / `Inv.cornerB_spec` after `S`: the chain of the merged vertex is (chain of `vN`) ++ `3 j` ++ (chain of `vP`);
   5. `StkInv` through all five symbols (E pushes, R/L/C replace the top, S as in `stk`; `applySplits` for E/R/L), and from it
      `hpa / hpb` of `oinv_stepS`: `b = 3 (j-1)`, `phi P b = P[j-1] = t.opp[Next P[j]]`; no event: `a = 3 e`,
      `phi P a = P[e]`; event: `a = splitActive[j] = 3 q' + 1 / 2`, `phi P a = Next / Prev P[q']`.

  ## What remains for `ctIso_StS`

  `ctIso_of_inv` takes `Inv t P P.size s` and concludes `CTIso t P P.size s.c2v s.opp` (with `hcov`, `hvlt`); it uses the
  vertex ids only through equalities `c2v[d] = c2v[d']` (`fine` + `Inv.sR_const`), i.e. the PARTITION.  After `connStart`
  (interior start faces: `EbTraceI`) `connCompact` replaces `c2v` by `ρ ∘ c2v` for the renumbering `ρ` (`invalidVert ↦`
  moved `srcVert`), INJECTIVE on the live ids (`vc[v] ≠ inv`), and every id that occurs in `c2v` is live (no corner carries a
  dead id, by `mergeV`).  So: (i) `CTIso t P n c2v opp → CTIso t P n (c2v.map ρ) opp` for `ρ` injective on the ids that
  occur (one-line per field of `CTIso`: only `vertex`-equalities are used); (ii) `connCompact` computes such a `ρ`
  (its iterator relabels the fan of `srcVert`; = all its corners by `Inv.chain`); (iii) the monadic glue `connMain = StS`.
-/
namespace Draco.EbEnc.DecSim
open Draco Draco.EbEnc
open Draco.Eb (inv TopoSplit)

theorem mergeV_size (c2v : Array Nat) (vN vP : Nat) : (mergeV c2v vN vP).size = c2v.size := by
  simp [mergeV]

theorem mergeV_get (c2v : Array Nat) (vN vP d : Nat) (hd : d < c2v.size) :
    (mergeV c2v vN vP)[d]! = if c2v[d]! = vN then vP else c2v[d]! := by
  rw [mergeV_eq]
  simp [hd]

/-- `hedge` only states equalities of labels: it survives every relabelling -/
theorem hedge_mergeV (c2v dopp : Array Nat) (vN vP N : Nat) (hN : N ≤ c2v.size) (hinv : N ≤ inv) (h3 : N % 3 = 0)
    (ho : ∀ d, d < N → dopp[d]! ≠ inv → dopp[d]! < N)
    (hH : ∀ d, d < N → dopp[d]! ≠ inv →
      c2v[Eb.nextC dopp[d]!]! = c2v[Eb.prevC d]! ∧ c2v[Eb.prevC dopp[d]!]! = c2v[Eb.nextC d]!) :
    ∀ d, d < N → dopp[d]! ≠ inv →
      (mergeV c2v vN vP)[Eb.nextC dopp[d]!]! = (mergeV c2v vN vP)[Eb.prevC d]! ∧
      (mergeV c2v vN vP)[Eb.prevC dopp[d]!]! = (mergeV c2v vN vP)[Eb.nextC d]! := by
  intro d hd hne
  obtain ⟨e1, e2⟩ := hH d hd hne
  have k := ho d hd hne
  have l1 : Eb.nextC dopp[d]! < c2v.size := Nat.lt_of_lt_of_le (AttViews.nextC_ltN h3 k) hN
  have l2 : Eb.prevC dopp[d]! < c2v.size := Nat.lt_of_lt_of_le (AttViews.prevC_ltN h3 hinv k) hN
  have l3 : Eb.nextC d < c2v.size := Nat.lt_of_lt_of_le (AttViews.nextC_ltN h3 hd) hN
  have l4 : Eb.prevC d < c2v.size := Nat.lt_of_lt_of_le (AttViews.prevC_ltN h3 hinv hd) hN
  rw [mergeV_get _ _ _ _ l1, mergeV_get _ _ _ _ l2, mergeV_get _ _ _ _ l3, mergeV_get _ _ _ _ l4, e1, e2]
  exact ⟨rfl, rfl⟩

/-- `fine` survives the merge of two decoder vertices with the same encoder vertex -/
theorem fine_mergeV {t : CT} {P : Array Nat} (c2v : Array Nat) (vN vP N : Nat) (hN : N ≤ c2v.size)
    (hF : ∀ d d', d < N → d' < N → c2v[d]! = c2v[d']! → t.c2v[phi P d]! = t.c2v[phi P d']!)
    (x y : Nat) (hx : x < N) (hy : y < N) (hxN : c2v[x]! = vN) (hyP : c2v[y]! = vP)
    (hxy : t.c2v[phi P x]! = t.c2v[phi P y]!) :
    ∀ d d', d < N → d' < N → (mergeV c2v vN vP)[d]! = (mergeV c2v vN vP)[d']! →
      t.c2v[phi P d]! = t.c2v[phi P d']! := by
  intro d d' hd hd' e
  rw [mergeV_get _ _ _ _ (by omega), mergeV_get _ _ _ _ (by omega)] at e
  -- every corner has the encoder vertex of a corner with the merged label
  have key : ∀ z, z < N → (c2v[z]! = vN → t.c2v[phi P z]! = t.c2v[phi P y]!) := by
    intro z hz hzN
    rw [hF z x hz hx (by rw [hzN, hxN]), hxy]
  by_cases h1 : c2v[d]! = vN
  · by_cases h2 : c2v[d']! = vN
    · exact hF d d' hd hd' (by rw [h1, h2])
    · rw [if_pos h1, if_neg h2] at e
      rw [key d hd h1]
      exact hF y d' hy hd' (by rw [hyP, e])
  · by_cases h2 : c2v[d']! = vN
    · rw [if_neg h1, if_pos h2] at e
      rw [key d' hd' h2]
      exact hF d y hd hy (by rw [hyP, e])
    · rw [if_neg h1, if_neg h2] at e
      exact hF d d' hd hd' e

/-- the vertex ids stay below `vc.size` -/
theorem vlt_mergeV (c2v : Array Nat) (vN vP N K : Nat) (hN : N ≤ c2v.size) (hP : vP < K)
    (hV : ∀ d, d < N → c2v[d]! < K) : ∀ d, d < N → (mergeV c2v vN vP)[d]! < K := by
  intro d hd
  rw [mergeV_get _ _ _ _ (by omega)]
  split
  · exact hP
  · exact hV d hd

/-- **the stack / `splitActive` invariant** after `j` symbols: the active corner stack is the index stack `stk` (top first)
    times 3, and every event whose source is already decoded has recorded its corner -/
structure StkInv (syms : List Nat) (evs : List TopoSplit) (j : Nat) (s : DSS) : Prop where
  stack : s.stack = ((stk syms evs j).reverse.map (3 * ·)).toArray
  sasz : s.splitActive.size = syms.length
  sa : ∀ ev, ev ∈ evs → syms.length - 1 - ev.source < j →
    s.splitActive[syms.length - 1 - ev.split]! =
      (if ev.edge = 1 then 3 * (syms.length - 1 - ev.source) + 1 else 3 * (syms.length - 1 - ev.source) + 2)
  sa0 : ∀ i, i < syms.length → (∀ ev, ev ∈ evs → syms.length - 1 - ev.source < j → syms.length - 1 - ev.split ≠ i) →
    s.splitActive[i]! = inv

/-- the top of the index stack after `j + 1` symbols is `j` -/
theorem stk_head (syms : List Nat) (evs : List TopoSplit) (j : Nat) : (stk syms evs (j + 1)).head? = some j := by
  show (let st := stk syms evs j
    if syms[j]! = 7 then j :: st
    else if syms[j]! = 1 then (if hasEv syms.length evs j then j :: st.tail else j :: st.tail.tail)
    else j :: st.tail).head? = some j
  simp only
  split
  · rfl
  · split
    · split <;> rfl
    · rfl

/-- the active corner on top of the stack is `3 (j - 1)` (what `Inv.stk` states) -/
theorem StkInv.top {syms : List Nat} {evs : List TopoSplit} {j : Nat} {s : DSS} (h : StkInv syms evs j s) (hj : 0 < j) :
    0 < s.stack.size ∧ s.stack.back! = 3 * (j - 1) := by
  obtain ⟨j', rfl⟩ : ∃ j', j = j' + 1 := ⟨j - 1, by omega⟩
  have hh := stk_head syms evs j'
  rw [h.stack]
  cases hst : stk syms evs (j' + 1) with
  | nil => rw [hst] at hh; cases hh
  | cons x l =>
    rw [hst] at hh
    simp only [List.head?_cons, Option.some.injEq] at hh
    subst hh
    simp [Array.back!]

/-- the index stack is strictly decreasing (top first) and below `j` -/
theorem stk_sorted (syms : List Nat) (evs : List TopoSplit) :
    ∀ j, (stk syms evs j).Pairwise (· > ·) ∧ ∀ x, x ∈ stk syms evs j → x < j
  | 0 => ⟨List.Pairwise.nil, fun x hx => by simp [stk] at hx⟩
  | j+1 => by
    obtain ⟨h1, h2⟩ := stk_sorted syms evs j
    have key : ∀ l : List Nat, l.Sublist (stk syms evs j) →
        (j :: l).Pairwise (· > ·) ∧ ∀ x, x ∈ j :: l → x < j + 1 := by
      intro l hl
      refine ⟨List.pairwise_cons.mpr ⟨fun x hx => h2 x (hl.subset hx), h1.sublist hl⟩, ?_⟩
      intro x hx
      rcases List.mem_cons.mp hx with rfl | hx
      · omega
      · have := h2 x (hl.subset hx); omega
    show (let st := stk syms evs j
      if syms[j]! = 7 then j :: st
      else if syms[j]! = 1 then (if hasEv syms.length evs j then j :: st.tail else j :: st.tail.tail)
      else j :: st.tail).Pairwise (· > ·) ∧ ∀ x, x ∈ (let st := stk syms evs j
      if syms[j]! = 7 then j :: st
      else if syms[j]! = 1 then (if hasEv syms.length evs j then j :: st.tail else j :: st.tail.tail)
      else j :: st.tail) → x < j + 1
    simp only
    split
    · exact key _ (List.Sublist.refl _)
    · split
      · split
        · exact key _ (List.tail_sublist _)
        · exact key _ ((List.tail_sublist _).trans (List.tail_sublist _))
      · exact key _ (List.tail_sublist _)

/-- **`hpb` of `oinv_stepS`**: the popped active corner `cornerB` is `3 (j - 1)`, a decoded corner whose image is the
    encoder's right neighbour of the gate corner of the `S` face -/
theorem cornerB_of_stk {t : CT} {P : Array Nat} {syms : List Nat} {evs : List TopoSplit} {j : Nat} {s : DSS}
    (hS : StkInv syms evs j s) (hA : SAt t P syms evs j) :
    s.stack.back! = 3 * (j - 1) ∧ 3 * (j - 1) < 3 * j ∧ phi P (3 * (j - 1)) = t.opp[Eb.nextC P[j]!]! := by
  obtain ⟨h0, hr, -, -, -⟩ := hA
  refine ⟨(hS.top h0).2, by omega, ?_⟩
  rw [phi_0, hr]

/-- **`hpa` of `oinv_stepS`, no split event**: `cornerA` is the active corner `3 e` of the component below on the stack -/
theorem cornerA_of_stk_noev {t : CT} {P : Array Nat} {syms : List Nat} {evs : List TopoSplit} {j : Nat} {s : DSS}
    (hS : StkInv syms evs j s) (hA : SAt t P syms evs j) (hj : j < syms.length)
    (hev : hasEv syms.length evs j = false) :
    ∃ e, (if s.splitActive[j]! ≠ inv then s.stack.pop.push s.splitActive[j]! else s.stack.pop).back! = 3 * e ∧
      3 * e < 3 * j ∧ 3 * e ≠ 3 * (j - 1) ∧ phi P (3 * e) = t.opp[Eb.prevC P[j]!]! := by
  obtain ⟨h0, -, -, hn, -⟩ := hA
  obtain ⟨hlen, hl⟩ := hn hev
  have hsa : s.splitActive[j]! = inv := by
    apply hS.sa0 j hj
    intro ev hev' _ e
    have : evHits syms.length j ev = false := by
      have := List.any_eq_false.mp hev ev hev'
      simpa using this
    by_cases hsp : ev.split < syms.length
    · simp [evHits, hsp, e] at this
    · omega
  rw [hsa]
  simp only [ne_eq, not_true_eq_false, if_false]
  obtain ⟨hsort, hlt⟩ := stk_sorted syms evs j
  obtain ⟨j', rfl⟩ : ∃ j', j = j' + 1 := ⟨j - 1, by omega⟩
  have hh := stk_head syms evs j'
  cases hst : stk syms evs (j' + 1) with
  | nil => rw [hst] at hlen; simp at hlen
  | cons x l =>
    cases l with
    | nil => rw [hst] at hlen; simp at hlen
    | cons e rest =>
      rw [hst] at hh hl hsort hlt
      simp only [List.head?_cons, Option.some.injEq] at hh
      subst hh
      refine ⟨e, ?_, ?_, ?_, ?_⟩
      · rw [hS.stack, hst]
        simp [Array.back!]
      · have := hlt e (by simp); omega
      · have := (List.pairwise_cons.mp hsort).1 e (by simp)
        omega
      · rw [phi_0, hl]
        simp

end Draco.EbEnc.DecSim
