import DracoProofs.EbConnSplitFree
import DracoProofs.EbDecSimHole
import DracoProofs.EbCountsStream
/-
  SPLIT-FREE traversals (symbols C / R / L / E, boundary start faces only; standard traversal, no attribute data): the
  connectivity link AND the point count in one statement, from ONE hypothesis standing for the monadic decoder loop.

  * `DecLoopSt'` = `ConnSplitFree.DecLoopSt` + the loop's `vertex_corners_`, `is_vert_hole_` and vertex count are those of
    the pure final state `DecSim.St`; `DecLoopSt'.toDecLoopSt`.
  * `eb_splitfree_link_and_counts`: `decodeConnectivity` reads the encoder's bytes, the decoded corner table is isomorphic
    (`CTIso`) to the encoder's, and `num_encoded_points` (position only) = `mesh.numPoints`.
  * `decLoopSt'_triangle`: non-vacuity of `DecLoopSt'` — the one-triangle run (symbols `#[7]`, start-face bits `[false]`),
    from `ConnTri.connLoop_triangles`.
-/
namespace Draco.EbEnc.SplitFreeFinal
open Draco Draco.SeqEnc DecM
open Draco.Eb hiding nextC prevC iabs
open Draco.EbEnc.EncCounts Draco.EbEnc.Coverage Draco.EbEnc.DecSim Draco.EbEnc.ConnTri Draco.EbEnc.ConnGlue
open Draco.EbEnc.ConnSplitFree

/-- **the monadic decoder loop, with the vertex data**: on every traversal state that delivers the symbols (decoding
    order) and the start-face bits, the connectivity loop returns ONE `co` whose tables, hole flags and vertex count are
    those of the pure simulation `St` after `nf` symbols -/
def DecLoopSt' (nf nv : Nat) (symbols : Array Nat) (sfb : List Bool) : Prop :=
  ∃ co : ConnOut,
    (∀ tr, Delivers tr symbols.toList.reverse sfb → connLoop ⟨nf, nv, symbols.size, [], true⟩ tr = .ok co) ∧
    co.c2v = (St symbols.toList.reverse nf nv nf).c2v ∧ co.opp = (St symbols.toList.reverse nf nv nf).opp ∧
    co.vc = (St symbols.toList.reverse nf nv nf).vc ∧ co.hole = (St symbols.toList.reverse nf nv nf).hole ∧
    co.numConnVerts = (St symbols.toList.reverse nf nv nf).vc.size

theorem DecLoopSt'.toDecLoopSt {nf nv : Nat} {symbols : Array Nat} {sfb : List Bool} (h : DecLoopSt' nf nv symbols sfb) :
    DecLoopSt nf nv symbols sfb := by
  obtain ⟨co, h1, h2, h3, _⟩ := h
  exact ⟨co, h1, h2, h3⟩

/-- **the connectivity link and the point count of a split-free run.**  Standard traversal, no attribute data; a successful
    run of the encoder without a symbol `S` and with boundary start faces only; domain hypotheses `hnf`, `hnv`, `hedge`
    (checked by the decoder, not by the encoder); `hrun'`: the monadic decoder loop (`DecLoopSt'`). -/
theorem eb_splitfree_link_and_counts (ch : ConnChoices) (pf : Faces) (conn : ConnEnc)
    (h : encodeConnectivity ch false pf #[] = .ok conn)
    (hnoS : ∀ x, x ∈ conn.symbols.toList → x ≠ topoS)
    (hstart : ∀ b, b ∈ conn.startFaces.toList → b = false)
    (hnf : conn.processed.size ≤ 2 ^ 21)
    (hnv : conn.ct.numVertices - conn.ct.numIsolated ≤ 3 * 2 ^ 21)
    (hedge : 3 * conn.processed.size / 2 ≤
      (conn.ct.numVertices - conn.ct.numIsolated) * (conn.ct.numVertices - conn.ct.numIsolated - 1) / 2)
    (hrun' : DecLoopSt' conn.processed.size (conn.ct.numVertices - conn.ct.numIsolated) conn.symbols
      conn.startFaces.toList) :
    ∃ mesh, Runs decodeConnectivity 514 ([0] ++ conn.bytes) mesh 514 ∧
      CTIso conn.ct conn.processed mesh.numFaces mesh.c2v mesh.opp ∧ mesh.atts = #[] ∧
      mesh.numFaces = conn.processed.size ∧
      (∀ (atts : Array Attribute) (used : Array AttConn) (nE : Nat), atts.size ≤ 1 →
        computeNumberOfEncodedPoints atts conn used = .ok nE → nE = mesh.numPoints) := by
  obtain ⟨tbl, holeId, nh, s, hc, hnd, hh, hmain, e_ct, e_P, e_sy, e_sfs⟩ := stages_of_run ch pf conn h
  obtain ⟨hTr, hT, hsz⟩ := EncTrace.trace_of_run ch pf conn h hnoS hstart
  obtain ⟨hsp, hns⟩ := noS_of_main _ holeId nh s hmain (by rw [← e_sy]; exact hnoS)
  have hsize := Coverage.encodeConnectivity_size ch false pf #[] conn h
  have hnv3 := nv_le_of_run ch false pf #[] conn h
  obtain ⟨co, hloop, hc2v, hopp, hvc, hhole, hncv⟩ := hrun'
  have hiso := EncTrace.ctIso_St_of_run ch pf conn h hnoS hstart (conn.ct.numVertices - conn.ct.numIsolated)
  rw [← hc2v, ← hopp] at hiso
  -- every symbol is a traversal symbol
  have hs : ∀ x, x ∈ conn.symbols.toList → IsTopo x := by
    intro x hx
    obtain ⟨i, hi, e⟩ := mem_toList_iff_get.mp hx
    have hj : conn.processed.size - 1 - i < conn.processed.size := by omega
    have hk := (hTr.face _ hj).2.2.2.2.2.2.2
    rw [EncTrace.list_reverse_get! _ _ (by simp; omega), EncTrace.toList_get!] at hk
    have ei : conn.symbols.toList.length - 1 - (conn.processed.size - 1 - i) = i := by simp; omega
    rw [ei, e] at hk
    unfold IsTopo
    omega
  have hfits := create_fits hc
  have hsfb : conn.startFaces.toList.length + 3 < 2 ^ 32 := by
    have := sfsize_of_main _ holeId nh s hmain
    have hnc : (CT.ofTable tbl).numCorners = 3 * pf.size := create_c2v_size hc
    have := create_numCorners_lt hc
    rw [e_sfs]; simp only [Array.length_toList]
    omega
  -- the encoder's bytes
  obtain ⟨conn', e1, e2, e3, e4, e5⟩ := encode_bytes_splitfree' ch pf tbl hc hnd holeId nh hh s hmain hns hsp
    (by rw [← e_ct]; omega) (by rw [← e_ct, ← hsize]; omega) (by rw [← e_sy]; omega)
  rw [h] at e1
  cases e1
  rw [← e_ct, ← hsize, ← e_sy, ← e_sfs] at e2
  -- the decoder on these bytes
  obtain ⟨mesh, m1, m2, m3, m4, m5, m6, _, m8⟩ := runs_decodeConnectivity_of_loop' ch
    (conn.ct.numVertices - conn.ct.numIsolated) conn.processed.size conn.symbols conn.startFaces.toList co hs hnf hnv
    (by omega) hedge (by omega) (by omega) hsfb hiso.sizes.2 hloop
  refine ⟨mesh, by rw [e2]; exact m1, by rw [m2, m3, m4]; exact hiso, m6, m2, ?_⟩
  intro atts used nE hatts hrunE
  rw [m8, hncv]
  exact DecSimHole.eb_points_splitfree_count ch pf conn atts used nE h hnoS hstart hatts hrunE


/-- **non-vacuity of `DecLoopSt'`**: the run of one triangle (symbol `E`, one boundary start face) — the connectivity loop
    is evaluated by `ConnTri.connLoop_triangles`, the tables are those of the pure state -/
theorem decLoopSt'_triangle : DecLoopSt' 1 3 #[7] [false] := by
  refine ⟨coK 1, ?_, by decide +kernel, by decide +kernel, by decide +kernel, by decide +kernel, by decide +kernel⟩
  rintro tr ⟨h1, h2, h3, h4⟩
  have := connLoop_triangles 1 tr h1 h2 (by omega) (by omega) (fun i hi => by
    have hi0 : i = 0 := by omega
    subst hi0
    have := h3 0 (by simp)
    rw [this]; rfl) h4
  simpa using this

/-- … and hence of the monadic hypothesis of `eb_connectivity_roundtrip_splitfree` -/
example : DecLoopSt 1 3 #[7] [false] := decLoopSt'_triangle.toDecLoopSt

end Draco.EbEnc.SplitFreeFinal
