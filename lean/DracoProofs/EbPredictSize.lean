import DracoProofs.EbTraversalInv
/-
  The mesh prediction scheme decoders (DracoModel/EbPredict.lean) work in place on the portable
  attribute: on the success path the result has as many values as the input.
-/
open Std.Do
set_option mvcgen.warning false

namespace Draco.Eb

theorem wrI_ok {site : String} {a : Array Int} {i : Nat} {v : Int} {r : Array Int} (h : wrI site a i v = .ok r) :
    r.size = a.size := by
  unfold wrI at h
  split at h
  · simp only [pure, Except.pure, Except.ok.injEq] at h; subst h; simp
  · cases h

@[spec] theorem wrI_spec (site : String) (a : Array Int) (i : Nat) (v : Int) :
    ⦃⌜True⌝⦄ wrI site a i v ⦃⇓? r => ⌜r.size = a.size⌝⦄ := R.mayThrow_of _ _ (fun _ h => wrI_ok h)
@[spec] theorem rdI_spec (site : String) (a : Array Int) (i : Nat) :
    ⦃⌜True⌝⦄ rdI site a i ⦃⇓? _ => ⌜True⌝⦄ := R.mayThrow_of _ _ (fun _ _ => trivial)

theorem applyWrap_size (wt : Leaf.WrapT) (nc off : Nat) (pred : Nat → R Int) (data : Array Int)
    (hp : ∀ c, ⦃⌜True⌝⦄ pred c ⦃⇓? _ => ⌜True⌝⦄) :
    ⦃⌜True⌝⦄ applyWrap wt nc off pred data ⦃⇓? r => ⌜r.size = data.size⌝⦄ := by
  mvcgen [applyWrap, hp]
  case inv1 => exact ⇓? ⟨_, b⟩ => ⌜b.size = data.size⌝
  all_goals (try simp_all (config := { zetaDelta := true }))

/-- closes the side goals `∀ c, ⦃True⦄ pred c ⦃True⦄` of `applyWrap_size` for the closures used below -/
macro "pred_triv" : tactic => `(tactic| (intro c; exact R.mayThrow_of _ _ (fun _ _ => trivial)))

attribute [local spec] applyWrap_size in
theorem deltaDecodeWrap_size (wt : Leaf.WrapT) (nc : Nat) (data : Array Int) :
    ⦃⌜True⌝⦄ deltaDecodeWrap wt nc data ⦃⇓? r => ⌜r.size = data.size⌝⦄ := by
  mvcgen [deltaDecodeWrap]
  case inv1 => exact ⇓? ⟨_, b⟩ => ⌜b.size = data.size⌝
  all_goals (try pred_triv)
  all_goals (try simp_all (config := { zetaDelta := true }))

@[spec] theorem parallelogramPrediction_spec (md : MeshData) (p ci : Nat) (data : Array Int) (nc : Nat) :
    ⦃⌜True⌝⦄ parallelogramPrediction md p ci data nc ⦃⇓? _ => ⌜True⌝⦄ :=
  R.mayThrow_of _ _ (fun _ _ => trivial)

attribute [local spec] applyWrap_size in
theorem parallelogramDecode_size (md : MeshData) (wt : Leaf.WrapT) (nc : Nat) (data : Array Int) :
    ⦃⌜True⌝⦄ parallelogramDecode md wt nc data ⦃⇓? r => ⌜r.1.size = data.size⌝⦄ := by
  mvcgen [parallelogramDecode]
  case inv1 => exact ⇓? ⟨_, b⟩ => ⌜b.1.size = data.size⌝
  all_goals (try pred_triv)
  all_goals (try simp_all (config := { zetaDelta := true }))

@[spec] theorem swingLeftT_spec (t : TView) (c : Nat) :
    ⦃⌜True⌝⦄ t.swingLeft c ⦃⇓? _ => ⌜True⌝⦄ := R.mayThrow_of _ _ (fun _ _ => trivial)
@[spec] theorem swingRightT_spec (t : TView) (c : Nat) :
    ⦃⌜True⌝⦄ t.swingRight c ⦃⇓? _ => ⌜True⌝⦄ := R.mayThrow_of _ _ (fun _ _ => trivial)
@[spec] theorem texPredict_spec (md : MeshData) (ps : PosSource) (corner : Nat) (data : Array Int) (dataId : Nat)
    (orient : Array Bool) :
    ⦃⌜True⌝⦄ texPredict md ps corner data dataId orient ⦃⇓? _ => ⌜True⌝⦄ := R.mayThrow_of _ _ (fun _ _ => trivial)
@[spec] theorem texPredictDeprecated_spec (md : MeshData) (ps : PosSourceF) (pre12 : Bool) (corner : Nat)
    (data : Array Int) (dataId : Nat) (orient : Array Bool) :
    ⦃⌜True⌝⦄ texPredictDeprecated md ps pre12 corner data dataId orient ⦃⇓? _ => ⌜True⌝⦄ :=
  R.mayThrow_of _ _ (fun _ _ => trivial)
@[spec] theorem normalPredict_spec (md : MeshData) (ps : PosSource) (corner : Nat) (one : Bool) :
    ⦃⌜True⌝⦄ normalPredict md ps corner one ⦃⇓? _ => ⌜True⌝⦄ := R.mayThrow_of _ _ (fun _ _ => trivial)

set_option maxHeartbeats 1000000 in
attribute [local spec] applyWrap_size in
theorem constrainedMultiDecode_size (md : MeshData) (wt : Leaf.WrapT) (nc : Nat) (crease : Array (Array Bool))
    (data : Array Int) :
    ⦃⌜True⌝⦄ constrainedMultiDecode md wt nc crease data ⦃⇓? r => ⌜r.1.size = data.size⌝⦄ := by
  mvcgen [constrainedMultiDecode]
  case inv1 => exact ⇓? ⟨_, b⟩ => ⌜b.1.size = data.size⌝
  all_goals (try (exact ⇓? ⟨_, _⟩ => ⌜True⌝))
  all_goals (try pred_triv)
  all_goals (try simp_all (config := { zetaDelta := true }))

set_option maxHeartbeats 1000000 in
attribute [local spec] applyWrap_size in
theorem multiParallelogramDecode_size (md : MeshData) (wt : Leaf.WrapT) (nc : Nat) (data : Array Int) :
    ⦃⌜True⌝⦄ multiParallelogramDecode md wt nc data ⦃⇓? r => ⌜r.1.size = data.size⌝⦄ := by
  mvcgen [multiParallelogramDecode]
  case inv1 => exact ⇓? ⟨_, b⟩ => ⌜b.1.size = data.size⌝
  all_goals (try (exact ⇓? ⟨_, _⟩ => ⌜True⌝))
  all_goals (try pred_triv)
  all_goals (try simp_all (config := { zetaDelta := true }))

attribute [local spec] applyWrap_size in
theorem texCoordsDecode_size (md : MeshData) (ps : PosSource) (wt : Leaf.WrapT) (nc : Nat) (orient : Array Bool)
    (data : Array Int) :
    ⦃⌜True⌝⦄ texCoordsDecode md ps wt nc orient data ⦃⇓? r => ⌜r.1.size = data.size⌝⦄ := by
  mvcgen [texCoordsDecode]
  case inv2 => exact ⇓? ⟨_, b⟩ => ⌜b.1.size = data.size⌝
  all_goals (try pred_triv)
  all_goals (try simp_all (config := { zetaDelta := true }))

attribute [local spec] applyWrap_size in
theorem texCoordsDeprecatedDecode_size (md : MeshData) (ps : PosSourceF) (pre12 : Bool) (wt : Leaf.WrapT) (nc : Nat)
    (orient : Array Bool) (data : Array Int) :
    ⦃⌜True⌝⦄ texCoordsDeprecatedDecode md ps pre12 wt nc orient data ⦃⇓? r => ⌜r.size = data.size⌝⦄ := by
  mvcgen [texCoordsDeprecatedDecode]
  case inv2 => exact ⇓? ⟨_, b⟩ => ⌜b.1.size = data.size⌝
  all_goals (try pred_triv)
  all_goals (try simp_all (config := { zetaDelta := true }))

theorem geometricNormalDecode_size (md : MeshData) (ps : PosSource) (ot : OctaT)
    (dec : Int × Int → Int × Int → Int × Int) (one : Bool) (fd : RAnsBitDec) (data : Array Int) :
    ⦃⌜True⌝⦄ geometricNormalDecode md ps ot dec one fd data ⦃⇓? r => ⌜r.1.size = data.size⌝⦄ := by
  mvcgen [geometricNormalDecode]
  case inv1 => exact ⇓? ⟨_, b⟩ => ⌜b.1.size = data.size⌝
  all_goals (try simp_all (config := { zetaDelta := true }))

/-! ### the same as implications -/

theorem deltaDecodeWrap_ok {wt : Leaf.WrapT} {nc : Nat} {data r : Array Int}
    (h : deltaDecodeWrap wt nc data = .ok r) : r.size = data.size :=
  R.ok_of_mayThrow (deltaDecodeWrap_size wt nc data) r h
theorem parallelogramDecode_ok {md : MeshData} {wt : Leaf.WrapT} {nc : Nat} {data : Array Int} {r : Array Int × Nat}
    (h : parallelogramDecode md wt nc data = .ok r) : r.1.size = data.size :=
  R.ok_of_mayThrow (parallelogramDecode_size md wt nc data) r h
theorem multiParallelogramDecode_ok {md : MeshData} {wt : Leaf.WrapT} {nc : Nat} {data : Array Int}
    {r : Array Int × Nat} (h : multiParallelogramDecode md wt nc data = .ok r) : r.1.size = data.size :=
  R.ok_of_mayThrow (multiParallelogramDecode_size md wt nc data) r h
theorem constrainedMultiDecode_ok {md : MeshData} {wt : Leaf.WrapT} {nc : Nat} {crease : Array (Array Bool)}
    {data : Array Int} {r : Array Int × Nat} (h : constrainedMultiDecode md wt nc crease data = .ok r) :
    r.1.size = data.size :=
  R.ok_of_mayThrow (constrainedMultiDecode_size md wt nc crease data) r h
theorem texCoordsDecode_ok {md : MeshData} {ps : PosSource} {wt : Leaf.WrapT} {nc : Nat} {orient : Array Bool}
    {data : Array Int} {r : Array Int × Nat} (h : texCoordsDecode md ps wt nc orient data = .ok r) :
    r.1.size = data.size :=
  R.ok_of_mayThrow (texCoordsDecode_size md ps wt nc orient data) r h
theorem texCoordsDeprecatedDecode_ok {md : MeshData} {ps : PosSourceF} {pre12 : Bool} {wt : Leaf.WrapT} {nc : Nat}
    {orient : Array Bool} {data r : Array Int}
    (h : texCoordsDeprecatedDecode md ps pre12 wt nc orient data = .ok r) : r.size = data.size :=
  R.ok_of_mayThrow (texCoordsDeprecatedDecode_size md ps pre12 wt nc orient data) r h
theorem geometricNormalDecode_ok {md : MeshData} {ps : PosSource} {ot : OctaT}
    {dec : Int × Int → Int × Int → Int × Int} {one : Bool} {fd : RAnsBitDec} {data : Array Int} {r : Array Int × Nat}
    (h : geometricNormalDecode md ps ot dec one fd data = .ok r) : r.1.size = data.size :=
  R.ok_of_mayThrow (geometricNormalDecode_size md ps ot dec one fd data) r h

end Draco.Eb
