import DracoModel.SeqDecoder
import DracoModel.SymbolLegacy
import DracoProofs.Rans
import DracoProofs.Tagged
import DracoProofs.QuantPipeline
/-
  Lengths of the lists produced by the sequential attribute decoders (used by C03: storage is
  large enough) and sufficiency of the fuel of the fuel-driven loops (C02: no loop of the
  decoder model runs out of fuel).
-/
namespace Draco.Robust
open Draco

/-! ### flatten -/

theorem flatten_length_const {α} (c : Nat) : ∀ (L : List (List α)), (∀ x ∈ L, x.length = c) →
    L.flatten.length = L.length * c := by
  intro L
  induction L with
  | nil => intro _; simp
  | cons x L ih =>
    intro h
    have hx := h x (by simp)
    have := ih (fun y hy => h y (by simp [hy]))
    simp only [List.flatten_cons, List.length_append, List.length_cons, hx, this]
    rw [Nat.add_mul]; omega

theorem map_flatten_length {α β} (f : α → List β) (c : Nat) (hf : ∀ a, (f a).length = c) (l : List α) :
    (l.map f).flatten.length = l.length * c := by
  have := flatten_length_const c (l.map f) (by
    intro x hx
    obtain ⟨a, _, rfl⟩ := List.mem_map.mp hx
    exact hf a)
  simpa using this

/-! ### leGroups: the fuel `bs.length + 1` is never exhausted on whole groups -/

theorem leGroupsAux_length (n : Nat) (hn : 0 < n) : ∀ (k fuel : Nat) (bs : Bytes) (acc : List Nat),
    bs.length = k * n → k < fuel → (leGroupsAux n fuel bs acc).length = acc.length + k := by
  intro k
  induction k with
  | zero =>
    intro fuel bs acc hb hf
    have : bs = [] := by
      cases bs with
      | nil => rfl
      | cons b t => simp at hb
    subst this
    cases fuel with
    | zero => omega
    | succ f => simp [leGroupsAux]
  | succ k ih =>
    intro fuel bs acc hb hf
    cases fuel with
    | zero => omega
    | succ f =>
      have hne : bs.isEmpty = false := by
        cases bs with
        | nil => simp [Nat.succ_mul] at hb; omega
        | cons b t => rfl
      have hn0 : (n == 0) = false := by
        cases n with
        | zero => omega
        | succ m => rfl
      simp only [leGroupsAux, hne, hn0, Bool.or_self, Bool.false_eq_true, if_false]
      rw [ih f (bs.drop n) (leValue (bs.take n) :: acc) (by
        simp only [List.length_drop, hb, Nat.succ_mul]; omega) (by omega)]
      simp only [List.length_cons]; omega

theorem leGroups_length (n k : Nat) (hn : 0 < n) (bs : Bytes) (hb : bs.length = k * n) :
    (leGroups n bs).length = k := by
  unfold leGroups
  rw [leGroupsAux_length n hn k (bs.length + 1) bs [] hb (by
    rw [hb]
    have : k ≤ k * n := Nat.le_mul_of_pos_right k hn
    omega)]
  simp

/-! ### deltaDecode: the fuel `corr.length + 1` is never exhausted; lengths are preserved -/

theorem deltaGo_spec (dec : List Int → List Int → List Int) (nc : Nat) (hnc : 0 < nc)
    (hdec : ∀ p c, p.length = nc → c.length = nc → (dec p c).length = nc) :
    ∀ (k fuel : Nat) (prev rest : List Int) (acc : List (List Int)),
      rest.length = k * nc → prev.length = nc → k < fuel → (∀ o ∈ acc, o.length = nc) →
      (deltaDecode.go dec nc fuel prev rest acc).length = acc.length + k ∧
      ∀ o ∈ deltaDecode.go dec nc fuel prev rest acc, o.length = nc := by
  intro k
  induction k with
  | zero =>
    intro fuel prev rest acc hr hp hf hacc
    have : rest = [] := by
      cases rest with
      | nil => rfl
      | cons b t => simp at hr
    subst this
    cases fuel with
    | zero => omega
    | succ f =>
      simp only [deltaDecode.go, List.isEmpty_nil, if_true, List.length_reverse, Nat.add_zero, true_and]
      intro o ho
      exact hacc o (List.mem_reverse.mp ho)
  | succ k ih =>
    intro fuel prev rest acc hr hp hf hacc
    cases fuel with
    | zero => omega
    | succ f =>
      have hne : rest.isEmpty = false := by
        cases rest with
        | nil => simp [Nat.succ_mul] at hr; omega
        | cons b t => rfl
      simp only [deltaDecode.go, hne, Bool.false_eq_true, if_false]
      have htake : (rest.take nc).length = nc := by
        simp only [List.length_take, hr, Nat.succ_mul]; omega
      have ho := hdec prev (rest.take nc) hp htake
      have := ih f (dec prev (rest.take nc)) (rest.drop nc) (dec prev (rest.take nc) :: acc)
        (by simp only [List.length_drop, hr, Nat.succ_mul]; omega) ho (by omega)
        (by
          intro o h
          rcases List.mem_cons.mp h with rfl | h
          · exact ho
          · exact hacc o h)
      refine ⟨?_, this.2⟩
      rw [this.1]; simp only [List.length_cons]; omega

theorem deltaDecode_length (dec : List Int → List Int → List Int) (nc k : Nat) (hnc : 0 < nc)
    (hdec : ∀ p c, p.length = nc → c.length = nc → (dec p c).length = nc)
    (corr : List Int) (hc : corr.length = k * nc) : (deltaDecode dec nc corr).length = k * nc := by
  unfold deltaDecode
  have h := deltaGo_spec dec nc hnc hdec k (corr.length + 1) (List.replicate nc 0) corr [] hc (by simp)
    (by
      rw [hc]
      have : k ≤ k * nc := Nat.le_mul_of_pos_right k hnc
      omega) (by simp)
  rw [flatten_length_const nc _ h.2, h.1]; simp

/-! ### transforms of whole attributes -/

theorem dequantAll_spec (range bits : Nat) (mins : List Nat) : ∀ (vs : List Int) (ms : List Nat) (acc : List Bytes),
    (∀ o ∈ acc, o.length = 4) →
    (dequantAll range bits mins vs ms acc).length = acc.length + vs.length ∧
    ∀ o ∈ dequantAll range bits mins vs ms acc, o.length = 4 := by
  intro vs
  induction vs with
  | nil =>
    intro ms acc hacc
    simp only [dequantAll, List.length_reverse, List.length_nil, Nat.add_zero, true_and]
    intro o ho; exact hacc o (List.mem_reverse.mp ho)
  | cons v vs ih =>
    intro ms acc hacc
    have key : ∀ (m : Nat) (ms' : List Nat),
        (dequantAll range bits mins vs ms' (writeLE 4 (Leaf.dequant range bits m v) :: acc)).length
          = acc.length + (v :: vs).length ∧
        ∀ o ∈ dequantAll range bits mins vs ms' (writeLE 4 (Leaf.dequant range bits m v) :: acc), o.length = 4 := by
      intro m ms'
      have := ih ms' (writeLE 4 (Leaf.dequant range bits m v) :: acc) (by
        intro o h
        rcases List.mem_cons.mp h with rfl | h
        · exact Quant.writeLE_length 4 _
        · exact hacc o h)
      refine ⟨?_, this.2⟩
      rw [this.1]; simp only [List.length_cons]; omega
    cases ms with
    | nil => simp only [dequantAll]; exact key _ _
    | cons m ms' => simp only [dequantAll]; exact key _ _

theorem dequantAll_flatten_length (range bits : Nat) (mins : List Nat) (vs : List Int) (ms : List Nat) :
    (dequantAll range bits mins vs ms []).flatten.length = vs.length * 4 := by
  have h := dequantAll_spec range bits mins vs ms [] (by simp)
  rw [flatten_length_const 4 _ h.2, h.1]; simp

theorem octaAll_spec (q : Nat) : ∀ (k : Nat) (vs : List Int) (acc : List Bytes), vs.length = 2 * k →
    (∀ o ∈ acc, o.length = 12) →
    (octaAll q vs acc).length = acc.length + k ∧ ∀ o ∈ octaAll q vs acc, o.length = 12 := by
  intro k
  induction k with
  | zero =>
    intro vs acc hv hacc
    have : vs = [] := by
      cases vs with
      | nil => rfl
      | cons b t => simp at hv
    subst this
    simp only [octaAll, List.length_reverse, Nat.add_zero, true_and]
    intro o ho; exact hacc o (List.mem_reverse.mp ho)
  | succ k ih =>
    intro vs acc hv hacc
    match vs, hv with
    | a :: b :: vs, hv =>
      simp only [octaAll]
      have := ih vs ((writeLE 4 (Leaf.octaToUnit q a b).1 ++ writeLE 4 (Leaf.octaToUnit q a b).2.1 ++
          writeLE 4 (Leaf.octaToUnit q a b).2.2) :: acc)
        (by simp only [List.length_cons] at hv; omega)
        (by
          intro o h
          rcases List.mem_cons.mp h with rfl | h
          · simp [Quant.writeLE_length]
          · exact hacc o h)
      refine ⟨?_, this.2⟩
      rw [this.1]; simp only [List.length_cons]; omega
    | [], hv => simp at hv
    | [_], hv => simp at hv; omega

theorem octaAll_flatten_length (q k : Nat) (vs : List Int) (hv : vs.length = 2 * k) :
    (octaAll q vs []).flatten.length = k * 12 := by
  have h := octaAll_spec q k vs [] hv (by simp)
  rw [flatten_length_const 12 _ h.2, h.1]; simp

/-! ### symbol decoding returns exactly the requested number of values -/

theorem readTaggedValues_length (bl : Nat) : ∀ (c : Nat) (r : BitReader) (acc acc' : List Nat) (r' : BitReader),
    readTaggedValues bl c r acc = some (acc', r') → acc'.length = acc.length + c := by
  intro c
  induction c with
  | zero => intro r acc acc' r' h; simp only [readTaggedValues] at h; cases h; rfl
  | succ c ih =>
    intro r acc acc' r' h
    simp only [readTaggedValues] at h
    split at h
    · cases h
    · rename_i v r1 _
      have := ih r1 (v :: acc) acc' r' h
      simp only [List.length_cons] at this; omega

theorem decodeTaggedLoop_length (pb : Nat) (t : RansDecTable) (comps : Nat) :
    ∀ (g : Nat) (st : RansSt) (r : BitReader) (acc vals : List Nat) (r' : BitReader),
      decodeTaggedLoop pb t comps g st r acc = some (vals, r') → vals.length = acc.length + g * comps := by
  intro g
  induction g with
  | zero => intro st r acc vals r' h; simp only [decodeTaggedLoop] at h; cases h; simp
  | succ g ih =>
    intro st r acc vals r' h
    simp only [decodeTaggedLoop] at h
    split at h
    · cases h
    · rename_i acc1 r1 h1
      have l1 := readTaggedValues_length _ _ _ _ _ _ h1
      have l2 := ih _ _ _ _ _ h
      rw [l2, l1, Nat.succ_mul]; omega

theorem ransReadN_length (pb : Nat) (t : RansDecTable) : ∀ (n : Nat) (st : RansSt), (ransReadN pb t n st).length = n := by
  intro n
  induction n with
  | zero => intro st; rfl
  | succ n ih => intro st; simp [ransReadN, ih]

/-- `DecodeSymbols(num_values, num_components, …)` fills exactly `num_values` entries when
    `num_values` is a multiple of `num_components` (the callers' situation). -/
theorem decodeSymbols_length (k nc : Nat) (bs : Bytes) (vals : List Nat) (rest : Bytes)
    (h : decodeSymbols (k * nc) nc bs = some (vals, rest)) : vals.length = k * nc := by
  unfold decodeSymbols at h
  split at h
  · rename_i h0; cases h; simp [h0]
  · split at h
    · cases h
    · rename_i scheme rest0
      split at h
      · -- tagged
        unfold decodeTaggedSymbols at h
        split at h
        · cases h
        · split at h
          · cases h
          · split at h
            · cases h
            · split at h
              · cases h
              · rename_i hnc
                dsimp only at h
                split at h
                · cases h
                · rename_i vals' r hl
                  cases h
                  have hpos : 0 < nc := Nat.pos_of_ne_zero hnc
                  have := decodeTaggedLoop_length _ _ _ _ _ _ _ _ _ hl
                  rw [this, groups_div k nc hpos]; simp
      · split at h
        · -- raw
          unfold decodeRawSymbols at h
          split at h
          · cases h
          · split at h
            · unfold decodeRawSymbolsInternal at h
              dsimp only at h
              split at h
              · cases h
              · split at h
                · cases h
                · unfold decodeRans at h
                  split at h
                  · cases h
                  · cases h
                    rw [ransReadNTR_eq]; simp [ransReadN_length]
            · cases h
        · cases h

/-- the same for the symbol decoder of every bitstream version -/
theorem decodeSymbolsV_length (legacy : Bool) (k nc : Nat) (bs : Bytes) (vals : List Nat) (rest : Bytes)
    (h : decodeSymbolsV legacy (k * nc) nc bs = some (vals, rest)) : vals.length = k * nc := by
  unfold decodeSymbolsV at h
  split at h
  · exact decodeSymbols_length k nc bs vals rest h
  split at h
  · rename_i h0; cases h; simp [h0]
  · split at h
    · cases h
    · rename_i scheme rest0
      split at h
      · unfold decodeTaggedSymbolsV at h
        split at h
        · cases h
        · split at h
          · cases h
          · split at h
            · cases h
            · split at h
              · cases h
              · rename_i hnc
                dsimp only at h
                split at h
                · cases h
                · rename_i vals' r hl
                  cases h
                  have hpos : 0 < nc := Nat.pos_of_ne_zero hnc
                  have := decodeTaggedLoop_length _ _ _ _ _ _ _ _ _ hl
                  rw [this, groups_div k nc hpos]; simp
      · split at h
        · unfold decodeRawSymbolsV at h
          split at h
          · cases h
          · split at h
            · dsimp only at h
              split at h
              · cases h
              · split at h
                · cases h
                · split at h
                  · cases h
                  · cases h
                    rw [ransReadNTR_eq]; simp [ransReadN_length]
            · cases h
        · cases h

end Draco.Robust
