import DracoProofs.IOObj
import DracoProofs.IODedupPoints
/-
  DracoProofs.IOObjPoints — `ObjDecoder ∘ ObjEncoder` on point clouds and meshes without faces
  (the per-point branch of the writer, /repo 55a4a4d), at record level, for an arbitrary number codec.
-/
namespace Draco.IO.Obj
open Draco Draco.IO

variable {Tok : Type}

/-- re-parsed per-point values of attribute `a` (first `k` components), in point order -/
def ptTable (r : Nat → Nat) (a : Attribute) (k n : Nat) : List Bytes :=
  (List.range n).map (fun p => rtValue r a k (a.ioMappedIndex p))

def optCnt (o : Option Attribute) (n : Nat) : Nat :=
  match o with
  | none => 0
  | some _ => n

def optPt (r : Nat → Nat) (k : Nat) (o : Option Attribute) (n : Nat) : List Bytes :=
  match o with
  | none => []
  | some a => ptTable r a k n

/-! ### first pass -/

theorem countLines_vPts (c : NumCodec Tok) (a : Attribute) (n : Nat) (cn : Counts) :
    countLines (vPts c a n) cn = .ok { cn with np := cn.np + n } := by
  unfold vPts
  induction n generalizing cn with
  | zero => simp [countLines]
  | succ n ih =>
    rw [List.range_succ, List.map_append, countLines_append _ _ cn _ (ih cn)]
    obtain ⟨e0, e1, e2, he⟩ := floatsAt_three a (a.ioMappedIndex n)
    simp [countLines, countLine, he]
    omega

theorem countLines_vtPts (c : NumCodec Tok) (a : Attribute) (n : Nat) (cn : Counts) :
    countLines (vtPts c a n) cn = .ok { cn with nt := cn.nt + n } := by
  unfold vtPts
  induction n generalizing cn with
  | zero => simp [countLines]
  | succ n ih =>
    rw [List.range_succ, List.map_append, countLines_append _ _ cn _ (ih cn)]
    obtain ⟨e0, e1, he⟩ := floatsAt_two a (a.ioMappedIndex n)
    simp [countLines, countLine, he]
    omega

theorem countLines_vnPts (c : NumCodec Tok) (a : Attribute) (n : Nat) (cn : Counts) :
    countLines (vnPts c a n) cn = .ok { cn with nn := cn.nn + n } := by
  unfold vnPts
  induction n generalizing cn with
  | zero => simp [countLines]
  | succ n ih =>
    rw [List.range_succ, List.map_append, countLines_append _ _ cn _ (ih cn)]
    obtain ⟨e0, e1, e2, he⟩ := floatsAt_three a (a.ioMappedIndex n)
    simp [countLines, countLine, he]
    omega

theorem countLines_points (c : NumCodec Tok) (pos : Attribute) (tex nrm : Option Attribute) (n : Nat) :
    countLines (vPts c pos n ++ optLines (fun a => vtPts c a n) tex ++ optLines (fun a => vnPts c a n) nrm) {} =
    .ok { np := n, nt := optCnt tex n, nn := optCnt nrm n, nf := 0 } := by
  rw [List.append_assoc, countLines_append _ _ _ _ (countLines_vPts c pos n {})]
  have h2 : countLines (optLines (fun a => vtPts c a n) tex) { ({} : Counts) with np := ({} : Counts).np + n } =
      .ok { np := n, nt := optCnt tex n, nn := 0, nf := 0 } := by
    cases tex with
    | none => simp [optLines, countLines, optCnt]
    | some t => simp [optLines, optCnt, countLines_vtPts]
  rw [countLines_append _ _ _ _ h2]
  cases nrm with
  | none => simp [optLines, countLines, optCnt]
  | some t => simp [optLines, optCnt, countLines_vnPts]

/-! ### second pass -/

theorem stepLines_vPts (c : NumCodec Tok) (r : Nat → Nat) (a : Attribute) (cn : Counts)
    (h : CodecOn c r a 3) (n : Nat) (hn : ∀ p, p < n → a.ioMappedIndex p < a.numValues) (st : St) :
    stepLines c cn (vPts c a n) st = .ok { st with pos := st.pos ++ ptTable r a 3 n } := by
  unfold vPts ptTable
  induction n generalizing st with
  | zero => simp [stepLines]
  | succ n ih =>
    rw [List.range_succ, List.map_append,
      stepLines_append _ _ _ _ _ _ (ih (fun p hp => hn p (by omega)) st)]
    have hp := parseAll_print c r (floatsAt a (a.ioMappedIndex n) 3) (h _ (hn n (by omega)))
    obtain ⟨e0, e1, e2, he⟩ := floatsAt_three a (a.ioMappedIndex n)
    rw [he] at hp
    simp only [List.map_cons, List.map_nil] at hp
    simp only [List.map_cons, List.map_nil, he, stepLines, stepLine, hp, List.map_append, rtValue]
    simp [List.append_assoc]

theorem stepLines_vnPts (c : NumCodec Tok) (r : Nat → Nat) (a : Attribute) (cn : Counts)
    (h : CodecOn c r a 3) (n : Nat) (hn : ∀ p, p < n → a.ioMappedIndex p < a.numValues) (st : St) :
    stepLines c cn (vnPts c a n) st = .ok { st with nrm := st.nrm ++ ptTable r a 3 n } := by
  unfold vnPts ptTable
  induction n generalizing st with
  | zero => simp [stepLines]
  | succ n ih =>
    rw [List.range_succ, List.map_append,
      stepLines_append _ _ _ _ _ _ (ih (fun p hp => hn p (by omega)) st)]
    have hp := parseAll_print c r (floatsAt a (a.ioMappedIndex n) 3) (h _ (hn n (by omega)))
    obtain ⟨e0, e1, e2, he⟩ := floatsAt_three a (a.ioMappedIndex n)
    rw [he] at hp
    simp only [List.map_cons, List.map_nil] at hp
    simp only [List.map_cons, List.map_nil, he, stepLines, stepLine, hp, List.map_append, rtValue]
    simp [List.append_assoc]

theorem stepLines_vtPts (c : NumCodec Tok) (r : Nat → Nat) (a : Attribute) (cn : Counts)
    (h : CodecOn c r a 2) (n : Nat) (hn : ∀ p, p < n → a.ioMappedIndex p < a.numValues) (st : St) :
    stepLines c cn (vtPts c a n) st = .ok { st with tex := st.tex ++ ptTable r a 2 n } := by
  unfold vtPts ptTable
  induction n generalizing st with
  | zero => simp [stepLines]
  | succ n ih =>
    rw [List.range_succ, List.map_append,
      stepLines_append _ _ _ _ _ _ (ih (fun p hp => hn p (by omega)) st)]
    have hp := parseAll_print c r (floatsAt a (a.ioMappedIndex n) 2) (h _ (hn n (by omega)))
    obtain ⟨e0, e1, he⟩ := floatsAt_two a (a.ioMappedIndex n)
    rw [he] at hp
    simp only [List.map_cons, List.map_nil] at hp
    simp only [List.map_cons, List.map_nil, he, stepLines, stepLine, hp, List.map_append, rtValue]
    simp [List.append_assoc]

def OptMapsIn (o : Option Attribute) (n : Nat) : Prop :=
  ∀ a, o = some a → ∀ p, p < n → a.ioMappedIndex p < a.numValues

theorem stepLines_points (c : NumCodec Tok) (r : Nat → Nat) (cn : Counts) (pos : Attribute)
    (tex nrm : Option Attribute) (n : Nat) (hp : CodecOn c r pos 3) (ht : OptCodecOn c r 2 tex)
    (hn : OptCodecOn c r 3 nrm) (mp : ∀ p, p < n → pos.ioMappedIndex p < pos.numValues)
    (mt : OptMapsIn tex n) (mn : OptMapsIn nrm n) :
    stepLines c cn (vPts c pos n ++ optLines (fun a => vtPts c a n) tex ++ optLines (fun a => vnPts c a n) nrm) {} =
    .ok { pos := ptTable r pos 3 n, tex := optPt r 2 tex n, nrm := optPt r 3 nrm n, corners := [] } := by
  rw [List.append_assoc, stepLines_append _ _ _ _ _ _ (stepLines_vPts c r pos cn hp n mp {})]
  have h2 : stepLines c cn (optLines (fun a => vtPts c a n) tex)
      { ({} : St) with pos := ({} : St).pos ++ ptTable r pos 3 n } =
      .ok { pos := ptTable r pos 3 n, tex := optPt r 2 tex n } := by
    cases tex with
    | none => simp [optLines, stepLines, optPt]
    | some t =>
      simp only [optLines, optPt]
      rw [stepLines_vtPts c r t cn ht n (mt t rfl)]
      simp
  rw [stepLines_append _ _ _ _ _ _ h2]
  cases nrm with
  | none => simp [optLines, stepLines, optPt]
  | some t =>
    simp only [optLines, optPt]
    rw [stepLines_vnPts c r t cn hn n (mn t rfl)]
    simp

/-! ### the assembled geometry -/

/-- attributes the reader creates for a file without faces -/
def ptAtts (r : Nat → Nat) (pos : Attribute) (tex nrm : Option Attribute) (n : Nat) : List Attribute :=
  [mkAtt tPOSITION 3 0 (ptTable r pos 3 n) none] ++
  (match tex with
   | none => []
   | some t => [mkAtt tTEX_COORD 2 1 (ptTable r t 2 n) none]) ++
  (match nrm with
   | none => []
   | some m => [mkAtt tNORMAL 3 (1 + tex.toList.length) (ptTable r m 3 n) none])

theorem assemble_points (asMesh : Bool) (r : Nat → Nat) (pos : Attribute) (tex nrm : Option Attribute)
    (n : Nat) (hn : n ≠ 0) :
    assemble asMesh { np := n, nt := optCnt tex n, nn := optCnt nrm n, nf := 0 }
      { pos := ptTable r pos 3 n, tex := optPt r 2 tex n, nrm := optPt r 3 nrm n, corners := [] } =
    { isMesh := asMesh, numPoints := n, faces := [], atts := ptAtts r pos tex nrm n } := by
  cases tex <;> cases nrm <;> simp [assemble, optCnt, optPt, ptAtts, hn]

theorem ptTable_length (r : Nat → Nat) (a : Attribute) (k n : Nat) : (ptTable r a k n).length = n := by
  simp [ptTable]

theorem ptTable_all (r : Nat → Nat) (a : Attribute) (k n : Nat) : ∀ x ∈ ptTable r a k n, x.length = 4 * k := by
  intro x hx
  simp only [ptTable, List.mem_map] at hx
  obtain ⟨i, -, rfl⟩ := hx
  exact rtValue_length r a k _

theorem mkAtt_none_pointValue (ty nc uid : Nat) (vals : List Bytes)
    (hall : ∀ x ∈ vals, x.length = 4 * nc) (p : Nat) (hp : p < vals.length) :
    (mkAtt ty nc uid vals none).ioPointValue p = vals[p] := by
  unfold Attribute.ioPointValue Attribute.ioValueAt
  rw [mkAtt_stride]
  have hm : (mkAtt ty nc uid vals none).ioMappedIndex p = p := by
    simp [mkAtt, Attribute.ioMappedIndex]
  rw [hm]
  have hv : (mkAtt ty nc uid vals none).values = vals.flatten := rfl
  rw [hv, flatten_chunk (4 * nc) vals p hp hall]

theorem mkAtt_none_ok (ty nc uid : Nat) (vals : List Bytes) (n : Nat)
    (hall : ∀ x ∈ vals, x.length = 4 * nc) (hlen : vals.length = n) :
    AttOk (mkAtt ty nc uid vals none) n := by
  refine ⟨?_, ?_, ?_⟩
  · rw [mkAtt_stride]
    show vals.length * (4 * nc) ≤ vals.flatten.length
    rw [Stl.flatten_length_of_all (4 * nc) vals hall]
    exact Nat.le_refl _
  · intro m hm
    simp [mkAtt] at hm
  · intro p hp
    show (mkAtt ty nc uid vals none).ioMappedIndex p < vals.length
    simp only [mkAtt, Attribute.ioMappedIndex]
    omega

/-- shape of every attribute of the assembled point cloud -/
theorem ptAtts_shape (r : Nat → Nat) (pos : Attribute) (tex nrm : Option Attribute) (n : Nat) :
    ∀ a ∈ ptAtts r pos tex nrm n, ∃ ty k uid b, a = mkAtt ty k uid (ptTable r b k n) none ∧ (k = 2 ∨ k = 3) ∧
      ((ty = tTEX_COORD ∧ k = 2) ∨ (ty ≠ tTEX_COORD ∧ k = 3)) := by
  intro a ha
  unfold ptAtts at ha
  simp only [List.mem_append, List.mem_singleton] at ha
  rcases ha with (rfl | ha) | ha
  · exact ⟨_, _, _, pos, rfl, Or.inr rfl, Or.inr ⟨by decide, rfl⟩⟩
  · cases tex with
    | none => simp at ha
    | some t =>
      simp only [List.mem_singleton] at ha
      subst ha
      exact ⟨_, _, _, t, rfl, Or.inl rfl, Or.inl ⟨rfl, rfl⟩⟩
  · cases nrm with
    | none => simp at ha
    | some m =>
      simp only [List.mem_singleton] at ha
      subst ha
      exact ⟨_, _, _, m, rfl, Or.inr rfl, Or.inr ⟨by decide, rfl⟩⟩

theorem ptAtts_ok (r : Nat → Nat) (pos : Attribute) (tex nrm : Option Attribute) (n : Nat) :
    ∀ a ∈ ptAtts r pos tex nrm n, AttOk a n ∧ dedupSupported a = true ∧ (a.map = none → a.numValues = n) ∧
      a.dataType = dtFLOAT32 ∧ a.numComponents = (if a.attType = tTEX_COORD then 2 else 3) := by
  intro a ha
  obtain ⟨ty, k, uid, b, rfl, hk, hty⟩ := ptAtts_shape r pos tex nrm n a ha
  refine ⟨mkAtt_none_ok _ _ _ _ n (ptTable_all r b k n) (ptTable_length r b k n),
    mkAtt_supported _ _ _ _ _ (by omega), fun _ => ?_, rfl, ?_⟩
  · show (ptTable r b k n).length = n
    exact ptTable_length r b k n
  · show k = if ty = tTEX_COORD then 2 else 3
    rcases hty with ⟨h1, h2⟩ | ⟨h1, h2⟩
    · simp [h1, h2]
    · simp [h1, h2]

/-- expected value tuple of source point `p` after the round trip -/
def rtTuple (r : Nat → Nat) (pos : Attribute) (tex nrm : Option Attribute) (p : Nat) : List (Nat × Bytes) :=
  [(tPOSITION, rtValue r pos 3 (pos.ioMappedIndex p))] ++
  (match tex with
   | none => []
   | some t => [(tTEX_COORD, rtValue r t 2 (t.ioMappedIndex p))]) ++
  (match nrm with
   | none => []
   | some m => [(tNORMAL, rtValue r m 3 (m.ioMappedIndex p))])

theorem mkAtt_attType (ty nc uid : Nat) (vals : List Bytes) (m : Option (List Nat)) :
    (mkAtt ty nc uid vals m).attType = ty := rfl

theorem ptAtt_pointValue (r : Nat → Nat) (ty k uid : Nat) (b : Attribute) (n p : Nat) (hp : p < n) :
    (mkAtt ty k uid (ptTable r b k n) none).ioPointValue p = rtValue r b k (b.ioMappedIndex p) := by
  rw [mkAtt_none_pointValue _ _ _ _ (ptTable_all r b k n) p (by rw [ptTable_length]; exact hp)]
  simp [ptTable]

theorem pre_pointTuple (asMesh : Bool) (r : Nat → Nat) (pos : Attribute) (tex nrm : Option Attribute)
    (n p : Nat) (hp : p < n) :
    pointTuple { isMesh := asMesh, numPoints := n, faces := [], atts := ptAtts r pos tex nrm n } p =
      rtTuple r pos tex nrm p := by
  unfold pointTuple ptAtts rtTuple
  cases tex <;> cases nrm <;>
    simp [ptAtt_pointValue r _ _ _ _ n p hp, mkAtt_attType]

/-! ### the writer on a valid point cloud -/

theorem encodeE_points_eq (c : NumCodec Tok) (g : Geometry) (pos : Attribute)
    (hpp : perPoint g = true) (hpos : g.ioNamedAtt tPOSITION = some pos) (hvalid : g.valid = true)
    (hnv : pos.numValues ≠ 0) (hpdt : pos.dataType = dtFLOAT32)
    (htdt : ∀ t, texOf g = some t → t.dataType = dtFLOAT32)
    (hndt : ∀ n, nrmOf g = some n → n.dataType = dtFLOAT32) :
    encodeE c g = .ok (vPts c pos g.numPoints ++ optLines (fun a => vtPts c a g.numPoints) (texOf g) ++
      optLines (fun a => vnPts c a g.numPoints) (nrmOf g)) := by
  obtain ⟨hmem, -⟩ := namedAtt_mem g _ pos hpos
  have hpv := valid_att g hvalid pos hmem
  have w1 := writable_ok pos g.numPoints hpdt hpv
  have w2 : optWritable (texOf g) = .ok () ∧ optMapValid (texOf g) g.numPoints = true := by
    cases ht : texOf g with
    | none => simp [optWritable, optMapValid]
    | some t =>
      have hv := valid_att g hvalid t (texOf_some g t ht).1
      exact ⟨writable_ok t g.numPoints (htdt t ht) hv, hv⟩
  have w3 : optWritable (nrmOf g) = .ok () ∧ optMapValid (nrmOf g) g.numPoints = true := by
    cases ht : nrmOf g with
    | none => simp [optWritable, optMapValid]
    | some t =>
      have hv := valid_att g hvalid t (nrmOf_some g t ht).1
      exact ⟨writable_ok t g.numPoints (hndt t ht) hv, hv⟩
  unfold encodeE
  simp only [hpp, Bool.not_true, Bool.false_eq_true, if_false, hpos, hnv, w1, w2.1, w3.1, hpv, w2.2, w3.2,
    Bool.and_self]

/-! ### round trip -/

/-- **OBJ round trip of point clouds and meshes without faces, at record level**, for any number
    codec whose print/parse round trip on the printed components is `r`: the reader (into a `Mesh`
    or a `PointCloud`) returns a face-less geometry with float32 POSITION ×3 / TEX_COORD ×2 /
    NORMAL ×3 attributes and a map `φ` from source points onto result points such that point `φ p`
    carries exactly the re-parsed values of source point `p` (`rtTuple`), every result point is
    some `φ p`, and no two result points carry the same values: the result is the *set* of
    re-parsed source points (equal points are merged by `DeduplicatePointIds`). -/
theorem points_roundtrip (c : NumCodec Tok) (r : Nat → Nat) (g : Geometry) (pos : Attribute) (asMesh : Bool)
    (hpp : perPoint g = true) (hnp : g.numPoints ≠ 0)
    (hpos : g.ioNamedAtt tPOSITION = some pos) (hvalid : g.valid = true)
    (hpdt : pos.dataType = dtFLOAT32)
    (htdt : ∀ t, texOf g = some t → t.dataType = dtFLOAT32)
    (hndt : ∀ n, nrmOf g = some n → n.dataType = dtFLOAT32)
    (hcp : CodecOn c r pos 3) (hct : OptCodecOn c r 2 (texOf g)) (hcn : OptCodecOn c r 3 (nrmOf g)) :
    ∃ (lines : List (Line Tok)) (g' : Geometry) (φ : Nat → Nat), encodeE c g = .ok lines ∧ decodeE c asMesh lines = .ok g' ∧
      g'.isMesh = asMesh ∧ g'.faces = [] ∧
      (∀ a' ∈ g'.atts, a'.dataType = dtFLOAT32 ∧
        a'.numComponents = (if a'.attType = tTEX_COORD then 2 else 3)) ∧
      (∀ p, p < g.numPoints → φ p < g'.numPoints ∧ pointTuple g' (φ p) = rtTuple r pos (texOf g) (nrmOf g) p) ∧
      (∀ q, q < g'.numPoints → ∃ p, p < g.numPoints ∧ φ p = q) ∧
      (∀ p q, p < g'.numPoints → q < g'.numPoints → pointTuple g' p = pointTuple g' q → p = q) := by
  obtain ⟨hmem, -⟩ := namedAtt_mem g _ pos hpos
  have hokp := attsOk_of_valid g hvalid pos hmem
  have hnv : pos.numValues ≠ 0 := by
    have := hokp.inRange 0 (by omega); omega
  have henc := encodeE_points_eq c g pos hpp hpos hvalid hnv hpdt htdt hndt
  generalize htex : texOf g = tex at *
  generalize hnrm : nrmOf g = nrm at *
  have mt : OptMapsIn tex g.numPoints := by
    intro t ht
    exact (attsOk_of_valid g hvalid t (texOf_some g t (by rw [htex, ht])).1).inRange
  have mn : OptMapsIn nrm g.numPoints := by
    intro t ht
    exact (attsOk_of_valid g hvalid t (nrmOf_some g t (by rw [hnrm, ht])).1).inRange
  let n := g.numPoints
  let cn : Counts := { np := n, nt := optCnt tex n, nn := optCnt nrm n, nf := 0 }
  have hcount := countLines_points c pos tex nrm n
  have hstep := stepLines_points c r cn pos tex nrm n hcp hct hcn hokp.inRange mt mn
  let pre : Geometry := { isMesh := asMesh, numPoints := n, faces := [], atts := ptAtts r pos tex nrm n }
  have hdec : decodeE c asMesh (vPts c pos n ++ optLines (fun a => vtPts c a n) tex ++
      optLines (fun a => vnPts c a n) nrm) = .ok pre.ioDedupValues.ioDedupPointIds := by
    unfold decodeE
    rw [hcount]
    simp only
    have hcond : (decide ((0 : Nat) = 0) && (decide (n = 0) || (decide (optCnt tex n > 0) && decide (optCnt tex n ≠ n)) ||
        (decide (optCnt nrm n > 0) && decide (optCnt nrm n ≠ n)))) = false := by
      cases tex <;> cases nrm <;> simp [optCnt, hnp, n]
    rw [if_neg (by simpa using hcond)]
    rw [hstep]
    simp only
    rw [assemble_points asMesh r pos tex nrm n hnp]
  have hall := ptAtts_ok r pos tex nrm n
  have hpreok : ∀ a ∈ pre.atts, AttOk a pre.numPoints := fun a ha => (hall a ha).1
  obtain ⟨φ, hφ1, hφ2⟩ := dedup_points pre hnp hpreok
  refine ⟨_, _, φ, henc, hdec, ?_, ?_, ?_, ?_, hφ2, ?_⟩
  · rw [dedup_isMesh]
  · have := dedup_faces_length pre
    exact List.length_eq_zero_iff.mp (by rw [this]; rfl)
  · intro a' ha'
    obtain ⟨k, hk, rfl⟩ := List.getElem_of_mem ha'
    obtain ⟨a, h1, h2, h3, h4⟩ := dedup_att_static pre k _ (List.getElem?_eq_getElem hk)
    obtain ⟨-, -, -, d1, d2⟩ := hall a (List.mem_of_getElem? h1)
    rw [h3, h4, h2]; exact ⟨d1, d2⟩
  · intro p hp
    obtain ⟨a, b⟩ := hφ1 p hp
    exact ⟨a, by rw [b]; exact pre_pointTuple asMesh r pos tex nrm n p hp⟩
  · intro p q hp hq hv
    apply dedup_separates pre hnp (fun a ha => ⟨(hall a ha).1, (hall a ha).2.1, (hall a ha).2.2.1⟩) p q hp hq
    intro k a' hk
    have := congrArg (fun l => l[k]?) hv
    simp only [pointTuple, List.getElem?_map, hk, Option.map_some, Option.some.injEq, Prod.mk.injEq] at this
    exact this.2

end Draco.IO.Obj
