import DracoProofs.EbEncTrace
import DracoProofs.EbDecSimHole
import DracoProofs.EbTraceI
/-
  ENCODER HALF of the connectivity link for SPLIT-FREE traversals with ARBITRARY start faces: the abstract trace
  `DecSim.TraceI` (DracoProofs/EbTraceI.lean) holds of the result of a successful `encodeConnectivity` (standard traversal,
  no attribute data) that produced no symbol `S`:  `traceI_of_run`.

  * The timestamped invariant `TrInv` of DracoProofs/EbEncTrace.lean, generalised over the init faces `I`
    (`init_face_connectivity_corners_`): `Before I P i y` — `y` is invalid, in a face processed before `P[i]`, or in an
    init face.  An interior start face is marked visited without a symbol: `CFlag.mark` (no tip vertex of an earlier `C`
    lies on it: `vis_of_fan`, from the closure of the visited faces and `Cover` = the vertices of a created table are
    swing classes), `TrInv.mark`.  `traceI_face_of_state / _of_run`: sizes, pairwise different faces, `TraceAt` for every
    symbol face (init faces count as decoded LATER).
  * `InitOK` (`outerBody_init`): the init faces are visited, have no vertex on a hole and pairwise no common vertex;
    `fan_of_init`: the fan of each of their vertices is closed and all its other faces are SYMBOL faces.
  * positions (`innerBody_pos`, `stackBody_pos`, `outerTail_pos`, `OPos`, `outerBody_pos`): every call processes its start
    corner first and — without `S` — pushes exactly one `E`, as its last symbol (the traversal loop cannot run into its
    bound); hence the calls start at `callStarts sy` = `0` and the indices after an `E`, there is one per start-face flag,
    and an interior start face is glued (`Opposite`) to the first corner of its call.
  * `compEnds_eq`, `startsOf`, `traceI_of_state`, `traceI_of_run`.
-/
namespace Draco.EbEnc.EncTraceI
open Draco
open Draco.Eb hiding nextC prevC iabs
open Draco.EbEnc.EncCounts Draco.EbEnc.Coverage Draco.EbEnc.DecSim AttViews

variable {I : Array Nat}

/-! ## the timestamped invariant -/

/-- `y` is invalid or lies in a face processed before `P[i]` -/
def Before (I P : Array Nat) (i y : Nat) : Prop :=
  y = inv ∨ (∃ i', i' < i ∧ i' < P.size ∧ P[i']! / 3 = y / 3) ∨ ∃ k, k < I.size ∧ I[k]! / 3 = y / 3

/-- `y` is the corner processed right after `P[i]` -/
def NextIs (P : Array Nat) (cur i y : Nat) : Prop :=
  y ≠ inv ∧ ((y = cur ∧ i + 1 = P.size) ∨ (i + 1 < P.size ∧ P[i + 1]! = y))

structure TrEnt (t : CT) (holeId : Array Nat) (I : Array Nat) (vf : Array Bool) (P sy : Array Nat) (cur i : Nat) : Prop where
  g : Before I P i t.opp[P[i]!]!
  e : sy[i]! = topoE → Before I P i t.opp[Eb.nextC P[i]!]! ∧ Before I P i t.opp[Eb.prevC P[i]!]!
  r : sy[i]! = topoR → Before I P i t.opp[Eb.nextC P[i]!]! ∧ NextIs P cur i t.opp[Eb.prevC P[i]!]!
  l : sy[i]! = topoL → NextIs P cur i t.opp[Eb.nextC P[i]!]! ∧ Before I P i t.opp[Eb.prevC P[i]!]!
  c : sy[i]! = topoC → NextIs P cur i t.opp[Eb.nextC P[i]!]! ∧ CFlag t holeId vf P i
  k : sy[i]! = topoC ∨ sy[i]! = topoS ∨ sy[i]! = topoL ∨ sy[i]! = topoR ∨ sy[i]! = topoE

structure TrInv (t : CT) (holeId : Array Nat) (I : Array Nat) (vf : Array Bool) (P sy : Array Nat) (cur : Nat) : Prop where
  ent : ∀ i, i < P.size → TrEnt t holeId I vf P sy cur i
  sz : sy.size = P.size

theorem Before.push {P : Array Nat} {i y c : Nat} (h : Before I P i y) : Before I (P.push c) i y := by
  rcases h with h | ⟨i', h1, h2, h3⟩ | h
  · exact Or.inl h
  · exact Or.inr (Or.inl ⟨i', h1, by simp; omega, by rw [push_get!, if_neg (by omega)]; exact h3⟩)
  · exact Or.inr (Or.inr h)

/-- a new init face -/
theorem Before.pushI {P : Array Nat} {i y g : Nat} (h : Before I P i y) : Before (I.push g) P i y := by
  rcases h with h | h | ⟨k, h1, h2⟩
  · exact Or.inl h
  · exact Or.inr (Or.inl h)
  · exact Or.inr (Or.inr ⟨k, by simp; omega, by rw [push_get!, if_neg (by omega)]; exact h2⟩)

theorem NextIs.push {P : Array Nat} {c cur' i y : Nat} (h : NextIs P c i y) : NextIs (P.push c) cur' i y := by
  obtain ⟨hne, h | ⟨h1, h2⟩⟩ := h
  · refine ⟨hne, Or.inr ⟨by simp; omega, ?_⟩⟩
    rw [push_get!, if_pos h.2, h.1]
  · refine ⟨hne, Or.inr ⟨by simp; omega, ?_⟩⟩
    rw [push_get!, if_neg (by omega)]; exact h2

/-- **one traversal step** on the timestamped invariant: `c` is pushed with the symbol `x` -/
theorem TrInv.visit {t : CT} {holeId : Array Nat} {vf : Array Bool} {P sy : Array Nat} {c cur' x : Nat}
    (h : TrInv t holeId I vf P sy c) (hlt : c / 3 < vf.size)
    (hnew : TrEnt t holeId I (vf.setIfInBounds (c / 3) true) (P.push c) (sy.push x) cur' P.size) :
    TrInv t holeId I (vf.setIfInBounds (c / 3) true) (P.push c) (sy.push x) cur' := by
  refine ⟨?_, by simp [h.sz]⟩
  intro i hi
  rw [Array.size_push] at hi
  by_cases hlast : i = P.size
  · rw [hlast]; exact hnew
  have hi' : i < P.size := by omega
  have eP : (P.push c)[i]! = P[i]! := by rw [push_get!, if_neg hlast]
  have eS : (sy.push x)[i]! = sy[i]! := by rw [push_get!, if_neg (by rw [h.sz]; exact hlast)]
  obtain ⟨g, e, r, l, cc, k⟩ := h.ent i hi'
  rw [← eS] at e r l cc k
  refine ⟨by rw [eP]; exact g.push, ?_, ?_, ?_, ?_, k⟩
  · intro hs; rw [eP]; exact ⟨(e hs).1.push, (e hs).2.push⟩
  · intro hs; rw [eP]; exact ⟨(r hs).1.push, (r hs).2.push⟩
  · intro hs; rw [eP]; exact ⟨(l hs).1.push, (l hs).2.push⟩
  · intro hs; rw [eP]; exact ⟨(cc hs).1.push, (cc hs).2.push hi' hlt⟩

/-- a new current corner is taken from the stack -/
theorem TrInv.recur {t : CT} {holeId : Array Nat} {vf : Array Bool} {P sy : Array Nat} (cur' : Nat)
    (h : TrInv t holeId I vf P sy inv) : TrInv t holeId I vf P sy cur' := by
  have hn : ∀ i y, NextIs P inv i y → NextIs P cur' i y := by
    intro i y ⟨hne, h'⟩
    rcases h' with h' | h'
    · exact absurd h'.1 hne
    · exact ⟨hne, Or.inr h'⟩
  refine ⟨fun i hi => ?_, h.sz⟩
  obtain ⟨g, e, r, l, cc, k⟩ := h.ent i hi
  exact ⟨g, e, fun hs => ⟨(r hs).1, hn _ _ (r hs).2⟩, fun hs => ⟨hn _ _ (l hs).1, (l hs).2⟩,
    fun hs => ⟨hn _ _ (cc hs).1, (cc hs).2⟩, k⟩

/-- a visited face has a time stamp or is an init face -/
theorem before_of_vis {t : CT} {vf vv : Array Bool} {P : Array Nat} (hInv : Inv t vf vv P I) {y : Nat}
    (h : Vis vf y) : Before I P P.size y := by
  rcases h with h | h
  · exact Or.inl h
  right
  have hc := hInv.cnt (y / 3)
  rw [if_pos h] at hc
  have hpos : 0 < (P.toList ++ I.toList).countP (fun c => c / 3 == y / 3) := by omega
  rw [List.countP_pos_iff] at hpos
  obtain ⟨c, hcm, hcf⟩ := hpos
  rcases List.mem_append.mp hcm with hcm | hcm
  · obtain ⟨i, hi, e⟩ := mem_toList_iff_get.mp hcm
    exact Or.inl ⟨i, hi, hi, by rw [e]; simpa using hcf⟩
  · obtain ⟨i, hi, e⟩ := mem_toList_iff_get.mp hcm
    exact Or.inr ⟨i, hi, by rw [e]; simpa using hcf⟩

/-! ## the traversal loop -/

theorem topo_vals : topoC = 0 ∧ topoS = 1 ∧ topoL = 3 ∧ topoR = 5 ∧ topoE = 7 := by decide

/-- the entry of the corner that is pushed -/
theorem TrEnt.new {t : CT} {holeId : Array Nat} {vf' : Array Bool} {P sy : Array Nat} {c x cur' : Nat}
    (hsz : sy.size = P.size) (g : Before I P P.size t.opp[c]!)
    (e : x = topoE → Before I P P.size t.opp[Eb.nextC c]! ∧ Before I P P.size t.opp[Eb.prevC c]!)
    (r : x = topoR → Before I P P.size t.opp[Eb.nextC c]! ∧ t.opp[Eb.prevC c]! ≠ inv ∧ t.opp[Eb.prevC c]! = cur')
    (l : x = topoL → (t.opp[Eb.nextC c]! ≠ inv ∧ t.opp[Eb.nextC c]! = cur') ∧ Before I P P.size t.opp[Eb.prevC c]!)
    (cc : x = topoC → (t.opp[Eb.nextC c]! ≠ inv ∧ t.opp[Eb.nextC c]! = cur') ∧ CFlag t holeId vf' (P.push c) P.size)
    (k : x = topoC ∨ x = topoS ∨ x = topoL ∨ x = topoR ∨ x = topoE) :
    TrEnt t holeId I vf' (P.push c) (sy.push x) cur' P.size := by
  have eP : (P.push c)[P.size]! = c := by rw [push_get!, if_pos rfl]
  have eS : (sy.push x)[P.size]! = x := by rw [push_get!, if_pos hsz.symm]
  have hn : ∀ y, y ≠ inv ∧ y = cur' → NextIs (P.push c) cur' P.size y :=
    fun y hy => ⟨hy.1, Or.inl ⟨hy.2, by simp⟩⟩
  rw [← eS] at e r l cc k
  refine ⟨by rw [eP]; exact g.push, ?_, ?_, ?_, ?_, k⟩
  · intro hs; rw [eP]; exact ⟨(e hs).1.push, (e hs).2.push⟩
  · intro hs; rw [eP]; exact ⟨(r hs).1.push, hn _ (r hs).2⟩
  · intro hs; rw [eP]; exact ⟨hn _ (l hs).1, (l hs).2.push⟩
  · intro hs; rw [eP]; exact ⟨hn _ (cc hs).1, (cc hs).2⟩

/-- the traversal loop continues: timestamps, and the current corner is valid -/
def TrY (t : CT) (holeId : Array Nat) (I : Array Nat) (s : InSt) : Prop :=
  TrInv t holeId I s.1 s.2.2.2.2.2.1 s.2.2.2.2.1 s.2.2.2.2.2.2.2.2.2.2.2.1 ∧ s.2.2.2.2.2.2.2.2.2.2.2.1 ≠ inv

/-- the traversal loop is left -/
def TrQ (t : CT) (holeId : Array Nat) (I : Array Nat) (s : InSt) : Prop :=
  TrInv t holeId I s.1 s.2.2.2.2.2.1 s.2.2.2.2.1 inv

section loops
variable {t : CT} (hT : TblOK t) {holeId : Array Nat}
include hT

theorem innerTail_tr {valence : Bool} {vh : Array Bool} {splits : Array TopoSplit} {f2s : Array Nat} {lsid : Int}
    {nss nv face lastCorner vertId : Nat} {onB : Bool} {val : ValEnc} {sy : Array Nat}
    {vf vv1 : Array Bool} {P stack : Array Nat} {c : Nat} {r : ForInStep InSt}
    (hTr : TrInv t holeId I vf P sy c) (hc : c < t.c2v.size) (hlt : c / 3 < vf.size)
    (hg : Before I P P.size t.opp[c]!)
    (hbef : ∀ y, Vis (vf.setIfInBounds (c / 3) true) y → (y ≠ inv → y / 3 ≠ c / 3) → Before I P P.size y)
    (hb : innerTail t holeId valence (vf.setIfInBounds (c / 3) true) vh (P.push c) splits f2s lsid nss stack nv face
      lastCorner vertId onB () vv1 val sy c = .ok r) :
    StepOK (TrY t holeId I) (TrQ t holeId I) r := by
  have hk := hT.ctok
  have hcinv : c < inv := hT.lt_inv hc
  have hn : Eb.nextC c < t.numCorners := hk.next_lt hc
  have hp : Eb.prevC c < t.numCorners := hk.prev_lt hc
  obtain ⟨vC, vS, vL, vR, vE⟩ := topo_vals
  unfold innerTail at hb
  obtain ⟨rc, hR, hb⟩ := (bind_ok_iff _ _ _).mp hb
  obtain ⟨lc, hL, hb⟩ := (bind_ok_iff _ _ _).mp hb
  obtain ⟨rv, hb, hrv1, hrv2⟩ := visited_absorb hb
  obtain ⟨lv, hb, hlv1, hlv2⟩ := visited_absorb hb
  have erc : t.opp[Eb.nextC c]! = rc := by
    rw [← vget_eq]; exact (opposite_get (hT.base.ne_inv hn) hR).2
  have elc : t.opp[Eb.prevC c]! = lc := by
    rw [← vget_eq]; exact (opposite_get (hT.base.ne_inv hp) hL).2
  -- neighbours lie in other faces
  have faceR : rc ≠ inv → rc / 3 ≠ c / 3 := by
    intro hne
    have := hk.oppface _ hn (by rw [vget_eq, erc]; exact hne)
    rw [vget_eq, erc, nextC_div3 c hcinv] at this
    exact this
  have faceL : lc ≠ inv → lc / 3 ≠ c / 3 := by
    intro hne
    have := hk.oppface _ hp (by rw [vget_eq, elc]; exact hne)
    rw [vget_eq, elc, prevC_div3 c hcinv] at this
    exact this
  have visOf : ∀ (x : Nat) (b : Bool), ((x != inv) = true → rdB "visited_faces_" (vf.setIfInBounds (c / 3) true) (faceOf x) = .ok b) →
      (¬ (x != inv) = true → b = true) → b = true → Vis (vf.setIfInBounds (c / 3) true) x := by
    intro x b h1 h2 hbt
    by_cases hx : x = inv
    · exact Or.inl hx
    · have hne : (x != inv) = true := by simpa using hx
      have := (rdB_get (h1 hne)).2
      rw [faceOf_ne hx, hbt] at this
      exact Or.inr this
  have neOf : ∀ (x : Nat) (b : Bool), (¬ (x != inv) = true → b = true) → b = false → x ≠ inv := by
    intro x b h2 hbf hx
    have := h2 (by simp [hx])
    rw [hbf] at this; cases this
  rcases ite_ok hb with ⟨hrvt, hb⟩ | ⟨hrvf, hb⟩
  · have hbr : Before I P P.size rc := hbef rc (visOf rc rv hrv1 hrv2 hrvt) faceR
    over_splits hb =>
      rcases ite_ok hb with ⟨hlvt, hb⟩ | ⟨hlvf, hb⟩
      · -- E
        have hbl : Before I P P.size lc := hbef lc (visOf lc lv hlv1 hlv2 hlvt) faceL
        over_splits hb =>
          obtain ⟨val1, hb⟩ := ite_bind_absorb hb
          refine Or.inr ⟨_, pure_ok hb, ?_⟩
          apply hTr.visit hlt
          exact TrEnt.new hTr.sz hg (fun _ => by rw [erc, elc]; exact ⟨hbr, hbl⟩)
            (fun h => by rw [vE, vR] at h; omega) (fun h => by rw [vE, vL] at h; omega)
            (fun h => by rw [vE, vC] at h; omega) (Or.inr (Or.inr (Or.inr (Or.inr rfl))))
      · -- R
        have hlf : lv = false := by simpa using hlvf
        have hlne := neOf lc lv hlv2 hlf
        obtain ⟨val1, hb⟩ := ite_bind_absorb hb
        refine Or.inl ⟨_, pure_ok hb, ?_, hlne⟩
        apply hTr.visit hlt
        exact TrEnt.new hTr.sz hg (fun h => by rw [vE, vR] at h; omega)
          (fun _ => by rw [erc, elc]; exact ⟨hbr, hlne, rfl⟩) (fun h => by rw [vR, vL] at h; omega)
          (fun h => by rw [vR, vC] at h; omega) (Or.inr (Or.inr (Or.inr (Or.inl rfl))))
  · have hrf : rv = false := by simpa using hrvf
    have hrne := neOf rc rv hrv2 hrf
    rcases ite_ok hb with ⟨hlvt, hb⟩ | ⟨hlvf, hb⟩
    · -- L
      have hbl : Before I P P.size lc := hbef lc (visOf lc lv hlv1 hlv2 hlvt) faceL
      over_splits hb =>
        obtain ⟨val1, hb⟩ := ite_bind_absorb hb
        refine Or.inl ⟨_, pure_ok hb, ?_, hrne⟩
        apply hTr.visit hlt
        exact TrEnt.new hTr.sz hg (fun h => by rw [vE, vL] at h; omega) (fun h => by rw [vL, vR] at h; omega)
          (fun _ => by rw [erc, elc]; exact ⟨⟨hrne, rfl⟩, hbl⟩)
          (fun h => by rw [vL, vC] at h; omega) (Or.inr (Or.inr (Or.inl rfl)))
    · -- S
      obtain ⟨val1, hb⟩ := ite_bind_absorb hb
      have fin : ∀ (vv2 vh2 : Array Bool) {x : Eb.R (ForInStep InSt)}, x = .ok r →
          (∀ f2s', x = pure (ForInStep.done ((vf.setIfInBounds (c / 3) true), vv2, vh2, val1, sy.push topoS, P.push c,
            splits, f2s', lsid, nss + 1, (stack.set! (stack.size - 1) lc).push rc, c, nv)) →
            StepOK (TrY t holeId I) (TrQ t holeId I) r) := by
        intro vv2 vh2 x hx f2s' e
        rw [e] at hx
        refine Or.inr ⟨_, pure_ok hx, ?_⟩
        apply hTr.visit hlt
        exact TrEnt.new hTr.sz hg (fun h => by rw [vE, vS] at h; omega) (fun h => by rw [vS, vR] at h; omega)
          (fun h => by rw [vS, vL] at h; omega) (fun h => by rw [vS, vC] at h; omega) (Or.inr (Or.inl rfl))
      rcases ite_ok hb with ⟨_, hb⟩ | ⟨_, hb⟩
      · obtain ⟨hole, _, hb⟩ := (bind_ok_iff _ _ _).mp hb
        obtain ⟨hv, _, hb⟩ := (bind_ok_iff _ _ _).mp hb
        rcases ite_ok hb with ⟨_, hb⟩ | ⟨_, hb⟩
        · obtain ⟨x, hx, hb⟩ := (bind_ok_iff _ _ _).mp hb
          obtain ⟨vv2, vh2⟩ := x
          obtain ⟨f2s', _, hb⟩ := (bind_ok_iff _ _ _).mp hb
          exact fin vv2 vh2 hb f2s' rfl
        · obtain ⟨f2s', _, hb⟩ := (bind_ok_iff _ _ _).mp hb
          exact fin vv1 vh hb f2s' rfl
      · obtain ⟨f2s', _, hb⟩ := (bind_ok_iff _ _ _).mp hb
        exact fin vv1 vh hb f2s' rfl

theorem innerBody_tr {valence : Bool} {vfS : Array Bool} {p0 y0 : Nat} (hH : HolesOK t holeId) (x : Nat) (s : InSt)
    (r : ForInStep InSt) (hI : IIn t I s) (hX : XIn t holeId vfS p0 y0 s) (hnv : s.2.2.2.2.2.2.2.2.2.2.2.2 < t.numFaces)
    (hTr : TrY t holeId I s) (hb : innerBody t holeId valence t.numFaces x s = .ok r) :
    StepOK (TrY t holeId I) (TrQ t holeId I) r := by
  obtain ⟨vf, vv, vh, val, sy, P, sp, f2s, ls, nss, st, c, nv⟩ := s
  obtain ⟨hInv, hSt, hCur⟩ := hI
  obtain ⟨hC, _, _⟩ := hX
  obtain ⟨hTr, hcne⟩ := hTr
  dsimp only at hInv hSt hCur hC hTr hcne hnv
  have hk := hT.ctok
  have h3 := hk.three
  obtain ⟨vC, vS, vL, vR, vE⟩ := topo_vals
  unfold innerBody at hb
  rcases ite_ok hb with ⟨hge, hb⟩ | ⟨_, hb⟩
  · have : nv ≥ t.numFaces := hge
    omega
  obtain ⟨vf', hvf, hb⟩ := (bind_ok_iff _ _ _).mp hb
  obtain ⟨vertId, hvert, hb⟩ := (bind_ok_iff _ _ _).mp hb
  obtain ⟨hid, hhid, hb⟩ := (bind_ok_iff _ _ _).mp hb
  obtain ⟨vis, hvis, hb⟩ := (bind_ok_iff _ _ _).mp hb
  obtain ⟨_, evis⟩ := rdB_get hvis
  have hlt : c / 3 < vf.size := by
    have := (wrB_get hvf).1
    rw [faceOf_ne hcne] at this; exact this
  have evf : vf' = vf.setIfInBounds (c / 3) true := by
    have := (wrB_get hvf).2
    rw [faceOf_ne hcne] at this; exact this
  subst evf
  have hc : c < t.c2v.size := by
    rcases hCur with e | ⟨e, _⟩
    · exact absurd e hcne
    · rcases e with e | e
      · exact absurd e hcne
      · exact e.1
  have hun : vf.getD (c / 3) false = false := by
    rcases hCur with e | ⟨_, e⟩
    · exact absurd e hcne
    · exact e
  have hcnd : isDegenA t.c2v (c / 3) = false := by
    rcases hCur with e | ⟨e, _⟩
    · exact absurd e hcne
    · rcases e with e | e
      · exact absurd e hcne
      · exact e.2.1
  have evert : t.c2v[c]! = vertId := by rw [← vget_eq]; exact (vertex_get hcne hvert).2
  have hg : Before I P P.size t.opp[c]! := by
    rcases hC.curG with e | e
    · exact absurd e hcne
    · exact before_of_vis hInv e
  have hbef : ∀ y, Vis (vf.setIfInBounds (c / 3) true) y → (y ≠ inv → y / 3 ≠ c / 3) → Before I P P.size y := by
    intro y hy hface
    apply before_of_vis hInv
    rcases hy with e | e
    · exact Or.inl e
    · by_cases hyi : y = inv
      · exact Or.inl hyi
      · rw [bget_set' _ _ _ _ hlt, if_neg (hface hyi)] at e
        exact Or.inr e
  rcases ite_ok hb with ⟨hnvis, hb⟩ | ⟨_, hb⟩
  · obtain ⟨vv', hvv', hb⟩ := (bind_ok_iff _ _ _).mp hb
    rcases ite_ok hb with ⟨hnb, hb⟩ | ⟨_, hb⟩
    · -- C
      obtain ⟨val1, hb⟩ := ite_bind_absorb hb
      obtain ⟨o, ho, hb⟩ := (bind_ok_iff _ _ _).mp hb
      have hn : Eb.nextC c < t.numCorners := hk.next_lt hc
      have eo : t.opp[Eb.nextC c]! = o := by
        rw [← vget_eq]; exact (opposite_get (hT.base.ne_inv hn) ho).2
      have hhole : vget holeId (t.c2v[c]!) = inv := by
        rw [evert]
        have : hid = inv := by simpa using hnb
        rw [← this]; exact (rd_get hhid).2
      -- the fan of the tip is closed: there is a right neighbour
      have hoi : o ≠ inv := by
        have hcl := hT.fan_closed hH hc hcnd hhole
        obtain ⟨P0, hO, _⟩ := CountsIso.orbit_exists hT.base hc
        obtain ⟨J, rfl⟩ : ∃ J, P0 = J + 1 := ⟨P0 - 1, by have := hO.pos; omega⟩
        have hper : iter (sRP t.opp) (J + 1) c = c := by
          rcases hO.fin with e | e
          · exact absurd e (hcl _)
          · exact e
        have hJlt := AP.iter_sR_lt hT.base hc J (hcl J)
        have hsl := (hT.base.sR_sL hJlt (by rw [← iter_succ' (sRP t.opp) J c]; exact hper) hcne).2
        intro e
        rw [sLP_eq _ hcne, eo, e, nextC_inv] at hsl
        exact hcl J hsl.symm
      refine Or.inl ⟨_, pure_ok hb, ?_, hoi⟩
      apply hTr.visit hlt
      refine TrEnt.new hTr.sz hg (fun h => by rw [vE, vC] at h; omega) (fun h => by rw [vC, vR] at h; omega)
        (fun h => by rw [vC, vL] at h; omega) (fun _ => ⟨by rw [eo]; exact ⟨hoi, rfl⟩, ?_⟩) (Or.inl rfl)
      have e : (P.push c)[P.size]! = c := by rw [push_get!, if_pos rfl]
      refine ⟨by rw [e]; exact hhole, ?_⟩
      intro z hz hzv hzvis
      rw [e] at hzv
      refine ⟨P.size, Nat.le_refl _, by simp, ?_⟩
      rw [e]
      apply Classical.byContradiction
      intro hne'
      rw [bget_set' _ _ _ _ hlt, if_neg (fun h => hne' h.symm)] at hzvis
      have := hInv.verts (z / 3) hzvis (z % 3) (Nat.mod_lt _ (by omega))
      rw [show 3 * (z / 3) + z % 3 = z by omega, vget_eq, hzv, evert, evis] at this
      have hf : vis = false := by simpa using hnvis
      rw [hf] at this; cases this
    · exact innerTail_tr hT hTr hc hlt hg hbef hb
  · exact innerTail_tr hT hTr hc hlt hg hbef hb

end loops

/-! ## the stack loop, one call, the loop over the faces -/

section loops2
variable {t : CT} (hT : TblOK t) {holeId : Array Nat} (hH : HolesOK t holeId)
include hT hH

/-- invariant of the stack loop (no current corner) -/
def TrS (t : CT) (holeId : Array Nat) (I : Array Nat) (s : StSt) : Prop :=
  TrInv t holeId I s.1 s.2.2.2.2.2.1 s.2.2.2.2.1 inv

theorem stackBody_tr {valence : Bool} {vfS : Array Bool} {p0 y0 : Nat} (x : Nat) (s : StSt) (r : ForInStep StSt)
    (hI : ISt t I s) (hX : XSt t holeId vfS p0 y0 s) (hTr : TrS t holeId I s)
    (hb : stackBody t holeId valence t.numFaces x s = .ok r) :
    StepOK (TrS t holeId I) (TrS t holeId I) r := by
  obtain ⟨vf, vv, vh, val, sy, P, sp, f2s, ls, nss, st, fin⟩ := s
  obtain ⟨hInv, hSt⟩ := hI
  obtain ⟨hC, hfin⟩ := hX
  dsimp only at hInv hSt hC hfin hTr
  have hTr' : TrInv t holeId I vf P sy inv := hTr
  subst hfin
  have hk := hT.ctok
  have h3 := hk.three
  unfold stackBody at hb
  rcases ite_ok hb with ⟨hemp, hb⟩ | ⟨hne, hb⟩
  · exact Or.inr ⟨_, pure_ok hb, hTr'⟩
  have hne' : st.isEmpty = false := by simpa using hne
  rcases ite_ok hb with ⟨hinv, hb⟩ | ⟨hninv, hb⟩
  · exact Or.inl ⟨_, pure_ok hb, hTr'⟩
  have hbi : st.back! ≠ inv := by simpa using hninv
  obtain ⟨b, hb1, hb⟩ := (bind_ok_iff _ _ _).mp hb
  rcases ite_ok hb with ⟨hvis, hb⟩ | ⟨hnvis, hb⟩
  · exact Or.inl ⟨_, pure_ok hb, hTr'⟩
  obtain ⟨s2, hloop, hb⟩ := (bind_ok_iff _ _ _).mp hb
  have hbmem : st.back! ∈ st.toList := by
    rw [mem_toList_iff_get]
    have hpos : 0 < st.size := by
      rcases Nat.eq_zero_or_pos st.size with e | e
      · rw [Array.isEmpty_iff_size_eq_zero.mpr e] at hne'; cases hne'
      · exact e
    exact ⟨st.size - 1, by omega, (back!_eq st).symm⟩
  have hcur : CurOK t vf vv st.back! := by
    refine Or.inr ⟨hSt.back hne', ?_⟩
    rw [(rdB_get hb1).2]
    simpa using hnvis
  have hC0 : CallInv t holeId vfS p0 y0 vf P st st.back! := by
    apply hC.weaken
    · intro y hy
      rcases hy with hy | hy | hy
      · exact Or.inl hy
      · exact Or.inr (Or.inl hy)
      · rw [hy]; exact Or.inl (Or.inl rfl)
    · exact hC.stG
    · exact hC.stG _ hbmem
  have h2 := range_loop t.numFaces (innerBody t holeId valence t.numFaces)
    (fun j s => IIn t I s ∧ XInN t holeId vfS p0 y0 j s ∧ TrY t holeId I s)
    (fun s => IInQ t I s ∧ XQ t holeId vfS p0 y0 s ∧ TrQ t holeId I s)
    (by
      intro j s r hj ⟨hI, ⟨hX, hn⟩, hY⟩ hr
      have h1 := innerBody_inv hk j s r hI hr
      have h2 := innerBody_cov hT j s r hI hX hr
      have h3 := innerBody_tr hT hH j s r hI hX (by rw [hn]; exact hj) hY hr
      rcases h1 with ⟨s', e1, hs1⟩ | ⟨s', e1, hs1⟩
      · rcases h2 with ⟨s'', e2, hs2⟩ | ⟨s'', e2, _⟩
        · rw [e1] at e2; cases e2
          rcases h3 with ⟨s3, e3, hs3⟩ | ⟨s3, e3, _⟩
          · rw [e1] at e3; cases e3
            exact Or.inl ⟨s', e1, hs1, ⟨hs2.1, by rw [hs2.2, hn]⟩, hs3⟩
          · rw [e1] at e3; cases e3
        · rw [e1] at e2; cases e2
      · rcases h2 with ⟨s'', e2, _⟩ | ⟨s'', e2, hs2⟩
        · rw [e1] at e2; cases e2
        · rw [e1] at e2; cases e2
          rcases h3 with ⟨s3, e3, _⟩ | ⟨s3, e3, hs3⟩
          · rw [e1] at e3; cases e3
          · rw [e1] at e3; cases e3
            exact Or.inr ⟨s', e1, hs1, hs2, hs3⟩)
    _ s2 ⟨⟨hInv, hSt, hcur⟩, ⟨⟨hC0, ⟨hne', Or.inl rfl⟩, Nat.zero_le _⟩, rfl⟩, hTr'.recur st.back!, hbi⟩ hloop
  have hQ : TrQ t holeId I s2 := by
    rcases h2 with ⟨hI2, ⟨hX2, hn2⟩, hY2⟩ | h
    · -- the loop cannot run `num_faces` times and still have an unvisited current corner
      exfalso
      have hall := all_of_vcount (vf := s2.1) (n := t.numFaces) (by have := hX2.2.2; omega)
      rcases hI2.2.2 with e | ⟨e, hun⟩
      · exact hY2.2 e
      · rcases e with e | e
        · exact hY2.2 e
        · have := hall (s2.2.2.2.2.2.2.2.2.2.2.2.1 / 3) (by have := e.1; omega)
          rw [hun] at this; cases this
    · exact h.2.2
  obtain ⟨vf2, vv2, vh2, val2, sy2, P2, sp2, f2s2, ls2, nss2, st2, c2, nv2⟩ := s2
  exact Or.inl ⟨_, pure_ok hb, hQ⟩

theorem outerTail_tr {valence : Bool} {val : ValEnc} {sy : Array Nat}
    {sf : RAnsBitEnc} {sfs : Array Bool} {P : Array Nat} {sp : Array TopoSplit} {f2s : Array Nat} {ls : Int} {nss : Nat}
    {vf vv vh : Array Bool} {from_ : Nat} {r : ForInStep OSt}
    (hInv : Inv t vf vv P I) (hfrom : CornerOK t vv from_) (hgate : GateOK t vf from_)
    (hTr : TrInv t holeId I vf P sy inv)
    (hb : outerTail t holeId valence t.numFaces val sy sf sfs P sp f2s ls nss () vf vv vh I from_ = .ok r) :
    ∃ s', r = .yield s' ∧ TrInv t holeId I s'.1 s'.2.2.2.2.2.2.2.1 s'.2.2.2.2.1 inv ∧ s'.2.2.2.2.2.2.1 = sfs ∧
      s'.2.2.2.2.2.2.2.2.1 = I := by
  have hk := hT.ctok
  unfold outerTail at hb
  rcases ite_ok hb with ⟨hfi, hb⟩ | ⟨_, hb⟩
  · exact ⟨_, pure_ok hb, hTr, rfl, rfl⟩
  obtain ⟨s2, hloop, hb⟩ := (bind_ok_iff _ _ _).mp hb
  have hC0 : CallInv t holeId vf P.size from_ vf P #[from_] inv := by
    refine ⟨fun i h1 h2 => by omega, fun f h => Or.inl h, fun f h => h, ?_, Or.inl rfl, ?_, Nat.le_refl _⟩
    · intro y hy
      simp only [List.mem_singleton] at hy
      rw [hy]; exact hgate
    · exact Or.inr (Or.inl (by simp))
  have h2 := range_loop (4 * t.numFaces + 16) (stackBody t holeId valence t.numFaces)
    (fun _ s => ISt t I s ∧ XSt t holeId vf P.size from_ s ∧ TrS t holeId I s)
    (fun s => ISt t I s ∧ XStQ t holeId vf P.size from_ s ∧ TrS t holeId I s)
    (by
      intro j s r _ ⟨hI, hX, hS⟩ hr
      have h1 := stackBody_inv hk j s r hI hr
      have h2 := stackBody_cov hT j s r hI hX hr
      have h3 := stackBody_tr hT hH j s r hI hX hS hr
      rcases h1 with ⟨s', e1, hs1⟩ | ⟨s', e1, hs1⟩
      · rcases h2 with ⟨s'', e2, hs2⟩ | ⟨s'', e2, _⟩
        · rw [e1] at e2; cases e2
          rcases h3 with ⟨s3, e3, hs3⟩ | ⟨s3, e3, _⟩
          · rw [e1] at e3; cases e3
            exact Or.inl ⟨s', e1, hs1, hs2, hs3⟩
          · rw [e1] at e3; cases e3
        · rw [e1] at e2; cases e2
      · rcases h2 with ⟨s'', e2, _⟩ | ⟨s'', e2, hs2⟩
        · rw [e1] at e2; cases e2
        · rw [e1] at e2; cases e2
          rcases h3 with ⟨s3, e3, _⟩ | ⟨s3, e3, hs3⟩
          · rw [e1] at e3; cases e3
          · rw [e1] at e3; cases e3
            exact Or.inr ⟨s', e1, hs1, hs2, hs3⟩)
    (vf, vv, vh, val, sy, P, sp, f2s, ls, nss, #[from_], false) s2
    ⟨⟨hInv, StackOK.single hfrom⟩, ⟨hC0, rfl⟩, hTr⟩ hloop
  have hS2 : TrS t holeId I s2 := by
    rcases h2 with h | h <;> exact h.2.2
  obtain ⟨vf2, vv2, vh2, val2, sy2, P2, sp2, f2s2, ls2, nss2, st2, fin2⟩ := s2
  rcases ite_ok hb with ⟨_, hb⟩ | ⟨_, hb⟩
  · exact (throw_bind_ne hb).elim
  · exact ⟨_, pure_ok hb, hS2, rfl, rfl⟩


/-! ## an interior start face -/

omit hH in
/-- visited faces propagate backwards along `SwingRight` when the visited faces are closed under adjacency -/
theorem vis_back {vf : Array Bool} (hcl : Closed t vf) : ∀ (a y : Nat), y < t.numCorners →
    iter (sRP t.opp) a y ≠ inv → vf.getD (iter (sRP t.opp) a y / 3) false = true → vf.getD (y / 3) false = true := by
  intro a
  induction a with
  | zero => intro y _ _ h; exact h
  | succ a ih =>
    intro y hy hne hv
    have hne' : iter (sRP t.opp) a (sRP t.opp y) ≠ inv := hne
    have hs : sRP t.opp y ≠ inv := by
      intro e; rw [e, iter_fix (sRP_inv _)] at hne'; exact hne' rfl
    obtain ⟨hlt, hlink⟩ := link_sR hT hy hs
    exact hlink vf hcl (ih _ hlt hne' hv)

/-- the encoder's vertices are swing classes (tables made by `CornerTable.create`) -/
def Cover (t : CT) : Prop :=
  ∀ c, c < t.numCorners → isDegenA t.c2v (c / 3) = false →
    t.vc[t.c2v[c]!]! < t.numCorners ∧ ∃ k, iter (sRP t.opp) k t.vc[t.c2v[c]!]! = c

omit hH in
/-- a corner at the vertex of a closed fan with a visited face lies in a visited face -/
theorem vis_of_fan (hcov : Cover t) {vf : Array Bool} (hcl : Closed t vf) {x z : Nat} (hx : x < t.numCorners)
    (hxnd : isDegenA t.c2v (x / 3) = false) (hfan : ∀ k, iter (sRP t.opp) k x ≠ inv) (hz : z < t.numCorners)
    (hznd : isDegenA t.c2v (z / 3) = false) (hv : t.c2v[z]! = t.c2v[x]!) (hvis : vf.getD (x / 3) false = true) :
    vf.getD (z / 3) false = true := by
  have hb := hT.base
  obtain ⟨_, kx, hkx⟩ := hcov x hx hxnd
  obtain ⟨_, kz, hkz⟩ := hcov z hz hznd
  rw [hv] at hkz
  have key : ∃ a, iter (sRP t.opp) a z = x := by
    by_cases hkk : kz ≤ kx
    · exact ⟨kx - kz, by rw [← hkz, ← iter_add, show kz + (kx - kz) = kx by omega, hkx]⟩
    · have e : iter (sRP t.opp) (kz - kx) x = z := by
        rw [← hkx, ← iter_add, show kx + (kz - kx) = kz by omega, hkz]
      have hclz : ∀ k, iter (sRP t.opp) k z ≠ inv := by
        intro k; rw [← e, ← iter_add]; exact hfan _
      exact DecSimHole.inFan_of_closed hb hz hx hclz e
  obtain ⟨a, ha⟩ := key
  exact vis_back hT hcl a z hz (by rw [ha]; exact hb.ne_inv hx) (by rw [ha]; exact hvis)

omit hT hH in
/-- marking a face that has no corner at the tip vertex keeps the `C` flag -/
theorem CFlag.mark {vf : Array Bool} {P : Array Nat} {i f : Nat} (h : CFlag t holeId vf P i) (hlt : f < vf.size)
    (hno : ∀ z, z < t.numCorners → z / 3 = f → t.c2v[z]! ≠ t.c2v[P[i]!]!) :
    CFlag t holeId (vf.setIfInBounds f true) P i := by
  refine ⟨h.1, ?_⟩
  intro z hz hzv hvis
  rw [bget_set' _ _ _ _ hlt] at hvis
  by_cases hzf : z / 3 = f
  · exact absurd hzv (hno z hz hzf)
  · rw [if_neg hzf] at hvis
    exact h.2 z hz hzv hvis

omit hT hH in
/-- a new init face: the timestamps stay -/
theorem TrInv.mark {vf vf' : Array Bool} {P sy : Array Nat} {g : Nat} (h : TrInv t holeId I vf P sy inv)
    (hc : ∀ i, i < P.size → CFlag t holeId vf P i → CFlag t holeId vf' P i) :
    TrInv t holeId (I.push g) vf' P sy inv := by
  refine ⟨fun i hi => ?_, h.sz⟩
  obtain ⟨g', e, r, l, cc, k⟩ := h.ent i hi
  exact ⟨g'.pushI, fun hs => ⟨(e hs).1.pushI, (e hs).2.pushI⟩, fun hs => ⟨(r hs).1.pushI, (r hs).2⟩,
    fun hs => ⟨(l hs).1, (l hs).2.pushI⟩, fun hs => ⟨(cc hs).1, hc i hi (cc hs).2⟩, k⟩

/-- **the loop over the faces**: the timestamped invariant, with init faces -/
theorem outerBody_tr (hcov : Cover t) {valence : Bool} (cId : Nat) (s : OSt) (r : ForInStep OSt) (hcId : cId < t.numCorners)
    (hI : Coverage.OInv t s)
    (hTr : TrInv t holeId s.2.2.2.2.2.2.2.2.1 s.1 s.2.2.2.2.2.2.2.1 s.2.2.2.2.1 inv)
    (hb : outerBody t holeId valence t.numFaces cId s = .ok r) :
    ∃ s', r = .yield s' ∧ TrInv t holeId s'.2.2.2.2.2.2.2.2.1 s'.1 s'.2.2.2.2.2.2.2.1 s'.2.2.2.2.1 inv := by
  obtain ⟨vf, vv, vh, val, sy, sf, sfs, P, ifc, sp, f2s, ls, nss⟩ := s
  obtain ⟨hIO, hClosed⟩ := hI
  have hInv : Inv t vf vv P ifc := hIO
  have hCl : Closed t vf := hClosed
  have hTr' : TrInv t holeId ifc vf P sy inv := hTr
  have hk := hT.ctok
  have h3 := hk.three
  have hfit := hk.fits
  have hf : cId / 3 < t.numFaces := by
    have : cId < t.c2v.size := hcId
    omega
  unfold outerBody at hb
  obtain ⟨b, hb1, hb⟩ := (bind_ok_iff _ _ _).mp hb
  rcases ite_ok hb with ⟨hvis, hb⟩ | ⟨hnv, hb⟩
  · exact ⟨_, pure_ok hb, hTr⟩
  obtain ⟨d, hd, hb⟩ := (bind_ok_iff _ _ _).mp hb
  have ed := isDegenerated_ok hk hf hd
  rcases ite_ok hb with ⟨hdt, hb⟩ | ⟨hnd, hb⟩
  · exact ⟨_, pure_ok hb, hTr⟩
  have hun : vf.getD (cId / 3) false = false := by
    rw [(rdB_get hb1).2]; simpa using hnv
  have hnd' : isDegenA t.c2v (cId / 3) = false := by
    rw [← ed]; simpa using hnd
  obtain ⟨x, hx, hb⟩ := (bind_ok_iff _ _ _).mp hb
  obtain ⟨interior, sc⟩ := x
  obtain ⟨hsp1, hsp2⟩ := findInit_spec hk hf hx
  simp only [] at hb
  rcases ite_ok hb with ⟨hint, hb⟩ | ⟨hnint, hb⟩
  · -- an interior start face
    have hsc := hsp1 hint
    have hsclt : sc < t.c2v.size := by omega
    have hsci : sc < inv := by omega
    have en : Eb.nextC sc = 3 * (cId / 3) + 1 := by rw [nextC_cf sc hsci, hsc]; split <;> omega
    have ep : Eb.prevC sc = 3 * (cId / 3) + 2 := by rw [prevC_cf sc hsci, hsc]; split <;> omega
    obtain ⟨v0, hv0, hb⟩ := (bind_ok_iff _ _ _).mp hb
    obtain ⟨v1, hv1, hb⟩ := (bind_ok_iff _ _ _).mp hb
    obtain ⟨v2, hv2, hb⟩ := (bind_ok_iff _ _ _).mp hb
    obtain ⟨vv1, hvv1, hb⟩ := (bind_ok_iff _ _ _).mp hb
    obtain ⟨vv2, hvv2, hb⟩ := (bind_ok_iff _ _ _).mp hb
    obtain ⟨vv3, hvv3, hb⟩ := (bind_ok_iff _ _ _).mp hb
    obtain ⟨vf', hvf', hb⟩ := (bind_ok_iff _ _ _).mp hb
    obtain ⟨oppId, hopp, hb⟩ := (bind_ok_iff _ _ _).mp hb
    obtain ⟨b2, _, hb⟩ := (bind_ok_iff _ _ _).mp hb
    obtain ⟨_, e0⟩ := vertex_get (by omega) hv0
    obtain ⟨_, e1⟩ := vertex_get (by rw [en, inv_eq]; rw [inv_eq] at hfit; omega) hv1
    obtain ⟨_, e2⟩ := vertex_get (by rw [ep, inv_eq]; rw [inv_eq] at hfit; omega) hv2
    obtain ⟨l1, s1⟩ := wrB_get hvv1
    obtain ⟨l2, s2⟩ := wrB_get hvv2
    obtain ⟨l3, s3⟩ := wrB_get hvv3
    obtain ⟨lf, sf'⟩ := wrB_get hvf'
    have m1 : Mono vv vv1 := by rw [s1]; exact Mono.set _ _
    have m2 : Mono vv1 vv2 := by rw [s2]; exact Mono.set _ _
    have m3 : Mono vv2 vv3 := by rw [s3]; exact Mono.set _ _
    have g0 : vv3.getD (vget t.c2v sc) false = true := by
      apply m3.2; apply m2.2
      rw [s1, e0, bget_set' _ _ _ _ l1, if_pos rfl]
    have g1 : vv3.getD (vget t.c2v (Eb.nextC sc)) false = true := by
      apply m3.2
      rw [s2, e1, bget_set' _ _ _ _ l2, if_pos rfl]
    have g2 : vv3.getD (vget t.c2v (Eb.prevC sc)) false = true := by
      rw [s3, e2, bget_set' _ _ _ _ l3, if_pos rfl]
    have hdiv : Eb.nextC sc / 3 = cId / 3 := by rw [en]; omega
    have hInv' : Inv t vf' vv3 P (ifc.push (Eb.nextC sc)) := by
      rw [sf', ← hdiv]
      apply hInv.visit (Eb.nextC sc) (by rw [hdiv]; exact lf) (by rw [hdiv]; exact hun) (by rw [hdiv]; exact hnd')
        (m1.trans (m2.trans m3)) ?_ (countP_pushI P ifc (Eb.nextC sc))
      intro k hk3
      rw [hdiv]
      have : k = 0 ∨ k = 1 ∨ k = 2 := by omega
      rcases this with e | e | e
      · rw [e, Nat.add_zero, ← hsc]; exact g0
      · rw [e, ← en]; exact g1
      · rw [e, ← ep]; exact g2
    have hco : CornerOK t vv3 oppId := (opp_cornerOK hk hsclt (Or.inl rfl) hopp g0 g1 g2).1
    -- the timestamps after the face is marked
    have hTr2 : TrInv t holeId (ifc.push (Eb.nextC sc)) vf' P sy inv := by
      apply hTr'.mark
      intro i hi hcf
      rw [sf']
      refine CFlag.mark hcf lf ?_
      intro z hz hzf hzv
      obtain ⟨hc, hcv⟩ := inv_entry hk hInv i hi
      have hndi := hInv.nd _ hcv
      have hfan := hT.fan_closed hH hc hndi hcf.1
      have := vis_of_fan hT hcov hCl hc hndi hfan hz (by rw [hzf]; exact hnd') hzv hcv
      rw [hzf, hun] at this; cases this
    have hnlt : Eb.nextC sc < t.numCorners := hk.next_lt hsclt
    have hvf'f : vf'.getD (Eb.nextC sc / 3) false = true := by
      rw [sf', hdiv, bget_set' _ _ _ _ lf, if_pos rfl]
    have hgate : GateOK t vf' oppId := by
      by_cases hoi : oppId = inv
      · exact Or.inl hoi
      · have eo : t.opp[Eb.nextC sc]! = oppId := by
          rw [← vget_eq]; exact (opposite_get (hT.base.ne_inv hnlt) hopp).2
        rw [← eo] at hoi ⊢
        exact gate_of_opp hT hnlt hoi hvf'f
    have fin : ∀ from_, CornerOK t vv3 from_ → GateOK t vf' from_ →
        outerTail t holeId valence t.numFaces val sy (sf.encodeBit interior) (sfs.push interior) P sp
        f2s ls nss () vf' vv3 vh (ifc.push (Eb.nextC sc)) from_ = .ok r →
        ∃ s' : OSt, r = .yield s' ∧ TrInv t holeId s'.2.2.2.2.2.2.2.2.1 s'.1 s'.2.2.2.2.2.2.2.1 s'.2.2.2.2.1 inv := by
      intro from_ h1 h2 hb
      obtain ⟨s', hr, hTr3, _, hifc'⟩ := outerTail_tr hT hH hInv' h1 h2 hTr2 hb
      exact ⟨s', hr, by rw [hifc']; exact hTr3⟩
    rcases ite_ok hb with ⟨_, hb⟩ | ⟨_, hb⟩
    · exact fin _ hco hgate hb
    · exact fin _ (Or.inl rfl) (Or.inl rfl) hb
  · -- a face at a hole
    have hst := hsp2 (by simpa using hnint)
    obtain ⟨hsclt, hso, hsnd⟩ := hst
    have hsci : sc < inv := by omega
    obtain ⟨x2, hx2, hb⟩ := (bind_ok_iff _ _ _).mp hb
    obtain ⟨vv', vh'⟩ := x2
    obtain ⟨hm, hg⟩ := encodeHole_spec hx2
    simp only [] at hb
    have hnl : Eb.nextC sc < inv := Eb.nextC_lt sc hsci
    obtain ⟨g1, g2⟩ := hg rfl hnl (by rw [prevC_nextC' sc hsci]; exact hso)
    rw [prevC_nextC' sc hsci] at g2
    have hco : CornerOK t vv' sc := by
      refine Or.inr ⟨hsclt, ?_, g1, g2⟩
      rcases hsnd with e | e
      · rw [e]; exact hnd'
      · exact e
    have hgate : GateOK t vf sc := by
      right; left
      rw [← vget_eq]
      exact (opposite_get (by omega) hso).2
    obtain ⟨s', hr, hTr3, _, hifc'⟩ := outerTail_tr hT hH (hInv.mono hm) hco hgate hTr' hb
    exact ⟨s', hr, by rw [hifc']; exact hTr3⟩


end loops2

/-! ## from the final state to the trace -/

theorem sL_eq_sLP (t : CT) {c : Nat} (h : c ≠ inv) : sL t c = sLP t.opp c := by
  rw [sLP_eq _ h]; rfl

/-- the three vertices of a non-degenerate face -/
theorem nondeg_three {c2v : Array Nat} {c : Nat} (hc : c < inv) (hn : Eb.nextC c < inv) (hp : Eb.prevC c < inv)
    (hnd : isDegenA c2v (c / 3) = false) :
    c2v[c]! ≠ c2v[Eb.nextC c]! ∧ c2v[c]! ≠ c2v[Eb.prevC c]! ∧ c2v[Eb.nextC c]! ≠ c2v[Eb.prevC c]! := by
  have h1 := nondeg_prev (c2v := c2v) hc hnd
  have h2 := nondeg_prev (c2v := c2v) hn (by rw [nextC_div3 c hc]; exact hnd)
  have h3 := nondeg_prev (c2v := c2v) hp (by rw [prevC_div3 c hc]; exact hnd)
  rw [prevC_nextC' c hc] at h2
  rw [prevC_prevC' c hc] at h3
  exact ⟨h2, fun e => h1 e.symm, h3⟩

/-- two corners of one non-degenerate face with the same vertex are equal -/
theorem same_corner {c2v : Array Nat} {a b : Nat} (ha : a < inv) (hb : b < inv) (hn : Eb.nextC b < inv)
    (hp : Eb.prevC b < inv) (hnd : isDegenA c2v (b / 3) = false) (hf : a / 3 = b / 3) (hv : c2v[a]! = c2v[b]!) :
    a = b := by
  obtain ⟨h1, h2, _⟩ := nondeg_three hb hn hp hnd
  rcases same_face ha hb hf with e | e | e
  · exact e
  · rw [e] at hv; exact absurd hv.symm h1
  · rw [e] at hv; exact absurd hv.symm h2

section fan
variable {t : CT} (hT : TblOK t) {holeId : Array Nat} (hH : HolesOK t holeId)
include hT hH

/-- **the fan of the tip of a `C`**: closed, and every other face of it is processed later -/
theorem fan_of_cflag {vf vv : Array Bool} {P : Array Nat} (hInv : Inv t vf vv P I) (hcl : Closed t vf) {i : Nat}
    (hi : i < P.size) (hcf : CFlag t holeId vf P i) :
    ∃ m, 2 ≤ m ∧ m ≤ P.size ∧ sLk t m P[i]! = P[i]! ∧
      ∀ k, k < m → 0 < k → sLk t k P[i]! ≠ inv ∧ ∃ i', i < i' ∧ i' < P.size ∧ P[i']! / 3 = sLk t k P[i]! / 3 := by
  have hk := hT.ctok
  have hb := hT.base
  have hfit := hb.le
  obtain ⟨hc, hcv⟩ := inv_entry hk hInv i hi
  have hci := hT.lt_inv hc
  have hcne : P[i]! ≠ inv := by omega
  have hnd := hInv.nd _ hcv
  have hclf := hT.fan_closed hH hc hnd hcf.1
  obtain ⟨m, hO, _⟩ := CountsIso.orbit_exists hb hc
  obtain ⟨J, rfl⟩ : ∃ J, m = J + 1 := ⟨m - 1, by have := hO.pos; omega⟩
  have hper : iter (sRP t.opp) (J + 1) P[i]! = P[i]! := by
    rcases hO.fin with e | e
    · exact absurd e (hclf _)
    · exact e
  have hw := hT.walk hc hnd
  have hsl : ∀ k, sLP t.opp (iter (sRP t.opp) (k + 1) P[i]!) = iter (sRP t.opp) k P[i]! := by
    intro k
    exact (hb.sR_sL (hw k (hclf k)).1 (iter_succ' (sRP t.opp) k P[i]!).symm (hclf (k + 1))).2
  -- `SwingLeft^k` is `SwingRight^(m - k)`
  have hsLk : ∀ k, k ≤ J + 1 → sLk t k P[i]! = iter (sRP t.opp) (J + 1 - k) P[i]! := by
    intro k
    induction k with
    | zero => intro _; show P[i]! = _; rw [Nat.sub_zero, hper]
    | succ k ih =>
      intro hk'
      show sL t (sLk t k P[i]!) = _
      rw [ih (by omega), sL_eq_sLP t (hclf _), show J + 1 - k = (J + 1 - (k + 1)) + 1 by omega, hsl]
  -- every face of the fan is visited
  have hvis : ∀ d, d ≤ J + 1 → vf.getD (iter (sRP t.opp) (J + 1 - d) P[i]! / 3) false = true := by
    intro d
    induction d with
    | zero => intro _; rw [Nat.sub_zero, hper]; exact hcv
    | succ d ih =>
      intro hd
      have h1 := ih (by omega)
      rw [show J + 1 - d = (J + 1 - (d + 1)) + 1 by omega, iter_succ'] at h1
      exact (link_sR hT (hw _ (hclf _)).1
        (by rw [← iter_succ' (sRP t.opp) (J + 1 - (d + 1)) P[i]!]; exact hclf _)).2 vf hcl h1
  -- the faces of the fan are pairwise different
  have hinj : ∀ a b, a ≤ J → b ≤ J → iter (sRP t.opp) a P[i]! / 3 = iter (sRP t.opp) b P[i]! / 3 → a = b := by
    intro a b ha hb' e
    have hwa := hw a (hclf a)
    have hwb := hw b (hclf b)
    have hlb := hT.lt_inv hwb.1
    have := same_corner (c2v := t.c2v) (hT.lt_inv hwa.1) hlb (hT.lt_inv (hk.next_lt hwb.1))
      (hT.lt_inv (hk.prev_lt hwb.1)) hwb.2.1 e (by rw [hwa.2.2, hwb.2.2])
    have hinj' := walk_inj hb (f := P[i]!) (j := J) (fun i' hi' => (hw i' (hclf i')).1)
      (fun i' h1 h2 => hO.nef i' h1 (by omega))
    rcases Nat.lt_trichotomy a b with h | h | h
    · exact absurd this (hinj' a b h hb')
    · exact h
    · exact absurd this.symm (hinj' b a h ha)
  -- every face of the fan is a processed face
  have hmem : ∀ k, k ≤ J → ∃ i', i ≤ i' ∧ i' < P.size ∧ P[i']! / 3 = iter (sRP t.opp) k P[i]! / 3 := by
    intro k hk'
    have := hvis (J + 1 - k) (by omega)
    rw [show J + 1 - (J + 1 - k) = k by omega] at this
    exact hcf.2 _ (hw k (hclf k)).1 (hw k (hclf k)).2.2 this
  refine ⟨J + 1, ?_, ?_, by rw [hsLk _ (Nat.le_refl _), Nat.sub_self]; rfl, ?_⟩
  · -- the right neighbour lies in another face
    rcases Nat.eq_zero_or_pos J with e | e
    · exfalso
      subst e
      have h1 : sRP t.opp P[i]! = P[i]! := hper
      have hp := hk.prev_lt hc
      rw [sRP_eq _ hcne] at h1
      have ho : t.opp[Eb.prevC P[i]!]! ≠ inv := by
        intro e; rw [e, prevC_inv] at h1; exact hcne h1.symm
      have hf := hk.oppface _ hp (by rw [vget_eq]; exact ho)
      obtain ⟨holt, _⟩ := hb.invol _ hp ho
      rw [vget_eq, prevC_div3 _ hci, ← prevC_div3 _ (hT.lt_inv holt), h1] at hf
      exact hf rfl
    · omega
  · -- at most as many faces as processed corners
    have hsub : ((List.range (J + 1)).map (fun k => iter (sRP t.opp) k P[i]! / 3)) ⊆ P.toList.map (· / 3) := by
      intro f hf
      rw [List.mem_map] at hf
      obtain ⟨k, hk', rfl⟩ := hf
      obtain ⟨i', _, h2, h3⟩ := hmem k (by have := List.mem_range.mp hk'; omega)
      rw [List.mem_map]
      exact ⟨P[i']!, mem_toList_iff_get.mpr ⟨i', h2, rfl⟩, h3⟩
    have hnodup : ((List.range (J + 1)).map (fun k => iter (sRP t.opp) k P[i]! / 3)).Nodup := by
      apply List.Nodup.map_on _ List.nodup_range
      intro a ha b hb' e
      exact hinj a b (by have := List.mem_range.mp ha; omega) (by have := List.mem_range.mp hb'; omega) e
    have := hnodup.length_le_of_subset hsub
    simpa using this
  · intro k hkm hk0
    rw [hsLk k (by omega)]
    refine ⟨hclf _, ?_⟩
    obtain ⟨i', h1, h2, h3⟩ := hmem (J + 1 - k) (by omega)
    refine ⟨i', ?_, h2, h3⟩
    rcases Nat.lt_or_ge i i' with h | h
    · exact h
    · exfalso
      have e : i' = i := by omega
      rw [e] at h3
      have := hinj 0 (J + 1 - k) (by omega) (by omega) h3
      omega

end fan

theorem list_reverse_get! (l : List Nat) (j : Nat) (hj : j < l.length) : l.reverse[j]! = l[l.length - 1 - j]! := by
  rw [getElem!_pos l.reverse j (by simpa using hj), getElem!_pos l (l.length - 1 - j) (by omega), List.getElem_reverse]

theorem array_reverse_get! (P : Array Nat) (j : Nat) (hj : j < P.size) : (P.reverse ++ #[])[j]! = P[P.size - 1 - j]! := by
  rw [Array.append_empty]
  simp only [Array.getElem!_eq_getD, Array.getD_eq_getD_getElem?]
  rw [Array.getElem?_reverse hj]

theorem toList_get! (a : Array Nat) (i : Nat) : a.toList[i]! = a[i]! := by
  by_cases h : i < a.size
  · rw [getElem!_pos a.toList i (by simpa using h), getElem!_pos a i h, Array.getElem_toList]
  · rw [getElem!_neg a.toList i (by simpa using h), getElem!_neg a i h]



theorem app_left (P I : Array Nat) (j : Nat) (hj : j < P.size) : (P.reverse ++ I)[j]! = P[P.size - 1 - j]! := by
  simp only [Array.getElem!_eq_getD, Array.getD_eq_getD_getElem?]
  rw [Array.getElem?_append_left (by simpa using hj), Array.getElem?_reverse hj]

theorem app_right (P I : Array Nat) (k : Nat) : (P.reverse ++ I)[P.size + k]! = I[k]! := by
  simp only [Array.getElem!_eq_getD, Array.getD_eq_getD_getElem?]
  rw [Array.getElem?_append_right (by simp)]
  simp

/-- **from the final state of the main loop to the symbol part of the trace**: sizes, pairwise different faces, and
    `TraceAt` for every symbol face, over `P.reverse ++ I` -/
theorem traceI_face_of_state {t : CT} (hT : TblOK t) {holeId : Array Nat} (hH : HolesOK t holeId) {vf vv : Array Bool}
    {P sy : Array Nat} (hInv : Inv t vf vv P I) (hcl : Closed t vf) (hTr : TrInv t holeId I vf P sy inv)
    (hnoS : ∀ x, x ∈ sy.toList → x ≠ topoS) :
    sy.toList.reverse.length = P.size ∧ (P.reverse ++ I).size = P.size + I.size ∧
    (∀ i, i < (P.reverse ++ I).size → ∀ i', i' < (P.reverse ++ I).size →
      (P.reverse ++ I)[i]! / 3 = (P.reverse ++ I)[i']! / 3 → i = i') ∧
    (∀ j, j < sy.toList.reverse.length → TraceAt t (P.reverse ++ I) sy.toList.reverse j) := by
  have hk := hT.ctok
  have hfit := hT.base.le
  obtain ⟨vC, vS, vL, vR, vE⟩ := topo_vals
  have hsz : (P.reverse ++ I).size = P.size + I.size := by simp
  have hlen : sy.toList.reverse.length = P.size := by simp [hTr.sz]
  have hPd := app_left P I
  have hPi := app_right P I
  -- later / earlier in decoder order
  have later_of : ∀ i, i < P.size → ∀ y, Before I P i y → Later (P.reverse ++ I) (P.size - 1 - i) y := by
    intro i hi y hy
    rcases hy with e | ⟨i', h1, h2, h3⟩ | ⟨k, h1, h2⟩
    · exact Or.inl e
    · right
      refine ⟨P.size - 1 - i', by rw [hsz]; omega, by omega, ?_⟩
      rw [hPd _ (by omega), show P.size - 1 - (P.size - 1 - i') = i' by omega, h3]
    · right
      refine ⟨P.size + k, by rw [hsz]; omega, by omega, ?_⟩
      rw [hPi, h2]
  have next_of : ∀ i, i < P.size → ∀ y, NextIs P inv i y →
      0 < P.size - 1 - i ∧ y = (P.reverse ++ I)[P.size - 1 - i - 1]! := by
    intro i hi y ⟨hne, h⟩
    rcases h with h | ⟨h1, h2⟩
    · exact absurd h.1 hne
    · refine ⟨by omega, ?_⟩
      rw [hPd _ (by omega), show P.size - 1 - (P.size - 1 - i - 1) = i + 1 by omega, h2]
  refine ⟨hlen, hsz, ?_, ?_⟩
  · -- the faces are pairwise different
    have hnodup : ((P.toList ++ I.toList).map (· / 3)).Nodup := by
      rw [List.nodup_iff_count_le_one]
      intro f
      rw [List.count_eq_countP, List.countP_map]
      have := hInv.cnt f
      have e : List.countP ((fun x => x == f) ∘ fun x => x / 3) (P.toList ++ I.toList) =
          List.countP (fun c => c / 3 == f) (P.toList ++ I.toList) := by
        apply List.countP_congr; intro c _; simp [Function.comp]
      rw [e, this]
      split <;> omega
    -- the position of a decoder index in `P ++ I`
    have hLlen : ((P.toList ++ I.toList).map (· / 3)).length = P.size + I.size := by simp
    have pos : ∀ j, j < P.size + I.size → ∃ p, p < P.size + I.size ∧ (j < P.size → p = P.size - 1 - j) ∧
        (P.size ≤ j → p = j) ∧ ((P.toList ++ I.toList).map (· / 3))[p]! = (P.reverse ++ I)[j]! / 3 := by
      intro j hj
      by_cases hjn : j < P.size
      · refine ⟨P.size - 1 - j, by omega, fun _ => rfl, fun h => by omega, ?_⟩
        rw [getElem!_pos _ _ (by rw [hLlen]; omega), List.getElem_map,
          List.getElem_append_left (by simp; omega), hPd j hjn, Array.getElem_toList, getElem!_pos P _ (by omega)]
      · refine ⟨j, hj, fun h => absurd h hjn, fun _ => rfl, ?_⟩
        have e : j = P.size + (j - P.size) := by omega
        rw [getElem!_pos _ _ (by rw [hLlen]; omega), List.getElem_map,
          List.getElem_append_right (by simp; omega)]
        conv_rhs => rw [e, hPi]
        rw [Array.getElem_toList, getElem!_pos I _ (by omega)]
        simp
    intro j hj j' hj' e
    rw [hsz] at hj hj'
    obtain ⟨p, hp, p1, p2, p3⟩ := pos j hj
    obtain ⟨p', hp', p1', p2', p3'⟩ := pos j' hj'
    have h1 : p < ((P.toList ++ I.toList).map (· / 3)).length := by rw [hLlen]; exact hp
    have h2 : p' < ((P.toList ++ I.toList).map (· / 3)).length := by rw [hLlen]; exact hp'
    have := (hnodup.getElem_inj_iff (hi := h1) (hj := h2)).mp (by
      rw [← getElem!_pos _ p h1, ← getElem!_pos _ p' h2, p3, p3', e])
    by_cases a : j < P.size <;> by_cases a' : j' < P.size
    · have := p1 a; have := p1' a'; omega
    · have := p1 a; have := p2' (by omega); omega
    · have := p2 (by omega); have := p1' a'; omega
    · have := p2 (by omega); have := p2' (by omega); omega
  · intro j hj
    rw [hlen] at hj
    have hi : P.size - 1 - j < P.size := by omega
    obtain ⟨g, e, r, l, cc, kk⟩ := hTr.ent _ hi
    obtain ⟨hc, hcv⟩ := inv_entry hk hInv _ hi
    have hci := hT.lt_inv hc
    have hnd := hInv.nd _ hcv
    have esym : sy.toList.reverse[j]! = sy[P.size - 1 - j]! := by
      rw [list_reverse_get! _ _ (by simp [hTr.sz]; exact hj), toList_get!]
      simp [hTr.sz]
    have hjj : P.size - 1 - (P.size - 1 - j) = j := by omega
    unfold TraceAt
    rw [hPd j hj, esym]
    refine ⟨hc, by have := later_of _ hi _ g; rw [hjj] at this; exact this,
      nondeg_three hci (hT.lt_inv (hk.next_lt hc)) (hT.lt_inv (hk.prev_lt hc)) hnd, ?_, ?_, ?_, ?_, ?_⟩
    · intro hs
      obtain ⟨h1, h2⟩ := e (by rw [hs, vE])
      have a1 := later_of _ hi _ h1
      have a2 := later_of _ hi _ h2
      rw [hjj] at a1 a2
      exact ⟨a1, a2⟩
    · intro hs
      obtain ⟨h1, h2⟩ := r (by rw [hs, vR])
      have a1 := later_of _ hi _ h1
      obtain ⟨b1, b2⟩ := next_of _ hi _ h2
      rw [hjj] at a1 b1 b2
      exact ⟨b1, a1, b2⟩
    · intro hs
      obtain ⟨h1, h2⟩ := l (by rw [hs, vL])
      have a2 := later_of _ hi _ h2
      obtain ⟨b1, b2⟩ := next_of _ hi _ h1
      rw [hjj] at a2 b1 b2
      exact ⟨b1, b2, a2⟩
    · intro hs
      obtain ⟨h1, h2⟩ := cc (by rw [hs, vC])
      obtain ⟨b1, b2⟩ := next_of _ hi _ h1
      rw [hjj] at b1 b2
      obtain ⟨m, m1, m2, m3, m4⟩ := fan_of_cflag hT hH hInv hcl hi h2
      refine ⟨b1, b2, m, by rw [hsz]; omega, m1, m3, ?_⟩
      intro k hk1 hk2
      obtain ⟨n1, i', n2, n3, n4⟩ := m4 k hk1 hk2
      refine ⟨n1, P.size - 1 - i', by omega, ?_⟩
      rw [hPd _ (by omega), show P.size - 1 - (P.size - 1 - i') = i' by omega, n4]
    · have hmem : sy[P.size - 1 - j]! ∈ sy.toList :=
        mem_toList_iff_get.mpr ⟨_, by rw [hTr.sz]; exact hi, rfl⟩
      have hS := hnoS _ hmem
      rw [vC, vS, vL, vR, vE] at kk
      rw [vS] at hS
      omega


/-! ## the run -/

theorem trInv_init (t : CT) (holeId : Array Nat) (vf : Array Bool) : TrInv t holeId #[] vf #[] #[] inv :=
  ⟨fun i hi => by simp at hi, rfl⟩

/-- the encoder's vertices are swing classes: tables made by `CornerTable.create` -/
theorem cover_ofTable {faces : Faces} {table : CornerTable} (hcreate : CornerTable.create faces = some table) :
    Cover (CT.ofTable table) := by
  have hT := tblOK_ofTable hcreate
  have hk := hT.ctok
  have hsz : (CT.ofTable table).numCorners = 3 * faces.size := create_c2v_size hcreate
  have hv : ∀ x, x < 3 * faces.size → (CT.ofTable table).c2v[x]! < (CT.ofTable table).vc.size := by
    intro x hx
    have := ((CornerTable.createF_vinv hcreate).2.2 x hx).1
    have e1 : (CT.ofTable table).c2v[x]! = vget table.cornerToVertex x := by
      show table.cornerToVertex[x]! = table.cornerToVertex.getD x 0
      rw [Array.getElem!_eq_getD]; rfl
    rw [e1]
    show _ < (table.vertexCorners.map fun o => o.getD inv).size
    rw [Array.size_map]
    exact this
  intro c hc hnd
  have hc' : c < 3 * faces.size := by rw [← hsz]; exact hc
  have hf : c / 3 < faces.size := by omega
  have hf' : c / 3 < (CT.ofTable table).numFaces := by
    rw [← ofTable_view_numFaces hcreate] at hf; exact hf
  have hdeg : faceDegenerate faces (c / 3) = false := by
    have := isDegenerated_ok hk hf' (CountsIso.isDegenerated_ofTable hcreate _ hf)
    rw [this]; exact hnd
  obtain ⟨k, hk'⟩ := cover_enc_of_create hcreate c hc' hdeg (hv c hc')
  have hne : (CT.ofTable table).vc[(CT.ofTable table).c2v[c]!]! ≠ inv := by
    intro e
    rw [e, iter_fix (sRP_inv _)] at hk'
    exact hT.base.ne_inv hc hk'.symm
  exact ⟨(ofTable_hvcE hcreate _ (hv c hc') hne).1, k, hk'⟩

/-- the call passes the start-face flags and the init faces through -/
theorem outerTail_pass {t : CT} {holeId : Array Nat} {valence : Bool} {nfa : Nat} {val : ValEnc} {sy : Array Nat}
    {sf : RAnsBitEnc} {sfs : Array Bool} {P : Array Nat} {sp : Array TopoSplit} {f2s : Array Nat} {ls : Int} {nss : Nat}
    {vf vv vh : Array Bool} {I : Array Nat} {from_ : Nat} {r : ForInStep OSt}
    (hb : outerTail t holeId valence nfa val sy sf sfs P sp f2s ls nss () vf vv vh I from_ = .ok r) :
    ∃ s' : OSt, r = .yield s' ∧ s'.2.2.2.2.2.2.1 = sfs ∧ s'.2.2.2.2.2.2.2.2.1 = I := by
  unfold outerTail at hb
  rcases ite_ok hb with ⟨_, hb⟩ | ⟨_, hb⟩
  · exact ⟨_, pure_ok hb, rfl, rfl⟩
  obtain ⟨s2, _, hb⟩ := (bind_ok_iff _ _ _).mp hb
  rcases ite_ok hb with ⟨_, hb⟩ | ⟨_, hb⟩
  · exact (throw_bind_ne hb).elim
  · exact ⟨_, pure_ok hb, rfl, rfl⟩

/-- one init face per start-face flag `true` -/
def IfcOK (s : OSt) : Prop := s.2.2.2.2.2.2.2.2.1.size = (s.2.2.2.2.2.2.1.toList.filter (· = true)).length

theorem outerBody_ifc {t : CT} {holeId : Array Nat} {valence : Bool} {nfa : Nat}
    (cId : Nat) (s : OSt) (r : ForInStep OSt) (hI : IfcOK s)
    (hb : outerBody t holeId valence nfa cId s = .ok r) : ∃ s', r = .yield s' ∧ IfcOK s' := by
  obtain ⟨vf, vv, vh, val, sy, sf, sfs, P, ifc, sp, f2s, ls, nss⟩ := s
  have hI' : ifc.size = (sfs.toList.filter (· = true)).length := hI
  unfold outerBody at hb
  obtain ⟨b, hb1, hb⟩ := (bind_ok_iff _ _ _).mp hb
  rcases ite_ok hb with ⟨_, hb⟩ | ⟨hnv, hb⟩
  · exact ⟨_, pure_ok hb, hI⟩
  obtain ⟨d, hd, hb⟩ := (bind_ok_iff _ _ _).mp hb
  rcases ite_ok hb with ⟨_, hb⟩ | ⟨hnd, hb⟩
  · exact ⟨_, pure_ok hb, hI⟩
  obtain ⟨x, hx, hb⟩ := (bind_ok_iff _ _ _).mp hb
  obtain ⟨interior, sc⟩ := x
  simp only [] at hb
  rcases ite_ok hb with ⟨hint, hb⟩ | ⟨hnint, hb⟩
  · obtain ⟨v0, hv0, hb⟩ := (bind_ok_iff _ _ _).mp hb
    obtain ⟨v1, hv1, hb⟩ := (bind_ok_iff _ _ _).mp hb
    obtain ⟨v2, hv2, hb⟩ := (bind_ok_iff _ _ _).mp hb
    obtain ⟨vv1, hvv1, hb⟩ := (bind_ok_iff _ _ _).mp hb
    obtain ⟨vv2, hvv2, hb⟩ := (bind_ok_iff _ _ _).mp hb
    obtain ⟨vv3, hvv3, hb⟩ := (bind_ok_iff _ _ _).mp hb
    obtain ⟨vf', hvf', hb⟩ := (bind_ok_iff _ _ _).mp hb
    obtain ⟨oppId, hopp, hb⟩ := (bind_ok_iff _ _ _).mp hb
    obtain ⟨b2, _, hb⟩ := (bind_ok_iff _ _ _).mp hb
    have fin : ∀ {vf vv vh from_}, outerTail t holeId valence nfa val sy (sf.encodeBit interior) (sfs.push interior)
        P sp f2s ls nss () vf vv vh (ifc.push (Eb.nextC sc)) from_ = .ok r → ∃ s', r = .yield s' ∧ IfcOK s' := by
      intro vf vv vh from_ h
      obtain ⟨s', e, h1, h2⟩ := outerTail_pass h
      refine ⟨s', e, ?_⟩
      show s'.2.2.2.2.2.2.2.2.1.size = (s'.2.2.2.2.2.2.1.toList.filter (· = true)).length
      rw [h1, h2, hint]
      simp [hI']
    rcases ite_ok hb with ⟨_, hb⟩ | ⟨_, hb⟩
    · exact fin hb
    · exact fin hb
  · obtain ⟨x2, hx2, hb⟩ := (bind_ok_iff _ _ _).mp hb
    obtain ⟨vv', vh'⟩ := x2
    simp only [] at hb
    obtain ⟨s', e, h1, h2⟩ := outerTail_pass hb
    refine ⟨s', e, ?_⟩
    show s'.2.2.2.2.2.2.2.2.1.size = (s'.2.2.2.2.2.2.1.toList.filter (· = true)).length
    have : interior = false := by simpa using hnint
    rw [h1, h2, this]
    simp [hI']

/-- **the symbol part of `DecSim.TraceI` for a split-free run with ARBITRARY start faces**: `conn.processed` = the gate
    corners of the symbols in decoder order followed by one init corner per interior start face; the faces are pairwise
    different; every symbol face satisfies `DecSim.TraceAt` (an init face counts as decoded LATER) -/
theorem traceI_face_of_run (ch : ConnChoices) (pf : Faces) (conn : ConnEnc)
    (h : encodeConnectivity ch false pf #[] = .ok conn)
    (hnoS : ∀ x, x ∈ conn.symbols.toList → x ≠ topoS) :
    TblOK conn.ct ∧
    conn.processed.size = conn.symbols.toList.reverse.length + (conn.startFaces.toList.filter (· = true)).length ∧
    (∀ i, i < conn.processed.size → ∀ i', i' < conn.processed.size →
      conn.processed[i]! / 3 = conn.processed[i']! / 3 → i = i') ∧
    (∀ j, j < conn.symbols.toList.reverse.length →
      TraceAt conn.ct conn.processed conn.symbols.toList.reverse j) := by
  have hrun := h
  rw [encodeConnectivity_eq] at hrun
  split at hrun
  · rename_i table hcreate
    have hT := tblOK_ofTable hcreate
    have hcov := cover_ofTable hcreate
    simp only [] at hrun
    rcases ite_ok hrun with ⟨_, hrun⟩ | ⟨_, hrun⟩
    · exact (throw_bind_ne hrun).elim
    obtain ⟨x, hx, hrun⟩ := (bind_ok_iff _ _ _).mp hrun
    have hH : HolesOK (CT.ofTable table) x.1 := findHoles_spec hT (nh := x.2) hx
    obtain ⟨atts, _, hrun⟩ := (bind_ok_iff _ _ _).mp hrun
    obtain ⟨val, hrun⟩ := ite_bind_both hrun
    obtain ⟨s, hloop, hrun⟩ := (bind_ok_iff _ _ _).mp hrun
    have hI : (Coverage.OInv (CT.ofTable table) s ∧
        TrInv (CT.ofTable table) x.1 s.2.2.2.2.2.2.2.2.1 s.1 s.2.2.2.2.2.2.2.1 s.2.2.2.2.1 inv ∧ IfcOK s) ∨ False := by
      refine range_loop _ _
        (fun _ s => Coverage.OInv (CT.ofTable table) s ∧
          TrInv (CT.ofTable table) x.1 s.2.2.2.2.2.2.2.2.1 s.1 s.2.2.2.2.2.2.2.1 s.2.2.2.2.1 inv ∧ IfcOK s)
        (fun _ => False) ?_ _ s ?_ hloop
      · intro j s r hj ⟨hO, hTr, hC⟩ hr
        left
        obtain ⟨s', e, hO', _, _⟩ := outerBody_cov hT hH j s r hj hO hr
        obtain ⟨s'', e', hTr'⟩ := outerBody_tr hT hH hcov j s r hj hO hTr hr
        obtain ⟨s3, e3, hC'⟩ := outerBody_ifc j s r hC hr
        rw [e] at e' e3; cases e'; cases e3
        exact ⟨s', e, hO', hTr', hC'⟩
      · exact ⟨⟨inv_init (CT.ofTable table) _ _ rfl, closed_init _ _⟩, trInv_init _ _ _, rfl⟩
    obtain ⟨hO, hTr, hC⟩ := hI.resolve_right (fun h => h)
    obtain ⟨vf, vv, vh, val2, sy, sf, sfs, P, ifc, sp, f2s, ls, nss⟩ := s
    dsimp only at hTr
    have hC' : ifc.size = (sfs.toList.filter (· = true)).length := hC
    obtain ⟨sb, _, hrun⟩ := (bind_ok_iff _ _ _).mp hrun
    have hconn : conn.ct = CT.ofTable table ∧ conn.processed = P.reverse ++ ifc ∧ conn.symbols = sy ∧
        conn.startFaces = sfs := by
      rcases ite_ok hrun with ⟨_, hrun⟩ | ⟨_, hrun⟩
      · obtain ⟨cb, _, hrun⟩ := (bind_ok_iff _ _ _).mp hrun
        have := pure_ok hrun
        rw [this]
        exact ⟨rfl, rfl, rfl, rfl⟩
      · have := pure_ok hrun
        rw [this]
        exact ⟨rfl, rfl, rfl, rfl⟩
    obtain ⟨e1, e2, e3, e4⟩ := hconn
    have hInv : Inv (CT.ofTable table) vf vv P ifc := hO.1
    rw [e1, e2, e3, e4]
    obtain ⟨a1, a2, a3, a4⟩ := traceI_face_of_state hT hH hInv hO.2 hTr (by rw [← e3]; exact hnoS)
    refine ⟨hT, ?_, a3, a4⟩
    rw [a2, a1, hC']
  · simp only [throw, throwThe, MonadExceptOf.throw] at hrun
    cases hrun


/-! ## the init faces -/

/-- what a step of the loop over the faces does to the init faces: nothing, or an interior start face `f = cId / 3`
    (unvisited, not degenerate, three neighbours, no vertex on a hole) is recorded with the corner `3 f + 1` -/
theorem outerBody_ifcShape {t : CT} (hT : TblOK t) {holeId : Array Nat} {valence : Bool}
    (cId : Nat) (s : OSt) (r : ForInStep OSt) (hcId : cId < t.numCorners)
    (hb : outerBody t holeId valence t.numFaces cId s = .ok r) :
    ∃ s' : OSt, r = .yield s' ∧ (s'.2.2.2.2.2.2.2.2.1 = s.2.2.2.2.2.2.2.2.1 ∨
      (s'.2.2.2.2.2.2.2.2.1 = s.2.2.2.2.2.2.2.2.1.push (3 * (cId / 3) + 1) ∧ s.1.getD (cId / 3) false = false ∧
        isDegenA t.c2v (cId / 3) = false ∧
        ∀ k, k < 3 → t.opp[3 * (cId / 3) + k]! ≠ inv ∧ vget holeId (t.c2v[3 * (cId / 3) + k]!) = inv)) := by
  obtain ⟨vf, vv, vh, val, sy, sf, sfs, P, ifc, sp, f2s, ls, nss⟩ := s
  have hk := hT.ctok
  have h3 := hk.three
  have hfit := hk.fits
  have hf : cId / 3 < t.numFaces := by
    have : cId < t.c2v.size := hcId
    omega
  unfold outerBody at hb
  obtain ⟨b, hb1, hb⟩ := (bind_ok_iff _ _ _).mp hb
  rcases ite_ok hb with ⟨_, hb⟩ | ⟨hnv, hb⟩
  · exact ⟨_, pure_ok hb, Or.inl rfl⟩
  obtain ⟨d, hd, hb⟩ := (bind_ok_iff _ _ _).mp hb
  have ed := isDegenerated_ok hk hf hd
  rcases ite_ok hb with ⟨_, hb⟩ | ⟨hnd, hb⟩
  · exact ⟨_, pure_ok hb, Or.inl rfl⟩
  have hun : vf.getD (cId / 3) false = false := by
    rw [(rdB_get hb1).2]; simpa using hnv
  have hnd' : isDegenA t.c2v (cId / 3) = false := by
    rw [← ed]; simpa using hnd
  obtain ⟨x, hx, hb⟩ := (bind_ok_iff _ _ _).mp hb
  obtain ⟨interior, sc⟩ := x
  obtain ⟨hsp1, _⟩ := findInit_spec' hT hf hx
  simp only [] at hb
  rcases ite_ok hb with ⟨hint, hb⟩ | ⟨hnint, hb⟩
  · obtain ⟨hsc, hnb⟩ := hsp1 hint
    have hsci : sc < inv := by omega
    have en : Eb.nextC sc = 3 * (cId / 3) + 1 := by rw [nextC_cf sc hsci, hsc]; split <;> omega
    obtain ⟨v0, hv0, hb⟩ := (bind_ok_iff _ _ _).mp hb
    obtain ⟨v1, hv1, hb⟩ := (bind_ok_iff _ _ _).mp hb
    obtain ⟨v2, hv2, hb⟩ := (bind_ok_iff _ _ _).mp hb
    obtain ⟨vv1, hvv1, hb⟩ := (bind_ok_iff _ _ _).mp hb
    obtain ⟨vv2, hvv2, hb⟩ := (bind_ok_iff _ _ _).mp hb
    obtain ⟨vv3, hvv3, hb⟩ := (bind_ok_iff _ _ _).mp hb
    obtain ⟨vf', hvf', hb⟩ := (bind_ok_iff _ _ _).mp hb
    obtain ⟨oppId, hopp, hb⟩ := (bind_ok_iff _ _ _).mp hb
    obtain ⟨b2, _, hb⟩ := (bind_ok_iff _ _ _).mp hb
    have fin : ∀ {vfx vvx vhx : Array Bool} {from_ : Nat}, outerTail t holeId valence t.numFaces val sy
        (sf.encodeBit interior) (sfs.push interior) P sp f2s ls nss () vfx vvx vhx (ifc.push (Eb.nextC sc)) from_ = .ok r →
        ∃ s' : OSt, r = .yield s' ∧ (s'.2.2.2.2.2.2.2.2.1 = ifc ∨
          (s'.2.2.2.2.2.2.2.2.1 = ifc.push (3 * (cId / 3) + 1) ∧ vf.getD (cId / 3) false = false ∧
            isDegenA t.c2v (cId / 3) = false ∧
            ∀ k, k < 3 → t.opp[3 * (cId / 3) + k]! ≠ inv ∧ vget holeId (t.c2v[3 * (cId / 3) + k]!) = inv)) := by
      intro vfx vvx vhx from_ h
      obtain ⟨s', e, _, h2⟩ := outerTail_pass h
      exact ⟨s', e, Or.inr ⟨by rw [h2, en], hun, hnd', hnb⟩⟩
    rcases ite_ok hb with ⟨_, hb⟩ | ⟨_, hb⟩
    · exact fin hb
    · exact fin hb
  · obtain ⟨x2, hx2, hb⟩ := (bind_ok_iff _ _ _).mp hb
    obtain ⟨vv', vh'⟩ := x2
    simp only [] at hb
    obtain ⟨s', e, _, h2⟩ := outerTail_pass hb
    exact ⟨s', e, Or.inl h2⟩

/-- the init faces: valid corners of visited faces without a vertex on a hole, pairwise without a common vertex -/
def InitOK (t : CT) (holeId : Array Nat) (vf : Array Bool) (I : Array Nat) : Prop :=
  (∀ k, k < I.size → I[k]! < t.numCorners ∧ vf.getD (I[k]! / 3) false = true ∧
    ∀ z, z < t.numCorners → z / 3 = I[k]! / 3 → vget holeId (t.c2v[z]!) = inv) ∧
  (∀ k k', k < I.size → k' < I.size → k ≠ k' → ∀ z z', z < t.numCorners → z' < t.numCorners →
    z / 3 = I[k]! / 3 → z' / 3 = I[k']! / 3 → t.c2v[z]! ≠ t.c2v[z']!)

theorem outerBody_init {t : CT} (hT : TblOK t) {holeId : Array Nat} (hH : HolesOK t holeId) (hcov : Cover t)
    {valence : Bool} (cId : Nat) (s : OSt) (r : ForInStep OSt) (hcId : cId < t.numCorners)
    (hO : Coverage.OInv t s) (hI : InitOK t holeId s.1 s.2.2.2.2.2.2.2.2.1)
    (hb : outerBody t holeId valence t.numFaces cId s = .ok r) :
    ∃ s' : OSt, r = .yield s' ∧ InitOK t holeId s'.1 s'.2.2.2.2.2.2.2.2.1 := by
  have hk := hT.ctok
  have h3 := hk.three
  obtain ⟨s', e, _, hmono, hnew⟩ := outerBody_cov hT hH cId s r hcId hO hb
  obtain ⟨s'', e', hsh⟩ := outerBody_ifcShape hT cId s r hcId hb
  rw [e] at e'; cases e'
  refine ⟨s', e, ?_⟩
  obtain ⟨h1, h2⟩ := hI
  rcases hsh with hsame | ⟨hpush, hun, hnd, hnb⟩
  · rw [hsame]
    exact ⟨fun k hk' => ⟨(h1 k hk').1, hmono _ (h1 k hk').2.1, (h1 k hk').2.2⟩, h2⟩
  · rw [hpush]
    have hInv : Inv t s.1 s.2.1 s.2.2.2.2.2.2.2.1 s.2.2.2.2.2.2.2.2.1 := hO.1
    have hcl : Closed t s.1 := hO.2
    have hg : 3 * (cId / 3) + 1 < t.numCorners := by
      have : cId < t.c2v.size := hcId
      show _ < t.c2v.size
      omega
    have hgf : (3 * (cId / 3) + 1) / 3 = cId / 3 := by omega
    have get_old : ∀ k, k < s.2.2.2.2.2.2.2.2.1.size →
        (s.2.2.2.2.2.2.2.2.1.push (3 * (cId / 3) + 1))[k]! = s.2.2.2.2.2.2.2.2.1[k]! := by
      intro k hk'; rw [push_get!, if_neg (by omega)]
    have get_new : (s.2.2.2.2.2.2.2.2.1.push (3 * (cId / 3) + 1))[s.2.2.2.2.2.2.2.2.1.size]! = 3 * (cId / 3) + 1 := by
      rw [push_get!, if_pos rfl]
    have hfv : s'.1.getD (cId / 3) false = true := by
      rcases hnew with h | h
      · exact h
      · rw [hnd] at h; cases h
    -- a corner of the new face and a corner of an old init face carry different vertices
    have hdiff : ∀ k', k' < s.2.2.2.2.2.2.2.2.1.size → ∀ z z', z < t.numCorners → z' < t.numCorners →
        z / 3 = cId / 3 → z' / 3 = s.2.2.2.2.2.2.2.2.1[k']! / 3 → t.c2v[z]! ≠ t.c2v[z']! := by
      intro k' hk' z z' hz hz' hzf hzf' ev
      obtain ⟨_, hv', hh'⟩ := h1 k' hk'
      have hvz' : s.1.getD (z' / 3) false = true := by rw [hzf']; exact hv'
      have hndz' := hInv.nd _ hvz'
      have hfan := hT.fan_closed hH hz' hndz' (hh' z' hz' hzf')
      have := vis_of_fan hT hcov hcl hz' hndz' hfan hz (by rw [hzf]; exact hnd) ev hvz'
      rw [hzf, hun] at this; cases this
    constructor
    · intro k hk'
      rw [Array.size_push] at hk'
      by_cases hlast : k = s.2.2.2.2.2.2.2.2.1.size
      · rw [hlast, get_new, hgf]
        refine ⟨hg, hfv, ?_⟩
        intro z hz hzf
        have e : z = 3 * (cId / 3) + z % 3 := by omega
        rw [e]
        exact (hnb _ (Nat.mod_lt _ (by omega))).2
      · have hk'' : k < s.2.2.2.2.2.2.2.2.1.size := by omega
        rw [get_old k hk'']
        exact ⟨(h1 k hk'').1, hmono _ (h1 k hk'').2.1, (h1 k hk'').2.2⟩
    · intro k k' hk' hk'2 hne z z' hz hz' hzf hzf'
      rw [Array.size_push] at hk' hk'2
      by_cases l1 : k = s.2.2.2.2.2.2.2.2.1.size <;> by_cases l2 : k' = s.2.2.2.2.2.2.2.2.1.size
      · omega
      · rw [l1, get_new, hgf] at hzf
        rw [get_old k' (by omega)] at hzf'
        exact hdiff k' (by omega) z z' hz hz' hzf hzf'
      · rw [l2, get_new, hgf] at hzf'
        rw [get_old k (by omega)] at hzf
        exact fun e => hdiff k (by omega) z' z hz' hz hzf' hzf e.symm
      · rw [get_old k (by omega)] at hzf
        rw [get_old k' (by omega)] at hzf'
        exact h2 k k' (by omega) (by omega) hne z z' hz hz' hzf hzf'


section fanI
variable {t : CT} (hT : TblOK t) {holeId : Array Nat} (hH : HolesOK t holeId)
include hT hH

/-- **the fan of a vertex of an init face**: closed, and every other face of it is a symbol face -/
theorem fan_of_init {vf vv : Array Bool} {P : Array Nat} (hInv : Inv t vf vv P I) (hcl : Closed t vf)
    (hIO : InitOK t holeId vf I) {k : Nat} (hk : k < I.size) {x : Nat} (hx : x < t.numCorners)
    (hxf : x / 3 = I[k]! / 3) :
    ∃ m, 2 ≤ m ∧ m ≤ P.size + 1 ∧ sLk t m x = x ∧
      ∀ j, j < m → 0 < j → sLk t j x ≠ inv ∧ ∃ i', i' < P.size ∧ P[i']! / 3 = sLk t j x / 3 := by
  have hk' := hT.ctok
  have hb := hT.base
  have hfit := hb.le
  obtain ⟨_, hvk, hholes⟩ := hIO.1 k hk
  have hcv : vf.getD (x / 3) false = true := by rw [hxf]; exact hvk
  have hci := hT.lt_inv hx
  have hcne : x ≠ inv := by omega
  have hnd := hInv.nd _ hcv
  have hclf := hT.fan_closed hH hx hnd (hholes x hx hxf)
  obtain ⟨m, hO, _⟩ := CountsIso.orbit_exists hb hx
  obtain ⟨J, rfl⟩ : ∃ J, m = J + 1 := ⟨m - 1, by have := hO.pos; omega⟩
  have hper : iter (sRP t.opp) (J + 1) x = x := by
    rcases hO.fin with e | e
    · exact absurd e (hclf _)
    · exact e
  have hw := hT.walk hx hnd
  have hsl : ∀ k, sLP t.opp (iter (sRP t.opp) (k + 1) x) = iter (sRP t.opp) k x := by
    intro k
    exact (hb.sR_sL (hw k (hclf k)).1 (iter_succ' (sRP t.opp) k x).symm (hclf (k + 1))).2
  have hsLk : ∀ k, k ≤ J + 1 → sLk t k x = iter (sRP t.opp) (J + 1 - k) x := by
    intro k
    induction k with
    | zero => intro _; show x = _; rw [Nat.sub_zero, hper]
    | succ k ih =>
      intro hk'
      show sL t (sLk t k x) = _
      rw [ih (by omega), sL_eq_sLP t (hclf _), show J + 1 - k = (J + 1 - (k + 1)) + 1 by omega, hsl]
  have hvis : ∀ d, d ≤ J + 1 → vf.getD (iter (sRP t.opp) (J + 1 - d) x / 3) false = true := by
    intro d
    induction d with
    | zero => intro _; rw [Nat.sub_zero, hper]; exact hcv
    | succ d ih =>
      intro hd
      have h1 := ih (by omega)
      rw [show J + 1 - d = (J + 1 - (d + 1)) + 1 by omega, iter_succ'] at h1
      exact (link_sR hT (hw _ (hclf _)).1
        (by rw [← iter_succ' (sRP t.opp) (J + 1 - (d + 1)) x]; exact hclf _)).2 vf hcl h1
  have hinj : ∀ a b, a ≤ J → b ≤ J → iter (sRP t.opp) a x / 3 = iter (sRP t.opp) b x / 3 → a = b := by
    intro a b ha hb' e
    have hwa := hw a (hclf a)
    have hwb := hw b (hclf b)
    have hlb := hT.lt_inv hwb.1
    have := same_corner (c2v := t.c2v) (hT.lt_inv hwa.1) hlb (hT.lt_inv (hk'.next_lt hwb.1))
      (hT.lt_inv (hk'.prev_lt hwb.1)) hwb.2.1 e (by rw [hwa.2.2, hwb.2.2])
    have hinj' := walk_inj hb (f := x) (j := J) (fun i' hi' => (hw i' (hclf i')).1)
      (fun i' h1 h2 => hO.nef i' h1 (by omega))
    rcases Nat.lt_trichotomy a b with h | h | h
    · exact absurd this (hinj' a b h hb')
    · exact h
    · exact absurd this.symm (hinj' b a h ha)
  -- every OTHER face of the fan is a processed (symbol) face
  have hmem : ∀ a, 1 ≤ a → a ≤ J → ∃ i', i' < P.size ∧ P[i']! / 3 = iter (sRP t.opp) a x / 3 := by
    intro a ha1 ha
    have hv := hvis (J + 1 - a) (by omega)
    rw [show J + 1 - (J + 1 - a) = a by omega] at hv
    rcases before_of_vis hInv (Or.inr hv) with e | ⟨i', _, h2, h3⟩ | ⟨k2, h1, h2⟩
    · exact absurd e (hclf a)
    · exact ⟨i', h2, h3⟩
    · exfalso
      by_cases ek : k2 = k
      · rw [ek, ← hxf] at h2
        have := hinj 0 a (by omega) ha h2
        omega
      · exact hIO.2 k k2 hk h1 (fun e => ek e.symm) x _ hx (hw a (hclf a)).1 hxf h2.symm (hw a (hclf a)).2.2.symm
  have hJ : J ≤ P.size := by
    have hsub : ((List.range J).map (fun a => iter (sRP t.opp) (a + 1) x / 3)) ⊆ P.toList.map (· / 3) := by
      intro f hf
      rw [List.mem_map] at hf
      obtain ⟨a, ha, rfl⟩ := hf
      obtain ⟨i', h2, h3⟩ := hmem (a + 1) (by omega) (by have := List.mem_range.mp ha; omega)
      rw [List.mem_map]
      exact ⟨P[i']!, mem_toList_iff_get.mpr ⟨i', h2, rfl⟩, h3⟩
    have hnodup : ((List.range J).map (fun a => iter (sRP t.opp) (a + 1) x / 3)).Nodup := by
      apply List.Nodup.map_on _ List.nodup_range
      intro a ha b hb' e
      have := hinj (a + 1) (b + 1) (by have := List.mem_range.mp ha; omega) (by have := List.mem_range.mp hb'; omega) e
      omega
    have := hnodup.length_le_of_subset hsub
    simpa using this
  refine ⟨J + 1, ?_, by omega, by rw [hsLk _ (Nat.le_refl _), Nat.sub_self]; rfl, ?_⟩
  · rcases Nat.eq_zero_or_pos J with e | e
    · exfalso
      subst e
      have h1 : sRP t.opp x = x := hper
      have hp := hk'.prev_lt hx
      rw [sRP_eq _ hcne] at h1
      have ho : t.opp[Eb.prevC x]! ≠ inv := by
        intro e; rw [e, prevC_inv] at h1; exact hcne h1.symm
      have hf := hk'.oppface _ hp (by rw [vget_eq]; exact ho)
      obtain ⟨holt, _⟩ := hb.invol _ hp ho
      rw [vget_eq, prevC_div3 _ hci, ← prevC_div3 _ (hT.lt_inv holt), h1] at hf
      exact hf rfl
    · omega
  · intro j hjm hj0
    rw [hsLk j (by omega)]
    exact ⟨hclf _, hmem (J + 1 - j) (by omega) (by omega)⟩

end fanI


/-! ## the positions of the calls among the symbols -/

def noS (sy : Array Nat) : Prop := ∀ x, x ∈ sy.toList → x ≠ topoS

theorem noS_of_push {sy : Array Nat} {x : Nat} (h : noS (sy.push x)) : noS sy ∧ x ≠ topoS :=
  ⟨fun y hy => h y (by rw [Array.toList_push]; exact List.mem_append_left _ hy), h x (by simp)⟩

/-! ## a closed fan has a left neighbour -/

theorem opp_next_of_closed {N : Nat} {opp : Array Nat} (hb : BaseTbl N opp) {c : Nat} (hc : c < N)
    (hcl : ∀ k, iter (sRP opp) k c ≠ inv) : opp[Eb.nextC c]! ≠ inv := by
  intro ho
  obtain ⟨Pd, hO, _⟩ := CountsIso.orbit_exists hb hc
  have hper : iter (sRP opp) Pd c = c := by
    rcases hO.fin with h | h
    · exact absurd h (hcl _)
    · exact h
  have hpos := hO.pos
  have em : Pd = (Pd - 1) + 1 := by omega
  rw [em, iter_succ'] at hper
  have hci := hb.ne_inv hc
  have hylt := AP.iter_sR_lt hb hc _ (hcl (Pd - 1))
  obtain ⟨-, hsl⟩ := hb.sR_sL hylt hper hci
  have : sLP opp c = inv := by simp [sLP, hci, ho, nextC_inv]
  rw [this] at hsl
  exact hcl _ hsl.symm

/-! ## the shape of one traversal step -/

/-- after the `C` case: `R` / `L` continue at a valid corner with the stack unchanged, `E` pops the stack, `S` pushes
    the symbol `S` -/
theorem innerTail_shapeP {t : CT} {holeId : Array Nat} {valence : Bool} {vf' vh : Array Bool} {P' : Array Nat}
    {splits : Array TopoSplit} {f2s : Array Nat} {lsid : Int} {nss : Nat} {stack : Array Nat}
    {nv face lastCorner vertId : Nat} {onB : Bool} {vv1 : Array Bool} {val : ValEnc} {sy : Array Nat}
    {c : Nat} {r : ForInStep InSt}
    (hb : innerTail t holeId valence vf' vh P' splits f2s lsid nss stack nv face lastCorner vertId onB () vv1 val sy c
      = .ok r) :
    (∃ s' : InSt, r = .yield s' ∧ s'.1 = vf' ∧ s'.2.2.2.2.2.2.2.2.2.2.1 = stack ∧ s'.2.2.2.2.2.2.2.2.2.2.2.2 = nv ∧
      s'.2.2.2.2.2.2.2.2.2.2.2.1 ≠ inv ∧ s'.2.2.2.2.2.1 = P' ∧ ∃ x, x ≠ topoE ∧ s'.2.2.2.2.1 = sy.push x) ∨
    (∃ s' : InSt, r = .done s' ∧ s'.2.2.2.2.2.1 = P' ∧
      ((s'.2.2.2.2.1 = sy.push topoE ∧ s'.2.2.2.2.2.2.2.2.2.2.1 = stack.pop) ∨ s'.2.2.2.2.1 = sy.push topoS)) := by
  unfold innerTail at hb
  try simp only [] at hb
  obtain ⟨rc, hR, hb⟩ := (bind_ok_iff _ _ _).mp hb
  obtain ⟨lc, hL, hb⟩ := (bind_ok_iff _ _ _).mp hb
  obtain ⟨rv, hb, hrv1, hrv2⟩ := visited_absorb hb
  obtain ⟨lv, hb, hlv1, hlv2⟩ := visited_absorb hb
  have hRne : rv = false → rc ≠ inv := by
    intro e hn
    have := hrv2 (by simp [hn])
    rw [e] at this; cases this
  have hLne : lv = false → lc ≠ inv := by
    intro e hn
    have := hlv2 (by simp [hn])
    rw [e] at this; cases this
  rcases ite_ok hb with ⟨hrvt, hb⟩ | ⟨hrvf, hb⟩
  · over_splits hb =>
      rcases ite_ok hb with ⟨hlvt, hb⟩ | ⟨hlvf, hb⟩
      · -- E
        over_splits hb =>
          obtain ⟨val1, hb⟩ := ite_bind_absorb hb
          exact Or.inr ⟨_, pure_ok hb, rfl, Or.inl ⟨rfl, rfl⟩⟩
      · -- R
        obtain ⟨val1, hb⟩ := ite_bind_absorb hb
        exact Or.inl ⟨_, pure_ok hb, rfl, rfl, rfl, hLne (by simpa using hlvf), rfl, topoR, by decide, rfl⟩
  · rcases ite_ok hb with ⟨hlvt, hb⟩ | ⟨hlvf, hb⟩
    · -- L
      over_splits hb =>
        obtain ⟨val1, hb⟩ := ite_bind_absorb hb
        exact Or.inl ⟨_, pure_ok hb, rfl, rfl, rfl, hRne (by simpa using hrvf), rfl, topoL, by decide, rfl⟩
    · -- S
      obtain ⟨val1, hb⟩ := ite_bind_absorb hb
      rcases ite_ok hb with ⟨_, hb⟩ | ⟨_, hb⟩
      · obtain ⟨hole, _, hb⟩ := (bind_ok_iff _ _ _).mp hb
        obtain ⟨hv, _, hb⟩ := (bind_ok_iff _ _ _).mp hb
        rcases ite_ok hb with ⟨_, hb⟩ | ⟨_, hb⟩
        · obtain ⟨x, hx, hb⟩ := (bind_ok_iff _ _ _).mp hb
          obtain ⟨vv2, vh2⟩ := x
          obtain ⟨f2s', _, hb⟩ := (bind_ok_iff _ _ _).mp hb
          exact Or.inr ⟨_, pure_ok hb, rfl, Or.inr rfl⟩
        · obtain ⟨f2s', _, hb⟩ := (bind_ok_iff _ _ _).mp hb
          exact Or.inr ⟨_, pure_ok hb, rfl, Or.inr rfl⟩
      · obtain ⟨f2s', _, hb⟩ := (bind_ok_iff _ _ _).mp hb
        exact Or.inr ⟨_, pure_ok hb, rfl, Or.inr rfl⟩

/-- one traversal step below the bound: the face of the current corner is marked; `C` / `R` / `L` continue at a valid
    corner with the stack unchanged, `E` pops the stack, `S` pushes the symbol `S` -/
theorem innerBody_shapeP {t : CT} (hT : TblOK t) {holeId : Array Nat} (hH : HolesOK t holeId) {valence : Bool} {NF : Nat}
    (x : Nat) (s : InSt) (r : ForInStep InSt) (hlt : s.2.2.2.2.2.2.2.2.2.2.2.2 < NF)
    (hc : s.2.2.2.2.2.2.2.2.2.2.2.1 < t.numCorners) (hnd : isDegenA t.c2v (s.2.2.2.2.2.2.2.2.2.2.2.1 / 3) = false)
    (hb : innerBody t holeId valence NF x s = .ok r) :
    ∃ vf', wrB "visited_faces_" s.1 (s.2.2.2.2.2.2.2.2.2.2.2.1 / 3) true = .ok vf' ∧
    ((∃ s' : InSt, r = .yield s' ∧ s'.1 = vf' ∧ s'.2.2.2.2.2.2.2.2.2.2.1 = s.2.2.2.2.2.2.2.2.2.2.1 ∧
        s'.2.2.2.2.2.2.2.2.2.2.2.2 = s.2.2.2.2.2.2.2.2.2.2.2.2 + 1 ∧
        s'.2.2.2.2.2.2.2.2.2.2.2.1 ≠ inv ∧ s'.2.2.2.2.2.1 = s.2.2.2.2.2.1.push s.2.2.2.2.2.2.2.2.2.2.2.1 ∧
        ∃ x, x ≠ topoE ∧ s'.2.2.2.2.1 = s.2.2.2.2.1.push x) ∨
     (∃ s' : InSt, r = .done s' ∧ s'.2.2.2.2.2.1 = s.2.2.2.2.2.1.push s.2.2.2.2.2.2.2.2.2.2.2.1 ∧
        ((s'.2.2.2.2.1 = s.2.2.2.2.1.push topoE ∧
        s'.2.2.2.2.2.2.2.2.2.2.1 = s.2.2.2.2.2.2.2.2.2.2.1.pop) ∨ s'.2.2.2.2.1 = s.2.2.2.2.1.push topoS))) := by
  obtain ⟨vf, vv, vh, val, sy, P, sp, f2s, ls, nss, st, c, nv⟩ := s
  dsimp only at hlt hc hnd ⊢
  have hk := hT.ctok
  have hci : c ≠ inv := hT.base.ne_inv hc
  unfold innerBody at hb
  rcases ite_ok hb with ⟨hge, hb⟩ | ⟨_, hb⟩
  · exfalso; have : nv ≥ NF := hge; omega
  obtain ⟨vf', hvf, hb⟩ := (bind_ok_iff _ _ _).mp hb
  obtain ⟨vertId, hvert, hb⟩ := (bind_ok_iff _ _ _).mp hb
  obtain ⟨hid, hhid, hb⟩ := (bind_ok_iff _ _ _).mp hb
  obtain ⟨vis, hvis, hb⟩ := (bind_ok_iff _ _ _).mp hb
  rw [faceOf_ne hci] at hvf
  refine ⟨vf', hvf, ?_⟩
  rcases ite_ok hb with ⟨hnv, hb⟩ | ⟨hv, hb⟩
  · obtain ⟨vv', hvv', hb⟩ := (bind_ok_iff _ _ _).mp hb
    rcases ite_ok hb with ⟨hnb, hb⟩ | ⟨_, hb⟩
    · -- C
      obtain ⟨val1, hb⟩ := ite_bind_absorb hb
      obtain ⟨o, ho, hb⟩ := (bind_ok_iff _ _ _).mp hb
      have hn : Eb.nextC c < t.numCorners := hk.next_lt hc
      have eo : t.opp[Eb.nextC c]! = o := by
        rw [← vget_eq]; exact (opposite_get (hT.base.ne_inv hn) ho).2
      have hhole : vget holeId (t.c2v[c]!) = inv := by
        have : hid = inv := by simpa using hnb
        rw [← vget_eq, (vertex_get hci hvert).2, ← this]
        exact (rd_get hhid).2
      have hcl := hT.fan_closed hH hc hnd hhole
      have hoi : o ≠ inv := by
        rw [← eo]; exact opp_next_of_closed hT.base hc hcl
      exact Or.inl ⟨_, pure_ok hb, rfl, rfl, rfl, hoi, rfl, topoC, by decide, rfl⟩
    · exact innerTail_shapeP hb
  · exact innerTail_shapeP hb


/-- `P`, `sy` extend `P0`, `sy0` -/
def Ext (P0 sy0 P sy : Array Nat) : Prop :=
  P0.size ≤ P.size ∧ sy.size = P.size ∧ ∀ q, q < P0.size → P[q]! = P0[q]! ∧ sy[q]! = sy0[q]!

theorem Ext.refl (P sy : Array Nat) (h : sy.size = P.size) : Ext P sy P sy :=
  ⟨Nat.le_refl _, h, fun _ _ => ⟨rfl, rfl⟩⟩

theorem Ext.push {P0 sy0 P sy : Array Nat} (h : Ext P0 sy0 P sy) (c x : Nat) : Ext P0 sy0 (P.push c) (sy.push x) := by
  obtain ⟨h1, h2, h3⟩ := h
  refine ⟨by simp; omega, by simp [h2], ?_⟩
  intro q hq
  rw [push_get!, push_get!, if_neg (by omega), if_neg (by omega)]
  exact h3 q hq

/-- no symbol `E` since the call started -/
def Mid (p0 : Nat) (sy : Array Nat) : Prop := ∀ q, p0 ≤ q → q < sy.size → sy[q]! ≠ topoE

/-- the call is over: it processed the corner `from_` first and pushed exactly one `E`, as its last symbol -/
def Done (p0 from_ : Nat) (sy P : Array Nat) : Prop :=
  p0 < sy.size ∧ sy[sy.size - 1]! = topoE ∧ (∀ q, p0 ≤ q → q + 1 < sy.size → sy[q]! ≠ topoE) ∧ P[p0]! = from_

/-- what is known while the traversal loop runs (no `S` so far) -/
def KIn (p0 from_ : Nat) (sy P st : Array Nat) (c : Nat) : Prop :=
  noS sy → st.size = 1 ∧ Mid p0 sy ∧ (P.size = p0 → c = from_) ∧ (p0 < P.size → P[p0]! = from_)

def LIn (t : CT) (I P0 sy0 : Array Nat) (from_ i : Nat) (s : InSt) : Prop :=
  IIn t I s ∧ s.2.2.2.2.2.2.2.2.2.2.2.2 = i ∧ i ≤ vcount s.1 t.numFaces ∧ s.2.2.2.2.2.2.2.2.2.2.2.1 ≠ inv ∧
  Ext P0 sy0 s.2.2.2.2.2.1 s.2.2.2.2.1 ∧
  KIn P0.size from_ s.2.2.2.2.1 s.2.2.2.2.2.1 s.2.2.2.2.2.2.2.2.2.2.1 s.2.2.2.2.2.2.2.2.2.2.2.1

def LQ (t : CT) (I P0 sy0 : Array Nat) (from_ : Nat) (s : InSt) : Prop :=
  IInQ t I s ∧ Ext P0 sy0 s.2.2.2.2.2.1 s.2.2.2.2.1 ∧
  (noS s.2.2.2.2.1 → s.2.2.2.2.2.2.2.2.2.2.1.size = 0 ∧ Done P0.size from_ s.2.2.2.2.1 s.2.2.2.2.2.1)

theorem curOK_valid {t : CT} {vf vv : Array Bool} {c : Nat} (h : CurOK t vf vv c) (hne : c ≠ inv) :
    c < t.c2v.size ∧ isDegenA t.c2v (c / 3) = false ∧ vf.getD (c / 3) false = false := by
  rcases h with e | ⟨e, hun⟩
  · exact absurd e hne
  · rcases e with e | ⟨h1, h2, _⟩
    · exact absurd e hne
    · exact ⟨h1, h2, hun⟩

theorem innerBody_pos {t : CT} (hT : TblOK t) {holeId : Array Nat} (hH : HolesOK t holeId) {valence : Bool}
    {I P0 sy0 : Array Nat} {from_ : Nat} (j : Nat) (s : InSt) (r : ForInStep InSt) (hj : j < t.numFaces)
    (hJ : LIn t I P0 sy0 from_ j s) (hb : innerBody t holeId valence t.numFaces j s = .ok r) :
    (∃ s', r = .yield s' ∧ LIn t I P0 sy0 from_ (j + 1) s') ∨ (∃ s', r = .done s' ∧ LQ t I P0 sy0 from_ s') := by
  have hk := hT.ctok
  obtain ⟨hI, hnv, hcnt, hci, hE, hK⟩ := hJ
  have h1 := innerBody_inv hk j s r hI hb
  obtain ⟨hInv, _, hCur⟩ := hI
  obtain ⟨hc, hnd, hun⟩ := curOK_valid hCur hci
  obtain ⟨vf', hvf, hsh⟩ := innerBody_shapeP hT hH j s r (by rw [hnv]; exact hj) hc hnd hb
  obtain ⟨hlt, evf⟩ := wrB_get hvf
  have hcnt' : j + 1 ≤ vcount vf' t.numFaces := by
    rw [evf, vcount_set s.1 _ _ hlt (by rw [← hInv.vfsz]; exact hlt) hun]
    omega
  have hle := hE.1
  have hsz := hE.2.1
  -- the first processed corner of the call
  have hfirst : noS s.2.2.2.2.1 →
      (s.2.2.2.2.2.1.push s.2.2.2.2.2.2.2.2.2.2.2.1)[P0.size]! = from_ := by
    intro hn
    obtain ⟨_, _, g3, g4⟩ := hK hn
    rw [push_get!]
    by_cases e : P0.size = s.2.2.2.2.2.1.size
    · rw [if_pos e]; exact g3 e.symm
    · rw [if_neg e]; exact g4 (by omega)
  rcases hsh with ⟨s', e, a1, a2, a3, a4, aP, x, hx, a5⟩ | ⟨s', e, aP, hd⟩
  · left
    rcases h1 with ⟨s'', e1, hs1⟩ | ⟨s'', e1, _⟩
    · rw [e] at e1; cases e1
      refine ⟨s', e, hs1, by rw [a3, hnv], by rw [a1]; exact hcnt', a4, by rw [aP, a5]; exact hE.push _ _, ?_⟩
      intro hn
      rw [a5] at hn
      have hn0 := (noS_of_push hn).1
      obtain ⟨g1, g2, _, _⟩ := hK hn0
      rw [a2, a5, aP]
      refine ⟨g1, ?_, fun h => by simp at h; omega, fun _ => hfirst hn0⟩
      intro q hq1 hq2
      rw [Array.size_push] at hq2
      rw [push_get!]
      by_cases eq : q = s.2.2.2.2.1.size
      · rw [if_pos eq]; exact hx
      · rw [if_neg eq]; exact g2 q hq1 (by omega)
    · rw [e] at e1; cases e1
  · right
    rcases h1 with ⟨s'', e1, _⟩ | ⟨s'', e1, hs1⟩
    · rw [e] at e1; cases e1
    · rw [e] at e1; cases e1
      rcases hd with ⟨b1, b2⟩ | b1
      · refine ⟨s', e, hs1, by rw [aP, b1]; exact hE.push _ _, ?_⟩
        intro hn
        rw [b1] at hn
        have hn0 := (noS_of_push hn).1
        obtain ⟨g1, g2, _, _⟩ := hK hn0
        rw [b1, b2, aP, Array.size_pop]
        refine ⟨by omega, by simp; omega, by simp [push_get!], ?_, hfirst hn0⟩
        intro q hq1 hq2
        rw [Array.size_push] at hq2
        rw [push_get!, if_neg (by omega)]
        exact g2 q hq1 (by omega)
      · refine ⟨s', e, hs1, by rw [aP, b1]; exact hE.push _ _, ?_⟩
        intro hn
        rw [b1] at hn
        exact absurd rfl (noS_of_push hn).2

/-! ### the stack loop -/

def KSt (p0 from_ : Nat) (vf : Array Bool) (sy P st : Array Nat) : Prop :=
  noS sy → (st.size = 1 ∧ st.back! = from_ ∧ vf.getD (from_ / 3) false = false ∧ P.size = p0) ∨
    (st.size = 0 ∧ Done p0 from_ sy P)

def LSt (t : CT) (I P0 sy0 : Array Nat) (from_ : Nat) (s : StSt) : Prop :=
  ISt t I s ∧ s.2.2.2.2.2.2.2.2.2.2.2 = false ∧ Ext P0 sy0 s.2.2.2.2.2.1 s.2.2.2.2.1 ∧
  KSt P0.size from_ s.1 s.2.2.2.2.1 s.2.2.2.2.2.1 s.2.2.2.2.2.2.2.2.2.2.1

def LStQ (t : CT) (I P0 sy0 : Array Nat) (from_ : Nat) (s : StSt) : Prop :=
  ISt t I s ∧ s.2.2.2.2.2.2.2.2.2.2.1.size = 0 ∧ Ext P0 sy0 s.2.2.2.2.2.1 s.2.2.2.2.1 ∧
  KSt P0.size from_ s.1 s.2.2.2.2.1 s.2.2.2.2.2.1 s.2.2.2.2.2.2.2.2.2.2.1

theorem stackBody_pos {t : CT} (hT : TblOK t) {holeId : Array Nat} (hH : HolesOK t holeId) {valence : Bool}
    {I P0 sy0 : Array Nat} {from_ : Nat} (hfr : from_ ≠ inv) (x : Nat) (s : StSt) (r : ForInStep StSt)
    (hJ : LSt t I P0 sy0 from_ s) (hb : stackBody t holeId valence t.numFaces x s = .ok r) :
    (∃ s', r = .yield s' ∧ LSt t I P0 sy0 from_ s') ∨ (∃ s', r = .done s' ∧ LStQ t I P0 sy0 from_ s') := by
  have hk := hT.ctok
  obtain ⟨hI, hfin, hE, hK⟩ := hJ
  have h1 := stackBody_inv hk x s r hI hb
  obtain ⟨vf, vv, vh, val, sy, P, sp, f2s, ls, nss, st, fin⟩ := s
  obtain ⟨hInv, hSt⟩ := hI
  dsimp only at hInv hSt hfin hK hE
  subst hfin
  have yld : ∀ s' : StSt, r = .yield s' → s'.2.2.2.2.2.2.2.2.2.2.2 = false →
      Ext P0 sy0 s'.2.2.2.2.2.1 s'.2.2.2.2.1 →
      KSt P0.size from_ s'.1 s'.2.2.2.2.1 s'.2.2.2.2.2.1 s'.2.2.2.2.2.2.2.2.2.2.1 →
      (∃ s', r = .yield s' ∧ LSt t I P0 sy0 from_ s') ∨ (∃ s', r = .done s' ∧ LStQ t I P0 sy0 from_ s') := by
    intro s' e f1 f2 f3
    left
    rcases h1 with ⟨s'', e1, hs1⟩ | ⟨s'', e1, _⟩
    · rw [e] at e1; cases e1; exact ⟨s', e, hs1, f1, f2, f3⟩
    · rw [e] at e1; cases e1
  unfold stackBody at hb
  rcases ite_ok hb with ⟨hemp, hb⟩ | ⟨hne, hb⟩
  · right
    have e := pure_ok hb
    rcases h1 with ⟨s'', e1, _⟩ | ⟨s'', e1, hs1⟩
    · rw [e] at e1; cases e1
    · rw [e] at e1; cases e1
      refine ⟨_, e, hs1, ?_, hE, hK⟩
      show st.size = 0
      exact Array.isEmpty_iff_size_eq_zero.mp hemp
  have hpos : 0 < st.size := by
    rcases Nat.eq_zero_or_pos st.size with e | e
    · exact absurd (Array.isEmpty_iff_size_eq_zero.mpr e) hne
    · exact e
  rcases ite_ok hb with ⟨hinv, hb⟩ | ⟨hninv, hb⟩
  · refine yld _ (pure_ok hb) rfl hE ?_
    intro hn
    rcases hK hn with ⟨_, g2, _, _⟩ | ⟨g1, _⟩
    · rw [g2] at hinv; exact absurd (by simpa using hinv) hfr
    · omega
  have hbi : st.back! ≠ inv := by simpa using hninv
  obtain ⟨b, hb1, hb⟩ := (bind_ok_iff _ _ _).mp hb
  rcases ite_ok hb with ⟨hvis, hb⟩ | ⟨hnvis, hb⟩
  · refine yld _ (pure_ok hb) rfl hE ?_
    intro hn
    rcases hK hn with ⟨_, g2, g3, _⟩ | ⟨g1, _⟩
    · rw [← g2, (rdB_get hb1).2, hvis] at g3; cases g3
    · omega
  obtain ⟨s2, hloop, hb⟩ := (bind_ok_iff _ _ _).mp hb
  have hne' : st.isEmpty = false := by simpa using hne
  have hun : vf.getD (st.back! / 3) false = false := by
    rw [(rdB_get hb1).2]; simpa using hnvis
  have hcur : CurOK t vf vv st.back! := Or.inr ⟨hSt.back hne', hun⟩
  have h2 := range_loop t.numFaces (innerBody t holeId valence t.numFaces) (LIn t I P0 sy0 from_) (LQ t I P0 sy0 from_)
    (fun j s r hj hJ hr => innerBody_pos hT hH j s r hj hJ hr)
    (vf, vv, vh, val, sy, P, sp, f2s, ls, nss, st, st.back!, 0) s2
    ⟨⟨hInv, hSt, hcur⟩, rfl, Nat.zero_le _, hbi, hE, fun hn => by
      rcases hK hn with ⟨g1, g2, _, g4⟩ | ⟨g1, _⟩
      · exact ⟨g1, fun q h1 h2 => by dsimp only at h2; have := hE.2.1; omega, fun _ => g2,
          fun h => by dsimp only at h; omega⟩
      · omega⟩ hloop
  obtain ⟨vf2, vv2, vh2, val2, sy2, P2, sp2, f2s2, ls2, nss2, st2, c2, nv2⟩ := s2
  have hQ : LQ t I P0 sy0 from_ (vf2, vv2, vh2, val2, sy2, P2, sp2, f2s2, ls2, nss2, st2, c2, nv2) := by
    rcases h2 with ⟨⟨hInv2, _, hCur2⟩, _, hcnt2, hci2, _⟩ | hq
    · exfalso
      dsimp only at hInv2 hCur2 hcnt2 hci2
      obtain ⟨hc2, _, hun2⟩ := curOK_valid hCur2 hci2
      have h3 := hk.three
      have := all_of_vcount hcnt2 (c2 / 3) (by omega)
      rw [this] at hun2; cases hun2
    · exact hq
  refine yld _ (pure_ok hb) rfl hQ.2.1 ?_
  intro hn
  exact Or.inr (hQ.2.2 hn)

/-- **one call, positions**: started at the valid corner `from_` of an unvisited face, the call only appends to
    `processed` and the symbols, and — without `S` — it processes `from_` first and pushes exactly one `E`, last -/
theorem outerTail_pos {t : CT} (hT : TblOK t) {holeId : Array Nat} (hH : HolesOK t holeId) {valence : Bool}
    {val : ValEnc} {sy : Array Nat}
    {sf : RAnsBitEnc} {sfs : Array Bool} {P : Array Nat} {sp : Array TopoSplit} {f2s : Array Nat} {ls : Int} {nss : Nat}
    {vf vv vh : Array Bool} {I : Array Nat} {from_ : Nat} {r : ForInStep OSt}
    (hInv : Inv t vf vv P I) (hfrom : CornerOK t vv from_) (hne : from_ ≠ inv)
    (hun : vf.getD (from_ / 3) false = false) (hsz : sy.size = P.size)
    (hb : outerTail t holeId valence t.numFaces val sy sf sfs P sp f2s ls nss () vf vv vh I from_ = .ok r) :
    ∃ s' : OSt, r = .yield s' ∧ Ext P sy s'.2.2.2.2.2.2.2.1 s'.2.2.2.2.1 ∧
      (noS s'.2.2.2.2.1 → Done P.size from_ s'.2.2.2.2.1 s'.2.2.2.2.2.2.2.1) := by
  unfold outerTail at hb
  rcases ite_ok hb with ⟨hfi, hb⟩ | ⟨_, hb⟩
  · exact absurd (by simpa using hfi) hne
  obtain ⟨s2, hloop, hb⟩ := (bind_ok_iff _ _ _).mp hb
  have h2 := range_loop (4 * t.numFaces + 16) (stackBody t holeId valence t.numFaces)
    (fun _ => LSt t I P sy from_) (LStQ t I P sy from_)
    (fun j s r _ hJ hr => stackBody_pos hT hH hne j s r hJ hr)
    (vf, vv, vh, val, sy, P, sp, f2s, ls, nss, #[from_], false) s2
    ⟨⟨hInv, StackOK.single hfrom⟩, rfl, Ext.refl P sy hsz, fun _ => Or.inl ⟨rfl, rfl, hun, rfl⟩⟩ hloop
  obtain ⟨vf2, vv2, vh2, val2, sy2, P2, sp2, f2s2, ls2, nss2, st2, fin2⟩ := s2
  rcases ite_ok hb with ⟨_, hb⟩ | ⟨hfin, hb⟩
  · exact (throw_bind_ne hb).elim
  have hfin' : fin2 = true := by simpa using hfin
  rcases h2 with ⟨_, hf, _⟩ | ⟨_, hemp, hE2, hK2⟩
  · have : fin2 = false := hf
    rw [this] at hfin'; cases hfin'
  · refine ⟨_, pure_ok hb, hE2, ?_⟩
    intro hn
    dsimp only at hemp hK2 hn ⊢
    rcases hK2 hn with ⟨g1, _⟩ | ⟨_, g2⟩
    · omega
    · exact g2


/-! ### the loop over the faces: where the calls start -/

/-- the indices at which a call starts: `0` and right after every `E` -/
def callStarts (sy : Array Nat) : List Nat := (List.range sy.size).filter (fun i => i = 0 ∨ sy[i - 1]! = topoE)

/-- the number of interior start faces among the first `k` start faces -/
def nTrue (sfs : Array Bool) (k : Nat) : Nat := ((sfs.toList.take k).filter (· = true)).length

theorem bpush_get (a : Array Bool) (b : Bool) (k : Nat) : (a.push b)[k]! = if k = a.size then b else a[k]! := by
  simp only [Array.getElem!_eq_getD, Array.getD_eq_getD_getElem?, Array.getElem?_push]
  by_cases e : k = a.size
  · simp [e]
  · simp [e]

theorem nTrue_push (sfs : Array Bool) (b : Bool) (k : Nat) (hk : k ≤ sfs.size) : nTrue (sfs.push b) k = nTrue sfs k := by
  unfold nTrue
  rw [Array.toList_push, List.take_append_of_le_length (by simpa using hk)]

theorem nTrue_all_push (sfs : Array Bool) (b : Bool) :
    nTrue (sfs.push b) (sfs.size + 1) = nTrue sfs sfs.size + if b = true then 1 else 0 := by
  unfold nTrue
  rw [Array.toList_push]
  have e1 : List.take (sfs.size + 1) (sfs.toList ++ [b]) = sfs.toList ++ [b] := by
    apply List.take_of_length_le; simp
  have e2 : List.take sfs.size sfs.toList = sfs.toList := by
    apply List.take_of_length_le; simp
  rw [e1, e2, List.filter_append, List.length_append]
  cases b <;> simp

theorem noS_of_ext {P0 sy0 P sy : Array Nat} (h : Ext P0 sy0 P sy) (h0 : sy0.size = P0.size) (hn : noS sy) : noS sy0 := by
  intro x hx
  obtain ⟨i, hi, e⟩ := mem_toList_iff_get.mp hx
  obtain ⟨h1, h2, h3⟩ := h
  apply hn x
  refine mem_toList_iff_get.mpr ⟨i, by omega, ?_⟩
  rw [(h3 i (by omega)).2, e]

/-- a completed call appends its start index -/
theorem callStarts_ext {P0 sy0 P sy : Array Nat} {from_ : Nat} (h : Ext P0 sy0 P sy) (h0 : sy0.size = P0.size)
    (hd : Done P0.size from_ sy P) (hlast : sy0.size = 0 ∨ sy0[sy0.size - 1]! = topoE) :
    callStarts sy = callStarts sy0 ++ [sy0.size] := by
  obtain ⟨h1, h2, h3⟩ := h
  obtain ⟨d1, _, d3, _⟩ := hd
  unfold callStarts
  have e : sy.size = sy0.size + (sy.size - sy0.size) := by omega
  rw [e, List.range_add, List.filter_append]
  congr 1
  · apply List.filter_congr
    intro i hi
    rw [List.mem_range] at hi
    by_cases e0 : i = 0
    · simp [e0]
    · have := (h3 (i - 1) (by omega)).2
      simp only [e0, false_or, this]
  · have hpos : 0 < sy.size - sy0.size := by omega
    obtain ⟨d, hd'⟩ : ∃ d, sy.size - sy0.size = d + 1 := ⟨sy.size - sy0.size - 1, by omega⟩
    rw [hd', List.range_succ_eq_map, List.map_cons, List.filter_cons]
    have hp : (decide ((sy0.size + 0 = 0) ∨ sy[sy0.size + 0 - 1]! = topoE)) = true := by
      rw [decide_eq_true_iff, Nat.add_zero]
      by_cases z : sy0.size = 0
      · exact Or.inl z
      · right
        rcases hlast with e0 | e0
        · exact absurd e0 z
        · rw [(h3 (sy0.size - 1) (by omega)).2]; exact e0
    rw [if_pos hp, Nat.add_zero]
    congr 1
    rw [List.filter_eq_nil_iff]
    intro i hi
    rw [List.mem_map] at hi
    obtain ⟨a, ha, rfl⟩ := hi
    rw [List.mem_map] at ha
    obtain ⟨a', ha', rfl⟩ := ha
    rw [List.mem_range] at ha'
    simp only [decide_eq_true_eq, not_or]
    refine ⟨by omega, ?_⟩
    exact d3 (sy0.size + (a' + 1) - 1) (by omega) (by omega)

/-- **positions**: one call per start-face flag, the calls are the blocks of symbols that end with `E`, and an interior
    start face (gate corner `ifc[nTrue sfs k]`) is glued to the first corner its call processed -/
def OPos (t : CT) (s : OSt) : Prop :=
  s.2.2.2.2.1.size = s.2.2.2.2.2.2.2.1.size ∧
  s.2.2.2.2.2.2.2.2.1.size = nTrue s.2.2.2.2.2.2.1 s.2.2.2.2.2.2.1.size ∧
  (noS s.2.2.2.2.1 → (callStarts s.2.2.2.2.1).length = s.2.2.2.2.2.2.1.size ∧
    (s.2.2.2.2.1.size = 0 ∨ s.2.2.2.2.1[s.2.2.2.2.1.size - 1]! = topoE) ∧
    ∀ k, k < s.2.2.2.2.2.2.1.size → s.2.2.2.2.2.2.1[k]! = true →
      nTrue s.2.2.2.2.2.2.1 k < s.2.2.2.2.2.2.2.2.1.size ∧ (callStarts s.2.2.2.2.1)[k]! < s.2.2.2.2.2.2.2.1.size ∧
      t.opp[s.2.2.2.2.2.2.2.2.1[nTrue s.2.2.2.2.2.2.1 k]!]! = s.2.2.2.2.2.2.2.1[(callStarts s.2.2.2.2.1)[k]!]!)

/-- the common end of the two branches of a step: a call from `from_` with the flag `b` and the init faces `ifc'` -/
theorem opos_after_call {t : CT} {sy P ifc ifc' : Array Nat} {sfs : Array Bool} {b : Bool} {from_ : Nat} (s' : OSt)
    (hsz : sy.size = P.size) (hifc : ifc.size = nTrue sfs sfs.size)
    (hK : noS sy → (callStarts sy).length = sfs.size ∧ (sy.size = 0 ∨ sy[sy.size - 1]! = topoE) ∧
      ∀ k, k < sfs.size → sfs[k]! = true → nTrue sfs k < ifc.size ∧ (callStarts sy)[k]! < P.size ∧
        t.opp[ifc[nTrue sfs k]!]! = P[(callStarts sy)[k]!]!)
    (hE : Ext P sy s'.2.2.2.2.2.2.2.1 s'.2.2.2.2.1)
    (hD : noS s'.2.2.2.2.1 → Done P.size from_ s'.2.2.2.2.1 s'.2.2.2.2.2.2.2.1)
    (hsfs : s'.2.2.2.2.2.2.1 = sfs.push b) (hI : s'.2.2.2.2.2.2.2.2.1 = ifc')
    (hifc' : (b = false ∧ ifc' = ifc) ∨ (b = true ∧ ∃ g, ifc' = ifc.push g ∧ t.opp[g]! = from_)) :
    OPos t s' := by
  have hsz' := hE.2.1
  refine ⟨hsz', ?_, ?_⟩
  · rw [hsfs, hI, Array.size_push, nTrue_all_push, ← hifc]
    rcases hifc' with ⟨e1, e2⟩ | ⟨e1, g, e2, _⟩
    · rw [e1, e2]; simp
    · rw [e1, e2]; simp
  · intro hn
    have hn0 := noS_of_ext hE hsz hn
    obtain ⟨k1, k2, k3⟩ := hK hn0
    have hd := hD hn
    have hcs := callStarts_ext hE hsz hd k2
    rw [hcs, hsfs, hI]
    refine ⟨by simp [k1], Or.inr hd.2.1, ?_⟩
    intro k hk hflag
    rw [Array.size_push] at hk
    by_cases hlast : k = sfs.size
    · -- the new call
      rw [hlast] at hflag ⊢
      rw [bpush_get, if_pos rfl] at hflag
      rcases hifc' with ⟨e1, _⟩ | ⟨_, g, e2, e3⟩
      · rw [e1] at hflag; cases hflag
      · rw [nTrue_push _ _ _ (Nat.le_refl _), ← hifc, e2]
        have ecs : (callStarts sy ++ [sy.size])[sfs.size]! = sy.size := by
          rw [← k1]
          simp
        rw [ecs, push_get!, if_pos rfl, e3, hsz]
        exact ⟨by simp, by have := hd.1; omega, hd.2.2.2.symm⟩
    · have hk' : k < sfs.size := by omega
      rw [bpush_get, if_neg (by omega)] at hflag
      obtain ⟨g1, g2, g3⟩ := k3 k hk' hflag
      have ecs : (callStarts sy ++ [sy.size])[k]! = (callStarts sy)[k]! := by
        rw [getElem!_pos _ k (by simp; omega), getElem!_pos _ k (by omega),
          List.getElem_append_left (by omega)]
      rw [nTrue_push _ _ _ (by omega), ecs, (hE.2.2 _ g2).1]
      have hle := hE.1
      rcases hifc' with ⟨_, e2⟩ | ⟨_, g, e2, _⟩
      · rw [e2]; exact ⟨g1, by omega, g3⟩
      · rw [e2, push_get!, if_neg (by omega)]
        exact ⟨by simp; omega, by omega, g3⟩


theorem outerBody_pos {t : CT} (hT : TblOK t) {holeId : Array Nat} (hH : HolesOK t holeId) {valence : Bool}
    (cId : Nat) (s : OSt) (r : ForInStep OSt) (hcId : cId < t.numCorners)
    (hI : Coverage.OInv t s) (hP : OPos t s)
    (hb : outerBody t holeId valence t.numFaces cId s = .ok r) :
    ∃ s', r = .yield s' ∧ OPos t s' := by
  obtain ⟨vf, vv, vh, val, sy, sf, sfs, P, ifc, sp, f2s, ls, nss⟩ := s
  obtain ⟨hIO, hClosed⟩ := hI
  have hInv : Inv t vf vv P ifc := hIO
  have hCl : Closed t vf := hClosed
  obtain ⟨hsz, hifc, hK⟩ := hP
  dsimp only at hsz hifc hK
  have hk := hT.ctok
  have h3 := hk.three
  have hfit := hk.fits
  have hf : cId / 3 < t.numFaces := by
    have : cId < t.c2v.size := hcId
    omega
  unfold outerBody at hb
  obtain ⟨b, hb1, hb⟩ := (bind_ok_iff _ _ _).mp hb
  rcases ite_ok hb with ⟨hvis, hb⟩ | ⟨hnv, hb⟩
  · exact ⟨_, pure_ok hb, hsz, hifc, hK⟩
  obtain ⟨d, hd, hb⟩ := (bind_ok_iff _ _ _).mp hb
  have ed := isDegenerated_ok hk hf hd
  rcases ite_ok hb with ⟨hdt, hb⟩ | ⟨hnd, hb⟩
  · exact ⟨_, pure_ok hb, hsz, hifc, hK⟩
  have hun : vf.getD (cId / 3) false = false := by
    rw [(rdB_get hb1).2]; simpa using hnv
  have hnd' : isDegenA t.c2v (cId / 3) = false := by
    rw [← ed]; simpa using hnd
  obtain ⟨x, hx, hb⟩ := (bind_ok_iff _ _ _).mp hb
  obtain ⟨interior, sc⟩ := x
  obtain ⟨hsp1, hsp2⟩ := findInit_spec hk hf hx
  obtain ⟨hsp1', hlink⟩ := findInit_spec' hT hf hx
  simp only [] at hb
  rcases ite_ok hb with ⟨hint, hb⟩ | ⟨hnint, hb⟩
  · -- an interior start face
    have hsc := hsp1 hint
    obtain ⟨_, hnb⟩ := hsp1' hint
    have hsclt : sc < t.c2v.size := by omega
    have hsci : sc < inv := by omega
    have en : Eb.nextC sc = 3 * (cId / 3) + 1 := by rw [nextC_cf sc hsci, hsc]; split <;> omega
    have ep : Eb.prevC sc = 3 * (cId / 3) + 2 := by rw [prevC_cf sc hsci, hsc]; split <;> omega
    obtain ⟨v0, hv0, hb⟩ := (bind_ok_iff _ _ _).mp hb
    obtain ⟨v1, hv1, hb⟩ := (bind_ok_iff _ _ _).mp hb
    obtain ⟨v2, hv2, hb⟩ := (bind_ok_iff _ _ _).mp hb
    obtain ⟨vv1, hvv1, hb⟩ := (bind_ok_iff _ _ _).mp hb
    obtain ⟨vv2, hvv2, hb⟩ := (bind_ok_iff _ _ _).mp hb
    obtain ⟨vv3, hvv3, hb⟩ := (bind_ok_iff _ _ _).mp hb
    obtain ⟨vf', hvf', hb⟩ := (bind_ok_iff _ _ _).mp hb
    obtain ⟨oppId, hopp, hb⟩ := (bind_ok_iff _ _ _).mp hb
    obtain ⟨b2, hb2, hb⟩ := (bind_ok_iff _ _ _).mp hb
    obtain ⟨_, e0⟩ := vertex_get (by omega) hv0
    obtain ⟨_, e1⟩ := vertex_get (by rw [en, inv_eq]; rw [inv_eq] at hfit; omega) hv1
    obtain ⟨_, e2⟩ := vertex_get (by rw [ep, inv_eq]; rw [inv_eq] at hfit; omega) hv2
    obtain ⟨l1, s1⟩ := wrB_get hvv1
    obtain ⟨l2, s2⟩ := wrB_get hvv2
    obtain ⟨l3, s3⟩ := wrB_get hvv3
    obtain ⟨lf, sf'⟩ := wrB_get hvf'
    have m1 : Mono vv vv1 := by rw [s1]; exact Mono.set _ _
    have m2 : Mono vv1 vv2 := by rw [s2]; exact Mono.set _ _
    have m3 : Mono vv2 vv3 := by rw [s3]; exact Mono.set _ _
    have g0 : vv3.getD (vget t.c2v sc) false = true := by
      apply m3.2; apply m2.2
      rw [s1, e0, bget_set' _ _ _ _ l1, if_pos rfl]
    have g1 : vv3.getD (vget t.c2v (Eb.nextC sc)) false = true := by
      apply m3.2
      rw [s2, e1, bget_set' _ _ _ _ l2, if_pos rfl]
    have g2 : vv3.getD (vget t.c2v (Eb.prevC sc)) false = true := by
      rw [s3, e2, bget_set' _ _ _ _ l3, if_pos rfl]
    have hdiv : Eb.nextC sc / 3 = cId / 3 := by rw [en]; omega
    have hInv' : Inv t vf' vv3 P (ifc.push (Eb.nextC sc)) := by
      rw [sf', ← hdiv]
      apply hInv.visit (Eb.nextC sc) (by rw [hdiv]; exact lf) (by rw [hdiv]; exact hun) (by rw [hdiv]; exact hnd')
        (m1.trans (m2.trans m3)) ?_ (countP_pushI P ifc (Eb.nextC sc))
      intro k hk3
      rw [hdiv]
      have : k = 0 ∨ k = 1 ∨ k = 2 := by omega
      rcases this with e | e | e
      · rw [e, Nat.add_zero, ← hsc]; exact g0
      · rw [e, ← en]; exact g1
      · rw [e, ← ep]; exact g2
    have hco : CornerOK t vv3 oppId := (opp_cornerOK hk hsclt (Or.inl rfl) hopp g0 g1 g2).1
    -- the neighbour the call starts in exists and is not visited
    have hnlt : Eb.nextC sc < t.numCorners := hk.next_lt hsclt
    have eo : t.opp[Eb.nextC sc]! = oppId := by
      rw [← vget_eq]; exact (opposite_get (hT.base.ne_inv hnlt) hopp).2
    have hoi : oppId ≠ inv := by
      rw [← eo, en]; exact (hnb 1 (by omega)).1
    obtain ⟨holt, hoo⟩ := hT.base.invol _ hnlt (by rw [eo]; exact hoi)
    rw [eo] at holt hoo
    have hoface : oppId / 3 ≠ cId / 3 := by
      have := hk.oppface _ hnlt (by rw [vget_eq, eo]; exact hoi)
      rw [vget_eq, eo, hdiv] at this
      exact this
    have hunopp : vf'.getD (oppId / 3) false = false := by
      rw [sf', bget_set' _ _ _ _ lf, if_neg hoface]
      cases hv : vf.getD (oppId / 3) false with
      | false => rfl
      | true =>
        rcases hCl oppId holt hv with e | e
        · rw [hoo] at e; exact absurd e (hT.base.ne_inv hnlt)
        · rw [hoo, hdiv, hun] at e; cases e
    have hb2f : b2 = false := by
      have := (rdB_get hb2).2
      rw [faceOf_ne hoi, hunopp] at this
      exact this.symm
    rcases ite_ok hb with ⟨_, hb⟩ | ⟨hncond, hb⟩
    · obtain ⟨s', e, hE, hD⟩ := outerTail_pos hT hH hInv' hco hoi hunopp hsz hb
      obtain ⟨s'', e', h1, h2⟩ := outerTail_pass hb
      rw [e] at e'; cases e'
      exact ⟨s', e, opos_after_call s' hsz hifc hK hE hD h1 h2 (Or.inr ⟨hint, _, rfl, eo⟩)⟩
    · exfalso
      apply hncond
      have c1 : (faceOf oppId != inv) = true := by
        rw [faceOf_ne hoi]
        have : oppId < t.c2v.size := holt
        simp; omega
      rw [c1, hb2f]; rfl
  · -- a face at a hole
    have hifalse : interior = false := by simpa using hnint
    have hst := hsp2 hifalse
    obtain ⟨hsclt, hso, hsnd⟩ := hst
    have hsci : sc < inv := by omega
    obtain ⟨x2, hx2, hb⟩ := (bind_ok_iff _ _ _).mp hb
    obtain ⟨vv', vh'⟩ := x2
    obtain ⟨hm, hg⟩ := encodeHole_spec hx2
    simp only [] at hb
    have hnl : Eb.nextC sc < inv := Eb.nextC_lt sc hsci
    obtain ⟨g1, g2⟩ := hg rfl hnl (by rw [prevC_nextC' sc hsci]; exact hso)
    rw [prevC_nextC' sc hsci] at g2
    have hco : CornerOK t vv' sc := by
      refine Or.inr ⟨hsclt, ?_, g1, g2⟩
      rcases hsnd with e | e
      · rw [e]; exact hnd'
      · exact e
    have hunsc : vf.getD (sc / 3) false = false := by
      cases hv : vf.getD (sc / 3) false with
      | false => rfl
      | true =>
        have := hlink hifalse vf hCl hv
        rw [hun] at this; cases this
    obtain ⟨s', e, hE, hD⟩ := outerTail_pos hT hH (hInv.mono hm) hco (by omega) hunsc hsz hb
    obtain ⟨s'', e', h1, h2⟩ := outerTail_pass hb
    rw [e] at e'; cases e'
    exact ⟨s', e, opos_after_call s' hsz hifc hK hE hD h1 h2 (Or.inl ⟨hifalse, rfl⟩)⟩


/-! ## the trace with interior start faces -/

/-- the components in stack-pop order: the start-face flag and the last decoder index of the component -/
def startsOf (sy : Array Nat) (sfs : Array Bool) : List (Bool × Nat) :=
  List.zip sfs.toList ((callStarts sy).map (sy.size - 1 - ·))

theorem compEnds_eq (sy : Array Nat) : compEnds sy.toList.reverse = (callStarts sy).map (sy.size - 1 - ·) := by
  obtain ⟨_, _, _, _, vE⟩ := topo_vals
  unfold compEnds callStarts
  have hlen : sy.toList.reverse.length = sy.size := by simp
  have ef : (fun x => 0 + sy.size - 1 - x) = (fun x => sy.size - 1 - x) := by funext x; omega
  rw [hlen, ← List.filter_reverse, List.range_eq_range', List.reverse_range', ef, List.filter_map]
  congr 1
  rw [← List.range_eq_range']
  apply List.filter_congr
  intro i hi
  rw [List.mem_range] at hi
  simp only [Function.comp, Nat.zero_add]
  by_cases e0 : i = 0
  · subst e0
    have : sy.size - 1 - 0 + 1 = sy.size := by omega
    simp only [this, true_or, decide_true]
  · have e1 : sy.size - 1 - i + 1 = sy.size - i := by omega
    have e2 : sy.toList.reverse[sy.size - i]! = sy[i - 1]! := by
      rw [list_reverse_get! _ _ (by simp; omega), toList_get!]
      congr 1
      simp; omega
    have e3 : ¬ (sy.size - i = sy.size) := by omega
    rw [e1, e2, vE]
    simp [e0, e3]

theorem traceI_of_state {t : CT} (hT : TblOK t) {holeId : Array Nat} (hH : HolesOK t holeId) {vf vv : Array Bool}
    {P sy : Array Nat} {sfs : Array Bool} (hInv : Inv t vf vv P I) (hcl : Closed t vf)
    (hTr : TrInv t holeId I vf P sy inv) (hIO : InitOK t holeId vf I)
    (hifc : I.size = nTrue sfs sfs.size)
    (hcs : (callStarts sy).length = sfs.size)
    (hgate : ∀ k, k < sfs.size → sfs[k]! = true → nTrue sfs k < I.size ∧ (callStarts sy)[k]! < P.size ∧
      t.opp[I[nTrue sfs k]!]! = P[(callStarts sy)[k]!]!)
    (hnoS : ∀ x, x ∈ sy.toList → x ≠ topoS) :
    TraceI t (P.reverse ++ I) sy.toList.reverse (startsOf sy sfs) := by
  have hk := hT.ctok
  obtain ⟨a1, a2, a3, a4⟩ := traceI_face_of_state hT hH hInv hcl hTr hnoS
  have hsz := hTr.sz
  have hlen : (sfs.toList).length = ((callStarts sy).map (sy.size - 1 - ·)).length := by simp [hcs]
  have hfst : (startsOf sy sfs).map (·.1) = sfs.toList := by
    unfold startsOf; rw [List.map_fst_zip]; rw [hlen]
  have hsnd : (startsOf sy sfs).map (·.2) = (callStarts sy).map (sy.size - 1 - ·) := by
    unfold startsOf; rw [List.map_snd_zip]; rw [hlen]
  have hslen : (startsOf sy sfs).length = sfs.size := by
    unfold startsOf; simp [hcs]
  have hfilt : ∀ l : List (Bool × Nat), (l.filter (·.1)).length = ((l.map (·.1)).filter (· = true)).length := by
    intro l
    induction l with
    | nil => rfl
    | cons x l ih =>
      simp only [List.filter_cons, List.map_cons]
      cases hx : x.1 <;> simp [hx, ih]
  have hget1 : ∀ k, k < sfs.size → (startsOf sy sfs)[k]!.1 = sfs[k]! := by
    intro k hk'
    have this : ((startsOf sy sfs).map (·.1))[k]! = sfs.toList[k]! := by rw [hfst]
    rw [getElem!_pos _ k (by simp [hslen]; exact hk'), List.getElem_map] at this
    rw [getElem!_pos _ k (by rw [hslen]; exact hk'), this, getElem!_pos sfs.toList k (by simpa using hk'),
      getElem!_pos sfs k hk', Array.getElem_toList]
  have hget2 : ∀ k, k < sfs.size → (startsOf sy sfs)[k]!.2 = sy.size - 1 - (callStarts sy)[k]! := by
    intro k hk'
    have this : ((startsOf sy sfs).map (·.2))[k]! = ((callStarts sy).map (sy.size - 1 - ·))[k]! := by rw [hsnd]
    rw [getElem!_pos _ k (by simp [hslen]; exact hk'), List.getElem_map] at this
    rw [getElem!_pos _ k (by rw [hslen]; exact hk'), this, getElem!_pos _ k (by simp [hcs]; exact hk'),
      List.getElem_map, getElem!_pos (callStarts sy) k (by rw [hcs]; exact hk')]
  have htake : ∀ k, k ≤ sfs.size → (((startsOf sy sfs).take k).filter (·.1)).length = nTrue sfs k := by
    intro k hk'
    rw [hfilt, List.map_take, hfst]
    rfl
  refine ⟨?_, a3, a4, by rw [hsnd, compEnds_eq], ?_⟩
  · rw [a1, a2, hifc, hfilt, hfst]
    unfold nTrue
    rw [List.take_of_length_le (by simp)]
  · intro k hk' hflag
    rw [hslen] at hk'
    rw [hget1 k hk'] at hflag
    obtain ⟨g1, g2, g3⟩ := hgate k hk' hflag
    unfold initIndex
    rw [htake k (by omega), hget2 k hk', a1]
    have hPi := app_right P I (nTrue sfs k)
    have hlenr : sy.toList.reverse.length = P.size := a1
    obtain ⟨b1, b2, b3⟩ := hIO.1 _ g1
    have hgi := hT.lt_inv b1
    have hnd := hInv.nd _ b2
    have hn := hk.next_lt b1
    have hp := hk.prev_lt b1
    have hfan : ∀ x, x < t.numCorners → x / 3 = I[nTrue sfs k]! / 3 → FanEarlier t (P.reverse ++ I) P.size x := by
      intro x hx hxf
      obtain ⟨m, m1, m2, m3, m4⟩ := fan_of_init hT hH hInv hcl hIO g1 hx hxf
      refine ⟨m, by rw [a2]; omega, m1, m3, ?_⟩
      intro j hj1 hj2
      obtain ⟨n1, i', n2, n3⟩ := m4 j hj1 hj2
      refine ⟨n1, P.size - 1 - i', by omega, ?_⟩
      rw [app_left P I _ (by omega), show P.size - 1 - (P.size - 1 - i') = i' by omega, n3]
    unfold InitAt
    rw [hPi]
    refine ⟨b1, nondeg_three hgi (hT.lt_inv hn) (hT.lt_inv hp) hnd, by rw [hsz]; omega, ?_, hfan _ b1 rfl,
      hfan _ hn (nextC_div3 _ hgi), hfan _ hp (prevC_div3 _ hgi)⟩
    rw [g3, hsz, app_left P I _ (by omega)]
    congr 1
    omega


theorem initOK_init (t : CT) (holeId : Array Nat) (vf : Array Bool) : InitOK t holeId vf #[] :=
  ⟨fun k hk => by simp at hk, fun k k' hk => by simp at hk⟩

/-- **traceI_of_run**: a successful `encodeConnectivity` (standard traversal, no attribute data) without a symbol `S` —
    ARBITRARY start faces — satisfies the abstract trace `DecSim.TraceI`: `conn.processed` are the gate corners in decoder
    order (symbols, then the interior start faces), the reversed `conn.symbols` the symbols in decoder order, and
    `startsOf conn.symbols conn.startFaces` the components in stack-pop order (flag, last decoder index) -/
theorem traceI_of_run (ch : ConnChoices) (pf : Faces) (conn : ConnEnc)
    (h : encodeConnectivity ch false pf #[] = .ok conn)
    (hnoS : ∀ x, x ∈ conn.symbols.toList → x ≠ topoS) :
    TblOK conn.ct ∧
    TraceI conn.ct conn.processed conn.symbols.toList.reverse (startsOf conn.symbols conn.startFaces) := by
  have hrun := h
  rw [encodeConnectivity_eq] at hrun
  split at hrun
  · rename_i table hcreate
    have hT := tblOK_ofTable hcreate
    have hcov := cover_ofTable hcreate
    simp only [] at hrun
    rcases ite_ok hrun with ⟨_, hrun⟩ | ⟨_, hrun⟩
    · exact (throw_bind_ne hrun).elim
    obtain ⟨x, hx, hrun⟩ := (bind_ok_iff _ _ _).mp hrun
    have hH : HolesOK (CT.ofTable table) x.1 := findHoles_spec hT (nh := x.2) hx
    obtain ⟨atts, _, hrun⟩ := (bind_ok_iff _ _ _).mp hrun
    obtain ⟨val, hrun⟩ := ite_bind_both hrun
    obtain ⟨s, hloop, hrun⟩ := (bind_ok_iff _ _ _).mp hrun
    have hI : (Coverage.OInv (CT.ofTable table) s ∧
        TrInv (CT.ofTable table) x.1 s.2.2.2.2.2.2.2.2.1 s.1 s.2.2.2.2.2.2.2.1 s.2.2.2.2.1 inv ∧
        InitOK (CT.ofTable table) x.1 s.1 s.2.2.2.2.2.2.2.2.1 ∧ OPos (CT.ofTable table) s) ∨ False := by
      refine range_loop _ _
        (fun _ s => Coverage.OInv (CT.ofTable table) s ∧
          TrInv (CT.ofTable table) x.1 s.2.2.2.2.2.2.2.2.1 s.1 s.2.2.2.2.2.2.2.1 s.2.2.2.2.1 inv ∧
          InitOK (CT.ofTable table) x.1 s.1 s.2.2.2.2.2.2.2.2.1 ∧ OPos (CT.ofTable table) s)
        (fun _ => False) ?_ _ s ?_ hloop
      · intro j s r hj ⟨hO, hTr, hC, hP⟩ hr
        left
        obtain ⟨s', e, hO', _, _⟩ := outerBody_cov hT hH j s r hj hO hr
        obtain ⟨s'', e', hTr'⟩ := outerBody_tr hT hH hcov j s r hj hO hTr hr
        obtain ⟨s3, e3, hC'⟩ := outerBody_init hT hH hcov j s r hj hO hC hr
        obtain ⟨s4, e4, hP'⟩ := outerBody_pos hT hH j s r hj hO hP hr
        rw [e] at e' e3 e4; cases e'; cases e3; cases e4
        exact ⟨s', e, hO', hTr', hC', hP'⟩
      · refine ⟨⟨inv_init (CT.ofTable table) _ _ rfl, closed_init _ _⟩, trInv_init _ _ _, initOK_init _ _ _, rfl, rfl, ?_⟩
        intro _
        exact ⟨rfl, Or.inl rfl, fun k hk => by simp at hk⟩
    obtain ⟨hO, hTr, hC, hP⟩ := hI.resolve_right (fun h => h)
    obtain ⟨vf, vv, vh, val2, sy, sf, sfs, P, ifc, sp, f2s, ls, nss⟩ := s
    dsimp only at hTr hC
    obtain ⟨_, p2, p3⟩ := hP
    dsimp only at p2 p3
    obtain ⟨sb, _, hrun⟩ := (bind_ok_iff _ _ _).mp hrun
    have hconn : conn.ct = CT.ofTable table ∧ conn.processed = P.reverse ++ ifc ∧ conn.symbols = sy ∧
        conn.startFaces = sfs := by
      rcases ite_ok hrun with ⟨_, hrun⟩ | ⟨_, hrun⟩
      · obtain ⟨cb, _, hrun⟩ := (bind_ok_iff _ _ _).mp hrun
        have := pure_ok hrun
        rw [this]
        exact ⟨rfl, rfl, rfl, rfl⟩
      · have := pure_ok hrun
        rw [this]
        exact ⟨rfl, rfl, rfl, rfl⟩
    obtain ⟨e1, e2, e3, e4⟩ := hconn
    have hInv : Inv (CT.ofTable table) vf vv P ifc := hO.1
    have hn : noS sy := by rw [← e3]; exact hnoS
    obtain ⟨q1, _, q3⟩ := p3 hn
    rw [e1, e2, e3, e4]
    exact ⟨hT, traceI_of_state hT hH hInv hO.2 hTr hC p2 q1 q3 hn⟩
  · simp only [throw, throwThe, MonadExceptOf.throw] at hrun
    cases hrun

/-- the start-face flags of the trace are the recorded start faces -/
theorem startsOf_flags (sy : Array Nat) (sfs : Array Bool) (h : (callStarts sy).length = sfs.size) :
    (startsOf sy sfs).map (·.1) = sfs.toList := by
  unfold startsOf
  rw [List.map_fst_zip]
  simp [h]

end Draco.EbEnc.EncTraceI
