import DracoModel.IO.Stl
import DracoProofs.IODedup
/-
  DracoProofs.IOStl — `StlDecoder ∘ StlEncoder` on the byte level.
-/
namespace Draco.IO
open Draco

theorem leBytes_length (w n : Nat) : (leBytes w n).length = w := by
  induction w generalizing n with
  | zero => rfl
  | succ w ih => simp [leBytes, ih]

theorem leVal_leBytes (w n : Nat) : leVal (leBytes w n) = n % 256 ^ w := by
  induction w generalizing n with
  | zero => simp [leBytes, leVal, Nat.mod_one]
  | succ w ih =>
    simp only [leBytes, leVal, ih]
    rw [Nat.pow_succ, Nat.mul_comm (256 ^ w) 256, Nat.mod_mul]

theorem drop_add_append {α : Type} (a t : List α) (n k : Nat) (h : a.length = n) :
    (a ++ t).drop (n + k) = t.drop k := by
  rw [List.drop_append, List.drop_eq_nil_of_le (by omega), List.nil_append]
  congr 1; omega

theorem take_left_eq {α : Type} (a t : List α) (n : Nat) (h : a.length = n) :
    (a ++ t).take n = a := by
  subst h; exact List.take_left

theorem drop_left_eq {α : Type} (a t : List α) (n : Nat) (h : a.length = n) :
    (a ++ t).drop n = t := by
  subst h; exact List.drop_left

namespace Stl

theorem v3Bytes_length (v : V3) : (v3Bytes v).length = 12 := by
  simp [v3Bytes, leBytes_length]

theorem header_length : header.length = 80 := by decide

/-- what `readFaces` extracts from the record of face `f` -/
def recOf (nrm : NormalFn) (pos : Attribute) (f : Nat × Nat × Nat) : Bytes × Bytes × Bytes × Bytes :=
  (v3Bytes (nrm (v3OfBytes (pos.ioPointValue f.1)) (v3OfBytes (pos.ioPointValue f.2.1))
      (v3OfBytes (pos.ioPointValue f.2.2))),
   pos.ioPointValue f.1, pos.ioPointValue f.2.1, pos.ioPointValue f.2.2)

theorem readFaces_record (n : Nat) (N p0 p1 p2 tail : Bytes)
    (hN : N.length = 12) (h0 : p0.length = 12) (h1 : p1.length = 12) (h2 : p2.length = 12) :
    readFaces (n + 1) (N ++ p0 ++ p1 ++ p2 ++ [0, 0] ++ tail) =
      match readFaces n tail with
      | .error e => .error e
      | .ok fs => .ok ((N, p0, p1, p2) :: fs) := by
  have hre : N ++ p0 ++ p1 ++ p2 ++ [0, 0] ++ tail = N ++ (p0 ++ (p1 ++ (p2 ++ ([0, 0] ++ tail)))) := by
    simp [List.append_assoc]
  rw [hre]
  have hlen : ¬ (N ++ (p0 ++ (p1 ++ (p2 ++ ([0, 0] ++ tail))))).length < 50 := by
    simp [hN, h0, h1, h2]; omega
  have d50 : (N ++ (p0 ++ (p1 ++ (p2 ++ ([0, 0] ++ tail))))).drop 50 = tail := by
    rw [show (50 : Nat) = 12 + (12 + (12 + (12 + 2))) from rfl]
    rw [drop_add_append _ _ 12 _ hN, drop_add_append _ _ 12 _ h0, drop_add_append _ _ 12 _ h1,
      drop_add_append _ _ 12 _ h2]
    rfl
  have t12 : (N ++ (p0 ++ (p1 ++ (p2 ++ ([0, 0] ++ tail))))).take 12 = N := take_left_eq _ _ 12 hN
  have d12 : ((N ++ (p0 ++ (p1 ++ (p2 ++ ([0, 0] ++ tail))))).drop 12).take 12 = p0 := by
    rw [drop_left_eq _ _ 12 hN, take_left_eq _ _ 12 h0]
  have d24 : ((N ++ (p0 ++ (p1 ++ (p2 ++ ([0, 0] ++ tail))))).drop 24).take 12 = p1 := by
    rw [show (24 : Nat) = 12 + 12 from rfl, drop_add_append _ _ 12 _ hN, drop_left_eq _ _ 12 h0,
      take_left_eq _ _ 12 h1]
  have d36 : ((N ++ (p0 ++ (p1 ++ (p2 ++ ([0, 0] ++ tail))))).drop 36).take 12 = p2 := by
    rw [show (36 : Nat) = 12 + (12 + 12) from rfl, drop_add_append _ _ 12 _ hN,
      drop_add_append _ _ 12 _ h0, drop_left_eq _ _ 12 h1, take_left_eq _ _ 12 h2]
  rw [readFaces]
  simp only [hlen, if_false, d50, t12, d12, d24, d36]
  rfl

/-- the body written by the encoder parses back to the list of face records -/
theorem readFaces_records (nrm : NormalFn) (pos : Attribute) (faces : List (Nat × Nat × Nat))
    (hlen : ∀ f ∈ faces, (pos.ioPointValue f.1).length = 12 ∧ (pos.ioPointValue f.2.1).length = 12 ∧
      (pos.ioPointValue f.2.2).length = 12) (rest : Bytes) :
    readFaces faces.length ((faces.map (faceRecord nrm pos)).flatten ++ rest) =
      .ok (faces.map (recOf nrm pos)) := by
  induction faces with
  | nil => simp [readFaces]
  | cons f fs ih =>
    obtain ⟨h0, h1, h2⟩ := hlen f (by simp)
    have ih' := ih (fun g hg => hlen g (by simp [hg]))
    simp only [List.map_cons, List.flatten_cons, List.length_cons]
    have : faceRecord nrm pos f ++ (fs.map (faceRecord nrm pos)).flatten ++ rest =
        (recOf nrm pos f).1 ++ pos.ioPointValue f.1 ++ pos.ioPointValue f.2.1 ++ pos.ioPointValue f.2.2 ++ [0, 0] ++
          ((fs.map (faceRecord nrm pos)).flatten ++ rest) := by
      simp [faceRecord, recOf, List.append_assoc]
    have hN : (recOf nrm pos f).1.length = 12 := v3Bytes_length _
    rw [this, readFaces_record fs.length (recOf nrm pos f).1 _ _ _ _ hN h0 h1 h2, ih']
    rfl

/-! ### the triangle soup -/

theorem flatMap3_getElem? {α β : Type} (a b c : α → β) : ∀ (fs : List α) (i : Nat) (x : α),
    fs[i]? = some x →
    (fs.flatMap (fun f => [a f, b f, c f]))[3 * i]? = some (a x) ∧
    (fs.flatMap (fun f => [a f, b f, c f]))[3 * i + 1]? = some (b x) ∧
    (fs.flatMap (fun f => [a f, b f, c f]))[3 * i + 2]? = some (c x) := by
  intro fs
  induction fs with
  | nil => intro i x h; simp at h
  | cons f fs ih =>
    intro i x h
    cases i with
    | zero => simp at h; subst h; simp
    | succ i =>
      simp only [List.getElem?_cons_succ] at h
      obtain ⟨h1, h2, h3⟩ := ih i x h
      have e0 : 3 * (i + 1) = (3 * i) + 3 := by omega
      have e1 : 3 * (i + 1) + 1 = (3 * i + 1) + 3 := by omega
      have e2 : 3 * (i + 1) + 2 = (3 * i + 2) + 3 := by omega
      simp only [List.flatMap_cons]
      refine ⟨?_, ?_, ?_⟩
      · rw [e0, List.getElem?_append_right (by simp)]; simpa using h1
      · rw [e1, List.getElem?_append_right (by simp)]; simpa using h2
      · rw [e2, List.getElem?_append_right (by simp)]; simpa using h3

theorem flatMap3_length {α β : Type} (a b c : α → β) (fs : List α) :
    (fs.flatMap (fun f => [a f, b f, c f])).length = 3 * fs.length := by
  induction fs with
  | nil => rfl
  | cons f fs ih => simp [List.flatMap_cons, ih]; omega

/-- an attribute whose value buffer is the concatenation of `L` (all entries `s` bytes, identity
    map) has `L[k]` as value of point `k` -/
theorem pointValue_of_flatten (a : Attribute) (L : List Bytes) (s : Nat) (hs : a.stride = s)
    (hmap : a.map = none) (hv : a.values = L.flatten) (hall : ∀ x ∈ L, x.length = s)
    (k : Nat) (x : Bytes) (hk : L[k]? = some x) : a.ioPointValue k = x := by
  have hklt : k < L.length := by
    by_contra hc; rw [List.getElem?_eq_none (by omega)] at hk; cases hk
  unfold Attribute.ioPointValue Attribute.ioMappedIndex Attribute.ioValueAt
  rw [hmap, hv, hs]
  simp only
  rw [flatten_chunk s L k hklt hall]
  rw [List.getElem?_eq_getElem hklt] at hk
  exact Option.some.inj hk

theorem flatten_length_of_all {β : Type} (s : Nat) (L : List (List β)) (h : ∀ x ∈ L, x.length = s) :
    L.flatten.length = L.length * s := by
  induction L with
  | nil => simp
  | cons x xs ih =>
    simp only [List.flatten_cons, List.length_append, List.length_cons]
    rw [ih (fun y hy => h y (by simp [hy])), h x (by simp), Nat.add_mul]; omega

theorem stride12 (a : Attribute) (hdt : a.dataType = dtFLOAT32) (hnc : a.numComponents = 3) :
    a.stride = 12 := by
  simp [Attribute.stride, hdt, hnc]

/-- lengths of the corner values of a float32×3 attribute -/
theorem corner_lengths (g : Geometry) (pos : Attribute) (hmem : pos ∈ g.atts)
    (hdt : pos.dataType = dtFLOAT32) (hnc : pos.numComponents = 3) (hvalid : g.valid = true) :
    ∀ f ∈ g.faces, (pos.ioPointValue f.1).length = 12 ∧ (pos.ioPointValue f.2.1).length = 12 ∧
      (pos.ioPointValue f.2.2).length = 12 := by
  have hok := attsOk_of_valid g hvalid pos hmem
  have hfr := facesInRange_of_valid g hvalid
  have hp : ∀ p, p < g.numPoints → (pos.ioPointValue p).length = 12 := by
    intro p hp
    rw [← stride12 pos hdt hnc]
    exact valueAt_length pos hok.stored _ (hok.inRange p hp)
  intro f hf
  obtain ⟨h1, h2, h3⟩ := hfr f hf
  exact ⟨hp _ h1, hp _ h2, hp _ h3⟩

/-- per-corner position values of the soup built from parsed records -/
theorem soup_cornerValues (fs : List (Bytes × Bytes × Bytes × Bytes))
    (hall : ∀ r ∈ fs, r.1.length = 12 ∧ r.2.1.length = 12 ∧ r.2.2.1.length = 12 ∧ r.2.2.2.length = 12)
    (pa : Attribute) (hpa : (soup fs).atts[0]? = some pa) :
    cornerValues pa (soup fs).faces = fs.map (fun r => (r.2.1, r.2.2.1, r.2.2.2)) := by
  have hpa' : pa = (soup fs).atts[0]'(by simp [soup]) := by
    simp [soup] at hpa ⊢; exact hpa.symm
  apply List.ext_getElem?
  intro i
  unfold cornerValues
  simp only [soup, List.getElem?_map]
  by_cases hi : i < fs.length
  · have hx : fs[i]? = some fs[i] := List.getElem?_eq_getElem hi
    obtain ⟨g0, g1, g2⟩ := flatMap3_getElem? (fun r : Bytes × Bytes × Bytes × Bytes => r.2.1)
      (fun r => r.2.2.1) (fun r => r.2.2.2) fs i fs[i] hx
    have hL : ∀ x ∈ fs.flatMap (fun r : Bytes × Bytes × Bytes × Bytes => [r.2.1, r.2.2.1, r.2.2.2]),
        x.length = 12 := by
      intro x hx
      simp only [List.mem_flatMap] at hx
      obtain ⟨r, hr, hxr⟩ := hx
      obtain ⟨-, a1, a2, a3⟩ := hall r hr
      simp at hxr
      rcases hxr with rfl | rfl | rfl <;> assumption
    have hst : pa.stride = 12 := by rw [hpa']; simp [soup, Attribute.stride]
    have hmap : pa.map = none := by rw [hpa']; simp [soup]
    have hv : pa.values = (fs.flatMap (fun r : Bytes × Bytes × Bytes × Bytes => [r.2.1, r.2.2.1, r.2.2.2])).flatten := by
      rw [hpa']; simp [soup]
    have p0 := pointValue_of_flatten pa _ 12 hst hmap hv hL (3 * i) _ g0
    have p1 := pointValue_of_flatten pa _ 12 hst hmap hv hL (3 * i + 1) _ g1
    have p2 := pointValue_of_flatten pa _ 12 hst hmap hv hL (3 * i + 2) _ g2
    simp [hi, p0, p1, p2]
  · simp [hi]

theorem soup_facesInRange (fs : List (Bytes × Bytes × Bytes × Bytes)) : facesInRange (soup fs) := by
  intro f hf
  simp only [soup, List.mem_map, List.mem_range] at hf
  obtain ⟨i, hi, rfl⟩ := hf
  simp only [soup]
  omega

theorem soup_attsOk (fs : List (Bytes × Bytes × Bytes × Bytes))
    (hall : ∀ r ∈ fs, r.1.length = 12 ∧ r.2.1.length = 12 ∧ r.2.2.1.length = 12 ∧ r.2.2.2.length = 12) :
    ∀ a ∈ (soup fs).atts, AttOk a (soup fs).numPoints := by
  intro a ha
  simp only [soup, List.mem_cons, List.not_mem_nil, or_false] at ha
  rcases ha with rfl | rfl
  · refine ⟨?_, by intro m hm; simp at hm, by intro p hp; simpa [Attribute.ioMappedIndex, soup] using hp⟩
    simp only [Attribute.stride, dataTypeLength_f32]
    rw [flatten_length_of_all 12, flatMap3_length]
    · simp
    · intro x hx
      simp only [List.mem_flatMap] at hx
      obtain ⟨r, hr, hxr⟩ := hx
      obtain ⟨-, a1, a2, a3⟩ := hall r hr
      simp at hxr
      rcases hxr with rfl | rfl | rfl <;> assumption
  · refine ⟨?_, by intro m hm; simp at hm, by intro p hp; simpa [Attribute.ioMappedIndex, soup] using hp⟩
    simp only [Attribute.stride, dataTypeLength_f32]
    rw [flatten_length_of_all 12, flatMap3_length]
    · simp
    · intro x hx
      simp only [List.mem_flatMap] at hx
      obtain ⟨r, hr, hxr⟩ := hx
      obtain ⟨a0, -, -, -⟩ := hall r hr
      simp at hxr
      subst hxr; exact a0

/-- **STL round trip, byte level** (any normal oracle, any trailing bytes). -/
theorem decode_encode (nrm : NormalFn) (g : Geometry) (pos : Attribute)
    (hmesh : g.isMesh = true) (hpos : g.ioNamedAtt tPOSITION = some pos)
    (hdt : pos.dataType = dtFLOAT32) (hnc : pos.numComponents = 3)
    (hvalid : g.valid = true) (hsize : 3 * g.faces.length < 2 ^ 31) (rest : Bytes) :
    ∃ bs g' pos', encodeWith nrm g = .ok bs ∧ decodeE (bs ++ rest) = .ok g' ∧
      g'.isMesh = true ∧ g'.faces.length = g.faces.length ∧ g'.atts.length = 2 ∧
      g'.atts[0]? = some pos' ∧ pos'.attType = tPOSITION ∧ pos'.dataType = dtFLOAT32 ∧
      pos'.numComponents = 3 ∧ cornerValues pos' g'.faces = cornerValues pos g.faces := by
  obtain ⟨hmem, -⟩ := namedAtt_mem g tPOSITION pos hpos
  have hcl := corner_lengths g pos hmem hdt hnc hvalid
  -- the encoder output
  have henc : encodeWith nrm g = .ok (header ++ leBytes 4 g.faces.length ++
      (g.faces.map (faceRecord nrm pos)).flatten) := by
    simp [encodeWith, hmesh, hpos, hdt, hnc, hvalid]
  -- the records read back
  let fs := g.faces.map (recOf nrm pos)
  have hfsall : ∀ r ∈ fs, r.1.length = 12 ∧ r.2.1.length = 12 ∧ r.2.2.1.length = 12 ∧ r.2.2.2.length = 12 := by
    intro r hr
    simp only [fs, List.mem_map] at hr
    obtain ⟨f, hf, rfl⟩ := hr
    obtain ⟨a1, a2, a3⟩ := hcl f hf
    exact ⟨v3Bytes_length _, a1, a2, a3⟩
  have hdec : decodeE (header ++ leBytes 4 g.faces.length ++ (g.faces.map (faceRecord nrm pos)).flatten ++ rest) =
      .ok (soup fs).ioDedupValues.ioDedupPointIds := by
    have hre : header ++ leBytes 4 g.faces.length ++ (g.faces.map (faceRecord nrm pos)).flatten ++ rest =
        header ++ (leBytes 4 g.faces.length ++ ((g.faces.map (faceRecord nrm pos)).flatten ++ rest)) := by
      simp [List.append_assoc]
    rw [hre]
    unfold decodeE
    have h6 : ((header ++ (leBytes 4 g.faces.length ++ ((g.faces.map (faceRecord nrm pos)).flatten ++ rest))).take 6
        == ascii "solid ") = false := by
      rw [List.take_append_of_le_length (by rw [header_length]; omega)]
      decide
    have hl : ¬ (header ++ (leBytes 4 g.faces.length ++ ((g.faces.map (faceRecord nrm pos)).flatten ++ rest))).length < 84 := by
      simp [header_length, leBytes_length]; omega
    have hn : leVal (((header ++ (leBytes 4 g.faces.length ++ ((g.faces.map (faceRecord nrm pos)).flatten ++ rest))).drop 80).take 4)
        = g.faces.length := by
      rw [drop_left_eq _ _ 80 header_length, take_left_eq _ _ 4 (leBytes_length 4 _), leVal_leBytes]
      apply Nat.mod_eq_of_lt
      have : (256 : Nat) ^ 4 = 2 ^ 32 := by decide
      omega
    have hd : (header ++ (leBytes 4 g.faces.length ++ ((g.faces.map (faceRecord nrm pos)).flatten ++ rest))).drop 84
        = (g.faces.map (faceRecord nrm pos)).flatten ++ rest := by
      rw [show (84 : Nat) = 80 + 4 from rfl, drop_add_append _ _ 80 _ header_length,
        drop_left_eq _ _ 4 (leBytes_length 4 _)]
    simp only [h6, Bool.false_eq_true, if_false, hl, hn, hd]
    rw [if_neg (by omega), readFaces_records nrm pos g.faces hcl rest]
  obtain ⟨pa, hpa⟩ : ∃ pa, (soup fs).atts[0]? = some pa := ⟨(soup fs).atts[0]'(by simp [soup]), by simp [soup]⟩
  obtain ⟨a', h1, h2, h3, h4, h5⟩ :=
    dedup_cornerValues (soup fs) (soup_facesInRange fs) (soup_attsOk fs hfsall) 0 pa hpa
  have hpa' : pa = (soup fs).atts[0]'(by simp [soup]) := by
    simp [soup] at hpa ⊢; exact hpa.symm
  refine ⟨_, _, a', henc, hdec, ?_, ?_, ?_, h1, ?_, ?_, ?_, ?_⟩
  · rw [dedup_isMesh]; rfl
  · rw [dedup_faces_length]; simp [soup, fs]
  · rw [dedup_atts_length]; rfl
  · rw [h3, hpa']; rfl
  · rw [h4, hpa']; rfl
  · rw [h5, hpa']; rfl
  · rw [h2, soup_cornerValues fs hfsall pa hpa]
    simp [fs, cornerValues, recOf]

end Stl
end Draco.IO
