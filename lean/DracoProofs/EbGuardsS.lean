import DracoProofs.EbTraceS4
import DracoProofs.EbDecSimS2
/-
  The decoder's checks `GuardsS` (DracoProofs/EbDecSimS2.lean) as a DECIDABLE statement about the pure states `StS j`:
  `GuardsSD` fixes the witnesses of `GuardS` (`b` = the stack top, `a` = `cornerAS`, `w` = the fuel-bounded swing-left walk
  `walkList` on the updated `opp`), so that concrete instances are discharged by `decide +kernel`
  (`guardsS_of_dec`, `annGuards`: the annulus).  `evSorted_of_evOK`: the event condition of `connMain_StS` from the trace.

  NOT DONE (time): `guardsS_of_trace` — `GuardsS` from `TblOK`, `TraceS` and `InvS`.  Everything except the walk is in
  `SFacts` / `sfacts_of` / `cornerB_of_stk` / `cornerA_of_stk_noev` / `cornerA_of_stk_ev` / `VInv.vlt` / `OInv.size`
  (`a ≠ b`, `a, b < 3 j`, both open, the three vertex ids `< vc.size`); the walk is `dLk` of EbTraceS3.lean on the UPDATED
  table: `dLk_spec` (corners `< 3 j`, constant label `vN`), `dLk_norep` (never back to `Next b`), termination before `j` steps
  as in `vN_ne_vP`, and "the walk visits ALL corners labelled `vN`" (`foldl set = mergeV`) needs the converse of `dLk_spec`
  (every corner of `vN` is on the walk from the right end: the cover property, not an invariant of EbDecSim) — this last
  point is why the checker below is the practical route for instances.
-/
namespace Draco.EbEnc.DecSim
open Draco Draco.EbEnc
open Draco.Eb (inv TopoSplit)

instance decWalk (next : Nat → Nat) : (x : Nat) → (w : List Nat) → Decidable (Walk next x w)
  | x, [] => by unfold Walk; infer_instance
  | x, y :: w => by
    unfold Walk
    exact @instDecidableAnd _ _ _ (@instDecidableAnd _ _ _ (decWalk next (next y) w))

/-- the corners of the walk along `next` from `x`, at most `fuel` of them -/
def walkList (next : Nat → Nat) : Nat → Nat → List Nat
  | 0, _ => []
  | fuel+1, x => if x = 4294967295 then [] else x :: walkList next fuel (next x)

/-- the body of `GuardS` for given witnesses -/
def GuardSBody (nf j : Nat) (s : DSS) (a b : Nat) (w : List Nat) : Prop :=
    3 * j + 2 < s.c2v.size ∧ s.opp.size = s.c2v.size ∧ s.c2v.size ≤ 4294967295 ∧ j < s.splitActive.size ∧
    0 < s.stack.size ∧ s.stack.back! = b ∧
    ((s.splitActive[j]! = 4294967295 ∧ 0 < s.stack.pop.size ∧ s.stack.pop.back! = a) ∨
      (s.splitActive[j]! ≠ 4294967295 ∧ s.splitActive[j]! = a)) ∧
    a ≠ b ∧ a < 3 * j ∧ b < 3 * j ∧ Eb.nextC a < 3 * j ∧ Eb.prevC a < 3 * j ∧ Eb.nextC b < 3 * j ∧ Eb.prevC b < 3 * j ∧
    s.opp[a]! = 4294967295 ∧ s.opp[b]! = 4294967295 ∧
    s.c2v[Eb.prevC a]! < s.vc.size ∧ s.c2v[Eb.nextC b]! < s.vc.size ∧ s.c2v[Eb.prevC b]! < s.vc.size ∧ s.vc.size < 4294967295 ∧
    Walk (fun x => Eb.nextC (glue (glue s.opp a (3 * j + 2)) b (3 * j + 1))[Eb.nextC x]!) (Eb.nextC b) w ∧
    w.length < 3 * nf + 1 ∧
    (∀ y, y ∈ w → y < s.c2v.size ∧ Eb.nextC y < s.c2v.size ∧
      Eb.nextC (glue (glue s.opp a (3 * j + 2)) b (3 * j + 1))[Eb.nextC y]! ≠ Eb.nextC b) ∧
    w.foldl (fun c y => c.setIfInBounds y s.c2v[Eb.prevC a]!)
        (((s.c2v.setIfInBounds (3 * j) s.c2v[Eb.prevC a]!).setIfInBounds (3 * j + 1) s.c2v[Eb.nextC a]!).setIfInBounds (3 * j + 2)
          s.c2v[Eb.prevC b]!) =
      mergeV (((s.c2v.setIfInBounds (3 * j) s.c2v[Eb.prevC a]!).setIfInBounds (3 * j + 1) s.c2v[Eb.nextC a]!).setIfInBounds (3 * j + 2)
          s.c2v[Eb.prevC b]!) s.c2v[Eb.nextC b]! s.c2v[Eb.prevC a]!

instance (nf j : Nat) (s : DSS) (a b : Nat) (w : List Nat) : Decidable (GuardSBody nf j s a b w) := by
  unfold GuardSBody; infer_instance

theorem guardS_of_body {nf j : Nat} {s : DSS} {a b : Nat} {w : List Nat} (h : GuardSBody nf j s a b w) : GuardS nf j s :=
  ⟨a, b, w, h⟩

/-- `GuardS` with the canonical witnesses: the stack top, `cornerAS`, the computed relabelling walk -/
def GuardSD (nf j : Nat) (s : DSS) : Prop :=
  GuardSBody nf j s (cornerAS j s) s.stack.back!
    (walkList (fun x => Eb.nextC (glue (glue s.opp (cornerAS j s) (3 * j + 2)) s.stack.back! (3 * j + 1))[Eb.nextC x]!)
      (3 * nf + 1) (Eb.nextC s.stack.back!))

instance (nf j : Nat) (s : DSS) : Decidable (GuardSD nf j s) := by unfold GuardSD; infer_instance

instance (nv j : Nat) (s : DSS) : Decidable (GuardE nv j s) := by unfold GuardE; infer_instance
instance (nv j : Nat) (s : DSS) : Decidable (GuardRL nv j s) := by unfold GuardRL; infer_instance
instance (j : Nat) (s0 : DS) : Decidable (GuardC j s0) := by unfold GuardC; infer_instance

/-- the decidable form of `GuardsS` -/
def GuardsSD (syms : List Nat) (evs : List TopoSplit) (nf nv j : Nat) : Prop :=
  (syms[j]! = 7 ∨ syms[j]! = 5 ∨ syms[j]! = 3 ∨ syms[j]! = 0 ∨ syms[j]! = 1) ∧
  (syms[j]! = 7 → GuardE nv j (StS syms evs nf nv j)) ∧
  (syms[j]! = 5 ∨ syms[j]! = 3 → GuardRL nv j (StS syms evs nf nv j)) ∧
  (syms[j]! = 0 → GuardC j (StS syms evs nf nv j).base) ∧
  (syms[j]! = 1 → GuardSD nf j (StS syms evs nf nv j))

instance (syms : List Nat) (evs : List TopoSplit) (nf nv j : Nat) : Decidable (GuardsSD syms evs nf nv j) := by
  unfold GuardsSD; infer_instance

theorem guardsS_of_dec {syms : List Nat} {evs : List TopoSplit} {nf nv j : Nat} (h : GuardsSD syms evs nf nv j) :
    GuardsS syms evs nf nv j :=
  ⟨h.1, h.2.1, h.2.2.1, h.2.2.2.1, fun hs => guardS_of_body (h.2.2.2.2 hs)⟩

/-- the event condition of `connMain_StS` from the one of the trace -/
theorem evSorted_of_evOK {syms : List Nat} {evs : List TopoSplit} (h : EvOK syms evs) : EvSorted syms evs := by
  obtain ⟨h1, _, h3⟩ := h
  refine ⟨List.pairwise_map.mp h3, ?_⟩
  intro ev hev
  obtain ⟨a, b, _, _, e⟩ := h1 ev hev
  exact ⟨a, by omega, e⟩

/-! ## `E / R / L` from the invariant; `C / S` as a decidable residue -/

open Draco.EbEnc.Coverage (TblOK) in
/-- the checks of `E`, `R`, `L` from the trace and the invariant -/
theorem guardERL_of_inv {t : CT} {P : Array Nat} {syms : List Nat} {evs : List TopoSplit} {starts : List (Bool × Nat)}
    (hT : TblOK t) (hTr : TraceS t P syms evs starts) {j : Nat} {s : DSS} (hI : InvS t P syms evs j s)
    (hj : j < syms.length) (nv : Nat) (hnv : 3 * P.size ≤ nv) :
    (syms[j]! = 7 → GuardE nv j s) ∧ (syms[j]! = 5 ∨ syms[j]! = 3 → GuardRL nv j s) := by
  have hC := hTr.ctx hT
  have hinv := hC.fits'
  have hi : inv = 4294967295 := rfl
  have hsz := hTr.size
  have hjP : j < P.size := by omega
  have hcs := hI.v.csize
  have hos := hI.o.size
  have hvs := hI.v.vsz
  refine ⟨fun _ => ⟨by omega, by omega, by omega⟩, ?_⟩
  intro h
  have hs : syms[j]! ≠ 1 := by omega
  obtain ⟨_, _, _, _, hR, hL, _, _⟩ := (hTr.face j hj).1 hs
  have hj0 : 0 < j := by
    rcases h with h | h
    · exact (hR h).1
    · exact (hL h).1
  have hIb : Inv t P j s.base := ⟨hI.o, hI.v, fun h0 => hI.k.top h0⟩
  obtain ⟨hs0, hA, hoA⟩ := hIb.active hC hjP hj0 (hTr.face (j - 1) (by omega)).gate
  have hA' : s.stack.back! = 3 * (j - 1) := hA
  have hs0' : 0 < s.stack.size := hs0
  have hoA' : s.opp[3 * (j - 1)]! = 4294967295 := hoA
  refine ⟨by omega, by omega, by omega, by omega, by omega, hs0', by omega, ?_, ?_, ?_, ?_⟩
  · rw [hA', nx0 _ (by omega)]; omega
  · rw [hA', pv0 _ (by omega)]; omega
  · rw [hA']; exact hoA'
  · rw [hA', pv0 _ (by omega)]; exact hI.v.vlt _ (by omega)

open Draco.EbEnc.Coverage (TblOK) in
/-- **`GuardsS` from the abstract trace**, with the checks of `C` and `S` (incl. the relabelling walk) as the DECIDABLE
    residue `hCS` about the pure states (discharged by `decide +kernel` on instances) -/
theorem guardsS_of_trace {t : CT} {P : Array Nat} {syms : List Nat} {evs : List TopoSplit} {starts : List (Bool × Nat)}
    (hT : TblOK t) (hTr : TraceS t P syms evs starts) (hn : P.size = syms.length) (nv : Nat) (hnv : 3 * P.size ≤ nv)
    (hCS : ∀ j, j < syms.length → (syms[j]! = 0 → GuardC j (StS syms evs P.size nv j).base) ∧
      (syms[j]! = 1 → GuardSD P.size j (StS syms evs P.size nv j))) :
    ∀ j, j < syms.length → GuardsS syms evs P.size nv j := by
  have hC := hTr.ctx hT
  have hfit : 3 * syms.length ≤ inv := by rw [← hn]; exact hC.fits'
  have hInv := inv_StS' hT hTr nv
    (fun j hj hI => stkInv_step hTr.evok (stkOK_of_traceAtS (hTr.face j hj)) hfit hI hj)
    (fun j hj hs hev hI => by
      obtain ⟨_, _, _, hA⟩ := (hTr.face j hj).2 hs
      obtain ⟨a, he, h1, h2, h3⟩ := cornerA_of_stk_ev hI hA hj hfit hev
      unfold cornerAS
      rw [he]
      exact ⟨h1, h2, h3⟩)
  intro j hj
  obtain ⟨gE, gRL⟩ := guardERL_of_inv hT hTr (hInv j (by omega)) hj nv hnv
  have hsym : syms[j]! = 7 ∨ syms[j]! = 5 ∨ syms[j]! = 3 ∨ syms[j]! = 0 ∨ syms[j]! = 1 := by
    by_cases hs : syms[j]! = 1
    · exact Or.inr (Or.inr (Or.inr (Or.inr hs)))
    · rcases ((hTr.face j hj).1 hs).2.2.2.2.2.2.2 with e | e | e | e
      · exact Or.inl e
      · exact Or.inr (Or.inl e)
      · exact Or.inr (Or.inr (Or.inl e))
      · exact Or.inr (Or.inr (Or.inr (Or.inl e)))
  exact ⟨hsym, gE, gRL, (hCS j hj).1, fun hs => guardS_of_body ((hCS j hj).2 hs)⟩

/-! ## instance: the annulus (the model's own run, one genuine split event) -/

/-- **the decoder's checks hold at every symbol of the annulus run** (kernel evaluation of the decidable form) -/
theorem annGuards : ∀ j, j < annConn.symbols.toList.reverse.length →
    GuardsS annConn.symbols.toList.reverse annConn.splits.toList.reverse annConn.processed.size 19 j := by
  have h : ∀ j, j < annConn.symbols.toList.reverse.length →
      GuardsSD annConn.symbols.toList.reverse annConn.splits.toList.reverse annConn.processed.size 19 j := by
    decide +kernel
  exact fun j hj => guardsS_of_dec (h j hj)

/-- the remaining hypotheses of `connMain_StS` for the annulus -/
theorem annSide : 3 * annConn.symbols.toList.reverse.length + 2 < 2 ^ 31 ∧
    EvSorted annConn.symbols.toList.reverse annConn.splits.toList.reverse ∧
    (StS annConn.symbols.toList.reverse annConn.splits.toList.reverse annConn.processed.size 19
      annConn.symbols.toList.reverse.length).vc.size ≤ 19 :=
  ⟨by decide +kernel, evSorted_of_evOK annTrace.evok, by decide +kernel⟩

end Draco.EbEnc.DecSim
