import DracoProofs.IODedup
/-
  DracoProofs.IODedupSep — after `DeduplicateAttributeValues` + `DeduplicatePointIds` no two
  distinct points carry the same values in all attributes ("seams are exactly where values
  differ"), and no value table contains the same value twice.
-/
namespace Draco.IO
open Draco

theorem nodup_map_inj {α β : Type} (f : α → β) (l : List α) (h : (l.map f).Nodup) (a b : α)
    (ha : a ∈ l) (hb : b ∈ l) (hab : f a = f b) : a = b :=
  List.inj_on_of_nodup_map h ha hb hab

/-- in an attribute whose table has no duplicates, equal values mean equal value indices -/
theorem valueAt_inj (a : Attribute) (h : a.ioTable.Nodup) (i j : Nat) (hi : i < a.numValues) (hj : j < a.numValues)
    (hv : a.ioValueAt i = a.ioValueAt j) : i = j := by
  unfold Attribute.ioTable at h
  exact nodup_map_inj a.ioValueAt (List.range a.numValues) h i j (by simpa using hi) (by simpa using hj) hv

/-- `DeduplicateValues` leaves a table without duplicates (for the data types it handles) -/
theorem dedupValues_table_nodup (a : Attribute) (hs : dedupSupported a = true)
    (hst : a.numValues * a.stride ≤ a.values.length) : a.ioDedupValues.ioTable.Nodup := by
  unfold Attribute.ioDedupValues
  by_cases h2 : (dedupTable a.ioTable).1.length = a.numValues
  · simp only [hs, Bool.not_true, Bool.false_eq_true, if_false, beq_iff_eq, h2, if_true]
    exact (dedupTable_length_eq a.ioTable (by rw [h2, table_length])).2
  · simp only [hs, Bool.not_true, Bool.false_eq_true, if_false, beq_iff_eq, h2]
    have hall : ∀ x ∈ (dedupTable a.ioTable).1, x.length = a.stride := by
      intro x hx
      exact table_all_length a hst x ((dedupTable_inv a.ioTable).sub.subset hx)
    -- the new table is the list of unique values
    have : ({ a with
        numValues := (dedupTable a.ioTable).1.length
        values := (dedupTable a.ioTable).1.flatten
        map := some (remap a.map (dedupTable a.ioTable).2) } : Attribute).ioTable = (dedupTable a.ioTable).1 := by
      apply List.ext_getElem
      · simp [Attribute.ioTable]
      · intro i h1 h2'
        simp only [Attribute.ioTable, List.getElem_map, List.getElem_range, Attribute.ioValueAt, Attribute.stride]
        have := flatten_chunk a.stride (dedupTable a.ioTable).1 i h2' hall
        simp only [Attribute.stride] at this
        exact this
    rw [this]
    exact (dedupTable_inv a.ioTable).nodup

/-- `DeduplicateValues` keeps an attribute storage-valid; identity-mapped attributes must have one
    value per point -/
theorem dedupValues_ok (a : Attribute) (n : Nat) (h : AttOk a n) (hid : a.map = none → a.numValues = n) :
    AttOk a.ioDedupValues n := by
  unfold Attribute.ioDedupValues
  by_cases h1 : dedupSupported a
  swap
  · simpa [h1] using h
  by_cases h2 : (dedupTable a.ioTable).1.length = a.numValues
  · simpa [h1, h2] using h
  simp only [h1, Bool.not_true, Bool.false_eq_true, if_false, beq_iff_eq, h2]
  have hall : ∀ x ∈ (dedupTable a.ioTable).1, x.length = a.stride := by
    intro x hx
    exact table_all_length a h.stored x ((dedupTable_inv a.ioTable).sub.subset hx)
  have hlen2 : (dedupTable a.ioTable).2.length = a.numValues := by
    rw [(dedupTable_inv a.ioTable).len, table_length]
  refine ⟨?_, ?_, ?_⟩
  · show (dedupTable a.ioTable).1.length * a.stride ≤ (dedupTable a.ioTable).1.flatten.length
    have : ∀ (L : List Bytes) (s : Nat), (∀ x ∈ L, x.length = s) → L.flatten.length = L.length * s := by
      intro L s hL
      induction L with
      | nil => simp
      | cons x xs ih =>
        simp only [List.flatten_cons, List.length_append, List.length_cons]
        rw [ih (fun y hy => hL y (by simp [hy])), hL x (by simp), Nat.add_mul]; omega
    rw [this _ _ hall]
    exact Nat.le_refl _
  · intro m hm
    simp only [Option.some.injEq] at hm
    subst hm
    unfold remap
    cases hmap : a.map with
    | none => simp only; rw [hlen2]; exact hid hmap
    | some m' => simp only [List.length_map]; exact h.mapLen m' hmap
  · intro p hp
    have hin := h.inRange p hp
    have hi : a.ioMappedIndex p < a.ioTable.length := by rw [table_length]; exact hin
    obtain ⟨k, hk1, hk2⟩ := dedupTable_get a.ioTable (a.ioMappedIndex p) hi
    have hklt : k < (dedupTable a.ioTable).1.length := by
      by_contra hc; rw [List.getElem?_eq_none (by omega)] at hk2; cases hk2
    show Attribute.ioMappedIndex _ p < (dedupTable a.ioTable).1.length
    have : ({ a with
        numValues := (dedupTable a.ioTable).1.length
        values := (dedupTable a.ioTable).1.flatten
        map := some (remap a.map (dedupTable a.ioTable).2) } : Attribute).ioMappedIndex p = k := by
      unfold Attribute.ioMappedIndex remap
      simp only
      cases hm : a.map with
      | none =>
        simp only [Attribute.ioMappedIndex, hm] at hk1
        simp [List.getD_eq_getElem?_getD, hk1]
      | some m =>
        have hpl : p < m.length := by rw [h.mapLen m hm]; exact hp
        simp only [Attribute.ioMappedIndex, hm] at hk1
        simp [List.getD_eq_getElem?_getD, List.getElem?_map, List.getElem?_eq_getElem hpl] at hk1 ⊢
        simp [hk1]
    rw [this]; exact hklt

/-- **`DeduplicatePointIds` separates points**: afterwards two points with the same value index in
    every attribute are the same point. -/
theorem dedupPointIds_separates (g : Geometry) (p q : Nat) (hp : p < g.ioDedupPointIds.numPoints)
    (hq : q < g.ioDedupPointIds.numPoints)
    (h : ∀ (k : Nat) (a' : Attribute), g.ioDedupPointIds.atts[k]? = some a' → a'.ioMappedIndex p = a'.ioMappedIndex q) :
    p = q := by
  unfold Geometry.ioDedupPointIds at hp hq h
  simp only at hp hq h
  generalize htup : (List.range g.numPoints).map (fun p => g.atts.map (·.ioMappedIndex p)) = tuples at hp hq h
  by_cases hc : ((dedupTable tuples).1.length == g.numPoints) = true
  · -- nothing merged: all tuples are distinct
    simp only [hc, if_true] at hp hq h
    have hlen : tuples.length = g.numPoints := by rw [← htup]; simp
    have hnd := (dedupTable_length_eq tuples (by rw [hlen]; simpa using hc)).2
    have hpl : p < tuples.length := by omega
    have hql : q < tuples.length := by omega
    have e : tuples[p] = tuples[q] := by
      subst htup
      simp only [List.getElem_map, List.getElem_range]
      apply List.map_congr_left
      intro a ha
      obtain ⟨k, hk, rfl⟩ := List.getElem_of_mem ha
      exact h k _ (List.getElem?_eq_getElem hk)
    exact (List.Nodup.getElem_inj_iff hnd).mp e
  · simp only [hc, Bool.false_eq_true, if_false] at hp hq h
    have inv := dedupTable_inv tuples
    -- entries of the unique list are tuples of length `atts.length`
    have hlenT : ∀ x ∈ (dedupTable tuples).1, x.length = g.atts.length := by
      intro x hx
      have := inv.sub.subset hx
      rw [← htup] at this
      simp only [List.mem_map, List.mem_range] at this
      obtain ⟨r, -, rfl⟩ := this
      simp
    have e : (dedupTable tuples).1[p] = (dedupTable tuples).1[q] := by
      apply List.ext_getElem
      · rw [hlenT _ (List.getElem_mem hp), hlenT _ (List.getElem_mem hq)]
      · intro k hk1 hk2
        have hk : k < g.atts.length := by rw [← hlenT _ (List.getElem_mem hp)]; exact hk1
        have := h k { g.atts[k] with map := some ((dedupTable tuples).1.map (fun (tp : List Nat) => tp.getD k 0)) }
          (by simp [List.getElem?_map, List.getElem?_zipIdx, List.getElem?_eq_getElem hk])
        simp only [Attribute.ioMappedIndex, List.getD_eq_getElem?_getD, List.getElem?_map,
          List.getElem?_eq_getElem hp, List.getElem?_eq_getElem hq, Option.map_some, Option.getD_some,
          List.getElem?_eq_getElem hk1, List.getElem?_eq_getElem hk2] at this
        exact this
    exact (List.Nodup.getElem_inj_iff inv.nodup).mp e

/-- shape of the attributes after `DeduplicatePointIds`: same tables, new explicit maps whose
    entries are old map entries -/
theorem dedupPointIds_att (g : Geometry) (k : Nat) (a' : Attribute) (h : g.ioDedupPointIds.atts[k]? = some a') :
    ∃ a, g.atts[k]? = some a ∧ a'.values = a.values ∧ a'.numValues = a.numValues ∧
      a'.dataType = a.dataType ∧ a'.numComponents = a.numComponents ∧ a'.attType = a.attType ∧
      ∀ p, p < g.ioDedupPointIds.numPoints → ∃ r, r < g.numPoints ∧ a'.ioMappedIndex p = a.ioMappedIndex r := by
  unfold Geometry.ioDedupPointIds at h ⊢
  simp only at h ⊢
  generalize htup : (List.range g.numPoints).map (fun p => g.atts.map (·.ioMappedIndex p)) = tuples at h ⊢
  by_cases hc : ((dedupTable tuples).1.length == g.numPoints) = true
  · simp only [hc, if_true] at h ⊢
    exact ⟨a', h, rfl, rfl, rfl, rfl, rfl, fun p hp => ⟨p, hp, rfl⟩⟩
  · simp only [hc, Bool.false_eq_true, if_false] at h ⊢
    have hklt : k < g.atts.length := by
      by_contra hcc
      rw [List.getElem?_eq_none (by simp; omega)] at h; cases h
    simp only [List.getElem?_map, List.getElem?_zipIdx, List.getElem?_eq_getElem hklt, Option.map_some,
      Option.some.injEq, Nat.zero_add] at h
    subst h
    refine ⟨g.atts[k], List.getElem?_eq_getElem hklt, rfl, rfl, rfl, rfl, rfl, ?_⟩
    intro p hp
    have hmem : (dedupTable tuples).1[p] ∈ tuples := (dedupTable_inv tuples).sub.subset (List.getElem_mem hp)
    have hmem2 : ∀ x ∈ tuples, ∃ r, r < g.numPoints ∧ g.atts.map (·.ioMappedIndex r) = x := by
      intro x hx
      rw [← htup] at hx
      simp only [List.mem_map, List.mem_range] at hx
      exact hx
    obtain ⟨r, hr, hre⟩ := hmem2 _ hmem
    refine ⟨r, hr, ?_⟩
    simp only [Attribute.ioMappedIndex, List.getD_eq_getElem?_getD, List.getElem?_map,
      List.getElem?_eq_getElem hp, Option.map_some, Option.getD_some, ← hre,
      List.getElem?_eq_getElem hklt]

theorem geometry_dedupValues_atts (g : Geometry) (hnp : g.numPoints ≠ 0) :
    g.ioDedupValues.atts = g.atts.map (·.ioDedupValues) ∧ g.ioDedupValues.numPoints = g.numPoints := by
  unfold Geometry.ioDedupValues
  have : (g.numPoints == 0) = false := by simpa using hnp
  simp [this]

/-- **After both deduplication passes, points are separated by their attribute values**: two
    points of the result that agree on the value of every attribute are the same point.
    (All attributes must be of a kind `DeduplicateValues` handles — float32 / (u)int8/16/32 with
    1–4 components — which is the case for everything the STL / PLY / OBJ readers create.) -/
theorem dedup_separates (g : Geometry) (hnp : g.numPoints ≠ 0)
    (hatts : ∀ a ∈ g.atts, AttOk a g.numPoints ∧ dedupSupported a = true ∧
      (a.map = none → a.numValues = g.numPoints))
    (p q : Nat) (hp : p < g.ioDedupValues.ioDedupPointIds.numPoints) (hq : q < g.ioDedupValues.ioDedupPointIds.numPoints)
    (hv : ∀ (k : Nat) (a' : Attribute), g.ioDedupValues.ioDedupPointIds.atts[k]? = some a' →
      a'.ioPointValue p = a'.ioPointValue q) : p = q := by
  obtain ⟨hA, hN⟩ := geometry_dedupValues_atts g hnp
  apply dedupPointIds_separates g.ioDedupValues p q hp hq
  intro k a' hk
  obtain ⟨a1, h1, hvals, hnv, hdt, hnc, -, hmi⟩ := dedupPointIds_att g.ioDedupValues k a' hk
  -- a1 is a deduplicated attribute of g
  rw [hA, List.getElem?_map] at h1
  cases hak : g.atts[k]? with
  | none => rw [hak] at h1; cases h1
  | some a =>
    rw [hak] at h1
    simp only [Option.map_some, Option.some.injEq] at h1
    subst h1
    obtain ⟨hok, hsup, hid⟩ := hatts a (List.mem_of_getElem? hak)
    have hnd := dedupValues_table_nodup a hsup hok.stored
    have hok1 := dedupValues_ok a g.numPoints hok hid
    -- a' has the same table
    have htab : a'.ioTable = a.ioDedupValues.ioTable := by
      simp only [Attribute.ioTable, hnv]
      apply List.map_congr_left
      intro i _
      simp only [Attribute.ioValueAt, Attribute.stride, hvals, hdt, hnc]
    have hnd' : a'.ioTable.Nodup := by rw [htab]; exact hnd
    obtain ⟨r, hr, hre⟩ := hmi p hp
    obtain ⟨r', hr', hre'⟩ := hmi q hq
    rw [hN] at hr hr'
    have b1 : a'.ioMappedIndex p < a'.numValues := by rw [hre, hnv]; exact hok1.inRange r hr
    have b2 : a'.ioMappedIndex q < a'.numValues := by rw [hre', hnv]; exact hok1.inRange r' hr'
    exact valueAt_inj a' hnd' _ _ b1 b2 (hv k a' hk)

/-- `DeduplicatePointIds` keeps faces inside the (new) point range -/
theorem dedupPointIds_facesInRange (g : Geometry) (hf : facesInRange g) : facesInRange g.ioDedupPointIds := by
  unfold Geometry.ioDedupPointIds
  simp only
  generalize htup : (List.range g.numPoints).map (fun p => g.atts.map (·.ioMappedIndex p)) = tuples
  by_cases hc : ((dedupTable tuples).1.length == g.numPoints) = true
  · simp only [hc, if_true]; exact hf
  · simp only [hc, Bool.false_eq_true, if_false]
    have hlen : tuples.length = g.numPoints := by rw [← htup]; simp
    have key : ∀ x, x < g.numPoints → (dedupTable tuples).2.getD x 0 < (dedupTable tuples).1.length := by
      intro x hx
      obtain ⟨k, h1, h2⟩ := dedupTable_get tuples x (by omega)
      have : k < (dedupTable tuples).1.length := by
        by_contra hcc; rw [List.getElem?_eq_none (by omega)] at h2; cases h2
      simpa [List.getD_eq_getElem?_getD, h1] using this
    intro f hfm
    simp only [List.mem_map] at hfm
    obtain ⟨f0, hf0, rfl⟩ := hfm
    obtain ⟨h1, h2, h3⟩ := hf f0 hf0
    obtain ⟨x, y, z⟩ := f0
    exact ⟨key x h1, key y h2, key z h3⟩

theorem dedup_facesInRange (g : Geometry) (hf : facesInRange g) : facesInRange g.ioDedupValues.ioDedupPointIds := by
  apply dedupPointIds_facesInRange
  unfold Geometry.ioDedupValues
  split
  · exact hf
  · exact hf

end Draco.IO
