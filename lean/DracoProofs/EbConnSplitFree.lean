import DracoProofs.EbEncTrace
import DracoProofs.EbConnGlue
/-
  The CONNECTIVITY LINK for SPLIT-FREE traversals (symbols C / R / L / E, boundary start faces only; standard traversal, no
  attribute data), from the encoder half (`EncTrace.trace_of_run`, `EncTrace.ctIso_St_of_run`), the stream-level glue
  (`ConnGlue.link_of_loop'`) and ONE hypothesis standing for the monadic decoder loop (`DecLoopSt`: `connLoop` on every
  traversal state that delivers the symbols returns the tables of the pure simulation `DecSim.St`).

  (1) `noS_of_main`: a main loop that pushed no symbol `S` recorded no split event and counted no split symbol;
      `stages_of_run`: the stages of a successful run and the fields of `conn` they determine;
      `nv_le_of_run`: `num_vertices − isolated ≤ 3 · processed.size`.
  (2) `eb_connectivity_roundtrip_splitfree`.
-/
namespace Draco.EbEnc.ConnSplitFree
open Draco Draco.SeqEnc DecM
open Draco.Eb hiding nextC prevC iabs
open Draco.EbEnc.EncCounts Draco.EbEnc.Coverage Draco.EbEnc.DecSim Draco.EbEnc.ConnTri Draco.EbEnc.ConnGlue AttViews

/-! ## (1a) no symbol `S` ⇒ no split event -/

/-- as long as no `S` was pushed: no split event, no split symbol, `face_to_split_symbol_map_` untouched -/
def NoSInv (sy : Array Nat) (sp : Array TopoSplit) (f2s : Array Nat) (nss : Nat) : Prop :=
  (∀ x, x ∈ sy.toList → x ≠ topoS) → sp = #[] ∧ nss = 0 ∧ ∀ f, f < f2s.size → f2s[f]! = inv

theorem NoSInv.push {sy : Array Nat} {sp : Array TopoSplit} {f2s : Array Nat} {nss x : Nat}
    (h : NoSInv sy sp f2s nss) : NoSInv (sy.push x) sp f2s nss := by
  intro hno
  apply h
  intro y hy
  exact hno y (by rw [Array.toList_push]; exact List.mem_append_left _ hy)

theorem NoSInv.pushS {sy : Array Nat} {sp : Array TopoSplit} {f2s : Array Nat} {nss : Nat} :
    NoSInv (sy.push topoS) sp f2s nss := by
  intro hno
  exact absurd rfl (hno topoS (by simp))

/-- the lookup in `face_to_split_symbol_map_` in front of a continuation that takes the split events -/
theorem split_cases {β : Type} {c : Prop} [Decidable c] {x : R Nat} {sp : Array TopoSplit} {symId e : Nat}
    {K : Array TopoSplit → R β} {r : β}
    (h : (if c then x >>= fun s => if (s != inv) = true then K (sp.push ⟨symId, s, e⟩) else K sp else K sp) = .ok r) :
    K sp = .ok r ∨ ∃ s, x = .ok s ∧ s ≠ inv ∧ K (sp.push ⟨symId, s, e⟩) = .ok r := by
  rcases ite_ok h with ⟨_, h⟩ | ⟨_, h⟩
  · obtain ⟨s, hs, h⟩ := (bind_ok_iff _ _ _).mp h
    rcases ite_ok h with ⟨hne, h⟩ | ⟨_, h⟩
    · exact Or.inr ⟨s, hs, by simpa using hne, h⟩
    · exact Or.inl h
  · exact Or.inl h

theorem split_cases' {β : Type} {c : Prop} [Decidable c] {x : R Nat} {sp : Array TopoSplit} {symId e : Nat}
    {V : Unit → Array TopoSplit → R β} {r : β}
    (h : (have jp := V
      if c then x >>= fun s => if (s != inv) = true then jp () (sp.push ⟨symId, s, e⟩) else jp () sp else jp () sp) = .ok r) :
    V () sp = .ok r ∨ ∃ s, x = .ok s ∧ s ≠ inv ∧ V () (sp.push ⟨symId, s, e⟩) = .ok r :=
  split_cases (K := V ()) h

def NSin (s : InSt) : Prop := NoSInv s.2.2.2.2.1 s.2.2.2.2.2.2.1 s.2.2.2.2.2.2.2.1 s.2.2.2.2.2.2.2.2.2.1
def NSst (s : StSt) : Prop := NoSInv s.2.2.2.2.1 s.2.2.2.2.2.2.1 s.2.2.2.2.2.2.2.1 s.2.2.2.2.2.2.2.2.2.1
def NSo (s : OSt) : Prop := NoSInv s.2.2.2.2.1 s.2.2.2.2.2.2.2.2.2.1 s.2.2.2.2.2.2.2.2.2.2.1 s.2.2.2.2.2.2.2.2.2.2.2.2

/-- a split event can only be pushed when an `S` was pushed before -/
theorem no_event {sy : Array Nat} {sp : Array TopoSplit} {f2s : Array Nat} {nss x : Nat} (h : NoSInv sy sp f2s nss)
    {site : String} {face sv : Nat} (hrd : rd site f2s face = .ok sv) (hne : sv ≠ inv) {sp' : Array TopoSplit}
    {f2s' : Array Nat} {nss' : Nat} : NoSInv (sy.push x) sp' f2s' nss' := by
  intro hno
  exfalso
  obtain ⟨_, _, h3⟩ := h (fun y hy => hno y (by rw [Array.toList_push]; exact List.mem_append_left _ hy))
  obtain ⟨hi, e⟩ := Eb.rd_ok hrd
  have := h3 face hi
  rw [getElem!_pos f2s face hi, e] at this
  exact hne this

/-- the three branches of the `face_to_split_symbol_map_` lookup: `tp` where an event is pushed (the value read is
    `sv ≠ inv`), `ts` where the events are unchanged -/
macro "splits3 " h:ident sv:ident hsv:ident hne:ident " => " tp:tacticSeq " | " ts:tacticSeq : tactic => `(tactic| (
  rcases ite_ok $h with ⟨_, $h⟩ | ⟨_, $h⟩
  · obtain ⟨$sv, $hsv, $h⟩ := (bind_ok_iff _ _ _).mp $h
    rcases ite_ok $h with ⟨$hne, $h⟩ | ⟨_, $h⟩
    · $tp
    · $ts
  · $ts))

theorem innerTail_ns {t : CT} {holeId : Array Nat} {valence : Bool} {vf' vh : Array Bool} {P' : Array Nat}
    {splits : Array TopoSplit} {f2s : Array Nat} {lsid : Int} {nss : Nat} {stack : Array Nat}
    {nv face lastCorner vertId : Nat} {onB : Bool} {vv1 : Array Bool} {val : ValEnc} {sy : Array Nat}
    {c : Nat} {r : ForInStep InSt} (h : NoSInv sy splits f2s nss)
    (hb : innerTail t holeId valence vf' vh P' splits f2s lsid nss stack nv face lastCorner vertId onB () vv1 val sy c
      = .ok r) : NSin (stepVal r) := by
  unfold innerTail at hb
  obtain ⟨rc, _, hb⟩ := (bind_ok_iff _ _ _).mp hb
  obtain ⟨lc, _, hb⟩ := (bind_ok_iff _ _ _).mp hb
  obtain ⟨rv, hb, _, _⟩ := visited_absorb hb
  obtain ⟨lv, hb, _, _⟩ := visited_absorb hb
  rcases ite_ok hb with ⟨_, hb⟩ | ⟨_, hb⟩
  · splits3 hb s1 hs1 hne1 =>
        (have e1 : s1 ≠ inv := by simpa using hne1
         rcases ite_ok hb with ⟨_, hb⟩ | ⟨_, hb⟩
         · over_splits hb =>
             obtain ⟨val1, hb⟩ := ite_bind_absorb hb
             rw [pure_ok hb]; exact no_event h hs1 e1
         · obtain ⟨val1, hb⟩ := ite_bind_absorb hb
           rw [pure_ok hb]; exact no_event h hs1 e1)
      | (rcases ite_ok hb with ⟨_, hb⟩ | ⟨_, hb⟩
         · splits3 hb s2 hs2 hne2 =>
               (obtain ⟨val1, hb⟩ := ite_bind_absorb hb
                rw [pure_ok hb]; exact no_event h hs2 (by simpa using hne2))
             | (obtain ⟨val1, hb⟩ := ite_bind_absorb hb
                rw [pure_ok hb]; exact h.push)
         · obtain ⟨val1, hb⟩ := ite_bind_absorb hb
           rw [pure_ok hb]; exact h.push)
  · rcases ite_ok hb with ⟨_, hb⟩ | ⟨_, hb⟩
    · splits3 hb s2 hs2 hne2 =>
          (obtain ⟨val1, hb⟩ := ite_bind_absorb hb
           rw [pure_ok hb]; exact no_event h hs2 (by simpa using hne2))
        | (obtain ⟨val1, hb⟩ := ite_bind_absorb hb
           rw [pure_ok hb]; exact h.push)
    · -- S
      obtain ⟨val1, hb⟩ := ite_bind_absorb hb
      rcases ite_ok hb with ⟨_, hb⟩ | ⟨_, hb⟩
      · obtain ⟨hole, _, hb⟩ := (bind_ok_iff _ _ _).mp hb
        obtain ⟨hv, _, hb⟩ := (bind_ok_iff _ _ _).mp hb
        rcases ite_ok hb with ⟨_, hb⟩ | ⟨_, hb⟩
        · obtain ⟨x, _, hb⟩ := (bind_ok_iff _ _ _).mp hb
          obtain ⟨f2s', _, hb⟩ := (bind_ok_iff _ _ _).mp hb
          rw [pure_ok hb]; exact NoSInv.pushS
        · obtain ⟨f2s', _, hb⟩ := (bind_ok_iff _ _ _).mp hb
          rw [pure_ok hb]; exact NoSInv.pushS
      · obtain ⟨f2s', _, hb⟩ := (bind_ok_iff _ _ _).mp hb
        rw [pure_ok hb]; exact NoSInv.pushS

theorem innerBody_ns {t : CT} {holeId : Array Nat} {valence : Bool} {NF : Nat} (x : Nat) (s : InSt) (r : ForInStep InSt)
    (h : NSin s) (hb : innerBody t holeId valence NF x s = .ok r) : NSin (stepVal r) := by
  obtain ⟨vf, vv, vh, val, sy, P, sp, f2s, ls, nss, st, c, nv⟩ := s
  have h' : NoSInv sy sp f2s nss := h
  unfold innerBody at hb
  rcases ite_ok hb with ⟨_, hb⟩ | ⟨_, hb⟩
  · rw [pure_ok hb]; exact h
  obtain ⟨vf', _, hb⟩ := (bind_ok_iff _ _ _).mp hb
  obtain ⟨vertId, _, hb⟩ := (bind_ok_iff _ _ _).mp hb
  obtain ⟨hid, _, hb⟩ := (bind_ok_iff _ _ _).mp hb
  obtain ⟨vis, _, hb⟩ := (bind_ok_iff _ _ _).mp hb
  rcases ite_ok hb with ⟨_, hb⟩ | ⟨_, hb⟩
  · obtain ⟨vv', _, hb⟩ := (bind_ok_iff _ _ _).mp hb
    rcases ite_ok hb with ⟨_, hb⟩ | ⟨_, hb⟩
    · obtain ⟨val1, hb⟩ := ite_bind_absorb hb
      obtain ⟨o, _, hb⟩ := (bind_ok_iff _ _ _).mp hb
      rw [pure_ok hb]; exact h'.push
    · exact innerTail_ns h' hb
  · exact innerTail_ns h' hb

theorem stackBody_ns {t : CT} {holeId : Array Nat} {valence : Bool} {NF : Nat} (x : Nat) (s : StSt) (r : ForInStep StSt)
    (h : NSst s) (hb : stackBody t holeId valence NF x s = .ok r) : NSst (stepVal r) := by
  obtain ⟨vf, vv, vh, val, sy, P, sp, f2s, ls, nss, st, fin⟩ := s
  unfold stackBody at hb
  rcases ite_ok hb with ⟨_, hb⟩ | ⟨_, hb⟩
  · rw [pure_ok hb]; exact h
  rcases ite_ok hb with ⟨_, hb⟩ | ⟨_, hb⟩
  · rw [pure_ok hb]; exact h
  obtain ⟨b, _, hb⟩ := (bind_ok_iff _ _ _).mp hb
  rcases ite_ok hb with ⟨_, hb⟩ | ⟨_, hb⟩
  · rw [pure_ok hb]; exact h
  obtain ⟨s2, hloop, hb⟩ := (bind_ok_iff _ _ _).mp hb
  have h' : NoSInv sy sp f2s nss := h
  have h2 : NSin s2 := range_forIn_inv NF (innerBody t holeId valence NF) NSin
    (fun a s r hI hr => innerBody_ns a s r hI hr)
    (vf, vv, vh, val, sy, P, sp, f2s, ls, nss, st, st.back!, 0) s2 h' hloop
  obtain ⟨vf2, vv2, vh2, val2, sy2, P2, sp2, f2s2, ls2, nss2, st2, c2, nv2⟩ := s2
  rw [pure_ok hb]; exact h2

theorem outerTail_ns {t : CT} {holeId : Array Nat} {valence : Bool} {nfa : Nat} {val : ValEnc} {sy : Array Nat}
    {sf : RAnsBitEnc} {sfs : Array Bool} {P : Array Nat} {sp : Array TopoSplit} {f2s : Array Nat} {ls : Int} {nss : Nat}
    {vf vv vh : Array Bool} {I : Array Nat} {from_ : Nat} {r : ForInStep OSt} (h : NoSInv sy sp f2s nss)
    (hb : outerTail t holeId valence nfa val sy sf sfs P sp f2s ls nss () vf vv vh I from_ = .ok r) :
    NSo (stepVal r) := by
  unfold outerTail at hb
  rcases ite_ok hb with ⟨_, hb⟩ | ⟨_, hb⟩
  · rw [pure_ok hb]; exact h
  obtain ⟨s2, hloop, hb⟩ := (bind_ok_iff _ _ _).mp hb
  have h2 : NSst s2 := range_forIn_inv _ (stackBody t holeId valence nfa) NSst
    (fun a s r hI hr => stackBody_ns a s r hI hr)
    (vf, vv, vh, val, sy, P, sp, f2s, ls, nss, #[from_], false) s2 h hloop
  obtain ⟨vf2, vv2, vh2, val2, sy2, P2, sp2, f2s2, ls2, nss2, st2, fin2⟩ := s2
  rcases ite_ok hb with ⟨_, hb⟩ | ⟨_, hb⟩
  · exact (throw_bind_ne hb).elim
  · rw [pure_ok hb]; exact h2

theorem outerBody_ns {t : CT} {holeId : Array Nat} {valence : Bool} {nfa : Nat}
    (cId : Nat) (s : OSt) (r : ForInStep OSt) (hI : NSo s)
    (hb : outerBody t holeId valence nfa cId s = .ok r) : NSo (stepVal r) := by
  obtain ⟨vf, vv, vh, val, sy, sf, sfs, P, ifc, sp, f2s, ls, nss⟩ := s
  have hI' : NoSInv sy sp f2s nss := hI
  unfold outerBody at hb
  obtain ⟨b, hb1, hb⟩ := (bind_ok_iff _ _ _).mp hb
  rcases ite_ok hb with ⟨_, hb⟩ | ⟨hnv, hb⟩
  · rw [pure_ok hb]; exact hI
  obtain ⟨d, hd, hb⟩ := (bind_ok_iff _ _ _).mp hb
  rcases ite_ok hb with ⟨_, hb⟩ | ⟨hnd, hb⟩
  · rw [pure_ok hb]; exact hI
  obtain ⟨x, hx, hb⟩ := (bind_ok_iff _ _ _).mp hb
  obtain ⟨interior, sc⟩ := x
  simp only [] at hb
  rcases ite_ok hb with ⟨hint, hb⟩ | ⟨hnint, hb⟩
  · obtain ⟨v0, hv0, hb⟩ := (bind_ok_iff _ _ _).mp hb
    obtain ⟨v1, hv1, hb⟩ := (bind_ok_iff _ _ _).mp hb
    obtain ⟨v2, hv2, hb⟩ := (bind_ok_iff _ _ _).mp hb
    obtain ⟨vv1, hvv1, hb⟩ := (bind_ok_iff _ _ _).mp hb
    obtain ⟨vv2, hvv2, hb⟩ := (bind_ok_iff _ _ _).mp hb
    obtain ⟨vv3, hvv3, hb⟩ := (bind_ok_iff _ _ _).mp hb
    obtain ⟨vf', hvf', hb⟩ := (bind_ok_iff _ _ _).mp hb
    obtain ⟨oppId, hopp, hb⟩ := (bind_ok_iff _ _ _).mp hb
    obtain ⟨b2, _, hb⟩ := (bind_ok_iff _ _ _).mp hb
    rcases ite_ok hb with ⟨_, hb⟩ | ⟨_, hb⟩
    · exact outerTail_ns hI' hb
    · exact outerTail_ns hI' hb
  · obtain ⟨x2, hx2, hb⟩ := (bind_ok_iff _ _ _).mp hb
    obtain ⟨vv', vh'⟩ := x2
    simp only [] at hb
    exact outerTail_ns hI' hb

/-- **no `S` ⇒ no split event, no split symbol** in the result of the main loop -/
theorem noS_of_main (t : CT) (holeId : Array Nat) (nh : Nat) (s : OSt)
    (hmain : forIn [:t.numCorners] (initO t nh) (outerBody t holeId false t.numFaces) = .ok s)
    (hnoS : ∀ x, x ∈ s.2.2.2.2.1.toList → x ≠ topoS) :
    s.2.2.2.2.2.2.2.2.2.1 = #[] ∧ s.2.2.2.2.2.2.2.2.2.2.2.2 = 0 := by
  have h : NSo s := range_forIn_inv t.numCorners (outerBody t holeId false t.numFaces) NSo
    (fun a s r hI hr => outerBody_ns a s r hI hr) (initO t nh) s
    (fun _ => ⟨rfl, rfl, fun f hf => by
      show (Array.replicate t.numFaces inv)[f]! = inv
      have : f < t.numFaces := by simpa [initO] using hf
      simp [this]⟩) hmain
  obtain ⟨h1, h2, _⟩ := h hnoS
  exact ⟨h1, h2⟩

/-! ## (1b) the stages of a successful run -/

/-- the stages a successful `encodeConnectivity` (standard traversal, no attribute data) went through, and the fields of
    `conn` they determine -/
theorem stages_of_run (ch : ConnChoices) (pf : Faces) (conn : ConnEnc)
    (h : encodeConnectivity ch false pf #[] = .ok conn) :
    ∃ (tbl : CornerTable) (holeId : Array Nat) (nh : Nat) (s : OSt),
      CornerTable.create pf = some tbl ∧
      ((CT.ofTable tbl).numFaces == (CT.ofTable tbl).numDegenerated) = false ∧
      findHoles (CT.ofTable tbl) = .ok (holeId, nh) ∧
      forIn [:(CT.ofTable tbl).numCorners] (initO (CT.ofTable tbl) nh)
        (outerBody (CT.ofTable tbl) holeId false (CT.ofTable tbl).numFaces) = .ok s ∧
      conn.ct = CT.ofTable tbl ∧ conn.processed = s.2.2.2.2.2.2.2.1.reverse ++ s.2.2.2.2.2.2.2.2.1 ∧
      conn.symbols = s.2.2.2.2.1 ∧ conn.startFaces = s.2.2.2.2.2.2.1 := by
  have hrun := h
  rw [encodeConnectivity_eq] at hrun
  split at hrun
  · rename_i tbl hcreate
    simp only [] at hrun
    rcases ite_ok hrun with ⟨_, hrun⟩ | ⟨hnd, hrun⟩
    · exact (throw_bind_ne hrun).elim
    obtain ⟨x, hx, hrun⟩ := (bind_ok_iff _ _ _).mp hrun
    obtain ⟨atts, _, hrun⟩ := (bind_ok_iff _ _ _).mp hrun
    rcases ite_ok hrun with ⟨hv, _⟩ | ⟨_, hrun⟩
    · cases hv
    obtain ⟨val, hval, hrun⟩ := (bind_ok_iff _ _ _).mp hrun
    have eval := pure_ok hval
    subst eval
    obtain ⟨s, hloop, hrun⟩ := (bind_ok_iff _ _ _).mp hrun
    obtain ⟨sb, _, hrun⟩ := (bind_ok_iff _ _ _).mp hrun
    rcases ite_ok hrun with ⟨hv, _⟩ | ⟨_, hrun⟩
    · cases hv
    have e := pure_ok hrun
    refine ⟨tbl, x.1, x.2, s, hcreate, by simpa using hnd, hx, hloop, ?_, ?_, ?_, ?_⟩ <;> rw [e]
  · simp only [throw, throwThe, MonadExceptOf.throw] at hrun
    cases hrun

/-! ## (1e) the number of encoded vertices -/

/-- every vertex with a left-most corner is the vertex of a corner of a processed face -/
theorem nv_le_of_run (ch : ConnChoices) (valence : Bool) (pf : Faces) (acv : Array (Nat × Array Nat)) (conn : ConnEnc)
    (h : encodeConnectivity ch valence pf acv = .ok conn) :
    conn.ct.numVertices - conn.ct.numIsolated ≤ 3 * conn.processed.size := by
  rw [CountsIso.usedVerts_count_of_run h]
  obtain ⟨table, _, hcreate, hct, _⟩ := encodeConnectivity_visited ch valence pf acv conn h
  have hcov := CountsIso.coverage_of_run h
  have hvc := ofTable_hvcE hcreate
  rw [← hct] at hvc
  have hsub : CountsIso.usedVerts conn.ct.vc ⊆
      (List.range (3 * conn.processed.size)).map (fun d => conn.ct.c2v[phi conn.processed d]!) := by
    intro w hw
    obtain ⟨hw1, hw2⟩ := CountsIso.mem_usedVerts.mp hw
    obtain ⟨d, hd, e⟩ := hcov w hw1 hw2
    rw [List.mem_map]
    exact ⟨d, List.mem_range.mpr hd, by rw [e]; exact (hvc w hw1 hw2).2⟩
  have := (CountsIso.usedVerts_nodup conn.ct.vc).length_le_of_subset hsub
  simpa using this

/-! ## the number of start faces -/

theorem outerBody_sfsize {t : CT} {holeId : Array Nat} {valence : Bool} {nfa : Nat}
    (cId : Nat) (s : OSt) (r : ForInStep OSt) (hb : outerBody t holeId valence nfa cId s = .ok r) :
    ∃ s', r = .yield s' ∧ s'.2.2.2.2.2.2.1.size ≤ s.2.2.2.2.2.2.1.size + 1 := by
  obtain ⟨vf, vv, vh, val, sy, sf, sfs, P, ifc, sp, f2s, ls, nss⟩ := s
  have fin : ∀ {b : Bool} {vf vv vh I from_} , outerTail t holeId valence nfa val sy (sf.encodeBit b) (sfs.push b) P sp f2s ls nss ()
      vf vv vh I from_ = .ok r → ∃ s', r = .yield s' ∧ s'.2.2.2.2.2.2.1.size ≤ sfs.size + 1 := by
    intro b vf vv vh I from_ h
    obtain ⟨_, h2⟩ := outerTail_sf h
    unfold outerTail at h
    rcases ite_ok h with ⟨_, h⟩ | ⟨_, h⟩
    · refine ⟨_, pure_ok h, ?_⟩; simp
    obtain ⟨s2, _, h⟩ := (bind_ok_iff _ _ _).mp h
    rcases ite_ok h with ⟨_, h⟩ | ⟨_, h⟩
    · exact (throw_bind_ne h).elim
    · refine ⟨_, pure_ok h, ?_⟩; simp
  unfold outerBody at hb
  obtain ⟨b, hb1, hb⟩ := (bind_ok_iff _ _ _).mp hb
  rcases ite_ok hb with ⟨_, hb⟩ | ⟨hnv, hb⟩
  · exact ⟨_, pure_ok hb, by simp⟩
  obtain ⟨d, hd, hb⟩ := (bind_ok_iff _ _ _).mp hb
  rcases ite_ok hb with ⟨_, hb⟩ | ⟨hnd, hb⟩
  · exact ⟨_, pure_ok hb, by simp⟩
  obtain ⟨x, hx, hb⟩ := (bind_ok_iff _ _ _).mp hb
  obtain ⟨interior, sc⟩ := x
  simp only [] at hb
  rcases ite_ok hb with ⟨hint, hb⟩ | ⟨hnint, hb⟩
  · obtain ⟨v0, hv0, hb⟩ := (bind_ok_iff _ _ _).mp hb
    obtain ⟨v1, hv1, hb⟩ := (bind_ok_iff _ _ _).mp hb
    obtain ⟨v2, hv2, hb⟩ := (bind_ok_iff _ _ _).mp hb
    obtain ⟨vv1, hvv1, hb⟩ := (bind_ok_iff _ _ _).mp hb
    obtain ⟨vv2, hvv2, hb⟩ := (bind_ok_iff _ _ _).mp hb
    obtain ⟨vv3, hvv3, hb⟩ := (bind_ok_iff _ _ _).mp hb
    obtain ⟨vf', hvf', hb⟩ := (bind_ok_iff _ _ _).mp hb
    obtain ⟨oppId, hopp, hb⟩ := (bind_ok_iff _ _ _).mp hb
    obtain ⟨b2, _, hb⟩ := (bind_ok_iff _ _ _).mp hb
    rcases ite_ok hb with ⟨_, hb⟩ | ⟨_, hb⟩
    · exact fin hb
    · exact fin hb
  · obtain ⟨x2, hx2, hb⟩ := (bind_ok_iff _ _ _).mp hb
    obtain ⟨vv', vh'⟩ := x2
    simp only [] at hb
    exact fin hb

/-- at most one start face per corner the main loop looks at -/
theorem sfsize_of_main (t : CT) (holeId : Array Nat) (nh : Nat) (s : OSt)
    (hmain : forIn [:t.numCorners] (initO t nh) (outerBody t holeId false t.numFaces) = .ok s) :
    s.2.2.2.2.2.2.1.size ≤ t.numCorners := by
  have := range_loop t.numCorners _ (fun k (s : OSt) => s.2.2.2.2.2.2.1.size ≤ k) (fun _ => False)
    (fun j s r _ hI hr => by
      obtain ⟨s', e, hs'⟩ := outerBody_sfsize j s r hr
      exact Or.inl ⟨s', e, by omega⟩)
    (initO t nh) s (by simp [initO]) hmain
  rcases this with h | h
  · exact h
  · exact h.elim

/-! ## (2) the connectivity link for split-free traversals -/

/-- **the monadic decoder loop** (pending: `connLoop` against the pure simulation `DecSim.St`): on every traversal state that
    delivers the symbols (decoding order = reversed encoding order) and the start-face bits, the connectivity loop returns
    ONE `co`, whose corner tables are those of `St` after `nf` symbols -/
def DecLoopSt (nf nv : Nat) (symbols : Array Nat) (sfb : List Bool) : Prop :=
  ∃ co : ConnOut,
    (∀ tr, Delivers tr symbols.toList.reverse sfb → connLoop ⟨nf, nv, symbols.size, [], true⟩ tr = .ok co) ∧
    co.c2v = (St symbols.toList.reverse nf nv nf).c2v ∧ co.opp = (St symbols.toList.reverse nf nv nf).opp

/-- **eb_connectivity_roundtrip_splitfree**: standard traversal, no attribute data; a successful run of the encoder without
    a symbol `S` and with boundary start faces only.  Domain hypotheses (checked by the decoder, not by the encoder):
    `hnf`, `hnv`, `hedge`.  `hrun`: the monadic decoder loop (`DecLoopSt`).  Then `decodeConnectivity` reads the traversal
    coder byte and the encoder's connectivity bytes, whatever follows, and returns a mesh whose corner table is isomorphic
    (`CTIso`) to the encoder's along `processed`. -/
theorem eb_connectivity_roundtrip_splitfree (ch : ConnChoices) (pf : Faces) (conn : ConnEnc)
    (h : encodeConnectivity ch false pf #[] = .ok conn)
    (hnoS : ∀ x, x ∈ conn.symbols.toList → x ≠ topoS)
    (hstart : ∀ b, b ∈ conn.startFaces.toList → b = false)
    (hnf : conn.processed.size ≤ 2 ^ 21)
    (hnv : conn.ct.numVertices - conn.ct.numIsolated ≤ 3 * 2 ^ 21)
    (hedge : 3 * conn.processed.size / 2 ≤
      (conn.ct.numVertices - conn.ct.numIsolated) * (conn.ct.numVertices - conn.ct.numIsolated - 1) / 2)
    (hrun : DecLoopSt conn.processed.size (conn.ct.numVertices - conn.ct.numIsolated) conn.symbols
      conn.startFaces.toList) :
    ∃ mesh, Runs decodeConnectivity 514 ([0] ++ conn.bytes) mesh 514 ∧
      CTIso conn.ct conn.processed mesh.numFaces mesh.c2v mesh.opp ∧ mesh.atts.size = conn.atts.size := by
  obtain ⟨tbl, holeId, nh, s, hc, hnd, hh, hmain, e_ct, e_P, e_sy, e_sfs⟩ := stages_of_run ch pf conn h
  obtain ⟨hTr, hT, hsz⟩ := EncTrace.trace_of_run ch pf conn h hnoS hstart
  obtain ⟨hsp, hns⟩ := noS_of_main _ holeId nh s hmain (by rw [← e_sy]; exact hnoS)
  have hsize := Coverage.encodeConnectivity_size ch false pf #[] conn h
  have hnv3 := nv_le_of_run ch false pf #[] conn h
  obtain ⟨co, hloop, hc2v, hopp⟩ := hrun
  have hiso := EncTrace.ctIso_St_of_run ch pf conn h hnoS hstart (conn.ct.numVertices - conn.ct.numIsolated)
  rw [← hc2v, ← hopp] at hiso
  -- every symbol is a traversal symbol
  have hs : ∀ x, x ∈ s.2.2.2.2.1.toList → IsTopo x := by
    intro x hx
    rw [← e_sy] at hx
    obtain ⟨i, hi, e⟩ := mem_toList_iff_get.mp hx
    have hj : conn.processed.size - 1 - i < conn.processed.size := by omega
    have hk := (hTr.face _ hj).2.2.2.2.2.2.2
    rw [EncTrace.list_reverse_get! _ _ (by simp; omega), EncTrace.toList_get!] at hk
    have ei : conn.symbols.toList.length - 1 - (conn.processed.size - 1 - i) = i := by simp; omega
    rw [ei, e] at hk
    unfold IsTopo
    omega
  have hfits := create_fits hc
  have hsfb : s.2.2.2.2.2.2.1.size + 3 < 2 ^ 32 := by
    have := sfsize_of_main _ holeId nh s hmain
    have hnc : (CT.ofTable tbl).numCorners = 3 * pf.size := create_c2v_size hc
    have := create_numCorners_lt hc
    omega
  have hlink := link_of_loop' ch pf tbl hc hnd holeId nh hh s hmain hns hsp
    (conn.ct.numVertices - conn.ct.numIsolated) conn.processed.size (by rw [e_ct])
    (by rw [hsize, e_ct]) hs hnf hnv (by omega) hedge (by rw [← e_sy]; omega) (by rw [← e_sy]; omega) hsfb co
    (by rw [← e_sy, ← e_sfs]; exact hloop) (by rw [← e_ct, ← e_P]; exact hiso)
  exact hlink conn h

end Draco.EbEnc.ConnSplitFree
