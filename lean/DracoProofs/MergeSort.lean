import DracoModel.RansSymbol
/-
  `mergeTR` / `msortFuel` / `sortedIds` (the model of `std::stable_sort` in
  `RAnsSymbolEncoder::Create`): the result is a permutation of the input for every fuel and,
  with the fuel the model passes, ascending in the key.
-/
namespace Draco

/-! ### merge -/

theorem mergeTR_perm {α} (le : α → α → Bool) : ∀ (f : Nat) (xs ys acc : List α),
    (mergeTR le f xs ys acc).Perm (acc ++ (xs ++ ys)) := by
  intro f
  induction f with
  | zero =>
    intro xs ys acc
    simp only [mergeTR, List.reverseAux_eq]
    exact List.Perm.append_right _ (List.reverse_perm acc)
  | succ f ih =>
    intro xs ys acc
    cases xs with
    | nil =>
      simp only [mergeTR, List.reverseAux_eq, List.nil_append]
      exact List.Perm.append_right _ (List.reverse_perm acc)
    | cons x xs =>
      cases ys with
      | nil =>
        simp only [mergeTR, List.reverseAux_eq, List.append_nil]
        exact List.Perm.append_right _ (List.reverse_perm acc)
      | cons y ys =>
        simp only [mergeTR]
        split
        · refine (ih xs (y :: ys) (x :: acc)).trans ?_
          simp only [List.cons_append]
          exact List.perm_middle.symm
        · refine (ih (x :: xs) ys (y :: acc)).trans ?_
          have h1 : (y :: acc ++ (x :: xs ++ ys)).Perm (y :: (acc ++ (x :: xs ++ ys))) := by
            simp
          refine h1.trans ?_
          have h2 : (acc ++ (x :: xs ++ y :: ys)) = (acc ++ (x :: xs)) ++ y :: ys := by simp
          have h3 : (acc ++ (x :: xs ++ ys)) = (acc ++ (x :: xs)) ++ ys := by simp
          rw [h2, h3]
          exact List.perm_middle.symm

/-- merging two ascending lists with enough fuel gives `acc.reverse ++` an ascending
    permutation of both -/
theorem mergeTR_sorted {α} (key : α → Nat) : ∀ (f : Nat) (xs ys acc : List α),
    xs.length + ys.length ≤ f →
    xs.Pairwise (fun a b => key a ≤ key b) → ys.Pairwise (fun a b => key a ≤ key b) →
    ∃ M, mergeTR (fun a b => decide (key a ≤ key b)) f xs ys acc = acc.reverse ++ M ∧
      M.Perm (xs ++ ys) ∧ M.Pairwise (fun a b => key a ≤ key b) := by
  intro f
  induction f with
  | zero =>
    intro xs ys acc hf hx hy
    have hx0 : xs = [] := List.eq_nil_of_length_eq_zero (by omega)
    have hy0 : ys = [] := List.eq_nil_of_length_eq_zero (by omega)
    subst hx0; subst hy0
    exact ⟨[], by simp [mergeTR, List.reverseAux_eq], List.Perm.refl _, List.Pairwise.nil⟩
  | succ f ih =>
    intro xs ys acc hf hx hy
    cases xs with
    | nil =>
      exact ⟨ys, by simp [mergeTR, List.reverseAux_eq], by simp, hy⟩
    | cons x xs =>
      cases ys with
      | nil =>
        exact ⟨x :: xs, by simp [mergeTR, List.reverseAux_eq], by simp, hx⟩
      | cons y ys =>
        simp only [mergeTR]
        by_cases hxy : key x ≤ key y
        · simp only [hxy, decide_true, if_true]
          obtain ⟨M, e, p, s⟩ := ih xs (y :: ys) (x :: acc)
            (by simp only [List.length_cons] at hf ⊢; omega) (List.Pairwise.of_cons hx) hy
          refine ⟨x :: M, by rw [e]; simp, ?_, ?_⟩
          · simpa using p
          · refine List.Pairwise.cons ?_ s
            intro z hz
            have hz' := (p.mem_iff).mp hz
            rcases List.mem_append.mp hz' with h | h
            · exact (List.pairwise_cons.mp hx).1 z h
            · rcases List.mem_cons.mp h with h | h
              · subst h; exact hxy
              · exact Nat.le_trans hxy ((List.pairwise_cons.mp hy).1 z h)
        · simp only [hxy, decide_false, Bool.false_eq_true, if_false]
          obtain ⟨M, e, p, s⟩ := ih (x :: xs) ys (y :: acc)
            (by simp only [List.length_cons] at hf ⊢; omega) hx (List.Pairwise.of_cons hy)
          refine ⟨y :: M, by rw [e]; simp, ?_, ?_⟩
          · have : (y :: M).Perm (y :: (x :: xs ++ ys)) := List.Perm.cons y p
            exact this.trans List.perm_middle.symm
          · refine List.Pairwise.cons ?_ s
            intro z hz
            have hz' := (p.mem_iff).mp hz
            have hyx : key y ≤ key x := by omega
            rcases List.mem_append.mp hz' with h | h
            · rcases List.mem_cons.mp h with h | h
              · subst h; exact hyx
              · exact Nat.le_trans hyx ((List.pairwise_cons.mp hx).1 z h)
            · exact (List.pairwise_cons.mp hy).1 z h

/-! ### merge sort -/

theorem msortFuel_perm {α} (le : α → α → Bool) : ∀ (f : Nat) (l : List α),
    (msortFuel le f l).Perm l := by
  intro f
  induction f with
  | zero => intro l; exact List.Perm.refl _
  | succ f ih =>
    intro l
    simp only [msortFuel]
    split
    · exact List.Perm.refl _
    · refine (mergeTR_perm le _ _ _ []).trans ?_
      simp only [List.nil_append]
      refine (List.Perm.append (ih _) (ih _)).trans ?_
      rw [List.take_append_drop]

theorem pairwise_of_length_le_one {α} (R : α → α → Prop) (l : List α) (h : l.length < 2) :
    l.Pairwise R := by
  match l, h with
  | [], _ => exact List.Pairwise.nil
  | [a], _ => exact List.pairwise_singleton R a
  | _ :: _ :: _, h => simp at h; omega

theorem msortFuel_sorted {α} (key : α → Nat) : ∀ (f : Nat) (l : List α), l.length ≤ 2 ^ f →
    (msortFuel (fun a b => decide (key a ≤ key b)) f l).Pairwise (fun a b => key a ≤ key b) := by
  intro f
  induction f with
  | zero =>
    intro l hl
    simp only [msortFuel]
    exact pairwise_of_length_le_one _ _ (by simp at hl; omega)
  | succ f ih =>
    intro l hl
    simp only [msortFuel]
    split
    · rename_i h; exact pairwise_of_length_le_one _ _ h
    · have h2 : 2 ^ (f + 1) = 2 * 2 ^ f := by rw [Nat.pow_succ]; omega
      have s1 := ih (l.take (l.length / 2)) (by rw [List.length_take]; omega)
      have s2 := ih (l.drop (l.length / 2)) (by rw [List.length_drop]; omega)
      have l1 := (msortFuel_perm (fun a b => decide (key a ≤ key b)) f (l.take (l.length / 2))).length_eq
      have l2 := (msortFuel_perm (fun a b => decide (key a ≤ key b)) f (l.drop (l.length / 2))).length_eq
      obtain ⟨M, e, _, s⟩ := mergeTR_sorted key l.length _ _ []
        (by rw [l1, l2, List.length_take, List.length_drop]; omega) s1 s2
      rw [e]; simpa using s

/-! ### `sortedIds` -/

theorem lt_two_pow_self' (n : Nat) : n ≤ 2 ^ n := Nat.le_of_lt Nat.lt_two_pow_self

theorem sortedIds_perm (probs : Array Nat) : (sortedIds probs).Perm (List.range probs.size) :=
  msortFuel_perm _ _ _

theorem sortedIds_sorted (probs : Array Nat) :
    (sortedIds probs).Pairwise (fun i j => probs.getD i 0 ≤ probs.getD j 0) := by
  have := msortFuel_sorted (fun i => probs.getD i 0) probs.size (List.range probs.size)
    (by rw [List.length_range]; exact lt_two_pow_self' _)
  exact this

theorem sortedIds_lt (probs : Array Nat) (i : Nat) (h : i ∈ sortedIds probs) : i < probs.size := by
  have := ((sortedIds_perm probs).mem_iff).mp h
  simpa using this

theorem sortedIds_nodup (probs : Array Nat) : (sortedIds probs).Nodup :=
  ((sortedIds_perm probs).nodup_iff).mpr List.nodup_range

theorem sortedIds_length (probs : Array Nat) : (sortedIds probs).length = probs.size := by
  rw [(sortedIds_perm probs).length_eq, List.length_range]

end Draco
