import DracoModel.SeqEncoder
import DracoProofs.Scalar
import DracoProofs.Wrap
/-
  Pure list / byte lemmas used by the round-trip proofs of the sequential encoders.
-/
namespace Draco
open SeqEnc

/-! ### `allSome` -/

theorem allSome_eq_some {α : Type} : ∀ (l : List (Option α)) (r : List α), allSome l = some r →
    l = r.map some := by
  intro l
  induction l with
  | nil => intro r h; simp only [allSome, Option.some.injEq] at h; subst h; rfl
  | cons o os ih =>
    intro r h
    cases o with
    | none => simp [allSome] at h
    | some a =>
      simp only [allSome] at h
      split at h
      · cases h
      · rename_i as has
        simp only [Option.some.injEq] at h; subst h
        simp [ih as has]

theorem allSome_map {α β : Type} (f : α → Option β) (xs : List α) (r : List β)
    (h : allSome (xs.map f) = some r) :
    r.length = xs.length ∧ ∀ k (hk : k < xs.length) (hk' : k < r.length), f xs[k] = some r[k] := by
  have e := allSome_eq_some _ _ h
  have hl : xs.length = r.length := by simpa using congrArg List.length e
  refine ⟨hl.symm, fun k hk hk' => ?_⟩
  have := congrArg (fun l => l[k]?) e
  simpa [hk, hk'] using this

/-! ### little endian groups -/

theorem flatten_writeLE_length (n : Nat) (syms : List Nat) :
    (syms.map (writeLE n)).flatten.length = n * syms.length := by
  induction syms with
  | nil => simp
  | cons s ss ih => simp [writeLE_length, ih, Nat.mul_succ]; omega

theorem leGroupsAux_writeLE (n : Nat) (hn : 0 < n) : ∀ (syms : List Nat) (fuel : Nat) (acc : List Nat),
    (∀ s ∈ syms, s < 256 ^ n) → syms.length < fuel →
    leGroupsAux n fuel (syms.map (writeLE n)).flatten acc = acc.reverse ++ syms := by
  intro syms
  induction syms with
  | nil =>
    intro fuel acc _ hf
    cases fuel with
    | zero => simp at hf
    | succ f => simp [leGroupsAux]
  | cons s ss ih =>
    intro fuel acc hs hf
    cases fuel with
    | zero => simp at hf
    | succ f =>
      have hl := writeLE_length n s
      have hne : (writeLE n s ++ (ss.map (writeLE n)).flatten).isEmpty = false := by
        cases h : writeLE n s with
        | nil => rw [h] at hl; simp at hl; omega
        | cons _ _ => rfl
      have hn0 : (n == 0) = false := by simp; omega
      simp only [List.map_cons, List.flatten_cons, leGroupsAux, hne, hn0, Bool.or_self,
        Bool.false_eq_true, if_false]
      rw [List.take_left' hl, List.drop_left' hl, leValue_writeLE,
        Nat.mod_eq_of_lt (hs s (by simp)),
        ih f (s :: acc) (fun x hx => hs x (by simp [hx])) (by simpa using hf)]
      simp

theorem leGroups_writeLE (n : Nat) (hn : 0 < n) (syms : List Nat) (hs : ∀ s ∈ syms, s < 256 ^ n) :
    leGroups n (syms.map (writeLE n)).flatten = syms := by
  unfold leGroups
  rw [leGroupsAux_writeLE n hn syms _ [] hs]
  · simp
  · rw [flatten_writeLE_length]
    have : syms.length ≤ n * syms.length := Nat.le_mul_of_pos_left _ hn
    omega

/-! ### raw byte width -/

theorem le_foldl_or : ∀ (l : List Nat) (a : Nat), a ≤ l.foldl (· ||| ·) a ∧ ∀ s ∈ l, s ≤ l.foldl (· ||| ·) a := by
  intro l
  induction l with
  | nil => intro a; simp
  | cons x xs ih =>
    intro a
    obtain ⟨h1, h2⟩ := ih (a ||| x)
    simp only [List.foldl_cons, List.mem_cons]
    refine ⟨Nat.le_trans Nat.left_le_or h1, ?_⟩
    rintro s (rfl | hs)
    · exact Nat.le_trans Nat.right_le_or h1
    · exact h2 s hs

theorem foldl_or_lt (k : Nat) : ∀ (l : List Nat) (a : Nat), a < 2 ^ k → (∀ s ∈ l, s < 2 ^ k) →
    l.foldl (· ||| ·) a < 2 ^ k := by
  intro l
  induction l with
  | nil => intro a ha _; simpa using ha
  | cons x xs ih =>
    intro a ha hs
    simp only [List.foldl_cons]
    exact ih _ (Nat.or_lt_two_pow ha (hs x (by simp))) (fun s h => hs s (by simp [h]))

theorem pow256 (k : Nat) : 256 ^ k = 2 ^ (8 * k) := by
  rw [Nat.pow_mul]

theorem rawNumBytes_spec (syms : List Nat) (h32 : ∀ s ∈ syms, s < 2 ^ 32) :
    1 ≤ rawNumBytes syms ∧ rawNumBytes syms ≤ 4 ∧ ∀ s ∈ syms, s < 256 ^ rawNumBytes syms := by
  unfold rawNumBytes
  generalize hm : syms.foldl (· ||| ·) 0 = masked
  have hle : ∀ s ∈ syms, s ≤ masked := by
    intro s hs; rw [← hm]; exact (le_foldl_or syms 0).2 s hs
  have hlt : masked < 2 ^ 32 := by
    rw [← hm]; exact foldl_or_lt 32 syms 0 (by decide) h32
  by_cases h0 : masked = 0
  · subst h0
    simp only [bne_self_eq_false, Bool.false_eq_true, if_false, Nat.zero_div, Nat.add_zero]
    refine ⟨by omega, by omega, fun s hs => ?_⟩
    have := hle s hs
    omega
  · have hb : (masked != 0) = true := by simpa using h0
    simp only [hb, if_true]
    have hlog : Nat.log2 masked < 32 := (Nat.log2_lt h0).2 hlt
    refine ⟨by omega, by omega, fun s hs => ?_⟩
    have h1 : s ≤ masked := hle s hs
    have h2 : masked < 2 ^ (Nat.log2 masked + 1) := Nat.lt_log2_self
    have h3 : 2 ^ (Nat.log2 masked + 1) ≤ 2 ^ (8 * (1 + Nat.log2 masked / 8)) :=
      Nat.pow_le_pow_right (by decide) (by omega)
    rw [pow256]
    omega

/-! ### integer conversions -/

theorem toSymbol32 (x : Int) (h1 : -2 ^ 31 ≤ x) (h2 : x < 2 ^ 31) :
    ofSymbol (toSymbol 32 x) = x ∧ toSymbol 32 x < 2 ^ 32 :=
  ofSymbol_toSymbol 32 (by decide) x (by simpa using h1) (by simpa using h2)

theorem map_ofSymbol_toSymbol (l : List Int) (h : ∀ x ∈ l, -2 ^ 31 ≤ x ∧ x < 2 ^ 31) :
    (l.map (toSymbol 32)).map ofSymbol = l := by
  induction l with
  | nil => rfl
  | cons x xs ih =>
    simp only [List.map_cons, (toSymbol32 x (h x (by simp)).1 (h x (by simp)).2).1,
      ih (fun y hy => h y (by simp [hy]))]

theorem map_toSigned_toUnsigned (l : List Int) (h : ∀ x ∈ l, -2 ^ 31 ≤ x ∧ x < 2 ^ 31) :
    (l.map (toUnsigned 32)).map (toSigned 32) = l := by
  induction l with
  | nil => rfl
  | cons x xs ih =>
    simp only [List.map_cons, Wrap.toSigned_toUnsigned32 x (h x (by simp)).1 (h x (by simp)).2,
      ih (fun y hy => h y (by simp [hy]))]

theorem toUnsigned32_lt' (x : Int) : toUnsigned 32 x < 2 ^ 32 := by
  have := Wrap.toUnsigned32_lt x
  simpa using this

/-! ### entries -/

theorem entriesOf_spec (nc : Nat) (hnc : 0 < nc) : ∀ (n fuel : Nat) (l : List Int),
    l.length = n * nc → n ≤ fuel →
    (entriesOf nc fuel l).flatten = l ∧ (entriesOf nc fuel l).length = n ∧
      ∀ e ∈ entriesOf nc fuel l, e.length = nc ∧ ∀ x ∈ e, x ∈ l := by
  intro n
  induction n with
  | zero =>
    intro fuel l hl _
    have : l = [] := by simpa using hl
    subst this
    cases fuel <;> simp [entriesOf]
  | succ n ih =>
    intro fuel l hl hf
    cases fuel with
    | zero => omega
    | succ f =>
      have hlen : nc ≤ l.length := by rw [hl, Nat.succ_mul]; omega
      have hne : l.isEmpty = false := by
        cases l with
        | nil => simp at hlen; omega
        | cons _ _ => rfl
      obtain ⟨i1, i2, i3⟩ := ih f (l.drop nc) (by rw [List.length_drop, hl, Nat.succ_mul]; omega) (by omega)
      simp only [entriesOf, hne, Bool.false_eq_true, if_false, List.flatten_cons, i1, List.take_append_drop,
        List.length_cons, i2, List.mem_cons, true_and]
      rintro e (rfl | he)
      · exact ⟨by rw [List.length_take]; omega, fun x hx => List.mem_of_mem_take hx⟩
      · exact ⟨(i3 e he).1, fun x hx => List.mem_of_mem_drop ((i3 e he).2 x hx)⟩

/-- an entry of a normal attribute's portable data: a canonical point of the grid -/
def OctaEntry (t : OctaT) (e : List Int) : Prop :=
  ∃ a b, e = [a, b] ∧ Octa.inGrid t (a, b) ∧ Octa.canonical t (a, b)

end Draco
