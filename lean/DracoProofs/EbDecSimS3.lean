import DracoProofs.EbDecSimS2
import DracoProofs.EbDecSimStart
import DracoProofs.EbCompact
import DracoProofs.EbTraceS4
import DracoProofs.EbConnGlueS2
/-
  THE DECODER LOOP WITH `S` AND SPLIT EVENTS, boundary start faces: `connLoop = connMain >>= connStart >>= connCompact`
  assembled from `connMain_StS` (DracoProofs/EbDecSimS2.lean), `connStart_ok` (DracoProofs/EbDecSimStart.lean), the
  compaction specification `Compact.CompactSpec` (DracoProofs/EbCompact.lean, a HYPOTHESIS here) and the pure simulation
  `ctIso_StS_closed` (DracoProofs/EbTraceS4.lean).
-/
namespace Draco.EbEnc.DecSim
open Draco Draco.EbEnc
open Draco.Eb (inv connLoop connMain connStart connCompact ConnMain ConnStart ConnIn ConnOut Trav R decodeSymbolStd TopoSplit)
open Draco.EbEnc.ConnTri (RdS)
open Draco.EbEnc.Coverage (TblOK)

/-- the result of the symbol loop, a function of the symbols and the events -/
def mainS (syms : List Nat) (evs : List TopoSplit) (nf nv : Nat) : ConnMain :=
  mainOfDSS (StS syms evs nf nv syms.length) syms.length (tagsS syms evs nf nv)

/-- **the decoder loop with `S`, boundary start faces** (abstract form): ONE result `co` for every traversal state that
    delivers the symbols and `k` start-face bits `false` (`k` = the number of components left on the stack), and its table
    is isomorphic to the encoder's.  `hcomp`: the compaction specification (`Compact.CompactSpec`) -/
theorem connLoop_StS {t : CT} {P : Array Nat} {syms : List Nat} {evs : List TopoSplit} {starts : List (Bool × Nat)}
    (hT : TblOK t) (hTr : TraceS t P syms evs starts) (hn : P.size = syms.length) (nv k : Nat)
    (hsz : 3 * syms.length + 2 < 2 ^ 31) (hE : EvSorted syms evs)
    (hG : ∀ j, j < syms.length → GuardsS syms evs P.size nv j)
    (hv : (StS syms evs P.size nv syms.length).vc.size ≤ nv)
    (hk : (StS syms evs P.size nv syms.length).stack.size = k)
    (hcov : ∀ d, d < 3 * P.size → ∃ k, iter (AttViews.sRP t.opp) k t.vc[t.c2v[phi P d]!]! = phi P d)
    (hvlt : ∀ d, d < 3 * P.size → t.c2v[phi P d]! < t.numVertices)
    (hcomp : ∃ co, Compact.CompactSpec ⟨P.size, nv, syms.length, evs, true⟩ (mainS syms evs P.size nv)
      (startOf (mainS syms evs P.size nv)) co) :
    ∃ co : ConnOut,
      (∀ tr, ConnGlue.Delivers tr syms (List.replicate k false) →
        connLoop ⟨P.size, nv, syms.length, evs, true⟩ tr = .ok co) ∧
      CTIso t P P.size co.c2v co.opp := by
  obtain ⟨co, hc⟩ := hcomp
  refine ⟨co, ?_, ?_⟩
  · intro tr hD
    obtain ⟨hkind, hleg, hsym, hsf⟩ := hD
    unfold connLoop
    rw [connMain_StS syms evs P.size nv tr hkind hsym hsz hE hG hv]
    show (connStart _ tr (mainS syms evs P.size nv) >>= fun s => connCompact _ (mainS syms evs P.size nv) s) = _
    rw [connStart_ok ⟨P.size, nv, syms.length, evs, true⟩ tr hleg (mainS syms evs P.size nv) hn.symm (by
      show Yields RAnsBitDec.nextBit tr.startFace (List.replicate (StS syms evs P.size nv syms.length).stack.size false)
      rw [hk]; exact hsf)]
    exact hc.run
  · have h := ctIso_StS_closed hT hTr hn nv hcov hvlt
    exact (Compact.ctIso_compact (ci := ⟨P.size, nv, syms.length, evs, true⟩) (m := mainS syms evs P.size nv)
      (s := startOf (mainS syms evs P.size nv)) h hc).1

/-- `EvSorted` is a consequence of `EvOK` -/
theorem evSorted_of_evOK {syms : List Nat} {evs : List TopoSplit} (h : EvOK syms evs) : EvSorted syms evs := by
  obtain ⟨h1, _, h3⟩ := h
  refine ⟨by simpa [List.pairwise_map] using h3, fun ev hev => ?_⟩
  obtain ⟨a, b, _, _, e⟩ := h1 ev hev
  exact ⟨a, by omega, e⟩

/-- the number of components left on the stack after the symbol loop -/
theorem stack_size_StS {t : CT} {P : Array Nat} {syms : List Nat} {evs : List TopoSplit} {starts : List (Bool × Nat)}
    (hTr : TraceS t P syms evs starts) (nf nv : Nat) (hfit : 3 * syms.length ≤ inv) :
    (StS syms evs nf nv syms.length).stack.size = starts.length := by
  have h := (stkInv_of_trace hTr nf nv hfit syms.length (Nat.le_refl _)).stack
  have hc := congrArg List.length hTr.comps
  rw [h]
  simp at hc ⊢
  omega

/-- **`decLoopIsoS_of_parts`**: the decoder loop for a run of the encoder with `S` / split events and boundary start faces
    only, from the abstract trace, the decoder's checks on the pure run (`hG`), the vertex bound (`hv`) and the compaction
    specification (`hcomp`) -/
theorem decLoopIsoS_of_parts (ch : ConnChoices) (pf : Faces) (conn : ConnEnc)
    (h : encodeConnectivity ch false pf #[] = .ok conn) (starts : List (Bool × Nat))
    (hTr : TraceS conn.ct conn.processed conn.symbols.toList.reverse conn.splits.toList.reverse starts)
    (hn : conn.processed.size = conn.symbols.size)
    (hflags : conn.startFaces.toList = List.replicate starts.length false)
    (hsz : 3 * conn.symbols.size + 2 < 2 ^ 31)
    (hG : ∀ j, j < conn.symbols.toList.reverse.length → GuardsS conn.symbols.toList.reverse conn.splits.toList.reverse
      conn.processed.size (conn.ct.numVertices - conn.ct.numIsolated + conn.numSplitSymbols) j)
    (hv : (StS conn.symbols.toList.reverse conn.splits.toList.reverse conn.processed.size
      (conn.ct.numVertices - conn.ct.numIsolated + conn.numSplitSymbols) conn.symbols.toList.reverse.length).vc.size ≤
        conn.ct.numVertices - conn.ct.numIsolated + conn.numSplitSymbols)
    (hcomp : ∃ co, Compact.CompactSpec ⟨conn.processed.size, conn.ct.numVertices - conn.ct.numIsolated + conn.numSplitSymbols,
        conn.symbols.toList.reverse.length, conn.splits.toList.reverse, true⟩
      (mainS conn.symbols.toList.reverse conn.splits.toList.reverse conn.processed.size
        (conn.ct.numVertices - conn.ct.numIsolated + conn.numSplitSymbols))
      (startOf (mainS conn.symbols.toList.reverse conn.splits.toList.reverse conn.processed.size
        (conn.ct.numVertices - conn.ct.numIsolated + conn.numSplitSymbols))) co) :
    ConnGlueS.DecLoopIsoS conn := by
  have e : conn.symbols.toList.reverse.length = conn.symbols.size := by simp
  have hT : TblOK conn.ct := (EncTraceS.traceS_base_of_run ch pf conn h).1
  obtain ⟨hcov, hvlt⟩ := EncTrace.cover_of_run ch false pf #[] conn h
  have hfit : 3 * conn.symbols.toList.reverse.length ≤ inv := by rw [e]; unfold inv; omega
  obtain ⟨co, h1, h2⟩ := connLoop_StS hT hTr (by rw [e]; exact hn) _ starts.length (by rw [e]; exact hsz)
    (evSorted_of_evOK hTr.evok) hG hv (stack_size_StS hTr _ _ hfit) hcov hvlt hcomp
  refine ⟨co, ?_, h2⟩
  intro tr hD
  rw [hflags] at hD
  have := h1 tr hD
  rw [e] at this
  exact this

open Draco.SeqEnc DecM in
/-- **the connectivity round trip with `S` and split events, boundary start faces**, through
    `ConnGlueS.eb_connectivity_roundtrip_withS'`: the decoder's domain checks, the abstract trace, the decoder's checks on the
    pure run, the vertex bound and the compaction specification -/
theorem eb_connectivity_roundtrip_withS_of_parts (ch : ConnChoices) (pf : Faces) (conn : ConnEnc)
    (h : encodeConnectivity ch false pf #[] = .ok conn)
    (hnf : conn.processed.size ≤ 2 ^ 21)
    (hnv : conn.ct.numVertices - conn.ct.numIsolated + conn.numSplitSymbols ≤ 3 * 2 ^ 21)
    (hedge : 3 * conn.processed.size / 2 ≤
      (conn.ct.numVertices - conn.ct.numIsolated) * (conn.ct.numVertices - conn.ct.numIsolated - 1) / 2)
    (hsz2 : conn.processed.size ≤ conn.symbols.size + conn.symbols.size / 3)
    (starts : List (Bool × Nat))
    (hTr : TraceS conn.ct conn.processed conn.symbols.toList.reverse conn.splits.toList.reverse starts)
    (hn : conn.processed.size = conn.symbols.size)
    (hflags : conn.startFaces.toList = List.replicate starts.length false)
    (hG : ∀ j, j < conn.symbols.toList.reverse.length → GuardsS conn.symbols.toList.reverse conn.splits.toList.reverse
      conn.processed.size (conn.ct.numVertices - conn.ct.numIsolated + conn.numSplitSymbols) j)
    (hv : (StS conn.symbols.toList.reverse conn.splits.toList.reverse conn.processed.size
      (conn.ct.numVertices - conn.ct.numIsolated + conn.numSplitSymbols) conn.symbols.toList.reverse.length).vc.size ≤
        conn.ct.numVertices - conn.ct.numIsolated + conn.numSplitSymbols)
    (hcomp : ∃ co, Compact.CompactSpec ⟨conn.processed.size, conn.ct.numVertices - conn.ct.numIsolated + conn.numSplitSymbols,
        conn.symbols.toList.reverse.length, conn.splits.toList.reverse, true⟩
      (mainS conn.symbols.toList.reverse conn.splits.toList.reverse conn.processed.size
        (conn.ct.numVertices - conn.ct.numIsolated + conn.numSplitSymbols))
      (startOf (mainS conn.symbols.toList.reverse conn.splits.toList.reverse conn.processed.size
        (conn.ct.numVertices - conn.ct.numIsolated + conn.numSplitSymbols))) co) :
    ∃ mesh, Runs Eb.decodeConnectivity 514 ([0] ++ conn.bytes) mesh 514 ∧
      CTIso conn.ct conn.processed mesh.numFaces mesh.c2v mesh.opp ∧ mesh.atts.size = conn.atts.size :=
  ConnGlueS.eb_connectivity_roundtrip_withS' ch pf conn h hnf hnv hedge hsz2
    (decLoopIsoS_of_parts ch pf conn h starts hTr hn hflags (by omega) hG hv hcomp)

end Draco.EbEnc.DecSim
