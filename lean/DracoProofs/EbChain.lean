import DracoProofs.EbIsoCheck
import DracoProofs.EbPredEquiv
import DracoProofs.EbTravEquiv
/-
  The chain from the isomorphism of the table VIEWS to the value block:
    TVIso (views)  —traversal_mdIso→  MDIso (sequences)  —encodeSchemeBlock_iso→  block invariance
                   —runs_valueBlock→  the decoder, on ITS mesh data, reads the encoder's block back.
-/
namespace Draco.EbEnc
open Draco Draco.SeqEnc DecM
open Draco.Eb hiding iabs nextC prevC

theorem oppInvolCheck_sound (t : TView) (h : oppInvolCheck t = true) : OppInvol t := by
  intro c o hc hco hne
  have := List.all_eq_true.mp h c (List.mem_range.mpr hc)
  rw [hco] at this
  simp only [Bool.or_eq_true, beq_iff_eq] at this
  rcases this with e | e
  · exact absurd e hne
  · exact resEq_sound _ _ e

theorem hedgeCheck_sound (t : TView) (h : hedgeCheck t = true) : Hedge t := by
  intro c hc o hco hne
  have := List.all_eq_true.mp h c (List.mem_range.mpr hc)
  rw [hco] at this
  simp only [Bool.or_eq_true, beq_iff_eq, Bool.and_eq_true] at this
  rcases this with e | e
  · exact absurd e hne
  · exact ⟨resEq_sound _ _ e.1, resEq_sound _ _ e.2⟩

/-- the value block with isomorphic mesh data: block invariance is no longer a hypothesis -/
theorem runs_valueBlock_iso (ch : EbChoices) (o : EncOpts) (attId kind nc numValues n attComponents : Nat)
    (scheme : PScheme) (mdE mdD : MeshData) (φ ψ : Nat → Nat) (hiso : MDIso mdD mdE φ ψ) (hinvol : OppInvol mdD.t)
    (pointIdsE pointIdsD : Array Nat) (parentE : Option ParentAtt)
    (parentD : Option Parent) (portable : Array Int) (sch' : PScheme) (bs : Bytes)
    (hnv : numValues ≠ 0) (hk : SchemeKindOK kind scheme)
    (hparD : ∀ posE, encParentSource (effectiveScheme scheme portable) pointIdsE parentE = .ok posE →
      DecParentOK (effectiveScheme scheme portable) parentD pointIdsD posE)
    (hnc : 0 < nc) (hn : 0 < n) (hlen : portable.size = n * nc) (hd : mdD.d2c.size = n) (h32 : n * nc < 2 ^ 32)
    (hr : ∀ x ∈ portable.toList, -2 ^ 31 ≤ x ∧ x < 2 ^ 31)
    (hk3 : kind = 3 → NormalsOK o attId nc n portable)
    (hF : 3 * mdD.t.numFaces + 3 < 2 ^ 31) (hcorners : n ≤ 3 * mdD.t.numFaces)
    (hcrease : scheme = .constrainedMulti → CreaseCountOK ch attId nc mdD portable)
    (henc : encodeIntegerValuesEb ch o attId kind nc numValues scheme mdE pointIdsE parentE portable = .ok (sch', bs)) :
    Runs (decodeIntegerValuesEb kind n nc attComponents mdD pointIdsD parentD) 514 bs
      (portable, TransformData.none) 514 :=
  (runs_valueBlock ch o attId kind nc numValues n attComponents scheme mdE mdD pointIdsE pointIdsD parentE parentD portable
    sch' bs hnv hk (fun posE _ => encodeSchemeBlock_iso hiso hinvol ch o attId kind nc _ posE portable) hparD hnc hn hlen hd
    h32 hr hk3 hF hcorners hcrease henc).2

/-- the two traversers: the decoder's run on its view `d` from every face, the encoder's on its view `e` along
    `order`, with the same method -/
def TraversalRuns (d e : TView) (facesD facesE order v2dInit : Array Nat) (v2dSize : Nat) (outD outE : SeqOut) : Prop :=
  (depthFirst d facesD v2dSize = .ok outD ∧ depthFirstOrder e facesE order v2dInit = .ok outE) ∨
  (maxPredictionDegree d facesD v2dSize = .ok outD ∧ maxPredictionDegreeOrder e facesE order v2dInit = .ok outE)

theorem phi_three (p : Array Nat) (i : Nat) : phi p (3 * i) = p[i]! := by
  unfold phi
  have e1 : 3 * i / 3 = i := by omega
  have e2 : 3 * i % 3 = 0 := by omega
  simp [e1, e2]

/-- **from the isomorphism of the views to the value block**: `TVIso` of the decoder's and the encoder's view under
    the corner map of `processed`, the structural properties `Hedge` / `OppInvol` of the decoder's view, both
    traversal runs successful ⇒ the decoder — on the sequence IT generated — reads the block the encoder wrote on
    the sequence the ENCODER generated. -/
theorem runs_valueBlock_views (ch : EbChoices) (o : EncOpts) (attId kind nc numValues attComponents : Nat)
    (scheme : PScheme) (d e : TView) (processed : Array Nat) (ψ : Nat → Nat) (h : TVIso d e (phi processed) ψ)
    (hg : Hedge d) (hinvol : OppInvol d) (hsize : processed.size = d.numFaces)
    (facesD facesE v2dInit : Array Nat) (v2dSize : Nat) (outD outE : SeqOut)
    (htrav : TraversalRuns d e facesD facesE processed v2dInit v2dSize outD outE)
    (parentE : Option ParentAtt) (parentD : Option Parent) (portable : Array Int) (sch' : PScheme) (bs : Bytes)
    (hnv : numValues ≠ 0) (hk : SchemeKindOK kind scheme)
    (hparD : ∀ posE, encParentSource (effectiveScheme scheme portable) outE.pointIds parentE = .ok posE →
      DecParentOK (effectiveScheme scheme portable) parentD outD.pointIds posE)
    (hnc : 0 < nc) (hn : 0 < outD.pointIds.size) (hlen : portable.size = outD.pointIds.size * nc)
    (hd : outD.d2c.size = outD.pointIds.size) (h32 : outD.pointIds.size * nc < 2 ^ 32)
    (hr : ∀ x ∈ portable.toList, -2 ^ 31 ≤ x ∧ x < 2 ^ 31)
    (hk3 : kind = 3 → NormalsOK o attId nc outD.pointIds.size portable)
    (hF : 3 * d.numFaces + 3 < 2 ^ 31) (hcorners : outD.pointIds.size ≤ 3 * d.numFaces)
    (hcrease : scheme = .constrainedMulti → CreaseCountOK ch attId nc ⟨d, outD.d2c, outD.v2d⟩ portable)
    (henc : encodeIntegerValuesEb ch o attId kind nc numValues scheme ⟨e, outE.d2c, outE.v2d⟩ outE.pointIds parentE
      portable = .ok (sch', bs)) :
    Runs (decodeIntegerValuesEb kind outD.pointIds.size nc attComponents ⟨d, outD.d2c, outD.v2d⟩ outD.pointIds parentD)
      514 bs (portable, TransformData.none) 514 := by
  have horder : ∀ i, i < d.numFaces → processed[i]! = phi processed (3 * i) := fun i _ => (phi_three processed i).symm
  have hiso : MDIso ⟨d, outD.d2c, outD.v2d⟩ ⟨e, outE.d2c, outE.v2d⟩ (phi processed) ψ := by
    rcases htrav with ⟨hD, hE⟩ | ⟨hD, hE⟩
    · exact traversal_mdIso h hg processed v2dInit v2dSize hsize horder outD outE hD hE
    · exact traversal_mdIso_mpd h hg processed v2dInit v2dSize hsize horder outD outE hD hE
  exact runs_valueBlock_iso ch o attId kind nc numValues _ attComponents scheme _ _ _ ψ hiso hinvol _ _ parentE parentD
    portable sch' bs hnv hk hparD hnc hn hlen hd h32 hr hk3 hF hcorners hcrease henc

/-- **checked form**: the op's checker `valueBlockHypsIso` reporting no failing hypothesis, the two traversal runs
    and the encoder's run on its own sequence ⇒ the decoder on its own sequence reads the block back -/
theorem value_block_checked_iso (ch : EbChoices) (o : EncOpts) (b : ValueBlock) (attComponents : Nat)
    (viewD : TView) (seqD seqE : SeqOut) (parentD : Option Parent) (processed psi back cback : Array Nat)
    (facesD facesE v2dInit : Array Nat) (v2dSize : Nat)
    (hy : valueBlockHypsIso ch o b viewD seqD parentD (phiOf processed) psi back cback = [])
    (hsize : processed.size = viewD.numFaces)
    (htrav : TraversalRuns viewD b.md.t facesD facesE processed v2dInit v2dSize seqD seqE)
    (hmd : b.md = ⟨b.md.t, seqE.d2c, seqE.v2d⟩) (hpid : b.pointIds = seqE.pointIds)
    (henc : encodeIntegerValuesEb ch o b.attId b.kind b.nc b.numValues b.scheme b.md b.pointIds b.parent b.portable =
      .ok (b.outScheme, b.bytes)) :
    Runs (decodeIntegerValuesEb b.kind seqD.pointIds.size b.nc attComponents ⟨viewD, seqD.d2c, seqD.v2d⟩ seqD.pointIds
      parentD) 514 b.bytes (b.portable, TransformData.none) 514 := by
  unfold valueBlockHypsIso at hy
  simp only [List.append_eq_nil_iff] at hy
  obtain ⟨⟨⟨⟨⟨⟨⟨⟨⟨⟨t1, t2⟩, t3⟩, h1⟩, h2⟩, h3⟩, h4⟩, h5⟩, h6⟩, h7⟩, h8⟩ := hy
  have t1 := bad_nil t1
  have t2 := bad_nil t2
  have t3 := bad_nil t3
  have h1 := bad_nil h1
  have h2 := bad_nil h2
  have h4 := bad_nil h4
  have h5 := bad_nil h5
  have h6 := bad_nil h6
  have h7 := bad_nil h7
  have h8 := bad_nil h8
  simp only [Bool.and_eq_true, decide_eq_true_eq, beq_iff_eq] at h4 h7
  obtain ⟨⟨⟨⟨hnc, hn⟩, hlen⟩, hd⟩, h32⟩ := h4
  rw [phiOf_eq_phi] at t1
  have hiso := tvIsoCheck_sound _ _ _ _ _ _ t1
  rw [hmd, hpid] at henc
  rw [hpid] at h3
  refine runs_valueBlock_views ch o b.attId b.kind b.nc b.numValues attComponents b.scheme viewD b.md.t processed _ hiso
    (hedgeCheck_sound _ t2) (oppInvolCheck_sound _ t3) hsize facesD facesE v2dInit v2dSize seqD seqE htrav b.parent parentD
    b.portable b.outScheme b.bytes (by simpa using h1) (schemeKindOk_sound _ _ h2) ?_ hnc hn hlen hd h32
    (int32All_sound _ h5) ?_ h7.1 h7.2 ?_ henc
  · intro posE hpos
    rw [hpos] at h3
    exact decParentOk_sound _ _ _ _ (bad_nil h3)
  · intro hk
    have : (b.kind != 3) = false := by simp [hk]
    rw [this, Bool.false_or] at h6
    exact normalsOk_sound _ _ _ _ _ h6
  · intro hs
    have : (b.scheme == PScheme.constrainedMulti) = true := by rw [hs]; rfl
    rw [this] at h8
    simp only [Bool.not_true, Bool.false_or] at h8
    exact creaseCountOk_sound _ _ _ _ _ h8

end Draco.EbEnc
