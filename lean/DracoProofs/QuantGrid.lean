import DracoProofs.QuantFloat
import DracoProofs.QuantOracles
import DracoProofs.QuantPipeline
/-
  A finer float model than `RoundingModel`: every operation is the exact result followed by ONE
  rounding function `rnd` that is monotone, has relative error `u` and is the identity on the
  numbers `n / 2^j` with `|n| ≤ 2^24` (the binary32 values, exponent range ignored).

  Under this model `Quantizer::QuantizeFloat` stays within `[0, 2^q - 1]` for `q ≤ 22`
  (`u ≤ 2^-24`): the scaled value is at most `M(1+u) < M + 1/4`, the grid point `M + 1/4` stops
  the rounding of the product, and `M + 3/4` stops the rounding of the sum.  For `q = 23` the
  grid spacing at `M` is `1/2` and the argument (and the statement, see DracoProps.C12) fails.
-/
namespace Draco
namespace Quant

structure GridModel (ops : FloatOps ℚ) (rnd : ℚ → ℚ) (u : ℚ) : Prop where
  add : ∀ a b, ops.add a b = rnd (a + b)
  sub : ∀ a b, ops.sub a b = rnd (a - b)
  mul : ∀ a b, ops.mul a b = rnd (a * b)
  div : ∀ a b, ops.div a b = rnd (a / b)
  ofInt : ∀ k : Int, ops.ofInt k = rnd (k : ℚ)
  floor : ∀ x, ops.floorToInt x = ⌊x⌋
  half : ops.half = 1/2
  mono : ∀ a b, a ≤ b → rnd a ≤ rnd b
  rel : ∀ y, |rnd y - y| ≤ u * |y|
  exact : ∀ (n : Int) (j : Nat), |n| ≤ 2^24 → rnd ((n:ℚ) / 2^j) = (n:ℚ) / 2^j

theorem exactOps_grid : GridModel exactOps id 0 where
  add _ _ := rfl
  sub _ _ := rfl
  mul _ _ := rfl
  div _ _ := rfl
  ofInt _ := rfl
  floor _ := rfl
  half := rfl
  mono _ _ h := h
  rel y := by simp
  exact _ _ _ := rfl

/-- every operation INCLUDING the `int → float` conversion is biased by `1 + e` (allowed by
    `RoundingModel`, which does not know that small integers are representable) -/
@[reducible] def biasedAllOps (e : ℚ) : FloatOps ℚ where
  add a b := (a + b) * (1 + e)
  sub a b := (a - b) * (1 + e)
  mul a b := (a * b) * (1 + e)
  div a b := (a / b) * (1 + e)
  ofInt k := (k : ℚ) * (1 + e)
  floorToInt x := ⌊x⌋
  lt a b := decide (a < b)
  eq a b := decide (a = b)
  isNaN _ := false
  isInf _ := false
  zero := 0
  one := 1
  half := 1/2
  ofBits _ := 0
  toBits _ := 0

theorem biasedAllOps_model (e u : ℚ) (h : |e| ≤ u) : RoundingModel (biasedAllOps e) u where
  add _ _ := ⟨e, h, rfl⟩
  sub _ _ := ⟨e, h, rfl⟩
  mul _ _ := ⟨e, h, rfl⟩
  div _ _ _ := ⟨e, h, rfl⟩
  ofInt _ := ⟨e, h, rfl⟩
  floor _ := rfl
  half := rfl

/-- binary32 values as 32-bit patterns; the arithmetic is not modelled (constant 0), only the
    `float ↔ bits` conversion that `EncodeParameters` / `DecodeParameters` use -/
@[reducible] def bitsOps : FloatOps (Fin (2^32)) where
  add _ _ := ⟨0, by decide⟩
  sub _ _ := ⟨0, by decide⟩
  mul _ _ := ⟨0, by decide⟩
  div _ _ := ⟨0, by decide⟩
  ofInt _ := ⟨0, by decide⟩
  floorToInt _ := 0
  lt a b := decide (a < b)
  eq a b := decide (a = b)
  isNaN _ := false
  isInf _ := false
  zero := ⟨0, by decide⟩
  one := ⟨0x3f800000, by decide⟩
  half := ⟨0x3f000000, by decide⟩
  ofBits n := ⟨n % 2^32, Nat.mod_lt _ (by decide)⟩
  toBits x := x.val

theorem bitsOps_roundtrip : @BitsRoundTrip (Fin (2^32)) bitsOps := by
  intro x
  refine ⟨x.isLt, ?_⟩
  apply Fin.ext
  show x.val % 2^32 = x.val
  exact Nat.mod_eq_of_lt x.isLt

section grid
variable (ops : FloatOps ℚ) {rnd : ℚ → ℚ} {u : ℚ} (hg : GridModel ops rnd u)
include hg

theorem grid_rnd_int (n : Int) (h : |n| ≤ 2^24) : rnd (n : ℚ) = (n : ℚ) := by
  have := hg.exact n 0 h
  simpa using this

theorem grid_rnd_quarter (n : Int) (h : |n| ≤ 2^24) : rnd ((n : ℚ) / 4) = (n : ℚ) / 4 := by
  have := hg.exact n 2 h
  norm_num at this
  exact this

/-- `0 ≤ quantize x ≤ 2^q - 1` for `q ≤ 22`, `x` inside the box, representable range -/
theorem grid_quantize_range (hu0 : 0 ≤ u) (hu : u ≤ 1/2^24) (p : QParams ℚ) (q c : Nat) (x : ℚ)
    (hq : 1 ≤ q) (hq22 : q ≤ 22) (hR : 0 < p.range) (hRrep : rnd p.range = p.range)
    (hx1 : @minOf ℚ ops p c ≤ x) (hx2 : x ≤ @minOf ℚ ops p c + p.range) :
    0 ≤ @quantize ℚ ops p q c x ∧ @quantize ℚ ops p q c x ≤ 2^q - 1 := by
  set m := @minOf ℚ ops p c with hmdef
  set R := p.range with hRdef
  have hk : @quantize ℚ ops p q c x
      = ops.floorToInt (ops.add (ops.mul (ops.sub x m)
          (ops.div (ops.ofInt (maxQuantizedValue q)) R)) ops.half) := rfl
  -- M = 2^q - 1 as integer and as rational
  have hpow : (2:Int)^q ≤ 2^22 := pow_le_pow_right₀ (by norm_num) hq22
  have hpow1 : (2:Int)^1 ≤ 2^q := pow_le_pow_right₀ (by norm_num) hq
  have hMabs : |maxQuantizedValue q| ≤ 2^24 := by
    simp only [maxQuantizedValue]
    rw [abs_of_nonneg (by omega)]
    omega
  have hMrat : ((maxQuantizedValue q : Int) : ℚ) = (2:ℚ)^q - 1 := maxQ_cast q
  set M : ℚ := (2:ℚ)^q - 1 with hMdef
  have hM1 : 1 ≤ M := maxQ_ge_one hq
  have hMle : M ≤ 2^22 - 1 := by
    have : (2:ℚ)^q ≤ 2^22 := pow_le_pow_right₀ (by norm_num) hq22
    linarith
  have hofInt : ops.ofInt (maxQuantizedValue q) = M := by
    rw [hg.ofInt, grid_rnd_int ops hg _ hMabs, hMrat]
  have hr0 : rnd 0 = 0 := by
    have := grid_rnd_int ops hg 0 (by norm_num)
    simpa using this
  -- val = rnd (x - m) ∈ [0, R]
  have hv0 : 0 ≤ rnd (x - m) := by
    have := hg.mono 0 (x - m) (by linarith); rwa [hr0] at this
  have hvR : rnd (x - m) ≤ R := by
    have := hg.mono (x - m) R (by linarith); rwa [hRrep] at this
  -- inv = rnd (M / R) ∈ [0, (M/R)(1+u)]
  have hMR : 0 < M / R := div_pos (by linarith) hR
  have hi0 : 0 ≤ rnd (M / R) := by
    have := hg.mono 0 (M / R) hMR.le; rwa [hr0] at this
  have hiu : rnd (M / R) ≤ (M / R) * (1 + u) := by
    have := hg.rel (M / R)
    rw [abs_of_pos hMR] at this
    have := (abs_le.mp this).2
    linarith
  -- product ≤ M (1 + u) < M + 1/4
  have hprod : rnd (x - m) * rnd (M / R) ≤ M * (1 + u) := by
    calc rnd (x - m) * rnd (M / R) ≤ R * ((M / R) * (1 + u)) :=
          mul_le_mul hvR hiu hi0 hR.le
      _ = M * (1 + u) := by field_simp
  have hMu : M * u ≤ 1/4 := by
    have h1 : M * u ≤ (2^22 - 1) * (1/2^24) :=
      mul_le_mul hMle hu hu0 (by norm_num)
    have h2 : ((2:ℚ)^22 - 1) * (1/2^24) ≤ 1/4 := by norm_num
    linarith
  have hq1 : |(4 * maxQuantizedValue q + 1 : Int)| ≤ 2^24 := by
    simp only [maxQuantizedValue]
    rw [abs_of_nonneg (by omega)]
    omega
  have hq3 : |(4 * maxQuantizedValue q + 3 : Int)| ≤ 2^24 := by
    simp only [maxQuantizedValue]
    rw [abs_of_nonneg (by omega)]
    omega
  have e1 : ((4 * maxQuantizedValue q + 1 : Int) : ℚ) / 4 = M + 1/4 := by
    push_cast; rw [hMrat]; ring
  have e3 : ((4 * maxQuantizedValue q + 3 : Int) : ℚ) / 4 = M + 3/4 := by
    push_cast; rw [hMrat]; ring
  have hP : rnd (rnd (x - m) * rnd (M / R)) ≤ M + 1/4 := by
    have h := hg.mono _ (M + 1/4) (by nlinarith : rnd (x - m) * rnd (M / R) ≤ M + 1/4)
    have := grid_rnd_quarter ops hg _ hq1
    rw [e1] at this
    rwa [this] at h
  have hP0 : 0 ≤ rnd (rnd (x - m) * rnd (M / R)) := by
    have := hg.mono 0 _ (mul_nonneg hv0 hi0); rwa [hr0] at this
  have hS : rnd (rnd (rnd (x - m) * rnd (M / R)) + 1/2) ≤ M + 3/4 := by
    have h := hg.mono _ (M + 3/4) (by linarith : rnd (rnd (x - m) * rnd (M / R)) + 1/2 ≤ M + 3/4)
    have := grid_rnd_quarter ops hg _ hq3
    rw [e3] at this
    rwa [this] at h
  have hS0 : 0 ≤ rnd (rnd (rnd (x - m) * rnd (M / R)) + 1/2) := by
    have := hg.mono 0 _ (by linarith : (0:ℚ) ≤ rnd (rnd (x - m) * rnd (M / R)) + 1/2)
    rwa [hr0] at this
  rw [hk, hg.floor, hg.add, hg.mul, hg.sub, hg.div, hofInt, hg.half]
  refine ⟨Int.floor_nonneg.mpr hS0, ?_⟩
  have hlt : ((⌊rnd (rnd (rnd (x - m) * rnd (M / R)) + 1/2)⌋ : Int) : ℚ)
      < ((maxQuantizedValue q : Int) : ℚ) + 1 := by
    have := Int.floor_le (rnd (rnd (rnd (x - m) * rnd (M / R)) + 1/2))
    rw [hMrat]; linarith
  have : ⌊rnd (rnd (rnd (x - m) * rnd (M / R)) + 1/2)⌋ < maxQuantizedValue q + 1 := by
    exact_mod_cast hlt
  simp only [maxQuantizedValue] at this
  omega

end grid

end Quant
end Draco
