import DracoProofs.CornerTableFan
/-
  Clauses I1–I4 of property C13 for every table returned by `CornerTable.create`.
-/
namespace Draco
namespace CornerTable

/-- the components of a created table -/
theorem createF_eq {fuel : Nat} {faces : Faces} {ct : CornerTable} (h : createF fuel faces = some ct) :
    ct.cornerToVertex =
      (computeVertexCornersF (initCtv faces) (finalOpp (initCtv faces) fuel) (numVerticesOf (initCtv faces)) fuel).ctv ∧
    ct.oppositeCorners = finalOpp (initCtv faces) fuel ∧
    ct.vertexCorners =
      (computeVertexCornersF (initCtv faces) (finalOpp (initCtv faces) fuel) (numVerticesOf (initCtv faces)) fuel).vc ∧
    ct.nonManifoldVertexParents =
      (computeVertexCornersF (initCtv faces) (finalOpp (initCtv faces) fuel) (numVerticesOf (initCtv faces)) fuel).parents ∧
    ct.numOriginalVertices = numVerticesOf (initCtv faces) := by
  unfold createF at h
  split at h
  · injection h with h
    subst h
    exact ⟨rfl, rfl, rfl, rfl, rfl⟩
  · cases h

theorem create_isSome_iff (faces : Faces) : (create faces).isSome = inDomain faces := by
  unfold create createF; split <;> simp_all

theorem createF_opp_inv {fuel : Nat} {faces : Faces} {ct : CornerTable} (h : createF fuel faces = some ct) :
    OppOK (initCtv faces) (3 * faces.size) ct.oppositeCorners := by
  rw [(createF_eq h).2.1, ← size_initCtv]
  exact finalOpp_inv _ _

theorem createF_vinv {fuel : Nat} {faces : Faces} {ct : CornerTable} (h : createF fuel faces = some ct) :
    ct.cornerToVertex.size = 3 * faces.size ∧
    ct.vertexCorners.size = ct.numOriginalVertices + ct.nonManifoldVertexParents.size ∧
    ∀ c, c < 3 * faces.size →
      vget ct.cornerToVertex c < ct.numVertices ∧ ct.parentAt c = inputVertex faces c := by
  obtain ⟨h1, _, h3, h4, h5⟩ := createF_eq h
  have hinv := computeVertexCornersF_inv (size_initCtv faces) (finalOpp_inv (initCtv faces) fuel) fuel
  refine ⟨?_, ?_, ?_⟩
  · rw [h1, hinv.size_ctv, size_initCtv]
  · rw [h3, h4, h5]; exact hinv.size_vc
  · intro c hc
    obtain ⟨p1, p2⟩ := hinv.parent c (by rw [size_initCtv]; exact hc)
    unfold numVertices parentAt vertexParent
    rw [h1, h3, h4, h5, hinv.size_vc]
    refine ⟨p1, ?_⟩
    rw [← vget_initCtv]
    exact p2

/-- I1 -/
theorem createF_opposite_symm {fuel : Nat} {faces : Faces} {ct : CornerTable} (h : createF fuel faces = some ct)
    (c o : Nat) (hco : ct.opposite (some c) = some o) :
    c < 3 * faces.size ∧ o < 3 * faces.size ∧ ct.opposite (some o) = some c ∧ o ≠ c ∧ o / 3 ≠ c / 3 := by
  obtain ⟨hsz, hinv⟩ := createF_opp_inv h
  have hco' : oget ct.oppositeCorners c = some o := hco
  obtain ⟨h1, h2, h3, _, _, _⟩ := hinv.facts hco'
  refine ⟨?_, ?_, h1, h2, h3⟩
  · have := oget_lt hco'; omega
  · have := oget_lt h1; omega

/-- I2 -/
theorem createF_opposite_edge {fuel : Nat} {faces : Faces} {ct : CornerTable} (h : createF fuel faces = some ct)
    (c o : Nat) (hco : ct.opposite (some c) = some o) :
    ct.parentAt (nextC c) = ct.parentAt (prevC o) ∧ ct.parentAt (prevC c) = ct.parentAt (nextC o) := by
  obtain ⟨hc, ho, _, _, _⟩ := createF_opposite_symm h c o hco
  obtain ⟨_, hinv⟩ := createF_opp_inv h
  obtain ⟨_, _, _, hedge, _, _⟩ := hinv.facts (show oget ct.oppositeCorners c = some o from hco)
  obtain ⟨_, _, hp⟩ := createF_vinv h
  rw [(hp _ (nextC_lt hc)).2, (hp _ (prevC_lt hc)).2, (hp _ (nextC_lt ho)).2, (hp _ (prevC_lt ho)).2]
  simp only [← vget_initCtv]
  exact hedge

/-- I3 -/
theorem createF_degenerate_unlinked {fuel : Nat} {faces : Faces} {ct : CornerTable} (h : createF fuel faces = some ct)
    (c : Nat) (hdeg : faceDegenerate faces (c / 3) = true) :
    ct.opposite (some c) = none ∧ ∀ o, ct.opposite (some o) ≠ some c := by
  obtain ⟨_, hinv⟩ := createF_opp_inv h
  have key : ∀ o, ct.opposite (some c) ≠ some o := by
    intro o hco
    obtain ⟨hc, _, _, _, _⟩ := createF_opposite_symm h c o hco
    obtain ⟨_, _, _, _, hnd, _⟩ := hinv.facts (show oget ct.oppositeCorners c = some o from hco)
    rw [isDegenA_initCtv faces (c / 3) (by omega), hdeg] at hnd
    cases hnd
  constructor
  · cases hco : ct.opposite (some c) with
    | none => rfl
    | some o => exact absurd hco (key o)
  · intro o hoc
    obtain ⟨_, _, hsym, _, _⟩ := createF_opposite_symm h o c hoc
    exact key o hsym

/-- I4 (it holds for the corners of degenerate faces as well) -/
theorem createF_vertex_parent {fuel : Nat} {faces : Faces} {ct : CornerTable} (h : createF fuel faces = some ct)
    (c : Nat) (hc : c < 3 * faces.size) :
    vget ct.cornerToVertex c < ct.numVertices ∧ ct.parentAt c = inputVertex faces c :=
  (createF_vinv h).2.2 c hc

theorem swingRight_eq_lift (ct : CornerTable) :
    ct.swingRight = lift (swingRightA ct.oppositeCorners) := by
  funext x
  cases x with
  | none => rfl
  | some c =>
    simp only [swingRight, previous, opposite, lift_some, swingRightA, Option.map_some]

/-- I5 -/
theorem createF_fan_complete {fuel : Nat} (hfuel : 0 < fuel) {faces : Faces} {ct : CornerTable}
    (h : createF fuel faces = some ct) (c : Nat) (hc : c < 3 * faces.size)
    (hnd : faceDegenerate faces (c / 3) = false) :
    (∃ k, iter ct.swingRight k (ct.leftMostCorner (vget ct.cornerToVertex c)) = some c) ∧
    ct.FanTerminates (vget ct.cornerToVertex c) := by
  obtain ⟨h1, h2, h3, _, _⟩ := createF_eq h
  have hsz := size_initCtv faces
  have hopp := finalOpp_inv (initCtv faces) fuel
  have hcinv := computeVertexCornersF_cinv hsz hopp fuel hfuel
  have hvis := hcinv.done c (by rw [hsz]; omega)
    (by rw [isDegenA_initCtv faces (c / 3) (by omega)]; exact hnd)
  have hreach := hcinv.finv.reach c hvis
  rw [← h1, ← h3, ← h2] at hreach
  have hreach' : ∃ k, iter ct.swingRight k (ct.leftMostCorner (vget ct.cornerToVertex c)) = some c := by
    rw [swingRight_eq_lift]; exact hreach
  refine ⟨hreach', ?_⟩
  unfold FanTerminates
  rw [swingRight_eq_lift]
  obtain ⟨k, hk⟩ := hreach
  cases hs : ct.leftMostCorner (vget ct.cornerToVertex c) with
  | none =>
    unfold leftMostCorner at hs
    rw [hs, iter_lift_none] at hk; cases hk
  | some s =>
    have hn : ct.numCorners = 3 * faces.size := (createF_vinv h).1
    rw [h2] at *
    by_cases hslt : s < (initCtv faces).size
    · obtain ⟨m, hm, hor⟩ := (swing_pinj hsz hopp).orbit hslt
      exact ⟨m, by rw [hn, ← hsz]; omega, hor⟩
    · refine ⟨0, Nat.zero_le _, Or.inl ?_⟩
      simp only [iter, lift_some, swingRightA]
      have : oget (finalOpp (initCtv faces) fuel) (prevC s) = none := by
        cases hx : oget (finalOpp (initCtv faces) fuel) (prevC s) with
        | none => rfl
        | some x =>
          have h1 := oget_lt hx
          rw [hopp.1, hsz] at h1
          have h2 := prevC_div s
          rw [hsz] at hslt
          omega
      rw [this]; rfl

/-- **C13 for the model**: every table built by `createF` (any positive fuel) satisfies I1–I5. -/
theorem createF_consistent {fuel : Nat} (hfuel : 0 < fuel) {faces : Faces} {ct : CornerTable}
    (h : createF fuel faces = some ct) : ct.Consistent faces where
  size_ctv := (createF_vinv h).1
  size_opp := (createF_opp_inv h).1
  size_vc := (createF_vinv h).2.1
  opposite_symm := createF_opposite_symm h
  opposite_edge := createF_opposite_edge h
  degenerate_unlinked := createF_degenerate_unlinked h
  vertex_parent := fun c hc _ => createF_vertex_parent h c hc
  fan_complete := createF_fan_complete hfuel h

theorem create_consistent {faces : Faces} {ct : CornerTable} (h : create faces = some ct) :
    ct.Consistent faces :=
  createF_consistent (Nat.succ_pos _) h

end CornerTable
end Draco
