import DracoProofs.EbDecSimMain
import DracoProofs.EbDecSimStart
import DracoProofs.EbConnSplitFree
/-
  M4 / M5 / M6': the monadic glue — `connLoop` (= `connMain`, `connStart`, `connCompact`) on the symbols of an encoder
  trace computes the tables of the pure run `St` (DracoProofs/EbDecSim.lean).

  * DracoProofs/EbDecSimMain.lean: `connMain_St` (the symbol loop; body lemmas `body_E/R/L/C` on a generic state);
    DracoProofs/EbDecSimStart.lean: `connStart_ok` (the start-face loop pops the stack on `false` bits), `connCompact_ok`.
  * `connLoop_St`: for a `Trace`, on EVERY traversal state that `ConnGlue.Delivers` the symbols and one `false` start-face bit
    per component, `connLoop ⟨n, nv, n, [], true⟩ tr = .ok (coOf syms n nv)`; `coOf` is a function of the symbols only (tags as
    a fold `Tg`).  Hypotheses: `TblOK t`, `Trace t P syms`, `(St syms n nv n).vc.size ≤ nv`.
  * `decLoopSt_of_trace`: the same in the shape `ConnSplitFree.DecLoopSt`.
  * `decsim` (M6'): `∃ co, connLoop … = .ok co ∧ CTIso t P P.size co.c2v co.opp`.
-/
namespace Draco.EbEnc.DecSim
open Draco Draco.EbEnc
open Draco.Eb (inv connLoop connMain connStart connCompact ConnIn ConnOut Trav R decodeSymbolStd)
open Draco.EbEnc.ConnTri (RdS T2)
open Draco.EbEnc.Coverage (TblOK)

/-- the result of `connLoop` from the final tables and the tags of the symbol loop -/
def coOfDS (s0 : DS) (tg : Nat) : ConnOut :=
  { c2v := s0.c2v, opp := s0.opp, vc := s0.vc, hole := s0.hole, numConnVerts := s0.vc.size,
    tags := T2 (if 1 < s0.stack.size then tg ||| Eb.tg_components_1 else tg) s0.stack.size,
    startFaces := List.replicate s0.stack.size false }

/-- the result of `connLoop`, a function of the symbols only -/
def coOf (syms : List Nat) (n nv : Nat) : ConnOut := coOfDS (St syms n nv n) (Tg syms n)

/-- **M4 + M5**: on every traversal state that delivers the symbols of an encoder trace and `false` start-face bits (one per
    component), `connLoop` returns `coOf`: the tables of the pure run -/
theorem connLoop_St {t : CT} {P : Array Nat} {syms : List Nat} (hT : TblOK t) (hTr : Trace t P syms) (nv : Nat)
    (hv : (St syms P.size nv P.size).vc.size ≤ nv) (tr : Trav)
    (hD : ConnGlue.Delivers tr syms (List.replicate (St syms P.size nv P.size).stack.size false)) :
    connLoop ⟨P.size, nv, P.size, [], true⟩ tr = .ok (coOf syms P.size nv) := by
  obtain ⟨hkind, hleg, hsym, hsf⟩ := hD
  rw [hTr.size] at hsym
  unfold connLoop
  rw [connMain_St hT hTr nv true hv tr hkind hsym]
  show (connStart _ tr (mainOfDS _ _ _) >>= fun s => connCompact _ (mainOfDS _ _ _) s) = _
  rw [connStart_ok _ tr hleg (mainOfDS _ _ _) rfl hsf]
  show connCompact ⟨P.size, nv, P.size, [], true⟩ (mainOfDS (St syms P.size nv P.size) P.size (Tg syms P.size)) (startOf _) = _
  rw [connCompact_ok _ _ _ rfl]
  simp [compactOf, startOf, mainOfDS, coOf, coOfDS]
  rfl

/-- **the monadic glue in the shape of `ConnSplitFree.DecLoopSt`** -/
theorem decLoopSt_of_trace {t : CT} {P : Array Nat} (symbols : Array Nat) (hT : TblOK t)
    (hTr : Trace t P symbols.toList.reverse) (nv : Nat) (sfb : List Bool)
    (hv : (St symbols.toList.reverse P.size nv P.size).vc.size ≤ nv)
    (hsfb : sfb = List.replicate (St symbols.toList.reverse P.size nv P.size).stack.size false) :
    ConnSplitFree.DecLoopSt P.size nv symbols sfb := by
  have hsz : symbols.size = P.size := by
    have := hTr.size; simpa using this
  refine ⟨coOf symbols.toList.reverse P.size nv, ?_, rfl, rfl⟩
  intro tr hD
  rw [hsz]
  subst hsfb
  exact connLoop_St hT hTr nv hv tr hD

/-- **M6'**: the decoder half as one statement: `connLoop` succeeds and its table is isomorphic to the encoder's -/
theorem decsim {t : CT} {P : Array Nat} {syms : List Nat} (hT : TblOK t) (hTr : Trace t P syms) (nv : Nat)
    (hcov : ∀ d, d < 3 * P.size → ∃ k, iter (AttViews.sRP t.opp) k t.vc[t.c2v[phi P d]!]! = phi P d)
    (hvlt : ∀ d, d < 3 * P.size → t.c2v[phi P d]! < t.numVertices)
    (hv : (St syms P.size nv P.size).vc.size ≤ nv) (tr : Trav)
    (hD : ConnGlue.Delivers tr syms (List.replicate (St syms P.size nv P.size).stack.size false)) :
    ∃ co, connLoop ⟨P.size, nv, P.size, [], true⟩ tr = .ok co ∧ CTIso t P P.size co.c2v co.opp :=
  ⟨coOf syms P.size nv, connLoop_St hT hTr nv hv tr hD, ctIso_St hT hTr nv hcov hvlt⟩

end Draco.EbEnc.DecSim
