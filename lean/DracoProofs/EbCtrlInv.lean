import DracoModel.EbEncoder
import DracoProofs.EbEncCM
/-
  Structural invariants of the attribute encoders ("controllers") of the Edgebreaker encoder model
  (DracoModel/EbEncoder.lean):

  * `generateControllers` (G1): the sequential encoders of every controller are, position by
    position, the encoders of its attribute ids; every controller has at least one attribute id;
    the concatenation of the attribute ids of all controllers, in controller order, IS
    `List.range atts.size` (so: a permutation of it, without duplicates, every id `< atts.size`
    in exactly one controller).
  * `rearrangeEncoders` (G2): a successful call returns a duplicate free list of exactly
    `cs.size` controller indices `< cs.size` (a permutation of `List.range cs.size`).
-/
namespace Draco.EbEnc
open Draco Draco.SeqEnc
open Draco.Eb hiding nextC prevC Scheme iabs

/-! ### generic facts about `for` loops over lists in `R` -/

/-- indexed invariant of a loop that may `break`: either the invariant holds after the last
    element or the loop was left with `P` -/
theorem forIn_idx_inv {σ : Type} (l : List Nat) (f : Nat → σ → R (ForInStep σ)) (I : Nat → σ → Prop)
    (P : σ → Prop)
    (hy : ∀ i (hi : i < l.length) s r, I i s → f l[i] s = .ok r →
      (∃ s', r = .yield s' ∧ I (i + 1) s') ∨ (∃ s', r = .done s' ∧ P s')) :
    ∀ init out, I 0 init → forIn l init f = .ok out → I l.length out ∨ P out := by
  induction l generalizing I with
  | nil =>
    intro init out hI h
    simp [pure, Except.pure] at h
    subst h
    exact Or.inl hI
  | cons a l ih =>
    intro init out hI h
    rw [List.forIn_cons, bind_ok_iff] at h
    obtain ⟨r, h1, h2⟩ := h
    rcases hy 0 (by simp) init r hI (by simpa using h1) with ⟨s', rfl, hI'⟩ | ⟨s', rfl, hP⟩
    · have := ih (fun i => I (i + 1)) (fun i hi s r hIs hfi => by
        have := hy (i + 1) (by simp; omega) s r hIs (by simpa using hfi)
        simpa using this) s' out hI' h2
      simpa using this
    · simp [pure, Except.pure] at h2
      subst h2
      exact Or.inr hP

/-- plain invariant of a loop (with or without `break`) -/
theorem forIn_mem_inv {σ : Type} (l : List Nat) (f : Nat → σ → R (ForInStep σ)) (I : σ → Prop)
    (hy : ∀ a ∈ l, ∀ s r, I s → f a s = .ok r → I r.value) :
    ∀ init out, I init → forIn l init f = .ok out → I out := by
  induction l with
  | nil =>
    intro init out hI h
    simp [pure, Except.pure] at h
    subst h
    exact hI
  | cons a l ih =>
    intro init out hI h
    rw [List.forIn_cons, bind_ok_iff] at h
    obtain ⟨r, h1, h2⟩ := h
    have hr := hy a (by simp) init r hI h1
    cases r with
    | done b =>
      simp [pure, Except.pure] at h2
      subst h2
      exact hr
    | yield b =>
      exact ih (fun a ha => hy a (List.mem_cons_of_mem _ ha)) b out hr h2

theorem throw_bind_ne_ok {α β : Type} {e : Err} {k : α → R β} {r : β}
    (h : ((throw e : R α) >>= k) = .ok r) : False := by
  simp [throw, throwThe, MonadExceptOf.throw, bind, Except.bind] at h

theorem pure_ok_eq {β : Type} {a r : β} (h : (pure a : R β) = .ok r) : r = a := by
  simp only [pure, Except.pure] at h
  cases h; rfl

/-! ### G1: `generateControllers` -/

/-- the attribute ids of all controllers, in controller order -/
def ctrlAttIds (cs : Array Controller) : List Nat :=
  cs.toList.flatMap fun c => c.attIds.toList

/-- the sequential encoder `CreateSequentialEncoders` creates for attribute `attId` -/
def mkSeqEnc (o : EbOpts) (atts : Array Attribute) (numPoints attId : Nat) : SeqEncSt :=
  let kind := encoderType (atts[attId]!) (o.base.att attId)
  { attId, kind, scheme := if kind == 0 then .none else createScheme o.base atts numPoints attId kind }

/-- the loop invariant of `generateControllers` after `i` attributes -/
def GenInv (single : Bool) (i : Nat) (cs : Array Controller) : Prop :=
  ctrlAttIds cs = List.range i ∧ (∀ c ∈ cs, 1 ≤ c.attIds.size) ∧ (single = true → cs.size ≤ 1)

theorem genInv_modify {i : Nat} {cs : Array Controller} (h : GenInv true i cs) (hs : 0 < cs.size) :
    GenInv true (i + 1) (cs.modify 0 fun c => { c with attIds := c.attIds.push i }) := by
  obtain ⟨h1, h2, h3⟩ := h
  have h3 := h3 rfl
  obtain ⟨l⟩ := cs
  match l, hs, h3 with
  | [c0], _, _ =>
    refine ⟨?_, ?_, ?_⟩
    · simp [ctrlAttIds] at h1 ⊢
      simp [h1, List.range_succ]
    · intro c hc
      simp at hc
      subst hc
      simp
    · intro _; simp

theorem genInv_push {single : Bool} {i : Nat} {cs : Array Controller} {c : Controller}
    (h : GenInv single i cs) (hs : ¬ ((single && decide (cs.size > 0)) = true)) (hc : c.attIds = #[i]) :
    GenInv single (i + 1) (cs.push c) := by
  obtain ⟨h1, h2, h3⟩ := h
  refine ⟨?_, ?_, ?_⟩
  · simp [ctrlAttIds] at h1 ⊢
    simp [h1, hc, List.range_succ]
  · intro c' hc'
    rcases Array.mem_push.mp hc' with hc' | rfl
    · exact h2 c' hc'
    · simp [hc]
  · intro hsingle
    subst hsingle
    simp at hs
    simp [hs]

/-- the loop of `generateControllers` and its final `map` -/
theorem generateControllers_loop {o : EbOpts} {atts : Array Attribute} {np : Nat} {conn : ConnEnc}
    {cs : Array Controller} (h : generateControllers o atts np conn = .ok cs) :
    ∃ cs0 : Array Controller, GenInv (useSingleConnectivity o) atts.size cs0 ∧
      cs = cs0.map fun c => { c with encs := c.attIds.map (mkSeqEnc o atts np) } := by
  unfold generateControllers at h
  simp only [Std.Legacy.Range.forIn_eq_forIn_range'] at h
  rw [bind_ok_iff] at h
  obtain ⟨cs0, hloop, hret⟩ := h
  refine ⟨cs0, ?_, (pure_ok_eq hret)⟩
  have hsz : [:atts.size].size = atts.size := by simp
  rw [hsz] at hloop
  obtain ⟨E, e0, e1, eI, -⟩ := forIn_trace_inv _ _ (GenInv (useSingleConnectivity o)) (by
    intro i hi s r hI hf
    simp only [List.getElem_range', Nat.zero_add, Nat.one_mul] at hf
    repeat' split at hf
    all_goals first
      | exact absurd hf (fun h => throw_bind_ne_ok h)
      | (have hr := pure_ok_eq hf
         subst hr
         refine ⟨_, rfl, ?_⟩
         first
          | (rename_i hc
             simp only [Bool.and_eq_true, decide_eq_true_eq] at hc
             have hI' := hI
             rw [hc.1] at hI'
             have := genInv_modify hI' hc.2
             rw [hc.1]
             exact this)
          | exact genInv_push hI (by assumption) rfl))
    #[] cs0 ⟨by simp [ctrlAttIds], by simp, by simp⟩ hloop
  have := eI (List.range' 0 atts.size).length (Nat.le_refl _)
  rw [e1] at this
  simpa using this

variable {o : EbOpts} {atts : Array Attribute} {np : Nat} {conn : ConnEnc} {cs : Array Controller}

/-- `sequential_encoders_` of every controller: one encoder per attribute id, in the same order -/
theorem generateControllers_encs_eq (h : generateControllers o atts np conn = .ok cs) :
    ∀ c ∈ cs, c.encs = c.attIds.map (mkSeqEnc o atts np) := by
  obtain ⟨cs0, -, rfl⟩ := generateControllers_loop h
  intro c hc
  obtain ⟨c0, -, rfl⟩ := Array.mem_map.mp hc
  rfl

/-- (G1, encoders) position by position: attribute id, encoder type and prediction scheme -/
theorem generateControllers_encs (h : generateControllers o atts np conn = .ok cs) :
    ∀ c ∈ cs, c.encs.size = c.attIds.size ∧
      ∀ k (_ : k < c.attIds.size),
        (c.encs[k]!).attId = c.attIds[k]! ∧
        (c.encs[k]!).kind = encoderType (atts[c.attIds[k]!]!) (o.base.att c.attIds[k]!) ∧
        (c.encs[k]!).scheme =
          (if encoderType (atts[c.attIds[k]!]!) (o.base.att c.attIds[k]!) == 0 then PScheme.none
           else createScheme o.base atts np c.attIds[k]!
             (encoderType (atts[c.attIds[k]!]!) (o.base.att c.attIds[k]!))) := by
  intro c hc
  have he := generateControllers_encs_eq h c hc
  refine ⟨by rw [he, Array.size_map], ?_⟩
  intro k hk
  have h1 : c.encs[k]! = mkSeqEnc o atts np c.attIds[k]! := by
    rw [he]
    simp [hk]
  rw [h1]
  exact ⟨rfl, rfl, rfl⟩

/-- (G1, attribute ids) the attribute ids of the controllers, concatenated in controller order,
    are `0, 1, …, atts.size - 1` -/
theorem generateControllers_attIds (h : generateControllers o atts np conn = .ok cs) :
    ctrlAttIds cs = List.range atts.size := by
  obtain ⟨cs0, ⟨h1, -, -⟩, rfl⟩ := generateControllers_loop h
  rw [← h1]
  simp [ctrlAttIds, List.flatMap_map]

theorem generateControllers_attIds_perm (h : generateControllers o atts np conn = .ok cs) :
    (ctrlAttIds cs).Perm (List.range atts.size) := by
  rw [generateControllers_attIds h]

theorem generateControllers_attIds_nodup (h : generateControllers o atts np conn = .ok cs) :
    (ctrlAttIds cs).Nodup := by
  rw [generateControllers_attIds h]
  exact List.nodup_range

/-- every controller has at least one attribute -/
theorem generateControllers_attIds_pos (h : generateControllers o atts np conn = .ok cs) :
    ∀ c ∈ cs, c.attIds.size ≥ 1 := by
  obtain ⟨cs0, ⟨-, h2, -⟩, rfl⟩ := generateControllers_loop h
  intro c hc
  obtain ⟨c0, hc0, rfl⟩ := Array.mem_map.mp hc
  exact h2 c0 hc0

/-- with a single connectivity there is at most one controller -/
theorem generateControllers_single (h : generateControllers o atts np conn = .ok cs)
    (hs : useSingleConnectivity o = true) : cs.size ≤ 1 := by
  obtain ⟨cs0, ⟨-, -, h3⟩, rfl⟩ := generateControllers_loop h
  simpa using h3 hs

theorem mem_ctrlAttIds {cs : Array Controller} {a : Nat} :
    a ∈ ctrlAttIds cs ↔ ∃ c ∈ cs, a ∈ c.attIds := by
  simp [ctrlAttIds]

/-- the attribute ids of the controllers are attribute ids -/
theorem generateControllers_attIds_lt (h : generateControllers o atts np conn = .ok cs) :
    ∀ c ∈ cs, ∀ a ∈ c.attIds, a < atts.size := by
  intro c hc a ha
  have : a ∈ ctrlAttIds cs := mem_ctrlAttIds.mpr ⟨c, hc, ha⟩
  rw [generateControllers_attIds h] at this
  exact List.mem_range.mp this

/-- every attribute id belongs to some controller -/
theorem generateControllers_attIds_mem (h : generateControllers o atts np conn = .ok cs) :
    ∀ a, a < atts.size → ∃ c ∈ cs, a ∈ c.attIds := by
  intro a ha
  have : a ∈ ctrlAttIds cs := by
    rw [generateControllers_attIds h]
    exact List.mem_range.mpr ha
  exact mem_ctrlAttIds.mp this

/-- no attribute id occurs twice inside one controller -/
theorem generateControllers_attIds_nodup_each (h : generateControllers o atts np conn = .ok cs) :
    ∀ c ∈ cs, c.attIds.toList.Nodup := by
  have hn := generateControllers_attIds_nodup h
  unfold ctrlAttIds List.Nodup at hn
  rw [List.pairwise_flatMap] at hn
  intro c hc
  exact hn.1 c (by simpa using hc)

/-- the controllers at two different positions share no attribute id -/
theorem generateControllers_attIds_disjoint (h : generateControllers o atts np conn = .ok cs) :
    ∀ i j, i < cs.size → j < cs.size → i ≠ j → ∀ a, a ∈ (cs[i]!).attIds → a ∉ (cs[j]!).attIds := by
  have hn := generateControllers_attIds_nodup h
  unfold ctrlAttIds List.Nodup at hn
  rw [List.pairwise_flatMap] at hn
  have hp := List.pairwise_iff_getElem.mp hn.2
  have key : ∀ i j (hi : i < cs.size) (hj : j < cs.size), i < j →
      ∀ a, a ∈ (cs[i]).attIds → a ∉ (cs[j]).attIds := by
    intro i j hi hj hij a ha hb
    have := hp i j (by simpa using hi) (by simpa using hj) hij a (by simpa using ha) a (by simpa using hb)
    exact this rfl
  intro i j hi hj hne a ha hb
  rw [getElem!_pos cs i hi] at ha
  rw [getElem!_pos cs j hj] at hb
  rcases Nat.lt_or_gt_of_ne hne with hlt | hlt
  · exact key i j hi hj hlt a ha hb
  · exact key j i hj hi hlt a hb ha

/-- (G1) every attribute id `< atts.size` occurs in exactly one controller (position) -/
theorem generateControllers_attIds_unique (h : generateControllers o atts np conn = .ok cs) :
    ∀ a, a < atts.size → ∃ i, i < cs.size ∧ a ∈ (cs[i]!).attIds ∧
      ∀ j, j < cs.size → a ∈ (cs[j]!).attIds → j = i := by
  intro a ha
  obtain ⟨c, hc, hac⟩ := generateControllers_attIds_mem h a ha
  obtain ⟨i, hi, rfl⟩ := Array.mem_iff_getElem.mp hc
  refine ⟨i, hi, by rw [getElem!_pos cs i hi]; exact hac, ?_⟩
  intro j hj haj
  by_contra hne
  exact generateControllers_attIds_disjoint h i j hi hj (fun e => hne e.symm) a
    (by rw [getElem!_pos cs i hi]; exact hac) haj

/-! ### G2: `rearrangeEncoders` -/

/-- pigeonhole: a duplicate free list of numbers `< n` has at most `n` elements -/
theorem nodup_lt_length_le : ∀ (n : Nat) (l : List Nat), l.Nodup → (∀ x ∈ l, x < n) → l.length ≤ n := by
  intro n
  induction n with
  | zero =>
    intro l _ hl
    cases l with
    | nil => simp
    | cons a l => exact absurd (hl a (by simp)) (Nat.not_lt_zero _)
  | succ n ih =>
    intro l hn hl
    have h1 := ih (l.erase n) (hn.erase n) (by
      intro x hx
      have hx' := (hn.mem_erase_iff).mp hx
      have := hl x hx'.2
      have := hx'.1
      omega)
    rw [List.length_erase] at h1
    split at h1 <;> omega

/-- a duplicate free list of `n` numbers `< n` contains every number `< n` -/
theorem nodup_lt_length_eq_mem (n : Nat) (l : List Nat) (hn : l.Nodup) (hl : ∀ x ∈ l, x < n)
    (hlen : l.length = n) : ∀ a, a < n → a ∈ l := by
  intro a ha
  by_contra hna
  have h1 : (a :: l).Nodup := List.nodup_cons.mpr ⟨hna, hn⟩
  have h2 := nodup_lt_length_le n (a :: l) h1 (by
    intro x hx
    rcases List.mem_cons.mp hx with rfl | hx
    · exact ha
    · exact hl x hx)
  simp at h2
  omega

theorem getElem!_set!_true (p : Array Bool) (i j : Nat) (hi : i < p.size) :
    (p.set! i true)[j]! = if j = i then true else p[j]! := by
  simp only [Array.set!_eq_setIfInBounds, Array.getElem!_eq_getD, Array.getD_eq_getD_getElem?,
    Array.getElem?_setIfInBounds]
  by_cases hji : j = i
  · subst hji; simp [hi]
  · have : ¬ i = j := fun e => hji e.symm
    simp [hji, this]

/-- the invariant of the two nested loops of `rearrangeEncoders`: `order` lists distinct processed
    controller indices -/
def ReInv (n : Nat) (ord : Array Nat) (proc : Array Bool) : Prop :=
  proc.size = n ∧ (∀ e ∈ ord, e < n) ∧ ord.toList.Nodup ∧ ∀ e ∈ ord, proc[e]! = true

theorem reInv_push {n : Nat} {ord : Array Nat} {proc : Array Bool} {i : Nat} (h : ReInv n ord proc)
    (hi : i < n) (hp : ¬ proc[i]! = true) : ReInv n (ord.push i) (proc.set! i true) := by
  obtain ⟨h1, h2, h3, h4⟩ := h
  have hni : i ∉ ord := fun hm => hp (h4 i hm)
  refine ⟨by simp [h1], ?_, ?_, ?_⟩
  · intro e he
    rcases Array.mem_push.mp he with he | rfl
    · exact h2 e he
    · exact hi
  · rw [Array.toList_push, List.nodup_append]
    refine ⟨h3, by simp, ?_⟩
    intro a ha b hb
    simp at hb
    subst hb
    intro e
    subst e
    exact hni (by simpa using ha)
  · intro e he
    rw [getElem!_set!_true _ _ _ (by omega)]
    split
    · rfl
    · rcases Array.mem_push.mp he with he | he
      · exact h4 e he
      · contradiction

theorem ReInv.size_le {n : Nat} {ord : Array Nat} {proc : Array Bool} (h : ReInv n ord proc) :
    ord.size ≤ n := by
  have := nodup_lt_length_le n ord.toList h.2.2.1 (by
    intro x hx
    exact h.2.1 x (by simpa using hx))
  simpa using this

/-- the loops of `rearrangeEncoders` that compute `attributes_encoder_ids_order_` -/
theorem rearrangeEncoders_inv {atts : Array Attribute} {cs : Array Controller} {order : Array Nat}
    (h : rearrangeEncoders atts cs = .ok order) :
    ∃ proc, ReInv cs.size order proc ∧ cs.size ≤ order.size := by
  unfold rearrangeEncoders at h
  simp only [Std.Legacy.Range.forIn_eq_forIn_range'] at h
  rw [bind_ok_iff] at h
  obtain ⟨s, hloop, hrest⟩ := h
  rw [bind_ok_iff] at hrest
  obtain ⟨_, -, hret⟩ := hrest
  have := pure_ok_eq hret
  subst this
  have hsz1 : [:cs.size + 1].size = cs.size + 1 := by simp
  have hsz : [:cs.size].size = cs.size := by simp
  simp only [hsz1, hsz] at hloop
  have key := forIn_idx_inv _ _
    (fun k (s : Array Nat × Array Bool) => ReInv cs.size s.1 s.2 ∧ (k ≤ s.1.size ∨ cs.size ≤ s.1.size))
    (fun (s : Array Nat × Array Bool) => ReInv cs.size s.1 s.2 ∧ cs.size ≤ s.1.size) (by
    intro k hk s r hI hf
    obtain ⟨hI1, hI2⟩ := hI
    split at hf
    · right
      rename_i hge
      exact ⟨_, pure_ok_eq hf, hI1, hge⟩
    · left
      rw [bind_ok_iff] at hf
      obtain ⟨s', hin, hf⟩ := hf
      have hK := forIn_mem_inv _ _
        (fun (t : Array Nat × Array Bool × Bool) =>
          ReInv cs.size t.1 t.2.1 ∧ s.1.size ≤ t.1.size ∧ (t.2.2 = true → s.1.size + 1 ≤ t.1.size)) (by
        intro a ha t r hI hf
        have ha' : a < cs.size := by
          have := List.mem_range'_1.mp ha
          omega
        obtain ⟨hJ, hA, hB⟩ := hI
        split at hf
        · have := pure_ok_eq hf
          subst this
          exact ⟨hJ, hA, hB⟩
        · rename_i hproc
          rw [bind_ok_iff] at hf
          obtain ⟨can, -, hf⟩ := hf
          split at hf
          · have := pure_ok_eq hf
            subst this
            exact ⟨hJ, hA, hB⟩
          · have := pure_ok_eq hf
            subst this
            refine ⟨reInv_push hJ ha' hproc, ?_, ?_⟩
            · simp [ForInStep.value]; omega
            · intro _; simp [ForInStep.value]; omega)
        (s.1, s.2, false) s' ⟨hI1, Nat.le_refl _, by simp⟩ hin
      obtain ⟨hJ, hA, hB⟩ := hK
      split at hf
      · exact absurd hf (fun h => throw_bind_ne_ok h)
      · rename_i hc
        refine ⟨_, pure_ok_eq hf, hJ, ?_⟩
        simp only [Bool.and_eq_true, Bool.not_eq_eq_eq_not, Bool.not_true, decide_eq_true_eq, not_and,
          Nat.not_lt] at hc
        dsimp only at hA hB ⊢
        by_cases hany : s'.2.2 = true
        · have := hB hany
          omega
        · have := hc (by simpa using hany)
          omega)
    (#[], Array.replicate cs.size false) s
    ⟨⟨by simp, by simp, by simp, by simp⟩, Or.inl (Nat.zero_le _)⟩ hloop
  rcases key with ⟨hJ, hk⟩ | ⟨hJ, hk⟩
  · refine ⟨s.2, hJ, ?_⟩
    simp only [List.length_range'] at hk
    omega
  · exact ⟨s.2, hJ, hk⟩

/-- (G2) a successful `rearrangeEncoders` returns every controller index exactly once -/
theorem rearrangeEncoders_order {atts : Array Attribute} {cs : Array Controller} {order : Array Nat}
    (h : rearrangeEncoders atts cs = .ok order) :
    order.size = cs.size ∧ (∀ e ∈ order, e < cs.size) ∧ order.toList.Nodup := by
  obtain ⟨proc, hJ, hge⟩ := rearrangeEncoders_inv h
  exact ⟨Nat.le_antisymm hJ.size_le hge, hJ.2.1, hJ.2.2.1⟩

/-- (G2) every controller index occurs in the order -/
theorem rearrangeEncoders_mem {atts : Array Attribute} {cs : Array Controller} {order : Array Nat}
    (h : rearrangeEncoders atts cs = .ok order) : ∀ i, i < cs.size → i ∈ order := by
  obtain ⟨h1, h2, h3⟩ := rearrangeEncoders_order h
  intro i hi
  have := nodup_lt_length_eq_mem cs.size order.toList h3 (by
    intro x hx
    exact h2 x (by simpa using hx)) (by simpa using h1) i hi
  simpa using this

/-- (G2) the order is a permutation of the controller indices -/
theorem rearrangeEncoders_perm {atts : Array Attribute} {cs : Array Controller} {order : Array Nat}
    (h : rearrangeEncoders atts cs = .ok order) : order.toList.Perm (List.range cs.size) := by
  obtain ⟨-, h2, h3⟩ := rearrangeEncoders_order h
  have h4 := rearrangeEncoders_mem h
  rw [List.perm_iff_count]
  intro a
  rw [h3.count, List.nodup_range.count]
  by_cases ha : a < cs.size
  · have := h4 a ha
    simp [ha, this]
  · have : a ∉ order := fun hm => ha (h2 a hm)
    simp [ha, this]

end Draco.EbEnc
