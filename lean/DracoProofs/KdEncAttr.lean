import DracoModel.KdEncoder
import DracoProofs.KdEncRuns
import DracoProofs.SeqAttrs
/-
  Facts about the kd-tree attributes encoder model (`KdEnc.encodeAttribute`, the point vector,
  `num_bits`) and the decoder phases of `KdTreeAttributesDecoder` run on its output.
-/
namespace Draco.KdEnc
open Draco SeqEnc DecM Kd

/-- the domain of one attribute -/
structure AttOK (a : Attribute) (o : AttOpts) (n : Nat) : Prop where
  valid : a.valid n = true
  bytes : IsBytes a.values
  attType : a.attType < 5
  numComponents : a.numComponents ≤ 255
  uniqueId : a.uniqueId < 2 ^ 32
  explicit : ∀ org r, o.explicitQuant = some (org, r) → r < 2 ^ 32 ∧ ∀ m ∈ org, m < 2 ^ 32

/-- transform data of the right shape for an attribute of this kind -/
def TransWF (kind nc : Nat) : KdTransform → Prop
  | .none => kind = 0
  | .signed mins => kind = 1 ∧ mins.length = nc ∧ ∀ m ∈ mins, -2^31 ≤ m ∧ m < 2^31
  | .quant q mins range => kind = 2 ∧ 1 ≤ q ∧ q ≤ 30 ∧ mins.length = nc ∧ range < 2^32 ∧ ∀ m ∈ mins, m < 2^32

/-- everything the decoder phases need to know about one encoded attribute -/
structure EncFacts (n : Nat) (e : AttEnc) : Prop where
  attType : e.desc.attType < 5
  nc1 : 1 ≤ e.desc.numComponents
  nc255 : e.desc.numComponents ≤ 255
  uid : e.desc.uniqueId < 2 ^ 32
  kindDt : kindOf e.desc.dataType = some e.kind
  trans : TransWF e.kind e.desc.numComponents e.transform
  rows : e.coords.length = n
  rowLen : ∀ r ∈ e.coords, r.length = e.desc.numComponents
  coord32 : ∀ r ∈ e.coords, ∀ x ∈ r, x < 2 ^ 32

theorem pointRows_bytes (a : Attribute) (n : Nat) (hb : IsBytes a.values) :
    ∀ r ∈ pointRows a n, IsBytes r := by
  intro r hr
  unfold pointRows at hr
  have hva : ∀ idx, IsBytes (valueAt a.values.toArray a.stride idx) := by
    intro idx x hx
    unfold valueAt at hx
    rw [Array.toList_extract] at hx
    have : x ∈ a.values := by
      rw [List.extract_eq_take_drop] at hx
      exact List.mem_of_mem_drop (List.mem_of_mem_take hx)
    exact hb x this
  cases hm : a.map with
  | none => rw [hm] at hr; simp only [List.mem_map] at hr; obtain ⟨p, _, rfl⟩ := hr; exact hva p
  | some m => rw [hm] at hr; simp only [List.mem_map] at hr; obtain ⟨p, _, rfl⟩ := hr; exact hva p

theorem isBytes_take (b : Bytes) (k : Nat) (h : IsBytes b) : IsBytes (b.take k) :=
  fun x hx => h x (List.mem_of_mem_take hx)

theorem isBytes_drop (b : Bytes) (k : Nat) (h : IsBytes b) : IsBytes (b.drop k) :=
  fun x hx => h x (List.mem_of_mem_drop hx)

theorem rowComps_length (len : Nat) : ∀ (nc : Nat) (row : Bytes), (rowComps len nc row).length = nc := by
  intro nc
  induction nc with
  | zero => intro row; rfl
  | succ nc ih => intro row; simp [rowComps, ih]

theorem rowComps_lt (len : Nat) : ∀ (nc : Nat) (row : Bytes), IsBytes row →
    ∀ x ∈ rowComps len nc row, x < 256 ^ len := by
  intro nc
  induction nc with
  | zero => intro row _ x hx; simp [rowComps] at hx
  | succ nc ih =>
    intro row hb x hx
    simp only [rowComps, List.mem_cons] at hx
    rcases hx with rfl | hx
    · have h1 := leValue_lt (row.take len) (isBytes_take row len hb)
      have h2 : (row.take len).length ≤ len := by rw [List.length_take]; omega
      exact Nat.lt_of_lt_of_le h1 (Nat.pow_le_pow_right (by decide) h2)
    · exact ih _ (isBytes_drop row len hb) x hx

theorem forall_zipWith {α β γ : Type} (f : α → β → γ) (P : γ → Prop) (h : ∀ a b, P (f a b)) :
    ∀ (l₁ : List α) (l₂ : List β), ∀ x ∈ List.zipWith f l₁ l₂, P x := by
  intro l₁
  induction l₁ with
  | nil => intro l₂ x hx; simp at hx
  | cons a as ih =>
    intro l₂ x hx
    cases l₂ with
    | nil => simp at hx
    | cons b bs =>
      simp only [List.zipWith_cons_cons, List.mem_cons] at hx
      rcases hx with rfl | hx
      · exact h a b
      · exact ih bs x hx

theorem kindOf_cases (dt k : Nat) (h : kindOf dt = some k) :
    (k = 0 ∧ (dt = 6 ∨ dt = 4 ∨ dt = 2)) ∨ (k = 1 ∧ (dt = 5 ∨ dt = 3 ∨ dt = 1)) ∨ (k = 2 ∧ dt = 9) := by
  unfold kindOf at h
  split at h
  · rename_i hd; cases h; exact Or.inl ⟨rfl, hd⟩
  · split at h
    · rename_i hd; cases h; exact Or.inr (Or.inl ⟨rfl, hd⟩)
    · split at h
      · rename_i hd; cases h; exact Or.inr (Or.inr ⟨rfl, hd⟩)
      · cases h

theorem len_of_kind (dt k : Nat) (h : kindOf dt = some k) (hk : k ≠ 2) :
    dataTypeLength dt = 1 ∨ dataTypeLength dt = 2 ∨ dataTypeLength dt = 4 := by
  rcases kindOf_cases dt k h with ⟨_, h1 | h1 | h1⟩ | ⟨_, h1 | h1 | h1⟩ | ⟨h2, _⟩ <;>
    first | (subst h1; decide) | exact absurd h2 hk

theorem pow256_le_32 (len : Nat) (h : len = 1 ∨ len = 2 ∨ len = 4) : 256 ^ len ≤ 2 ^ 32 := by
  rcases h with rfl | rfl | rfl <;> decide

/-! ### `min_signed_values_` -/

theorem minRow_length : ∀ (ms vs : List Int), (minRow ms vs).length = ms.length := by
  intro ms
  induction ms with
  | nil => intro vs; cases vs <;> rfl
  | cons m ms ih =>
    intro vs
    cases vs with
    | nil => rfl
    | cons v vs => simp [minRow, ih]

theorem minRow_mem : ∀ (ms vs : List Int) (x : Int), x ∈ minRow ms vs → x ∈ ms ∨ x ∈ vs := by
  intro ms
  induction ms with
  | nil => intro vs x hx; cases vs <;> simp [minRow] at hx
  | cons m ms ih =>
    intro vs x hx
    cases vs with
    | nil => exact Or.inl hx
    | cons v vs =>
      simp only [minRow, List.mem_cons] at hx ⊢
      rcases hx with rfl | hx
      · split
        · exact Or.inr (Or.inl rfl)
        · exact Or.inl (Or.inl rfl)
      · rcases ih vs x hx with h | h
        · exact Or.inl (Or.inr h)
        · exact Or.inr (Or.inr h)

theorem signedMins_spec (a : Attribute) (hb : IsBytes a.values)
    (hl : dataTypeLength a.dataType = 1 ∨ dataTypeLength a.dataType = 2 ∨ dataTypeLength a.dataType = 4) :
    (signedMins a).length = a.numComponents ∧ ∀ m ∈ signedMins a, -2^31 ≤ m ∧ m < 2^31 := by
  unfold signedMins
  simp only
  generalize List.range a.numValues = idxs
  have key : ∀ (l : List Nat) (mn : List Int), mn.length = a.numComponents →
      (∀ m ∈ mn, -2^31 ≤ m ∧ m < 2^31) →
      (l.foldl (fun mn i => minRow mn ((rowComps (dataTypeLength a.dataType) a.numComponents
          (valueAt a.values.toArray a.stride i)).map (toSigned (8 * dataTypeLength a.dataType)))) mn).length
        = a.numComponents ∧
      ∀ m ∈ l.foldl (fun mn i => minRow mn ((rowComps (dataTypeLength a.dataType) a.numComponents
          (valueAt a.values.toArray a.stride i)).map (toSigned (8 * dataTypeLength a.dataType)))) mn,
        -2^31 ≤ m ∧ m < 2^31 := by
    intro l
    induction l with
    | nil => intro mn h1 h2; exact ⟨h1, h2⟩
    | cons i l ih =>
      intro mn h1 h2
      simp only [List.foldl_cons]
      apply ih
      · rw [minRow_length, h1]
      · intro m hm
        rcases minRow_mem _ _ m hm with h | h
        · exact h2 m h
        · simp only [List.mem_map] at h
          obtain ⟨u, hu, rfl⟩ := h
          have hbr : IsBytes (valueAt a.values.toArray a.stride i) := by
            intro x hx
            unfold valueAt at hx
            rw [Array.toList_extract, List.extract_eq_take_drop] at hx
            exact hb x (List.mem_of_mem_drop (List.mem_of_mem_take hx))
          have := rowComps_lt _ _ _ hbr u hu
          exact (signed_roundtrip _ hl u this).2
  exact key idxs _ (by simp) (by
    intro m hm
    rw [List.eq_of_mem_replicate hm]
    constructor <;> decide)

/-! ### one attribute -/

theorem encodeAttribute_facts (opts : EncOpts) (n i : Nat) (a : Attribute) (e : AttEnc)
    (hok : AttOK a (opts.att i) n) (h : encodeAttribute opts n i a = some e) :
    EncFacts n e ∧ e.desc = descOf a := by
  obtain ⟨hrl, hrs⟩ := pointRows_spec a n hok.valid
  have hrb := pointRows_bytes a n hok.bytes
  have hv := hok.valid
  unfold Attribute.valid at hv
  simp only [Bool.and_eq_true, decide_eq_true_eq] at hv
  obtain ⟨⟨⟨hnc1, _⟩, _⟩, _⟩ := hv
  unfold encodeAttribute at h
  simp only at h
  cases hk : kindOf a.dataType with
  | none => rw [hk] at h; cases h
  | some k =>
    rw [hk] at h
    have hkc := kindOf_cases a.dataType k hk
    match k, hk, hkc, h with
    | 0, hk, _, h =>
      simp only [Option.some.injEq] at h
      subst h
      have hl := len_of_kind _ _ hk (by decide)
      refine ⟨⟨hok.attType, hnc1, hok.numComponents, hok.uniqueId, hk, rfl, by simp [hrl], ?_, ?_⟩, rfl⟩
      · intro r hr
        simp only [List.mem_map] at hr
        obtain ⟨row, _, rfl⟩ := hr
        exact rowComps_length _ _ _
      · intro r hr x hx
        simp only [List.mem_map] at hr
        obtain ⟨row, hrow, rfl⟩ := hr
        exact Nat.lt_of_lt_of_le (rowComps_lt _ _ _ (hrb row hrow) x hx) (pow256_le_32 _ hl)
    | 1, hk, _, h =>
      simp only [Option.some.injEq] at h
      subst h
      have hl := len_of_kind _ _ hk (by decide)
      obtain ⟨m1, m2⟩ := signedMins_spec a hok.bytes hl
      refine ⟨⟨hok.attType, hnc1, hok.numComponents, hok.uniqueId, hk, ⟨rfl, m1, m2⟩, by simp [hrl], ?_, ?_⟩, rfl⟩
      · intro r hr
        simp only [List.mem_map] at hr
        obtain ⟨row, _, rfl⟩ := hr
        simp only [signedCoords, List.length_zipWith, rowComps_length, m1, descOf, Nat.min_self]
      · intro r hr x hx
        simp only [List.mem_map] at hr
        obtain ⟨row, _, rfl⟩ := hr
        simp only [signedCoords] at hx
        exact forall_zipWith _ (fun y => y < 2 ^ 32) (fun u m => Nat.mod_lt _ (by decide)) _ _ x hx
    | k + 2, hk, hkc, h =>
      have hk2 : k = 0 := by
        rcases hkc with ⟨h0, _⟩ | ⟨h0, _⟩ | ⟨h0, _⟩ <;> omega
      subst hk2
      simp only at h
      cases hq : quantizationParams a (opts.att i) with
      | none => rw [hq] at h; cases h
      | some r =>
        obtain ⟨mins, range, q⟩ := r
        rw [hq] at h
        simp only [Option.some.injEq] at h
        subst h
        obtain ⟨q1, q30, _, qml, qr, qm⟩ := quantizationParams_spec a (opts.att i) mins range q hok.explicit hq
        refine ⟨⟨hok.attType, hnc1, hok.numComponents, hok.uniqueId, hk, ⟨rfl, q1, q30, qml, qr, qm⟩,
          by simp [hrl], ?_, ?_⟩, rfl⟩
        · intro r hr
          simp only [List.mem_map] at hr
          obtain ⟨row, _, rfl⟩ := hr
          rw [List.length_map, (quantizeRow_spec mins range q _ 0).1, rowF32s_length]
          rfl
        · intro r hr x hx
          simp only [List.mem_map] at hr
          obtain ⟨row, _, rfl⟩ := hr
          simp only [List.mem_map] at hx
          obtain ⟨y, _, rfl⟩ := hx
          exact toUnsigned32_lt' y

/-! ### the point vector and `num_bits` -/

theorem mem_zipWith' {α β γ : Type} (f : α → β → γ) : ∀ (l₁ : List α) (l₂ : List β) (x : γ),
    x ∈ List.zipWith f l₁ l₂ → ∃ a ∈ l₁, ∃ b ∈ l₂, x = f a b := by
  intro l₁
  induction l₁ with
  | nil => intro l₂ x hx; simp at hx
  | cons a as ih =>
    intro l₂ x hx
    cases l₂ with
    | nil => simp at hx
    | cons b bs =>
      simp only [List.zipWith_cons_cons, List.mem_cons] at hx
      rcases hx with rfl | hx
      · exact ⟨a, by simp, b, by simp, rfl⟩
      · obtain ⟨a', ha, b', hb, rfl⟩ := ih bs x hx
        exact ⟨a', by simp [ha], b', by simp [hb], rfl⟩

/-- total dimension -/
def dimOf (encs : List AttEnc) : Nat := (encs.map (·.desc.numComponents)).sum

theorem pointVector_spec (n : Nat) : ∀ (encs : List AttEnc), (∀ e ∈ encs, EncFacts n e) →
    (pointVector n encs).length = n ∧
    ∀ p ∈ pointVector n encs, p.length = dimOf encs ∧ ∀ x ∈ p, x < 2 ^ 32 := by
  intro encs
  induction encs with
  | nil =>
    intro _
    refine ⟨by simp [pointVector], ?_⟩
    intro p hp
    simp only [pointVector] at hp
    rw [List.eq_of_mem_replicate hp]
    simp [dimOf]
  | cons e es ih =>
    intro hf
    have he := hf e (by simp)
    obtain ⟨i1, i2⟩ := ih (fun x hx => hf x (by simp [hx]))
    refine ⟨by simp [pointVector, he.rows, i1], ?_⟩
    intro p hp
    simp only [pointVector] at hp
    obtain ⟨r, hr, q, hq, rfl⟩ := mem_zipWith' _ _ _ p hp
    obtain ⟨q1, q2⟩ := i2 q hq
    refine ⟨by simp only [List.length_append, he.rowLen r hr, q1, dimOf, List.map_cons, List.sum_cons], ?_⟩
    intro x hx
    simp only [List.mem_append] at hx
    rcases hx with hx | hx
    · exact he.coord32 r hr x hx
    · exact q2 x hx

theorem numBits_spec (pts : List (List Nat)) (h32 : ∀ p ∈ pts, ∀ x ∈ p, x < 2 ^ 32) :
    numBits pts ≤ 32 ∧ ∀ p ∈ pts, ∀ x ∈ p, x < 2 ^ numBits pts := by
  unfold numBits
  have hfl : ∀ x ∈ pts.flatten, x < 2 ^ 32 := by
    intro x hx
    simp only [List.mem_flatten] at hx
    obtain ⟨p, hp, hxp⟩ := hx
    exact h32 p hp x hxp
  have key : ∀ (l : List Nat) (b : Nat), b ≤ 32 → (∀ x ∈ l, x < 2 ^ 32) →
      let r := l.foldl (fun b x => if x > 0 then max b (Nat.log2 x + 1) else b) b
      b ≤ r ∧ r ≤ 32 ∧ ∀ x ∈ l, x < 2 ^ r := by
    intro l
    induction l with
    | nil => intro b hb _; simp [hb]
    | cons y l ih =>
      intro b hb hl
      simp only [List.foldl_cons]
      have hy := hl y (by simp)
      by_cases hpos : y > 0
      · rw [if_pos hpos]
        have hlog : Nat.log2 y < 32 := (Nat.log2_lt (by omega)).2 hy
        obtain ⟨r1, r2, r3⟩ := ih (max b (Nat.log2 y + 1)) (by omega) (fun x hx => hl x (by simp [hx]))
        refine ⟨by omega, r2, ?_⟩
        intro x hx
        simp only [List.mem_cons] at hx
        rcases hx with rfl | hx
        · have h1 : x < 2 ^ (Nat.log2 x + 1) := Nat.lt_log2_self
          exact Nat.lt_of_lt_of_le h1 (Nat.pow_le_pow_right (by decide) (by omega))
        · exact r3 x hx
      · rw [if_neg hpos]
        obtain ⟨r1, r2, r3⟩ := ih b hb (fun x hx => hl x (by simp [hx]))
        refine ⟨r1, r2, ?_⟩
        intro x hx
        simp only [List.mem_cons] at hx
        rcases hx with rfl | hx
        · have : x = 0 := by omega
          subst this
          exact Nat.pow_pos (by decide)
        · exact r3 x hx
  obtain ⟨_, k2, k3⟩ := key pts.flatten 0 (by decide) hfl
  refine ⟨k2, ?_⟩
  intro p hp x hx
  exact k3 x (by simp only [List.mem_flatten]; exact ⟨p, hp, hx⟩)

/-! ### decoder phases -/

theorem kindOf_dt (dt k : Nat) (h : kindOf dt = some k) :
    (k = 0 → (dt = Generated.DT_UINT32.toNat ∨ dt = Generated.DT_UINT16.toNat ∨ dt = Generated.DT_UINT8.toNat)) ∧
    (k = 1 → ¬ (dt = Generated.DT_UINT32.toNat ∨ dt = Generated.DT_UINT16.toNat ∨ dt = Generated.DT_UINT8.toNat) ∧
      (dt = Generated.DT_INT32.toNat ∨ dt = Generated.DT_INT16.toNat ∨ dt = Generated.DT_INT8.toNat)) ∧
    (k = 2 → ¬ (dt = Generated.DT_UINT32.toNat ∨ dt = Generated.DT_UINT16.toNat ∨ dt = Generated.DT_UINT8.toNat) ∧
      ¬ (dt = Generated.DT_INT32.toNat ∨ dt = Generated.DT_INT16.toNat ∨ dt = Generated.DT_INT8.toNat) ∧
      dt = Generated.DT_FLOAT32.toNat) := by
  unfold kindOf at h
  split at h
  · rename_i hd; cases h
    exact ⟨fun _ => hd, fun h => absurd h (by decide), fun h => absurd h (by decide)⟩
  · rename_i hd0
    split at h
    · rename_i hd; cases h
      exact ⟨fun h => absurd h (by decide), fun _ => ⟨hd0, hd⟩, fun h => absurd h (by decide)⟩
    · rename_i hd1
      split at h
      · rename_i hd; cases h
        exact ⟨fun h => absurd h (by decide), fun h => absurd h (by decide), fun _ => ⟨hd0, hd1, hd⟩⟩
      · cases h

/-- the classification loop of `DecodePortableAttributes` reproduces the encoder's layout -/
theorem runs_classify (n v : Nat) : ∀ (encs : List AttEnc) (off : Nat), (∀ e ∈ encs, EncFacts n e) →
    Runs (classify n (encs.map (·.desc)) off) v [] (kdAttsOf off encs, off + dimOf encs) v := by
  intro encs
  induction encs with
  | nil => intro off _; simpa [classify, kdAttsOf, dimOf] using Runs.pure (([] : List KdAtt), off) v
  | cons e es ih =>
    intro off hf
    have he := hf e (by simp)
    simp only [List.map_cons, classify]
    have hone : Runs (classifyOne n e.desc off) v []
        (⟨e.desc, e.kind, off, if e.kind = 2 then 4 else dataTypeLength e.desc.dataType⟩ : KdAtt) v := by
      unfold classifyOne
      refine Runs.bind0 (Runs.alloc _ _ v) ?_
      obtain ⟨k0, k1, k2⟩ := kindOf_dt _ _ he.kindDt
      have ht := he.trans
      rcases kindOf_cases _ _ he.kindDt with ⟨hk, _⟩ | ⟨hk, _⟩ | ⟨hk, _⟩
      · simp only
        rw [if_pos (k0 hk), hk]
        exact Runs.pure _ v
      · simp only
        rw [if_neg (k1 hk).1, if_pos (k1 hk).2, hk]
        exact Runs.pure _ v
      · simp only
        rw [if_neg (k2 hk).1, if_neg (k2 hk).2.1, if_pos (k2 hk).2.2, hk]
        exact Runs.bind0 (Runs.alloc _ _ v) (Runs.pure _ v)
    refine Runs.bind0 hone ?_
    refine Runs.bind0 (ih (off + e.desc.numComponents) (fun x hx => hf x (by simp [hx]))) ?_
    refine Runs.of_eq (Runs.pure _ v) rfl rfl ?_
    simp only [kdAttsOf, dimOf, List.map_cons, List.sum_cons, Prod.mk.injEq, true_and]
    omega

/-- first loop of `DecodeDataNeededByPortableTransforms`: the quantization parameters -/
theorem runs_quantParams (n v : Nat) : ∀ (encs : List AttEnc) (off : Nat), (∀ e ∈ encs, EncFacts n e) →
    Runs (decodeQuantParams (kdAttsOf off encs)) v (encs.flatMap fun e => quantParamBytes e.transform)
      (encs.map fun e => if e.kind = 2 then e.transform else KdTransform.none) v := by
  intro encs
  induction encs with
  | nil => intro off _; simpa [decodeQuantParams, kdAttsOf] using Runs.pure ([] : List KdTransform) v
  | cons e es ih =>
    intro off hf
    have he := hf e (by simp)
    simp only [kdAttsOf, decodeQuantParams, List.flatMap_cons, List.map_cons]
    have hone : Runs (quantParamsOf ⟨e.desc, e.kind, off, if e.kind = 2 then 4 else dataTypeLength e.desc.dataType⟩) v
        (quantParamBytes e.transform) (if e.kind = 2 then e.transform else KdTransform.none) v := by
      unfold quantParamsOf
      have ht := he.trans
      cases htr : e.transform with
      | none =>
        rw [htr] at ht
        simp only [TransWF] at ht
        simp only [ht, quantParamBytes]
        exact Runs.pure _ v
      | signed mins =>
        rw [htr] at ht
        simp only [TransWF] at ht
        simp only [ht.1, quantParamBytes]
        exact Runs.pure _ v
      | quant q mins range =>
        rw [htr] at ht
        simp only [TransWF] at ht
        obtain ⟨hk, q1, q30, qml, qr, qm⟩ := ht
        simp only [hk, if_true, quantParamBytes]
        rw [List.append_assoc]
        have hm : Runs (replicateM' e.desc.numComponents rdU32) v (mins.flatMap (writeLE 4)) mins v := by
          rw [← qml, List.flatMap_def]
          have := Runs.replicateM'_map (f := rdU32) (v := v) mins (writeLE 4) id
            (fun m hm => Runs.rdU32 m v (qm m hm))
          simpa using this
        refine Runs.bind hm ?_
        refine Runs.bind (Runs.rdU32 range v qr) ?_
        rw [Nat.mod_eq_of_lt (by omega : q < 256)]
        refine Runs.bind1 (Runs.rdU8 q v) ?_
        refine Runs.bind0 (Runs.require (by simp; omega) v) ?_
        refine Runs.bind0 (Runs.require (by simp; omega) v) ?_
        exact Runs.pure _ v
    refine Runs.bind hone ?_
    refine Runs.bind' (ih (off + e.desc.numComponents) (fun x hx => hf x (by simp [hx]))) (List.append_nil _).symm ?_
    exact Runs.pure _ v

/-- second loop: the minima of the signed attributes -/
theorem runs_signedMins (n v : Nat) : ∀ (encs : List AttEnc) (off : Nat), (∀ e ∈ encs, EncFacts n e) →
    Runs (decodeSignedMins (kdAttsOf off encs)
        (encs.map fun e => if e.kind = 2 then e.transform else KdTransform.none)) v
      (encs.flatMap fun e => signedMinBytes e.transform) (encs.map (·.transform)) v := by
  intro encs
  induction encs with
  | nil => intro off _; simpa [decodeSignedMins, kdAttsOf] using Runs.pure ([] : List KdTransform) v
  | cons e es ih =>
    intro off hf
    have he := hf e (by simp)
    simp only [kdAttsOf, decodeSignedMins, List.flatMap_cons, List.map_cons]
    have hone : Runs (signedMinsOf ⟨e.desc, e.kind, off, if e.kind = 2 then 4 else dataTypeLength e.desc.dataType⟩
          (if e.kind = 2 then e.transform else KdTransform.none)) v
        (signedMinBytes e.transform) e.transform v := by
      unfold signedMinsOf
      have ht := he.trans
      cases htr : e.transform with
      | none =>
        rw [htr] at ht
        simp only [TransWF] at ht
        simp only [ht, signedMinBytes]
        exact Runs.pure _ v
      | signed mins =>
        rw [htr] at ht
        simp only [TransWF] at ht
        obtain ⟨hk, ml, mr⟩ := ht
        simp only [hk, if_true, signedMinBytes]
        have hm : Runs (replicateM' e.desc.numComponents (lift (decVarintSigned 32))) v
            (mins.flatMap (encVarintSigned 32)) mins v := by
          rw [← ml, List.flatMap_def]
          have := Runs.replicateM'_map (f := lift (decVarintSigned 32)) (v := v) mins (encVarintSigned 32) id
            (fun m hm => runs_varintSigned32 m v (mr m hm).1 (mr m hm).2)
          simpa using this
        refine Runs.bind' hm (List.append_nil _).symm ?_
        exact Runs.pure _ v
      | quant q mins range =>
        rw [htr] at ht
        simp only [TransWF] at ht
        simp only [ht.1, signedMinBytes]
        exact Runs.pure _ v
    refine Runs.bind hone ?_
    refine Runs.bind' (ih (off + e.desc.numComponents) (fun x hx => hf x (by simp [hx]))) (List.append_nil _).symm ?_
    exact Runs.pure _ v

theorem compressionLevel_six (speed : Int) (dim : Nat) (h : compressionLevel speed dim = 6) : dim ≤ 16 := by
  unfold compressionLevel at h
  simp only at h
  split at h
  · omega
  · rename_i hn
    have : ¬ dim > 15 := fun hd => hn ⟨h, hd⟩
    omega

theorem size_mono (dim n bl : Nat) (hbl : bl ≤ 32)
    (h : 32 * ((2 * dim + 3) * (n * (32 * dim + 1) + 1)) + 3 < 2 ^ 32) :
    32 * ((2 * dim + 3) * (n * (bl * dim + 1) + 1)) + 3 < 2 ^ 32 := by
  have h1 : bl * dim + 1 ≤ 32 * dim + 1 := by
    have := Nat.mul_le_mul_right dim hbl
    omega
  have h2 : n * (bl * dim + 1) + 1 ≤ n * (32 * dim + 1) + 1 := by
    have := Nat.mul_le_mul_left n h1
    omega
  have h3 : (2 * dim + 3) * (n * (bl * dim + 1) + 1) ≤ (2 * dim + 3) * (n * (32 * dim + 1) + 1) :=
    Nat.mul_le_mul_left _ h2
  omega

/-- `geometryOfPoints` for arbitrary decoder options: the geometry `KdTreeAttributesDecoder`
    assembles when the transforms of the types in `dopts.skip` are skipped -/
def geometryOfPointsWith (dopts : DecOpts) (numPoints : Nat) (encs : List AttEnc) (pts : List (List Nat)) :
    Geometry :=
  let kas := kdAttsOf 0 encs
  { isMesh := false, numPoints := numPoints, faces := [],
    atts := Kd.zip3With (Kd.finishAttribute dopts numPoints) kas (encs.map (·.transform))
              (kas.map fun ka => pts.map (Kd.attRow ka)) }

theorem geometryOfPointsWith_default (n : Nat) (encs : List AttEnc) (pts : List (List Nat)) :
    geometryOfPointsWith {} n encs pts = geometryOfPoints n encs pts := rfl

/-- `KdTreeAttributesDecoder::DecodeAttributes` on the output of `KdTreeAttributesEncoder::EncodeAttributes`:
    the attributes are assembled from a permutation of the encoder's point vector -/
theorem runsP_decodeKdAttributes_with (dopts : DecOpts) (ch : Choices) (hpart : PartSpec ch.part) (n v level : Nat)
    (encs : List AttEnc) (hne : encs ≠ []) (hf : ∀ e ∈ encs, EncFacts n e)
    (hl6 : level ≤ 6) (hsel : level = 6 → dimOf encs ≤ 16)
    (hsz : 32 * ((2 * dimOf encs + 3) * (n * (32 * dimOf encs + 1) + 1)) + 3 < 2 ^ 32) :
    RunsP (decodeKdAttributes dopts n (encs.map (·.desc))) v
      (level :: (Kd.encodePoints ch.part Generated.fastdivTab ch.zeroProbRaw level (dimOf encs)
          (numBits (pointVector n encs)) (pointVector n encs)
        ++ ((encs.flatMap fun e => quantParamBytes e.transform)
          ++ (encs.flatMap fun e => signedMinBytes e.transform))))
      (fun atts => ∃ pts', pts'.Perm (pointVector n encs) ∧
        atts = (geometryOfPointsWith dopts n encs pts').atts) v := by
  obtain ⟨pvl, pvr⟩ := pointVector_spec n encs hf
  obtain ⟨nb32, nbx⟩ := numBits_spec (pointVector n encs) (fun p hp => (pvr p hp).2)
  have hdim : 1 ≤ dimOf encs := by
    cases encs with
    | nil => exact absurd rfl hne
    | cons e es =>
      have := (hf e (by simp)).nc1
      simp only [dimOf, List.map_cons, List.sum_cons]
      omega
  unfold decodeKdAttributes
  refine RunsP.bindR1 (Runs.rdU8 level v) ?_
  refine RunsP.bindR0 (Runs.alloc _ _ v) ?_
  have hcl := runs_classify n v encs 0 hf
  rw [Nat.zero_add] at hcl
  refine RunsP.bindR0 hcl ?_
  simp only []
  refine RunsP.bindR0 (Runs.alloc _ _ v) ?_
  refine RunsP.bindR0 (Runs.require (by simpa using hl6) v) ?_
  refine RunsP.bindR0 (Runs.alloc _ _ v) ?_
  refine RunsP.bindR0 (Runs.alloc _ _ v) ?_
  refine RunsP.bindR0 (Runs.alloc _ _ v) ?_
  refine RunsP.bindR0 (Runs.alloc _ _ v) ?_
  have hdp := runsP_decodePoints ch.part hpart ch.zeroProbRaw level (dimOf encs)
    (numBits (pointVector n encs)) n v (pointVector n encs) hdim nb32 hsel
    (fun p hp => ⟨(pvr p hp).1, fun i hi => by
      have hmem : p.getD i 0 ∈ p := by
        rw [List.getD_eq_getElem?_getD, List.getElem?_eq_getElem (by rw [(pvr p hp).1]; exact hi)]
        simp
      exact nbx p hp _ hmem⟩)
    (by omega) (by rw [pvl]; exact size_mono _ _ _ nb32 hsz)
  refine RunsP.bind hdp ?_
  intro dp hdpP
  obtain ⟨dp1, dp2⟩ := hdpP
  refine RunsP.bindR0 (Runs.require (by simp [dp1, pvl]) v) ?_
  refine RunsP.bindR (runs_quantParams n v encs 0 hf) ?_
  refine RunsP.bindR' (runs_signedMins n v encs 0 hf) (List.append_nil _).symm ?_
  exact RunsP.pure _ v ⟨dp.2, dp2, rfl⟩

/-- the ordinary decode (`DecOpts = {}`) -/
theorem runsP_decodeKdAttributes (ch : Choices) (hpart : PartSpec ch.part) (n v level : Nat)
    (encs : List AttEnc) (hne : encs ≠ []) (hf : ∀ e ∈ encs, EncFacts n e)
    (hl6 : level ≤ 6) (hsel : level = 6 → dimOf encs ≤ 16)
    (hsz : 32 * ((2 * dimOf encs + 3) * (n * (32 * dimOf encs + 1) + 1)) + 3 < 2 ^ 32) :
    RunsP (decodeKdAttributes {} n (encs.map (·.desc))) v
      (level :: (Kd.encodePoints ch.part Generated.fastdivTab ch.zeroProbRaw level (dimOf encs)
          (numBits (pointVector n encs)) (pointVector n encs)
        ++ ((encs.flatMap fun e => quantParamBytes e.transform)
          ++ (encs.flatMap fun e => signedMinBytes e.transform))))
      (fun atts => ∃ pts', pts'.Perm (pointVector n encs) ∧ atts = (geometryOfPoints n encs pts').atts) v :=
  runsP_decodeKdAttributes_with {} ch hpart n v level encs hne hf hl6 hsel hsz

end Draco.KdEnc
