import DracoProofs.EbCompact
import DracoProofs.EbTraceS4
import DracoProofs.EbDecSimS2
/-
  `connCompact` with merged-away vertices (`m.invalid ≠ #[]`).

  (A) a SOUND CHECKER: `compactCheck ci m s` runs `connCompact` and checks that the opposite corners are kept, the size
      is kept, and the relation `{(s.c2v[d], co.c2v[d]) | d < 3·numFaces}` is a function and injective;
      `compactSpec_of_check : compactCheck ci m s = true → ∃ co, CompactSpec ci m s co`.
  Instance: the annulus (`annCompact`, `annCompactSpec`): three ids are compacted away.
  (B) the general theorem (`compactSpec_general`) is NOT in this file.
-/
namespace Draco.EbEnc
open Draco Draco.Eb

namespace Compact

/-! ### `Renumbers` from the pairwise criterion -/

/-- two label arrays induce the same partition of the corners ⇒ the second is a renumbering of the first -/
theorem renumbers_of_pairs (n : Nat) (a b : Array Nat)
    (h : ∀ d d', d < 3 * n → d' < 3 * n → (a[d]! = a[d']! ↔ b[d]! = b[d']!)) : Renumbers n a b := by
  let ρ : Nat → Nat := fun x =>
    match (List.range (3 * n)).find? (fun d => a[d]! == x) with
    | some d => b[d]!
    | none => 0
  have hρ : ∀ d, d < 3 * n → ρ a[d]! = b[d]! := by
    intro d hd
    simp only [ρ]
    cases hf : (List.range (3 * n)).find? (fun d' => a[d']! == a[d]!) with
    | none =>
      have := List.find?_eq_none.mp hf d (List.mem_range.mpr hd)
      simp at this
    | some d0 =>
      have h1 : a[d0]! = a[d]! := by simpa using List.find?_some hf
      have h2 : d0 < 3 * n := List.mem_range.mp (List.mem_of_find?_eq_some hf)
      exact (h d0 d h2 hd).mp h1
  refine ⟨ρ, fun d hd => (hρ d hd).symm, ?_⟩
  intro d d' hd hd' e
  rw [hρ d hd, hρ d' hd'] at e
  exact (h d d' hd hd').mpr e

/-! ### (A) the checker -/

/-- the relation `{(a[d], b[d]) | d < m}` is a function and injective (quadratic check) -/
def samePartition (m : Nat) (a b : Array Nat) : Bool :=
  (List.range m).all fun d => (List.range m).all fun d' => (a[d]! == a[d']!) == (b[d]! == b[d']!)

theorem samePartition_sound (m : Nat) (a b : Array Nat) (h : samePartition m a b = true) :
    ∀ d d', d < m → d' < m → (a[d]! = a[d']! ↔ b[d]! = b[d']!) := by
  intro d d' hd hd'
  have h1 := List.all_eq_true.mp h d (List.mem_range.mpr hd)
  have h2 := List.all_eq_true.mp h1 d' (List.mem_range.mpr hd')
  have h3 : (a[d]! == a[d']!) = (b[d]! == b[d']!) := by simpa using h2
  constructor
  · intro e
    have : (a[d]! == a[d']!) = true := by simpa using e
    rw [h3] at this
    simpa using this
  · intro e
    have : (b[d]! == b[d']!) = true := by simpa using e
    rw [← h3] at this
    simpa using this

/-- **the compaction checker**: run `connCompact`; the opposite corners and the size of the corner-to-vertex array are
    kept, and the vertex labels of the corners before / after induce the same partition of the corners -/
def compactCheck (ci : ConnIn) (m : ConnMain) (s : ConnStart) : Bool :=
  match connCompact ci m s with
  | .ok co => decide (co.opp = s.opp) && decide (co.c2v.size = s.c2v.size) &&
      samePartition (3 * ci.numFaces) s.c2v co.c2v
  | .error _ => false

/-- **soundness of the compaction checker** -/
theorem compactSpec_of_check (ci : ConnIn) (m : ConnMain) (s : ConnStart) (h : compactCheck ci m s = true) :
    ∃ co, CompactSpec ci m s co := by
  unfold compactCheck at h
  split at h
  · rename_i co hco
    simp only [Bool.and_eq_true, decide_eq_true_eq] at h
    obtain ⟨⟨h1, h2⟩, h3⟩ := h
    exact ⟨co, compactSpec_of_renumbers hco h1 h2
      (renumbers_of_pairs ci.numFaces s.c2v co.c2v (samePartition_sound _ _ _ h3))⟩
  · cases h

/-- the isomorphism survives a checked compaction: Prop form and checker form, for the table the compaction returns -/
theorem ctIso_compact_of_check {t : CT} {P : Array Nat} {ci : ConnIn} {m : ConnMain} {s : ConnStart}
    (h : CTIso t P ci.numFaces s.c2v s.opp) (hc : compactCheck ci m s = true) :
    ∃ co, connCompact ci m s = .ok co ∧ CTIso t P ci.numFaces co.c2v co.opp ∧
      ctIso t P ci.numFaces co.c2v co.opp = true := by
  obtain ⟨co, hs⟩ := compactSpec_of_check ci m s hc
  exact ⟨co, hs.run, ctIso_compact h hs⟩

/-! ### instance: the annulus (one genuine split event, one merged-away vertex) -/

section annulus
open Draco.EbEnc.DecSim

def annSyms : List Nat := annConn.symbols.toList.reverse
def annEvs : List TopoSplit := annConn.splits.toList.reverse

/-- the decoder's input of the annulus stream -/
def annCi : ConnIn := ⟨annConn.processed.size, 19, annSyms.length, annEvs, true⟩

/-- the decoder's state after the symbol loop on the annulus stream (`connMain_StS`) -/
def annM : ConnMain :=
  mainOfDSS (StS annSyms annEvs annConn.processed.size 19 annSyms.length) annSyms.length
    (tagsS annSyms annEvs annConn.processed.size 19)

/-- the annulus run has vertices to compact away (a merged one and two never used) -/
theorem annInvalid : annM.invalid = #[6, 15, 18] := by decide +kernel

/-- **the compaction of the annulus run is a renumbering** (checked) -/
theorem annCompact : compactCheck annCi annM (startOf annM) = true := by decide +kernel

theorem annCompactSpec : ∃ co, CompactSpec annCi annM (startOf annM) co :=
  compactSpec_of_check _ _ _ annCompact

set_option maxRecDepth 100000 in
/-- **the annulus, end to end on the decoder's tables**: the table the decoder has AFTER the compaction is isomorphic to
    the encoder's (Prop and checker form) — `annulusPure` (before the compaction) transported by `ctIso_compact_of_check` -/
theorem annCTIso : ∃ co, connCompact annCi annM (startOf annM) = .ok co ∧
    CTIso annConn.ct annConn.processed annConn.processed.size co.c2v co.opp ∧
    ctIso annConn.ct annConn.processed annConn.processed.size co.c2v co.opp = true := by
  have h := annulusPure.2
  have e1 : (startOf annM).c2v = (StS annSyms annEvs annConn.processed.size 19 annSyms.length).c2v := by
    decide +kernel
  have e2 : (startOf annM).opp = (StS annSyms annEvs annConn.processed.size 19 annSyms.length).opp := by
    decide +kernel
  have h' : CTIso annConn.ct annConn.processed annConn.processed.size (startOf annM).c2v (startOf annM).opp := by
    rw [e1, e2]
    unfold annSyms annEvs
    exact h
  exact ctIso_compact_of_check (ci := annCi) h' annCompact

end annulus

end Compact

end Draco.EbEnc
