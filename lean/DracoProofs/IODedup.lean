import DracoModel.IO.Common
import Mathlib.Data.List.Basic
import Mathlib.Data.List.Nodup
/-
  DracoProofs.IODedup — the deduplication passes every mesh reader runs
  (`DeduplicateAttributeValues`, `DeduplicatePointIds`) do not change what a geometry describes:
  every point keeps its attribute values, every face corner keeps its values.
-/
namespace Draco.IO
open Draco

@[simp] theorem dataTypeLength_f32 : dataTypeLength dtFLOAT32 = 4 := by decide
@[simp] theorem dataTypeLength_u8 : dataTypeLength dtUINT8 = 1 := by decide
@[simp] theorem dataTypeLength_i32 : dataTypeLength dtINT32 = 4 := by decide

/-! ### first-occurrence tables -/

section Table
variable {α : Type} [BEq α] [LawfulBEq α]

/-- invariant of the deduplication loop after the entries `proc` -/
structure TableInv (u : List α) (m : List Nat) (proc : List α) : Prop where
  len : m.length = proc.length
  nodup : u.Nodup
  sub : u.Sublist proc
  get : ∀ (i : Nat) (v : α), proc[i]? = some v → ∃ k : Nat, m[i]? = some k ∧ u[k]? = some v

theorem TableInv.step {u : List α} {m : List Nat} {proc : List α} (h : TableInv u m proc) (v : α) :
    TableInv (dedupStep (u, m) v).1 (dedupStep (u, m) v).2 (proc ++ [v]) := by
  unfold dedupStep
  by_cases hk : List.idxOf v u < u.length
  · simp only [hk, if_true]
    refine ⟨by simp [h.len], h.nodup, h.sub.trans (List.sublist_append_left _ _), ?_⟩
    intro i w hi
    by_cases hlt : i < proc.length
    · rw [List.getElem?_append_left hlt] at hi
      obtain ⟨k, hk1, hk2⟩ := h.get i w hi
      refine ⟨k, ?_, hk2⟩
      rw [List.getElem?_append_left (by rw [h.len]; exact hlt)]; exact hk1
    · have hi' : i = proc.length := by
        have : i < (proc ++ [v]).length := by
          by_contra hc
          rw [List.getElem?_eq_none (by omega)] at hi; cases hi
        simp at this; omega
      subst hi'
      simp at hi
      subst hi
      refine ⟨List.idxOf v u, ?_, ?_⟩
      · rw [← h.len]; simp
      · rw [List.getElem?_eq_getElem hk, List.getElem_idxOf hk]
  · simp only [hk, if_false]
    have hnm : v ∉ u := by
      intro hm; exact hk (List.idxOf_lt_length_iff.mpr hm)
    refine ⟨by simp [h.len], ?_, ?_, ?_⟩
    · rw [List.nodup_append]
      refine ⟨h.nodup, List.nodup_singleton v, ?_⟩
      intro a ha b hb
      simp at hb; subst hb
      intro hab; subst hab; exact hnm ha
    · exact List.Sublist.append h.sub (List.Sublist.refl _)
    · intro i w hi
      by_cases hlt : i < proc.length
      · rw [List.getElem?_append_left hlt] at hi
        obtain ⟨k, hk1, hk2⟩ := h.get i w hi
        refine ⟨k, ?_, ?_⟩
        · rw [List.getElem?_append_left (by rw [h.len]; exact hlt)]; exact hk1
        · have hklt : k < u.length := by
            by_contra hc
            rw [List.getElem?_eq_none (by omega)] at hk2; cases hk2
          rw [List.getElem?_append_left hklt]; exact hk2
      · have hi' : i = proc.length := by
          have : i < (proc ++ [v]).length := by
            by_contra hc
            rw [List.getElem?_eq_none (by omega)] at hi; cases hi
          simp at this; omega
        subst hi'
        simp at hi
        subst hi
        refine ⟨u.length, ?_, ?_⟩
        · rw [← h.len]; simp
        · simp

theorem TableInv.foldl {vals : List α} : ∀ {u : List α} {m : List Nat} {proc : List α},
    TableInv u m proc →
    TableInv (vals.foldl dedupStep (u, m)).1 (vals.foldl dedupStep (u, m)).2 (proc ++ vals) := by
  induction vals with
  | nil => intro u m proc h; simpa using h
  | cons v vs ih =>
    intro u m proc h
    have h1 := h.step v
    have h2 := ih (u := (dedupStep (u, m) v).1) (m := (dedupStep (u, m) v).2) h1
    simpa [List.foldl_cons, List.append_assoc] using h2

theorem dedupTable_inv (vals : List α) :
    TableInv (dedupTable vals).1 (dedupTable vals).2 vals := by
  have h0 : TableInv ([] : List α) [] [] :=
    ⟨rfl, List.nodup_nil, List.Sublist.refl _, by intro i v h; simp at h⟩
  have := TableInv.foldl (vals := vals) h0
  simpa [dedupTable] using this

/-- the new index of entry `i` points at an equal value -/
theorem dedupTable_get (vals : List α) (i : Nat) (h : i < vals.length) :
    ∃ k, (dedupTable vals).2[i]? = some k ∧ (dedupTable vals).1[k]? = some vals[i] :=
  (dedupTable_inv vals).get i vals[i] (List.getElem?_eq_getElem h)

theorem dedupTable_getD (vals : List α) (i : Nat) (h : i < vals.length) (d : α) :
    (dedupTable vals).1.getD ((dedupTable vals).2.getD i 0) d = vals[i] := by
  obtain ⟨k, h1, h2⟩ := dedupTable_get vals i h
  simp [List.getD_eq_getElem?_getD, h1, h2]

/-- two entries get the same new index iff they are equal -/
theorem dedupTable_index_eq_iff (vals : List α) (i j : Nat) (hi : i < vals.length) (hj : j < vals.length) :
    (dedupTable vals).2.getD i 0 = (dedupTable vals).2.getD j 0 ↔ vals[i] = vals[j] := by
  obtain ⟨k, h1, h2⟩ := dedupTable_get vals i hi
  obtain ⟨l, h3, h4⟩ := dedupTable_get vals j hj
  simp only [List.getD_eq_getElem?_getD, h1, h3, Option.getD_some]
  constructor
  · intro hkl; subst hkl; rw [h2] at h4; exact Option.some.inj h4
  · intro hv
    have hk : k < (dedupTable vals).1.length := by
      by_contra hc; rw [List.getElem?_eq_none (by omega)] at h2; cases h2
    have hl : l < (dedupTable vals).1.length := by
      by_contra hc; rw [List.getElem?_eq_none (by omega)] at h4; cases h4
    rw [List.getElem?_eq_getElem hk] at h2
    rw [List.getElem?_eq_getElem hl] at h4
    have : (dedupTable vals).1[k] = (dedupTable vals).1[l] := by
      rw [Option.some.inj h2, Option.some.inj h4, hv]
    exact (List.Nodup.getElem_inj_iff (dedupTable_inv vals).nodup).mp this

/-- when nothing was merged the table is returned unchanged (and had no duplicates) -/
theorem dedupTable_length_eq (vals : List α) (h : (dedupTable vals).1.length = vals.length) :
    (dedupTable vals).1 = vals ∧ vals.Nodup := by
  have inv := dedupTable_inv vals
  have := inv.sub.eq_of_length h
  exact ⟨this, this ▸ inv.nodup⟩

end Table

/-! ### value tables -/

theorem flatten_chunk {β : Type} (s : Nat) : ∀ (L : List (List β)) (k : Nat) (hk : k < L.length),
    (∀ x ∈ L, x.length = s) → (L.flatten.drop (k * s)).take s = L[k] := by
  intro L
  induction L with
  | nil => intro k hk; simp at hk
  | cons x xs ih =>
    intro k hk hall
    have hx : x.length = s := hall x (by simp)
    cases k with
    | zero => simp [hx]
    | succ k =>
      have : (k + 1) * s = x.length + k * s := by rw [hx, Nat.add_mul]; omega
      rw [List.flatten_cons, this, ← List.drop_drop, List.drop_left]
      simpa using ih k (by simpa using hk) (fun y hy => hall y (by simp [hy]))

theorem valueAt_length (a : Attribute) (hst : a.numValues * a.stride ≤ a.values.length)
    (i : Nat) (hi : i < a.numValues) : (a.ioValueAt i).length = a.stride := by
  unfold Attribute.ioValueAt
  rw [List.length_take, List.length_drop]
  have : (i + 1) * a.stride ≤ a.numValues * a.stride := Nat.mul_le_mul_right _ hi
  have h2 : (i + 1) * a.stride = i * a.stride + a.stride := by rw [Nat.add_mul]; omega
  omega

theorem table_length (a : Attribute) : a.ioTable.length = a.numValues := by
  simp [Attribute.ioTable]

theorem table_getElem (a : Attribute) (i : Nat) (hi : i < a.ioTable.length) :
    a.ioTable[i] = a.ioValueAt i := by
  simp [Attribute.ioTable]

theorem table_all_length (a : Attribute) (hst : a.numValues * a.stride ≤ a.values.length) :
    ∀ x ∈ a.ioTable, x.length = a.stride := by
  intro x hx
  simp only [Attribute.ioTable, List.mem_map, List.mem_range] at hx
  obtain ⟨i, hi, rfl⟩ := hx
  exact valueAt_length a hst i hi

/-- the fields `DeduplicateValues` never touches -/
theorem dedupValues_static (a : Attribute) :
    a.ioDedupValues.attType = a.attType ∧ a.ioDedupValues.dataType = a.dataType ∧
    a.ioDedupValues.numComponents = a.numComponents ∧ a.ioDedupValues.normalized = a.normalized ∧
    a.ioDedupValues.uniqueId = a.uniqueId ∧ a.ioDedupValues.stride = a.stride := by
  unfold Attribute.ioDedupValues
  by_cases h1 : dedupSupported a
  · by_cases h2 : (dedupTable a.ioTable).1.length = a.numValues <;> simp [h1, h2, Attribute.stride]
  · simp [h1]

/-- **`DeduplicateValues` keeps the value of every point.**  Hypotheses: the value table is
    completely stored, the point has a map entry, and that entry is a valid value index. -/
theorem dedupValues_pointValue (a : Attribute) (hst : a.numValues * a.stride ≤ a.values.length)
    (p : Nat) (hpm : ∀ m, a.map = some m → p < m.length) (hp : a.ioMappedIndex p < a.numValues) :
    a.ioDedupValues.ioPointValue p = a.ioPointValue p := by
  unfold Attribute.ioDedupValues
  by_cases h1 : dedupSupported a
  swap
  · simp [h1]
  · by_cases h2 : (dedupTable a.ioTable).1.length = a.numValues
    · simp [h1, h2]
    · -- the table really changed
      simp only [h1, h2, Bool.not_true, Bool.false_eq_true, if_false, beq_iff_eq]
      have hlen : a.ioTable.length = a.numValues := table_length a
      have hi : a.ioMappedIndex p < a.ioTable.length := by rw [hlen]; exact hp
      obtain ⟨k, hk1, hk2⟩ := dedupTable_get a.ioTable (a.ioMappedIndex p) hi
      have hklt : k < (dedupTable a.ioTable).1.length := by
        by_contra hc; rw [List.getElem?_eq_none (by omega)] at hk2; cases hk2
      have hall : ∀ x ∈ (dedupTable a.ioTable).1, x.length = a.stride := by
        intro x hx
        exact table_all_length a hst x ((dedupTable_inv a.ioTable).sub.subset hx)
      -- new mapped index
      have hmi : ({ a with
          numValues := (dedupTable a.ioTable).1.length
          values := (dedupTable a.ioTable).1.flatten
          map := some (remap a.map (dedupTable a.ioTable).2) } : Attribute).ioMappedIndex p = k := by
        unfold Attribute.ioMappedIndex remap
        simp only
        cases hm : a.map with
        | none =>
          simp only [Attribute.ioMappedIndex, hm] at hk1
          simp [List.getD_eq_getElem?_getD, hk1]
        | some m =>
          have hpl := hpm m hm
          simp only [Attribute.ioMappedIndex, hm] at hk1
          simp [List.getD_eq_getElem?_getD, List.getElem?_map, List.getElem?_eq_getElem hpl] at hk1 ⊢
          simp [hk1]
      unfold Attribute.ioPointValue
      rw [hmi]
      unfold Attribute.ioValueAt
      simp only [Attribute.stride]
      have := flatten_chunk (a.stride) (dedupTable a.ioTable).1 k hklt hall
      simp only [Attribute.stride] at this
      rw [this]
      rw [List.getElem?_eq_getElem hklt] at hk2
      rw [Option.some.inj hk2, table_getElem]
      rfl

/-! ### point ids -/

/-- `Geometry.valid` face part -/
def facesInRange (g : Geometry) : Prop :=
  ∀ f ∈ g.faces, f.1 < g.numPoints ∧ f.2.1 < g.numPoints ∧ f.2.2 < g.numPoints

/-- **`DeduplicatePointIds` keeps the per-corner values of every attribute** (and the number of
    faces, and every attribute field except the map). -/
theorem dedupPointIds_cornerValues (g : Geometry) (hf : facesInRange g) (k : Nat) (a : Attribute)
    (hk : g.atts[k]? = some a) :
    ∃ a', g.ioDedupPointIds.atts[k]? = some a' ∧
      cornerValues a' g.ioDedupPointIds.faces = cornerValues a g.faces ∧
      a'.attType = a.attType ∧ a'.dataType = a.dataType ∧ a'.numComponents = a.numComponents ∧
      a'.values = a.values ∧ a'.numValues = a.numValues := by
  unfold Geometry.ioDedupPointIds
  simp only
  split
  · exact ⟨a, hk, rfl, rfl, rfl, rfl, rfl, rfl⟩
  · -- points were merged
    generalize htup : (List.range g.numPoints).map (fun p => g.atts.map (·.ioMappedIndex p)) = tuples
    have hklt : k < g.atts.length := by
      by_contra hc; rw [List.getElem?_eq_none (by omega)] at hk; cases hk
    refine ⟨{ a with map := some ((dedupTable tuples).1.map (fun tp => tp.getD k 0)) }, ?_, ?_, rfl, rfl, rfl, rfl, rfl⟩
    · simp [List.getElem?_map, List.getElem?_zipIdx, hk]
    · -- per-point statement
      have hpt : ∀ p, p < g.numPoints →
          ({ a with map := some ((dedupTable tuples).1.map (fun tp => tp.getD k 0)) } : Attribute).ioPointValue
            ((dedupTable tuples).2.getD p 0) = a.ioPointValue p := by
        intro p hp
        have hpl : p < tuples.length := by rw [← htup]; simpa using hp
        obtain ⟨q, hq1, hq2⟩ := dedupTable_get tuples p hpl
        have htp : tuples[p] = g.atts.map (·.ioMappedIndex p) := by
          subst htup; simp
        unfold Attribute.ioPointValue Attribute.ioValueAt
        simp only [Attribute.stride]
        have : ({ a with map := some ((dedupTable tuples).1.map (fun tp => tp.getD k 0)) } : Attribute).ioMappedIndex
            ((dedupTable tuples).2.getD p 0) = a.ioMappedIndex p := by
          simp only [Attribute.ioMappedIndex, List.getD_eq_getElem?_getD, hq1, Option.getD_some,
            List.getElem?_map, hq2, Option.map_some, htp]
          rw [hk]
          simp
        rw [this]
      unfold cornerValues
      rw [List.map_map]
      apply List.map_congr_left
      intro f hfm
      obtain ⟨h1, h2, h3⟩ := hf f hfm
      obtain ⟨x, y, z⟩ := f
      simp only [Function.comp]
      rw [hpt x h1, hpt y h2, hpt z h3]

theorem dedupPointIds_faces_length (g : Geometry) : g.ioDedupPointIds.faces.length = g.faces.length := by
  unfold Geometry.ioDedupPointIds
  simp only
  split <;> simp

theorem dedupPointIds_atts_length (g : Geometry) : g.ioDedupPointIds.atts.length = g.atts.length := by
  unfold Geometry.ioDedupPointIds
  simp only
  split <;> simp

theorem dedupPointIds_isMesh (g : Geometry) : g.ioDedupPointIds.isMesh = g.isMesh := by
  unfold Geometry.ioDedupPointIds
  simp only
  split <;> simp

/-- storage validity of one attribute w.r.t. a point count (the `Prop` form of `Attribute.valid`
    minus the component / type checks) -/
structure AttOk (a : Attribute) (numPoints : Nat) : Prop where
  stored : a.numValues * a.stride ≤ a.values.length
  mapLen : ∀ m, a.map = some m → m.length = numPoints
  inRange : ∀ p, p < numPoints → a.ioMappedIndex p < a.numValues

theorem attOk_of_valid (a : Attribute) (n : Nat) (h : a.valid n = true) : AttOk a n := by
  unfold Attribute.valid at h
  simp only [Bool.and_eq_true, decide_eq_true_eq] at h
  obtain ⟨⟨⟨-, -⟩, hst⟩, hmap⟩ := h
  refine ⟨hst, ?_, ?_⟩
  · intro m hm
    rw [hm] at hmap
    simp only [Bool.and_eq_true, beq_iff_eq] at hmap
    exact hmap.1
  · intro p hp
    unfold Attribute.ioMappedIndex
    cases hm : a.map with
    | none => rw [hm] at hmap; simp only [decide_eq_true_eq] at hmap; simp only; omega
    | some m =>
      rw [hm] at hmap
      simp only [Bool.and_eq_true, beq_iff_eq, List.all_eq_true, decide_eq_true_eq] at hmap
      simp only [List.getD_eq_getElem?_getD]
      have hpl : p < m.length := by omega
      rw [List.getElem?_eq_getElem hpl]
      exact hmap.2 _ (List.getElem_mem hpl)

theorem facesInRange_of_valid (g : Geometry) (h : g.valid = true) : facesInRange g := by
  unfold Geometry.valid at h
  simp only [Bool.and_eq_true, List.all_eq_true, decide_eq_true_eq] at h
  intro f hf
  have := h.1 f hf
  obtain ⟨x, y, z⟩ := f
  simpa [and_assoc] using this

theorem attsOk_of_valid (g : Geometry) (h : g.valid = true) : ∀ a ∈ g.atts, AttOk a g.numPoints := by
  unfold Geometry.valid at h
  simp only [Bool.and_eq_true, List.all_eq_true] at h
  intro a ha
  exact attOk_of_valid a _ (h.2 a ha)

theorem namedAtt_mem (g : Geometry) (ty : Nat) (a : Attribute) (h : g.ioNamedAtt ty = some a) :
    a ∈ g.atts ∧ a.attType = ty := by
  unfold Geometry.ioNamedAtt at h
  refine ⟨List.mem_of_find?_eq_some h, ?_⟩
  have := List.find?_some h
  simpa using this

theorem dedupValues_cornerValues (a : Attribute) (n : Nat) (h : AttOk a n)
    (faces : List (Nat × Nat × Nat)) (hf : ∀ f ∈ faces, f.1 < n ∧ f.2.1 < n ∧ f.2.2 < n) :
    cornerValues a.ioDedupValues faces = cornerValues a faces := by
  unfold cornerValues
  apply List.map_congr_left
  intro f hfm
  obtain ⟨h1, h2, h3⟩ := hf f hfm
  obtain ⟨x, y, z⟩ := f
  have hp : ∀ p, p < n → a.ioDedupValues.ioPointValue p = a.ioPointValue p := fun p hp =>
    dedupValues_pointValue a h.stored p (fun m hm => by rw [h.mapLen m hm]; exact hp) (h.inRange p hp)
  simp only
  rw [hp x h1, hp y h2, hp z h3]

theorem geometry_dedupValues_getElem? (g : Geometry) (k : Nat) (a : Attribute) (hk : g.atts[k]? = some a) :
    g.ioDedupValues.atts[k]? = some (if g.numPoints == 0 then a else a.ioDedupValues) := by
  unfold Geometry.ioDedupValues
  by_cases h : g.numPoints == 0
  · simp [h, hk]
  · simp [h, List.getElem?_map, hk]

/-- **Both deduplication passes together keep the per-corner values of every attribute**, the
    number of faces and attributes, and each attribute's type / data type / component count. -/
theorem dedup_cornerValues (g : Geometry) (hf : facesInRange g)
    (hatts : ∀ a ∈ g.atts, AttOk a g.numPoints) (k : Nat) (a : Attribute) (hk : g.atts[k]? = some a) :
    ∃ a', g.ioDedupValues.ioDedupPointIds.atts[k]? = some a' ∧
      cornerValues a' g.ioDedupValues.ioDedupPointIds.faces = cornerValues a g.faces ∧
      a'.attType = a.attType ∧ a'.dataType = a.dataType ∧ a'.numComponents = a.numComponents := by
  have hk1 := geometry_dedupValues_getElem? g k a hk
  have hfaces : g.ioDedupValues.faces = g.faces := by
    unfold Geometry.ioDedupValues; split <;> rfl
  have hnp : g.ioDedupValues.numPoints = g.numPoints := by
    unfold Geometry.ioDedupValues; split <;> rfl
  have hf1 : facesInRange g.ioDedupValues := by
    unfold facesInRange; rw [hfaces, hnp]; exact hf
  obtain ⟨a', h1, h2, h3, h4, h5, -, -⟩ := dedupPointIds_cornerValues g.ioDedupValues hf1 k _ hk1
  refine ⟨a', h1, ?_, ?_, ?_, ?_⟩
  · rw [h2, hfaces]
    by_cases h0 : g.numPoints == 0
    · simp [h0]
    · simp only [h0, Bool.false_eq_true, if_false]
      exact dedupValues_cornerValues a g.numPoints (hatts a (List.mem_of_getElem? hk)) g.faces hf
  · rw [h3]; split
    · rfl
    · exact (dedupValues_static a).1
  · rw [h4]; split
    · rfl
    · exact (dedupValues_static a).2.1
  · rw [h5]; split
    · rfl
    · exact (dedupValues_static a).2.2.1

theorem dedup_faces_length (g : Geometry) : g.ioDedupValues.ioDedupPointIds.faces.length = g.faces.length := by
  rw [dedupPointIds_faces_length]; unfold Geometry.ioDedupValues; split <;> rfl

theorem dedup_atts_length (g : Geometry) : g.ioDedupValues.ioDedupPointIds.atts.length = g.atts.length := by
  rw [dedupPointIds_atts_length]; unfold Geometry.ioDedupValues; split <;> simp

theorem dedup_isMesh (g : Geometry) : g.ioDedupValues.ioDedupPointIds.isMesh = g.isMesh := by
  rw [dedupPointIds_isMesh]; unfold Geometry.ioDedupValues; split <;> rfl

end Draco.IO
