import DracoProofs.EbAssignPoints
import DracoProofs.EbEncCounts2
/-
  C09, Edgebreaker points: the fans of the ENCODER's corner table (`EncCounts.fanOfE`, DracoProofs/EbEncCounts2.lean) and
  the fans of the DECODER's corner table (`fanOfD`, DracoProofs/EbAssignPoints.lean) correspond under the isomorphism of
  the two tables, hence the number of points the encoder reports (`computeNumberOfEncodedPoints`) is the number of points
  the decoder creates (`assignPoints`).

  (1) `points_sim`: `Counts.encPoints` / `Counts.decPoints` only look at the equality pattern of the attribute vertices:
      two fans with the same `closed`, the same `onSeam` and corner lists related pointwise by a relation that preserves
      `avDiff` and the per-attribute equalities (`AvRel`) have the same `encPoints` and the same `decPoints`.
  (1') `encPoints_rotate`: `encPoints` of a closed fan does not depend on the corner the fan is started at.
  (2) `fan_corr`: under `FanHyps` (base views isomorphic, `APHyp`, hole flags sound, the encoder's table invariants) and
      `AttVertIff`, `encPoints (fanOfE t used (ψ v)) = encPoints (fanOfD co attsD v)`: the encoder's corner list is the image
      of the decoder's when the fan is open (both start at the boundary) and a rotation of it when the fan is closed.
  (3) `vertCorr`: under `Coverage`, `ψ` is a bijection between the vertices in use on the two sides (`VertCorr`).
  (4) `eb_encoded_points_eq_decoded` (and `…_single`, `encoded_points_eq_decoded_of_corr`, `points_eq_of_corr`):
      `computeNumberOfEncodedPoints … = .ok nE`, `assignPoints … = .ok (c2p, nD, tags)` ⇒ `nE = nD`.
      `fanHyps_of_create`: the encoder's clauses of `FanHyps` for a table made by `CornerTable.create`.
  Named hypotheses nothing in the tree proves: `hiso` (`num_vertices − NumIsolatedVertices` = number of vertices with a
  left-most corner), `FanHyps.hole` (a vertex marked in `is_vert_hole_` has a fan that reaches the boundary), `Coverage`,
  `hvcE`, `SeamFlagsSound` (H2), and for the position-only case `hconn`.
-/
namespace Draco.EbEnc.CountsIso
open Draco
open Draco.Eb hiding nextC prevC iabs
open Draco.Counts

/-! ## (1) the counts only see the equality pattern of the attribute vertices -/

/-- a relation between the corners of two fans under which "the attribute vertices differ in some table" and "the vertices
    in table `i` are equal" mean the same on both sides -/
structure AvRel (R : FanCorner → FanCorner → Prop) : Prop where
  diff : ∀ a a' b b', R a a' → R b b' → avDiff a.av b.av = avDiff a'.av b'.av
  eqv : ∀ a a' b b', R a a' → R b b' → ∀ i, (a.av.getD i 0 = b.av.getD i 0 ↔ a'.av.getD i 0 = b'.av.getD i 0)

/-- the deduplication pass of a closed fan from its start corner -/
def startCount (A : List FanCorner) : Nat :=
  match A with
  | [] => 0
  | s :: rest => 1 + decWalk s rest

section sim
variable {R : FanCorner → FanCorner → Prop} (hR : AvRel R)
include hR

theorem encWalk_sim {cs cs' : List FanCorner} (h : List.Forall₂ R cs cs') :
    ∀ {last last' : FanCorner}, R last last' → encWalk last cs = encWalk last' cs' := by
  induction h with
  | nil => intro _ _ _; rfl
  | cons hc _ ih =>
    intro last last' hl
    simp only [encWalk]
    rw [hR.diff _ _ _ _ hc hl, ih hc]

theorem decWalk_sim {cs cs' : List FanCorner} (h : List.Forall₂ R cs cs') :
    ∀ {prev prev' : FanCorner}, R prev prev' → decWalk prev cs = decWalk prev' cs' := by
  induction h with
  | nil => intro _ _ _; rfl
  | cons hc _ ih =>
    intro prev prev' hl
    simp only [decWalk]
    rw [hR.diff _ _ _ _ hc hl, ih hc]

theorem seamOffset_sim (i : Nat) {c0 c0' : FanCorner} (h0 : R c0 c0') {cs cs' : List FanCorner}
    (h : List.Forall₂ R cs cs') :
    seamOffset i (c0.av.getD i 0) cs = seamOffset i (c0'.av.getD i 0) cs' := by
  induction h with
  | nil => rfl
  | @cons c c' l l' hc _ ih =>
    simp only [seamOffset]
    have e : (c.av.getD i 0 != c0.av.getD i 0) = (c'.av.getD i 0 != c0'.av.getD i 0) := by
      have := hR.eqv _ _ _ _ hc h0 i
      by_cases h1 : c.av.getD i 0 = c0.av.getD i 0
      · have h2 := this.mp h1
        rw [h1, h2, bne_self_eq_false, bne_self_eq_false]
      · have h2 : ¬ c'.av.getD i 0 = c0'.av.getD i 0 := fun h => h1 (this.mpr h)
        rw [bne_iff_ne.mpr h1, bne_iff_ne.mpr h2]
    rw [e, ih]

theorem dedupStart_sim {c0 c0' : FanCorner} (h0 : R c0 c0') {cs cs' : List FanCorner} (h : List.Forall₂ R cs cs') :
    ∀ (flags : List Bool) (i : Nat), dedupStart c0 cs i flags = dedupStart c0' cs' i flags := by
  intro flags
  induction flags with
  | nil => intro i; rfl
  | cons fl flags ih =>
    intro i
    simp only [dedupStart]
    rw [seamOffset_sim hR i h0 h, ih (i + 1)]

theorem encSeams_sim {f f' : Fan} (hcl : f.closed = f'.closed) (hc : List.Forall₂ R f.corners f'.corners) :
    encSeams f = encSeams f' := by
  obtain ⟨l, cl, os⟩ := f
  obtain ⟨l', cl', os'⟩ := f'
  simp only at hcl hc
  subst hcl
  unfold encSeams
  cases hc with
  | nil => rfl
  | cons h0 hcs =>
    simp only
    cases cl with
    | false => exact encWalk_sim hR hcs h0
    | true =>
      simp only [if_true]
      exact encWalk_sim hR (List.rel_append hcs (List.Forall₂.cons h0 List.Forall₂.nil)) h0

theorem startWalk_sim {A A' : List FanCorner} (h : List.Forall₂ R A A') : startCount A = startCount A' := by
  cases h with
  | nil => rfl
  | cons hs hrest => simp only [startCount]; rw [decWalk_sim hR hrest hs]

/-- **(1)** two fans that look the same to the two procedures -/
theorem points_sim {f f' : Fan} (hcl : f.closed = f'.closed) (hs : f.onSeam = f'.onSeam)
    (hc : List.Forall₂ R f.corners f'.corners) :
    encPoints f = encPoints f' ∧ decPoints f = decPoints f' := by
  constructor
  · unfold encPoints
    rw [encSeams_sim hR hcl hc, hcl]
  · obtain ⟨l, cl, os⟩ := f
    obtain ⟨l', cl', os'⟩ := f'
    simp only at hcl hs hc
    subst hcl hs
    unfold decPoints
    cases hc with
    | nil => rfl
    | @cons c0 c0' cs cs' h0 hcs =>
      simp only
      cases cl with
      | false =>
        simp only [Bool.false_eq_true, if_false]
        rw [decWalk_sim hR hcs h0]
      | true =>
        simp only [if_true]
        rw [dedupStart_sim hR h0 hcs os 0]
        have hall : List.Forall₂ R (c0 :: cs) (c0' :: cs') := List.Forall₂.cons h0 hcs
        have hrot : List.Forall₂ R
            (List.drop (dedupStart c0' cs' 0 os) (c0 :: cs) ++ List.take (dedupStart c0' cs' 0 os) (c0 :: cs))
            (List.drop (dedupStart c0' cs' 0 os) (c0' :: cs') ++ List.take (dedupStart c0' cs' 0 os) (c0' :: cs')) :=
          List.rel_append (List.forall₂_drop (dedupStart c0' cs' 0 os) hall)
            (List.forall₂_take (dedupStart c0' cs' 0 os) hall)
        exact startWalk_sim hR hrot

end sim

/-! ## (1') a closed fan may be started at any of its corners -/

/-- number of cyclically consecutive corner pairs that differ in some attribute corner table -/
def cyc : List FanCorner → Nat
  | [] => 0
  | c0 :: cs => cnt chgR c0 (cs ++ [c0])

theorem lastOf_snoc (l : List FanCorner) : ∀ (x y : FanCorner), lastOf x (l ++ [y]) = y := by
  induction l with
  | nil => intro x y; rfl
  | cons c cs ih => intro x y; exact ih c y

theorem cyc_rot1 (a : FanCorner) (L : List FanCorner) : cyc (a :: L) = cyc (L ++ [a]) := by
  cases L with
  | nil => rfl
  | cons c1 rest =>
    show cnt chgR a (c1 :: rest ++ [a]) = cnt chgR c1 ((rest ++ [a]) ++ [c1])
    rw [cnt_snoc chgR (rest ++ [a]) c1 c1, lastOf_snoc]
    simp only [List.cons_append, cnt]
    omega

theorem cyc_comm : ∀ (A B : List FanCorner), cyc (A ++ B) = cyc (B ++ A) := by
  intro A
  induction A with
  | nil => intro B; simp
  | cons a A ih =>
    intro B
    rw [List.cons_append, cyc_rot1, List.append_assoc, ih (B ++ [a]), List.append_assoc]
    rfl

theorem encSeams_closed (l : List FanCorner) (os : List Bool) : encSeams ⟨l, true, os⟩ = cyc l := by
  cases l with
  | nil => rfl
  | cons c0 cs =>
    show encWalk c0 (cs ++ [c0]) = _
    rw [encWalk_eq_cnt]
    rfl

/-- **(1')** `encPoints` of a closed fan is invariant under rotation of the corner list (and ignores `onSeam`) -/
theorem encPoints_rotate (l : List FanCorner) (k : Nat) (os os' : List Bool) :
    encPoints ⟨l, true, os⟩ = encPoints ⟨l.drop k ++ l.take k, true, os'⟩ := by
  unfold encPoints
  rw [encSeams_closed, encSeams_closed]
  have : cyc l = cyc (l.drop k ++ l.take k) := by
    conv_lhs => rw [← List.take_append_drop k l]
    exact cyc_comm _ _
  rw [this]

/-- `encPoints` does not look at `onSeam` -/
theorem encPoints_onSeam (l : List FanCorner) (b : Bool) (os os' : List Bool) :
    encPoints ⟨l, b, os⟩ = encPoints ⟨l, b, os'⟩ := rfl

/-! ## (4, abstract form) the two sums -/

/-- the vertices that have a left-most corner -/
def usedVerts (vc : Array Nat) : List Nat := (List.range vc.size).filter (fun v => vc[v]! != inv)

theorem mem_usedVerts {vc : Array Nat} {v : Nat} : v ∈ usedVerts vc ↔ v < vc.size ∧ vc[v]! ≠ inv := by
  unfold usedVerts
  rw [List.mem_filter, List.mem_range]
  simp

theorem usedVerts_nodup (vc : Array Nat) : (usedVerts vc).Nodup := List.nodup_range.filter _

/-- the vertex map is a bijection between the vertices in use on the two sides -/
structure VertCorr (dvc evc : Array Nat) (ψ : Nat → Nat) : Prop where
  inj : ∀ v v', v ∈ usedVerts dvc → v' ∈ usedVerts dvc → ψ v = ψ v' → v = v'
  img : ∀ v, v ∈ usedVerts dvc → ψ v ∈ usedVerts evc
  surj : ∀ w, w ∈ usedVerts evc → ∃ v, v ∈ usedVerts dvc ∧ ψ v = w

theorem VertCorr.perm {dvc evc : Array Nat} {ψ : Nat → Nat} (h : VertCorr dvc evc ψ) :
    ((usedVerts dvc).map ψ).Perm (usedVerts evc) := by
  rw [List.perm_ext_iff_of_nodup ((usedVerts_nodup dvc).map_on (fun x hx y hy e => h.inj x y hx hy e))
    (usedVerts_nodup evc)]
  intro w
  rw [List.mem_map]
  constructor
  · rintro ⟨v, hv, rfl⟩; exact h.img v hv
  · intro hw
    obtain ⟨v, hv, e⟩ := h.surj w hw
    exact ⟨v, hv, e⟩

theorem VertCorr.sum {dvc evc : Array Nat} {ψ : Nat → Nat} (h : VertCorr dvc evc ψ) (g : Nat → Nat) :
    ((usedVerts evc).map g).sum = ((usedVerts dvc).map (fun v => g (ψ v))).sum := by
  have := (h.perm.map g).sum_nat
  rw [List.map_map] at this
  exact this.symm

theorem sum_filter_zero (p : Nat → Bool) (g : Nat → Nat) (h0 : ∀ v, p v = false → g v = 0) :
    ∀ l : List Nat, (l.map g).sum = ((l.filter p).map g).sum := by
  intro l
  induction l with
  | nil => rfl
  | cons a l ih =>
    rw [List.map_cons, List.sum_cons, List.filter_cons]
    cases hp : p a with
    | true => simp only [if_true, List.map_cons, List.sum_cons, ih]
    | false => simp only [Bool.false_eq_true, if_false, h0 a hp, Nat.zero_add, ih]

theorem len_add_sum_pred (g : Nat → Nat) : ∀ l : List Nat, (∀ v ∈ l, 1 ≤ g v) →
    l.length + (l.map (fun v => g v - 1)).sum = (l.map g).sum := by
  intro l
  induction l with
  | nil => intro _; rfl
  | cons a l ih =>
    intro h
    have h1 := h a List.mem_cons_self
    have h2 := ih (fun v hv => h v (List.mem_cons_of_mem _ hv))
    simp only [List.length_cons, List.map_cons, List.sum_cons]
    omega

theorem encPoints_pos (f : Fan) : 1 ≤ encPoints f := by
  unfold encPoints; omega

open EncCounts in
/-- the encoder's formula as a sum of `encPoints` over the vertices in use, when `num_vertices − isolated` is their
    number -/
theorem encoder_sum (t : CT) (used : Array AttConn)
    (hiso : t.numVertices - t.numIsolated = (usedVerts t.vc).length) :
    (t.numVertices - t.numIsolated) + ((List.range t.numVertices).map (extraPoints t used)).sum =
      ((usedVerts t.vc).map (fun w => encPoints (fanOfE t used w))).sum := by
  rw [hiso, sum_filter_zero (fun v => t.vc[v]! != inv) (extraPoints t used) (by
    intro v hv
    have : t.vc[v]! = inv := by simpa using hv
    simp [extraPoints, this])]
  have e : ((List.range t.numVertices).filter (fun v => t.vc[v]! != inv)) = usedVerts t.vc := rfl
  rw [e, ← len_add_sum_pred _ _ (fun v _ => encPoints_pos _)]
  congr 2
  apply List.map_congr_left
  intro v hv
  have := (mem_usedVerts.mp hv).2
  simp [extraPoints, this]

open EncCounts in
/-- **(4), abstract form**: the two counts agree when the fans correspond (`hfan`), the vertices in use correspond
    (`VertCorr`), the per-fan equality holds on the decoder's fans (`hD2`, from `C09.eb_point_count_fan`) and
    `num_vertices − isolated` counts the encoder's vertices in use (`hiso`) -/
theorem points_eq_of_corr (t : CT) (used : Array AttConn) (co : ConnOut) (attsD : Array AttConn) (ψ : Nat → Nat)
    (nE nD : Nat)
    (hE : nE = (t.numVertices - t.numIsolated) + ((List.range t.numVertices).map (extraPoints t used)).sum)
    (hD : nD = ((usedVerts co.vc).map (fun v => decPoints (fanOfD co attsD v))).sum)
    (hiso : t.numVertices - t.numIsolated = (usedVerts t.vc).length)
    (hvert : VertCorr co.vc t.vc ψ)
    (hfan : ∀ v, v ∈ usedVerts co.vc → encPoints (fanOfE t used (ψ v)) = encPoints (fanOfD co attsD v))
    (hD2 : ∀ v, v ∈ usedVerts co.vc → encPoints (fanOfD co attsD v) = decPoints (fanOfD co attsD v)) :
    nE = nD := by
  rw [hE, hD, encoder_sum t used hiso, hvert.sum]
  congr 1
  apply List.map_congr_left
  intro v hv
  rw [hfan v hv, hD2 v hv]

/-- the per-fan equality (`C09.eb_point_count_fan`, re-derived here from DracoProofs/EbCounts.lean) -/
theorem point_count_fan (f : Fan) (hk : f.corners ≠ [])
    (hlen : ∀ c ∈ f.corners, c.av.length = f.onSeam.length)
    (h2 : f.closed = true → ∀ i, i < f.onSeam.length →
      (∃ a ∈ f.corners, ∃ b ∈ f.corners, a.av.getD i 0 ≠ b.av.getD i 0) →
      f.onSeam.getD i false = true) :
    encPoints f = decPoints f := by
  unfold encPoints
  rw [encSeams_eq_avChanges f hlen]
  cases hc : f.closed with
  | false =>
    rw [decPoints_open f hk hc hlen]
    simp only [Bool.false_and, Bool.false_eq_true, if_false]
    omega
  | true =>
    rw [decPoints_closed f hk hc hlen (h2 hc)]
    by_cases hs : f.avChanges > 0
    · simp only [Bool.true_and, decide_eq_true_eq, hs, if_true]
      omega
    · simp only [Bool.true_and, decide_eq_true_eq, hs, if_false]
      omega

/-- H2 on the decoder's fans: an attribute that is not constant around an interior vertex has `IsCornerOnSeam` set at
    the left-most corner (as in `C09Eb.eb_decoded_points_encoder_formula`) -/
def SeamFlagsSound (co : ConnOut) (attsD : Array AttConn) : Prop :=
  ∀ v, v < co.vc.size → co.vc[v]! ≠ inv → (fanOfD co attsD v).closed = true →
    ∀ i, i < (fanOfD co attsD v).onSeam.length →
      (∃ a ∈ (fanOfD co attsD v).corners, ∃ b ∈ (fanOfD co attsD v).corners, a.av.getD i 0 ≠ b.av.getD i 0) →
      (fanOfD co attsD v).onSeam.getD i false = true

open EncCounts AttViews in
/-- **(4) with the correspondences as hypotheses**: encoder run + decoder run, the table invariants of both sides, H2,
    and the three correspondences `hiso`, `hvert`, `hfan` ⇒ the reported number of points is the decoded one. -/
theorem encoded_points_eq_decoded_of_corr (atts : Array Attribute) (conn : ConnEnc) (used : Array AttConn) (nE : Nat)
    (co : ConnOut) (n : Nat) (attsD : Array AttConn) (c2p : Array Nat) (nD tags : Nat) (ψ : Nat → Nat)
    (hatts : atts.size > 1)
    (hrunE : computeNumberOfEncodedPoints atts conn used = .ok nE)
    (hb : BaseTbl conn.ct.numCorners conn.ct.opp)
    (hvc : ∀ v, v < conn.ct.numVertices → conn.ct.vc[v]! ≠ inv → conn.ct.vc[v]! < conn.ct.numCorners)
    (hlm : ∀ v, v < conn.ct.numVertices → conn.ct.vc[v]! ≠ inv → sLP conn.ct.opp conn.ct.vc[v]! ≠ inv →
      ∀ j, iter (sRP conn.ct.opp) j conn.ct.vc[v]! ≠ inv)
    (hH : APHyp n co) (hne : attsD.isEmpty = false)
    (hrunD : assignPoints co n attsD = .ok (c2p, nD, tags))
    (h2 : SeamFlagsSound co attsD)
    (hiso : conn.ct.numVertices - conn.ct.numIsolated = (usedVerts conn.ct.vc).length)
    (hvert : VertCorr co.vc conn.ct.vc ψ)
    (hfan : ∀ v, v ∈ usedVerts co.vc →
      encPoints (fanOfE conn.ct used (ψ v)) = encPoints (fanOfD co attsD v)) :
    nE = nD := by
  apply points_eq_of_corr conn.ct used co attsD ψ nE nD
    (computeNumberOfEncodedPoints_tbl atts conn used nE hatts hb hvc hlm hrunE)
    (assignPoints_count co n attsD c2p nD tags hH hne hrunD) hiso hvert hfan
  intro v hv
  obtain ⟨hv1, hv2⟩ := mem_usedVerts.mp hv
  obtain ⟨s1, s2⟩ := fanOfD_shape co attsD v hv2
  exact point_count_fan _ s1 s2 (h2 v hv1 hv2)


/-! ## (2) the fans correspond -/

/-! ### the relation between corresponding corners -/

/-- **`AttVertIff`**: the used attribute corner tables of the two sides (same number, same order) have the same equality
    pattern of attribute vertices under the corner map (what the isomorphism of the attribute views gives) -/
def AttVertIff (n : Nat) (attsD used : Array AttConn) (φ : Nat → Nat) : Prop :=
  used.size = attsD.size ∧ ∀ i, i < attsD.size → ∀ c c', c < 3 * n → c' < 3 * n →
    (attsD[i]!.c2v[c]! = attsD[i]!.c2v[c']! ↔ used[i]!.c2v[φ c]! = used[i]!.c2v[φ c']!)

/-- a decoder corner and its image, as the two procedures see them -/
def CornerRel (n : Nat) (attsD used : Array AttConn) (φ : Nat → Nat) (a a' : FanCorner) : Prop :=
  ∃ x, x < 3 * n ∧ a = fanCornerD attsD x ∧ a' = EncCounts.fanCorner used (φ x)

theorem avDiff_map2 {α β : Type} (f g : α → Nat) (f' g' : β → Nat) : ∀ (l : List α) (l' : List β),
    l.length = l'.length →
    (∀ i (hi : i < l.length) (hi' : i < l'.length), (f l[i] = g l[i] ↔ f' l'[i] = g' l'[i])) →
    avDiff (l.map f) (l.map g) = avDiff (l'.map f') (l'.map g') := by
  intro l
  induction l with
  | nil =>
    intro l' hl _
    cases l' with
    | nil => rfl
    | cons b l' => simp at hl
  | cons a l ih =>
    intro l' hl h
    cases l' with
    | nil => simp at hl
    | cons b l' =>
      simp only [List.map_cons, avDiff]
      have h0 := h 0 (by simp) (by simp)
      simp only [List.getElem_cons_zero] at h0
      have e0 : (f a != g a) = (f' b != g' b) := by
        by_cases e : f a = g a
        · rw [e, h0.mp e, bne_self_eq_false, bne_self_eq_false]
        · rw [bne_iff_ne.mpr e, bne_iff_ne.mpr (fun e' => e (h0.mpr e'))]
      rw [e0, ih l' (by simpa using hl) (fun i hi hi' => by
        have := h (i + 1) (by simp; omega) (by simp; omega)
        simpa using this)]

theorem getD_map2 {α β : Type} (f g : α → Nat) (f' g' : β → Nat) (l : List α) (l' : List β)
    (hl : l.length = l'.length)
    (h : ∀ i (hi : i < l.length) (hi' : i < l'.length), (f l[i] = g l[i] ↔ f' l'[i] = g' l'[i])) (i : Nat) :
    ((l.map f).getD i 0 = (l.map g).getD i 0 ↔ (l'.map f').getD i 0 = (l'.map g').getD i 0) := by
  by_cases hi : i < l.length
  · have hi' : i < l'.length := by omega
    simp only [List.getD_eq_getElem?_getD, List.getElem?_map, List.getElem?_eq_getElem hi,
      List.getElem?_eq_getElem hi', Option.map_some, Option.getD_some]
    exact h i hi hi'
  · have hi' : ¬ i < l'.length := by omega
    simp only [List.getD_eq_getElem?_getD, List.getElem?_map, List.getElem?_eq_none (Nat.le_of_not_lt hi),
      List.getElem?_eq_none (Nat.le_of_not_lt hi'), Option.map_none, Option.getD_none]

theorem avRel_of_iff {n : Nat} {attsD used : Array AttConn} {φ : Nat → Nat} (h : AttVertIff n attsD used φ) :
    AvRel (CornerRel n attsD used φ) := by
  obtain ⟨hsz, hiff⟩ := h
  have hlen : attsD.toList.length = used.toList.length := by simp [hsz]
  have key : ∀ x y, x < 3 * n → y < 3 * n → ∀ i (hi : i < attsD.toList.length) (hi' : i < used.toList.length),
      (attsD.toList[i].c2v[x]! = attsD.toList[i].c2v[y]! ↔ used.toList[i].c2v[φ x]! = used.toList[i].c2v[φ y]!) := by
    intro x y hx hy i hi hi'
    have hi1 : i < attsD.size := by simpa using hi
    have hi2 : i < used.size := by simpa using hi'
    have := hiff i hi1 x y hx hy
    simp only [Array.getElem_toList]
    rw [show attsD[i]! = attsD[i] by simp [hi1], show used[i]! = used[i] by simp [hi2]] at this
    exact this
  constructor
  · rintro a a' b b' ⟨x, hx, rfl, rfl⟩ ⟨y, hy, rfl, rfl⟩
    exact avDiff_map2 _ _ _ _ _ _ hlen (key x y hx hy)
  · rintro a a' b b' ⟨x, hx, rfl, rfl⟩ ⟨y, hy, rfl, rfl⟩ i
    exact getD_map2 _ _ _ _ _ _ hlen (key x y hx hy) i

theorem encPoints_sim' {R : FanCorner → FanCorner → Prop} (hR : AvRel R) {f f' : Fan} (hcl : f.closed = f'.closed)
    (hc : List.Forall₂ R f.corners f'.corners) : encPoints f = encPoints f' := by
  unfold encPoints
  rw [encSeams_sim hR hcl hc, hcl]

/-! ### `SwingRight` / `SwingLeft` under the isomorphism of the base views -/

open AttViews

section nav
variable {n : Nat} {dc2v dopp dvc : Array Nat} {t : CT} {φ ψ : Nat → Nat}
  (hB : TVIso (baseViewD n dc2v dopp dvc) t.view φ ψ)
include hB

/-- a decoder corner or the invalid corner -/
def Valid (n x : Nat) : Prop := x = inv ∨ x < 3 * n

omit hB in
theorem valid_prev {x : Nat} (hn : 3 * n ≤ inv) (hx : Valid n x) : Valid n (Eb.prevC x) := by
  rcases hx with rfl | hx
  · exact Or.inl prevC_inv
  · exact Or.inr (TVIso.prevC_lt hx hn)

theorem ext_prev {x : Nat} (hx : Valid n x) : ext φ (Eb.prevC x) = Eb.prevC (ext φ x) := by
  rcases hx with rfl | hx
  · rw [prevC_inv, ext_inv, prevC_inv]
  · have hp := TVIso.prevC_lt hx hB.fits.1
    rw [ext_of_ne φ (hB.ne_inv x hx), ext_of_ne φ (hB.ne_inv _ hp)]
    exact hB.phi_prev x hx

theorem sR_corr {x : Nat} (hx : Valid n x) :
    sRP t.opp (ext φ x) = ext φ (sRP dopp x) ∧ Valid n (sRP dopp x) := by
  rcases hx with rfl | hx
  · rw [ext_inv, sRP_inv, sRP_inv, ext_inv]
    exact ⟨rfl, Or.inl rfl⟩
  · have hp := TVIso.prevC_lt hx hB.fits.1
    obtain ⟨ho, e⟩ := base_opp_corr hB _ hp
    rw [ext_of_ne φ (hB.ne_inv x hx)]
    unfold sRP
    rw [if_neg (hB.ne_inv x hx), if_neg (hB.phi_ne_inv x hx), ← hB.phi_prev x hx, e]
    exact ⟨(ext_prev hB ho).symm, valid_prev hB.fits.1 ho⟩

theorem iter_sR_corr : ∀ (k : Nat) {x : Nat}, Valid n x →
    iter (sRP t.opp) k (ext φ x) = ext φ (iter (sRP dopp) k x) ∧ Valid n (iter (sRP dopp) k x) := by
  intro k
  induction k with
  | zero => intro x hx; exact ⟨rfl, hx⟩
  | succ k ih =>
    intro x hx
    obtain ⟨h1, h2⟩ := sR_corr hB hx
    show iter (sRP t.opp) k (sRP t.opp (ext φ x)) = ext φ (iter (sRP dopp) k (sRP dopp x)) ∧ _
    rw [h1]
    exact ih h2

theorem sL_corr {x : Nat} (hx : Valid n x) :
    sLP t.opp (ext φ x) = ext φ (sLP dopp x) ∧ Valid n (sLP dopp x) := by
  have := aL_corr hB (esD := #[]) (esE := #[]) (fun d _ => by simp) x hx
  rw [aLP_empty, aLP_empty] at this
  exact this

/-- the image of a decoder corner -/
theorem iter_sR_phi (k : Nat) {x : Nat} (hx : x < 3 * n) :
    iter (sRP t.opp) k (φ x) = ext φ (iter (sRP dopp) k x) := by
  rw [← (iter_sR_corr hB k (Or.inr hx)).1, ext_of_ne φ (hB.ne_inv x hx)]

/-- the vertex of the image of a decoder corner -/
theorem vertex_phi {x : Nat} (hx : x < 3 * n) : t.c2v[φ x]! = ψ dc2v[x]! := by
  obtain ⟨v, h1, _, h3, _⟩ := hB.vertex x hx
  have hci := beq_inv_false (hB.ne_inv x hx)
  have hpi := beq_inv_false (hB.phi_ne_inv x hx)
  simp only [TView.vertex, baseViewD, hci, Bool.not_false, Bool.and_false, Bool.false_eq_true, if_false] at h1
  simp only [TView.vertex, CT.view, hpi, Bool.not_false, Bool.and_false, Bool.false_eq_true, if_false] at h3
  obtain ⟨hi, e⟩ := rd_ok h1
  obtain ⟨hi', e'⟩ := rd_ok h3
  have e1 : dc2v[x]! = v := by rw [← e]; simp [hi]
  have e2 : t.c2v[φ x]! = ψ v := by rw [← e']; simp [hi']
  rw [e1, e2]

end nav

/-! ### the `SwingRight` orbit of a corner -/

/-- the `SwingRight` orbit of a valid corner reaches the boundary or the corner again after at most `N` steps -/
theorem orbit_exists {N : Nat} {opp : Array Nat} (hb : BaseTbl N opp) {c0 : Nat} (hc0 : c0 < N) :
    ∃ P, AP.Orbit opp c0 P ∧ P ≤ N := by
  have hc0i : c0 ≠ inv := hb.ne_inv hc0
  have hex : ∃ k, 1 ≤ k ∧ k ≤ N ∧ (iter (sRP opp) k c0 = inv ∨ iter (sRP opp) k c0 = c0) := by
    apply Classical.byContradiction
    intro hno
    have hall : ∀ k, 1 ≤ k → k ≤ N → iter (sRP opp) k c0 ≠ inv ∧ iter (sRP opp) k c0 ≠ c0 := by
      intro k h1 h2
      constructor
      · intro e; exact hno ⟨k, h1, h2, Or.inl e⟩
      · intro e; exact hno ⟨k, h1, h2, Or.inr e⟩
    have hne : ∀ k, k ≤ N → iter (sRP opp) k c0 ≠ inv := by
      intro k hk
      cases k with
      | zero => exact hc0i
      | succ k => exact (hall (k + 1) (by omega) hk).1
    obtain ⟨i, j, hij, hj, he⟩ := Draco.pigeonhole N (fun i => iter (sRP opp) i c0)
      (fun i hi => AP.iter_sR_lt hb hc0 i (hne i hi))
    have he' : iter (sRP opp) i c0 = iter (sRP opp) i (iter (sRP opp) (j - i) c0) := by
      rw [← iter_add, show j - i + i = j by omega]; exact he
    have hlt : iter (sRP opp) (j - i) c0 < N := AP.iter_sR_lt hb hc0 _ (hne _ (by omega))
    have := AP.iter_sR_inj hb i c0 _ hc0 hlt he' (hne i (by omega))
    exact (hall (j - i) (by omega) (by omega)).2 this.symm
  classical
  let P := Nat.find hex
  have hP : 1 ≤ P ∧ P ≤ N ∧ (iter (sRP opp) P c0 = inv ∨ iter (sRP opp) P c0 = c0) := Nat.find_spec hex
  have hmin : ∀ k, k < P → ¬ (1 ≤ k ∧ k ≤ N ∧ (iter (sRP opp) k c0 = inv ∨ iter (sRP opp) k c0 = c0)) :=
    fun k hk => Nat.find_min hex hk
  refine ⟨P, ⟨hP.1, ?_, ?_, hP.2.2⟩, hP.2.1⟩
  · intro i hi
    cases i with
    | zero => exact hc0i
    | succ i =>
      intro e
      exact hmin (i + 1) hi ⟨by omega, by omega, Or.inl e⟩
  · intro i h1 hi e
    exact hmin i hi ⟨h1, by omega, Or.inr e⟩

/-- the corner list of the encoder's fan, for an orbit of `P` corners -/
theorem walkE_eq {N : Nat} {opp : Array Nat} (hb : BaseTbl N opp) {e0 P : Nat} (he0 : e0 < N) (hO : AP.Orbit opp e0 P) :
    ∀ (d fuel s : Nat), s + d = P → 1 ≤ s → d ≤ fuel →
      EncCounts.walkE opp e0 fuel (iter (sRP opp) s e0) = (List.range' s d).map (fun i => iter (sRP opp) i e0) := by
  intro d
  induction d with
  | zero =>
    intro fuel s hs _ _
    have hsP : s = P := by omega
    cases fuel with
    | zero => rfl
    | succ fuel =>
      unfold EncCounts.walkE
      rw [hsP, if_pos (by rcases hO.fin with e | e; exact Or.inl e; exact Or.inr e)]
      rfl
  | succ d ih =>
    intro fuel s hs h1 hf
    obtain ⟨fuel', rfl⟩ : ∃ f', fuel = f' + 1 := ⟨fuel - 1, by omega⟩
    have hne := hO.ne s (by omega)
    have hnf := hO.nef s h1 (by omega)
    have hlt := AP.iter_sR_lt hb he0 s hne
    unfold EncCounts.walkE
    rw [if_neg (by intro h; rcases h with h | h; exact hne h; exact hnf h), List.range'_succ, List.map_cons,
      EncCounts.sRE_eq_sRP hb hlt, ← iter_succ' (sRP opp) s e0]
    congr 1
    exact ih fuel' (s + 1) (by omega) (by omega) (by omega)

theorem fanOfE_corners {t : CT} (hb : BaseTbl t.numCorners t.opp) (used : Array AttConn) (w : Nat) {P : Nat}
    (he0 : t.vc[w]! < t.numCorners) (hO : AP.Orbit t.opp t.vc[w]! P) (hP : P ≤ t.numCorners + 1) :
    (EncCounts.fanOfE t used w).corners =
      (List.range' 0 P).map (fun i => EncCounts.fanCorner used (iter (sRP t.opp) i t.vc[w]!)) := by
  show (t.vc[w]! :: EncCounts.walkE t.opp t.vc[w]! (t.numCorners + 2) (EncCounts.sRE t.opp t.vc[w]!)).map _ = _
  obtain ⟨P', rfl⟩ : ∃ P', P = P' + 1 := ⟨P - 1, by have := hO.pos; omega⟩
  rw [EncCounts.sRE_eq_sRP hb he0]
  have := walkE_eq hb he0 hO P' (t.numCorners + 2) 1 (by omega) (by omega) (by omega)
  rw [show sRP t.opp t.vc[w]! = iter (sRP t.opp) 1 t.vc[w]! from rfl, this, List.range'_succ]
  simp only [List.map_cons, List.map_map]
  rfl

/-! ### the fan of `ψ v` in the encoder's table -/

theorem encPoints_congr {f g : Fan} (h1 : f.corners = g.corners) (h2 : f.closed = g.closed) :
    encPoints f = encPoints g := by
  unfold encPoints encSeams
  rw [h1, h2]

/-- what the fan correspondence uses of the two tables -/
structure FanHyps (n : Nat) (co : ConnOut) (t : CT) (φ ψ : Nat → Nat) : Prop where
  /-- the base views are isomorphic -/
  iso : TVIso (baseViewD n co.c2v co.opp co.vc) t.view φ ψ
  /-- the decoder's table has fans (`APHyp`) -/
  dec : APHyp n co
  /-- a vertex marked in `is_vert_hole_` is on the boundary: its fan reaches the boundary -/
  hole : ∀ v, v < co.vc.size → co.vc[v]! ≠ inv → co.hole[v]! = true → ∃ k, iter (sRP co.opp) k co.vc[v]! = inv
  /-- the encoder's `Opposite` is an involution -/
  encB : BaseTbl t.numCorners t.opp
  /-- the encoder's left-most corners are corners of their vertices -/
  encVc : ∀ w, w < t.vc.size → t.vc[w]! ≠ inv → t.vc[w]! < t.numCorners ∧ t.c2v[t.vc[w]!]! = w
  /-- an encoder's left-most corner with a left neighbour lies on a closed fan -/
  encLm : ∀ w, w < t.vc.size → t.vc[w]! ≠ inv → sLP t.opp t.vc[w]! ≠ inv → ∀ j, iter (sRP t.opp) j t.vc[w]! ≠ inv
  /-- the image of a decoder corner is reached from the left-most corner of its vertex -/
  encCov : ∀ d, d < 3 * n → ∃ k, iter (sRP t.opp) k t.vc[t.c2v[φ d]!]! = φ d

section fan
variable {n : Nat} {co : ConnOut} {t : CT} {φ ψ : Nat → Nat} (hF : FanHyps n co t φ ψ)
include hF

theorem FanHyps.phi_lt' {x : Nat} (hx : x < 3 * n) : φ x < t.numCorners := by
  have := hF.iso.phi_lt x hx
  have e : t.view.numFaces = t.c2v.size / 3 := rfl
  show φ x < t.c2v.size
  have h3 : 3 * (baseViewD n co.c2v co.opp co.vc).numFaces = 3 * n := rfl
  omega

/-- the left-most corner of a decoder vertex, its image and the left-most corner of the image vertex -/
theorem FanHyps.start {v : Nat} (hv : v < co.vc.size) (hne : co.vc[v]! ≠ inv) :
    co.vc[v]! < 3 * n ∧ co.c2v[co.vc[v]!]! = v ∧ ψ v < t.vc.size ∧ t.vc[ψ v]! ≠ inv ∧ t.vc[ψ v]! < t.numCorners ∧
      ∃ k, iter (sRP t.opp) k t.vc[ψ v]! = φ co.vc[v]! := by
  obtain ⟨hc0, hbv⟩ := hF.dec.tbl.vcOK v hv hne
  have hvx := vertex_phi hF.iso hc0
  rw [hbv] at hvx
  obtain ⟨k, hk⟩ := hF.encCov _ hc0
  rw [hvx] at hk
  have hw : ψ v < t.vc.size := by
    obtain ⟨v', h1, _, _, h4⟩ := hF.iso.vertex _ hc0
    have hci := beq_inv_false (hF.iso.ne_inv _ hc0)
    simp only [TView.vertex, baseViewD, hci, Bool.not_false, Bool.and_false, Bool.false_eq_true, if_false] at h1
    obtain ⟨hi, e⟩ := rd_ok h1
    have e1 : co.c2v[co.vc[v]!]! = v' := by rw [← e]; simp [hi]
    rw [← e1, hbv] at h4
    exact h4
  have hne0 : t.vc[ψ v]! ≠ inv := by
    intro e
    rw [e, iter_fix (sRP_inv t.opp)] at hk
    exact hF.iso.phi_ne_inv _ hc0 hk.symm
  exact ⟨hc0, hbv, hw, hne0, (hF.encVc _ hw hne0).1, k, hk⟩

/-- the orbit of the image of a decoder corner is the image of its orbit -/
theorem FanHyps.orbit_phi {c0 P : Nat} (hc0 : c0 < 3 * n) (hO : AP.Orbit co.opp c0 P) : AP.Orbit t.opp (φ c0) P := by
  have hbD := hF.dec.tbl.toBaseTbl
  have himg : ∀ i, i < P → iter (sRP t.opp) i (φ c0) = φ (iter (sRP co.opp) i c0) ∧ iter (sRP co.opp) i c0 < 3 * n := by
    intro i hi
    have hlt := AP.iter_sR_lt hbD hc0 i (hO.ne i hi)
    rw [iter_sR_phi hF.iso i hc0, ext_of_ne φ (hO.ne i hi)]
    exact ⟨rfl, hlt⟩
  refine ⟨hO.pos, ?_, ?_, ?_⟩
  · intro i hi
    rw [(himg i hi).1]
    exact hF.iso.phi_ne_inv _ (himg i hi).2
  · intro i h1 hi e
    rw [(himg i hi).1] at e
    exact hO.nef i h1 hi (hF.iso.phi_inj _ _ (himg i hi).2 hc0 e)
  · rw [iter_sR_phi hF.iso P hc0]
    rcases hO.fin with e | e
    · left; rw [e, ext_inv]
    · right; rw [e, ext_of_ne φ (hF.iso.ne_inv _ hc0)]

variable {attsD used : Array AttConn} (hiff : AttVertIff n attsD used φ)
include hiff

omit hiff in
/-- corresponding walks look the same -/
theorem walks_rel {c0 : Nat} (hc0 : c0 < 3 * n) (P : Nat) (hne : ∀ i, i < P → iter (sRP co.opp) i c0 ≠ inv) :
    List.Forall₂ (CornerRel n attsD used φ)
      ((List.range' 0 P).map (fun i => fanCornerD attsD (iter (sRP co.opp) i c0)))
      ((List.range' 0 P).map (fun i => EncCounts.fanCorner used (iter (sRP t.opp) i (φ c0)))) := by
  rw [List.forall₂_map_left_iff, List.forall₂_map_right_iff, List.forall₂_same]
  intro i hi
  rw [List.mem_range'_1] at hi
  have hlt := AP.iter_sR_lt hF.dec.tbl.toBaseTbl hc0 i (hne i (by omega))
  refine ⟨_, hlt, rfl, ?_⟩
  rw [iter_sR_phi hF.iso i hc0, ext_of_ne φ (hne i (by omega))]

/-- **(2) the fan correspondence**: the encoder's per-vertex count on the fan of `ψ v` in its own table is the count on the
    decoder's fan of `v` -/
theorem fan_corr {v : Nat} (hv : v < co.vc.size) (hne : co.vc[v]! ≠ inv) :
    encPoints (EncCounts.fanOfE t used (ψ v)) = encPoints (fanOfD co attsD v) := by
  have ht := hF.dec.tbl
  have hbD := ht.toBaseTbl
  have hbE := hF.encB
  obtain ⟨hc0, hbv, hw, hne0, he0, k, hk⟩ := hF.start hv hne
  obtain ⟨P, hO, hPle⟩ := orbit_exists hbD hc0
  obtain ⟨J, rfl⟩ : ∃ J, P = J + 1 := ⟨P - 1, by have := hO.pos; omega⟩
  have hOφ := hF.orbit_phi hc0 hO
  have hφlt : φ co.vc[v]! < t.numCorners := hF.phi_lt' hc0
  have hφne : φ co.vc[v]! ≠ inv := hF.iso.phi_ne_inv _ hc0
  have hDc := AP.fan_corners attsD v hO (by rw [hbD.oppsz]; omega)
  have hR := avRel_of_iff hiff
  have hN3 : 3 * n ≤ t.numCorners := by
    have := hF.phi_lt' hc0
    have h1 := hF.iso.phi_lt _ hc0
    have h2 := hF.iso.numFaces_le
    have e : t.view.numFaces = t.c2v.size / 3 := rfl
    have e' : (baseViewD n co.c2v co.opp co.vc).numFaces = n := rfl
    show 3 * n ≤ t.c2v.size
    omega
  rcases hO.fin with hend | hend
  · -- an open fan: both left-most corners are at the boundary
    have hhole : co.hole[v]! = true := by
      cases hh : co.hole[v]! with
      | true => rfl
      | false => exact absurd hend (hF.dec.closed v hv hne hh _)
    have hsl : sLP co.opp co.vc[v]! = inv := by
      apply Classical.byContradiction
      intro hl
      refine lmost_of_cover ht _ hc0 ?_ hl (J + 1) hend
      intro y hy hyc
      obtain ⟨_, hf⟩ := hF.dec.cover y hy
      have hyv : co.c2v[y]! = v := by
        have := ht.bvR y hy (by rw [hyc]; exact hne)
        rw [← this, hyc]; exact hbv
      rw [hyv] at hf
      exact hf.2
    have hslE : sLP t.opp (φ co.vc[v]!) = inv := by
      have := (sL_corr hF.iso (Or.inr hc0)).1
      rw [ext_of_ne φ (hF.iso.ne_inv _ hc0), hsl, ext_inv] at this
      exact this
    have hk0 : t.vc[ψ v]! = φ co.vc[v]! := by
      cases k with
      | zero => exact hk
      | succ k =>
        exfalso
        rw [iter_succ'] at hk
        have hb' : iter (sRP t.opp) k t.vc[ψ v]! ≠ inv := by
          intro e; rw [e, sRP_inv] at hk; exact hφne hk.symm
        have hblt := AP.iter_sR_lt hbE he0 k hb'
        obtain ⟨_, h2⟩ := hbE.sR_sL hblt hk hφne
        rw [hslE] at h2
        exact hb' h2.symm
    have hOe : AP.Orbit t.opp t.vc[ψ v]! (J + 1) := by rw [hk0]; exact hOφ
    have hEc := fanOfE_corners hbE used (ψ v) he0 hOe (by omega)
    have hclD : (fanOfD co attsD v).closed = false := by
      show (!co.hole[v]!) = false
      rw [hhole]; rfl
    have hclE : (EncCounts.fanOfE t used (ψ v)).closed = false := by
      show decide (EncCounts.sLE t.opp t.vc[ψ v]! ≠ inv) = false
      rw [EncCounts.sLE_eq_sLP hbE he0, hk0, hslE]
      simp
    symm
    apply encPoints_sim' hR (by rw [hclD, hclE])
    rw [hDc, hEc, hk0]
    exact walks_rel hF hc0 (J + 1) hO.ne
  · -- a closed fan: the encoder may start at another corner of the cycle
    have hclD0 : ∀ j, iter (sRP co.opp) j co.vc[v]! ≠ inv := AP.closed_of_period hend (fun i hi => hO.ne i (by omega))
    have hhole : co.hole[v]! = false := by
      cases hh : co.hole[v]! with
      | false => rfl
      | true =>
        obtain ⟨k', hk'⟩ := hF.hole v hv hne hh
        exact absurd hk' (hclD0 k')
    have hclE0 : ∀ j, iter (sRP t.opp) j t.vc[ψ v]! ≠ inv := by
      intro j
      by_cases hj : j ≤ k
      · exact iter_ne_inv (sRP_inv t.opp) (by rw [hk]; exact hφne) hj
      · have : iter (sRP t.opp) j t.vc[ψ v]! = iter (sRP t.opp) (j - k) (φ co.vc[v]!) := by
          rw [← hk, ← iter_add, show k + (j - k) = j by omega]
        rw [this, iter_sR_phi hF.iso _ hc0, ext_of_ne φ (hclD0 _)]
        exact hF.iso.phi_ne_inv _ (AP.iter_sR_lt hbD hc0 _ (hclD0 _))
    have hper : iter (sRP t.opp) (J + 1) (iter (sRP t.opp) k t.vc[ψ v]!) = iter (sRP t.opp) k t.vc[ψ v]! := by
      rw [hk]
      rcases hOφ.fin with e | e
      · have := hOφ.fin
        rw [iter_sR_phi hF.iso _ hc0, hend, ext_of_ne φ (hF.iso.ne_inv _ hc0)] at e
        exact absurd e hφne
      · exact e
    obtain ⟨hP, hnef⟩ := AP.orbit_shift hbE he0 hclE0 hper (fun i h1 h2 => by
      rw [hk]; exact hOφ.nef i h1 (by omega))
    have hOe : AP.Orbit t.opp t.vc[ψ v]! (J + 1) :=
      ⟨by omega, fun i _ => hclE0 i, fun i h1 h2 => hnef i h1 (by omega), Or.inr hP⟩
    have hEc := fanOfE_corners hbE used (ψ v) he0 hOe (by omega)
    have hclD : (fanOfD co attsD v).closed = true := by
      show (!co.hole[v]!) = true
      rw [hhole]; rfl
    have hclE : (EncCounts.fanOfE t used (ψ v)).closed = true := by
      show decide (EncCounts.sLE t.opp t.vc[ψ v]! ≠ inv) = true
      rw [EncCounts.sLE_eq_sLP hbE he0]
      have hJlt := AP.iter_sR_lt hbE he0 J (hclE0 J)
      have hs : sRP t.opp (iter (sRP t.opp) J t.vc[ψ v]!) = t.vc[ψ v]! := by
        rw [← iter_succ' (sRP t.opp) J t.vc[ψ v]!]; exact hP
      obtain ⟨_, h2⟩ := hbE.sR_sL hJlt hs hne0
      rw [h2]
      simpa using hclE0 J
    -- rotate the encoder's fan to the image of the decoder's left-most corner
    have hm : k % (J + 1) ≤ J := by have := Nat.mod_lt k (show 0 < J + 1 by omega); omega
    have hkm : iter (sRP t.opp) (k % (J + 1)) t.vc[ψ v]! = φ co.vc[v]! := by
      have := walk_period hP (k % (J + 1)) (k / (J + 1))
      rw [Nat.mod_add_div] at this
      rw [← this, hk]
    have hrot := AP.fan_rotate t.opp (EncCounts.fanCorner used) hP hm
    rw [hkm, ← hEc] at hrot
    have e1 : encPoints (EncCounts.fanOfE t used (ψ v)) =
        encPoints ⟨(EncCounts.fanOfE t used (ψ v)).corners, true, []⟩ := encPoints_congr rfl hclE
    have e2 : encPoints (fanOfD co attsD v) =
        encPoints ⟨(fanOfD co attsD v).corners, true, []⟩ := encPoints_congr rfl hclD
    rw [e1, e2, encPoints_rotate _ (k % (J + 1)) [] [], hrot, hDc]
    symm
    exact encPoints_sim' hR (f := ⟨_, true, []⟩) (f' := ⟨_, true, []⟩) rfl (walks_rel hF hc0 (J + 1) hO.ne)

end fan

/-! ## (3) the vertices in use correspond -/

/-- **`Coverage`** (in the form used): the left-most corner of every encoder vertex that has one is the image of a decoder
    corner.  It follows from "every non-degenerate face of the encoder's table is a face of `processed`" (the hypothesis
    under which `EncCounts.encodeConnectivity_faces` gives `processed.size = num_faces − NumDegeneratedFaces`). -/
def Coverage (n : Nat) (t : CT) (φ : Nat → Nat) : Prop :=
  ∀ w, w < t.vc.size → t.vc[w]! ≠ inv → ∃ d, d < 3 * n ∧ φ d = t.vc[w]!

theorem vertCorr {n : Nat} {co : ConnOut} {t : CT} {φ ψ : Nat → Nat} (hF : FanHyps n co t φ ψ)
    (hcov : Coverage n t φ) : VertCorr co.vc t.vc ψ := by
  have dvx : ∀ c, c < 3 * n → (baseViewD n co.c2v co.opp co.vc).vertex c = .ok co.c2v[c]! := by
    intro c hc
    obtain ⟨v', h1, _⟩ := hF.iso.vertex c hc
    have hci := beq_inv_false (hF.iso.ne_inv c hc)
    have h1' := h1
    simp only [TView.vertex, baseViewD, hci, Bool.not_false, Bool.and_false, Bool.false_eq_true, if_false] at h1'
    obtain ⟨hi, e⟩ := rd_ok h1'
    have e1 : co.c2v[c]! = v' := by rw [← e]; simp [hi]
    rw [e1]; exact h1
  refine ⟨?_, ?_, ?_⟩
  · intro v v' hv hv' e
    obtain ⟨hv1, hv2⟩ := mem_usedVerts.mp hv
    obtain ⟨hv1', hv2'⟩ := mem_usedVerts.mp hv'
    obtain ⟨hc, hbv⟩ := hF.dec.tbl.vcOK v hv1 hv2
    obtain ⟨hc', hbv'⟩ := hF.dec.tbl.vcOK v' hv1' hv2'
    have h1 := dvx _ hc
    have h1' := dvx _ hc'
    rw [hbv] at h1
    rw [hbv'] at h1'
    exact hF.iso.psi_inj _ _ v v' hc hc' h1 h1' e
  · intro v hv
    obtain ⟨hv1, hv2⟩ := mem_usedVerts.mp hv
    obtain ⟨_, _, hw, hne0, _⟩ := hF.start hv1 hv2
    exact mem_usedVerts.mpr ⟨hw, hne0⟩
  · intro w hw
    obtain ⟨hw1, hw2⟩ := mem_usedVerts.mp hw
    obtain ⟨d, hd, hφ⟩ := hcov w hw1 hw2
    obtain ⟨hdv, hfan⟩ := hF.dec.cover d hd
    refine ⟨co.c2v[d]!, mem_usedVerts.mpr ⟨hdv, AP.inFan_ne_inv hfan⟩, ?_⟩
    rw [← vertex_phi hF.iso hd, hφ]
    exact (hF.encVc w hw1 hw2).2

/-! ## (4) the reported number of points is the decoded one -/

open EncCounts in
/-- **C09, Edgebreaker points: `num_encoded_points` = the number of points of the decoded mesh** (more than one
    attribute / at least one attribute corner table in use on the decoder's side).

    Runs: `computeNumberOfEncodedPoints atts conn used = .ok nE` on the encoder's table `conn.ct` with the attribute corner
    tables `used`; `assignPoints co n attsD = .ok (c2p, nD, tags)` on the decoder's table `co` (`n` faces).
    Hypotheses: `FanHyps` (the base views are isomorphic under `φ`, `ψ`; `APHyp` of the decoder's table; hole flags are
    sound; the encoder's table has an involutive `Opposite`, left-most corners that are corners of their vertices and
    left-most, and covers the images of the decoder's corners), `AttVertIff` (the attribute views correspond),
    `SeamFlagsSound` (H2 of `C09.eb_point_count_fan`), `Coverage`, and `hiso`: `num_vertices − NumIsolatedVertices` is the
    number of encoder vertices that have a left-most corner. -/
theorem eb_encoded_points_eq_decoded (atts : Array Attribute) (conn : ConnEnc) (used : Array AttConn) (nE : Nat)
    (co : ConnOut) (n : Nat) (attsD : Array AttConn) (c2p : Array Nat) (nD tags : Nat) (φ ψ : Nat → Nat)
    (hatts : atts.size > 1)
    (hrunE : computeNumberOfEncodedPoints atts conn used = .ok nE)
    (hne : attsD.isEmpty = false)
    (hrunD : assignPoints co n attsD = .ok (c2p, nD, tags))
    (hF : FanHyps n co conn.ct φ ψ)
    (hiff : AttVertIff n attsD used φ)
    (h2 : SeamFlagsSound co attsD)
    (hcov : Coverage n conn.ct φ)
    (hiso : conn.ct.numVertices - conn.ct.numIsolated = (usedVerts conn.ct.vc).length) :
    nE = nD := by
  apply encoded_points_eq_decoded_of_corr atts conn used nE co n attsD c2p nD tags ψ hatts hrunE hF.encB
    (fun v hv hne => (hF.encVc v hv hne).1) hF.encLm hF.dec hne hrunD h2 hiso (vertCorr hF hcov)
  intro v hv
  obtain ⟨hv1, hv2⟩ := mem_usedVerts.mp hv
  exact fan_corr hF hiff hv1 hv2

open EncCounts in
/-- the position-only configuration (`num_attributes() ≤ 1` on the encoder's side, no attribute corner table on the
    decoder's side): both sides report their number of vertices in use; `hconn`: the decoder's `num_connectivity_verts`
    is the number of its vertices that have a left-most corner -/
theorem eb_encoded_points_eq_decoded_single (atts : Array Attribute) (conn : ConnEnc) (used : Array AttConn) (nE : Nat)
    (co : ConnOut) (n : Nat) (attsD : Array AttConn) (c2p : Array Nat) (nD tags : Nat) (φ ψ : Nat → Nat)
    (hatts : atts.size ≤ 1)
    (hrunE : computeNumberOfEncodedPoints atts conn used = .ok nE)
    (hne : attsD.isEmpty = true)
    (hrunD : assignPoints co n attsD = .ok (c2p, nD, tags))
    (hF : FanHyps n co conn.ct φ ψ)
    (hcov : Coverage n conn.ct φ)
    (hiso : conn.ct.numVertices - conn.ct.numIsolated = (usedVerts conn.ct.vc).length)
    (hconn : co.numConnVerts = (usedVerts co.vc).length) :
    nE = nD := by
  rw [computeNumberOfEncodedPoints_single atts conn used nE hatts hrunE, hiso]
  rw [assignPoints_empty co n attsD hne] at hrunD
  injection hrunD with hrunD
  have : co.numConnVerts = nD := by
    have := congrArg (fun x => x.2.1) hrunD
    exact this
  rw [← this, hconn, ← (vertCorr hF hcov).perm.length_eq, List.length_map]

/-! ### the encoder's part of `FanHyps` for the table `CornerTable.create` builds -/

/-- for `conn.ct = CT.ofTable table` with `CornerTable.create faces = some table` (`EncCounts.encodeConnectivity_visited`),
    the encoder's clauses of `FanHyps` reduce to `hvcE` (a recorded left-most corner is a corner of its vertex) and `hnd`
    (the images of the decoder's corners lie in non-degenerate faces; `EncCounts.encodeConnectivity_faces`: the faces of
    `processed` are not degenerate) -/
theorem fanHyps_of_create {faces : Faces} {table : CornerTable} (hc : CornerTable.create faces = some table)
    {n : Nat} {co : ConnOut} {φ ψ : Nat → Nat}
    (hiso : TVIso (baseViewD n co.c2v co.opp co.vc) (CT.ofTable table).view φ ψ)
    (hdec : APHyp n co)
    (hhole : ∀ v, v < co.vc.size → co.vc[v]! ≠ inv → co.hole[v]! = true → ∃ k, iter (sRP co.opp) k co.vc[v]! = inv)
    (hvcE : ∀ v, v < (CT.ofTable table).vc.size → (CT.ofTable table).vc[v]! ≠ inv →
      (CT.ofTable table).vc[v]! < (CT.ofTable table).numCorners ∧
        (CT.ofTable table).c2v[(CT.ofTable table).vc[v]!]! = v)
    (hnd : ∀ d, d < 3 * n → faceDegenerate faces (φ d / 3) = false) :
    FanHyps n co (CT.ofTable table) φ ψ := by
  refine ⟨hiso, hdec, hhole, EncCounts.baseTbl_ofTable hc, hvcE,
    fun w hw hne hl => EncCounts.lmost_ofTable hc hvcE w hw hne hl, ?_⟩
  intro d hd
  have hlt : φ d < 3 * faces.size := by
    have := hiso.phi_lt d hd
    rw [ofTable_view_numFaces hc] at this
    exact this
  apply cover_enc_of_create hc (φ d) hlt (hnd d hd)
  obtain ⟨v, _, _, h3, h4⟩ := hiso.vertex d hd
  have hpi := beq_inv_false (hiso.phi_ne_inv d hd)
  simp only [TView.vertex, CT.view, hpi, Bool.not_false, Bool.and_false, Bool.false_eq_true, if_false] at h3
  obtain ⟨hi', e'⟩ := rd_ok h3
  have e2 : (CT.ofTable table).c2v[φ d]! = ψ v := by rw [← e']; simp [hi']
  rw [e2]
  exact h4

end Draco.EbEnc.CountsIso
