import DracoProofs.EbDecSim
/-
  M4, first part: the SYMBOL LOOP `Eb.connMain` on the symbols of an encoder trace computes the tables of the pure run `St`
  (DracoProofs/EbDecSim.lean).

  * `decompM`: `connMain ci tr = forIn [0:ci.numSymbols] init body >>= tail` with the three parts NAMED (extracted from the
    elaborated `do` block by unification), so that the loop body is evaluated once per symbol on a generic state:
    `body_E / body_R / body_L / body_C : guards → body j (mkSt s0 …) = .ok (.yield (mkSt (stepX j s0) …))`; `mainTail_ok`.
  * `connMain_St`: the result of the symbol loop is the record of `St syms n nv n` with the tags `Tg syms n`.
-/
namespace Draco.EbEnc.DecSim
open Draco Draco.EbEnc
open Draco.Eb (inv connMain ConnMain ConnIn ConnOut Trav R decodeSymbolStd)
open Draco.EbEnc.ConnTri (RdS CSt forIn_list_total bind_forIn_total)
open Draco.EbEnc.Coverage (TblOK)

/-- `connMain` = symbol loop, then the vertex-count check: the loop body, the initial state and the continuation, named -/
abbrev DecompM (ci : ConnIn) (tr : Trav) :=
  { p : (Nat → CSt → R (ForInStep CSt)) × CSt × (CSt → R ConnMain) // connMain ci tr = (forIn [0:ci.numSymbols] p.2.1 p.1 >>= p.2.2) }

set_option maxRecDepth 100000 in
set_option maxHeartbeats 400000 in
noncomputable def decompM (ci : ConnIn) (tr : Trav) : DecompM ci tr := by
  refine ⟨(?f, ?init, ?tail), ?eq⟩
  case eq =>
    unfold connMain
    dsimp only
    exact rfl

/-- the continuation alone (a term that does not contain the loop body) -/
abbrev TailM (ci : ConnIn) (tr : Trav) :=
  { T : CSt → R ConnMain // ∃ (f : Nat → CSt → R (ForInStep CSt)) (init : CSt),
      connMain ci tr = (forIn [0:ci.numSymbols] init f >>= T) }

set_option maxRecDepth 100000 in
set_option maxHeartbeats 400000 in
noncomputable def tailM (ci : ConnIn) (tr : Trav) : TailM ci tr := by
  refine ⟨?T, ?f, ?init, ?eq⟩
  case eq =>
    unfold connMain
    dsimp only
    exact rfl

set_option maxRecDepth 100000 in
theorem decompM_tail (ci : ConnIn) (tr : Trav) : (decompM ci tr).1.2.2 = (tailM ci tr).1 := rfl

/-- the loop state from the tables, the number of faces, the symbol reader and the tags -/
def mkSt (s0 : DS) (ns j : Nat) (rd : BitReader) (tr : Trav) (tg : Nat) : CSt :=
  (s0.c2v, s0.opp, s0.vc, s0.hole, s0.stack, Array.replicate ns inv, #[], [], j, rd, tr.valences, tr.ctxCnt, inv, inv,
    tr.predDec, inv, tg)

theorem wr_ok (site : String) (a : Array Nat) (i v : Nat) (h : i < a.size) : Eb.wr site a i v = Except.ok (a.setIfInBounds i v) := by
  simp [Eb.wr, h, Array.setIfInBounds, pure, Except.pure]
theorem wrB_ok (site : String) (a : Array Bool) (i : Nat) (v : Bool) (h : i < a.size) : Eb.wrB site a i v = Except.ok (a.setIfInBounds i v) := by
  simp [Eb.wrB, h, Array.setIfInBounds, pure, Except.pure]
theorem rd_ok' (site : String) (a : Array Nat) (i : Nat) (h : i < a.size) : Eb.rd site a i = Except.ok a[i]! := by
  simp [Eb.rd, h, pure, Except.pure]
theorem setLeftMost_ok (vc : Array Nat) (v c : Nat) (hv : v ≠ 4294967295) (h : v < vc.size) :
    Eb.setLeftMost vc v c = Except.ok (vc.setIfInBounds v c) := by
  simp [Eb.setLeftMost, inv, hv, wr_ok _ _ _ _ h]
theorem vertex_ok (a : Array Nat) (c : Nat) (hc : c ≠ 4294967295) (h : c < a.size) : Eb.vertex a c = Except.ok a[c]! := by
  simp [Eb.vertex, inv, hc, rd_ok' _ _ _ h]
theorem opposite_ok (a : Array Nat) (c : Nat) (hc : c ≠ 4294967295) (h : c < a.size) : Eb.opposite a c = Except.ok a[c]! := by
  simp [Eb.opposite, inv, hc, rd_ok' _ _ _ h]
theorem leftMost_ok (a : Array Nat) (v : Nat) (h : v < a.size) : Eb.leftMost a v = Except.ok a[v]! := by
  simp [Eb.leftMost, rd_ok' _ _ _ h]

set_option linter.unusedSimpArgs false

theorem push3_set (vc : Array Nat) (x y z w : Nat) :
    (((((vc.push w).push w).push w).setIfInBounds vc.size x).setIfInBounds (vc.size + 1) y).setIfInBounds (vc.size + 2) z =
      ((vc.push x).push y).push z := by
  apply Array.ext_getElem?
  intro i
  simp only [Array.getElem?_setIfInBounds, Array.getElem?_push, Array.size_push, Array.size_setIfInBounds]
  have a1 : vc.size < vc.size + 1 + 1 + 1 := by omega
  have a2 : vc.size + 1 < vc.size + 1 + 1 + 1 := by omega
  have a3 : vc.size + 2 < vc.size + 1 + 1 + 1 := by omega
  have b1 : ¬ vc.size = vc.size + 1 + 1 := by omega
  have b2 : ¬ vc.size = vc.size + 1 := by omega
  have b3 : ¬ vc.size + 1 = vc.size + 1 + 1 := by omega
  have b4 : ¬ vc.size + 1 = vc.size := by omega
  have b5 : ¬ vc.size + 2 = vc.size + 1 := by omega
  have b6 : ¬ vc.size + 2 = vc.size := by omega
  have b7 : ¬ vc.size + 1 = vc.size + 2 := by omega
  by_cases h0 : i = vc.size
  · subst h0; simp [a1, b1, b2]
  · by_cases h1 : i = vc.size + 1
    · subst h1; simp [a2, b3, b4, b7]
    · by_cases h2 : i = vc.size + 2
      · subst h2; simp [a3, b5, b6]
      · have e0 : ¬ vc.size = i := fun e => h0 e.symm
        have e1 : ¬ vc.size + 1 = i := fun e => h1 e.symm
        have e2 : ¬ vc.size + 2 = i := fun e => h2 e.symm
        have e3 : ¬ i = vc.size + 1 + 1 := h2
        simp [h0, h1, h2, e0, e1, e2, e3]

set_option maxRecDepth 100000 in
set_option maxHeartbeats 1000000 in
theorem body_E (nf nv ns : Nat) (rm : Bool) (tr : Trav) (hkind : tr.kind = 0) (j : Nat) (s0 : DS) (rd : BitReader) (tg : Nat)
    (hs : (decodeSymbolStd rd).1 = 7) (hc : 3 * j + 2 < s0.c2v.size) (hv : s0.vc.size + 3 ≤ nv) (hinv : s0.vc.size + 2 < 4294967295) :
    (decompM ⟨nf, nv, ns, [], rm⟩ tr).1.1 j (mkSt s0 ns j rd tr tg) =
      .ok (.yield (mkSt (stepE j s0) ns (j + 1) (decodeSymbolStd rd).2 tr (tg ||| 16))) := by
  have h0 : 3 * j < s0.c2v.size := by omega
  have h1 : 3 * j + 1 < s0.c2v.size := by omega
  have h3 : ¬ (nv < s0.vc.size + 1 + 1 + 1) := by omega
  have h4 : s0.vc.size ≠ 4294967295 := by omega
  have h5 : s0.vc.size + 1 ≠ 4294967295 := by omega
  have h6 : s0.vc.size + 2 ≠ 4294967295 := by omega
  have h7 : s0.vc.size ≠ 4294967294 := by omega
  have h8 : s0.vc.size ≠ 4294967293 := by omega
  simp [decompM, Eb.raise, mkSt, hkind, hs, h0, h1, hc, h3, h4, h5, h6, h7, h8, Trav.valence, Trav.tracksValences, ConnTri.exTopoC, ConnTri.exTopoS, ConnTri.exTopoL, ConnTri.exTopoR, ConnTri.exTopoE,
    wr_ok, inv, bind, Except.bind, pure, Except.pure,
    Std.Legacy.Range.forIn_eq_forIn_range', Std.Legacy.Range.size, List.range'_succ, stepE]
  rw [setLeftMost_ok _ _ _ h4 (by simp only [Array.size_push]; omega)]; dsimp only
  rw [setLeftMost_ok _ _ _ h5 (by simp only [Array.size_push, Array.size_setIfInBounds]; omega)]; dsimp only
  rw [setLeftMost_ok _ _ _ h6 (by simp only [Array.size_push, Array.size_setIfInBounds]; omega)]; dsimp only
  rw [push3_set]
  rfl

theorem gsI (a : Array Nat) (i v d : Nat) (h : ¬ i = d) : (a.setIfInBounds i v)[d]! = a[d]! := by
  simp [Array.getElem!_eq_getD, Array.getD_eq_getD_getElem?, Array.getElem?_setIfInBounds, h]

theorem push_set (vc : Array Nat) (x w : Nat) : (vc.push w).setIfInBounds vc.size x = vc.push x := by
  apply Array.ext_getElem?
  intro i
  simp only [Array.getElem?_setIfInBounds, Array.getElem?_push, Array.size_push]
  by_cases h0 : i = vc.size
  · subst h0; simp
  · have e0 : ¬ vc.size = i := fun e => h0 e.symm
    simp [h0, e0]

set_option maxRecDepth 100000 in
set_option maxHeartbeats 1000000 in
theorem body_R (nf nv ns : Nat) (rm : Bool) (tr : Trav) (hkind : tr.kind = 0) (j : Nat) (s0 : DS) (rd : BitReader) (tg : Nat)
    (hs : (decodeSymbolStd rd).1 = 5) (hc : 3 * j + 2 < s0.c2v.size) (ho : s0.opp.size = s0.c2v.size) (hsz : s0.c2v.size ≤ 4294967295)
    (hv : s0.vc.size + 1 ≤ nv) (hinv : s0.vc.size < 4294967295)
    (hst : 0 < s0.stack.size) (ha : s0.stack.back! < 3 * j) (hna : Eb.nextC s0.stack.back! < 3 * j) (hpa : Eb.prevC s0.stack.back! < 3 * j)
    (hoa : s0.opp[s0.stack.back!]! = 4294967295) (hvr : s0.c2v[Eb.prevC s0.stack.back!]! < s0.vc.size) :
    (decompM ⟨nf, nv, ns, [], rm⟩ tr).1.1 j (mkSt s0 ns j rd tr tg) =
      .ok (.yield (mkSt (stepR j s0) ns (j + 1) (decodeSymbolStd rd).2 tr (tg ||| 8))) := by
  have h0 : 3 * j < s0.c2v.size := by omega
  have h1 : 3 * j + 1 < s0.c2v.size := by omega
  have h0' : 3 * j < s0.opp.size := by omega
  have h2' : 3 * j + 2 < s0.opp.size := by omega
  have ha' : s0.stack.back! < s0.opp.size := by omega
  have hai : s0.stack.back! ≠ 4294967295 := by omega
  have hnai : Eb.nextC s0.stack.back! ≠ 4294967295 := by omega
  have hpai : Eb.prevC s0.stack.back! ≠ 4294967295 := by omega
  have hna' : Eb.nextC s0.stack.back! < s0.c2v.size := by omega
  have hpa' : Eb.prevC s0.stack.back! < s0.c2v.size := by omega
  have e1 : ¬ 3 * j + 2 = Eb.prevC s0.stack.back! := by omega
  have e2 : ¬ 3 * j + 2 = Eb.nextC s0.stack.back! := by omega
  have e3 : ¬ 3 * j = Eb.nextC s0.stack.back! := by omega
  have e4 : ¬ 3 * j = Eb.prevC s0.stack.back! := by omega
  have h3 : ¬ (nv < s0.vc.size + 1) := by omega
  have hemp : s0.stack.isEmpty = false := by
    rw [Array.isEmpty_eq_false_iff]; intro e; rw [e] at hst; simp at hst
  have hvri : s0.c2v[Eb.prevC s0.stack.back!]! ≠ 4294967295 := by omega
  have hinv' : s0.vc.size ≠ 4294967295 := by omega
  have hne : ¬ s0.stack = #[] := by intro e; rw [e] at hst; simp at hst
  have hoa2 : s0.opp[s0.stack.back!]'ha' = 4294967295 := by rw [← hoa, getElem!_pos s0.opp _ ha']
  have hvr2 : s0.c2v[Eb.prevC s0.stack.back!]'hpa' < s0.vc.size + 1 := by
    have : s0.c2v[Eb.prevC s0.stack.back!]! = s0.c2v[Eb.prevC s0.stack.back!]'hpa' := getElem!_pos s0.c2v _ hpa'
    omega
  have hvri2 : ¬ s0.c2v[Eb.prevC s0.stack.back!]'hpa' = 4294967295 := by
    have : s0.c2v[Eb.prevC s0.stack.back!]! = s0.c2v[Eb.prevC s0.stack.back!]'hpa' := getElem!_pos s0.c2v _ hpa'
    omega
  simp [decompM, Eb.raise, mkSt, hkind, hs, h0, h1, hc, h0', h2', ha', h3, hemp, hoa, Trav.valence, Trav.tracksValences, ConnTri.exTopoC, ConnTri.exTopoS, ConnTri.exTopoL, ConnTri.exTopoR, ConnTri.exTopoE,
    wr_ok, vertex_ok, opposite_ok, setLeftMost_ok, hne, hoa2, hvr2, hvri2, hinv', hai, hnai, hpai, hna', hpa', Eb.setOpp, gsI, e1, e2, e3, e4, inv, bind, Except.bind, pure, Except.pure,
    Std.Legacy.Range.forIn_eq_forIn_range', Std.Legacy.Range.size, List.range'_succ, stepR, glue]
  exact ⟨by rw [push_set], rfl⟩

set_option maxRecDepth 100000 in
set_option maxHeartbeats 1000000 in
theorem body_L (nf nv ns : Nat) (rm : Bool) (tr : Trav) (hkind : tr.kind = 0) (j : Nat) (s0 : DS) (rd : BitReader) (tg : Nat)
    (hs : (decodeSymbolStd rd).1 = 3) (hc : 3 * j + 2 < s0.c2v.size) (ho : s0.opp.size = s0.c2v.size) (hsz : s0.c2v.size ≤ 4294967295)
    (hv : s0.vc.size + 1 ≤ nv) (hinv : s0.vc.size < 4294967295)
    (hst : 0 < s0.stack.size) (ha : s0.stack.back! < 3 * j) (hna : Eb.nextC s0.stack.back! < 3 * j) (hpa : Eb.prevC s0.stack.back! < 3 * j)
    (hoa : s0.opp[s0.stack.back!]! = 4294967295) (hvr : s0.c2v[Eb.prevC s0.stack.back!]! < s0.vc.size) :
    (decompM ⟨nf, nv, ns, [], rm⟩ tr).1.1 j (mkSt s0 ns j rd tr tg) =
      .ok (.yield (mkSt (stepL j s0) ns (j + 1) (decodeSymbolStd rd).2 tr (tg ||| 4))) := by
  have h0 : 3 * j < s0.c2v.size := by omega
  have h1 : 3 * j + 1 < s0.c2v.size := by omega
  have h0' : 3 * j < s0.opp.size := by omega
  have h2' : 3 * j + 2 < s0.opp.size := by omega
  have h1' : 3 * j + 1 < s0.opp.size := by omega
  have ha' : s0.stack.back! < s0.opp.size := by omega
  have hai : s0.stack.back! ≠ 4294967295 := by omega
  have hnai : Eb.nextC s0.stack.back! ≠ 4294967295 := by omega
  have hpai : Eb.prevC s0.stack.back! ≠ 4294967295 := by omega
  have hna' : Eb.nextC s0.stack.back! < s0.c2v.size := by omega
  have hpa' : Eb.prevC s0.stack.back! < s0.c2v.size := by omega
  have e1 : ¬ 3 * j + 2 = Eb.prevC s0.stack.back! := by omega
  have e2 : ¬ 3 * j + 2 = Eb.nextC s0.stack.back! := by omega
  have e3 : ¬ 3 * j = Eb.nextC s0.stack.back! := by omega
  have e4 : ¬ 3 * j = Eb.prevC s0.stack.back! := by omega
  have e5 : ¬ 3 * j + 1 = Eb.prevC s0.stack.back! := by omega
  have e6 : ¬ 3 * j + 1 = Eb.nextC s0.stack.back! := by omega
  have h3 : ¬ (nv < s0.vc.size + 1) := by omega
  have hemp : s0.stack.isEmpty = false := by
    rw [Array.isEmpty_eq_false_iff]; intro e; rw [e] at hst; simp at hst
  have hvri : s0.c2v[Eb.prevC s0.stack.back!]! ≠ 4294967295 := by omega
  have hinv' : s0.vc.size ≠ 4294967295 := by omega
  have hne : ¬ s0.stack = #[] := by intro e; rw [e] at hst; simp at hst
  have hoa2 : s0.opp[s0.stack.back!]'ha' = 4294967295 := by rw [← hoa, getElem!_pos s0.opp _ ha']
  have hvr2 : s0.c2v[Eb.prevC s0.stack.back!]'hpa' < s0.vc.size + 1 := by
    have : s0.c2v[Eb.prevC s0.stack.back!]! = s0.c2v[Eb.prevC s0.stack.back!]'hpa' := getElem!_pos s0.c2v _ hpa'
    omega
  have hvri2 : ¬ s0.c2v[Eb.prevC s0.stack.back!]'hpa' = 4294967295 := by
    have : s0.c2v[Eb.prevC s0.stack.back!]! = s0.c2v[Eb.prevC s0.stack.back!]'hpa' := getElem!_pos s0.c2v _ hpa'
    omega
  simp [decompM, Eb.raise, mkSt, hkind, hs, h0, h1, hc, h0', h1', h2', ha', h3, hemp, hoa, Trav.valence, Trav.tracksValences, ConnTri.exTopoC, ConnTri.exTopoS, ConnTri.exTopoL, ConnTri.exTopoR, ConnTri.exTopoE,
    wr_ok, vertex_ok, opposite_ok, setLeftMost_ok, hne, hoa2, hvr2, hvri2, hinv', hai, hnai, hpai, hna', hpa', Eb.setOpp, gsI, e1, e2, e3, e4, e5, e6, inv, bind, Except.bind, pure, Except.pure,
    Std.Legacy.Range.forIn_eq_forIn_range', Std.Legacy.Range.size, List.range'_succ, stepL, glue]
  exact ⟨by rw [push_set], rfl⟩

set_option maxRecDepth 100000 in
set_option maxHeartbeats 1000000 in
theorem body_C (nf nv ns : Nat) (rm : Bool) (tr : Trav) (hkind : tr.kind = 0) (j : Nat) (s0 : DS) (rd : BitReader) (tg : Nat)
    (hs : (decodeSymbolStd rd).1 = 0) (hc : 3 * j + 2 < s0.c2v.size) (ho : s0.opp.size = s0.c2v.size) (hsz : s0.c2v.size ≤ 4294967295)
    (hst : 0 < s0.stack.size) (ha : s0.stack.back! < 3 * j) (hna : Eb.nextC s0.stack.back! < 3 * j) (hpa : Eb.prevC s0.stack.back! < 3 * j)
    (hx : s0.c2v[Eb.nextC s0.stack.back!]! < s0.vc.size) (hxh : s0.c2v[Eb.nextC s0.stack.back!]! < s0.hole.size)
    (hb : cornerB s0 < 3 * j) (hnb : Eb.nextC (cornerB s0) < 3 * j) (hab : s0.stack.back! ≠ cornerB s0)
    (hoa : s0.opp[s0.stack.back!]! = 4294967295) (hob : s0.opp[cornerB s0]! = 4294967295)
    (hvr : s0.c2v[Eb.prevC s0.stack.back!]! < s0.vc.size) (hvinv : s0.vc.size ≤ 4294967295)
    (hx1 : s0.c2v[Eb.nextC s0.stack.back!]! ≠ s0.c2v[Eb.prevC s0.stack.back!]!)
    (hx2 : s0.c2v[Eb.nextC s0.stack.back!]! ≠ s0.c2v[Eb.nextC (cornerB s0)]!) :
    (decompM ⟨nf, nv, ns, [], rm⟩ tr).1.1 j (mkSt s0 ns j rd tr tg) =
      .ok (.yield (mkSt (stepC j s0) ns (j + 1) (decodeSymbolStd rd).2 tr (tg ||| 1))) := by
  simp only [cornerB] at hb hnb hab hob hx2
  have h0 : 3 * j < s0.c2v.size := by omega
  have h1 : 3 * j + 1 < s0.c2v.size := by omega
  have h0' : 3 * j < s0.opp.size := by omega
  have h1' : 3 * j + 1 < s0.opp.size := by omega
  have h2' : 3 * j + 2 < s0.opp.size := by omega
  have ha' : s0.stack.back! < s0.opp.size := by omega
  have hb' : Eb.nextC s0.vc[s0.c2v[Eb.nextC s0.stack.back!]!]! < s0.opp.size := by omega
  have hai : s0.stack.back! ≠ 4294967295 := by omega
  have hnai : Eb.nextC s0.stack.back! ≠ 4294967295 := by omega
  have hpai : Eb.prevC s0.stack.back! ≠ 4294967295 := by omega
  have hbi : Eb.nextC s0.vc[s0.c2v[Eb.nextC s0.stack.back!]!]! ≠ 4294967295 := by omega
  have hnbi : Eb.nextC (Eb.nextC s0.vc[s0.c2v[Eb.nextC s0.stack.back!]!]!) ≠ 4294967295 := by omega
  have hna' : Eb.nextC s0.stack.back! < s0.c2v.size := by omega
  have hpa' : Eb.prevC s0.stack.back! < s0.c2v.size := by omega
  have hnb' : Eb.nextC (Eb.nextC s0.vc[s0.c2v[Eb.nextC s0.stack.back!]!]!) < s0.c2v.size := by omega
  have hne : ¬ s0.stack = #[] := by intro e; rw [e] at hst; simp at hst
  have hvri : s0.c2v[Eb.prevC s0.stack.back!]! ≠ 4294967295 := by omega
  have e1 : ¬ 3 * j + 1 = s0.stack.back! := by omega
  have e2 : ¬ 3 * j + 1 = Eb.nextC s0.vc[s0.c2v[Eb.nextC s0.stack.back!]!]! := by omega
  have e3 : ¬ s0.stack.back! = Eb.nextC s0.vc[s0.c2v[Eb.nextC s0.stack.back!]!]! := hab
  simp [-getElem!_pos, decompM, Eb.raise, mkSt, hkind, hs, h0, h1, hc, h0', h1', h2', ha', hb', hne, hoa, hob, hx, hxh, hvr, hvri, hab, hx1, hx2, Trav.valence, Trav.tracksValences,
    ConnTri.exTopoC, ConnTri.exTopoS, ConnTri.exTopoL, ConnTri.exTopoR, ConnTri.exTopoE,
    wr_ok, wrB_ok, vertex_ok, opposite_ok, leftMost_ok, setLeftMost_ok, hai, hnai, hpai, hbi, hnbi, hna', hpa', hnb', Eb.setOpp, gsI, e1, e2, e3, inv, bind, Except.bind, pure, Except.pure,
    Std.Legacy.Range.forIn_eq_forIn_range', Std.Legacy.Range.size, List.range'_succ, stepC, glue, cornerB]
  rfl

/-! ## the symbol loop computes the pure run -/

/-- the tag of a symbol -/
def symTag (s : Nat) : Nat := if s = 7 then 16 else if s = 5 then 8 else if s = 3 then 4 else 1
/-- the tags after `j` symbols -/
def Tg (syms : List Nat) : Nat → Nat
  | 0 => 0
  | j+1 => Tg syms j ||| symTag syms[j]!

theorem stepE_vc (j : Nat) (s : DS) : (stepE j s).vc.size = s.vc.size + 3 := by simp [stepE]
theorem stepR_vc (j : Nat) (s : DS) : (stepR j s).vc.size = s.vc.size + 1 := by simp [stepR]
theorem stepL_vc (j : Nat) (s : DS) : (stepL j s).vc.size = s.vc.size + 1 := by simp [stepL]
theorem stepC_vc (j : Nat) (s : DS) : (stepC j s).vc.size = s.vc.size := by simp [stepC]

theorem step_vc_le (sym j : Nat) (s : DS) : s.vc.size ≤ (step sym j s).vc.size := by
  unfold step
  split_ifs
  · rw [stepE_vc]; omega
  · rw [stepR_vc]; omega
  · rw [stepL_vc]; omega
  · rw [stepC_vc]

theorem step_hole_size (sym j : Nat) (s : DS) : (step sym j s).hole.size = s.hole.size := by
  unfold step
  split_ifs <;> first | rfl | simp [stepC]

theorem St_hole_size (syms : List Nat) (n nv : Nat) : ∀ j, (St syms n nv j).hole.size = nv
  | 0 => by simp [St, DS.init]
  | j+1 => by
    show (step syms[j]! j (St syms n nv j)).hole.size = nv
    rw [step_hole_size]; exact St_hole_size syms n nv j

theorem St_vc_mono (syms : List Nat) (n nv : Nat) (j : Nat) : ∀ k, j ≤ k → (St syms n nv j).vc.size ≤ (St syms n nv k).vc.size := by
  intro k
  induction k with
  | zero => intro h; have : j = 0 := by omega
            subst this; exact Nat.le_refl _
  | succ k ih =>
    intro h
    by_cases e : j = k + 1
    · subst e; exact Nat.le_refl _
    · exact Nat.le_trans (ih (by omega)) (step_vc_le _ _ _)


/-- the result of the symbol loop from the final tables and the tags -/
def mainOfDS (s0 : DS) (nf tg : Nat) : ConnMain :=
  { c2v := s0.c2v, opp := s0.opp, vc := s0.vc, hole := s0.hole, stack := s0.stack, invalid := #[], numFaces := nf, tags := tg }

set_option maxRecDepth 100000 in
set_option maxHeartbeats 1000000 in
/-- **M4**: the symbol loop on a traversal state that delivers the symbols of an encoder trace -/
theorem connMain_St {t : CT} {P : Array Nat} {syms : List Nat} (hT : TblOK t) (hTr : Trace t P syms) (nv : Nat) (rm : Bool)
    (hv : (St syms P.size nv P.size).vc.size ≤ nv) (tr : Trav) (hkind : tr.kind = 0)
    (hsym : ∀ i, i < P.size → (decodeSymbolStd (RdS tr.sym i)).1 = syms[i]!) :
    connMain ⟨P.size, nv, P.size, [], rm⟩ tr = .ok (mainOfDS (St syms P.size nv P.size) P.size (Tg syms P.size)) := by
  have hC := hTr.ctx hT
  have hfit := hC.fits'
  rw [(decompM _ tr).2]
  refine bind_forIn_total P.size _ _ _
    (fun j s => j ≤ P.size ∧ s = mkSt (St syms P.size nv j) P.size j (RdS tr.sym j) tr (Tg syms j)) _ ?_ ?_ ?_
  · exact ⟨Nat.zero_le _, rfl⟩
  · intro j s hj hI
    obtain ⟨_, rfl⟩ := hI
    refine ⟨_, ?_, by omega, rfl⟩
    have hI := inv_St hT hTr nv j (by omega)
    have hs := hsym j hj
    have hmono := St_vc_mono syms P.size nv (j + 1) P.size (by omega)
    have hS1 : St syms P.size nv (j + 1) = step syms[j]! j (St syms P.size nv j) := rfl
    have hR1 : RdS tr.sym (j + 1) = (decodeSymbolStd (RdS tr.sym j)).2 := rfl
    have hT1 : Tg syms (j + 1) = Tg syms j ||| symTag syms[j]! := rfl
    rw [hS1] at hmono
    rw [hS1, hR1, hT1]
    have hcs := hI.v.csize
    have hos := hI.o.size
    have hvsz := hI.v.vsz
    have i4 : inv = 4294967295 := rfl
    rcases (hTr.face j hj).2.2.2.2.2.2.2 with h7 | h5 | h3 | h0
    · have e1 : step syms[j]! j (St syms P.size nv j) = stepE j (St syms P.size nv j) := by simp [step, h7]
      have e2 : symTag syms[j]! = 16 := by simp [symTag, h7]
      rw [e1] at hmono
      rw [stepE_vc] at hmono
      rw [e1, e2]
      rw [h7] at hs
      exact body_E _ _ _ _ tr hkind j _ _ _ hs (by omega) (by omega) (by omega)
    · have e1 : step syms[j]! j (St syms P.size nv j) = stepR j (St syms P.size nv j) := by simp [step, h5]
      have e2 : symTag syms[j]! = 8 := by simp [symTag, h5]
      rw [e1] at hmono
      rw [stepR_vc] at hmono
      rw [e1, e2]
      rw [h5] at hs
      obtain ⟨g1, g2, g3, g4, g5, g6⟩ := guards_RL hT hTr hI hj (Or.inl h5)
      have hn := nx0 (j - 1) (by omega)
      have hp := pv0 (j - 1) (by omega)
      exact body_R _ _ _ _ tr hkind j _ _ _ hs (by omega) (by omega) (by omega) (by omega) (by omega) g1 (by omega)
        (by rw [g2, hn]; omega) (by rw [g2, hp]; omega) g4 g5
    · have e1 : step syms[j]! j (St syms P.size nv j) = stepL j (St syms P.size nv j) := by simp [step, h3]
      have e2 : symTag syms[j]! = 4 := by simp [symTag, h3]
      rw [e1] at hmono
      rw [stepL_vc] at hmono
      rw [e1, e2]
      rw [h3] at hs
      obtain ⟨g1, g2, g3, g4, g5, g6⟩ := guards_RL hT hTr hI hj (Or.inr h3)
      have hn := nx0 (j - 1) (by omega)
      have hp := pv0 (j - 1) (by omega)
      exact body_L _ _ _ _ tr hkind j _ _ _ hs (by omega) (by omega) (by omega) (by omega) (by omega) g1 (by omega)
        (by rw [g2, hn]; omega) (by rw [g2, hp]; omega) g4 g5
    · have e1 : step syms[j]! j (St syms P.size nv j) = stepC j (St syms P.size nv j) := by simp [step, h0]
      have e2 : symTag syms[j]! = 1 := by simp [symTag, h0]
      rw [e1] at hmono
      rw [stepC_vc] at hmono
      rw [e1, e2]
      rw [h0] at hs
      obtain ⟨g1, g2, g3, g4, g5, g6, g7, g8, g9, g10⟩ := guards_C hT hTr hI hj h0
      have hn := nx0 (j - 1) (by omega)
      have hp := pv0 (j - 1) (by omega)
      have hhs := St_hole_size syms P.size nv j
      have hvr := hI.v.vlt (Eb.prevC (St syms P.size nv j).stack.back!) (by rw [g2, hp]; omega)
      exact body_C _ _ _ _ tr hkind j _ _ _ hs (by omega) (by omega) (by omega) g1 (by omega)
        (by rw [g2, hn]; omega) (by rw [g2, hp]; omega) g8 (by omega) g4 (EncCounts.nextC_lt3 g4 (by omega)) g5 g6 g7 hvr
        (by omega) g9 g10
  · intro s hs
    obtain ⟨_, rfl⟩ := hs
    have h3 : ¬ (nv < (St syms P.size nv P.size).vc.size) := by omega
    rw [decompM_tail]
    simp [tailM, mkSt, h3, mainOfDS, pure, Except.pure]

end Draco.EbEnc.DecSim
