import DracoProofs.Octahedron
import DracoProofs.OctaFloat
import Mathlib.Tactic.Linarith
import Mathlib.Tactic.Ring
import Mathlib.Tactic.Positivity
import Mathlib.Algebra.Order.Floor.Ring
import Mathlib.Data.Rat.Floor
import Mathlib.Analysis.SpecialFunctions.Trigonometric.Bounds
import Mathlib.Analysis.SpecialFunctions.Trigonometric.Inverse
import Mathlib.Analysis.SpecialFunctions.Sqrt
/-
  C07, angular error in exact arithmetic.

  1. `grid_distance`   the integer vector `v` built by `FloatVectorToQuantizedOctahedralCoords`
                       from exactly rounded coordinates is within (1/2, 1/2, 1) of the scaled
                       L1 projection `c·n/|n|₁` (the repair of a negative third coordinate
                       included).
  2. `lipschitz_step`  two points of the unit octahedron whose coordinates differ by at most
                       (h, h, 2h) enclose an angle θ with `sin² θ ≤ 18 h²`, `cos θ > 0`
                       (Lagrange identity and `‖·‖₂² ≥ ‖·‖₁²/3`; no square roots).
  3. `angle_le_of_sin_sq`  `sin² θ ≤ 9/(2c²)`, `0 ≤ θ < π/2`, `c ≥ 3`  ⟹  `θ ≤ 3/c`
                       (`θ ≤ tan θ`).
-/
namespace Draco
namespace Octa

/-- the integer tail of the encoder, described by linear facts -/
theorem fixIntVec_cases (t : OctaT) (i0 i1 : Int) (zNeg : Bool) :
    let v := fixIntVec t i0 i1 zNeg
    v.1 = i0 ∧
    ((0 ≤ t.center - iabs i0 - iabs i1 ∧ v.2.1 = i1 ∧
        v.2.2 = (if zNeg then -(t.center - iabs i0 - iabs i1) else t.center - iabs i0 - iabs i1)) ∨
     (t.center - iabs i0 - iabs i1 < 0 ∧ v.2.2 = 0 ∧
        v.2.1 = (if i1 > 0 then i1 + (t.center - iabs i0 - iabs i1)
                 else i1 - (t.center - iabs i0 - iabs i1)))) := by
  unfold fixIntVec
  dsimp only
  generalize t.center - iabs i0 - iabs i1 = i2
  by_cases h : i2 < 0
  · refine ⟨rfl, Or.inr ⟨h, ?_, ?_⟩⟩
    · simp only [h, if_true]; cases zNeg <;> simp
    · simp only [h, if_true]
  · refine ⟨rfl, Or.inl ⟨by omega, ?_, ?_⟩⟩
    · simp only [h, if_false]
    · simp only [h, if_false]; cases zNeg <;> simp

theorem grid_distance (t : OctaT) (i0 i1 : Int) (A B Z : ℚ) (zNeg : Bool)
    (hA : |A - i0| ≤ 1/2) (hB : |B - i1| ≤ 1/2) (hsum : |A| + |B| + |Z| = t.center)
    (hz : zNeg = true ↔ Z < 0) :
    let v := fixIntVec t i0 i1 zNeg
    |A - v.1| ≤ 1/2 ∧ |B - v.2.1| ≤ 1/2 ∧ |Z - v.2.2| ≤ 1 := by
  intro v
  obtain ⟨h1, hc⟩ := fixIntVec_cases t i0 i1 zNeg
  obtain ⟨a1, a2⟩ := abs_le.mp hA
  obtain ⟨b1, b2⟩ := abs_le.mp hB
  have hi0 : ((iabs i0 : Int) : ℚ) = |(i0 : ℚ)| := by
    unfold iabs; split
    · rename_i h; have : (i0:ℚ) < 0 := by exact_mod_cast h
      rw [abs_of_neg this]; push_cast; ring
    · rename_i h; have : (0:ℚ) ≤ i0 := by exact_mod_cast (not_lt.mp h)
      rw [abs_of_nonneg this]
  have hi1 : ((iabs i1 : Int) : ℚ) = |(i1 : ℚ)| := by
    unfold iabs; split
    · rename_i h; have : (i1:ℚ) < 0 := by exact_mod_cast h
      rw [abs_of_neg this]; push_cast; ring
    · rename_i h; have : (0:ℚ) ≤ i1 := by exact_mod_cast (not_lt.mp h)
      rw [abs_of_nonneg this]
  -- | |A| - |i0| | ≤ 1/2
  have ra := abs_abs_sub_abs_le_abs_sub A (i0:ℚ)
  have rb := abs_abs_sub_abs_le_abs_sub B (i1:ℚ)
  obtain ⟨ra1, ra2⟩ := abs_le.mp (le_trans ra hA)
  obtain ⟨rb1, rb2⟩ := abs_le.mp (le_trans rb hB)
  refine ⟨by rw [show v.1 = i0 from h1]; exact hA, ?_⟩
  rcases hc with ⟨h2, hv2, hv3⟩ | ⟨h2, hv3, hv2⟩
  · refine ⟨by rw [show v.2.1 = i1 from hv2]; exact hB, ?_⟩
    rw [show v.2.2 = _ from hv3]
    have h2q : (0:ℚ) ≤ (t.center : ℚ) - |(i0:ℚ)| - |(i1:ℚ)| := by
      rw [← hi0, ← hi1]; exact_mod_cast h2
    cases zNeg with
    | true =>
      have hZ : Z < 0 := hz.mp rfl
      simp only [if_true]
      push_cast
      rw [hi0, hi1, abs_le]
      rw [abs_of_neg hZ] at hsum
      constructor <;> linarith
    | false =>
      have hZ : 0 ≤ Z := by
        by_contra h; exact Bool.false_ne_true (hz.mpr (not_le.mp h))
      simp only [Bool.false_eq_true, if_false]
      push_cast
      rw [hi0, hi1, abs_le]
      rw [abs_of_nonneg hZ] at hsum
      constructor <;> linarith
  · -- the repair branch: |i0| + |i1| = c + 1, both roundings were exactly half a unit up
    have hZ0 := abs_nonneg Z
    have hA0 := abs_nonneg A
    have hB0 := abs_nonneg B
    have hle : iabs i0 + iabs i1 ≤ t.center + 1 := by
      have : ((iabs i0 + iabs i1 : Int) : ℚ) ≤ ((t.center + 1 : Int) : ℚ) := by
        push_cast; rw [hi0, hi1]; linarith
      exact_mod_cast this
    have heq : iabs i0 + iabs i1 = t.center + 1 := by omega
    have heq' : |(i0:ℚ)| + |(i1:ℚ)| = (t.center : ℚ) + 1 := by
      rw [← hi0, ← hi1]; exact_mod_cast heq
    have hi2 : t.center - iabs i0 - iabs i1 = -1 := by omega
    rw [show v.2.2 = 0 from hv3, show v.2.1 = _ from hv2, hi2]
    refine ⟨?_, by push_cast; rw [sub_zero]; linarith⟩
    by_cases hp : i1 > 0
    · simp only [hp, if_true]
      have hpq : (0:ℚ) < i1 := by exact_mod_cast hp
      rw [abs_of_pos hpq] at heq' rb1 rb2
      have hBpos : 0 ≤ B := by linarith
      rw [abs_of_nonneg hBpos] at hsum rb1 rb2
      push_cast
      rw [abs_le]; constructor <;> linarith
    · simp only [hp, if_false]
      have hpq : (i1:ℚ) ≤ 0 := by exact_mod_cast (not_lt.mp hp)
      rw [abs_of_nonpos hpq] at heq' rb1 rb2
      have hBneg : B ≤ 0 := by linarith
      rw [abs_of_nonpos hBneg] at hsum rb1 rb2
      push_cast
      rw [abs_le]; constructor <;> linarith

/-! ### the exact instance of the encoder's float expressions -/

/-- exact rational arithmetic for the `double` operations -/
@[reducible] def exactDoubleOps : DoubleOps ℚ where
  abs a := |a|
  add a b := a + b
  mul a b := a * b
  div a b := a / b
  ofInt k := (k : ℚ)
  floorToInt x := ⌊x⌋
  lt a b := decide (a < b)
  zero := 0
  one := 1
  half := 1/2

theorem exactDoubleOps_model (u : ℚ) (h : 0 ≤ u) : DoubleModel exactDoubleOps u where
  abs _ := rfl
  add a b := ⟨0, by simpa using h, by show a + b = (a + b) * (1 + 0); ring⟩
  mul a b := ⟨0, by simpa using h, by show a * b = (a * b) * (1 + 0); ring⟩
  div a b _ := ⟨0, by simpa using h, by show a / b = (a / b) * (1 + 0); ring⟩
  ofInt _ := rfl
  floor _ := rfl
  lt _ _ := rfl
  zero := rfl
  one := rfl
  half := rfl

theorem floatVecRoundG_exact (c : Int) (x y z : ℚ) (hS : 0 < |x| + |y| + |z|) :
    @floatVecRoundG ℚ exactDoubleOps c x y z
      = (⌊x * (1 / (|x| + |y| + |z|)) * (c : ℚ) + 1/2⌋,
         ⌊y * (1 / (|x| + |y| + |z|)) * (c : ℚ) + 1/2⌋,
         decide (z * (1 / (|x| + |y| + |z|)) < ((0 : Int) : ℚ))) := by
  unfold floatVecRoundG
  simp only [DoubleOps.abs, DoubleOps.add, DoubleOps.mul, DoubleOps.div, DoubleOps.ofInt,
    DoubleOps.floorToInt, DoubleOps.lt, DoubleOps.zero, DoubleOps.one, DoubleOps.half,
    hS, decide_true, if_true]

/-! ### vector algebra without square roots -/

theorem sq_sum_le_three (a b c : ℚ) : (a + b + c) ^ 2 ≤ 3 * (a ^ 2 + b ^ 2 + c ^ 2) := by
  nlinarith [sq_nonneg (a - b), sq_nonneg (a - c), sq_nonneg (b - c)]

/-- `‖p‖₂² ≥ 1/3` on the unit octahedron -/
theorem norm_sq_ge_third (p1 p2 p3 : ℚ) (h : |p1| + |p2| + |p3| = 1) :
    1 ≤ 3 * (p1 ^ 2 + p2 ^ 2 + p3 ^ 2) := by
  have := sq_sum_le_three |p1| |p2| |p3|
  rw [h, sq_abs, sq_abs, sq_abs] at this
  linarith

theorem lipschitz_step (p1 p2 p3 g1 g2 g3 h : ℚ) (hp : |p1| + |p2| + |p3| = 1)
    (hg : |g1| + |g2| + |g3| = 1) (h1 : |p1 - g1| ≤ h) (h2 : |p2 - g2| ≤ h)
    (h3 : |p3 - g3| ≤ 2 * h) :
    ((p1 ^ 2 + p2 ^ 2 + p3 ^ 2) * (g1 ^ 2 + g2 ^ 2 + g3 ^ 2) - (p1 * g1 + p2 * g2 + p3 * g3) ^ 2
      ≤ 18 * h ^ 2 * ((p1 ^ 2 + p2 ^ 2 + p3 ^ 2) * (g1 ^ 2 + g2 ^ 2 + g3 ^ 2))) ∧
    (18 * h ^ 2 < 2 → 0 < p1 * g1 + p2 * g2 + p3 * g3) := by
  have hP := norm_sq_ge_third p1 p2 p3 hp
  have hG := norm_sq_ge_third g1 g2 g3 hg
  have e1 : (p1 - g1) ^ 2 ≤ h ^ 2 := by
    rw [← sq_abs (p1 - g1)]; exact pow_le_pow_left₀ (abs_nonneg _) h1 2
  have e2 : (p2 - g2) ^ 2 ≤ h ^ 2 := by
    rw [← sq_abs (p2 - g2)]; exact pow_le_pow_left₀ (abs_nonneg _) h2 2
  have e3 : (p3 - g3) ^ 2 ≤ (2 * h) ^ 2 := by
    rw [← sq_abs (p3 - g3)]; exact pow_le_pow_left₀ (abs_nonneg _) h3 2
  set P := p1 ^ 2 + p2 ^ 2 + p3 ^ 2 with hPdef
  set G := g1 ^ 2 + g2 ^ 2 + g3 ^ 2 with hGdef
  set E := (p1 - g1) ^ 2 + (p2 - g2) ^ 2 + (p3 - g3) ^ 2 with hEdef
  have hE : E ≤ 6 * h ^ 2 := by rw [hEdef]; nlinarith
  have hE0 : 0 ≤ E := by rw [hEdef]; positivity
  have hG0 : 0 ≤ G := by rw [hGdef]; positivity
  -- Lagrange: ‖p‖²‖g‖² − (p·g)² = ‖(p−g) × g‖² = ‖p−g‖²‖g‖² − ((p−g)·g)²
  have lag : P * G - (p1 * g1 + p2 * g2 + p3 * g3) ^ 2
      = E * G - ((p1 - g1) * g1 + (p2 - g2) * g2 + (p3 - g3) * g3) ^ 2 := by
    rw [hPdef, hGdef, hEdef]; ring
  constructor
  · rw [lag]
    have h0 : 0 ≤ ((p1 - g1) * g1 + (p2 - g2) * g2 + (p3 - g3) * g3) ^ 2 := sq_nonneg _
    have h4 : E * G ≤ 6 * h ^ 2 * G := mul_le_mul_of_nonneg_right hE hG0
    have h5 : 6 * h ^ 2 * G ≤ 6 * h ^ 2 * (3 * P * G) := by
      have : G ≤ 3 * P * G := by nlinarith
      exact mul_le_mul_of_nonneg_left this (by positivity)
    nlinarith
  · intro hh
    have : 2 * (p1 * g1 + p2 * g2 + p3 * g3) = P + G - E := by
      rw [hPdef, hGdef, hEdef]; ring
    nlinarith

/-- undoing the normalisation `n/S`, `v/c` in the `sin²` bound -/
theorem scale_back (N V D S c : ℚ) (hS : 0 < S) (hc : 0 < c)
    (h : N / S ^ 2 * (V / c ^ 2) - (D / (S * c)) ^ 2 ≤ 9 / (2 * c ^ 2) * (N / S ^ 2 * (V / c ^ 2))) :
    (N * V - D ^ 2) * (2 * c ^ 2) ≤ 9 * (N * V) := by
  have hS2 : 0 < S ^ 2 := by positivity
  have hc2 : 0 < c ^ 2 := by positivity
  have key : (N / S ^ 2 * (V / c ^ 2) - (D / (S * c)) ^ 2) = (N * V - D ^ 2) / (S ^ 2 * c ^ 2) := by
    field_simp
  have key2 : 9 / (2 * c ^ 2) * (N / S ^ 2 * (V / c ^ 2))
      = (9 * (N * V)) / (2 * c ^ 2) / (S ^ 2 * c ^ 2) := by
    field_simp
  rw [key, key2, div_le_div_iff_of_pos_right (by positivity)] at h
  rw [le_div_iff₀ (by positivity)] at h
  exact h

/-- iabs as a rational absolute value -/
theorem iabs_cast (i : Int) : ((iabs i : Int) : ℚ) = |(i : ℚ)| := by
  unfold iabs; split
  · rename_i h; have : (i:ℚ) < 0 := by exact_mod_cast h
    rw [abs_of_neg this]; push_cast; ring
  · rename_i h; have : (0:ℚ) ≤ i := by exact_mod_cast (not_lt.mp h)
    rw [abs_of_nonneg this]

theorem abs_sub_floor_half (a : ℚ) : |a - (⌊a + 1/2⌋ : Int)| ≤ 1/2 := by
  have h1 := Int.floor_le (a + 1/2)
  have h2 := Int.lt_floor_add_one (a + 1/2)
  rw [abs_le]; constructor <;> linarith

/-- Exact arithmetic: for a non-zero rational vector `n` the integer vector `v` that
    `FloatVectorToQuantizedOctahedralCoords` hands to `IntegerVectorToQuantizedOctahedralCoords`
    has L1 norm `c`, a positive scalar product with `n`, and
    `sin²∠(n, v) = (‖n‖²‖v‖² − (n·v)²)/(‖n‖²‖v‖²) ≤ 9/(2c²)`. -/
theorem angle_bound_rat (t : OctaT) (hwf : t.WF) (hc2 : 2 ≤ t.center) (n1 n2 n3 : ℚ)
    (hn : 0 < |n1| + |n2| + |n3|) :
    let r := @floatVecRoundG ℚ exactDoubleOps t.center n1 n2 n3
    let v := fixIntVec t r.1 r.2.1 r.2.2
    iabs v.1 + iabs v.2.1 + iabs v.2.2 = t.center ∧
    0 < n1 * v.1 + n2 * v.2.1 + n3 * v.2.2 ∧
    ((n1 ^ 2 + n2 ^ 2 + n3 ^ 2) * ((v.1 : ℚ) ^ 2 + (v.2.1 : ℚ) ^ 2 + (v.2.2 : ℚ) ^ 2)
        - (n1 * v.1 + n2 * v.2.1 + n3 * v.2.2) ^ 2) * (2 * (t.center : ℚ) ^ 2)
      ≤ 9 * ((n1 ^ 2 + n2 ^ 2 + n3 ^ 2) * ((v.1 : ℚ) ^ 2 + (v.2.1 : ℚ) ^ 2 + (v.2.2 : ℚ) ^ 2)) := by
  intro r v
  obtain ⟨_, _, hc1, hc29⟩ := hwf
  set S := |n1| + |n2| + |n3| with hS
  set c : ℚ := (t.center : ℚ) with hcdef
  have hc0 : (0:ℚ) < c := by rw [hcdef]; exact_mod_cast (by omega : (0:Int) < t.center)
  have hcq2 : (2:ℚ) ≤ c := by rw [hcdef]; exact_mod_cast hc2
  have hr : r = (⌊n1 * (1 / S) * c + 1/2⌋, ⌊n2 * (1 / S) * c + 1/2⌋,
      decide (n3 * (1 / S) < ((0 : Int) : ℚ))) := floatVecRoundG_exact t.center n1 n2 n3 hn
  have hsumv : iabs v.1 + iabs v.2.1 + iabs v.2.2 = t.center :=
    fixIntVec_abs_sum t r.1 r.2.1 r.2.2
      (octa_round_in_range exactDoubleOps 0 (le_refl _) (by norm_num) (exactDoubleOps_model 0 (le_refl _))
        t.center hc1 hc29 n1 n2 n3)
  -- scaled projection
  set A := n1 * (1 / S) * c with hA
  set B := n2 * (1 / S) * c with hB
  set Z := n3 * (1 / S) * c with hZ
  have hsum : |A| + |B| + |Z| = (t.center : ℚ) := by
    rw [hA, hB, hZ, abs_mul, abs_mul, abs_mul, abs_mul, abs_mul, abs_mul,
      abs_of_pos hc0, abs_of_pos (by positivity : (0:ℚ) < 1 / S)]
    have : (|n1| + |n2| + |n3|) * (1 / S) = 1 := by rw [← hS]; field_simp
    calc |n1| * (1 / S) * c + |n2| * (1 / S) * c + |n3| * (1 / S) * c
        = ((|n1| + |n2| + |n3|) * (1 / S)) * c := by ring
      _ = c := by rw [this, one_mul]
  have hz : (r.2.2 = true) ↔ Z < 0 := by
    rw [hr]
    simp only [Int.cast_zero, decide_eq_true_eq]
    constructor
    · intro h; rw [hZ]; exact mul_neg_of_neg_of_pos h hc0
    · intro h
      by_contra hge
      have : 0 ≤ n3 * (1 / S) * c := mul_nonneg (not_lt.mp hge) hc0.le
      rw [hZ] at h; linarith
  have hgd := grid_distance t r.1 r.2.1 A B Z r.2.2
    (by rw [hr]; exact abs_sub_floor_half A) (by rw [hr]; exact abs_sub_floor_half B) hsum hz
  obtain ⟨d1, d2, d3⟩ := hgd
  change |A - (v.1 : ℚ)| ≤ 1/2 at d1
  change |B - (v.2.1 : ℚ)| ≤ 1/2 at d2
  change |Z - (v.2.2 : ℚ)| ≤ 1 at d3
  -- the two points of the unit octahedron
  have hcne : c ≠ 0 := ne_of_gt hc0
  have hSne : S ≠ 0 := ne_of_gt hn
  have hg1 : |(v.1 : ℚ) / c| + |(v.2.1 : ℚ) / c| + |(v.2.2 : ℚ) / c| = 1 := by
    rw [abs_div, abs_div, abs_div, abs_of_pos hc0, ← iabs_cast, ← iabs_cast, ← iabs_cast,
      ← add_div, ← add_div, div_eq_one_iff_eq hcne, hcdef]
    exact_mod_cast hsumv
  have hp1 : |n1 / S| + |n2 / S| + |n3 / S| = 1 := by
    rw [abs_div, abs_div, abs_div, abs_of_pos hn, ← add_div, ← add_div]
    exact div_self hSne
  have q1 : |n1 / S - (v.1 : ℚ) / c| ≤ 1 / (2 * c) := by
    have : n1 / S - (v.1 : ℚ) / c = (A - v.1) / c := by rw [hA]; field_simp
    rw [this, abs_div, abs_of_pos hc0, div_le_div_iff₀ hc0 (by positivity)]
    nlinarith
  have q2 : |n2 / S - (v.2.1 : ℚ) / c| ≤ 1 / (2 * c) := by
    have : n2 / S - (v.2.1 : ℚ) / c = (B - v.2.1) / c := by rw [hB]; field_simp
    rw [this, abs_div, abs_of_pos hc0, div_le_div_iff₀ hc0 (by positivity)]
    nlinarith
  have q3 : |n3 / S - (v.2.2 : ℚ) / c| ≤ 2 * (1 / (2 * c)) := by
    have : n3 / S - (v.2.2 : ℚ) / c = (Z - v.2.2) / c := by rw [hZ]; field_simp
    rw [this, abs_div, abs_of_pos hc0]
    have : 2 * (1 / (2 * c)) = 1 / c := by field_simp
    rw [this, div_le_div_iff₀ hc0 hc0]
    nlinarith
  obtain ⟨l1, l2⟩ := lipschitz_step (n1 / S) (n2 / S) (n3 / S) (v.1 / c) (v.2.1 / c) (v.2.2 / c)
    (1 / (2 * c)) hp1 hg1 q1 q2 q3
  have h18 : 18 * (1 / (2 * c)) ^ 2 = 9 / (2 * c ^ 2) := by field_simp; ring
  have hlt2 : 18 * (1 / (2 * c)) ^ 2 < 2 := by
    rw [h18, div_lt_iff₀ (by positivity)]; nlinarith
  have l2' := l2 hlt2
  -- back to n and v
  have eD : n1 / S * ((v.1 : ℚ) / c) + n2 / S * ((v.2.1 : ℚ) / c) + n3 / S * ((v.2.2 : ℚ) / c)
      = (n1 * v.1 + n2 * v.2.1 + n3 * v.2.2) / (S * c) := by field_simp
  have eP : (n1 / S) ^ 2 + (n2 / S) ^ 2 + (n3 / S) ^ 2 = (n1 ^ 2 + n2 ^ 2 + n3 ^ 2) / S ^ 2 := by
    field_simp
  have eG : ((v.1 : ℚ) / c) ^ 2 + ((v.2.1 : ℚ) / c) ^ 2 + ((v.2.2 : ℚ) / c) ^ 2
      = ((v.1 : ℚ) ^ 2 + (v.2.1 : ℚ) ^ 2 + (v.2.2 : ℚ) ^ 2) / c ^ 2 := by field_simp
  have hSc : 0 < S * c := mul_pos hn hc0
  refine ⟨hsumv, ?_, ?_⟩
  · rw [eD] at l2'
    exact (div_pos_iff_of_pos_right hSc).mp l2'
  · rw [eD, eP, eG, h18] at l1
    exact scale_back _ _ _ S c hn hc0 l1

/-- the L∞ grid-distance lemma for the exact instance of the encoder -/
theorem grid_distance_exact (t : OctaT) (hwf : t.WF) (n1 n2 n3 : ℚ) (hn : 0 < |n1| + |n2| + |n3|) :
    let r := @floatVecRoundG ℚ exactDoubleOps t.center n1 n2 n3
    let v := fixIntVec t r.1 r.2.1 r.2.2
    |n1 / (|n1| + |n2| + |n3|) * t.center - v.1| ≤ 1/2 ∧
    |n2 / (|n1| + |n2| + |n3|) * t.center - v.2.1| ≤ 1/2 ∧
    |n3 / (|n1| + |n2| + |n3|) * t.center - v.2.2| ≤ 1 := by
  intro r v
  obtain ⟨_, _, hc1, _⟩ := hwf
  set S := |n1| + |n2| + |n3| with hS
  set c : ℚ := (t.center : ℚ) with hcdef
  have hc0 : (0:ℚ) < c := by rw [hcdef]; exact_mod_cast (by omega : (0:Int) < t.center)
  have hr : r = (⌊n1 * (1 / S) * c + 1/2⌋, ⌊n2 * (1 / S) * c + 1/2⌋,
      decide (n3 * (1 / S) < ((0 : Int) : ℚ))) := floatVecRoundG_exact t.center n1 n2 n3 hn
  have e1 : n1 / S * c = n1 * (1 / S) * c := by ring
  have e2 : n2 / S * c = n2 * (1 / S) * c := by ring
  have e3 : n3 / S * c = n3 * (1 / S) * c := by ring
  rw [e1, e2, e3]
  set A := n1 * (1 / S) * c with hA
  set B := n2 * (1 / S) * c with hB
  set Z := n3 * (1 / S) * c with hZ
  have hsum : |A| + |B| + |Z| = (t.center : ℚ) := by
    rw [hA, hB, hZ, abs_mul, abs_mul, abs_mul, abs_mul, abs_mul, abs_mul,
      abs_of_pos hc0, abs_of_pos (by positivity : (0:ℚ) < 1 / S)]
    have : (|n1| + |n2| + |n3|) * (1 / S) = 1 := by rw [← hS]; field_simp
    calc |n1| * (1 / S) * c + |n2| * (1 / S) * c + |n3| * (1 / S) * c
        = ((|n1| + |n2| + |n3|) * (1 / S)) * c := by ring
      _ = c := by rw [this, one_mul]
  have hz : (r.2.2 = true) ↔ Z < 0 := by
    rw [hr]
    simp only [Int.cast_zero, decide_eq_true_eq]
    constructor
    · intro h; rw [hZ]; exact mul_neg_of_neg_of_pos h hc0
    · intro h
      by_contra hge
      have : 0 ≤ n3 * (1 / S) * c := mul_nonneg (not_lt.mp hge) hc0.le
      rw [hZ] at h; linarith
  exact grid_distance t r.1 r.2.1 A B Z r.2.2
    (by rw [hr]; exact abs_sub_floor_half A) (by rw [hr]; exact abs_sub_floor_half B) hsum hz


/-! ### the decoder in exact arithmetic: fixed point -/

/-- `c ·` the vector computed by `OctahedralCoordsToUnitVector` before normalisation, in exact
    arithmetic, from center-relative coordinates `a = s - c`, `b = t - c` -/
def decScaled (c a b : Int) : Int × Int × Int :=
  let x := c - iabs a - iabs b
  let xOff := if -x < 0 then 0 else -x
  (x, a + (if a < 0 then xOff else -xOff), b + (if b < 0 then xOff else -xOff))

theorem decScaled_canonicalize (t : OctaT) (hwf : t.WF) (p : Int × Int) (hg : inGrid t p) :
    decScaled t.center ((canonicalize t p).1 - t.center) ((canonicalize t p).2 - t.center)
      = decScaled t.center (p.1 - t.center) (p.2 - t.center) := by
  obtain ⟨h1, h2, h3, h4⟩ := hwf
  obtain ⟨s, u⟩ := p
  unfold inGrid at hg
  unfold canonicalize
  simp only at hg ⊢
  rw [h1] at hg ⊢
  generalize t.center = c at *
  split
  · rename_i h
    unfold decScaled iabs
    rcases h with ⟨rfl, rfl⟩ | ⟨rfl, rfl⟩ | ⟨rfl, rfl⟩ <;>
      simp only [Prod.mk.injEq] <;> (repeat' split) <;> omega
  · split
    · rename_i h; obtain ⟨rfl, h⟩ := h
      unfold decScaled iabs
      simp only [Prod.mk.injEq]; (repeat' split) <;> omega
    · split
      · rename_i h; obtain ⟨rfl, h⟩ := h
        unfold decScaled iabs
        simp only [Prod.mk.injEq]; (repeat' split) <;> omega
      · split
        · rename_i h; obtain ⟨rfl, h⟩ := h
          unfold decScaled iabs
          simp only [Prod.mk.injEq]; (repeat' split) <;> omega
        · split
          · rename_i h; obtain ⟨rfl, h⟩ := h
            unfold decScaled iabs
            simp only [Prod.mk.injEq]; (repeat' split) <;> omega
          · rfl

/-- the coordinates before `CanonicalizeOctahedralCoords` decode to the vector itself -/
theorem decScaled_pre (c x y z : Int) (hsum : iabs x + iabs y + iabs z = c) :
    (0 ≤ x → decScaled c y z = (x, y, z)) ∧
    (x < 0 → decScaled c ((if y < 0 then iabs z else 2 * c - iabs z) - c)
        ((if z < 0 then iabs y else 2 * c - iabs y) - c) = (x, y, z)) := by
  unfold decScaled iabs at *
  constructor
  · intro hx
    simp only [Prod.mk.injEq]
    (repeat' split at hsum) <;> (repeat' split) <;> omega
  · intro hx
    simp only [Prod.mk.injEq]
    (repeat' split at hsum) <;> (repeat' split) <;> omega

/-- **fixed point**: decoding (exact arithmetic, before normalisation) the octahedral
    coordinates of an integer vector of L1 norm `c` gives the vector back (times `1/c`) -/
theorem decScaled_intVecToCoords (t : OctaT) (hwf : t.WF) (v : Int × Int × Int)
    (hsum : iabs v.1 + iabs v.2.1 + iabs v.2.2 = t.center) :
    decScaled t.center ((intVecToCoords t v).1 - t.center) ((intVecToCoords t v).2 - t.center)
      = v := by
  obtain ⟨x, y, z⟩ := v
  simp only at hsum
  obtain ⟨p0, p1⟩ := decScaled_pre t.center x y z hsum
  have hV := hwf.1
  have hy := iabs_nonneg y
  have hz := iabs_nonneg z
  have hxn := iabs_nonneg x
  unfold intVecToCoords
  simp only
  by_cases hx : x ≥ 0
  · simp only [hx, if_true]
    rw [decScaled_canonicalize t hwf _ (by
      unfold inGrid; simp only; rw [hV]
      unfold iabs at hsum
      (repeat' split at hsum) <;> omega)]
    simp only [Int.add_sub_cancel]
    exact p0 hx
  · simp only [hx, if_false]
    rw [decScaled_canonicalize t hwf _ (by
      unfold inGrid; simp only; rw [hV]
      constructor
      · split <;> omega
      constructor
      · split <;> omega
      constructor
      · split <;> omega
      · split <;> omega)]
    simp only
    rw [hV]
    exact p1 (by omega)


/-- the `float` operations of `QuantizedOctahedralCoordsToUnitVector` before the normalisation -/
class OctaDecOps (F : Type) where
  add : F → F → F
  sub : F → F → F
  mul : F → F → F
  div : F → F → F
  abs : F → F
  neg : F → F
  ofInt : Int → F
  lt : F → F → Bool
  zero : F
  one : F
  two : F

instance instOctaDecOpsFloat32 : OctaDecOps Float32 where
  add := fun a b => a + b
  sub := fun a b => a - b
  mul := fun a b => a * b
  div := fun a b => a / b
  abs := fun a => a.abs
  neg := fun a => -a
  ofInt := fun k => Float32.ofInt k
  lt := fun a b => decide (a < b)
  zero := (0 : Float32)
  one := (1.0 : Float32)
  two := (2.0 : Float32)

@[reducible] def exactOctaDecOps : OctaDecOps ℚ where
  add := fun a b => a + b
  sub := fun a b => a - b
  mul := fun a b => a * b
  div := fun a b => a / b
  abs := fun a => |a|
  neg := fun a => -a
  ofInt := fun k => (k : ℚ)
  lt := fun a b => decide (a < b)
  zero := 0
  one := 1
  two := 2

open OctaDecOps in
/-- `QuantizedOctahedralCoordsToUnitVector` / `OctahedralCoordsToUnitVector` up to (excluding)
    the normalisation, generically over the operations -/
def octaVecG {F : Type} [OctaDecOps F] (maxV : Int) (p : Int × Int) : F × F × F :=
  let sc : F := div two (ofInt maxV)
  let y : F := sub (mul (ofInt p.1) sc) one
  let z : F := sub (mul (ofInt p.2) sc) one
  let x : F := sub (sub one (abs y)) (abs z)
  let xOff : F := neg x
  let xOff : F := if lt xOff zero then zero else xOff
  let y : F := add y (if lt y zero then xOff else neg xOff)
  let z : F := add z (if lt z zero then xOff else neg xOff)
  (x, y, z)

/-- the normalisation step of `OctahedralCoordsToUnitVector` (`float`, comparison in `double`) -/
def normalise32 (w : Float32 × Float32 × Float32) : Float32 × Float32 × Float32 :=
  let n2 : Float32 := w.1 * w.1 + w.2.1 * w.2.1 + w.2.2 * w.2.2
  if n2.toFloat < 1e-6 then (0, 0, 0)
  else
    let d : Float32 := 1.0 / n2.sqrt
    (w.1 * d, w.2.1 * d, w.2.2 * d)

/-- the executable decoder of the model is the `Float32` instance of `octaVecG` followed by the
    normalisation -/
theorem coordsToUnitVector_eq_generic (t : OctaT) (p : Int × Int) :
    coordsToUnitVector t p = normalise32 (@octaVecG Float32 instOctaDecOpsFloat32 t.maxV p) := by
  unfold coordsToUnitVector scaledCoordsToUnitVector normalise32 octaVecG dequantScale
  simp only [OctaDecOps.add, OctaDecOps.sub, OctaDecOps.mul, OctaDecOps.div, OctaDecOps.abs,
    OctaDecOps.neg, OctaDecOps.ofInt, OctaDecOps.lt, OctaDecOps.zero, OctaDecOps.one,
    OctaDecOps.two, decide_eq_true_eq]

/-- Exact arithmetic: the decoder applied to the octahedral coordinates of an integer vector `v`
    of L1 norm `c` returns `v / c` (before normalisation). -/
theorem octaVecG_exact_fixed_point (t : OctaT) (hwf : t.WF) (v : Int × Int × Int)
    (hsum : iabs v.1 + iabs v.2.1 + iabs v.2.2 = t.center) :
    @octaVecG ℚ exactOctaDecOps t.maxV (intVecToCoords t v)
      = ((v.1 : ℚ) / t.center, (v.2.1 : ℚ) / t.center, (v.2.2 : ℚ) / t.center) := by
  have hfix := decScaled_intVecToCoords t hwf v hsum
  obtain ⟨hV, _, hc1, _⟩ := hwf
  generalize intVecToCoords t v = p at hfix
  obtain ⟨v1, v2, v3⟩ := v
  obtain ⟨s, u⟩ := p
  simp only at hfix
  set c : ℚ := (t.center : ℚ) with hcdef
  have hc0 : (0:ℚ) < c := by rw [hcdef]; exact_mod_cast (by omega : (0:Int) < t.center)
  have hcne : c ≠ 0 := ne_of_gt hc0
  -- the decoder's values in terms of a = s - c, b = u - c
  set a : Int := s - t.center with ha
  set b : Int := u - t.center with hb
  have hy : ((s : ℚ) * (2 / ((t.maxV : Int) : ℚ)) - 1) = (a : ℚ) / c := by
    rw [hV, ha]; push_cast; field_simp; ring
  have hz : ((u : ℚ) * (2 / ((t.maxV : Int) : ℚ)) - 1) = (b : ℚ) / c := by
    rw [hV, hb]; push_cast; field_simp; ring
  unfold octaVecG
  simp only [OctaDecOps.add, OctaDecOps.sub, OctaDecOps.mul, OctaDecOps.div, OctaDecOps.abs,
    OctaDecOps.neg, OctaDecOps.ofInt, OctaDecOps.lt, OctaDecOps.zero, OctaDecOps.one,
    OctaDecOps.two, decide_eq_true_eq]
  rw [hy, hz]
  have habs : ∀ k : Int, |(k : ℚ) / c| = ((iabs k : Int) : ℚ) / c := by
    intro k; rw [abs_div, abs_of_pos hc0, iabs_cast]
  have hx : 1 - |(a : ℚ) / c| - |(b : ℚ) / c| = ((t.center - iabs a - iabs b : Int) : ℚ) / c := by
    rw [habs, habs]; push_cast; rw [← hcdef]; field_simp
  rw [hx]
  have hlt : ∀ k : Int, ((k : ℚ) / c < 0 ↔ k < 0) := by
    intro k
    rw [div_neg_iff]
    constructor
    · rintro (⟨_, h⟩ | ⟨h, _⟩)
      · linarith
      · exact_mod_cast h
    · intro h; exact Or.inr ⟨by exact_mod_cast h, hc0⟩
  have hneg : ∀ k : Int, -((k : ℚ) / c) = ((-k : Int) : ℚ) / c := by
    intro k; push_cast; ring
  simp only [hneg, hlt]
  unfold decScaled at hfix
  simp only [Prod.mk.injEq] at hfix
  obtain ⟨f1, f2, f3⟩ := hfix
  rw [← f1, ← f2, ← f3]
  generalize t.center - iabs a - iabs b = x
  by_cases h1 : -x < 0 <;> by_cases h2 : a < 0 <;> by_cases h3 : b < 0 <;>
    simp only [h1, h2, h3, if_true, if_false, Prod.mk.injEq] <;> push_cast <;>
    refine ⟨trivial, ?_, ?_⟩ <;> field_simp <;> ring

/-! ### the real analysis step -/

/-- `sin² θ ≤ 9/(2c²)` with `0 ≤ θ < π/2` and `c ≥ 3` gives `θ ≤ 3/c` -/
theorem angle_le_of_sin_sq (θ c : ℝ) (hc : 3 ≤ c) (h0 : 0 ≤ θ) (h1 : θ < Real.pi / 2)
    (hs : Real.sin θ ^ 2 * (2 * c ^ 2) ≤ 9) : θ ≤ 3 / c := by
  have hcos : 0 < Real.cos θ := Real.cos_pos_of_mem_Ioo ⟨by linarith [Real.pi_pos], h1⟩
  have hsin : 0 ≤ Real.sin θ := Real.sin_nonneg_of_nonneg_of_le_pi h0 (by linarith [Real.pi_pos])
  have hsc := Real.sin_sq_add_cos_sq θ
  have hc0 : 0 < c := by linarith
  refine le_trans (Real.le_tan h0 h1) ?_
  rw [Real.tan_eq_sin_div_cos, div_le_div_iff₀ hcos hc0]
  -- s·c ≤ 3·k  ⟸  s²c² ≤ 9k² = 9(1 − s²)
  have hc2 : 9 ≤ c ^ 2 := by nlinarith
  have key : (Real.sin θ * c) ^ 2 ≤ (3 * Real.cos θ) ^ 2 := by
    have hs2 : 0 ≤ Real.sin θ ^ 2 := sq_nonneg _
    nlinarith
  exact (pow_le_pow_iff_left₀ (mul_nonneg hsin hc0.le) (by positivity) two_ne_zero).mp key

/-- `center_value_` in terms of `q` -/
theorem init_center {q : Nat} {t : OctaT} (h : init q = some t) :
    2 * t.center = 2 ^ q - 2 ∧ (3 ≤ q → 3 ≤ t.center) := by
  have hwf := (init_wf h).1
  unfold init at h
  split at h
  · cases h
  · simp only [Option.some.injEq] at h
    subst h
    obtain ⟨h1, _, _, _⟩ := hwf
    dsimp only at h1 ⊢
    refine ⟨by omega, fun hq => ?_⟩
    have : (2:Int) ^ 3 ≤ 2 ^ q := pow_le_pow_right₀ (by norm_num) hq
    omega

/-- the angle `arccos (n·v / (‖n‖‖v‖))` from the rational `sin²` bound -/
theorem arccos_le_of_sin_sq (N V D c : ℝ) (hc : 3 ≤ c) (hN : 0 < N) (hV : 0 < V) (hD : 0 < D)
    (hb : (N * V - D ^ 2) * (2 * c ^ 2) ≤ 9 * (N * V)) (hcs : D ^ 2 ≤ N * V) :
    Real.arccos (D / (Real.sqrt N * Real.sqrt V)) ≤ 3 / c := by
  have hsN := Real.sqrt_pos.mpr hN
  have hsV := Real.sqrt_pos.mpr hV
  have hden : 0 < Real.sqrt N * Real.sqrt V := mul_pos hsN hsV
  have hden2 : (Real.sqrt N * Real.sqrt V) ^ 2 = N * V := by
    rw [mul_pow, Real.sq_sqrt hN.le, Real.sq_sqrt hV.le]
  set x := D / (Real.sqrt N * Real.sqrt V) with hx
  have hx0 : 0 < x := div_pos hD hden
  have hx2 : x ^ 2 = D ^ 2 / (N * V) := by rw [hx, div_pow, hden2]
  have hNV : 0 < N * V := mul_pos hN hV
  have hx1 : x ≤ 1 := by
    have : x ^ 2 ≤ 1 := by rw [hx2, div_le_one hNV]; exact hcs
    nlinarith
  have hcos : Real.cos (Real.arccos x) = x := Real.cos_arccos (by linarith) hx1
  apply angle_le_of_sin_sq _ c hc (Real.arccos_nonneg x) (Real.arccos_lt_pi_div_two.mpr hx0)
  have hs : Real.sin (Real.arccos x) ^ 2 = 1 - x ^ 2 := by
    have := Real.sin_sq_add_cos_sq (Real.arccos x)
    rw [hcos] at this; linarith
  rw [hs, hx2]
  have : (1 - D ^ 2 / (N * V)) * (2 * c ^ 2) = (N * V - D ^ 2) * (2 * c ^ 2) / (N * V) := by
    field_simp
  rw [this, div_le_iff₀ hNV]
  linarith

end Octa
end Draco
