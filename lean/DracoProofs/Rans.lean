import DracoModel.Rans
import DracoProofs.Varint
import Mathlib.Tactic.Ring
import Mathlib.Tactic.Linarith
import Mathlib.Tactic.NormNum
/-
  rANS coder: one encode step is undone by one decode step; whole-stream round trip.
-/
namespace Draco

theorem foldl_add_eq (l : List Nat) (a : Nat) : l.foldl (· + ·) a = a + l.sum := by
  induction l generalizing a with
  | nil => simp
  | cons x xs ih => simp [List.foldl_cons, ih]; omega

theorem sumNat_eq_sum (l : List Nat) : sumNat l = l.sum := by
  simp [sumNat, foldl_add_eq]

/-! ### renormalisation -/

theorem ransRenorm_of_ge (l x : Nat) (rb : Bytes) (h : l ≤ x) : ransRenorm l x rb = (x, rb) := by
  cases rb with
  | nil => simp [ransRenorm]
  | cons b rb => simp [ransRenorm]; omega

theorem ransRenorm_idem (l : Nat) (rb : Bytes) : ∀ x,
    ransRenorm l (ransRenorm l x rb).1 (ransRenorm l x rb).2 = ransRenorm l x rb := by
  induction rb with
  | nil => intro x; simp [ransRenorm]
  | cons b rb ih =>
    intro x
    by_cases h : x < l
    · simp only [ransRenorm, h, if_true]; exact ih _
    · simp only [ransRenorm, h, if_false]

/-- the decoder loop undoes the encoder loop -/
theorem ransRenorm_encRenorm (l thr : Nat) : ∀ (f x : Nat) (rb : Bytes), x < 256 * l →
    ransRenorm l (ransEncRenorm thr f x rb).1 (ransEncRenorm thr f x rb).2 = ransRenorm l x rb := by
  intro f
  induction f with
  | zero => intro x rb _; simp [ransEncRenorm]
  | succ f ih =>
    intro x rb hx
    by_cases h : x ≥ thr
    · simp only [ransEncRenorm, h, if_true]
      rw [ih (x / 256) _ (by omega)]
      have h1 : x / 256 < l := by omega
      simp only [ransRenorm, h1, if_true]
      congr 1; omega
    · simp only [ransEncRenorm, h, if_false]

theorem ransEncRenorm_lt (thr : Nat) : ∀ (f x : Nat) (rb : Bytes), x < thr * 256 ^ f →
    (ransEncRenorm thr f x rb).1 < thr := by
  intro f
  induction f with
  | zero => intro x rb h; simpa [ransEncRenorm] using h
  | succ f ih =>
    intro x rb hx
    by_cases h : x ≥ thr
    · simp only [ransEncRenorm, h, if_true]
      apply ih
      rw [Nat.pow_succ] at hx
      rw [Nat.div_lt_iff_lt_mul (by decide)]
      calc x < thr * (256 ^ f * 256) := hx
        _ = thr * 256 ^ f * 256 := by ring
    · simp only [ransEncRenorm, h, if_false]; omega

/-- the fuel 4 of `ransWrite` is never exhausted for a `uint32_t` state -/
theorem ransEncRenorm_fuel (p x : Nat) (rb : Bytes) (hp : 0 < p) (hx : x < 2 ^ 32) :
    (ransEncRenorm (4 * 256 * p) 4 x rb).1 < 4 * 256 * p := by
  apply ransEncRenorm_lt
  have : 4 * 256 * p * 256 ^ 4 ≥ 4 * 256 * 1 * 256 ^ 4 := by
    apply Nat.mul_le_mul_right; omega
  omega

theorem ransEncRenorm_ge (p : Nat) : ∀ (f x : Nat) (rb : Bytes), 4 * p ≤ x →
    4 * p ≤ (ransEncRenorm (4 * 256 * p) f x rb).1 := by
  intro f
  induction f with
  | zero => intro x rb h; simpa [ransEncRenorm] using h
  | succ f ih =>
    intro x rb hx
    by_cases h : x ≥ 4 * 256 * p
    · simp only [ransEncRenorm, h, if_true]
      apply ih; omega
    · simp only [ransEncRenorm, h, if_false]; exact hx

theorem ransEncRenorm_length (thr : Nat) : ∀ (f x : Nat) (rb : Bytes),
    (ransEncRenorm thr f x rb).2.length ≤ rb.length + f := by
  intro f
  induction f with
  | zero => intro x rb; simp [ransEncRenorm]
  | succ f ih =>
    intro x rb
    by_cases h : x ≥ thr
    · simp only [ransEncRenorm, h, if_true]
      have := ih (x / 256) ((x % 256) :: rb)
      simp at this; omega
    · simp only [ransEncRenorm, h, if_false]; omega

/-! ### one symbol -/

/-- state invariant `l_rans_base ≤ state < l_rans_base * DRACO_ANS_IO_BASE` -/
def RansInv (pb : Nat) (st : RansSt) : Prop := ransLBase pb ≤ st.1 ∧ st.1 < 256 * ransLBase pb

theorem rans_step_arith (P p c y : Nat) (hp : 0 < p) (hc : c + p ≤ P)
    (hy1 : 4 * p ≤ y) (hy2 : y < 4 * 256 * p) :
    let x' := (y / p) * P + y % p + c
    x' / P = y / p ∧ x' % P = y % p + c ∧ 4 * P ≤ x' ∧ x' < 256 * (4 * P) := by
  intro x'
  have hP : 0 < P := by omega
  have hr : y % p + c < P := by
    have := Nat.mod_lt y hp; omega
  have hx' : x' = P * (y / p) + (y % p + c) := by
    show (y / p) * P + y % p + c = _
    ring
  have hq1 : 4 ≤ y / p := by
    rw [Nat.le_div_iff_mul_le hp]; omega
  have hq2 : y / p < 1024 := by
    rw [Nat.div_lt_iff_lt_mul hp]; omega
  refine ⟨?_, ?_, ?_, ?_⟩
  · rw [hx', Nat.mul_add_div hP, Nat.div_eq_of_lt hr]; simp
  · rw [hx', Nat.mul_add_mod, Nat.mod_eq_of_lt hr]
  · have : P * 4 ≤ P * (y / p) := Nat.mul_le_mul_left P hq1
    omega
  · have : P * (y / p) ≤ P * 1023 := Nat.mul_le_mul_left P (by omega)
    omega

theorem ransWrite_inv (pb p c : Nat) (st : RansSt) (hpb : pb ≤ 20) (hp : 0 < p)
    (hc : c + p ≤ 2 ^ pb) (hst : RansInv pb st) : RansInv pb (ransWrite pb p c st) := by
  obtain ⟨h1, h2⟩ := hst
  unfold ransLBase at h1 h2
  have hP : 2 ^ pb ≤ 2 ^ 20 := Nat.pow_le_pow_right (by decide) hpb
  have hy2 := ransEncRenorm_fuel p st.1 st.2 hp (by omega)
  have hy1 := ransEncRenorm_ge p 4 st.1 st.2 (by omega)
  have := rans_step_arith (2 ^ pb) p c _ hp hc hy1 hy2
  simp only [RansInv, ransWrite, ransLBase]
  omega

theorem ransWrite_length (pb p c : Nat) (st : RansSt) :
    (ransWrite pb p c st).2.length ≤ st.2.length + 4 := by
  simp only [ransWrite]; exact ransEncRenorm_length _ 4 _ _

/-- what the decoder needs to know about its table at symbol `s` -/
def DecTableAt (t : RansDecTable) (s p c : Nat) : Prop :=
  t.probs.getD s 0 = p ∧ t.cums.getD s 0 = c ∧ ∀ r, c ≤ r → r < c + p → t.lut.getD r 0 = s

theorem ransRead_ransWrite (pb : Nat) (t : RansDecTable) (s p c : Nat) (st : RansSt)
    (hpb : pb ≤ 20) (hp : 0 < p) (hc : c + p ≤ 2 ^ pb) (hst : RansInv pb st)
    (ht : DecTableAt t s p c) :
    let r := ransRead pb t (ransWrite pb p c st)
    r.1 = s ∧ ransRenorm (ransLBase pb) r.2.1 r.2.2 = st := by
  obtain ⟨h1, h2⟩ := hst
  have hinv' := ransWrite_inv pb p c st hpb hp hc ⟨h1, h2⟩
  unfold ransLBase at h1 h2
  have hP : 2 ^ pb ≤ 2 ^ 20 := Nat.pow_le_pow_right (by decide) hpb
  have hy2 := ransEncRenorm_fuel p st.1 st.2 hp (by omega)
  have hy1 := ransEncRenorm_ge p 4 st.1 st.2 (by omega)
  obtain ⟨a1, a2, a3, a4⟩ := rans_step_arith (2 ^ pb) p c _ hp hc hy1 hy2
  obtain ⟨tp, tc, tl⟩ := ht
  intro r
  have hren : ransRenorm (ransLBase pb) (ransWrite pb p c st).1 (ransWrite pb p c st).2
      = ((ransWrite pb p c st).1, (ransWrite pb p c st).2) :=
    ransRenorm_of_ge _ _ _ hinv'.1
  have hsym : t.lut.getD ((ransWrite pb p c st).1 % 2 ^ pb) 0 = s := by
    apply tl
    · simp only [ransWrite]; rw [a2]; omega
    · simp only [ransWrite]; rw [a2]
      have := Nat.mod_lt (ransEncRenorm (4 * 256 * p) 4 st.1 st.2).1 hp
      omega
  have hr1 : r.1 = s := by
    simp only [r, ransRead, hren, hsym]
  refine ⟨hr1, ?_⟩
  have hr2 : r.2 = ((ransEncRenorm (4 * 256 * p) 4 st.1 st.2).1,
      (ransEncRenorm (4 * 256 * p) 4 st.1 st.2).2) := by
    simp only [r, ransRead, hren, hsym, tp, tc]
    simp only [ransWrite] at a1 a2 ⊢
    rw [a1, a2]
    have hdm := Nat.div_add_mod (ransEncRenorm (4 * 256 * p) 4 st.1 st.2).1 p
    have : (ransEncRenorm (4 * 256 * p) 4 st.1 st.2).1 / p * p
        = p * ((ransEncRenorm (4 * 256 * p) 4 st.1 st.2).1 / p) := Nat.mul_comm _ _
    congr 1
    have hlt : (ransEncRenorm (4 * 256 * p) 4 st.1 st.2).1 < 2 ^ 32 := by
      have : 4 * 256 * p ≤ 4 * 256 * 2 ^ 20 := by omega
      omega
    omega
  rw [hr2]
  show ransRenorm (ransLBase pb) (ransEncRenorm (4 * 256 * p) 4 st.1 st.2).1
      (ransEncRenorm (4 * 256 * p) 4 st.1 st.2).2 = st
  rw [ransRenorm_encRenorm _ _ 4 _ _ (by unfold ransLBase; omega)]
  rw [ransRenorm_of_ge _ _ _ (by unfold ransLBase; omega)]

/-! ### whole stream -/

theorem ransRead_renorm (pb : Nat) (t : RansDecTable) (st : RansSt) :
    ransRead pb t (ransRenorm (ransLBase pb) st.1 st.2) = ransRead pb t st := by
  simp only [ransRead, ransRenorm_idem]

theorem ransReadN_renorm (pb : Nat) (t : RansDecTable) (n : Nat) (st : RansSt) :
    ransReadN pb t n (ransRenorm (ransLBase pb) st.1 st.2) = ransReadN pb t n st := by
  cases n with
  | zero => simp [ransReadN]
  | succ n => simp only [ransReadN, ransRead_renorm]

theorem ransReadNTR_eq (pb : Nat) (t : RansDecTable) : ∀ (n : Nat) (st : RansSt) (acc : List Nat),
    ransReadNTR pb t n st acc = acc.reverse ++ ransReadN pb t n st := by
  intro n
  induction n with
  | zero => intro st acc; simp [ransReadNTR, ransReadN]
  | succ n ih => intro st acc; simp [ransReadNTR, ransReadN, ih]

/-- The encoder table and the decoder table describe the same valid distribution on the
    symbols of `l`. -/
def TablesAgree (pb : Nat) (te : RansEncTable) (td : RansDecTable) (s : Nat) : Prop :=
  0 < te.probs.getD s 0 ∧ te.cums.getD s 0 + te.probs.getD s 0 ≤ 2 ^ pb ∧
    DecTableAt td s (te.probs.getD s 0) (te.cums.getD s 0)

theorem ransEncLoop_spec (pb : Nat) (te : RansEncTable) (td : RansDecTable) (hpb : pb ≤ 20) :
    ∀ (l : List Nat) (st : RansSt), RansInv pb st → (∀ s ∈ l, TablesAgree pb te td s) →
      ∃ st', ransEncLoop pb te l st = some st' ∧ RansInv pb st' ∧
        st'.2.length ≤ st.2.length + 4 * l.length ∧
        ∀ m, ransReadN pb td (l.length + m) st' = l.reverse ++ ransReadN pb td m st := by
  intro l
  induction l with
  | nil => intro st hst _; exact ⟨st, by simp [ransEncLoop], hst, by simp, by simp⟩
  | cons s rest ih =>
    intro st hst hall
    obtain ⟨hp, hc, ht⟩ := hall s (by simp)
    have hinv1 := ransWrite_inv pb _ _ st hpb hp hc hst
    obtain ⟨st', hloop, hinv', hlen, hread⟩ :=
      ih (ransWrite pb (te.probs.getD s 0) (te.cums.getD s 0) st) hinv1
        (fun s' hs' => hall s' (by simp [hs']))
    refine ⟨st', ?_, hinv', ?_, ?_⟩
    · have : ¬ te.probs.getD s 0 = 0 := by omega
      simp only [ransEncLoop, this, if_false]; exact hloop
    · have := ransWrite_length pb (te.probs.getD s 0) (te.cums.getD s 0) st
      simp only [List.length_cons]; omega
    · intro m
      obtain ⟨hs, hren⟩ := ransRead_ransWrite pb td s _ _ st hpb hp hc hst ht
      have h := hread (m + 1)
      have e : (s :: rest).length + m = rest.length + (m + 1) := by simp; omega
      rw [e, h]
      simp only [ransReadN, List.reverse_cons, List.append_assoc, List.singleton_append]
      rw [hs]
      congr 2
      rw [← ransReadN_renorm, hren]

/-! ### tables -/

/-- `cum_prob` as a list -/
def cumList : List Nat → Nat → List Nat
  | [], _ => []
  | p :: ps, c => c :: cumList ps (c + p)

theorem cumArrayAux_toList : ∀ (ps : List Nat) (c : Nat) (acc : Array Nat),
    (cumArrayAux ps c acc).toList = acc.toList ++ cumList ps c := by
  intro ps
  induction ps with
  | nil => intro c acc; simp [cumArrayAux, cumList]
  | cons p ps ih => intro c acc; simp [cumArrayAux, cumList, ih]

theorem cumList_getD : ∀ (ps : List Nat) (c s : Nat), s < ps.length →
    (cumList ps c).getD s 0 = c + (ps.take s).sum := by
  intro ps
  induction ps with
  | nil => intro c s h; simp at h
  | cons p ps ih =>
    intro c s h
    cases s with
    | zero => simp [cumList]
    | succ s =>
      simp only [cumList, List.getD_cons_succ, List.take_succ_cons, List.sum_cons]
      rw [ih (c + p) s (by simpa using h)]; omega

theorem array_getD_toList (a : Array Nat) (i d : Nat) : a.getD i d = a.toList.getD i d := by
  simp [Array.getD, List.getD]
  split <;> simp_all

theorem cumArray_getD (ps : List Nat) (s : Nat) (h : s < ps.length) :
    (cumArray ps).getD s 0 = (ps.take s).sum := by
  rw [array_getD_toList, cumArray, cumArrayAux_toList]
  have := cumList_getD ps 0 s h
  simpa using this

def lutList : List Nat → Nat → List Nat
  | [], _ => []
  | p :: ps, i => List.replicate p i ++ lutList ps (i + 1)

theorem lutPush_toList : ∀ (p i : Nat) (acc : Array Nat),
    (lutPush acc p i).toList = acc.toList ++ List.replicate p i := by
  intro p
  induction p with
  | zero => intro i acc; simp [lutPush]
  | succ p ih =>
    intro i acc
    simp [lutPush, ih, List.replicate_succ]

theorem lutAux_toList : ∀ (ps : List Nat) (i : Nat) (acc : Array Nat),
    (lutAux ps i acc).toList = acc.toList ++ lutList ps i := by
  intro ps
  induction ps with
  | nil => intro i acc; simp [lutAux, lutList]
  | cons p ps ih => intro i acc; simp [lutAux, lutList, ih, lutPush_toList]

theorem lutList_getD : ∀ (ps : List Nat) (i s r : Nat), s < ps.length →
    (ps.take s).sum ≤ r → r < (ps.take s).sum + ps.getD s 0 →
    (lutList ps i).getD r 0 = i + s := by
  intro ps
  induction ps with
  | nil => intro i s r h; simp at h
  | cons p ps ih =>
    intro i s r h h1 h2
    cases s with
    | zero =>
      simp at h1 h2
      simp only [lutList, List.getD_eq_getElem?_getD]
      rw [List.getElem?_append_left (by simpa using h2)]
      simp [h2]
    | succ s =>
      simp only [List.take_succ_cons, List.sum_cons, List.getD_cons_succ] at h1 h2
      simp only [lutList, List.getD_eq_getElem?_getD]
      rw [List.getElem?_append_right (by simp; omega)]
      have := ih (i + 1) s (r - p) (by simpa using h) (by omega) (by omega)
      simp only [List.getD_eq_getElem?_getD] at this
      simp only [List.length_replicate]
      rw [this]; omega

theorem take_sum_add_le : ∀ (ps : List Nat) (s : Nat),
    (ps.take s).sum + ps.getD s 0 ≤ ps.sum := by
  intro ps
  induction ps with
  | nil => intro s; simp
  | cons p ps ih =>
    intro s
    cases s with
    | zero => simp
    | succ s =>
      simp only [List.take_succ_cons, List.sum_cons, List.getD_cons_succ]
      have := ih s; omega

theorem getD_pos_lt_length (ps : List Nat) (s : Nat) (h : 0 < ps.getD s 0) : s < ps.length := by
  by_contra hc
  simp [List.getD_eq_getElem?_getD, List.getElem?_eq_none (Nat.le_of_not_lt hc)] at h

theorem tablesAgree_of_valid (pb : Nat) (probs : List Nat) (t : RansDecTable)
    (hb : ransBuildLookup pb probs = some t) (s : Nat) (hs : 0 < probs.getD s 0) :
    TablesAgree pb (RansEncTable.ofProbs probs) t s := by
  have hlen := getD_pos_lt_length probs s hs
  unfold ransBuildLookup at hb
  split at hb
  · simp at hb
  · rename_i hsum
    rw [sumNat_eq_sum] at hsum
    have hsum : probs.sum = 2 ^ pb := by simpa using hsum
    simp only [Option.some.injEq] at hb
    subst hb
    have e1 : (RansEncTable.ofProbs probs).probs.getD s 0 = probs.getD s 0 := by
      simp [RansEncTable.ofProbs]
    have e2 : (RansEncTable.ofProbs probs).cums.getD s 0 = (probs.take s).sum := by
      simp only [RansEncTable.ofProbs]; exact cumArray_getD probs s hlen
    refine ⟨by rw [e1]; exact hs, ?_, ?_, ?_, ?_⟩
    · rw [e1, e2, ← hsum]; exact take_sum_add_le probs s
    · rw [e1]; simp
    · rw [e2]; exact cumArray_getD probs s hlen
    · intro r h1 h2
      rw [e1] at h2; rw [e2] at h1 h2
      rw [array_getD_toList, lutAux_toList]
      simpa using lutList_getD probs 0 s r hlen h1 h2

/-! ### write_end / read_init -/

theorem le32_split (v : Nat) (hv : v < 2 ^ 32) :
    v / 16777216 % 256 * 16777216 + v / 65536 % 256 * 65536 + v / 256 % 256 * 256 + v % 256 = v := by
  omega

theorem ransReadInit_writeEnd (pb : Nat) (before : Bytes) (st : RansSt) (hpb : pb ≤ 20)
    (hst : RansInv pb st) :
    ransReadInit pb before (ransWriteEnd pb st).reverse = some st := by
  obtain ⟨x, rb⟩ := st
  obtain ⟨h1, h2⟩ := hst
  simp only [ransLBase] at h1 h2
  have hP : 2 ^ pb ≤ 2 ^ 20 := Nat.pow_le_pow_right (by decide) hpb
  have hP0 : 0 < 2 ^ pb := Nat.two_pow_pos pb
  generalize hPP : 2 ^ pb = P at *
  obtain ⟨s, rfl⟩ : ∃ s, x = 4 * P + s := ⟨x - 4 * P, by omega⟩
  have hs : (4 * P + s + 2 ^ 32 - 4 * P) % 2 ^ 32 = s := by omega
  simp only [ransWriteEnd, ransLBase, hPP, hs]
  by_cases c1 : s < 2 ^ 6
  · simp only [c1, if_true, List.reverse_reverse, ransReadInit, ransLBase, hPP]
    have e0 : s / 64 = 0 := by omega
    simp only [e0, if_true]
    have e1 : s % 64 + 4 * P = 4 * P + s := by omega
    have e2 : ¬ 4 * P + s ≥ 4 * P * 256 := by omega
    simp only [e1, e2, if_false]
  · by_cases c2 : s < 2 ^ 14
    · simp only [c1, c2, if_true, if_false, List.reverse_reverse, ransReadInit, ransLBase, hPP]
      have e0 : (2 ^ 14 + s) / 256 % 256 / 64 = 1 := by omega
      simp only [e0]
      have e1 : ((2 ^ 14 + s) / 256 % 256 * 256 + (2 ^ 14 + s) % 256) % 2 ^ 14
          + 4 * P = 4 * P + s := by omega
      have e2 : ¬ 4 * P + s ≥ 4 * P * 256 := by omega
      simp only [e1, e2, if_false, if_true, Nat.one_ne_zero]
    · by_cases c3 : s < 2 ^ 22
      · simp only [c1, c2, c3, if_true, if_false, List.reverse_reverse, ransReadInit, ransLBase, hPP]
        have e0 : (2 * 2 ^ 22 + s) / 65536 % 256 / 64 = 2 := by omega
        simp only [e0]
        have e1 : ((2 * 2 ^ 22 + s) / 65536 % 256 * 65536
            + (2 * 2 ^ 22 + s) / 256 % 256 * 256
            + (2 * 2 ^ 22 + s) % 256) % 2 ^ 22 + 4 * P = 4 * P + s := by omega
        have e2 : ¬ 4 * P + s ≥ 4 * P * 256 := by omega
        simp only [e1, e2, if_false, if_true, OfNat.ofNat_ne_zero, OfNat.ofNat_ne_one]
      · have c4 : s < 2 ^ 30 := by omega
        simp only [c1, c2, c3, c4, if_true, if_false, List.reverse_reverse, ransReadInit, ransLBase,
          hPP]
        have e0 : (3 * 2 ^ 30 + s) / 16777216 % 256 / 64 = 3 := by omega
        simp only [e0]
        have e1 : ((3 * 2 ^ 30 + s) / 16777216 % 256 * 16777216
            + (3 * 2 ^ 30 + s) / 65536 % 256 * 65536
            + (3 * 2 ^ 30 + s) / 256 % 256 * 256
            + (3 * 2 ^ 30 + s) % 256) % 2 ^ 30 + 4 * P = 4 * P + s := by
          rw [le32_split _ (by omega)]; omega
        have e2 : ¬ 4 * P + s ≥ 4 * P * 256 := by omega
        simp only [List.cons_append, e1, e2, if_false, if_true, List.drop_succ_cons, List.drop_zero,
          OfNat.ofNat_ne_zero, OfNat.ofNat_ne_one]
        simp

theorem ransWriteEnd_length (pb : Nat) (st : RansSt) :
    (ransWriteEnd pb st).length ≤ st.2.length + 4 := by
  simp only [ransWriteEnd]
  split
  · simp
  · split
    · simp
    · split
      · simp
      · split <;> simp

theorem ransWriteInit_inv (pb : Nat) : RansInv pb (ransWriteInit pb) := by
  simp only [RansInv, ransWriteInit, ransLBase]
  have : 0 < 2 ^ pb := Nat.two_pow_pos pb
  omega

/-! ### the stream round trip -/

theorem decVarint64_encVarint (v : Nat) (hv : v < 2 ^ 64) (rest : Bytes) :
    decVarint 64 (encVarint v ++ rest) = some (v, rest) := by
  have h128 : (2:Nat) ^ 64 < 128 ^ 10 := by norm_num
  have := decVarintAux_enc 64 rest 10 10 v (by omega) (by omega) (by omega) hv
  have e : varintMaxDepth 64 = 10 := by decide
  simp only [decVarint, encVarint, e]
  exact this


theorem ransStartDecoding_enc (pb : Nat) (before out rest : Bytes) (st : RansSt)
    (hol : out.length < 2 ^ 64) (hinit : ∀ b, ransReadInit pb b out = some st) :
    ransStartDecoding pb before (encVarint out.length ++ out ++ rest) = some (st, rest) := by
  have h1 : decVarint 64 (encVarint out.length ++ out ++ rest) = some (out.length, out ++ rest) := by
    rw [List.append_assoc]; exact decVarint64_encVarint _ hol _
  have hnot : ¬ out.length > (out ++ rest).length := by simp
  simp only [ransStartDecoding, h1, hnot, if_false, List.take_left', List.drop_left', hinit]

theorem decodeRans_of_start (pb : Nat) (t : RansDecTable) (before bs rest : Bytes) (n : Nat)
    (st : RansSt) (h : ransStartDecoding pb before bs = some (st, rest)) :
    decodeRans pb t before n bs = some (ransReadN pb t n st, rest) := by
  simp only [decodeRans, h, ransReadNTR_eq, List.reverse_nil, List.nil_append]

/-- `encodeRans` succeeds when all symbols have non zero probability -/
theorem rans_roundtrip_aux (pb : Nat) (hpb : pb ≤ 20) (probs syms : List Nat) (t : RansDecTable)
    (hb : ransBuildLookup pb probs = some t)
    (hsyms : ∀ s ∈ syms, 0 < probs.getD s 0) (hlen : syms.length < 2 ^ 60) :
    ∃ bs, encodeRans pb probs syms = some bs ∧ ∀ before rest,
      decodeRans pb t before syms.length (bs ++ rest) = some (syms, rest) := by
  have hagree : ∀ s ∈ syms.reverse, TablesAgree pb (RansEncTable.ofProbs probs) t s := by
    intro s hs
    exact tablesAgree_of_valid pb probs t hb s (hsyms s (by simpa using hs))
  obtain ⟨st', hloop, hinv', hlen', hread⟩ :=
    ransEncLoop_spec pb (RansEncTable.ofProbs probs) t hpb syms.reverse (ransWriteInit pb)
      (ransWriteInit_inv pb) hagree
  have henc : encodeRans pb probs syms = some (encVarint (ransWriteEnd pb st').reverse.length
      ++ (ransWriteEnd pb st').reverse) := by simp only [encodeRans, hloop]
  refine ⟨_, henc, ?_⟩
  intro before rest
  have hwl := ransWriteEnd_length pb st'
  have hol : (ransWriteEnd pb st').reverse.length < 2 ^ 64 := by
    simp only [List.length_reverse]
    simp only [ransWriteInit, List.length_nil, List.length_reverse] at hlen'
    omega
  have hr := hread 0
  simp only [List.length_reverse, Nat.add_zero, List.reverse_reverse, ransReadN,
    List.append_nil] at hr
  have hinit : ∀ b, ransReadInit pb b (ransWriteEnd pb st').reverse = some st' :=
    fun b => ransReadInit_writeEnd pb b st' hpb hinv'
  have hstart := ransStartDecoding_enc pb before _ rest st' hol hinit
  rw [decodeRans_of_start pb t before _ rest syms.length st' hstart, hr]

theorem ransBuildLookup_of_sum (pb : Nat) (probs : List Nat) (h : probs.sum = 2 ^ pb) :
    ∃ t, ransBuildLookup pb probs = some t := by
  simp [ransBuildLookup, sumNat_eq_sum, h]

end Draco
