import DracoProofs.CleanupValid
import DracoProofs.C14Multiset
/-
  DracoProofs.C14Cleanup — the clauses the C14 check demands of `MeshCleanup::Cleanup`
  (`C14.verifyCleanup`, all 16 option sets) hold of the model's result, and the clean-up is
  idempotent.
-/
namespace Draco
namespace C14

open Cleanup

theorem forall₂_mem_left {α β : Type} {R : α → β → Prop} {l1 : List α} {l2 : List β} (h : List.Forall₂ R l1 l2)
    {a : α} (ha : a ∈ l1) : ∃ b ∈ l2, R a b := by
  induction h with
  | nil => cases ha
  | cons hab _ ih =>
    rcases List.mem_cons.1 ha with e | e
    · subst e; exact ⟨_, List.mem_cons_self, hab⟩
    · obtain ⟨b, hb, hr⟩ := ih e
      exact ⟨b, List.mem_cons_of_mem _ hb, hr⟩

theorem forall₂_mem_right {α β : Type} {R : α → β → Prop} {l1 : List α} {l2 : List β} (h : List.Forall₂ R l1 l2)
    {b : β} (hb : b ∈ l2) : ∃ a ∈ l1, R a b := by
  induction h with
  | nil => cases hb
  | cons hab _ ih =>
    rcases List.mem_cons.1 hb with e | e
    · subst e; exact ⟨_, List.mem_cons_self, hab⟩
    · obtain ⟨a, ha, hr⟩ := ih e
      exact ⟨a, List.mem_cons_of_mem _ ha, hr⟩

/-! ### faces: degenerate test, stored faces -/

theorem isDegenerate_iff (pos : Attribute) (f : Face) : isDegenerate pos f = true ↔
    (pos.mappedIndex f.1 = pos.mappedIndex f.2.1 ∨ pos.mappedIndex f.1 = pos.mappedIndex f.2.2 ∨
      pos.mappedIndex f.2.1 = pos.mappedIndex f.2.2) := by
  simp [isDegenerate, or_assoc]

theorem isDegenerate_rotL (pos : Attribute) (f : Face) : isDegenerate pos (rotL f) = isDegenerate pos f := by
  rw [Bool.eq_iff_iff, isDegenerate_iff, isDegenerate_iff]
  simp only [rotL]
  omega

theorem isDegenerate_canon (pos : Attribute) (f : Face) : isDegenerate pos (canonFace f) = isDegenerate pos f := by
  rcases (canonFace_cases f).1 with e | e | e <;> rw [e]
  · exact isDegenerate_rotL pos f
  · rw [isDegenerate_rotL, isDegenerate_rotL]

/-- the faces after the optional `RemoveDegeneratedFaces` -/
def afterDeg (o : CleanupOpts) (pos : Attribute) (fs : List Face) : List Face :=
  if o.removeDegeneratedFaces then fs.filter (fun f => !isDegenerate pos f) else fs

theorem survivors_eq (o : CleanupOpts) (pos : Attribute) (fs : List Face) :
    survivors o pos fs = if o.removeDuplicateFaces then keptOrig [] (afterDeg o pos fs) else afterDeg o pos fs := rfl

theorem storedFaces_eq (o : CleanupOpts) (pos : Attribute) (fs : List Face) :
    storedFaces o pos fs = if o.removeDuplicateFaces then dupLoop [] false (afterDeg o pos fs) else afterDeg o pos fs := rfl

theorem afterDeg_sublist (o : CleanupOpts) (pos : Attribute) (fs : List Face) : (afterDeg o pos fs).Sublist fs := by
  unfold afterDeg
  split
  · exact List.filter_sublist
  · exact List.Sublist.refl _

theorem survivors_sublist (o : CleanupOpts) (pos : Attribute) (fs : List Face) : (survivors o pos fs).Sublist fs := by
  rw [survivors_eq]
  split
  · exact (keptOrig_sublist _ _).trans (afterDeg_sublist o pos fs)
  · exact afterDeg_sublist o pos fs

theorem afterDeg_nondeg (o : CleanupOpts) (pos : Attribute) (fs : List Face) (hd : o.removeDegeneratedFaces = true) :
    ∀ f ∈ afterDeg o pos fs, isDegenerate pos f = false := by
  intro f hf
  simp only [afterDeg, hd, if_true, List.mem_filter, Bool.not_eq_true'] at hf
  exact hf.2

/-- S3: with `remove_degenerated_faces` no stored face has a repeated position index -/
theorem storedFaces_nondeg (o : CleanupOpts) (pos : Attribute) (fs : List Face) (hd : o.removeDegeneratedFaces = true) :
    ∀ f ∈ storedFaces o pos fs, isDegenerate pos f = false := by
  have h := storedFaces_survivors o pos fs
  have hs : ∀ f ∈ survivors o pos fs, isDegenerate pos f = false := by
    intro f hf
    rw [survivors_eq] at hf
    split at hf
    · exact afterDeg_nondeg o pos fs hd f ((keptOrig_sublist _ _).subset hf)
    · exact afterDeg_nondeg o pos fs hd f hf
  intro f' hf'
  obtain ⟨f, hf, hr⟩ := forall₂_mem_left h hf'
  rcases hr with e | e <;> rw [e]
  · exact hs f hf
  · rw [isDegenerate_canon]; exact hs f hf

theorem forall₂_map_eq {α β γ : Type} {R : α → β → Prop} {f : α → γ} {g : β → γ} {l1 : List α} {l2 : List β}
    (h : List.Forall₂ R l1 l2) (hfg : ∀ a b, R a b → f a = g b) : l1.map f = l2.map g := by
  induction h with
  | nil => rfl
  | cons hab _ ih => simp only [List.map_cons, ih, hfg _ _ hab]

/-- S4: with `remove_duplicate_faces` the stored faces have pairwise different canonical forms -/
theorem storedFaces_canon_nodup (o : CleanupOpts) (pos : Attribute) (fs : List Face) (hd : o.removeDuplicateFaces = true) :
    ((storedFaces o pos fs).map canonFace).Nodup := by
  rw [storedFaces_eq, if_pos hd]
  have h := dupLoop_forall₂ [] false (afterDeg o pos fs)
  have e : (dupLoop [] false (afterDeg o pos fs)).map canonFace = (keptOrig [] (afterDeg o pos fs)).map canonFace := by
    apply forall₂_map_eq h
    intro a b hab
    rcases hab with e | e <;> rw [e]
    exact canonFace_idem b
  rw [e, keptOrig_canon]
  exact (firstOccFrom_nodup _ _).1

theorem nodup_map_of {α β γ : Type} {f : α → β} {g : α → γ} {l : List α} (h : (l.map f).Nodup)
    (hfg : ∀ x ∈ l, ∀ y ∈ l, g x = g y → f x = f y) : (l.map g).Nodup := by
  unfold List.Nodup at h ⊢
  rw [List.pairwise_map] at h ⊢
  exact h.imp_of_mem (fun hx hy hne heq => hne (hfg _ hx _ hy heq))

/-! ### `minRot` -/

theorem minRot_cases (f : Face) : minRot f = f ∨ minRot f = rotL f ∨ minRot f = rotL (rotL f) := by
  obtain ⟨a, b, c⟩ := f
  simp only [minRot, rotL]
  split <;> split <;> simp

def Nd (f : Face) : Prop := f.1 ≠ f.2.1 ∧ f.1 ≠ f.2.2 ∧ f.2.1 ≠ f.2.2

theorem nd_iff (f : Face) : (!Strips.isDegenerateTriangle f) = true ↔ Nd f := by
  simp [Strips.isDegenerateTriangle, Nd, and_assoc]

theorem nd_rotL {f : Face} (h : Nd f) : Nd (rotL f) := by
  obtain ⟨h1, h2, h3⟩ := h
  exact ⟨h3, fun e => h1 e.symm, fun e => h2 e.symm⟩

theorem canonFace_minRot {f : Face} (h : Nd f) : canonFace (minRot f) = canonFace f := by
  rcases minRot_cases f with e | e | e <;> rw [e]
  · exact canonFace_rotL h
  · rw [canonFace_rotL (nd_rotL h), canonFace_rotL h]

/-- faces with three different point ids and pairwise different canonical forms are pairwise
    different up to rotation, and a fortiori literally -/
theorem noDup_of_canon_nodup {fs : List Face} (h : (fs.map canonFace).Nodup) :
    fs.Nodup ∧ ((fs.filter (!Strips.isDegenerateTriangle ·)).map minRot).Nodup := by
  refine ⟨by simpa using nodup_map_of (g := id) h (fun x _ y _ e => by simp at e; rw [e]), ?_⟩
  have hsub : ((fs.filter (!Strips.isDegenerateTriangle ·)).map canonFace).Nodup :=
    h.sublist (List.filter_sublist.map _)
  apply nodup_map_of hsub
  intro x hx y hy hxy
  have hx' := (nd_iff x).1 (List.mem_filter.1 hx).2
  have hy' := (nd_iff y).1 (List.mem_filter.1 hy).2
  rw [← canonFace_minRot hx', ← canonFace_minRot hy', hxy]

/-! ### counting the instances of a class of triangles -/

/-- the face describes a triangle of the class of `c` -/
def inClass (g : Geometry) (c : RTri) (f : Face) : Bool := (RTri.mk (g.triangleOf f) == c)

theorem count_tris (g : Geometry) (fs : List Face) (c : RTri) :
    (rtris (fs.map g.triangleOf)).count c = fs.countP (inClass g c) := by
  unfold rtris List.count inClass
  rw [List.countP_map, List.countP_map]
  rfl

theorem countP_split {α : Type} (p q : α → Bool) (l : List α) :
    l.countP p = l.countP (fun a => p a && q a) + l.countP (fun a => p a && !q a) := by
  induction l with
  | nil => rfl
  | cons a l ih =>
    simp only [List.countP_cons, ih]
    cases p a <;> cases q a <;> simp <;> omega

theorem inClass_of_canon (g : Geometry) (c : RTri) {f' f : Face} (h : canonFace f' = canonFace f) :
    inClass g c f' = inClass g c f := by
  unfold inClass
  apply rtri_beq_congr
  show TriRot (g.triangleOf f') (g.triangleOf f)
  have h1 := triRot_symm (triangleOf_canon g f')
  rw [h] at h1
  exact triRot_trans h1 (triangleOf_canon g f)

theorem keptOrig_rep (seen fs : List Face) {f : Face} (hf : f ∈ fs) (hn : canonFace f ∉ seen) :
    ∃ f' ∈ keptOrig seen fs, canonFace f' = canonFace f := by
  have : canonFace f ∈ firstOccFrom seen (fs.map canonFace) :=
    (firstOccFrom_mem _ _ _).2 ⟨List.mem_map.2 ⟨f, hf, rfl⟩, hn⟩
  rw [← keptOrig_canon] at this
  obtain ⟨f', hf', e⟩ := List.mem_map.1 this
  exact ⟨f', hf', e⟩

/-- every missing instance of a class is a documented removal -/
theorem removals_counted (o : CleanupOpts) (pos : Attribute) (g : Geometry) (fs : List Face) (c : RTri) :
    (survivors o pos fs).countP (inClass g c) ≥ fs.countP (inClass g c) ∨
    (o.removeDegeneratedFaces = true ∧
      fs.countP (inClass g c) - (survivors o pos fs).countP (inClass g c) ≤
        fs.countP (fun f => isDegenerate pos f && inClass g c f)) ∨
    (o.removeDuplicateFaces = true ∧ (survivors o pos fs).countP (inClass g c) ≥ 1) := by
  -- instances after the degenerate-face step
  have hd : fs.countP (fun f => isDegenerate pos f && inClass g c f) =
      fs.countP (fun f => inClass g c f && isDegenerate pos f) := by
    apply List.countP_congr
    intro f _
    simp [Bool.and_comm]
  have hsplit := countP_split (inClass g c) (isDegenerate pos) fs
  have ha : (afterDeg o pos fs).countP (inClass g c) =
      if o.removeDegeneratedFaces then fs.countP (fun f => inClass g c f && !isDegenerate pos f)
      else fs.countP (inClass g c) := by
    unfold afterDeg
    split
    · rw [List.countP_filter]
    · rfl
  rw [survivors_eq]
  cases hdup : o.removeDuplicateFaces with
  | false =>
    simp only [Bool.false_eq_true, if_false]
    cases hdeg : o.removeDegeneratedFaces with
    | false =>
      left
      simp [ha, hdeg]
    | true =>
      right; left
      refine ⟨rfl, ?_⟩
      simp only [ha, hdeg, if_true]
      omega
  | true =>
    simp only [if_true]
    by_cases hpos : 0 < (afterDeg o pos fs).countP (inClass g c)
    · right; right
      refine ⟨trivial, ?_⟩
      obtain ⟨f, hf, hp⟩ := List.countP_pos_iff.1 hpos
      obtain ⟨f', hf', e⟩ := keptOrig_rep [] _ hf (by simp)
      exact List.countP_pos_iff.2 ⟨f', hf', by rw [inClass_of_canon g c e]; exact hp⟩
    · have h0 : (afterDeg o pos fs).countP (inClass g c) = 0 := by omega
      have hk : (keptOrig [] (afterDeg o pos fs)).countP (inClass g c) = 0 := by
        have := (keptOrig_sublist [] (afterDeg o pos fs)).countP_le (p := inClass g c)
        omega
      cases hdeg : o.removeDegeneratedFaces with
      | false =>
        left
        rw [ha, hdeg] at h0
        simp only [Bool.false_eq_true, if_false] at h0
        omega
      | true =>
        right; left
        refine ⟨rfl, ?_⟩
        rw [ha, hdeg] at h0
        simp only [if_true] at h0
        omega

/-! ### the renumbering of `RemoveUnusedAttributes` is strictly increasing -/

theorem rank_mono (m : List Bool) {i j : Nat} (h : i ≤ j) : rank m i ≤ rank m j := by
  induction m generalizing i j with
  | nil => simp [rank]
  | cons b m ih =>
    cases i with
    | zero => simp [rank]
    | succ i =>
      cases j with
      | zero => omega
      | succ j =>
        simp only [rank]
        have := ih (i := i) (j := j) (by omega)
        omega

theorem rank_lt (m : List Bool) {i j : Nat} (h : i < j) (hi : m[i]? = some true) : rank m i < rank m j := by
  induction m generalizing i j with
  | nil => simp at hi
  | cons b m ih =>
    cases j with
    | zero => omega
    | succ j =>
      cases i with
      | zero =>
        simp at hi
        subst hi
        simp only [rank, if_true]
        omega
      | succ i =>
        simp only [rank]
        simp at hi
        have := ih (i := i) (j := j) (by omega) hi
        omega

theorem renum_mem {n nNew : Nat} {pc : Bool} {kept : List Nat} {newId : Nat → Nat} {P : Nat → Prop}
    (R : Renum n nNew pc kept newId P) {p : Nat} (hp : P p) : p ∈ kept :=
  List.mem_of_getElem? (R.get p hp)

/-- the new point ids of two points we care about compare like the old ones -/
theorem renum_lt {n nNew : Nat} {pc : Bool} {kept : List Nat} {newId : Nat → Nat} {P : Nat → Prop}
    (R : Renum n nNew pc kept newId P) {p q : Nat} (hp : P p) (hq : P q) : newId p < newId q ↔ p < q := by
  have hmark : ∀ x, P x → (marks n kept)[x]? = some true := by
    intro x hx
    rw [marks_get]
    exact ⟨R.lt x (renum_mem R hx), renum_mem R hx⟩
  rw [R.rk n (Nat.le_refl _) p hp, R.rk n (Nat.le_refl _) q hq]
  constructor
  · intro h
    by_cases hpq : p < q
    · exact hpq
    · have := rank_mono (marks n kept) (i := q) (j := p) (by omega)
      omega
  · intro h
    exact rank_lt _ h (hmark p hp)

theorem renum_inj {n nNew : Nat} {pc : Bool} {kept : List Nat} {newId : Nat → Nat} {P : Nat → Prop}
    (R : Renum n nNew pc kept newId P) {p q : Nat} (hp : P p) (hq : P q) : newId p = newId q ↔ p = q := by
  have h1 := renum_lt R hp hq
  have h2 := renum_lt R hq hp
  constructor
  · intro h; omega
  · intro h; rw [h]

/-! ### `cleanAtt` keeps the descriptor and the (in)equalities of value indices -/

theorem cleanAtt_desc (nOrig nNew : Nat) (pc : Bool) (kept : List Nat) (a : Attribute) :
    desc (cleanAtt nOrig nNew pc kept a) = desc a := by
  unfold cleanAtt
  simp only
  split
  · split <;> split <;> rfl
  · rfl

theorem rank_inj (m : List Bool) {i j : Nat} (hi : m[i]? = some true) (hj : m[j]? = some true) :
    rank m i = rank m j ↔ i = j := by
  constructor
  · intro h
    by_cases h1 : i < j
    · have := rank_lt m h1 hi; omega
    · by_cases h2 : j < i
      · have := rank_lt m h2 hj; omega
      · omega
  · intro h; rw [h]

/-- the explicit-map branch of `cleanAtt`: the new value index of a point we care about -/
theorem cleanAtt_explicit_index {n nNew : Nat} {pc : Bool} {kept : List Nat} {newId : Nat → Nat} {P : Nat → Prop}
    (R : Renum n nNew pc kept newId P) {a : Attribute} (m : List Nat)
    (hm : ∀ i, i < n → m.getD i 0 = a.mappedIndex i) {p : Nat} (hp : P p) (f : Nat → Nat) (b : Attribute) :
    ({ b with map := some (rewriteMap nNew kept m f) } : Attribute).mappedIndex (newId p) = f (a.mappedIndex p) := by
  have hget := R.get p hp
  have hpn : p < n := R.lt p (renum_mem R hp)
  have hidx : newId p < kept.length := (List.getElem?_eq_some_iff.1 hget).1
  have hkp : kept[newId p] = p := (List.getElem?_eq_some_iff.1 hget).2
  have e : ({ b with map := some (rewriteMap nNew kept m f) } : Attribute).mappedIndex (newId p) =
      (rewriteMap nNew kept m f).getD (newId p) 0 := rfl
  rw [e, rewriteMap_eq R.len, getD_eq_getElem' _ _ (by simpa using hidx)]
  simp only [List.getElem_map, hkp, hm p hpn]

theorem newEntry_inj (attChanged : Bool) (usedV : List Bool) {v w : Nat} (hv : usedV[v]? = some true)
    (hw : usedV[w]? = some true) :
    newEntry attChanged (ranksFrom 0 usedV).toArray v = newEntry attChanged (ranksFrom 0 usedV).toArray w ↔ v = w := by
  cases attChanged with
  | true => rw [newEntry_rank _ hv, newEntry_rank _ hw]; exact rank_inj _ hv hw
  | false => simp [newEntry]

/-- two points we care about share a value index after `cleanAtt` iff they did before -/
theorem cleanAtt_index_inj {n nNew : Nat} {pc : Bool} {kept : List Nat} {newId : Nat → Nat} {P : Nat → Prop}
    (R : Renum n nNew pc kept newId P) {a : Attribute} (hv : a.Valid n) {p q : Nat} (hp : P p) (hq : P q) :
    (cleanAtt n nNew pc kept a).mappedIndex (newId p) = (cleanAtt n nNew pc kept a).mappedIndex (newId q) ↔
      a.mappedIndex p = a.mappedIndex q := by
  have hup := usedValues_of_kept hv R.lt (renum_mem R hp)
  have huq := usedValues_of_kept hv R.lt (renum_mem R hq)
  unfold cleanAtt
  simp only
  by_cases hch : (pc || decide ((usedValues kept a).count true < a.numValues)) = true
  · simp only [hch, if_true]
    cases hmap : a.map with
    | some m =>
      have hm : ∀ i, i < n → m.getD i 0 = a.mappedIndex i := by
        intro i _; simp [Attribute.mappedIndex, hmap]
      simp only
      rw [cleanAtt_explicit_index R m hm hp, cleanAtt_explicit_index R m hm hq]
      exact newEntry_inj _ _ hup huq
    | none =>
      by_cases hne : (usedValues kept a).count true ≠ nNew
      · rw [if_pos hne]
        have hm : ∀ i, i < n → (List.range n).getD i 0 = a.mappedIndex i := by
          intro i hi; simp [Attribute.mappedIndex, hmap, hi]
        simp only
        rw [cleanAtt_explicit_index R _ hm hp, cleanAtt_explicit_index R _ hm hq]
        exact newEntry_inj _ _ hup huq
      · rw [if_neg hne]
        dsimp only
        have e : ∀ x, (if decide ((usedValues kept a).count true < a.numValues) = true then
            compact (usedValues kept a) a else a).mappedIndex x = x := by
          intro x
          split <;> simp [Attribute.mappedIndex, compact, hmap]
        rw [e, e]
        have e2 : ∀ x, a.mappedIndex x = x := by intro x; simp [Attribute.mappedIndex, hmap]
        rw [e2, e2]
        exact renum_inj R hp hq
  · have hpc : pc = false := by cases pc <;> simp_all
    simp only [hch]
    rw [R.same hpc p hp, R.same hpc q hq]
    simp

/-! ### renumbering faces with a map that is strictly increasing on their corners -/

def mapFace (ν : Nat → Nat) (f : Face) : Face := (ν f.1, ν f.2.1, ν f.2.2)

/-- `ν` compares like the identity on the corners of `f` -/
def MonoOn (ν : Nat → Nat) (f : Face) : Prop :=
  ∀ x ∈ [f.1, f.2.1, f.2.2], ∀ y ∈ [f.1, f.2.1, f.2.2], (ν x < ν y ↔ x < y)

theorem canonFace_mapFace {ν : Nat → Nat} {f : Face} (h : MonoOn ν f) :
    canonFace (mapFace ν f) = mapFace ν (canonFace f) := by
  obtain ⟨a, b, c⟩ := f
  have hab := h a (by simp) b (by simp)
  have hba := h b (by simp) a (by simp)
  have hac := h a (by simp) c (by simp)
  have hca := h c (by simp) a (by simp)
  have hbc := h b (by simp) c (by simp)
  have hcb := h c (by simp) b (by simp)
  have h1 : (ν a > ν b ∨ ν a > ν c) ↔ (a > b ∨ a > c) := by omega
  have h2 : (ν b > ν c ∨ ν b > ν a) ↔ (b > c ∨ b > a) := by omega
  unfold canonFace canonLoop canonLoop canonLoop rotL mapFace
  dsimp only
  by_cases c1 : a > b ∨ a > c
  · rw [if_pos c1, if_pos (h1.2 c1)]
    by_cases c2 : b > c ∨ b > a
    · rw [if_pos c2, if_pos (h2.2 c2)]
    · rw [if_neg c2, if_neg (fun hh => c2 (h2.1 hh))]
  · rw [if_neg c1, if_neg (fun hh => c1 (h1.1 hh))]

theorem lexLt_iff (x y : Face) : lexLt x y = true ↔
    (x.1 < y.1 ∨ (x.1 = y.1 ∧ (x.2.1 < y.2.1 ∨ (x.2.1 = y.2.1 ∧ x.2.2 < y.2.2)))) := by
  simp [lexLt]

theorem minRot_mapFace {ν : Nat → Nat} {f : Face} (h : MonoOn ν f) :
    minRot (mapFace ν f) = mapFace ν (minRot f) := by
  obtain ⟨a, b, c⟩ := f
  have hab := h a (by simp) b (by simp)
  have hba := h b (by simp) a (by simp)
  have hac := h a (by simp) c (by simp)
  have hca := h c (by simp) a (by simp)
  have hbc := h b (by simp) c (by simp)
  have hcb := h c (by simp) b (by simp)
  have hl : ∀ x y : Face, x ∈ [(a, b, c), (b, c, a), (c, a, b)] → y ∈ [(a, b, c), (b, c, a), (c, a, b)] →
      lexLt (mapFace ν x) (mapFace ν y) = lexLt x y := by
    intro x y hx hy
    rw [Bool.eq_iff_iff, lexLt_iff, lexLt_iff]
    simp only [List.mem_cons, List.not_mem_nil, or_false] at hx hy
    rcases hx with rfl | rfl | rfl <;> rcases hy with rfl | rfl | rfl <;> simp only [mapFace] <;> omega
  have e1 := hl (b, c, a) (a, b, c) (by simp) (by simp)
  have e2 := hl (c, a, b) (b, c, a) (by simp) (by simp)
  have e3 := hl (c, a, b) (a, b, c) (by simp) (by simp)
  simp only [mapFace] at e1 e2 e3
  simp only [minRot, mapFace, e1]
  cases h1 : lexLt (b, c, a) (a, b, c)
  · simp only [Bool.false_eq_true, if_false, e3]
    cases h3 : lexLt (c, a, b) (a, b, c) <;> simp
  · simp only [if_true, e2]
    cases h2 : lexLt (c, a, b) (b, c, a) <;> simp

theorem nd_mapFace {ν : Nat → Nat} {f : Face} (h : MonoOn ν f) :
    Strips.isDegenerateTriangle (mapFace ν f) = Strips.isDegenerateTriangle f := by
  obtain ⟨a, b, c⟩ := f
  have hab := h a (by simp) b (by simp)
  have hba := h b (by simp) a (by simp)
  have hac := h a (by simp) c (by simp)
  have hca := h c (by simp) a (by simp)
  have hbc := h b (by simp) c (by simp)
  have hcb := h c (by simp) b (by simp)
  rw [Bool.eq_iff_iff]
  simp only [Strips.isDegenerateTriangle, mapFace, Bool.or_eq_true, beq_iff_eq]
  omega

theorem mapFace_inj {ν : Nat → Nat} {f h : Face}
    (hν : ∀ x ∈ [f.1, f.2.1, f.2.2], ∀ y ∈ [h.1, h.2.1, h.2.2], ν x = ν y → x = y)
    (e : mapFace ν f = mapFace ν h) : f = h := by
  obtain ⟨a, b, c⟩ := f
  obtain ⟨a', b', c'⟩ := h
  simp only [mapFace, Prod.mk.injEq] at e
  have h1 := hν a (by simp) a' (by simp) e.1
  have h2 := hν b (by simp) b' (by simp) e.2.1
  have h3 := hν c (by simp) c' (by simp) e.2.2
  rw [h1, h2, h3]

/-! ### `removeUnused` in terms of `mapFace` / `cleanAtt` -/

/-- `cleanAtt` with the parameters `removeUnused g` uses -/
def cleanOf (g : Geometry) : Attribute → Attribute :=
  cleanAtt g.numPoints (newNumPoints g) (pointsChanged g) (keptPoints g)

theorem removeUnused_atts (g : Geometry) : (removeUnused g).atts = g.atts.map (cleanOf g) := by
  rw [removeUnused_eq]; rfl

theorem removeUnused_numPoints (g : Geometry) : (removeUnused g).numPoints = newNumPoints g := by
  rw [removeUnused_eq]

theorem removeUnused_isMesh (g : Geometry) : (removeUnused g).isMesh = g.isMesh := by
  rw [removeUnused_eq]

theorem corner_mem {g : Geometry} {f : Face} (hf : f ∈ g.faces) :
    ∀ x ∈ [f.1, f.2.1, f.2.2], x ∈ corners g.faces := by
  intro x hx
  simp only [List.mem_cons, List.not_mem_nil, or_false] at hx
  rw [mem_corners]
  exact ⟨f, hf, by rcases hx with e | e | e <;> simp [e]⟩

theorem removeUnused_faces (g : Geometry) (hv : g.valid = true) :
    (removeUnused g).faces = g.faces.map (mapFace (newPointId g)) := by
  have hR := removeUnused_renum g hv
  rw [removeUnused_eq]
  simp only
  by_cases hpc : pointsChanged g = true
  · simp only [hpc, if_true]
    rfl
  · have hpc' : pointsChanged g = false := by simpa using hpc
    simp only [hpc', Bool.false_eq_true, if_false]
    conv => lhs; rw [← List.map_id g.faces]
    apply List.map_congr_left
    intro f hf
    have hc := corner_mem hf
    unfold mapFace
    rw [hR.same hpc' _ (hc f.1 (by simp)), hR.same hpc' _ (hc f.2.1 (by simp)), hR.same hpc' _ (hc f.2.2 (by simp))]
    rfl

theorem monoOn_corners (g : Geometry) (hv : g.valid = true) {f : Face} (hf : f ∈ g.faces) :
    MonoOn (newPointId g) f := by
  intro x hx y hy
  exact renum_lt (removeUnused_renum g hv) (corner_mem hf x hx) (corner_mem hf y hy)

theorem find_map_attType (l : List Attribute) (f : Attribute → Attribute) (hf : ∀ a, (f a).attType = a.attType) :
    (l.map f).find? (·.attType == 0) = (l.find? (·.attType == 0)).map f := by
  induction l with
  | nil => rfl
  | cons a l ih =>
    simp only [List.map_cons, List.find?_cons, hf]
    split
    · rfl
    · exact ih

theorem cleanOf_attType (g : Geometry) (a : Attribute) : (cleanOf g a).attType = a.attType := by
  have := cleanAtt_desc g.numPoints (newNumPoints g) (pointsChanged g) (keptPoints g) a
  simp only [desc, Prod.mk.injEq] at this
  exact this.1

theorem removeUnused_positionAtt (g : Geometry) : (removeUnused g).positionAtt = g.positionAtt.map (cleanOf g) := by
  unfold Geometry.positionAtt
  rw [removeUnused_atts]
  exact find_map_attType _ _ (cleanOf_attType g)

theorem positionAtt_mem {g : Geometry} {pos : Attribute} (h : g.positionAtt = some pos) : pos ∈ g.atts :=
  List.mem_of_find?_eq_some h

/-- a face keeps (or keeps not having) a repeated position index through `removeUnused` -/
theorem removeUnused_isDegenerate (g : Geometry) (hv : g.valid = true) {pos : Attribute} (hpos : pos ∈ g.atts)
    {f : Face} (hf : f ∈ g.faces) :
    isDegenerate (cleanOf g pos) (mapFace (newPointId g) f) = isDegenerate pos f := by
  have R := removeUnused_renum g hv
  have hva := Geometry.valid_atts hv pos hpos
  have hc := corner_mem hf
  have h12 := cleanAtt_index_inj R hva (hc f.1 (by simp)) (hc f.2.1 (by simp))
  have h13 := cleanAtt_index_inj R hva (hc f.1 (by simp)) (hc f.2.2 (by simp))
  have h23 := cleanAtt_index_inj R hva (hc f.2.1 (by simp)) (hc f.2.2 (by simp))
  rw [Bool.eq_iff_iff, isDegenerate_iff, isDegenerate_iff]
  unfold cleanOf mapFace
  simp only
  rw [h12, h13, h23]

/-! ### the shape of a successful run with something to do -/

/-- `g` with the faces stored by the face-removal steps -/
def stored (o : CleanupOpts) (pos : Attribute) (g : Geometry) : Geometry :=
  { g with faces := storedFaces o pos g.faces }

theorem stored_valid (o : CleanupOpts) (pos : Attribute) {g : Geometry} (hv : g.valid = true) :
    (stored o pos g).valid = true :=
  valid_of_faces hv _ (storedFaces_ok o pos g.faces (facesOk_of_valid hv))

/-- the two shapes of `run o g = some g'` -/
theorem run_shape {o : CleanupOpts} {g g' : Geometry} (h : run o g = some g') :
    (nothingToDo o = true ∧ g' = g) ∨
    (∃ pos, g.positionAtt = some pos ∧
      g' = if o.removeUnusedAttributes then removeUnused (stored o pos g) else stored o pos g) := by
  rcases run_eq h with ⟨h1, h2, h3, h4, hg⟩ | ⟨pos, hpos, hg⟩
  · left
    exact ⟨by simp [nothingToDo, h1, h2, h3, h4], hg⟩
  · right
    exact ⟨pos, hpos, hg⟩

theorem survivorsOf_eq {o : CleanupOpts} {g : Geometry} {pos : Attribute} (hpos : g.positionAtt = some pos) :
    survivorsOf o g = survivors o pos g.faces := by
  simp [survivorsOf, hpos]

theorem survivorsOf_sublist (o : CleanupOpts) (g : Geometry) : (survivorsOf o g).Sublist g.faces := by
  unfold survivorsOf
  split
  · exact survivors_sublist o _ g.faces
  · exact List.Sublist.refl _

/-! ### the clauses -/

theorem desc_run {o : CleanupOpts} {g g' : Geometry} (h : run o g = some g') :
    g'.atts.map desc = g.atts.map desc ∧ g'.isMesh = g.isMesh := by
  rcases run_shape h with ⟨_, hg⟩ | ⟨pos, _, hg⟩
  · rw [hg]; exact ⟨rfl, rfl⟩
  · rw [hg]
    split
    · rw [removeUnused_atts, removeUnused_isMesh, List.map_map]
      refine ⟨?_, rfl⟩
      apply List.map_congr_left
      intro a _
      exact cleanAtt_desc _ _ _ _ a
    · exact ⟨rfl, rfl⟩

/-- counts of a class in the result = counts among the surviving faces -/
theorem count_result {o : CleanupOpts} {g g' : Geometry} (hv : g.valid = true) (h : run o g = some g') (c : RTri) :
    (rtris g'.triangles).count c = (survivorsOf o g).countP (inClass g c) := by
  rw [count_rtris_forall₂ (run_triangles hv h) c, count_tris]

theorem count_input (g : Geometry) (c : RTri) : (rtris g.triangles).count c = g.faces.countP (inClass g c) := by
  rw [triangles_eq_map, count_tris]

theorem describesA_mesh {g : Geometry} (hm : g.isMesh = true) : describesA g = g.triangles := by
  rw [describesA_eq]; unfold describes; rw [hm]; rfl

theorem clause_only_input {o : CleanupOpts} {g g' : Geometry} (hv : g.valid = true) (hm : g.isMesh = true)
    (h : run o g = some g') : subMultiset (rtris (describesA g')) (rtris (describesA g)) = true := by
  have hm' : g'.isMesh = true := by rw [(desc_run h).2]; exact hm
  rw [describesA_mesh hm, describesA_mesh hm']
  apply subMultiset_of_count
  intro c
  rw [count_result hv h, count_input]
  exact (survivorsOf_sublist o g).countP_le

theorem clause_documented {o : CleanupOpts} {g g' : Geometry} (hv : g.valid = true) (hm : g.isMesh = true)
    (h : run o g = some g') : removalsDocumented o g g' = true := by
  have hm' : g'.isMesh = true := by rw [(desc_run h).2]; exact hm
  unfold removalsDocumented
  simp only [describesA_mesh hm, describesA_mesh hm']
  rw [Bool.or_eq_true]
  right
  rw [List.all_eq_true]
  intro c _
  rw [count_result hv h, count_input]
  -- the number of degenerate instances, as counted by the checker
  have hd : ∀ pos, g.positionAtt = some pos →
      ((rtris g.triangles).zip (g.faces.map (posDegenerate g))).countP (fun x => x.2 && x.1 == c) =
        g.faces.countP (fun f => isDegenerate pos f && inClass g c f) := by
    intro pos hpos
    rw [triangles_eq_map]
    unfold rtris
    rw [List.map_map, List.zip_map', List.countP_map]
    apply List.countP_congr
    intro f _
    simp [posDegenerate, hpos, inClass]
  rcases run_shape h with ⟨hn, _⟩ | ⟨pos, hpos, _⟩
  · -- nothing to do: nothing is missing
    have hs : survivorsOf o g = g.faces := by
      simp only [nothingToDo, Bool.and_eq_true, Bool.not_eq_true'] at hn
      unfold survivorsOf survivors
      cases g.positionAtt <;> simp [hn.1.1.1, hn.1.2]
    rw [hs]
    simp
  · rw [survivorsOf_eq hpos]
    have hd' := hd pos hpos
    have hc := removals_counted o pos g g.faces c
    rcases hc with h1 | ⟨h1, h2⟩ | ⟨h1, h2⟩
    · simp [h1]
    · have : ((rtris g.triangles).zip (g.faces.map (posDegenerate g))).countP (fun x => x.2 && x.1 == c) =
          ((rtris g.triangles).zip (g.faces.map (posDegenerate g))).countP
            (fun x => match x with | (t, dg) => dg && t == c) := rfl
      rw [← this, hd']
      simp [h1, h2]
    · simp [h1, h2]

theorem posDegenerate_of {g : Geometry} {pos : Attribute} (h : g.positionAtt = some pos) (f : Face) :
    posDegenerate g f = isDegenerate pos f := by
  simp [posDegenerate, h]

theorem clause_no_degenerate {o : CleanupOpts} {g g' : Geometry} (hv : g.valid = true)
    (h : run o g = some g') (hd : o.removeDegeneratedFaces = true) :
    g'.faces.all (fun f => !posDegenerate g' f) = true := by
  rw [List.all_eq_true]
  intro f' hf'
  rcases run_shape h with ⟨hn, _⟩ | ⟨pos, hpos, hg⟩
  · simp [nothingToDo, hd] at hn
  · have hS := storedFaces_nondeg o pos g.faces hd
    have hposS : (stored o pos g).positionAtt = some pos := hpos
    by_cases hu : o.removeUnusedAttributes = true
    · rw [hg, if_pos hu] at hf' ⊢
      rw [removeUnused_faces _ (stored_valid o pos hv)] at hf'
      obtain ⟨f, hf, rfl⟩ := List.mem_map.1 hf'
      have hp : (removeUnused (stored o pos g)).positionAtt = some (cleanOf (stored o pos g) pos) := by
        rw [removeUnused_positionAtt, hposS]; rfl
      rw [posDegenerate_of hp,
        removeUnused_isDegenerate _ (stored_valid o pos hv) (positionAtt_mem hposS) hf, hS f hf]
      rfl
    · rw [hg, if_neg hu] at hf' ⊢
      rw [posDegenerate_of hposS, hS f' hf']
      rfl

theorem corners_canon {f : Face} : ∀ x ∈ [(canonFace f).1, (canonFace f).2.1, (canonFace f).2.2],
    x ∈ [f.1, f.2.1, f.2.2] := by
  intro x hx
  obtain ⟨a, b, c⟩ := f
  rcases (canonFace_cases (a, b, c)).1 with e | e | e <;> rw [e] at hx <;>
    simp only [rotL, List.mem_cons, List.not_mem_nil, or_false] at hx ⊢ <;> omega

/-- the canonical forms stay pairwise different through `removeUnused` -/
theorem removeUnused_canon_nodup (g : Geometry) (hv : g.valid = true) (h : (g.faces.map canonFace).Nodup) :
    ((removeUnused g).faces.map canonFace).Nodup := by
  have R := removeUnused_renum g hv
  rw [removeUnused_faces g hv, List.map_map]
  have e : g.faces.map (canonFace ∘ mapFace (newPointId g)) = g.faces.map (mapFace (newPointId g) ∘ canonFace) := by
    apply List.map_congr_left
    intro f hf
    exact canonFace_mapFace (monoOn_corners g hv hf)
  rw [e]
  apply nodup_map_of h
  intro x hx y hy hxy
  apply mapFace_inj _ hxy
  intro a ha b hb hab
  exact (renum_inj R (corner_mem hx a (corners_canon a ha)) (corner_mem hy b (corners_canon b hb))).1 hab

theorem canon_nodup_run {o : CleanupOpts} {g g' : Geometry} (hv : g.valid = true)
    (h : run o g = some g') (hd : o.removeDuplicateFaces = true) : (g'.faces.map canonFace).Nodup := by
  rcases run_shape h with ⟨hn, _⟩ | ⟨pos, hpos, hg⟩
  · simp [nothingToDo, hd] at hn
  · have hS : ((stored o pos g).faces.map canonFace).Nodup := storedFaces_canon_nodup o pos g.faces hd
    rw [hg]
    split
    · exact removeUnused_canon_nodup _ (stored_valid o pos hv) hS
    · exact hS

theorem clause_no_duplicate {o : CleanupOpts} {g g' : Geometry} (hv : g.valid = true)
    (h : run o g = some g') (hd : o.removeDuplicateFaces = true) : noDuplicateFaces g' = true := by
  obtain ⟨h1, h2⟩ := noDup_of_canon_nodup (canon_nodup_run hv h hd)
  unfold noDuplicateFaces
  rw [Bool.and_eq_true]
  exact ⟨(nodupB_iff _).2 h1, (nodupB_iff _).2 h2⟩

theorem nothingUnused_of {g : Geometry} (h1 : ∀ q, q < g.numPoints → q ∈ corners g.faces)
    (h2 : ∀ a ∈ g.atts, ∀ w, w < a.numValues → ∃ q, q < g.numPoints ∧ a.mappedIndex q = w) :
    nothingUnused g = true := by
  unfold nothingUnused
  simp only [Bool.and_eq_true, List.all_eq_true, List.mem_range, List.contains_iff_mem]
  refine ⟨h1, ?_⟩
  intro a ha w hw
  obtain ⟨q, hq, e⟩ := h2 a ha w hw
  exact List.mem_map.2 ⟨q, List.mem_range.2 hq, e⟩

theorem clause_nothing_unused {o : CleanupOpts} {g g' : Geometry} (hv : g.valid = true)
    (h : run o g = some g') (hu : o.removeUnusedAttributes = true) : nothingUnused g' = true := by
  rcases run_shape h with ⟨hn, _⟩ | ⟨pos, _, hg⟩
  · simp [nothingToDo, hu] at hn
  · rw [hg, if_pos hu]
    exact nothingUnused_of (removeUnused_points_used _ (stored_valid o pos hv))
      (removeUnused_values_used _ (stored_valid o pos hv))

theorem clause_kept {o : CleanupOpts} {g g' : Geometry} (h : run o g = some g')
    (hu : o.removeUnusedAttributes = false) :
    (g'.numPoints == g.numPoints && g'.atts.map (·.numValues) == g.atts.map (·.numValues) &&
      pointTuplesA g' == pointTuplesA g) = true := by
  have e : g'.numPoints = g.numPoints ∧ g'.atts = g.atts := by
    rcases run_shape h with ⟨_, hg⟩ | ⟨pos, _, hg⟩
    · rw [hg]; exact ⟨rfl, rfl⟩
    · rw [hg, hu]; exact ⟨rfl, rfl⟩
  have e2 : pointTuplesA g' = pointTuplesA g := by
    unfold pointTuplesA tupleTable
    rw [e.1, e.2]
  rw [e.1, e.2, e2]
  simp

theorem run_none {o : CleanupOpts} {g : Geometry} (h : run o g = none) :
    (!nothingToDo o && g.positionAtt.isNone) = true := by
  unfold run at h
  split at h
  · cases h
  · rename_i hc
    split at h
    · rename_i hp
      have hn : nothingToDo o = false := by
        unfold nothingToDo
        cases hh : (!o.removeDegeneratedFaces && !o.removeUnusedAttributes && !o.removeDuplicateFaces &&
          !o.makeGeometryManifold)
        · rfl
        · exact absurd hh hc
      simp [hn, hp]
    · cases h

/-- **the oracle accepts the model's clean-up**, all 16 option sets -/
theorem verifyCleanup_model (o : CleanupOpts) (g : Geometry) (hv : g.valid = true) (hm : g.isMesh = true) :
    (verifyCleanup o g (run o g)).allTrue := by
  cases h : run o g with
  | none =>
    intro c hc
    simp only [verifyCleanup, List.mem_cons, List.not_mem_nil, or_false] at hc
    rw [hc]
    exact run_none h
  | some g' =>
    intro c hc
    simp only [verifyCleanup, List.mem_cons, List.not_mem_nil, or_false] at hc
    rcases hc with rfl | rfl | rfl | rfl | rfl | rfl | rfl
    · have hd := desc_run h
      simp [run_valid hv h, hd.2, hm, sameShape_of_desc hd.1]
    · exact clause_only_input hv hm h
    · exact clause_documented hv hm h
    · cases hd : o.removeDegeneratedFaces
      · rfl
      · simpa using clause_no_degenerate hv h hd
    · cases hd : o.removeDuplicateFaces
      · rfl
      · simpa using clause_no_duplicate hv h hd
    · cases hu : o.removeUnusedAttributes
      · rfl
      · simpa using clause_nothing_unused hv h hu
    · cases hu : o.removeUnusedAttributes
      · simpa using clause_kept h hu
      · rfl

/-! ### idempotence -/

theorem dupLoop_id (seen fs : List Face) (hn : (fs.map canonFace).Nodup) (hs : ∀ f ∈ fs, canonFace f ∉ seen) :
    dupLoop seen false fs = fs := by
  induction fs generalizing seen with
  | nil => rfl
  | cons f fs ih =>
    simp only [List.map_cons, List.nodup_cons] at hn
    have h1 : seen.contains (canonFace f) = false := by
      cases hc : seen.contains (canonFace f)
      · rfl
      · exact absurd (List.contains_iff_mem.1 hc) (hs f (by simp))
    simp only [dupLoop, h1, Bool.false_eq_true, if_false]
    rw [ih (canonFace f :: seen) hn.2]
    intro f' hf' hm
    rcases List.mem_cons.1 hm with e | e
    · exact hn.1 (List.mem_map.2 ⟨f', hf', e⟩)
    · exact hs f' (by simp [hf']) e

theorem geometry_eta (g : Geometry) (n : Nat) (fs : List Face) (as : List Attribute)
    (h1 : n = g.numPoints) (h2 : fs = g.faces) (h3 : as = g.atts) :
    ({ g with numPoints := n, faces := fs, atts := as } : Geometry) = g := by
  subst h1 h2 h3
  rfl

/-- a mesh without unused points and values is a fixed point of `RemoveUnusedAttributes` -/
theorem removeUnused_id (g : Geometry)
    (h1 : ∀ q, q < g.numPoints → q ∈ corners g.faces)
    (h2 : ∀ a ∈ g.atts, ∀ w, w < a.numValues → ∃ q, q < g.numPoints ∧ a.mappedIndex q = w) :
    removeUnused g = g := by
  have hfull : (marks g.numPoints (corners g.faces)).count true = (marks g.numPoints (corners g.faces)).length := by
    rw [count_eq_length_iff]
    intro j hj
    rw [marks_length] at hj
    rw [marks_get]
    exact ⟨hj, h1 j hj⟩
  rw [marks_length] at hfull
  have hnot : ¬ (marks g.numPoints (corners g.faces)).count true < g.numPoints := by omega
  have hpc : pointsChanged g = false := by simp [pointsChanged, hnot]
  have hnn : newNumPoints g = g.numPoints := by simp [newNumPoints, hnot]
  have hkp : keptPoints g = List.range g.numPoints := by simp [keptPoints, hnot]
  rw [removeUnused_eq]
  apply geometry_eta
  · exact hnn
  · simp [hpc]
  · conv => rhs; rw [← List.map_id g.atts]
    apply List.map_congr_left
    intro a ha
    rw [hnn, hpc, hkp]
    have hu : (usedValues (List.range g.numPoints) a).count true = a.numValues := by
      have : (usedValues (List.range g.numPoints) a).count true = (usedValues (List.range g.numPoints) a).length := by
        rw [count_eq_length_iff]
        intro j hj
        rw [usedValues_length] at hj
        rw [usedValues_get]
        obtain ⟨q, hq, e⟩ := h2 a ha j hj
        exact ⟨hj, q, List.mem_range.2 hq, e⟩
      rw [this, usedValues_length]
    unfold cleanAtt
    simp [hu]

theorem filter_id {α : Type} (p : α → Bool) (l : List α) (h : ∀ x ∈ l, p x = true) : l.filter p = l :=
  List.filter_eq_self.2 h

/-- **`MeshCleanup::Cleanup` is idempotent**: a second run with the same options returns its input -/
theorem run_idempotent {o : CleanupOpts} {g g' : Geometry} (hv : g.valid = true) (h : run o g = some g') :
    run o g' = some g' := by
  by_cases hc : (!o.removeDegeneratedFaces && !o.removeUnusedAttributes && !o.removeDuplicateFaces &&
      !o.makeGeometryManifold) = true
  · unfold run
    rw [if_pos hc]
  · have hnn : (!o.removeDegeneratedFaces && !o.removeUnusedAttributes && !o.removeDuplicateFaces &&
        !o.makeGeometryManifold) = false := by simpa using hc
    rcases run_shape h with ⟨hn, _⟩ | ⟨pos, hpos, hg⟩
    · exact absurd hn hc
    · have hvS := stored_valid o pos hv
      have hposS : (stored o pos g).positionAtt = some pos := hpos
      -- the position attribute of the result
      obtain ⟨pos', hp'⟩ : ∃ pos', g'.positionAtt = some pos' := by
        rw [hg]
        split
        · exact ⟨_, by rw [removeUnused_positionAtt, hposS]; rfl⟩
        · exact ⟨pos, hposS⟩
      have h1 : o.removeDegeneratedFaces = true → removeDegenerated pos' g' = g' := by
        intro hd
        rw [removeDegenerated_eq]
        have := clause_no_degenerate hv h hd
        rw [List.all_eq_true] at this
        have e : g'.faces.filter (fun f => !isDegenerate pos' f) = g'.faces := by
          apply filter_id
          intro f hf
          have := this f hf
          rwa [posDegenerate_of hp'] at this
        rw [e]
      have h2 : o.removeDuplicateFaces = true → removeDuplicates g' = g' := by
        intro hd
        rw [removeDuplicates_eq, dupLoop_id [] _ (canon_nodup_run hv h hd) (by simp)]
      have h3 : o.removeUnusedAttributes = true → removeUnused g' = g' := by
        intro hu
        have e : g' = removeUnused (stored o pos g) := by rw [hg, if_pos hu]
        rw [e]
        exact removeUnused_id _ (removeUnused_points_used _ hvS) (removeUnused_values_used _ hvS)
      unfold run
      simp only [hnn, Bool.false_eq_true, if_false, hp']
      cases hd : o.removeDegeneratedFaces <;> cases hdu : o.removeDuplicateFaces <;>
        cases hu : o.removeUnusedAttributes <;> simp_all

end C14
end Draco
