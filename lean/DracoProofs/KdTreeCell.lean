import DracoModel.KdTree
import DracoModel.KdTreeEnc
/-
  Facts about the pieces of the kd-tree coder that the encoder and the decoder share:
  `DRACO_INCREMENT_MOD`, the `axes_` cycle, the implicit axis choices, list updates.
-/
namespace Draco.Kd

/-! ### lists -/

theorem getD_set_self (l : List Nat) (i v : Nat) (h : i < l.length) : (l.set i v).getD i 0 = v := by
  simp [List.getD_eq_getElem?_getD, List.getElem?_set_self h]

theorem getD_set_ne (l : List Nat) (i j v : Nat) (h : i ≠ j) : (l.set i v).getD j 0 = l.getD j 0 := by
  simp [List.getD_eq_getElem?_getD, List.getElem?_set_ne h]

theorem getD_replicate (n i v : Nat) (h : i < n) : (List.replicate n v).getD i 0 = v := by
  simp [List.getD_eq_getElem?_getD, h]

/-- two lists of the same length with the same entries -/
theorem ext_getD (a b : List Nat) (n : Nat) (ha : a.length = n) (hb : b.length = n)
    (h : ∀ i < n, a.getD i 0 = b.getD i 0) : a = b := by
  apply List.ext_getElem?
  intro i
  by_cases hi : i < n
  · have := h i hi
    simp only [List.getD_eq_getElem?_getD] at this
    rw [List.getElem?_eq_getElem (by omega), List.getElem?_eq_getElem (by omega)] at this ⊢
    simpa using this
  · rw [List.getElem?_eq_none (by omega), List.getElem?_eq_none (by omega)]

/-! ### `DRACO_INCREMENT_MOD` and the `axes_` cycle -/

theorem incMod_lt (i m : Nat) (h : i < m) : incMod i m < m := by
  unfold incMod; split <;> omega

theorem mem_axesFrom (dim : Nat) : ∀ (k a i : Nat), a < dim → i < dim → k ≤ dim →
    ((a ≤ i ∧ i < a + k) ∨ i + dim < a + k) → i ∈ axesFrom a dim k := by
  intro k
  induction k with
  | zero => intro a i _ _ _ h; omega
  | succ k ih =>
    intro a i ha hi hk h
    simp only [axesFrom, List.mem_cons]
    by_cases hia : i = a
    · exact Or.inl hia
    · right
      apply ih _ _ (incMod_lt a dim ha) hi (by omega)
      unfold incMod
      split <;> omega

/-- `axes_` enumerates every axis -/
theorem mem_axesFrom_all (dim a i : Nat) (ha : a < dim) (hi : i < dim) : i ∈ axesFrom a dim dim := by
  apply mem_axesFrom dim dim a i ha hi (Nat.le_refl _)
  omega

theorem axesFrom_lt (dim : Nat) : ∀ (k a : Nat), a < dim → ∀ x ∈ axesFrom a dim k, x < dim := by
  intro k
  induction k with
  | zero => intro a _ x hx; simp [axesFrom] at hx
  | succ k ih =>
    intro a ha x hx
    simp only [axesFrom, List.mem_cons] at hx
    rcases hx with h | h
    · omega
    · exact ih _ (incMod_lt a dim ha) x h

/-! ### the implicit axis of `GetAxis` for fewer than 64 points -/

theorem minLevelLoop_spec (levels : List Nat) : ∀ (l : List Nat) (b : Nat) (bound : Nat), b < bound →
    (∀ x ∈ l, x < bound) →
    let r := l.foldl (fun best axis => if levels.getD best 0 > levels.getD axis 0 then axis else best) b
    r < bound ∧ levels.getD r 0 ≤ levels.getD b 0 ∧ ∀ x ∈ l, levels.getD r 0 ≤ levels.getD x 0 := by
  intro l
  induction l with
  | nil => intro b bound hb _; simp [hb]
  | cons a l ih =>
    intro b bound hb hl
    simp only [List.foldl_cons]
    have hl' : ∀ x ∈ l, x < bound := fun x hx => hl x (by simp [hx])
    have ha : a < bound := hl a (by simp)
    by_cases hc : levels.getD b 0 > levels.getD a 0
    · simp only [hc, if_true]
      obtain ⟨r1, r2, r3⟩ := ih a bound ha hl'
      refine ⟨r1, by omega, ?_⟩
      intro x hx
      simp only [List.mem_cons] at hx
      rcases hx with h | h
      · subst h; exact r2
      · exact r3 x h
    · simp only [hc, if_false]
      obtain ⟨r1, r2, r3⟩ := ih b bound hb hl'
      refine ⟨r1, r2, ?_⟩
      intro x hx
      simp only [List.mem_cons] at hx
      rcases hx with h | h
      · subst h; omega
      · exact r3 x h

theorem minLevelAxis_lt (levels : List Nat) (dim : Nat) (h : 1 ≤ dim) : minLevelAxis levels dim < dim := by
  have := (minLevelLoop_spec levels (List.range' 1 (dim - 1)) 0 dim (by omega) (by
    intro x hx; simp only [List.mem_range'] at hx; obtain ⟨i, hi, rfl⟩ := hx; omega)).1
  exact this

theorem minLevelAxis_le (levels : List Nat) (dim j : Nat) (hj : j < dim) :
    levels.getD (minLevelAxis levels dim) 0 ≤ levels.getD j 0 := by
  obtain ⟨_, r2, r3⟩ := minLevelLoop_spec levels (List.range' 1 (dim - 1)) 0 dim (by omega) (by
    intro x hx; simp only [List.mem_range'] at hx; obtain ⟨i, hi, rfl⟩ := hx; omega)
  by_cases h0 : j = 0
  · subst h0; exact r2
  · apply r3
    simp only [List.mem_range']
    exact ⟨j - 1, by omega, by omega⟩

/-! ### round-robin axis choice (levels 0..5): the next axis is one of the least refined -/

/-- cyclic distance from `next` forward to `j` -/
def dist (next dim j : Nat) : Nat := if next ≤ j then j - next else j + dim - next

/-- invariant of `(last_axis, levels)` along a path of the tree when the axes alternate -/
structure RR (dim last : Nat) (levels : List Nat) : Prop where
  last_lt : last < dim
  mono : ∀ i j, i < dim → j < dim → dist (incMod last dim) dim i ≤ dist (incMod last dim) dim j →
    levels.getD i 0 ≤ levels.getD j 0
  near : ∀ j, j < dim → levels.getD j 0 ≤ levels.getD (incMod last dim) 0 + 1

theorem RR.init (dim : Nat) (h : 1 ≤ dim) : RR dim 0 (List.replicate dim 0) := by
  refine ⟨by omega, ?_, ?_⟩
  · intro i j hi hj _
    rw [getD_replicate _ _ _ hi, getD_replicate _ _ _ hj]; omega
  · intro j hj
    rw [getD_replicate _ _ _ hj]; omega

theorem RR.min {dim last : Nat} {levels : List Nat} (h : RR dim last levels) (j : Nat) (hj : j < dim) :
    levels.getD (incMod last dim) 0 ≤ levels.getD j 0 := by
  apply h.mono _ _ (incMod_lt _ _ h.last_lt) hj
  simp only [dist]
  split <;> split <;> omega

theorem dist_step (a dim j : Nat) (ha : a < dim) (hj : j < dim) (hne : j ≠ a) :
    dist (incMod a dim) dim j + 1 = dist a dim j := by
  simp only [dist, incMod]
  split <;> split <;> split <;> omega

theorem dist_self_step (a dim j : Nat) (ha : a < dim) (hj : j < dim) :
    dist (incMod a dim) dim j ≤ dist (incMod a dim) dim a := by
  simp only [dist, incMod]
  split <;> split <;> split <;> omega

theorem dist_self_step_eq (a dim j : Nat) (ha : a < dim) (hj : j < dim)
    (h : dist (incMod a dim) dim a ≤ dist (incMod a dim) dim j) : j = a := by
  simp only [dist, incMod] at h
  split at h <;> split at h <;> split at h <;> omega

theorem RR.step {dim last : Nat} {levels : List Nat} (h : RR dim last levels)
    (hlen : levels.length = dim) :
    RR dim (incMod last dim)
      (levels.set (incMod last dim) (levels.getD (incMod last dim) 0 + 1)) := by
  obtain ⟨hl, hmono, hnear⟩ := h
  have ha := incMod_lt _ _ hl
  generalize incMod last dim = a at *
  have hself : (levels.set a (levels.getD a 0 + 1)).getD a 0 = levels.getD a 0 + 1 :=
    getD_set_self _ _ _ (by omega)
  have hmin : ∀ j, j < dim → levels.getD a 0 ≤ levels.getD j 0 := by
    intro j hj
    apply hmono a j ha hj
    simp only [dist]; split <;> split <;> omega
  refine ⟨ha, ?_, ?_⟩
  · intro i j hi hj hd
    by_cases hia : i = a
    · subst hia
      have := dist_self_step_eq i dim j ha hj hd
      subst this; omega
    · rw [getD_set_ne _ _ _ _ (Ne.symm hia)]
      by_cases hja : j = a
      · subst hja
        rw [hself]; exact hnear i hi
      · rw [getD_set_ne _ _ _ _ (Ne.symm hja)]
        apply hmono i j hi hj
        have e1 := dist_step a dim i ha hi hia
        have e2 := dist_step a dim j ha hj hja
        omega
  · intro j hj
    have ha' := incMod_lt a dim ha
    by_cases hja : j = a
    · subst hja
      rw [hself]
      by_cases hn : incMod j dim = j
      · rw [hn, hself]; omega
      · rw [getD_set_ne _ _ _ _ (Ne.symm hn)]
        have := hmin _ ha'
        omega
    · rw [getD_set_ne _ _ _ _ (Ne.symm hja)]
      have h1 := hnear j hj
      by_cases hn : incMod a dim = a
      · rw [hn, hself]; omega
      · rw [getD_set_ne _ _ _ _ (Ne.symm hn)]
        have := hmin _ ha'
        omega

/-! ### the explicit axis of level 6 (`GetAndEncodeAxis`, 64 or more points) -/

theorem bestAxisLoop_spec (P : Params) (pts : List (List Nat)) (base levels : List Nat)
    (hne : pts ≠ []) : ∀ (is : List Nat) (mb : Nat × Nat), (∀ i ∈ is, i < P.dim) → mb.2 < P.dim →
    (mb.1 > 0 → P.bitLength - levels.getD mb.2 0 ≠ 0) →
    let r := bestAxisLoop P pts base levels is mb
    r.2 < P.dim ∧ (P.bitLength - levels.getD r.2 0 = 0 →
      mb.1 = 0 ∧ ∀ i ∈ is, P.bitLength - levels.getD i 0 = 0) := by
  intro is
  induction is with
  | nil =>
    intro mb _ h2 h3
    simp only [bestAxisLoop]
    refine ⟨h2, fun h0 => ⟨?_, by simp⟩⟩
    by_cases hz : mb.1 = 0
    · exact hz
    · exact absurd h0 (h3 (by omega))
  | cons i is ih =>
    intro mb hall h2 h3
    have hi : i < P.dim := hall i (by simp)
    have hall' : ∀ x ∈ is, x < P.dim := fun x hx => hall x (by simp [hx])
    simp only [bestAxisLoop]
    have hlen : 0 < pts.length := by
      cases pts with
      | nil => exact absurd rfl hne
      | cons _ _ => simp
    generalize hdev : (if P.bitLength - levels.getD i 0 > 0 then
        max (pts.length - countBelow pts i ((base.getD i 0 + 2 ^ (P.bitLength - levels.getD i 0 - 1)) % 2^32))
          (countBelow pts i ((base.getD i 0 + 2 ^ (P.bitLength - levels.getD i 0 - 1)) % 2^32))
      else 0) = dev
    have hdevpos : P.bitLength - levels.getD i 0 ≠ 0 → 0 < dev := by
      intro hn
      rw [← hdev]
      simp only [show P.bitLength - levels.getD i 0 > 0 by omega, if_true]
      omega
    by_cases hup : P.bitLength - levels.getD i 0 ≠ 0 ∧ mb.1 < dev
    · rw [if_pos hup]
      obtain ⟨r1, r2⟩ := ih (dev, i) hall' hi (fun _ => hup.1)
      refine ⟨r1, fun h0 => ?_⟩
      have := (r2 h0).1
      simp only at this
      omega
    · rw [if_neg hup]
      obtain ⟨r1, r2⟩ := ih mb hall' h2 h3
      refine ⟨r1, fun h0 => ?_⟩
      obtain ⟨q1, q2⟩ := r2 h0
      refine ⟨q1, ?_⟩
      intro x hx
      simp only [List.mem_cons] at hx
      rcases hx with hx | hx
      · subst hx
        by_cases hn : P.bitLength - levels.getD x 0 = 0
        · exact hn
        · have := hdevpos hn
          exact absurd ⟨hn, by omega⟩ hup
      · exact q2 x hx

theorem bestAxis_lt (P : Params) (pts : List (List Nat)) (base levels : List Nat) (hne : pts ≠ [])
    (hdim : 1 ≤ P.dim) : bestAxis P pts base levels < P.dim :=
  (bestAxisLoop_spec P pts base levels hne (List.range P.dim) (0, 0)
    (by intro i hi; simpa using hi) (by simp only; omega) (by simp)).1

/-- if the chosen axis cannot be split, no axis can -/
theorem bestAxis_full (P : Params) (pts : List (List Nat)) (base levels : List Nat) (hne : pts ≠ [])
    (hdim : 1 ≤ P.dim) (h : P.bitLength - levels.getD (bestAxis P pts base levels) 0 = 0) :
    ∀ i < P.dim, P.bitLength - levels.getD i 0 = 0 := by
  have := (bestAxisLoop_spec P pts base levels hne (List.range P.dim) (0, 0)
    (by intro i hi; simpa using hi) (by simp only; omega) (by simp)).2 h
  intro i hi
  exact this.2 i (by simpa using hi)

/-! ### bits -/

/-- `old_base | value` for an aligned base and a value below the alignment -/
theorem or_low (b v k : Nat) (hb : b % 2^k = 0) (hv : v < 2^k) : b ||| v = b + v := by
  have e : 2^k * (b / 2^k) = b := by
    have := Nat.div_add_mod b (2^k)
    omega
  have := Nat.two_pow_add_eq_or_of_lt hv (b / 2^k)
  rw [e] at this
  exact this.symm

/-- the low bits of a coordinate inside an aligned cell -/
theorem mod_cell (b p k : Nat) (hb : b % 2^k = 0) (h1 : b ≤ p) (h2 : p < b + 2^k) :
    p % 2^k = p - b := by
  have e : 2^k * (b / 2^k) = b := by
    have := Nat.div_add_mod b (2^k)
    omega
  have hp : p = 2^k * (b / 2^k) + (p - b) := by omega
  rw [hp, Nat.mul_add_mod, Nat.mod_eq_of_lt (by omega)]
  omega

theorem align_half (b k : Nat) (hk : 1 ≤ k) (hb : b % 2^k = 0) : b % 2^(k-1) = 0 := by
  obtain ⟨m, rfl⟩ : ∃ m, k = m + 1 := ⟨k - 1, by omega⟩
  simp only [Nat.add_sub_cancel]
  rw [Nat.pow_succ] at hb
  have := Nat.mod_mul_left_mod b (2^m) 2
  rw [Nat.mul_comm] at hb
  rw [← Nat.mod_mul_left_mod b 2 (2^m), hb]
  simp

theorem align_upper (b k : Nat) (hk : 1 ≤ k) (hb : b % 2^k = 0) : (b + 2^(k-1)) % 2^(k-1) = 0 := by
  rw [Nat.add_mod, align_half b k hk hb]
  simp

end Draco.Kd
