import DracoProofs.Yields
/-
  C17 (d): AdaptiveRAnsBitEncoder / AdaptiveRAnsBitDecoder round trip, for any probability
  model whose clamped probabilities stay in [1, 255].
-/
namespace Draco

/-- every probability handed to rABS is in [1, 255] (what `clamp_probability` guarantees) -/
def ProbModel.OK (pm : ProbModel) : Prop := ∀ s, ProbOK (pm.p0 s)

/-- the (bit, p0) pairs of the forward pass of `EndEncoding` -/
def pairsFwd (pm : ProbModel) : pm.σ → List Bool → List (Bool × Nat)
  | _, [] => []
  | s, b :: bs => (b, pm.p0 s) :: pairsFwd pm (pm.update s b) bs

theorem pairsFwd_length (pm : ProbModel) : ∀ (bs : List Bool) (s : pm.σ),
    (pairsFwd pm s bs).length = bs.length := by
  intro bs
  induction bs with
  | nil => intro s; rfl
  | cons b bs ih => intro s; simp [pairsFwd, ih]

theorem pairsFwd_ok (pm : ProbModel) (hpm : pm.OK) : ∀ (bs : List Bool) (s : pm.σ),
    ∀ x ∈ pairsFwd pm s bs, ProbOK x.2 := by
  intro bs
  induction bs with
  | nil => intro s x hx; simp [pairsFwd] at hx
  | cons b bs ih =>
    intro s x hx
    simp only [pairsFwd, List.mem_cons] at hx
    rcases hx with h | h
    · subst h; exact hpm s
    · exact ih _ x h

theorem adaptiveP0s_eq (pm : ProbModel) : ∀ (bs : List Bool) (s : pm.σ) (acc : List (Bool × Nat)),
    adaptiveP0s pm bs s acc = (pairsFwd pm s bs).reverse ++ acc := by
  intro bs
  induction bs with
  | nil => intro s acc; simp [adaptiveP0s, pairsFwd]
  | cons b bs ih => intro s acc; simp [adaptiveP0s, pairsFwd, ih]

theorem adaptive_foldl_op : ∀ (ops : List BitOp) (e : AdaptiveEnc),
    ops.foldl AdaptiveEnc.op e = (opsBits ops).reverse ++ e := by
  intro ops
  induction ops with
  | nil => intro e; simp [opsBits]
  | cons op ops ih =>
    intro e
    rw [List.foldl_cons, ih]
    cases op <;> simp [AdaptiveEnc.op, opsBits, BitOp.bits]

theorem adaptive_yields (pm : ProbModel) : ∀ (F : List Bool) (s : pm.σ) (d : AnsDecoder),
    RawYields d (pairsFwd pm s F) → Yields (AdaptiveDec.nextBit (pm := pm)) ⟨s, d⟩ F := by
  intro F
  induction F with
  | nil => intro s d _; trivial
  | cons b F ih =>
    intro s d h
    obtain ⟨h1, h2⟩ := h
    refine ⟨h1, ?_⟩
    simp only [AdaptiveDec.nextBit, h1]
    exact ih _ _ h2

theorem adaptiveFinish_eq (tab : List (Nat × Nat)) (pm : ProbModel) (F : List Bool) :
    AdaptiveEnc.finish tab pm F.reverse =
      writeLE 4 ((ansWriteEnd (writePairs tab (pairsFwd pm pm.init F).reverse ansWriteInit)).length
        % 2^32) ++ ansWriteEnd (writePairs tab (pairsFwd pm pm.init F).reverse ansWriteInit) := by
  simp only [AdaptiveEnc.finish, List.reverse_reverse, adaptiveP0s_eq, List.append_nil]
  rfl

/-- `StartDecoding` on a size-prefixed block `body` (kept opaque: the reader functions must
    never be unfolded on concrete encoder output) -/
theorem adaptiveStart_bytes (pm : ProbModel) (hdr body rest : Bytes) (d : AnsDecoder)
    (hhdr : readLE 4 (hdr ++ (body ++ rest)) = some (body.length, body ++ rest))
    (hinit : ansReadInit body = some d) :
    adaptiveStart pm (hdr ++ (body ++ rest)) = some (⟨pm.init, d⟩, rest) := by
  unfold adaptiveStart
  rw [hhdr]
  have e2 : ¬ body.length > (body ++ rest).length := by simp
  simp only [e2, if_false, List.take_left', List.drop_left', hinit]

theorem adaptiveStart_block (pm : ProbModel) (a : AnsCoder) (ha : a.Valid)
    (hlt : (ansWriteEnd a).length < 2^32) (rest : Bytes) :
    adaptiveStart pm ((writeLE 4 ((ansWriteEnd a).length % 2^32) ++ ansWriteEnd a) ++ rest) =
      some (⟨pm.init, a.toDec⟩, rest) := by
  rw [List.append_assoc]
  have hinit := ansReadInit_writeEnd a ha
  generalize ansWriteEnd a = body at *
  apply adaptiveStart_bytes pm _ body rest _ _ hinit
  rw [readLE_writeLE, Nat.mod_eq_of_lt hlt]
  have : body.length % 256^4 = body.length := Nat.mod_eq_of_lt (by simpa using hlt)
  rw [this]

/-- the coder-level statement: after `StartDecoding` the decoder yields the encoder's bits -/
theorem adaptive_start_finish (tab : List (Nat × Nat)) (hd : DivOK tab) (pm : ProbModel)
    (hpm : pm.OK) (F : List Bool) (hlen : F.length + 3 < 2^32) (rest : Bytes) :
    ∃ d, adaptiveStart pm (AdaptiveEnc.finish tab pm F.reverse ++ rest) = some (d, rest) ∧
      Yields AdaptiveDec.nextBit d F := by
  have hps : ∀ x ∈ pairsFwd pm pm.init F, ProbOK x.2 := pairsFwd_ok pm hpm F pm.init
  rw [adaptiveFinish_eq]
  have hchain := rabs_chain tab hd (pairsFwd pm pm.init F) ansWriteInit
  have hva := writePairs_valid tab hd (pairsFwd pm pm.init F).reverse _ ansWriteInit_valid
    (fun y hy => hps y (by simpa using hy))
  have hol := writePairs_out_length tab (pairsFwd pm pm.init F).reverse ansWriteInit
  rw [List.length_reverse, pairsFwd_length] at hol
  generalize writePairs tab (pairsFwd pm pm.init F).reverse ansWriteInit = a at *
  have hol' : a.out.length ≤ F.length := by
    have : ansWriteInit.out.length = 0 := rfl
    omega
  obtain ⟨hl1, _⟩ := ansWriteEnd_length a hva
  refine ⟨⟨pm.init, a.toDec⟩, adaptiveStart_block pm a hva (by omega) rest, ?_⟩
  apply adaptive_yields
  exact hchain a.toDec ansWriteInit_valid hps (ansPull_of_ge _ hva.1)

theorem adaptive_stdStep (pm : ProbModel) :
    StdStep (AdaptiveDec.nextBit (pm := pm)) AdaptiveDec.req := by
  intro d
  constructor
  · simp only [AdaptiveDec.req]
  · intro n; simp only [AdaptiveDec.req]

theorem adaptiveDecode_of_start (pm : ProbModel) (reqs : List BitReq) (input rest : Bytes)
    (d : AdaptiveDec pm) (h : adaptiveStart pm input = some (d, rest)) :
    adaptiveDecode pm reqs input = some ((runReqs AdaptiveDec.req reqs d []).1, rest) := by
  unfold adaptiveDecode
  rw [h]

theorem adaptive_decode_encode (tab : List (Nat × Nat)) (hd : DivOK tab) (pm : ProbModel)
    (hpm : pm.OK) (ops : List BitOp) (hv : ∀ op ∈ ops, op.Valid)
    (hlen : (opsBits ops).length + 3 < 2^32) (rest : Bytes) :
    adaptiveDecode pm (ops.map BitOp.req) (adaptiveEncode tab pm ops ++ rest) =
      some (ops.map BitOp.value, rest) := by
  have henc : adaptiveEncode tab pm ops = AdaptiveEnc.finish tab pm (opsBits ops).reverse := by
    unfold adaptiveEncode
    rw [adaptive_foldl_op, List.append_nil]
  obtain ⟨d, h1, h2⟩ := adaptive_start_finish tab hd pm hpm (opsBits ops) hlen rest
  rw [← henc] at h1
  rw [adaptiveDecode_of_start pm _ _ rest d h1]
  have hy : Yields AdaptiveDec.nextBit d (opsBits ops ++ []) := by simpa using h2
  obtain ⟨r1, _⟩ := runReqs_std AdaptiveDec.nextBit AdaptiveDec.req
    (adaptive_stdStep pm) ops d [] [] hv hy
  simp only [r1, List.reverse_nil, List.nil_append]

end Draco
