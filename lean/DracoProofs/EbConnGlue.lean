import DracoProofs.EbConnNoOpp
/-
  GLUE between the byte level and the loop level of the connectivity link, for runs WITHOUT attribute data and WITHOUT
  topology split events (standard traversal): what remains for the link of such a run is the result of the pure
  connectivity loop (`hloop`) and the isomorphism `CTIso`.

  (G1) `runs_decodeConnectivity_of_loop` (`…'`): arbitrary counts `nv nf`, symbols (encoding order), start-face bits: IF
       `connLoop ⟨nf, nv, symbols.size, [], true⟩ tr = .ok co` for EVERY traversal state that `Delivers` the reversed
       symbols and the bits (the shape of the hypotheses of `ConnTri.connLoop_triangles`), THEN `decodeConnectivity`
       reads `0 :: linkBody ch nv nf symbols sfb`, whatever follows, and returns `meshOf nf co tg`.  The side conditions
       are the pure inequalities the stage checks; `decodeSeams` / `assignPoints` / `buildAttConn` without attribute
       data are proved in general (`decodeSeams_noatt`, `assignPoints_noatt`).
  (G2) `encode_bytes_splitfree` (`…'`): from the stage results (`ConnTri.encodeConnectivity_stages`) of ANY faces: a run
       with no split symbol and no split event wrote `linkBody` with `nv = num_vertices − isolated`,
       `nf = num_faces − degenerated`, its symbols and its recorded start-face bits (`startFace_of_main`: the start-face
       encoder holds exactly `startFaces`: invariant of `outerBody`).
  (G3) `link_of_loop` (`…'`): (G1) + (G2) ⇒ `ConnNoOpp.EbConnectivityRoundtrip' ch false pf #[]` for every `ch`, GIVEN
       `hloop` and `CTIso (CT.ofTable tbl) processed nf co.c2v co.opp`.
-/
namespace Draco.EbEnc.ConnGlue
open Draco Draco.SeqEnc DecM
open Draco.Eb hiding iabs nextC prevC
open Draco.EbEnc.ConnExample (RunsX)
open Draco.EbEnc.ConnTri
open Draco.EbEnc.EncCounts

/-- the symbol buffer of a symbol list in encoding order (`= ConnPure.symBodyOf`) -/
def symBuf (symbols : Array Nat) : Bytes := packBits (traversalBits symbols)

theorem ets_symBuf (symbols : Array Nat) :
    encodeTraversalSymbols symbols = encVarint (symBuf symbols).length ++ symBuf symbols := by
  simp [encodeTraversalSymbols_eq, encBitRegion, symBuf]

theorem symBuf_read (symbols : Array Nat) (hs : ∀ s ∈ symbols.toList, IsTopo s) (rest : Bytes) :
    (readStdSymbols symbols.size (BitReader.start (symBuf symbols ++ rest))).1 = symbols.toList.reverse := by
  obtain ⟨pad, hpad⟩ := packBits_stream _ (traversalBits symbols) (Nat.le_refl _)
  have hstream : (BitReader.start (symBuf symbols ++ rest)).stream =
      symbols.toList.reverse.flatMap symbolBits ++ (pad ++ rest.flatMap (bitsOf 8)) := by
    rw [stream_start, List.flatMap_append, symBuf, hpad, List.append_assoc]; rfl
  have h := readStdSymbols_stream symbols.toList.reverse _ _
    (fun s hx => hs s (by simpa using hx)) (by simp [BitReader.start]) hstream
  have hsz : symbols.toList.reverse.length = symbols.size := by simp
  rw [hsz] at h
  exact h.1

theorem symbolBits_le (s : Nat) (h : IsTopo s) : (symbolBits s).length ≤ 3 := by
  rcases h with h | h | h | h | h <;> subst h <;> decide

theorem flatMap_len_le (l : List Nat) (h : ∀ s ∈ l, IsTopo s) : (l.flatMap symbolBits).length ≤ 3 * l.length := by
  induction l with
  | nil => simp
  | cons a l ih =>
    have h1 := symbolBits_le a (h a (by simp))
    have h2 := ih (fun s hs => h s (by simp [hs]))
    simp only [List.flatMap_cons, List.length_append, List.length_cons]
    omega

theorem symBuf_length_le (symbols : Array Nat) (hs : ∀ s ∈ symbols.toList, IsTopo s) :
    (symBuf symbols).length ≤ (3 * symbols.size + 7) / 8 := by
  rw [symBuf, packBits_length _ _ (Nat.le_refl _)]
  have := flatMap_len_le symbols.toList.reverse (fun s h => hs s (by simpa using h))
  simp only [List.length_reverse, Array.length_toList] at this
  unfold traversalBits
  omega

/-- the symbols a reader delivers, position by position -/
theorem readStd_get : ∀ (n : Nat) (r : BitReader) (L : List Nat), (readStdSymbols n r).1 = L →
    ∀ i, i < n → (decodeSymbolStd (RdS r i)).1 = L[i]! := by
  intro n
  induction n with
  | zero => intro r L _ i hi; omega
  | succ n ih =>
    intro r L h i hi
    simp only [readStdSymbols] at h
    subst h
    cases i with
    | zero => rfl
    | succ i =>
      rw [Rd_succ]
      have := ih (decodeSymbolStd r).2 _ rfl i (by omega)
      rw [this]
      simp

/-- `StartDecoding` of the traversal decoder on an arbitrary symbol buffer `body` and start-face buffer `sf` -/
theorem startTraversal_gen (body sf : Bytes) (nv nf : Nat) (extra : Bytes) (d : RAnsBitDec)
    (hlen : body.length < 2 ^ 64) (hd : ransBitStart false (sf ++ extra) = some (d, extra)) :
    RunsX (startTraversal 514 0 0 nv nf) 514 (encVarint body.length ++ (body ++ sf)) extra
      (travK d (body ++ sf ++ extra)) 514 := by
  unfold startTraversal
  simp only [exLeg, ↓reduceIte, decide_false]
  refine RunsX.bind0 (RunsX.remaining _ _) ?_
  refine RunsX.bind0 (RunsX.ofRuns (Runs.tag _ 514) _) ?_
  rw [if_pos (by decide)]
  refine RunsX.bind (RunsX.ofRuns (Runs.lift (a := body.length) (fun e => by
    simp only [readBitRegionSize, Bool.false_eq_true, if_false]
    exact decVarint_enc (w := 64) (by simp) _ hlen e) 514) _) ?_
  refine RunsX.bind0 (RunsX.peekRest _ _) ?_
  refine RunsX.bind0 (RunsX.ofRuns (Runs.require (by simp) 514) _) ?_
  refine RunsX.bind (RunsX.ofRuns (Runs.lift (a := ()) (fun e => by simp [skipBytes]) 514) _) ?_
  refine RunsX.bind0 (RunsX.remaining _ _) ?_
  refine RunsX.bind' (b2 := []) (a := d) (RunsX.lift (by rw [List.nil_append]; exact hd) 514) (List.append_nil _).symm ?_
  refine RunsX.bind0 (RunsX.remaining _ _) ?_
  refine RunsX.bind0 (RunsX.ofRuns (Runs.tag _ 514) _) ?_
  refine RunsX.bind0 (a := []) (RunsX.pure _ _ _) ?_
  rw [if_pos (by decide)]
  exact RunsX.pure _ _ _

/-- the edge-count requirement of `DecodeConnectivity` in `uint64` arithmetic, from the pure inequality -/
theorem edges_gen (nv nf : Nat) (h : nv < 2 ^ 31) (he : 3 * nf / 2 ≤ nv * (nv - 1) / 2) :
    3 * nf / 2 ≤ toUnsigned 64 (toSigned 32 nv) * ((toUnsigned 64 (toSigned 32 nv) + 2 ^ 64 - 1) % 2 ^ 64) % 2 ^ 64 / 2 := by
  rw [tu_ts nv h]
  rcases Nat.eq_zero_or_pos nv with h0 | h0
  · subst h0; simpa using he
  · have e1 : (nv + 2 ^ 64 - 1) % 2 ^ 64 = nv - 1 := by omega
    rw [e1]
    have hb : nv * (nv - 1) ≤ 2 ^ 31 * 2 ^ 31 := Nat.mul_le_mul (by omega) (by omega)
    have e2 : nv * (nv - 1) % 2 ^ 64 = nv * (nv - 1) := Nat.mod_eq_of_lt (by omega)
    rw [e2]; exact he

theorem assignPoints_noatt (co : ConnOut) (nf : Nat) : assignPoints co nf #[] = .ok (co.c2v, co.numConnVerts, 0) := by
  simp [assignPoints, pure, Except.pure]

theorem attConns_noatt (co : ConnOut) :
    (Array.mapM (fun sc => buildAttConn co.c2v co.opp co.vc sc) (#[] : Array (Array Nat))) = .ok #[] := by
  simp [pure, Except.pure]

theorem map_ite'' {α β : Type} {c : Prop} [Decidable c] (g : α → β) (a b : R α) :
    g <$> (if c then a else b) = if c then g <$> a else g <$> b := by split <;> rfl

theorem map_ok_inv {α β : Type} {g : α → β} {x : R α} {v : β} (h : g <$> x = .ok v) : ∃ o, x = .ok o ∧ g o = v := by
  cases x with
  | error e => cases h
  | ok o => exact ⟨o, rfl, Except.ok.inj h⟩

theorem bind_forIn_ex {σ β : Type} (n : Nat) (f : Nat → σ → R (ForInStep σ)) (init : σ) (tail : σ → R β)
    (I : Nat → σ → Prop) (P : β → Prop) (h0 : I 0 init)
    (hstep : ∀ i s, i < n → I i s → ∃ s', f i s = .ok (.yield s') ∧ I (i + 1) s')
    (htail : ∀ s, I n s → ∃ r, tail s = .ok r ∧ P r) :
    ∃ r, (forIn [0:n] init f >>= tail) = .ok r ∧ P r := by
  obtain ⟨out, h1, h2⟩ := forIn_list_total f I n 0 init h0 (fun i s _ hi hI => hstep i s (by omega) hI)
  obtain ⟨r, h3, h4⟩ := htail out (by simpa using h2)
  refine ⟨r, ?_, h4⟩
  rw [Std.Legacy.Range.forIn_eq_forIn_range']
  simp only [Std.Legacy.Range.size, Nat.sub_zero, Nat.add_sub_cancel, Nat.div_one]
  rw [h1]
  exact h3

def seamProj (o : ForInStep (Array (Array Nat) × Array RAnsBitDec × Nat)) : Bool × Array (Array Nat) × Array RAnsBitDec :=
  match o with
  | .yield s => (true, s.1, s.2.1)
  | .done s => (false, s.1, s.2.1)

theorem step_of_proj {x : R (ForInStep (Array (Array Nat) × Array RAnsBitDec × Nat))}
    (h : seamProj <$> x = .ok (true, #[], #[])) : ∃ s', x = .ok (.yield s') ∧ (s'.1 = #[] ∧ s'.2.1 = #[]) := by
  obtain ⟨o, ho, hp⟩ := map_ok_inv h
  cases o with
  | done s => simp [seamProj] at hp
  | yield s =>
    simp only [seamProj, Prod.mk.injEq, true_and] at hp
    exact ⟨s, ho, hp⟩

set_option maxRecDepth 100000 in
set_option maxHeartbeats 4000000 in
/-- without attribute data `DecodeAttributeConnectivitiesOnFace` only collects tags -/
theorem decodeSeams_noatt (opp : Array Nat) (nf : Nat) (hsz : opp.size = 3 * nf) (hnf : 3 * nf < 2 ^ 31) :
    ∃ r, decodeSeams false opp nf 0 #[] = .ok r ∧ r.1 = #[] := by
  unfold decodeSeams
  dsimp only
  refine bind_forIn_ex nf _ _ _ (fun _ s => s.1 = #[] ∧ s.2.1 = #[]) _ ⟨rfl, rfl⟩ ?_ ?_
  · intro i s hi hI
    obtain ⟨seams, decs, tags⟩ := s
    obtain ⟨h1, h2⟩ := hI
    simp only at h1 h2
    subst h1 h2
    refine step_of_proj ?_
    have h0 : 3 * i < opp.size := by omega
    have h1 : 3 * i + 1 < opp.size := by omega
    have h2 : 3 * i + 2 < opp.size := by omega
    have h4 : 3 * i ≠ 4294967295 := by omega
    have h5 : 3 * i + 1 ≠ 4294967295 := by omega
    have h6 : 3 * i + 2 ≠ 4294967295 := by omega
    simp [Eb.opposite, rd, h0, h1, h2, h4, h5, h6, inv, Eb.nextC, Eb.prevC, bind, Except.bind, pure,
      Except.pure, Std.Legacy.Range.forIn_eq_forIn_range', Std.Legacy.Range.size]
    split_ifs <;> rfl
  · intro s hs
    exact ⟨_, rfl, hs.1⟩

/-! ### (G1) the decoder on the byte layout, from the result of the connectivity loop -/

/-- the connectivity bytes behind the traversal-coder byte: encoded vertices, faces, 0 attribute data, symbols, 0 split
    symbols, 0 topology split events, the symbol buffer with its size, the start-face bit buffer -/
def linkBody (ch : ConnChoices) (nv nf : Nat) (symbols : Array Nat) (sfb : List Bool) : Bytes :=
  encVarint nv ++ (encVarint nf ++ (0 :: (encVarint symbols.size ++ (0 :: 0 ::
    (encVarint (symBuf symbols).length ++ (symBuf symbols ++ finishBits ch (encodeBits sfb)))))))

/-- the mesh `decodeConnectivity` returns without attribute data -/
def meshOf (nf : Nat) (co : ConnOut) (tg : Nat) : Eb.Mesh :=
  { numFaces := nf, c2v := co.c2v, opp := co.opp, vc := co.vc, atts := #[], faces := co.c2v, numPoints := co.numConnVerts,
    tags := co.tags ||| tg ||| 0 }

/-- what the delivery hypotheses of the loop theorems look like: a standard, non-legacy traversal state that delivers
    the symbols `syms` (decoding order) and the start-face bits `sfb` -/
def Delivers (tr : Trav) (syms : List Nat) (sfb : List Bool) : Prop :=
  tr.kind = 0 ∧ tr.legacy = false ∧ (∀ i, i < syms.length → (decodeSymbolStd (RdS tr.sym i)).1 = syms[i]!) ∧
    Yields RAnsBitDec.nextBit tr.startFace sfb

/-- **(G1) `runs_decodeConnectivity_of_loop`**: no attribute data, no split events.  IF the connectivity loop, on EVERY
    traversal state that delivers the symbols (reversed encoding order) and the start-face bits, returns `co`, and the
    side conditions the stage checks hold, THEN `decodeConnectivity` reads the byte layout `0 :: linkBody …`, whatever
    follows, and returns the mesh made of `co`. -/
theorem runs_decodeConnectivity_of_loop (ch : ConnChoices) (nv nf : Nat) (symbols : Array Nat) (sfb : List Bool)
    (co : ConnOut) (hs : ∀ s ∈ symbols.toList, IsTopo s) (hnf : nf ≤ 2 ^ 21) (hnv : nv ≤ 3 * 2 ^ 21) (hnv3 : nv ≤ nf * 3)
    (hedge : 3 * nf / 2 ≤ nv * (nv - 1) / 2) (hsz1 : symbols.size ≤ nf) (hsz2 : nf ≤ symbols.size + symbols.size / 3)
    (hsfb : sfb.length + 3 < 2 ^ 32) (hopp : co.opp.size = 3 * nf)
    (hloop : ∀ tr, Delivers tr symbols.toList.reverse sfb →
      connLoop ⟨nf, nv, symbols.size, [], true⟩ tr = .ok co) :
    ∃ tg, Runs decodeConnectivity 514 (0 :: linkBody ch nv nf symbols sfb) (meshOf nf co tg) 514 := by
  obtain ⟨⟨sc, tg⟩, hseams, hsc⟩ := decodeSeams_noatt co.opp nf hopp (by omega)
  simp only at hsc
  subst hsc
  refine ⟨tg, RunsX.toRuns fun extra => ?_⟩
  obtain ⟨d, hd, hy⟩ := bit_buffer_roundtrip ch sfb hsfb extra
  have hblen := symBuf_length_le symbols hs
  unfold decodeConnectivity linkBody
  refine RunsX.bind0 (RunsX.ofRuns (Runs.version 514) _) ?_
  simp only [exLeg, exLeg1, ↓reduceIte, decide_false]
  refine RunsX.bind1 (RunsX.ofRuns (Runs.rdU8 _ 514) _) ?_
  simp only [show ((0 : Nat) == 1) = false from rfl, Bool.false_eq_true, ↓reduceIte]
  refine RunsX.bind0 (RunsX.remaining _ _) ?_
  refine RunsX.bind0 (RunsX.ofRuns (Runs.tag _ 514) _) ?_
  refine RunsX.bind0 (RunsX.ofRuns (Runs.require (by decide) 514) _) ?_
  simp only [exCountV]
  refine RunsX.bind (RunsX.ofRuns (Runs.varint32 nv 514 (by omega)) _) ?_
  refine RunsX.bind (RunsX.ofRuns (Runs.varint32 nf 514 (by omega)) _) ?_
  refine RunsX.bind0 (RunsX.ofRuns (Runs.require (by simp; omega) 514) _) ?_
  refine RunsX.bind0 (RunsX.ofRuns (Runs.require (by simp; omega) 514) _) ?_
  refine RunsX.bind0 (RunsX.ofRuns (Runs.require (decide_eq_true (edges_gen nv nf (by omega) hedge)) 514) _) ?_
  refine RunsX.bind1 (RunsX.ofRuns (Runs.rdU8 _ 514) _) ?_
  refine RunsX.bind (RunsX.ofRuns (Runs.varint32 symbols.size 514 (by omega)) _) ?_
  refine RunsX.bind0 (RunsX.ofRuns (Runs.require (by simp; omega) 514) _) ?_
  refine RunsX.bind0 (RunsX.ofRuns (Runs.require (by simp; omega) 514) _) ?_
  refine RunsX.bind1 (RunsX.ofRuns (ConnExample.rdVar 0 514 (by decide)) _) ?_
  refine RunsX.bind0 (RunsX.ofRuns (Runs.require (by simp) 514) _) ?_
  refine RunsX.bind0 (RunsX.ofRuns (Runs.alloc _ _ 514) _) ?_
  have hnvm : (nv + 0) % 2 ^ 32 = nv := by omega
  rw [hnvm]
  refine RunsX.bind0 (RunsX.ofRuns (Runs.require (by simp; omega) 514) _) ?_
  refine RunsX.bind0 (RunsX.ofRuns (Runs.declare _ 514) _) ?_
  refine RunsX.bind0 (RunsX.ofRuns (Runs.alloc _ _ 514) _) ?_
  refine RunsX.bind0 (RunsX.ofRuns (Runs.alloc _ _ 514) _) ?_
  refine RunsX.bind0 (RunsX.ofRuns (Runs.alloc _ _ 514) _) ?_
  refine RunsX.bind0 (RunsX.ofRuns (Runs.alloc _ _ 514) _) ?_
  rw [if_neg (by simp [modelCap]; omega)]
  refine RunsX.bind0 (RunsX.remaining _ _) ?_
  refine RunsX.bind1 (RunsX.ofRuns (exSplitsK nf) _) ?_
  refine RunsX.bind0 (RunsX.remaining _ _) ?_
  refine RunsX.bind0 (RunsX.ofRuns (Runs.tag _ 514) _) ?_
  refine RunsX.bind' (b2 := []) (startTraversal_gen (symBuf symbols) _ _ _ extra d (by omega) hd) (List.append_nil _).symm ?_
  refine RunsX.bind0 (RunsX.remaining _ _) ?_
  refine RunsX.bind0 (RunsX.ofRuns (Runs.tag _ 514) _) ?_
  have hco : connLoop ⟨nf, nv, symbols.size, [], (0 : Nat) == 0⟩ (travK d (symBuf symbols ++ finishBits ch (encodeBits sfb) ++ extra)) = .ok co := by
    refine hloop _ ⟨rfl, rfl, ?_, hy⟩
    intro i hi
    have hi' : i < symbols.size := by simpa using hi
    refine readStd_get symbols.size _ _ ?_ i hi'
    show (readStdSymbols symbols.size (BitReader.start (symBuf symbols ++ finishBits ch (encodeBits sfb) ++ extra))).1 = _
    rw [List.append_assoc]; exact symBuf_read symbols hs _
  refine RunsX.bind0 (RunsX.ofRuns (Runs.liftR hco 514) _) ?_
  refine RunsX.bind0 (RunsX.ofRuns (Runs.tag _ 514) _) ?_
  refine RunsX.bind0 (RunsX.ofRuns (Runs.liftR hseams 514) _) ?_
  refine RunsX.bind0 (RunsX.ofRuns (Runs.liftR (attConns_noatt co) 514) _) ?_
  refine RunsX.bind0 (RunsX.ofRuns (Runs.alloc _ _ 514) _) ?_
  refine RunsX.bind0 (RunsX.ofRuns (Runs.liftR (assignPoints_noatt co nf) 514) _) ?_
  exact RunsX.pure _ _ _

/-- the form asked for: some mesh with the tables of `co` -/
theorem runs_decodeConnectivity_of_loop' (ch : ConnChoices) (nv nf : Nat) (symbols : Array Nat) (sfb : List Bool)
    (co : ConnOut) (hs : ∀ s ∈ symbols.toList, IsTopo s) (hnf : nf ≤ 2 ^ 21) (hnv : nv ≤ 3 * 2 ^ 21) (hnv3 : nv ≤ nf * 3)
    (hedge : 3 * nf / 2 ≤ nv * (nv - 1) / 2) (hsz1 : symbols.size ≤ nf) (hsz2 : nf ≤ symbols.size + symbols.size / 3)
    (hsfb : sfb.length + 3 < 2 ^ 32) (hopp : co.opp.size = 3 * nf)
    (hloop : ∀ tr, Delivers tr symbols.toList.reverse sfb →
      connLoop ⟨nf, nv, symbols.size, [], true⟩ tr = .ok co) :
    ∃ mesh, Runs decodeConnectivity 514 (0 :: linkBody ch nv nf symbols sfb) mesh 514 ∧ mesh.numFaces = nf ∧
      mesh.c2v = co.c2v ∧ mesh.opp = co.opp ∧ mesh.vc = co.vc ∧ mesh.atts = #[] ∧ mesh.faces = co.c2v ∧
      mesh.numPoints = co.numConnVerts := by
  obtain ⟨tg, h⟩ := runs_decodeConnectivity_of_loop ch nv nf symbols sfb co hs hnf hnv hnv3 hedge hsz1 hsz2 hsfb hopp hloop
  exact ⟨meshOf nf co tg, h, rfl, rfl, rfl, rfl, rfl, rfl, rfl⟩

/-! ### the start-face encoder of the main loop -/

/-- the start-face encoder holds exactly the recorded start-face bits -/
def SFInv (s : OSt) : Prop := s.2.2.2.2.2.1 = encodeBits s.2.2.2.2.2.2.1.toList

theorem encodeBits_push (sfs : Array Bool) (b : Bool) :
    (encodeBits sfs.toList).encodeBit b = encodeBits (sfs.push b).toList := by
  simp [encodeBits, List.foldl_append]

set_option linter.unusedVariables false in
theorem outerTail_sf {t : CT} {holeId : Array Nat} {valence : Bool} {nfa : Nat} {val : ValEnc} {sy : Array Nat}
    {sf : RAnsBitEnc} {sfs : Array Bool} {P : Array Nat} {sp : Array TopoSplit} {f2s : Array Nat} {ls : Int} {nss : Nat}
    {vf vv vh : Array Bool} {I : Array Nat} {from_ : Nat} {r : ForInStep OSt}
    (hb : outerTail t holeId valence nfa val sy sf sfs P sp f2s ls nss () vf vv vh I from_ = .ok r) :
    (stepVal r).2.2.2.2.2.1 = sf ∧ (stepVal r).2.2.2.2.2.2.1 = sfs := by
  unfold outerTail at hb
  rcases ite_ok hb with ⟨_, hb⟩ | ⟨_, hb⟩
  · rw [pure_ok hb]; exact ⟨rfl, rfl⟩
  obtain ⟨s2, hloop, hb⟩ := (bind_ok_iff _ _ _).mp hb
  rcases ite_ok hb with ⟨_, hb⟩ | ⟨_, hb⟩
  · exact (throw_bind_ne hb).elim
  · rw [pure_ok hb]; exact ⟨rfl, rfl⟩

theorem outerBody_sf {t : CT} {holeId : Array Nat} {valence : Bool} {nfa : Nat}
    (cId : Nat) (s : OSt) (r : ForInStep OSt) (hI : SFInv s)
    (hb : outerBody t holeId valence nfa cId s = .ok r) : SFInv (stepVal r) := by
  obtain ⟨vf, vv, vh, val, sy, sf, sfs, P, ifc, sp, f2s, ls, nss⟩ := s
  have hI' : sf = encodeBits sfs.toList := hI
  have fin : ∀ {b : Bool} {vf vv vh I from_} , outerTail t holeId valence nfa val sy (sf.encodeBit b) (sfs.push b) P sp f2s ls nss ()
      vf vv vh I from_ = .ok r → SFInv (stepVal r) := by
    intro b vf vv vh I from_ h
    obtain ⟨h1, h2⟩ := outerTail_sf h
    unfold SFInv
    rw [h1, h2, hI', encodeBits_push]
  unfold outerBody at hb
  obtain ⟨b, hb1, hb⟩ := (bind_ok_iff _ _ _).mp hb
  rcases ite_ok hb with ⟨_, hb⟩ | ⟨hnv, hb⟩
  · rw [pure_ok hb]; exact hI
  obtain ⟨d, hd, hb⟩ := (bind_ok_iff _ _ _).mp hb
  rcases ite_ok hb with ⟨_, hb⟩ | ⟨hnd, hb⟩
  · rw [pure_ok hb]; exact hI
  obtain ⟨x, hx, hb⟩ := (bind_ok_iff _ _ _).mp hb
  obtain ⟨interior, sc⟩ := x
  simp only [] at hb
  rcases ite_ok hb with ⟨hint, hb⟩ | ⟨hnint, hb⟩
  · obtain ⟨v0, hv0, hb⟩ := (bind_ok_iff _ _ _).mp hb
    obtain ⟨v1, hv1, hb⟩ := (bind_ok_iff _ _ _).mp hb
    obtain ⟨v2, hv2, hb⟩ := (bind_ok_iff _ _ _).mp hb
    obtain ⟨vv1, hvv1, hb⟩ := (bind_ok_iff _ _ _).mp hb
    obtain ⟨vv2, hvv2, hb⟩ := (bind_ok_iff _ _ _).mp hb
    obtain ⟨vv3, hvv3, hb⟩ := (bind_ok_iff _ _ _).mp hb
    obtain ⟨vf', hvf', hb⟩ := (bind_ok_iff _ _ _).mp hb
    obtain ⟨oppId, hopp, hb⟩ := (bind_ok_iff _ _ _).mp hb
    obtain ⟨b2, _, hb⟩ := (bind_ok_iff _ _ _).mp hb
    rcases ite_ok hb with ⟨_, hb⟩ | ⟨_, hb⟩
    · exact fin hb
    · exact fin hb
  · obtain ⟨x2, hx2, hb⟩ := (bind_ok_iff _ _ _).mp hb
    obtain ⟨vv', vh'⟩ := x2
    simp only [] at hb
    exact fin hb

/-- **the start-face encoder of the main loop's result holds the recorded start-face bits** -/
theorem startFace_of_main (t : CT) (holeId : Array Nat) (nh : Nat) (s : OSt)
    (hmain : forIn [:t.numCorners] (initO t nh) (outerBody t holeId false t.numFaces) = .ok s) :
    s.2.2.2.2.2.1 = encodeBits s.2.2.2.2.2.2.1.toList :=
  range_forIn_inv t.numCorners (outerBody t holeId false t.numFaces) SFInv
    (fun a s r hI hr => outerBody_sf a s r hI hr) (initO t nh) s rfl hmain


/-! ### (G2) the encoder's bytes for a split-free run -/

theorem encodeSeamBits_noatt (t : CT) (p : Array Nat) : encodeSeamBits t p #[] = .ok (#[], #[]) := by
  simp [encodeSeamBits, pure, Except.pure]

/-- **(G2) `encode_bytes_splitfree`**: standard traversal, no attribute data.  From the results of the stages
    (`CornerTable.create`, `findHoles`, the main loop `outerBody` with result `s`): if the run produced no split symbol and
    no split event and its start-face encoder holds the bits `sfb` (`s.startFace = encodeBits sfb`: the encoder state and
    the recorded `startFaces` are updated together in `outerBody`), the encoder succeeds and wrote `linkBody` with
    `nv = num_vertices − isolated`, `nf = num_faces − degenerated`. -/
theorem encode_bytes_splitfree (ch : ConnChoices) (pf : Faces) (tbl : CornerTable) (hc : CornerTable.create pf = some tbl)
    (hnd : ((CT.ofTable tbl).numFaces == (CT.ofTable tbl).numDegenerated) = false)
    (holeId : Array Nat) (nh : Nat) (hh : findHoles (CT.ofTable tbl) = .ok (holeId, nh)) (s : OSt)
    (hmain : forIn [:(CT.ofTable tbl).numCorners] (initO (CT.ofTable tbl) nh)
      (outerBody (CT.ofTable tbl) holeId false (CT.ofTable tbl).numFaces) = .ok s)
    (sfb : List Bool) (hsf : s.2.2.2.2.2.1 = encodeBits sfb)
    (hns : s.2.2.2.2.2.2.2.2.2.2.2.2 = 0) (hsp : s.2.2.2.2.2.2.2.2.2.1 = #[])
    (hnv32 : (CT.ofTable tbl).numVertices - (CT.ofTable tbl).numIsolated < 2 ^ 32)
    (hnf32 : (CT.ofTable tbl).numFaces - (CT.ofTable tbl).numDegenerated < 2 ^ 32)
    (hsy32 : s.2.2.2.2.1.size < 2 ^ 32) :
    ∃ conn, encodeConnectivity ch false pf #[] = .ok conn ∧
      [0] ++ conn.bytes = 0 :: linkBody ch ((CT.ofTable tbl).numVertices - (CT.ofTable tbl).numIsolated)
        ((CT.ofTable tbl).numFaces - (CT.ofTable tbl).numDegenerated) s.2.2.2.2.1 sfb ∧
      conn.ct = CT.ofTable tbl ∧ conn.processed = s.2.2.2.2.2.2.2.1.reverse ++ s.2.2.2.2.2.2.2.2.1 ∧ conn.atts = #[] := by
  obtain ⟨conn, h1, h2, h3, h4, h5⟩ := encodeConnectivity_stages ch pf tbl hc hnd holeId nh hh s hmain #[] #[]
    (encodeSeamBits_noatt _ _)
  refine ⟨conn, h1, ?_, h2, h3, h5⟩
  rw [h4, hsf, hns, hsp]
  have e3 : encodeSplitData #[] = [0] := by decide
  have e4 : encVarint (0 % 2 ^ 32) = [0] := by decide
  simp only [Nat.mod_eq_of_lt hnv32, Nat.mod_eq_of_lt hnf32, Nat.mod_eq_of_lt hsy32, e3, e4, ets_symBuf, linkBody,
    List.flatMap_nil, List.append_nil, List.append_assoc, List.cons_append, List.nil_append]

/-! ### (G3) the connectivity link of a split-free run from the loop result and the isomorphism -/

open Draco.EbEnc.ConnNoOpp (EbConnectivityRoundtrip') in
/-- **(G3) `link_of_loop`**: for a run of the encoder (standard traversal, no attribute data) whose stage result `s` is
    split-free: GIVEN `hloop` — the connectivity loop, on every traversal state delivering the encoder's symbols in
    reverse order and the start-face bits, returns `co` — and `CTIso` of `co`'s tables with the encoder's table along
    `processed`, the connectivity link holds for every choice `ch`. -/
theorem link_of_loop (ch : ConnChoices) (pf : Faces) (tbl : CornerTable) (hc : CornerTable.create pf = some tbl)
    (hnd : ((CT.ofTable tbl).numFaces == (CT.ofTable tbl).numDegenerated) = false)
    (holeId : Array Nat) (nh : Nat) (hh : findHoles (CT.ofTable tbl) = .ok (holeId, nh)) (s : OSt)
    (hmain : forIn [:(CT.ofTable tbl).numCorners] (initO (CT.ofTable tbl) nh)
      (outerBody (CT.ofTable tbl) holeId false (CT.ofTable tbl).numFaces) = .ok s)
    (sfb : List Bool) (hsf : s.2.2.2.2.2.1 = encodeBits sfb)
    (hns : s.2.2.2.2.2.2.2.2.2.2.2.2 = 0) (hsp : s.2.2.2.2.2.2.2.2.2.1 = #[])
    (nv nf : Nat) (env : nv = (CT.ofTable tbl).numVertices - (CT.ofTable tbl).numIsolated)
    (enf : nf = (CT.ofTable tbl).numFaces - (CT.ofTable tbl).numDegenerated)
    (hs : ∀ x ∈ s.2.2.2.2.1.toList, IsTopo x) (hnf : nf ≤ 2 ^ 21) (hnv : nv ≤ 3 * 2 ^ 21) (hnv3 : nv ≤ nf * 3)
    (hedge : 3 * nf / 2 ≤ nv * (nv - 1) / 2) (hsz1 : s.2.2.2.2.1.size ≤ nf)
    (hsz2 : nf ≤ s.2.2.2.2.1.size + s.2.2.2.2.1.size / 3) (hsfb : sfb.length + 3 < 2 ^ 32)
    (co : ConnOut)
    (hloop : ∀ tr, Delivers tr s.2.2.2.2.1.toList.reverse sfb →
      connLoop ⟨nf, nv, s.2.2.2.2.1.size, [], true⟩ tr = .ok co)
    (hiso : CTIso (CT.ofTable tbl) (s.2.2.2.2.2.2.2.1.reverse ++ s.2.2.2.2.2.2.2.2.1) nf co.c2v co.opp) :
    EbConnectivityRoundtrip' ch false pf #[] := by
  subst env enf
  obtain ⟨conn, e1, e2, e3, e4, e5⟩ := encode_bytes_splitfree ch pf tbl hc hnd holeId nh hh s hmain sfb hsf hns hsp
    (by omega) (by omega) (by omega)
  obtain ⟨mesh, m1, m2, m3, m4, _, m6, _, _⟩ := runs_decodeConnectivity_of_loop' ch _ _ s.2.2.2.2.1 sfb co hs hnf hnv hnv3
    hedge hsz1 hsz2 hsfb hiso.sizes.2 hloop
  intro conn' h'
  rw [e1] at h'
  cases h'
  refine ⟨mesh, ?_, ?_, by rw [m6, e5]; rfl⟩
  · show Runs decodeConnectivity 514 ([0] ++ conn.bytes) mesh 514
    rw [e2]; exact m1
  · rw [e3, e4, m2, m3, m4]; exact hiso

/-! ### the same with the recorded start-face bits (no hypothesis about the start-face encoder) -/

theorem encode_bytes_splitfree' (ch : ConnChoices) (pf : Faces) (tbl : CornerTable) (hc : CornerTable.create pf = some tbl)
    (hnd : ((CT.ofTable tbl).numFaces == (CT.ofTable tbl).numDegenerated) = false)
    (holeId : Array Nat) (nh : Nat) (hh : findHoles (CT.ofTable tbl) = .ok (holeId, nh)) (s : OSt)
    (hmain : forIn [:(CT.ofTable tbl).numCorners] (initO (CT.ofTable tbl) nh)
      (outerBody (CT.ofTable tbl) holeId false (CT.ofTable tbl).numFaces) = .ok s)
    (hns : s.2.2.2.2.2.2.2.2.2.2.2.2 = 0) (hsp : s.2.2.2.2.2.2.2.2.2.1 = #[])
    (hnv32 : (CT.ofTable tbl).numVertices - (CT.ofTable tbl).numIsolated < 2 ^ 32)
    (hnf32 : (CT.ofTable tbl).numFaces - (CT.ofTable tbl).numDegenerated < 2 ^ 32)
    (hsy32 : s.2.2.2.2.1.size < 2 ^ 32) :
    ∃ conn, encodeConnectivity ch false pf #[] = .ok conn ∧
      [0] ++ conn.bytes = 0 :: linkBody ch ((CT.ofTable tbl).numVertices - (CT.ofTable tbl).numIsolated)
        ((CT.ofTable tbl).numFaces - (CT.ofTable tbl).numDegenerated) s.2.2.2.2.1 s.2.2.2.2.2.2.1.toList ∧
      conn.ct = CT.ofTable tbl ∧ conn.processed = s.2.2.2.2.2.2.2.1.reverse ++ s.2.2.2.2.2.2.2.2.1 ∧ conn.atts = #[] :=
  encode_bytes_splitfree ch pf tbl hc hnd holeId nh hh s hmain _ (startFace_of_main _ holeId nh s hmain) hns hsp hnv32 hnf32
    hsy32

open Draco.EbEnc.ConnNoOpp (EbConnectivityRoundtrip') in
theorem link_of_loop' (ch : ConnChoices) (pf : Faces) (tbl : CornerTable) (hc : CornerTable.create pf = some tbl)
    (hnd : ((CT.ofTable tbl).numFaces == (CT.ofTable tbl).numDegenerated) = false)
    (holeId : Array Nat) (nh : Nat) (hh : findHoles (CT.ofTable tbl) = .ok (holeId, nh)) (s : OSt)
    (hmain : forIn [:(CT.ofTable tbl).numCorners] (initO (CT.ofTable tbl) nh)
      (outerBody (CT.ofTable tbl) holeId false (CT.ofTable tbl).numFaces) = .ok s)
    (hns : s.2.2.2.2.2.2.2.2.2.2.2.2 = 0) (hsp : s.2.2.2.2.2.2.2.2.2.1 = #[])
    (nv nf : Nat) (env : nv = (CT.ofTable tbl).numVertices - (CT.ofTable tbl).numIsolated)
    (enf : nf = (CT.ofTable tbl).numFaces - (CT.ofTable tbl).numDegenerated)
    (hs : ∀ x ∈ s.2.2.2.2.1.toList, IsTopo x) (hnf : nf ≤ 2 ^ 21) (hnv : nv ≤ 3 * 2 ^ 21) (hnv3 : nv ≤ nf * 3)
    (hedge : 3 * nf / 2 ≤ nv * (nv - 1) / 2) (hsz1 : s.2.2.2.2.1.size ≤ nf)
    (hsz2 : nf ≤ s.2.2.2.2.1.size + s.2.2.2.2.1.size / 3) (hsfb : s.2.2.2.2.2.2.1.size + 3 < 2 ^ 32)
    (co : ConnOut)
    (hloop : ∀ tr, Delivers tr s.2.2.2.2.1.toList.reverse s.2.2.2.2.2.2.1.toList →
      connLoop ⟨nf, nv, s.2.2.2.2.1.size, [], true⟩ tr = .ok co)
    (hiso : CTIso (CT.ofTable tbl) (s.2.2.2.2.2.2.2.1.reverse ++ s.2.2.2.2.2.2.2.2.1) nf co.c2v co.opp) :
    EbConnectivityRoundtrip' ch false pf #[] :=
  link_of_loop ch pf tbl hc hnd holeId nh hh s hmain _ (startFace_of_main _ holeId nh s hmain) hns hsp nv nf env enf hs hnf
    hnv hnv3 hedge hsz1 hsz2 (by simpa using hsfb) co hloop hiso

/-- non-vacuity / plug test: `ConnTri.connLoop_triangles` discharges `hloop` of (G1) for `k` isolated triangles -/
example (ch : ConnChoices) (k : Nat) (hk1 : 1 ≤ k) (hk : k ≤ 2 ^ 21) :
    ∃ tg, Runs decodeConnectivity 514 (0 :: linkBody ch (3 * k) k (Array.replicate k 7) (List.replicate k false))
      (meshOf k (coK k) tg) 514 := by
  refine runs_decodeConnectivity_of_loop ch (3 * k) k (Array.replicate k 7) (List.replicate k false) (coK k)
    (fun s h => by
      have : s = 7 := by simpa using (List.eq_of_mem_replicate (by simpa using h))
      subst this; decide) hk (by omega) (by omega)
    (Nat.div_le_div_right (by
      have : 3 * k ≤ 3 * k * (3 * k - 1) := Nat.le_mul_of_pos_right _ (by omega)
      omega)) (by simp) (by simp) (by simp; omega) (by simp [coK]) ?_
  rintro tr ⟨h1, h2, h3, h4⟩
  have := connLoop_triangles k tr h1 h2 hk1 (by omega) (fun i hi => by
    have := h3 i (by simpa using hi)
    rw [this]
    simp [hi]) h4
  simpa using this

end Draco.EbEnc.ConnGlue
