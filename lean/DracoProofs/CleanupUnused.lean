import DracoProofs.Mask
import DracoProofs.Dedup
/-
  DracoProofs.CleanupUnused — `MeshCleanup::RemoveUnusedAttributes` (`Cleanup.removeUnused`)
  keeps the value bytes of every face corner: the triangles are unchanged as a list.
-/
namespace Draco
namespace Cleanup

/-- what the per-attribute step needs to know about the renumbering of the points.
    `P p` = "`p` is a point we care about" (a face corner). -/
structure Renum (n nNew : Nat) (pc : Bool) (kept : List Nat) (newId : Nat → Nat) (P : Nat → Prop) : Prop where
  len : kept.length = nNew
  get : ∀ p, P p → kept[newId p]? = some p
  lt : ∀ i ∈ kept, i < n
  rk : ∀ N, n ≤ N → ∀ p, P p → newId p = rank (marks N kept) p
  same : pc = false → ∀ p, P p → newId p = p

theorem rewriteMap_eq {nNew : Nat} {kept : List Nat} (h : kept.length = nNew) (m : List Nat) (f : Nat → Nat) :
    rewriteMap nNew kept m f = kept.map fun i => f (m.getD i 0) := by
  unfold rewriteMap
  have hl : (kept.map fun i => f (m.getD i 0)).length = nNew := by simp [h]
  simp only [toArray_getD']
  rw [hl, Nat.sub_self, List.replicate_zero, List.append_nil]
  exact List.take_of_length_le (by omega)

theorem usedValues_eq (kept : List Nat) (a : Attribute) :
    usedValues kept a = marks a.numValues (kept.map a.mappedIndex) := by
  unfold usedValues
  dsimp only
  simp only [idxOf_mapArray]

theorem usedValues_length (kept : List Nat) (a : Attribute) : (usedValues kept a).length = a.numValues := by
  simp [usedValues_eq, marks_length]

theorem usedValues_get (kept : List Nat) (a : Attribute) (v : Nat) :
    (usedValues kept a)[v]? = some true ↔ (v < a.numValues ∧ ∃ i ∈ kept, a.mappedIndex i = v) := by
  rw [usedValues_eq, marks_get]
  simp

theorem compact_entries {a : Attribute} {np : Nat} (hv : a.Valid np) (usedV : List Bool)
    (hl : usedV.length = a.numValues) : (compact usedV a).entries = keepMask usedV a.entries := by
  have e0 : (compact usedV a).entries =
      chunk a.stride (usedV.count true) (keepMask usedV a.entries).flatten := rfl
  rw [e0]
  have hlen : ∀ e ∈ keepMask usedV a.entries, e.length = a.stride := by
    intro e he
    obtain ⟨i, _, h2⟩ := keepMask_mem _ _ _ he
    exact Attribute.entries_elem_length hv e (List.mem_of_getElem? h2)
  have hk : (keepMask usedV a.entries).length = usedV.count true :=
    keepMask_length _ _ (by rw [Attribute.entries_length, hl]; exact Nat.le_refl _)
  have := chunk_flatten a.stride _ hlen []
  rw [hk] at this
  simp only [List.append_nil] at this
  exact this

/-- entry `rank v` of the compacted buffer is the old entry `v` -/
theorem compact_getD {a : Attribute} {np : Nat} (hv : a.Valid np) (usedV : List Bool)
    (hl : usedV.length = a.numValues) {v : Nat} (hu : usedV[v]? = some true) :
    (compact usedV a).entries.getD (rank usedV v) [] = a.entries.getD v [] := by
  rw [compact_entries hv usedV hl]
  have hvlt : v < a.entries.length := by
    rw [Attribute.entries_length, ← hl]
    exact (List.getElem?_eq_some_iff.1 hu).1
  rw [List.getD_eq_getElem?_getD, List.getD_eq_getElem?_getD, keepMask_get _ _ _ hu hvlt]

theorem newEntry_rank (usedV : List Bool) {v : Nat} (hu : usedV[v]? = some true) :
    newEntry true (ranksFrom 0 usedV).toArray v = rank usedV v := by
  unfold newEntry
  simp only [if_true]
  rw [toArray_getD, List.getD_eq_getElem?_getD, ranksFrom_get 0 usedV v hu]
  simp

/-- the value index of a kept point is marked -/
theorem usedValues_of_kept {a : Attribute} {n : Nat} (hv : a.Valid n) {kept : List Nat}
    (hk : ∀ i ∈ kept, i < n) {p : Nat} (hp : p ∈ kept) :
    (usedValues kept a)[a.mappedIndex p]? = some true := by
  rw [usedValues_get]
  exact ⟨Attribute.mappedIndex_lt hv (hk p hp), p, hp, rfl⟩

/-- the explicit-map branch of `cleanAtt` -/
theorem cleanAtt_explicit {n nNew : Nat} {pc : Bool} {kept : List Nat} {newId : Nat → Nat} {P : Nat → Prop}
    (R : Renum n nNew pc kept newId P) {a : Attribute} (hv : a.Valid n) (m : List Nat)
    (hm : ∀ i, i < n → m.getD i 0 = a.mappedIndex i) {p : Nat} (hp : P p) (attChanged : Bool)
    (hac : attChanged = decide ((usedValues kept a).count true < a.numValues)) :
    ({ (if attChanged then compact (usedValues kept a) a else a) with
        map := some (rewriteMap nNew kept m (newEntry attChanged (ranksFrom 0 (usedValues kept a)).toArray)) } :
        Attribute).pointValue (newId p) = a.pointValue p := by
  have hget := R.get p hp
  have hpk : p ∈ kept := List.mem_of_getElem? hget
  have hpn : p < n := R.lt p hpk
  have hu := usedValues_of_kept hv R.lt hpk
  have hidx : newId p < kept.length := (List.getElem?_eq_some_iff.1 hget).1
  have hkp : kept[newId p] = p := (List.getElem?_eq_some_iff.1 hget).2
  have hmi : ∀ b : Attribute, ({ b with
        map := some (rewriteMap nNew kept m (newEntry attChanged (ranksFrom 0 (usedValues kept a)).toArray)) } :
        Attribute).mappedIndex (newId p) =
        newEntry attChanged (ranksFrom 0 (usedValues kept a)).toArray (a.mappedIndex p) := by
    intro b
    unfold Attribute.mappedIndex
    dsimp only
    rw [rewriteMap_eq R.len, getD_eq_getElem' _ _ (by simpa using hidx)]
    simp only [List.getElem_map, hkp, hm p hpn]
    rfl
  unfold Attribute.pointValue
  rw [hmi]
  cases attChanged with
  | true =>
    simp only [if_true]
    rw [newEntry_rank _ hu]
    exact compact_getD hv _ (usedValues_length kept a) hu
  | false =>
    simp only [newEntry, Bool.false_eq_true, if_false]
    rfl

/-- `cleanAtt` keeps the bytes seen by every point we care about -/
theorem cleanAtt_pointValue {n nNew : Nat} {pc : Bool} {kept : List Nat} {newId : Nat → Nat} {P : Nat → Prop}
    (R : Renum n nNew pc kept newId P) {a : Attribute} (hv : a.Valid n) {p : Nat} (hp : P p) :
    (cleanAtt n nNew pc kept a).pointValue (newId p) = a.pointValue p := by
  unfold cleanAtt
  simp only
  by_cases hch : (pc || decide ((usedValues kept a).count true < a.numValues)) = true
  · simp only [hch, if_true]
    cases hmap : a.map with
    | some m =>
      apply cleanAtt_explicit R hv m _ hp _ rfl
      intro i hi
      simp [Attribute.mappedIndex, hmap]
    | none =>
      by_cases hne : (usedValues kept a).count true ≠ nNew
      · rw [if_pos hne]
        apply cleanAtt_explicit R hv _ _ hp _ rfl
        intro i hi
        simp [Attribute.mappedIndex, hmap, hi]
      · rw [if_neg hne]
        dsimp only
        -- the mapping stays identity
        have hnN : n ≤ a.numValues := hv.idmap hmap
        have hget := R.get p hp
        have hpk : p ∈ kept := List.mem_of_getElem? hget
        have hpn : p < n := R.lt p hpk
        have huv : usedValues kept a = marks a.numValues kept := by
          rw [usedValues_eq]
          have hk : kept.map a.mappedIndex = kept := by
            conv => rhs; rw [← List.map_id kept]
            apply List.map_congr_left
            intro i _
            simp [Attribute.mappedIndex, hmap]
          rw [hk]
        have hrk := R.rk a.numValues hnN p hp
        rw [← huv] at hrk
        have hu := usedValues_of_kept hv R.lt hpk
        have hmi : a.mappedIndex p = p := by simp [Attribute.mappedIndex, hmap]
        rw [hmi] at hu
        by_cases hac : (usedValues kept a).count true < a.numValues
        · simp only [hac, decide_true, if_true]
          unfold Attribute.pointValue
          have e1 : (compact (usedValues kept a) a).mappedIndex (newId p) = newId p := by
            simp [Attribute.mappedIndex, compact, hmap]
          rw [e1, hmi, hrk]
          exact compact_getD hv _ (usedValues_length kept a) hu
        · -- nothing removed from the buffer: every value is used, so every point is kept
          simp only [hac, decide_false, Bool.false_eq_true, if_false]
          have hfull : (usedValues kept a).count true = (usedValues kept a).length := by
            have := count_le_length' (usedValues kept a)
            rw [usedValues_length] at this ⊢
            omega
          have hall := (count_eq_length_iff _).1 hfull
          have : rank (usedValues kept a) p = p := by
            apply rank_all_true
            intro j hj
            apply hall
            rw [usedValues_length]
            omega
          rw [hrk, this]
  · have hpc : pc = false := by
      cases pc <;> simp_all
    simp only [hch]
    rw [R.same hpc p hp]
    rfl

/-! ### the point renumbering of `removeUnused` -/

theorem mem_corners (faces : List Face) (p : Nat) :
    p ∈ corners faces ↔ ∃ f ∈ faces, p = f.1 ∨ p = f.2.1 ∨ p = f.2.2 := by
  induction faces with
  | nil => simp [corners]
  | cons f fs ih =>
    have : corners (f :: fs) = f.1 :: f.2.1 :: f.2.2 :: corners fs := rfl
    rw [this]
    simp only [List.mem_cons, ih]
    constructor
    · rintro (h | h | h | ⟨f', hf', h⟩)
      · exact ⟨f, Or.inl rfl, Or.inl h⟩
      · exact ⟨f, Or.inl rfl, Or.inr (Or.inl h)⟩
      · exact ⟨f, Or.inl rfl, Or.inr (Or.inr h)⟩
      · exact ⟨f', Or.inr hf', h⟩
    · rintro ⟨f', hf' | hf', h⟩
      · subst hf'
        rcases h with h | h | h
        · exact Or.inl h
        · exact Or.inr (Or.inl h)
        · exact Or.inr (Or.inr (Or.inl h))
      · exact Or.inr (Or.inr (Or.inr ⟨f', hf', h⟩))

/-- old → new point id of `removeUnused` -/
def newPointId (g : Geometry) (p : Nat) : Nat :=
  let used := marks g.numPoints (corners g.faces)
  if used.count true < g.numPoints then (((ranksFrom 0 used).toArray.getD p none).getD (2 ^ 32 - 1)) else p

def keptPoints (g : Geometry) : List Nat :=
  let used := marks g.numPoints (corners g.faces)
  if used.count true < g.numPoints then keepMask used (List.range g.numPoints) else List.range g.numPoints

def newNumPoints (g : Geometry) : Nat :=
  let used := marks g.numPoints (corners g.faces)
  if used.count true < g.numPoints then used.count true else g.numPoints

def pointsChanged (g : Geometry) : Bool :=
  decide ((marks g.numPoints (corners g.faces)).count true < g.numPoints)

theorem removeUnused_eq (g : Geometry) :
    removeUnused g =
      { g with
        numPoints := newNumPoints g
        faces := if pointsChanged g then
            g.faces.map fun f => (newPointId g f.1, newPointId g f.2.1, newPointId g f.2.2) else g.faces
        atts := g.atts.map (cleanAtt g.numPoints (newNumPoints g) (pointsChanged g) (keptPoints g)) } := by
  unfold removeUnused newNumPoints pointsChanged keptPoints newPointId
  by_cases h : (marks g.numPoints (corners g.faces)).count true < g.numPoints
  · simp only [h, if_true, decide_true]
  · simp only [h, if_false, decide_false, Bool.false_eq_true]

theorem marks_agree {n N : Nat} (hN : n ≤ N) (l1 l2 : List Nat)
    (h : ∀ j, j < n → (j ∈ l1 ↔ j ∈ l2)) (j : Nat) (hj : j < n) :
    (marks n l1)[j]? = (marks N l2)[j]? := by
  by_cases h1 : (marks n l1)[j]? = some true
  · rw [h1]
    have := (marks_get n l1 j).1 h1
    exact ((marks_get N l2 j).2 ⟨by omega, (h j hj).1 this.2⟩).symm
  · have h2 : ¬ (marks N l2)[j]? = some true := by
      intro h2
      have := (marks_get N l2 j).1 h2
      exact h1 ((marks_get n l1 j).2 ⟨hj, (h j hj).2 this.2⟩)
    rw [mask_false_of (by rw [marks_length]; exact hj) h1,
      mask_false_of (by rw [marks_length]; omega) h2]

theorem removeUnused_renum (g : Geometry) (hv : g.valid = true) :
    Renum g.numPoints (newNumPoints g) (pointsChanged g) (keptPoints g) (newPointId g)
      (fun p => p ∈ corners g.faces) := by
  have hcor : ∀ p ∈ corners g.faces, p < g.numPoints := by
    intro p hp
    obtain ⟨f, hf, h⟩ := (mem_corners _ _).1 hp
    obtain ⟨h1, h2, h3⟩ := Geometry.valid_faces hv f hf
    rcases h with h | h | h <;> omega
  by_cases h : (marks g.numPoints (corners g.faces)).count true < g.numPoints
  · -- some points are removed
    have hkept : keptPoints g = keepMask (marks g.numPoints (corners g.faces)) (List.range g.numPoints) := by
      simp [keptPoints, h]
    have hnew : newNumPoints g = (marks g.numPoints (corners g.faces)).count true := by
      simp [newNumPoints, h]
    have hid : ∀ p ∈ corners g.faces,
        newPointId g p = rank (marks g.numPoints (corners g.faces)) p := by
      intro p hp
      have hu := (marks_get g.numPoints (corners g.faces) p).2 ⟨hcor p hp, hp⟩
      simp only [newPointId, h, if_true]
      rw [toArray_getD, List.getD_eq_getElem?_getD, ranksFrom_get 0 _ p hu]
      simp
    have hmemk : ∀ i, i ∈ keptPoints g ↔ (i < g.numPoints ∧ i ∈ corners g.faces) := by
      intro i
      rw [hkept]
      constructor
      · intro hi
        obtain ⟨j, h1, h2⟩ := keepMask_mem _ _ _ hi
        have hj := (marks_get _ _ _).1 h1
        have : j = i := by
          have := List.getElem?_eq_some_iff.1 h2
          obtain ⟨hlt, he⟩ := this
          simpa using he
        subst this
        exact hj
      · intro ⟨hi, hc⟩
        have hu := (marks_get g.numPoints (corners g.faces) i).2 ⟨hi, hc⟩
        have := keepMask_get _ (List.range g.numPoints) i hu (by simpa using hi)
        rw [List.getElem?_range hi] at this
        exact List.mem_of_getElem? this
    refine ⟨?_, ?_, ?_, ?_, ?_⟩
    · rw [hkept, hnew]
      exact keepMask_length _ _ (by simp [marks_length])
    · intro p hp
      have hu := (marks_get g.numPoints (corners g.faces) p).2 ⟨hcor p hp, hp⟩
      rw [hid p hp, hkept, keepMask_get _ _ _ hu (by simpa using hcor p hp)]
      simp [hcor p hp]
    · intro i hi
      exact ((hmemk i).1 hi).1
    · intro N hN p hp
      rw [hid p hp]
      apply rank_congr
      · intro j hj
        apply marks_agree hN
        · intro k hk
          rw [hmemk]
          simp [hk]
        · have := hcor p hp
          omega
      · rw [marks_length]; exact Nat.le_of_lt (hcor p hp)
      · rw [marks_length]; have := hcor p hp; omega
    · intro hpc
      simp only [pointsChanged, h, decide_true] at hpc
      cases hpc
  · -- every point is used
    have hkept : keptPoints g = List.range g.numPoints := by simp only [keptPoints, h, if_false]
    have hnew : newNumPoints g = g.numPoints := by simp only [newNumPoints, h, if_false]
    have hid : ∀ p, newPointId g p = p := by intro p; simp only [newPointId, h, if_false]
    refine ⟨?_, ?_, ?_, ?_, ?_⟩
    · rw [hkept, hnew]; simp
    · intro p hp
      rw [hid, hkept]
      simp [hcor p hp]
    · intro i hi
      rw [hkept] at hi
      simpa using hi
    · intro N hN p hp
      rw [hid, hkept]
      symm
      apply rank_all_true
      intro j hj
      rw [marks_get]
      have := hcor p hp
      exact ⟨by omega, by simp; omega⟩
    · intro _ p _
      exact hid p

theorem removeUnused_pointTuple (g : Geometry) (hv : g.valid = true) {p : Nat} (hp : p ∈ corners g.faces) :
    (removeUnused g).pointTuple (newPointId g p) = g.pointTuple p := by
  rw [removeUnused_eq]
  unfold Geometry.pointTuple
  simp only [List.map_map]
  apply List.map_congr_left
  intro a ha
  exact cleanAtt_pointValue (removeUnused_renum g hv) (Geometry.valid_atts hv a ha) hp

/-- `RemoveUnusedAttributes` does not change any triangle -/
theorem removeUnused_triangles (g : Geometry) (hv : g.valid = true) :
    (removeUnused g).triangles = g.triangles := by
  have hR := removeUnused_renum g hv
  unfold Geometry.triangles
  have hfaces : (removeUnused g).faces =
      g.faces.map fun f => (newPointId g f.1, newPointId g f.2.1, newPointId g f.2.2) := by
    rw [removeUnused_eq]
    simp only
    by_cases hpc : pointsChanged g = true
    · simp [hpc]
    · have hpc' : pointsChanged g = false := by simpa using hpc
      simp only [hpc']
      symm
      conv => rhs; rw [← List.map_id g.faces]
      apply List.map_congr_left
      intro f hf
      have h1 : f.1 ∈ corners g.faces := (mem_corners _ _).2 ⟨f, hf, Or.inl rfl⟩
      have h2 : f.2.1 ∈ corners g.faces := (mem_corners _ _).2 ⟨f, hf, Or.inr (Or.inl rfl)⟩
      have h3 : f.2.2 ∈ corners g.faces := (mem_corners _ _).2 ⟨f, hf, Or.inr (Or.inr rfl)⟩
      rw [hR.same hpc' _ h1, hR.same hpc' _ h2, hR.same hpc' _ h3]
      rfl
  rw [hfaces, List.map_map]
  apply List.map_congr_left
  intro f hf
  have h1 : f.1 ∈ corners g.faces := (mem_corners _ _).2 ⟨f, hf, Or.inl rfl⟩
  have h2 : f.2.1 ∈ corners g.faces := (mem_corners _ _).2 ⟨f, hf, Or.inr (Or.inl rfl)⟩
  have h3 : f.2.2 ∈ corners g.faces := (mem_corners _ _).2 ⟨f, hf, Or.inr (Or.inr rfl)⟩
  obtain ⟨a, b, c⟩ := f
  simp only [Function.comp]
  rw [removeUnused_pointTuple g hv h1, removeUnused_pointTuple g hv h2, removeUnused_pointTuple g hv h3]

end Cleanup
end Draco
