import DracoModel.BitCoders
import DracoProofs.Rabs
import DracoProofs.Scalar
/-
  Generic part of C17 (d): a bit decoder is described by the list of bits it is going to
  deliver (`Yields`); the request loops of the decoders turn that list back into the values
  of the encoder calls.
-/
namespace Draco

/-- the coded bits of one encoder call: `EncodeBit(b)` is one bit,
    `EncodeLeastSignificantBits32(n, v)` is bits `n-1 … 0` of `v` -/
def BitOp.bits : BitOp → List Bool
  | .bit b => [b]
  | .lsb32 n v => msbBits n v

def opsBits (ops : List BitOp) : List Bool := ops.flatMap BitOp.bits

/-- `next` delivers the bits `bs`, one per call, starting from state `d` -/
def Yields {δ : Type} (next : δ → Bool × δ) : δ → List Bool → Prop
  | _, [] => True
  | d, b :: bs => (next d).1 = b ∧ Yields next (next d).2 bs

theorem msbBits_length (n v : Nat) : (msbBits n v).length = n := by
  induction n with
  | zero => rfl
  | succ n ih => simp [msbBits, ih]

theorem BitOp.bits_length (op : BitOp) : op.bits.length = op.width := by
  cases op <;> simp [BitOp.bits, BitOp.width, msbBits_length]

theorem shlAdd32_small (acc : Nat) (b : Bool) (h : acc * 2 + (if b then 1 else 0) < 2^32) :
    shlAdd32 acc b = acc * 2 + (if b then 1 else 0) := by
  unfold shlAdd32
  cases b <;> simp at h ⊢ <;> omega

/-- the MSB-first accumulation loop recovers `v % 2^n` -/
theorem foldl_shlAdd32_msbBits (n : Nat) : ∀ (acc v : Nat), acc * 2^n + v % 2^n < 2^32 →
    (msbBits n v).foldl shlAdd32 acc = acc * 2^n + v % 2^n := by
  induction n with
  | zero => intro acc v _; simp [msbBits, Nat.mod_one]
  | succ n ih =>
    intro acc v h
    simp only [msbBits, List.foldl_cons]
    have hmod : v % 2^(n+1) = v % 2^n + 2^n * (v / 2^n % 2) := Nat.mod_pow_succ
    have hpos : 0 < 2^n := Nat.pow_pos (by decide)
    have hb : (if (v / 2^n % 2 == 1) = true then 1 else 0) = v / 2^n % 2 := by
      rcases Nat.mod_two_eq_zero_or_one (v / 2^n) with h0 | h0 <;> simp [h0]
    have hexp : acc * 2^(n+1) = acc * 2 * 2^n := by rw [Nat.pow_succ]; ring
    have hkey : (acc * 2 + v / 2^n % 2) * 2^n + v % 2^n = acc * 2^(n+1) + v % 2^(n+1) := by
      rw [hmod, hexp]; ring
    have hsmall : acc * 2 + v / 2^n % 2 < 2^32 := by
      have : acc * 2 + v / 2^n % 2 ≤ (acc * 2 + v / 2^n % 2) * 2^n := Nat.le_mul_of_pos_right _ hpos
      omega
    rw [shlAdd32_small _ _ (by rw [hb]; exact hsmall), hb, ih _ v (by omega), hkey]

theorem foldl_shlAdd32_value (n v : Nat) (hn : n ≤ 32) :
    (msbBits n v).foldl shlAdd32 0 = v % 2^n := by
  have h : v % 2^n < 2^32 :=
    Nat.lt_of_lt_of_le (Nat.mod_lt _ (Nat.pow_pos (by decide))) (Nat.pow_le_pow_right (by decide) hn)
  have := foldl_shlAdd32_msbBits n 0 v (by omega)
  simpa using this

theorem yields_append {δ : Type} (next : δ → Bool × δ) : ∀ (bs : List Bool) (d : δ) (S : List Bool),
    Yields next d (bs ++ S) →
    ∀ acc, (readMsbFirst next bs.length acc d).1 = bs.foldl shlAdd32 acc ∧
      Yields next (readMsbFirst next bs.length acc d).2 S := by
  intro bs
  induction bs with
  | nil => intro d S h acc; exact ⟨rfl, h⟩
  | cons b bs ih =>
    intro d S h acc
    obtain ⟨h1, h2⟩ := h
    simp only [List.length_cons, readMsbFirst, List.foldl_cons, h1]
    exact ih _ S h2 _

/-- a request step built from `next` in the way the rANS bit decoders do it -/
def StdStep {δ : Type} (next : δ → Bool × δ) (step : δ → BitReq → Nat × δ) : Prop :=
  ∀ d, step d .bit = ((if (next d).1 then 1 else 0), (next d).2) ∧
    ∀ n, step d (.lsb32 n) = readMsbFirst next n 0 d

theorem runReqs_std {δ : Type} (next : δ → Bool × δ) (step : δ → BitReq → Nat × δ)
    (hstep : StdStep next step) : ∀ (ops : List BitOp) (d : δ) (S : List Bool) (acc : List Nat),
    (∀ op ∈ ops, op.Valid) → Yields next d (opsBits ops ++ S) →
    (runReqs step (ops.map BitOp.req) d acc).1 = acc.reverse ++ ops.map BitOp.value ∧
    Yields next (runReqs step (ops.map BitOp.req) d acc).2 S := by
  intro ops
  induction ops with
  | nil => intro d S acc _ h; simpa [runReqs, opsBits] using h
  | cons op ops ih =>
    intro d S acc hv h
    have hv' : ∀ o ∈ ops, o.Valid := fun o ho => hv o (by simp [ho])
    have hop := hv op (by simp)
    simp only [opsBits, List.flatMap_cons, List.append_assoc] at h
    cases op with
    | bit b =>
      simp only [BitOp.bits, List.cons_append, List.nil_append] at h
      obtain ⟨h1, h2⟩ := h
      simp only [List.map_cons, BitOp.req, runReqs, (hstep d).1, h1]
      obtain ⟨r1, r2⟩ := ih (next d).2 S ((if b then 1 else 0) :: acc) hv' h2
      refine ⟨?_, r2⟩
      rw [r1]; simp [BitOp.value]
    | lsb32 n v =>
      simp only [BitOp.bits] at h
      obtain ⟨y1, y2⟩ := yields_append next (msbBits n v) d _ h 0
      rw [msbBits_length] at y1 y2
      simp only [List.map_cons, BitOp.req, runReqs, (hstep d).2]
      obtain ⟨r1, r2⟩ := ih _ S ((readMsbFirst next n 0 d).1 :: acc) hv' y2
      refine ⟨?_, r2⟩
      rw [r1, y1, foldl_shlAdd32_value n v hop.2.1]
      simp [BitOp.value]

/-! ### chains of rABS steps -/

/-- the decoder, reading with the probabilities `ps.map (·.2)`, returns the bits `ps.map (·.1)` -/
def RawYields : AnsDecoder → List (Bool × Nat) → Prop
  | _, [] => True
  | d, (b, p) :: ps => (rabsRead d p).1 = b ∧ RawYields (rabsRead d p).2 ps

def writePairs (tab : List (Nat × Nat)) (ps : List (Bool × Nat)) (a : AnsCoder) : AnsCoder :=
  ps.foldl (fun a bp => rabsWrite tab a bp.1 bp.2) a

theorem writePairs_nil (tab : List (Nat × Nat)) (a : AnsCoder) : writePairs tab [] a = a := by
  simp only [writePairs, List.foldl_nil]

theorem writePairs_cons (tab : List (Nat × Nat)) (x : Bool × Nat) (ps : List (Bool × Nat))
    (a : AnsCoder) : writePairs tab (x :: ps) a = writePairs tab ps (rabsWrite tab a x.1 x.2) := by
  simp only [writePairs, List.foldl_cons]

theorem writePairs_snoc (tab : List (Nat × Nat)) (x : Bool × Nat) (ps : List (Bool × Nat))
    (a : AnsCoder) : writePairs tab (ps ++ [x]) a = rabsWrite tab (writePairs tab ps a) x.1 x.2 := by
  simp only [writePairs, List.foldl_append, List.foldl_cons, List.foldl_nil]

theorem writePairs_valid (tab : List (Nat × Nat)) (hd : DivOK tab) :
    ∀ (ps : List (Bool × Nat)) (a : AnsCoder), a.Valid → (∀ x ∈ ps, ProbOK x.2) →
      (writePairs tab ps a).Valid := by
  intro ps
  induction ps with
  | nil => intro a ha _; rw [writePairs_nil]; exact ha
  | cons x ps ih =>
    intro a ha hp
    rw [writePairs_cons]
    exact ih _ (rabsWrite_valid tab hd a ha x.1 x.2 (hp x (by simp))) (fun y hy => hp y (by simp [hy]))

theorem writePairs_out_length (tab : List (Nat × Nat)) :
    ∀ (ps : List (Bool × Nat)) (a : AnsCoder),
      (writePairs tab ps a).out.length ≤ a.out.length + ps.length := by
  intro ps
  induction ps with
  | nil => intro a; rw [writePairs_nil]; simp
  | cons x ps ih =>
    intro a
    have h1 := ih (rabsWrite tab a x.1 x.2)
    have h2 := rabsWrite_out_length tab a x.1 x.2
    rw [writePairs_cons, List.length_cons]
    omega

/-- the encoder writes the pairs in reverse, the decoder reads them forward -/
theorem rabs_chain (tab : List (Nat × Nat)) (hd : DivOK tab) :
    ∀ (ps : List (Bool × Nat)) (a : AnsCoder) (d : AnsDecoder), a.Valid →
      (∀ x ∈ ps, ProbOK x.2) → ansPull d = (writePairs tab ps.reverse a).toDec →
      RawYields d ps := by
  intro ps
  induction ps with
  | nil => intro a d _ _ _; trivial
  | cons x ps ih =>
    intro a d ha hp hpull
    obtain ⟨b, p⟩ := x
    have hps : ∀ y ∈ ps, ProbOK y.2 := fun y hy => hp y (by simp [hy])
    have hinner := writePairs_valid tab hd ps.reverse a ha (fun y hy => hps y (by simpa using hy))
    have hw : writePairs tab ((b, p) :: ps).reverse a =
        rabsWrite tab (writePairs tab ps.reverse a) b p := by
      rw [List.reverse_cons, writePairs_snoc]
    rw [hw] at hpull
    obtain ⟨s1, s2⟩ := rabs_step tab hd _ hinner b p (hp (b, p) (by simp)) d hpull
    exact ⟨s1, ih a _ ha hps s2⟩

end Draco

namespace Draco

theorem opsBits_length (ops : List BitOp) : (opsBits ops).length = (ops.map BitOp.width).sum := by
  induction ops with
  | nil => rfl
  | cons op ops ih => simp [opsBits, BitOp.bits_length] at ih ⊢; try omega

theorem rabsReadBits_raw (p0 : Nat) : ∀ (bits : List Bool) (d : AnsDecoder) (acc : List Bool),
    RawYields d (bits.map (fun b => (b, p0))) →
    (rabsReadBits p0 bits.length d acc).1 = acc.reverse ++ bits := by
  intro bits
  induction bits with
  | nil => intro d acc _; simp [rabsReadBits]
  | cons b bits ih =>
    intro d acc h
    obtain ⟨h1, h2⟩ := h
    simp only [List.length_cons, rabsReadBits, h1]
    rw [ih _ _ h2]
    simp

theorem rabsDecodeBits_of_init (p0 n : Nat) (buf : Bytes) (d : AnsDecoder)
    (h : ansReadInit buf = some d) :
    rabsDecodeBits p0 n buf = some (rabsReadBits p0 n d []).1 := by
  unfold rabsDecodeBits
  rw [h]

/-- whole-block rABS round trip with a fixed probability -/
theorem rabs_decode_encode (tab : List (Nat × Nat)) (hd : DivOK tab) (p0 : Nat) (hp : ProbOK p0)
    (bits : List Bool) : rabsDecodeBits p0 bits.length (rabsEncodeBits tab p0 bits) = some bits := by
  have hps : ∀ x ∈ bits.map (fun b => (b, p0)), ProbOK x.2 := by
    intro x hx
    simp only [List.mem_map] at hx
    obtain ⟨b, _, hb⟩ := hx
    subst hb; exact hp
  have henc : rabsEncodeBits tab p0 bits =
      ansWriteEnd (writePairs tab (bits.map (fun b => (b, p0))).reverse ansWriteInit) := by
    simp only [rabsEncodeBits, writePairs, ← List.map_reverse, List.foldl_map]
  have hchain := rabs_chain tab hd (bits.map (fun b => (b, p0))) ansWriteInit
  have hva := writePairs_valid tab hd (bits.map (fun b => (b, p0))).reverse _ ansWriteInit_valid
    (fun y hy => hps y (by simpa using hy))
  rw [henc]
  generalize writePairs tab (bits.map (fun b => (b, p0))).reverse ansWriteInit = a at *
  have hinit := ansReadInit_writeEnd a hva
  rw [rabsDecodeBits_of_init p0 _ _ _ hinit]
  have := rabsReadBits_raw p0 bits a.toDec []
    (hchain a.toDec ansWriteInit_valid hps (ansPull_of_ge _ hva.1))
  simp only [this, List.reverse_nil, List.nil_append]

end Draco
