import DracoProofs.EbCountsAlign2
import DracoProofs.EbFinal4
/-
  `hoff` of `eb_encoded_counts_of_link''` from the encoder run: an attribute data that no controller encodes on its
  attribute corner table has no interior seams.

  (1) `generateControllers_one`: without a single connectivity every controller has exactly one attribute; with
      `generateControllers_attIds_mem` every attribute id is the first (only) attribute of a controller;
  (2), (3) `connInputs_acv_idx`: the attribute ids of `attCornerValues` are `< atts.size` and pairwise different; with
      `Final3.encodeConnectivity_atts` so are the `attIndex` fields of `attribute_data_` (`attIndex_of_run`), hence
      `findAttData conn (conn.atts[j]).attIndex = j` (`findAttData_attIndex`);
  (4) `Final4.connInputs_single_acv`: a single connectivity has no attribute data.
  `hoff_of_run`, then `eb_encoded_counts_of_link'''`.
-/
namespace Draco.EbEnc.CountsIso
open Draco Draco.SeqEnc
open Draco.Eb hiding nextC prevC iabs
open Draco.Counts
open Draco.EbEnc.EncCounts AttViews Seams

/-! ## (1) one attribute per controller without a single connectivity -/

theorem generateControllers_one {o : EbOpts} {atts : Array Attribute} {np : Nat} {conn : ConnEnc}
    {cs : Array Controller} (h : generateControllers o atts np conn = .ok cs)
    (hs : useSingleConnectivity o = false) : ∀ c ∈ cs, c.attIds.size = 1 := by
  unfold generateControllers at h
  simp only [Std.Legacy.Range.forIn_eq_forIn_range'] at h
  rw [bind_ok_iff] at h
  obtain ⟨cs0, hloop, hret⟩ := h
  have hcs := pure_ok_eq hret
  have hinv := forIn_mem_inv _ _ (fun (s : Array Controller) => ∀ c ∈ s, c.attIds.size = 1) (by
    intro a _ s r hI hf
    clear hloop hret hcs
    have hpush : ∀ c : Controller, c.attIds.size = 1 → ∀ c' ∈ s.push c, c'.attIds.size = 1 := by
      intro c hc c' hc'
      rcases Array.mem_push.mp hc' with hc' | rfl
      · exact hI c' hc'
      · exact hc
    split at hf
    · rename_i hcond
      rw [hs] at hcond
      simp at hcond
    · rename_i hns
      suffices hk : ∃ c : Controller, c.attIds.size = 1 ∧ r = .yield (s.push c) by
        obtain ⟨c, hc, rfl⟩ := hk
        exact hpush c hc
      clear hI hpush
      repeat' split at hf
      all_goals first
        | exact absurd hf (fun h => throw_bind_ne_ok h)
        | (have hr := pure_ok_eq hf
           subst hr
           exact ⟨_, by simp, rfl⟩))
    #[] cs0 (by simp) hloop
  subst hcs
  intro c hc
  obtain ⟨c0, hc0, rfl⟩ := Array.mem_map.mp hc
  exact hinv c0 hc0

/-- without a single connectivity every attribute id is the first attribute of a controller -/
theorem generateControllers_head_mem {o : EbOpts} {atts : Array Attribute} {np : Nat} {conn : ConnEnc}
    {cs : Array Controller} (h : generateControllers o atts np conn = .ok cs)
    (hs : useSingleConnectivity o = false) : ∀ a, a < atts.size → ∃ c ∈ cs, c.attIds[0]! = a := by
  intro a ha
  obtain ⟨c, hc, hac⟩ := generateControllers_attIds_mem h a ha
  refine ⟨c, hc, ?_⟩
  have h1 := generateControllers_one h hs c hc
  obtain ⟨i, hi, rfl⟩ := Array.mem_iff_getElem.mp hac
  have : i = 0 := by omega
  subst this
  rw [getElem!_pos c.attIds 0 hi]

/-! ## (2), (3) the attribute ids of the attribute data -/

/-- the attribute ids in `attCornerValues` are attribute ids, pairwise different -/
theorem connInputs_acv_idx {g : Geometry} {single : Bool} {pf : Faces} {acv : Array (Nat × Array Nat)}
    (h : connInputs g single = .ok (pf, acv)) :
    (∀ k, k < acv.size → (acv[k]!).1 < g.atts.length) ∧
    ∀ k k', k < acv.size → k' < acv.size → (acv[k]!).1 = (acv[k']!).1 → k = k' := by
  cases single with
  | true =>
    rw [Final4.connInputs_single_acv h]
    exact ⟨fun k hk => by simp at hk, fun k k' hk => by simp at hk⟩
  | false =>
    unfold connInputs at h
    simp only [Bool.false_eq_true, if_false] at h
    split at h
    · simp [throw, throwThe, MonadExceptOf.throw, bind, Except.bind] at h
    · rw [bind_ok_iff] at h
      obtain ⟨s, _, h⟩ := h
      simp only [Bool.not_false, if_true] at h
      split at h
      · simp [throw, throwThe, MonadExceptOf.throw, bind, Except.bind] at h
      · rw [bind_ok_iff] at h
        obtain ⟨s1, hs1, h⟩ := h
        simp only [pure, Except.pure, Except.ok.injEq, Prod.mk.injEq] at h
        obtain ⟨_, rfl⟩ := h
        simp only [Std.Legacy.Range.forIn_eq_forIn_range', Std.Legacy.Range.size, Nat.sub_zero, Nat.add_sub_cancel,
          Nat.div_one] at hs1
        have ho := PosAgreeP.forIn_ok_inv _ (fun p (a : Array (Nat × Array Nat)) =>
            (∀ q, q < a.size → (a[q]!).1 < p) ∧
            ∀ q q', q < a.size → q' < a.size → (a[q]!).1 = (a[q']!).1 → q = q')
          g.atts.toArray.size 0 _ s1 ?_ ?_ hs1
        · refine ⟨fun k hk => ?_, ho.2⟩
          have := ho.1 k hk
          simpa using this
        · intro j a r _ hj hI hr
          by_cases hp : ((g.atts.toArray[j]!).attType == posType) = true
          · simp only [hp, if_true, pure, Except.pure, Except.ok.injEq] at hr
            subst hr
            exact ⟨_, rfl, fun q hq => by have := hI.1 q hq; omega, hI.2⟩
          · simp only [hp, Bool.false_eq_true, if_false] at hr
            rw [bind_ok_iff] at hr
            obtain ⟨cv, _, hr⟩ := hr
            simp only [pure, Except.pure, Except.ok.injEq] at hr
            subst hr
            have hget : ∀ q, q < a.size + 1 → ((a.push (j, cv))[q]!).1 = if q < a.size then (a[q]!).1 else j := by
              intro q hq
              by_cases hlt : q < a.size
              · simp [Array.getElem_push, hlt, hq]
              · have : q = a.size := by omega
                subst this
                simp
            refine ⟨_, rfl, ?_, ?_⟩
            · intro q hq
              have hq' : q < a.size + 1 := by simpa using hq
              rw [hget q hq']
              split
              · rename_i hlt; have := hI.1 q hlt; omega
              · omega
            · intro q q' hq hq' he
              have hq1 : q < a.size + 1 := by simpa using hq
              have hq1' : q' < a.size + 1 := by simpa using hq'
              rw [hget q hq1, hget q' hq1'] at he
              by_cases h1 : q < a.size <;> by_cases h2 : q' < a.size
              · simp only [h1, h2, if_true] at he; exact hI.2 q q' h1 h2 he
              · simp only [h1, h2, if_true, if_false] at he; have := hI.1 q h1; omega
              · simp only [h1, h2, if_true, if_false] at he; have := hI.1 q' h2; omega
              · omega
        · exact ⟨fun q hq => by simp at hq, fun q q' hq => by simp at hq⟩

section stream
variable {ch : EbChoices} {g : Geometry} {md : Option GeometryMetadata} {o : EbOpts} {enc : Encoded}

/-- the `attIndex` fields of `attribute_data_` are attribute ids, pairwise different; with a single connectivity there
    is no attribute data -/
theorem attIndex_of_run (henc : encodeEdgebreaker ch g md o = .ok enc) :
    (∀ k, k < enc.conn.atts.size → (enc.conn.atts[k]!).attIndex < g.atts.length) ∧
    (∀ k k', k < enc.conn.atts.size → k' < enc.conn.atts.size →
      (enc.conn.atts[k]!).attIndex = (enc.conn.atts[k']!).attIndex → k = k') ∧
    (useSingleConnectivity o = true → enc.conn.atts.size = 0) := by
  obtain ⟨mdBytes, coder, posFaces, acv, cs, couts, h1, h2, h3, h4, _⟩ :=
    (encodeEdgebreaker_stages ch g md o enc henc).stages
  obtain ⟨a1, a2⟩ := Final3.encodeConnectivity_atts ch.conn _ posFaces acv enc.conn h4
  obtain ⟨b1, b2⟩ := connInputs_acv_idx h3
  refine ⟨?_, ?_, ?_⟩
  · intro k hk
    rw [a2 k (by omega)]
    exact b1 k (by omega)
  · intro k k' hk hk' he
    rw [a2 k (by omega), a2 k' (by omega)] at he
    exact b2 k k' (by omega) (by omega) he
  · intro hs
    rw [hs] at h3
    rw [a1, Final4.connInputs_single_acv h3]
    rfl

/-- the attribute data of the attribute of attribute data `j` is `j` -/
theorem findAttData_attIndex {conn : ConnEnc} (hinj : ∀ k k', k < conn.atts.size → k' < conn.atts.size →
      (conn.atts[k]!).attIndex = (conn.atts[k']!).attIndex → k = k') (j : Nat) (hj : j < conn.atts.size) :
    findAttData conn (conn.atts[j]!).attIndex = (j : Int) := by
  have hnn : 0 ≤ findAttData conn (conn.atts[j]!).attIndex := by
    unfold findAttData
    cases hf : (List.range conn.atts.size).find? fun i => (conn.atts[i]!).attIndex == (conn.atts[j]!).attIndex with
    | none =>
      exfalso
      rw [List.find?_eq_none] at hf
      have := hf j (List.mem_range.mpr hj)
      simp at this
    | some k => simp
  obtain ⟨h1, h2⟩ := findAttData_nonneg hnn
  have := hinj _ _ h1 hj h2
  omega

/-- **`hoff` from the run**: an attribute data that is not the attribute data of a controller encoding on its attribute
    corner table has no interior seams -/
theorem hoff_of_run (henc : encodeEdgebreaker ch g md o = .ok enc) :
    ∀ j, j < enc.conn.atts.size → (¬ ∃ k, k < (usedOf enc).size ∧ sigmaOf enc k = j) →
      (enc.conn.atts[j]!).conn.noInteriorSeams = true := by
  obtain ⟨coder, posFaces, acv, hconn, hcs, _, _⟩ := encoded_points_run henc
  obtain ⟨hlt, hinj, hsingle⟩ := attIndex_of_run henc
  obtain ⟨hnonpos, _⟩ := Final3.attData_of_run ch g md o enc henc
  intro j hj hnim
  cases hs : useSingleConnectivity o with
  | true => have := hsingle hs; omega
  | false =>
    obtain ⟨c, hc, hhead⟩ := generateControllers_head_mem hcs hs (enc.conn.atts[j]!).attIndex
      (by have := hlt j hj; simpa using this)
    have hid : c.attDataId = (j : Int) := by
      rw [generateControllers_attDataId hcs c hc, hhead]
      exact findAttData_attIndex hinj j hj
    have hok := generateControllers_ctrlOk hcs c hc
    cases hon : c.onAttTable with
    | true =>
      exfalso
      apply hnim
      have hmem : j ∈ sigmaList enc := by
        unfold sigmaList
        rw [List.mem_filterMap]
        refine ⟨c, by simpa using hc, ?_⟩
        have hcond : (c.onAttTable && decide (c.attDataId ≥ 0)) = true := by
          rw [hon, hid]; simp
        rw [if_pos hcond, hid]
        simp
      obtain ⟨k, hk, hkj⟩ := List.getElem_of_mem hmem
      refine ⟨k, by rw [usedOf_size]; exact hk, ?_⟩
      unfold sigmaOf
      rw [List.getD_eq_getElem?_getD, List.getElem?_eq_getElem hk]
      exact hkj
    | false =>
      rcases hok.offTable hon with h1 | h1 | ⟨_, h1⟩
      · rw [hs] at h1; cases h1
      · rw [hhead] at h1
        have := hnonpos j hj
        rw [this] at h1; cases h1
      · rw [hid] at h1
        simpa using h1

/-- **The reported counts agree, more than one attribute.**  Encoder run, decoder stages, the connectivity link (`hn`,
    `hiso`), the index-wise seam link between the decoder's attribute data and the encoder's `attribute_data_`, and the
    decoder-side invariants `APHyp`, `hszc`, `hhole`. -/
theorem eb_encoded_counts_of_link''' (henc : encodeEdgebreaker ch g md o = .ok enc)
    {mesh : Mesh} {co : ConnOut} (hst : DecStagesOf mesh co) (ψ : Nat → Nat)
    (hatts : g.atts.length > 1)
    (hne : mesh.atts.isEmpty = false)
    (hn : mesh.numFaces = enc.conn.processed.size)
    (hiso : TVIso (baseViewD mesh.numFaces co.c2v co.opp co.vc) enc.conn.ct.view (phi enc.conn.processed) ψ)
    (hdec : APHyp mesh.numFaces co) (hszc : co.c2v.size = 3 * mesh.numFaces)
    (hhole : ∀ v, v < co.vc.size → co.vc[v]! ≠ inv → co.hole[v]! = true → ∃ k, iter (sRP co.opp) k co.vc[v]! = inv)
    (hlink : SeamLink mesh.numFaces mesh.atts (enc.conn.atts.map (·.conn)) (phi enc.conn.processed)) :
    enc.numEncodedPoints = mesh.numPoints ∧ enc.numEncodedFaces = mesh.numFaces :=
  eb_encoded_counts_of_link'' henc hst ψ hatts hne hn hiso hdec hszc hhole hlink (hoff_of_run henc)

end stream

end Draco.EbEnc.CountsIso
