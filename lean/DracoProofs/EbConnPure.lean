import DracoProofs.EbConnRoundtrip
/-
  Towards the connectivity link for ARBITRARY split-free meshes without attribute data as a PURE statement
  (no bytes, no encoder choices).

  Proved here (step (1) of the reduction, symbol side):
  * `bind_forIn_sim` / `forIn_list_sim` — a simulation rule for `for` loops in `R`: related initial states, related steps
    (same constructor `yield` / `done`) ⇒ if the primed loop + continuation succeeds, so does the other, same result.
  * `connLoop_sym_indep` — **`connLoop` (standard traversal) depends on the symbol bit reader only through the symbols it
    delivers**: two traversal states that differ in `sym` (and in the unused seam decoders) and deliver the same first
    `numSymbols` symbols give the same result.  The step is a naturality statement about the loop body,
    `F i (…, sym, …) = stepMap (setSym (decodeSymbolStd sym).2) <$> F i (…, sym', …)`, closed by `simp` pushing `<$>`
    through the body (`map_ite'`).
  * `connLoop_trailing_indep` — hence the reader over `body ++ rest` (what `startTraversal` builds: the whole remaining
    input) can be replaced by the reader over `body` alone, for the symbol buffer `body` of ANY symbol list: `connLoopCanon`.
  Not done (frontier): the same for the start-face decoder (it does not depend on the trailing bytes at all, only on the
  encoder's `zero_prob` byte: `ransBitStart_bytes`), the generalisation of `runs_decodeConnectivity_tri` to arbitrary
  counts / symbols, `PureLink`, and the instances.
-/
namespace Draco.EbEnc.ConnPure
open Draco Draco.SeqEnc DecM
open Draco.Eb hiding iabs nextC prevC
open Draco.EbEnc.ConnExample (RunsX)
open Draco.EbEnc.ConnTri

/-- replace the symbol reader in a loop state -/
def setSym (r : BitReader) (s : CSt) : CSt :=
  (s.1, s.2.1, s.2.2.1, s.2.2.2.1, s.2.2.2.2.1, s.2.2.2.2.2.1, s.2.2.2.2.2.2.1, s.2.2.2.2.2.2.2.1, s.2.2.2.2.2.2.2.2.1, r,
    s.2.2.2.2.2.2.2.2.2.2)

def stepMap {σ : Type} (g : σ → σ) : ForInStep σ → ForInStep σ
  | .yield s => .yield (g s)
  | .done s => .done (g s)

theorem map_ite' {α β : Type} {c : Prop} [Decidable c] (g : α → β) (a b : R α) :
    g <$> (if c then a else b) = if c then g <$> a else g <$> b := by split <;> rfl

theorem map_dite' {α β : Type} {c : Prop} [Decidable c] (g : α → β) (a : c → R α) (b : ¬ c → R α) :
    g <$> (dite c a b) = dite c (fun h => g <$> a h) (fun h => g <$> b h) := by split <;> rfl

/-- the steps correspond: same constructor, related states -/
def StepRel {σ : Type} (Rl Q : σ → σ → Prop) : ForInStep σ → ForInStep σ → Prop
  | .yield a, .yield a' => Rl a a'
  | .done a, .done a' => Q a a'
  | _, _ => False

theorem forIn_list_sim {σ : Type} (f : Nat → σ → R (ForInStep σ)) (Rl : Nat → σ → σ → Prop) (Q : σ → σ → Prop)
    (hRQ : ∀ i s s', Rl i s s' → Q s s') :
    ∀ (n start : Nat) (init init' : σ), Rl start init init' →
    (∀ i s s', start ≤ i → i < start + n → Rl i s s' → ∀ out', f i s' = .ok out' →
      ∃ out, f i s = .ok out ∧ StepRel (Rl (i + 1)) Q out out') →
    ∀ out', forIn (List.range' start n) init' f = .ok out' →
      ∃ out, forIn (List.range' start n) init f = .ok out ∧ Q out out' := by
  intro n
  induction n with
  | zero =>
    intro start init init' h0 _ out' h
    simp only [List.range'_zero, List.forIn_nil, pure, Except.pure, Except.ok.injEq] at h
    subst h
    exact ⟨init, rfl, hRQ _ _ _ h0⟩
  | succ n ih =>
    intro start init init' h0 hstep out' h
    rw [List.range'_succ, List.forIn_cons] at h
    cases hf : f start init' with
    | error e => rw [hf] at h; cases h
    | ok r' =>
      rw [hf] at h
      obtain ⟨r, hr, hrel⟩ := hstep start init init' (Nat.le_refl _) (by omega) h0 r' hf
      cases r' with
      | done a' =>
        cases r with
        | yield a => exact absurd hrel (by simp [StepRel])
        | done a =>
          simp [bind, Except.bind, pure, Except.pure] at h
          subst h
          exact ⟨a, by rw [List.range'_succ, List.forIn_cons, hr]; rfl, hrel⟩
      | yield a' =>
        cases r with
        | done a => exact absurd hrel (by simp [StepRel])
        | yield a =>
          simp only [bind, Except.bind] at h
          obtain ⟨out, ho, hQ⟩ := ih (start + 1) a a' hrel (fun i s s' h1 h2 => hstep i s s' (by omega) (by omega)) out' h
          exact ⟨out, by rw [List.range'_succ, List.forIn_cons, hr]; exact ho, hQ⟩

theorem bind_forIn_sim {σ β : Type} (n : Nat) (f : Nat → σ → R (ForInStep σ)) (init init' : σ) (tail tail' : σ → R β)
    (Rl : Nat → σ → σ → Prop) (Q : σ → σ → Prop) (res : β) (hRQ : ∀ i s s', Rl i s s' → Q s s') (h0 : Rl 0 init init')
    (hstep : ∀ i s s', i < n → Rl i s s' → ∀ out', f i s' = .ok out' →
      ∃ out, f i s = .ok out ∧ StepRel (Rl (i + 1)) Q out out')
    (htail : ∀ s s', Q s s' → tail' s' = .ok res → tail s = .ok res)
    (h : (forIn [0:n] init' f >>= tail') = .ok res) : (forIn [0:n] init f >>= tail) = .ok res := by
  rw [Std.Legacy.Range.forIn_eq_forIn_range'] at h ⊢
  simp only [Std.Legacy.Range.size, Nat.sub_zero, Nat.add_sub_cancel, Nat.div_one] at h ⊢
  rw [bind_ok_iff] at h
  obtain ⟨out', h1, h2⟩ := h
  obtain ⟨out, h3, h4⟩ := forIn_list_sim f Rl Q hRQ n 0 init init' h0
    (fun i s s' _ hi hR => hstep i s s' (by omega) hR) out' h1
  rw [h3]
  exact htail out out' h4 h2

theorem map_ok_step {σ : Type} {g : σ → σ} {x y : R (ForInStep σ)} (h : x = stepMap g <$> y) {out' : ForInStep σ}
    (hy : y = .ok out') : x = .ok (stepMap g out') := by
  rw [h, hy]; rfl

set_option maxRecDepth 100000 in
set_option maxHeartbeats 8000000 in
/-- **the connectivity loop depends on the symbol reader only through the symbols it delivers** (standard traversal;
    the attribute seam decoders are not used by `connLoop`) -/
theorem connMain_sym_indep (ci : ConnIn) (l : Bool) (sym sym' : BitReader) (sf : RAnsBitDec) (sfb : BitReader)
    (seams seams' : Array RAnsBitDec) (val : Array Nat) (cs : Array (Array Nat)) (cc : Array Int) (pd : RAnsBitDec)
    (hrd : ∀ i, i < ci.numSymbols → (decodeSymbolStd (RdS sym i)).1 = (decodeSymbolStd (RdS sym' i)).1) (co : ConnMain)
    (h : connMain ci ⟨0, l, sym', sf, sfb, seams', val, cs, cc, pd⟩ = .ok co) :
    connMain ci ⟨0, l, sym, sf, sfb, seams, val, cs, cc, pd⟩ = .ok co := by
  unfold connMain at h ⊢
  simp only [show ((0 : Nat) == 1) = false from rfl, Trav.valence, show ((0 : Nat) == 2) = false from rfl,
    Trav.tracksValences, show ((0 : Nat) != 0) = false from rfl, Bool.false_eq_true, ↓reduceIte] at h ⊢
  generalize hF : (fun (symbolId : Nat) (r : CSt) => _) = F at h ⊢
  have key : ∀ (i : Nat) (a b c : Array Nat) (d : Array Bool) (e f g : Array Nat) (sp : List TopoSplit) (nf : Nat)
      (x1 : Array Nat) (x2 : Array Int) (x3 x4 : Nat) (x5 : RAnsBitDec) (x6 x7 : Nat) (s1 s2 : BitReader),
      (decodeSymbolStd s1).1 = (decodeSymbolStd s2).1 →
      F i (a, b, c, d, e, f, g, sp, nf, s1, x1, x2, x3, x4, x5, x6, x7) =
        stepMap (setSym (decodeSymbolStd s1).2) <$> F i (a, b, c, d, e, f, g, sp, nf, s2, x1, x2, x3, x4, x5, x6, x7) := by
    intro i a b c d e f g sp nf x1 x2 x3 x4 x5 x6 x7 s1 s2 hrd'
    subst hF
    dsimp only
    generalize decodeSymbolStd s1 = p at hrd' ⊢
    generalize decodeSymbolStd s2 = p' at hrd' ⊢
    obtain ⟨v, r⟩ := p
    obtain ⟨v', r'⟩ := p'
    simp only at hrd'
    subst hrd'
    simp [map_ite', stepMap, setSym]
  clear hF
  refine bind_forIn_sim ci.numSymbols F _ _ _ _
    (fun i s s' => s = setSym (RdS sym i) s' ∧ s'.2.2.2.2.2.2.2.2.2.1 = RdS sym' i) (fun s s' => ∃ r, s = setSym r s') co
    (fun i s s' hR => ⟨_, hR.1⟩) ⟨rfl, rfl⟩ ?_ ?_ h
  · intro i s s' hi hR out' hout'
    obtain ⟨hs, hs'⟩ := hR
    obtain ⟨a, b, c, d, e, f, g, sp, nf, s2, x1, x2, x3, x4, x5, x6, x7⟩ := s'
    subst hs
    have hs'' : s2 = RdS sym' i := hs'
    subst hs''
    have k1 := key i a b c d e f g sp nf x1 x2 x3 x4 x5 x6 x7 (RdS sym i) (RdS sym' i) (hrd i hi)
    have k2 := key i a b c d e f g sp nf x1 x2 x3 x4 x5 x6 x7 (RdS sym' i) (RdS sym' i) rfl
    have e2 := (map_ok_step k2 hout').symm.trans hout'
    refine ⟨_, map_ok_step k1 hout', ?_⟩
    cases out' with
    | done a' => exact ⟨_, rfl⟩
    | yield a' =>
      refine ⟨rfl, ?_⟩
      have e3 : stepMap (setSym (decodeSymbolStd (RdS sym' i)).2) (ForInStep.yield a') = ForInStep.yield a' :=
        Except.ok.inj e2
      have e4 : setSym (decodeSymbolStd (RdS sym' i)).2 a' = a' := ForInStep.yield.inj e3
      exact (congrArg (fun s : CSt => s.2.2.2.2.2.2.2.2.2.1) e4).symm
  · rintro s s' ⟨r, rfl⟩ ht
    exact ht

/-- **the connectivity loop depends on the symbol reader only through the symbols it delivers** (standard traversal;
    the attribute seam decoders are not used by `connLoop`) -/
theorem connLoop_sym_indep (ci : ConnIn) (l : Bool) (sym sym' : BitReader) (sf : RAnsBitDec) (sfb : BitReader)
    (seams seams' : Array RAnsBitDec) (val : Array Nat) (cs : Array (Array Nat)) (cc : Array Int) (pd : RAnsBitDec)
    (hrd : ∀ i, i < ci.numSymbols → (decodeSymbolStd (RdS sym i)).1 = (decodeSymbolStd (RdS sym' i)).1) (co : ConnOut)
    (h : connLoop ci ⟨0, l, sym', sf, sfb, seams', val, cs, cc, pd⟩ = .ok co) :
    connLoop ci ⟨0, l, sym, sf, sfb, seams, val, cs, cc, pd⟩ = .ok co := by
  unfold connLoop at h ⊢
  obtain ⟨m, hm, h⟩ := (bind_ok_iff _ _ _).mp h
  rw [connMain_sym_indep ci l sym sym' sf sfb seams seams' val cs cc pd hrd m hm]
  have e : connStart ci ⟨0, l, sym, sf, sfb, seams, val, cs, cc, pd⟩ m =
      connStart ci ⟨0, l, sym', sf, sfb, seams', val, cs, cc, pd⟩ m := by
    unfold connStart
    rfl
  show (connStart ci ⟨0, l, sym, sf, sfb, seams, val, cs, cc, pd⟩ m >>= fun s => connCompact ci m s) = _
  rw [e]
  exact h

theorem readStd_agree : ∀ (n : Nat) (r r' : BitReader), (readStdSymbols n r).1 = (readStdSymbols n r').1 →
    ∀ i, i < n → (decodeSymbolStd (RdS r i)).1 = (decodeSymbolStd (RdS r' i)).1 := by
  intro n
  induction n with
  | zero => intro r r' _ i hi; omega
  | succ n ih =>
    intro r r' h i hi
    simp only [readStdSymbols, List.cons.injEq] at h
    cases i with
    | zero => exact h.1
    | succ i => rw [Rd_succ, Rd_succ]; exact ih _ _ h.2 i (by omega)

/-- the symbol buffer of a symbol list (encoding order) -/
def symBodyOf (symbols : Array Nat) : Bytes := packBits (traversalBits symbols)

theorem symBodyOf_read (symbols : Array Nat) (hs : ∀ s ∈ symbols.toList, IsTopo s) (rest : Bytes) :
    (readStdSymbols symbols.size (BitReader.start (symBodyOf symbols ++ rest))).1 = symbols.toList.reverse := by
  obtain ⟨pad, hpad⟩ := packBits_stream _ (traversalBits symbols) (Nat.le_refl _)
  have hstream : (BitReader.start (symBodyOf symbols ++ rest)).stream =
      symbols.toList.reverse.flatMap symbolBits ++ (pad ++ rest.flatMap (bitsOf 8)) := by
    rw [stream_start, List.flatMap_append, symBodyOf, hpad, List.append_assoc]; rfl
  have h := readStdSymbols_stream symbols.toList.reverse _ _
    (fun s hx => hs s (by simpa using hx)) (by simp [BitReader.start]) hstream
  have hsz : symbols.toList.reverse.length = symbols.size := by simp
  rw [hsz] at h
  exact h.1

/-- `connLoop` on the canonical, list-backed symbol reader (nothing behind the symbol buffer) -/
def connLoopCanon (ci : ConnIn) (symbols : Array Nat) (sf : RAnsBitDec) : R ConnOut :=
  connLoop ci ⟨0, false, BitReader.start (symBodyOf symbols), sf, BitReader.start [], #[], #[], #[], #[], ⟨0, ⟨0, []⟩⟩⟩

/-- **the trailing input does not matter**: the traversal state `startTraversal` builds (its symbol reader holds the whole
    remaining input `symBodyOf symbols ++ rest`) gives the result of the canonical reader -/
theorem connLoop_trailing_indep (ci : ConnIn) (symbols : Array Nat) (hs : ∀ s ∈ symbols.toList, IsTopo s)
    (hn : ci.numSymbols = symbols.size) (sf : RAnsBitDec) (rest : Bytes) (co : ConnOut)
    (h : connLoopCanon ci symbols sf = .ok co) :
    connLoop ci (travK sf (symBodyOf symbols ++ rest)) = .ok co := by
  refine connLoop_sym_indep ci false _ _ sf _ #[] #[] #[] #[] #[] _ (fun i hi => ?_) co h
  refine readStd_agree symbols.size _ _ ?_ i (hn ▸ hi)
  have h1 := symBodyOf_read symbols hs rest
  have h2 := symBodyOf_read symbols hs []
  rw [List.append_nil] at h2
  rw [h1, h2]

end Draco.EbEnc.ConnPure
