import DracoProofs.EbEncTraceS
/-
  Towards the open encoder-side clauses of `EncTraceS.traceS_of_run_partial2`.

  PROVED HERE: `notFanEarlier_core` — the purely combinatorial half of `¬ FanEarlier` at an `S`: if the tip vertex of the
  gate corner `P[j]` has a WITNESS corner `z` (same vertex) whose face is decoded LATER than `j` (a face encoded earlier, or
  an init face) or which has an unglued edge (a hole), then the fan of the tip is NOT "closed with all other faces decoded
  earlier".  (On a table whose vertices are swing classes — `EncTraceI.Cover` — a closed fan contains every corner of its
  vertex.)
  NOT PROVED: that the encoder's run provides the witness at every `S` (the vertex was visited before: it lies on a face
  visited earlier, or on a hole — needs the converse of `HolesOK` for `findHoles` and a spec of `encodeHole`), the no-event
  left-neighbour clause and `comps` (positional invariant of the corner stack with several pending corners).
-/
namespace Draco.EbEnc.EncTraceS2
open Draco
open Draco.Eb hiding nextC prevC iabs
open Draco.EbEnc.EncCounts Draco.EbEnc.Coverage Draco.EbEnc.DecSim Draco.EbEnc.EncTraceI AttViews

/-- in a closed `SwingLeft` cycle of length `m` every `SwingRight` iterate is one of the `m` corners -/
theorem sR_in_cycle {t : CT} (hT : TblOK t) {c m : Nat} (hc : c < t.numCorners) (hm : 1 ≤ m) (hcl : sLk t m c = c)
    (hne : ∀ k, k < m → 0 < k → sLk t k c ≠ inv) :
    ∀ a, ∃ k, k < m ∧ iter (sRP t.opp) a c = sLk t k c := by
  have hb := hT.base
  have hci := hb.ne_inv hc
  have hval : ∀ k, k ≤ m → sLk t k c ≠ inv ∧ sLk t k c < t.numCorners := by
    intro k
    induction k with
    | zero => intro _; exact ⟨hci, hc⟩
    | succ k ih =>
      intro hk
      obtain ⟨i1, i2⟩ := ih (by omega)
      have hn : sLk t (k + 1) c ≠ inv := by
        by_cases e : k + 1 = m
        · rw [e, hcl]; exact hci
        · exact hne _ (by omega) (by omega)
      have e : sLP t.opp (sLk t k c) = sLk t (k + 1) c := by rw [← sL_eq_sLP t i1]; rfl
      exact ⟨hn, (hb.sL_sR i2 e hn).1⟩
  have hstep : ∀ k, k < m → sRP t.opp (sLk t (k + 1) c) = sLk t k c := by
    intro k hk
    obtain ⟨i1, i2⟩ := hval k (by omega)
    obtain ⟨j1, _⟩ := hval (k + 1) (by omega)
    have e : sLP t.opp (sLk t k c) = sLk t (k + 1) c := by rw [← sL_eq_sLP t i1]; rfl
    exact (hb.sL_sR i2 e j1).2
  intro a
  induction a with
  | zero => exact ⟨0, by omega, rfl⟩
  | succ a ih =>
    obtain ⟨k, hk, e⟩ := ih
    rw [iter_succ', e]
    by_cases k0 : k = 0
    · subst k0
      refine ⟨m - 1, by omega, ?_⟩
      show sRP t.opp c = _
      have := hstep (m - 1) (by omega)
      rw [show m - 1 + 1 = m by omega, hcl] at this
      exact this
    · refine ⟨k - 1, by omega, ?_⟩
      have := hstep (k - 1) (by omega)
      rw [show k - 1 + 1 = k by omega] at this
      exact this

/-- **the combinatorial half of `¬ FanEarlier`** -/
theorem notFanEarlier_core {t : CT} (hT : TblOK t) (hcov : Cover t) {P : Array Nat}
    (hdist : ∀ i, i < P.size → ∀ i', i' < P.size → P[i]! / 3 = P[i']! / 3 → i = i') {j : Nat} (hj : j < P.size)
    (hc : P[j]! < t.numCorners) (hnd : isDegenA t.c2v (P[j]! / 3) = false) {z : Nat} (hz : z < t.numCorners)
    (hznd : isDegenA t.c2v (z / 3) = false) (hv : t.c2v[z]! = t.c2v[P[j]!]!)
    (hw : (∃ i, j < i ∧ i < P.size ∧ P[i]! / 3 = z / 3) ∨ t.opp[Eb.nextC z]! = inv ∨ t.opp[Eb.prevC z]! = inv) :
    ¬ FanEarlier t P j P[j]! := by
  rintro ⟨m, _, hm, hcl, hE⟩
  have hb := hT.base
  have hk := hT.ctok
  have hne : ∀ k, k < m → 0 < k → sLk t k P[j]! ≠ inv := fun k h1 h2 => (hE k h1 h2).1
  have hcyc := sR_in_cycle hT hc (by omega) hcl hne
  have hclosed : ∀ a, iter (sRP t.opp) a P[j]! ≠ inv := by
    intro a
    obtain ⟨k, hk', e⟩ := hcyc a
    rw [e]
    by_cases k0 : k = 0
    · subst k0; exact hb.ne_inv hc
    · exact hne k hk' (by omega)
  -- `z` lies in the cycle
  obtain ⟨_, kx, hkx⟩ := hcov _ hc hnd
  obtain ⟨_, kz, hkz⟩ := hcov z hz hznd
  rw [hv] at hkz
  have hin : ∃ a, iter (sRP t.opp) a P[j]! = z := by
    by_cases hkk : kx ≤ kz
    · exact ⟨kz - kx, by rw [← hkx, ← iter_add, show kx + (kz - kx) = kz by omega, hkz]⟩
    · have e : iter (sRP t.opp) (kx - kz) z = P[j]! := by
        rw [← hkz, ← iter_add, show kz + (kx - kz) = kx by omega, hkx]
      exact DecSimHole.inFan_of_closed hb hc hz hclosed e
  obtain ⟨a, ha⟩ := hin
  obtain ⟨k, hk', e⟩ := hcyc a
  rw [ha] at e
  -- both neighbours of `z` in the fan exist
  have hzi := hb.ne_inv hz
  have hsR : sRP t.opp z ≠ inv := by rw [← ha, ← iter_succ' (sRP t.opp) a P[j]!]; exact hclosed _
  have hsL : sL t z ≠ inv := by
    rw [e]
    show sLk t (k + 1) P[j]! ≠ inv
    by_cases e' : k + 1 = m
    · rw [e', hcl]; exact hb.ne_inv hc
    · exact hne _ (by omega) (by omega)
  have hon : t.opp[Eb.nextC z]! ≠ inv := by
    intro e'; apply hsL; unfold sL; rw [e', nextC_inv]
  have hop : t.opp[Eb.prevC z]! ≠ inv := by
    intro e'; apply hsR; rw [sRP_eq _ hzi, e', prevC_inv]
  rcases hw with ⟨i, hi1, hi2, hi3⟩ | h | h
  · by_cases k0 : k = 0
    · subst k0
      have : z = P[j]! := e
      rw [this] at hi3
      have hh : i = j := hdist i hi2 j hj hi3
      omega
    · obtain ⟨_, i0, h1, h2⟩ := hE k hk' (by omega)
      rw [← e] at h2
      have hi0 : i0 < P.size := by omega
      have hh : i = i0 := hdist i hi2 i0 hi0 (by rw [hi3, h2])
      omega
  · exact hon h
  · exact hop h

/-- … for the result of a run: `¬ FanEarlier` at `j` from a witness corner at the tip vertex -/
theorem notFanEarlier_of_witness (ch : ConnChoices) (pf : Faces) (conn : ConnEnc)
    (h : encodeConnectivity ch false pf #[] = .ok conn) {j : Nat} (hj : j < conn.processed.size) {z : Nat}
    (hz : z < conn.ct.numCorners) (hznd : isDegenA conn.ct.c2v (z / 3) = false)
    (hv : conn.ct.c2v[z]! = conn.ct.c2v[conn.processed[j]!]!)
    (hw : (∃ i, j < i ∧ i < conn.processed.size ∧ conn.processed[i]! / 3 = z / 3) ∨
      conn.ct.opp[Eb.nextC z]! = inv ∨ conn.ct.opp[Eb.prevC z]! = inv) :
    ¬ FanEarlier conn.ct conn.processed j conn.processed[j]! := by
  obtain ⟨hT, _, hdist, _⟩ := EncTraceS.traceS_base_of_run ch pf conn h
  obtain ⟨table, _, hcreate, hct, _⟩ := encodeConnectivity_visited ch false pf #[] conn h
  have hcov : Cover conn.ct := by rw [hct]; exact cover_ofTable hcreate
  have hk := hT.ctok
  have hmem : conn.processed[j]! ∈ conn.processed.toList := mem_toList_iff_get.mpr ⟨j, hj, rfl⟩
  obtain ⟨hc, hdeg⟩ := (encodeConnectivity_faces ch false pf #[] conn h).2.1 _ hmem
  have h3 := hk.three
  have hf : conn.processed[j]! / 3 < conn.ct.numFaces := by
    have : conn.processed[j]! < conn.ct.c2v.size := hc
    omega
  have hnd : isDegenA conn.ct.c2v (conn.processed[j]! / 3) = false := (isDegenerated_ok hk hf hdeg).symm
  exact notFanEarlier_core hT hcov hdist hj hc hnd hz hznd hv hw

/-- **`TraceS` of a run with boundary start faces only**; named hypotheses: `hflags`; `hwit` — at every `S` a witness corner
    at the tip vertex (a face decoded later, or an unglued edge); `hnoev` — the no-event left-neighbour clause; `hcomps` -/
theorem traceS_of_run_boundary (ch : ConnChoices) (pf : Faces) (conn : ConnEnc)
    (h : encodeConnectivity ch false pf #[] = .ok conn)
    (hstart : ∀ b, b ∈ conn.startFaces.toList → b = false) (starts : List (Bool × Nat))
    (hflags : starts.map (·.1) = conn.startFaces.toList)
    (hwit : ∀ j, j < conn.symbols.toList.reverse.length → conn.symbols.toList.reverse[j]! = 1 →
      ∃ z, z < conn.ct.numCorners ∧ isDegenA conn.ct.c2v (z / 3) = false ∧
        conn.ct.c2v[z]! = conn.ct.c2v[conn.processed[j]!]! ∧
        ((∃ i, j < i ∧ i < conn.processed.size ∧ conn.processed[i]! / 3 = z / 3) ∨
          conn.ct.opp[Eb.nextC z]! = inv ∨ conn.ct.opp[Eb.prevC z]! = inv))
    (hnoev : ∀ j, j < conn.symbols.toList.reverse.length → conn.symbols.toList.reverse[j]! = 1 →
      hasEv conn.symbols.toList.reverse.length conn.splits.toList.reverse j = false →
        1 < (stk conn.symbols.toList.reverse conn.splits.toList.reverse j).length ∧
        conn.ct.opp[Eb.prevC conn.processed[j]!]! =
          conn.processed[(stk conn.symbols.toList.reverse conn.splits.toList.reverse j)[1]!]!)
    (hcomps : starts.map (·.2) =
      stk conn.symbols.toList.reverse conn.splits.toList.reverse conn.symbols.toList.reverse.length) :
    TblOK conn.ct ∧
      TraceS conn.ct conn.processed conn.symbols.toList.reverse conn.splits.toList.reverse starts := by
  obtain ⟨_, hsz, _, _⟩ := EncTraceS.traceS_base_of_run ch pf conn h
  refine EncTraceS.traceS_of_run_partial2 ch pf conn h starts hflags ?_ hcomps ?_
  · intro j hj hs
    obtain ⟨z, z1, z2, z3, z4⟩ := hwit j hj hs
    exact ⟨notFanEarlier_of_witness ch pf conn h (by omega) z1 z2 z3 z4, hnoev j hj hs⟩
  · intro k hk hflag
    exfalso
    have hmem : starts[k]!.1 ∈ starts.map (·.1) := by
      rw [List.mem_map]
      exact ⟨starts[k]!, by rw [getElem!_pos starts k hk]; exact List.getElem_mem hk, rfl⟩
    rw [hflags] at hmem
    have := hstart _ hmem
    rw [this] at hflag
    cases hflag

end Draco.EbEnc.EncTraceS2
